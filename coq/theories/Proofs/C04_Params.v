(* C04 — from the certificate (operator space) to the property's own words (Euclidean norm of the stacked parameters).
   For an orthonormal basis the coefficient map  v |-> sum_a v_a B_a  (states, POVM elements) and  HS |-> Choi  (gates,
   instrument elements) are isometries (Parseval: Proofs/C02_QObjBase.v born_hs_inner / choi_frobenius), so what
   cert_check establishes about the OPERATORS of the input and output of an inequality projection is a statement about
   their PARAMETER vectors: no parameter vector whose operator is PSD is closer to the input than the output (up to the
   slack), and with zero slack the output is the unique nearest one. *)
From Coq Require Import Field Ring Setoid Arith Lia Bool.
From QV.Core Require Import OF Sums Mat Cplx Psd C04_ProjCert.
From QV.Model Require Import QObj HermEmbed C04_Cert C04_Proj C04_EigClip.
From QV.Proofs Require Import C02_QObjBase C04_Herm C04_EigClip.

Section C04Params.
Context (F : OF).
Add Field Ffp : (k_field F).
Notation Cx := (CF F).
Notation "0" := (c0 F). Notation "1" := (c1 F).
Infix "+" := (cadd F). Infix "*" := (cmul F). Infix "<=" := (kle F). Infix "-" := (csub F).
Notation "- x" := (copp F x).
Notation cmat := (cmat F). Notation rvec := (rvec F). Notation rmat := (rmat F).

(* the real Frobenius inner product of complex matrices is the real part of the Hilbert-Schmidt inner product *)
Lemma cre_inner_hs n (A X : cmat) : cre_inner n A X = re (hs_inner n A X).
Proof. unfold cre_inner, hs_inner. rewrite re_sumn. apply sumn_ext; intros i _. rewrite re_sumn. apply sumn_ext; intros j _.
  destruct (A i j), (X i j); cbn; ring. Qed.
Lemma cre_inner_ext n (A A' X X' : cmat) : meq n n A A' -> meq n n X X' -> cre_inner n A X = cre_inner n A' X'.
Proof. intros HA HX. unfold cre_inner. apply sumn_ext; intros i Hi. apply sumn_ext; intros j Hj.
  now rewrite (HA i j Hi Hj), (HX i j Hi Hj). Qed.

(* ---------------------------------------------------------------- states / POVM elements *)
Lemma op_sub d (B : nat -> cmat) (a b : rvec) i j :
  csubm (op_of_vec d B a) (op_of_vec d B b) i j = op_of_vec d B (vsub a b) i j.
Proof. unfold csubm, op_of_vec, vsub. apply cplx_eq; cbn [re im zsub fst snd]; rewrite ?re_sumn, ?im_sumn, <- sumn_sub;
  apply sumn_ext; intros k _; cbn; ring. Qed.
Lemma hdist2_op d (B : nat -> cmat) (a b : rvec) : basis_orthonormal d B ->
  hdist2 d (op_of_vec d B a) (op_of_vec d B b) = vdist2 (d * d) a b.
Proof. intros Ho. unfold hdist2.
  rewrite (cre_inner_ext d _ (op_of_vec d B (vsub a b)) _ (op_of_vec d B (vsub a b))) by (intros i j _ _; apply op_sub).
  rewrite cre_inner_hs, (born_hs_inner F d B _ _ Ho). reflexivity. Qed.

(* what the executed certificate says about parameter vectors: y = input, x = output *)
Theorem vec_cert_params d (B : nat -> cmat) (x y : rvec) eps delta :
  basis_orthonormal d B -> basis_hermitian d B ->
  cert_check d (op_of_vec d B x) (op_of_vec d B y) eps delta = true ->
  PSD F (d + d) (shift eps (embed F d (op_of_vec d B x))) /\
  forall z : rvec, herm_PSD d (op_of_vec d B z) ->
    vdist2 (d * d) y x + vdist2 (d * d) x z - (delta + delta) - (eps + eps) * re_trace d (op_of_vec d B z) <= vdist2 (d * d) y z.
Proof. intros Ho Hh Hc. destruct (cert_check_sound F d _ _ eps delta Hc) as (_ & _ & PX & N). split; [exact PX|].
  intros z Pz. specialize (N (op_of_vec d B z) (op_of_vec_hermitian F d B z Hh) Pz).
  now rewrite !(hdist2_op d B) in N by exact Ho. Qed.

(* zero slack: the output's operator is PSD and the output is THE nearest parameter vector with a PSD operator *)
Theorem vec_cert_params_exact d (B : nat -> cmat) (x y : rvec) :
  basis_orthonormal d B -> basis_hermitian d B ->
  cert_check d (op_of_vec d B x) (op_of_vec d B y) 0 0 = true ->
  herm_PSD d (op_of_vec d B x) /\
  forall z : rvec, herm_PSD d (op_of_vec d B z) ->
    vdist2 (d * d) y x <= vdist2 (d * d) y z /\
    (vdist2 (d * d) y z <= vdist2 (d * d) y x -> veq (d * d) z x).
Proof. intros Ho Hh Hc. destruct (herm_proj_exact F d _ _ Hc) as [PX N]. split; [exact PX|].
  intros z Pz. destruct (N (op_of_vec d B z) (op_of_vec_hermitian F d B z Hh) Pz) as [N1 N2].
  rewrite !(hdist2_op d B) in N1, N2 by exact Ho. split; [exact N1|].
  intros Hle a Ha. specialize (N2 Hle).
  rewrite <- (vec_of_op_of_vec F d B z a Ho Ha), <- (vec_of_op_of_vec F d B x a Ho Ha).
  unfold vec_of_op. f_equal. apply hs_inner_ext; [apply meq_refl|]. intros i j Hi Hj. now apply N2. Qed.

(* ---------------------------------------------------------------- gates / instrument elements: stacked HS vector -> Choi matrix *)
Lemma choi_sub d (B : nat -> cmat) (H H' : rmat) i j :
  csubm (choi_of_hs d B H) (choi_of_hs d B H') i j = choi_of_hs d B (msub H H') i j.
Proof. unfold csubm, choi_of_hs, msub. apply cplx_eq; cbn [re im zsub fst snd]; rewrite ?re_sumn, ?im_sumn, <- sumn_sub;
  apply sumn_ext; intros a _; rewrite ?re_sumn, ?im_sumn, <- sumn_sub; apply sumn_ext; intros b _; cbn; ring. Qed.
Lemma hdist2_choi d (B : nat -> cmat) (s s' : rvec) : basis_orthonormal d B ->
  hdist2 (d * d) (choi_of_hs d B (gate_unstack F (d * d) s)) (choi_of_hs d B (gate_unstack F (d * d) s'))
  = vdist2 ((d * d) * (d * d)) s s'.
Proof. intros Ho. unfold hdist2.
  rewrite (cre_inner_ext (d * d) _ (choi_of_hs d B (msub (gate_unstack F (d * d) s) (gate_unstack F (d * d) s'))) _
             (choi_of_hs d B (msub (gate_unstack F (d * d) s) (gate_unstack F (d * d) s')))) by (intros i j _ _; apply choi_sub).
  rewrite cre_inner_hs, (choi_frobenius F d B _ _ Ho). cbn [re zof fst].
  unfold vdist2, dot, Mat.inner. rewrite (sumn_flat (d * d) (d * d)). apply sumn_ext; intros a _. apply sumn_ext; intros b _.
  unfold msub, gate_unstack, unvecr, vsub. reflexivity. Qed.

Theorem hs_cert_params d (B : nat -> cmat) (x y : rvec) eps delta :
  basis_orthonormal d B -> basis_hermitian d B ->
  cert_check (d * d) (choi_of_hs d B (gate_unstack F (d * d) x)) (choi_of_hs d B (gate_unstack F (d * d) y)) eps delta = true ->
  PSD F (d * d + d * d) (shift eps (embed F (d * d) (choi_of_hs d B (gate_unstack F (d * d) x)))) /\
  forall z : rvec, herm_PSD (d * d) (choi_of_hs d B (gate_unstack F (d * d) z)) ->
    vdist2 ((d * d) * (d * d)) y x + vdist2 ((d * d) * (d * d)) x z - (delta + delta)
      - (eps + eps) * re_trace (d * d) (choi_of_hs d B (gate_unstack F (d * d) z)) <= vdist2 ((d * d) * (d * d)) y z.
Proof. intros Ho Hh Hc. destruct (cert_check_sound F (d * d) _ _ eps delta Hc) as (_ & _ & PX & N). split; [exact PX|].
  intros z Pz. specialize (N _ (choi_of_hs_hermitian F d B (gate_unstack F (d * d) z) Hh) Pz).
  now rewrite !(hdist2_choi d B) in N by exact Ho. Qed.

Theorem hs_cert_params_exact d (B : nat -> cmat) (x y : rvec) :
  basis_orthonormal d B -> basis_hermitian d B ->
  cert_check (d * d) (choi_of_hs d B (gate_unstack F (d * d) x)) (choi_of_hs d B (gate_unstack F (d * d) y)) 0 0 = true ->
  herm_PSD (d * d) (choi_of_hs d B (gate_unstack F (d * d) x)) /\
  forall z : rvec, herm_PSD (d * d) (choi_of_hs d B (gate_unstack F (d * d) z)) ->
    vdist2 ((d * d) * (d * d)) y x <= vdist2 ((d * d) * (d * d)) y z /\
    (vdist2 ((d * d) * (d * d)) y z <= vdist2 ((d * d) * (d * d)) y x -> veq ((d * d) * (d * d)) z x).
Proof. intros Ho Hh Hc. destruct (herm_proj_exact F (d * d) _ _ Hc) as [PX N]. split; [exact PX|].
  intros z Pz. destruct (N _ (choi_of_hs_hermitian F d B (gate_unstack F (d * d) z) Hh) Pz) as [N1 N2].
  rewrite !(hdist2_choi d B) in N1, N2 by exact Ho. split; [exact N1|].
  intros Hle k Hk. specialize (N2 Hle).
  assert (Hn : (d * d <> 0)%nat) by (intros E; rewrite E in Hk; cbn in Hk; lia).
  assert (Ha : (k / (d * d) < d * d)%nat) by (apply Nat.div_lt_upper_bound; [exact Hn|exact Hk]).
  assert (Hb : (k mod (d * d) < d * d)%nat) by (apply Nat.mod_upper_bound; exact Hn).
  assert (E : forall s : rvec, s k = gate_unstack F (d * d) s (k / (d * d))%nat (k mod (d * d))%nat).
  { intros s. unfold gate_unstack, unvecr. f_equal. rewrite Nat.mul_comm. apply Nat.div_mod_eq. }
  rewrite (E z), (E x).
  rewrite <- (hs_of_choi_of_hs F d B (gate_unstack F (d * d) z) _ _ Ho Ha Hb), <- (hs_of_choi_of_hs F d B (gate_unstack F (d * d) x) _ _ Ho Ha Hb).
  unfold hs_of_choi, chs_of_choi. f_equal. apply hs_inner_ext; [apply meq_refl|]. intros i j Hi Hj. now apply N2. Qed.

(* ---------------------------------------------------------------- end to end: the projections as coded, eigh as an oracle *)
Lemma embed_ext n (A A' : cmat) : meq n n A A' -> meq (n + n) (n + n) (embed F n A) (embed F n A').
Proof. intros H i j Hi Hj. unfold embed.
  destruct (Nat.ltb_spec i n), (Nat.ltb_spec j n); rewrite H by lia; reflexivity. Qed.
Lemma herm_PSD_ext n (A A' : cmat) : meq n n A A' -> herm_PSD n A -> herm_PSD n A'.
Proof. intros H. unfold herm_PSD. apply PSD_ext. now apply embed_ext. Qed.
Lemma hdist2_ext n (A A' X X' : cmat) : meq n n A A' -> meq n n X X' -> hdist2 n A X = hdist2 n A' X'.
Proof. intros HA HX. unfold hdist2. apply cre_inner_ext; intros i j Hi Hj; unfold csubm; now rewrite (HA i j Hi Hj), (HX i j Hi Hj). Qed.

(* State / POVM element: y = input coefficients, (U, w) = what eigh returns for the operator of y *)
Theorem vec_proj_ineq_nearest d (B : nat -> cmat) (y : rvec) (U : cmat) (w : nat -> F) :
  basis_orthonormal d B -> basis_hermitian d B -> basis_complete d B ->
  eigh_contract d (op_of_vec d B y) U w ->
  herm_PSD d (op_of_vec d B (vec_proj_ineq d B U w)) /\
  forall z : rvec, herm_PSD d (op_of_vec d B z) ->
    vdist2 (d * d) y (vec_proj_ineq d B U w) <= vdist2 (d * d) y z /\
    (vdist2 (d * d) y z <= vdist2 (d * d) y (vec_proj_ineq d B U w) -> veq (d * d) z (vec_proj_ineq d B U w)).
Proof. intros Ho Hh Hc [HU HY]. destruct (eig_clip_nearest F d U w HU) as (_ & HX & PX & N).
  set (x := vec_proj_ineq d B U w).
  assert (MX : meq d d (op_of_vec d B x) (eig_clip d U w)).
  { intros i j Hi Hj. unfold x, vec_proj_ineq. now apply op_of_vec_of_op. }
  split; [apply (herm_PSD_ext d _ _ (meq_sym _ _ _ _ MX) PX)|].
  intros z Pz. destruct (N (op_of_vec d B z) (op_of_vec_hermitian F d B z Hh) Pz) as [N1 N2].
  rewrite <- (hdist2_ext d _ _ _ _ HY MX), <- (hdist2_ext d _ _ _ _ HY (meq_refl d d (op_of_vec d B z))) in N1, N2.
  rewrite !(hdist2_op d B) in N1, N2 by exact Ho. split; [exact N1|].
  intros Hle a Ha. specialize (N2 Hle).
  rewrite <- (vec_of_op_of_vec F d B z a Ho Ha), <- (vec_of_op_of_vec F d B x a Ho Ha).
  unfold vec_of_op. f_equal. apply hs_inner_ext; [apply meq_refl|]. intros i j Hi Hj.
  rewrite (MX i j Hi Hj). now apply N2. Qed.

(* Gate / instrument element: y = flattened HS matrix, (U, w) = what eigh returns for its Choi matrix *)
Theorem hs_proj_ineq_nearest d (B : nat -> cmat) (y : rvec) (U : cmat) (w : nat -> F) :
  basis_orthonormal d B -> basis_hermitian d B -> basis_complete d B ->
  eigh_contract (d * d) (choi_of_hs d B (gate_unstack F (d * d) y)) U w ->
  let x := hs_proj_ineq d B U w in
  herm_PSD (d * d) (choi_of_hs d B (gate_unstack F (d * d) x)) /\
  forall z : rvec, herm_PSD (d * d) (choi_of_hs d B (gate_unstack F (d * d) z)) ->
    vdist2 ((d * d) * (d * d)) y x <= vdist2 ((d * d) * (d * d)) y z /\
    (vdist2 ((d * d) * (d * d)) y z <= vdist2 ((d * d) * (d * d)) y x -> veq ((d * d) * (d * d)) z x).
Proof. intros Ho Hh Hc [HU HY] x. destruct (eig_clip_nearest F (d * d) U w HU) as (_ & HX & PX & N).
  assert (MH : meq (d * d) (d * d) (gate_unstack F (d * d) x) (hs_of_choi d B (eig_clip (d * d) U w))).
  { intros a b Ha Hb. unfold x, hs_proj_ineq, gate_unstack. now apply unvecr_vecr. }
  assert (MX : meq (d * d) (d * d) (choi_of_hs d B (gate_unstack F (d * d) x)) (eig_clip (d * d) U w)).
  { intros i j Hi Hj. rewrite <- (choi_of_hs_of_choi F d B (eig_clip (d * d) U w) i j Hc Hh HX Hi Hj).
    unfold choi_of_hs. apply sumn_ext; intros a Ha. apply sumn_ext; intros b Hb. now rewrite (MH a b Ha Hb). }
  split; [apply (herm_PSD_ext (d * d) _ _ (meq_sym _ _ _ _ MX) PX)|].
  intros z Pz. destruct (N _ (choi_of_hs_hermitian F d B (gate_unstack F (d * d) z) Hh) Pz) as [N1 N2].
  rewrite <- (hdist2_ext (d * d) _ _ _ _ HY MX), <- (hdist2_ext (d * d) _ _ _ _ HY (meq_refl _ _ (choi_of_hs d B (gate_unstack F (d * d) z)))) in N1, N2.
  rewrite !(hdist2_choi d B) in N1, N2 by exact Ho. split; [exact N1|].
  intros Hle k Hk. specialize (N2 Hle).
  assert (Hn : (d * d <> 0)%nat) by (intros E; rewrite E in Hk; cbn in Hk; lia).
  assert (Ha : (k / (d * d) < d * d)%nat) by (apply Nat.div_lt_upper_bound; [exact Hn|exact Hk]).
  assert (Hb : (k mod (d * d) < d * d)%nat) by (apply Nat.mod_upper_bound; exact Hn).
  assert (E : forall s : rvec, s k = gate_unstack F (d * d) s (k / (d * d))%nat (k mod (d * d))%nat).
  { intros s. unfold gate_unstack, unvecr. f_equal. rewrite Nat.mul_comm. apply Nat.div_mod_eq. }
  rewrite (E z), (E x).
  rewrite <- (hs_of_choi_of_hs F d B (gate_unstack F (d * d) z) _ _ Ho Ha Hb), <- (hs_of_choi_of_hs F d B (gate_unstack F (d * d) x) _ _ Ho Ha Hb).
  unfold hs_of_choi, chs_of_choi. f_equal. apply hs_inner_ext; [apply meq_refl|]. intros i j Hi Hj.
  rewrite (MX i j Hi Hj). now apply N2. Qed.

(* ---------------------------------------------------------------- POVMs / instruments: the stacked vector is the concatenation of m blocks *)
Definition blk (n : nat) (s : rvec) (k : nat) : rvec := fun a => s (k * n + a)%nat.
Lemma vdist2_blocks m n (s t : rvec) : vdist2 (m * n) s t = sumn m (fun k => vdist2 n (blk n s k) (blk n t k)).
Proof. unfold vdist2, dot. rewrite sumn_flat. apply sumn_ext; intros k _. apply sumn_ext; intros a _. reflexivity. Qed.
Lemma blocks_nearest m n (y x z : rvec) :
  (forall k, (k < m)%nat -> vdist2 n (blk n y k) (blk n x k) <= vdist2 n (blk n y k) (blk n z k)) ->
  vdist2 (m * n) y x <= vdist2 (m * n) y z.
Proof. intros H. rewrite !vdist2_blocks. now apply product_nearest. Qed.

(* Povm: every element certified => the stacked output is nearest among all stacked vectors whose elements are all PSD *)
Theorem povm_cert_params_exact d (B : nat -> cmat) m (x y : rvec) :
  basis_orthonormal d B -> basis_hermitian d B ->
  (forall k, (k < m)%nat -> cert_check d (op_of_vec d B (blk (d * d) x k)) (op_of_vec d B (blk (d * d) y k)) 0 0 = true) ->
  (forall k, (k < m)%nat -> herm_PSD d (op_of_vec d B (blk (d * d) x k))) /\
  forall z : rvec, (forall k, (k < m)%nat -> herm_PSD d (op_of_vec d B (blk (d * d) z k))) ->
    vdist2 (m * (d * d)) y x <= vdist2 (m * (d * d)) y z.
Proof. intros Ho Hh Hc. split.
  - intros k Hk. exact (proj1 (vec_cert_params_exact d B _ _ Ho Hh (Hc k Hk))).
  - intros z Pz. apply blocks_nearest. intros k Hk.
    exact (proj1 (proj2 (vec_cert_params_exact d B _ _ Ho Hh (Hc k Hk)) (blk (d * d) z k) (Pz k Hk))). Qed.

(* MProcess: every outcome's Choi matrix certified => the stacked output is nearest among all instruments-to-be with PSD Choi matrices *)
Theorem mprocess_cert_params_exact d (B : nat -> cmat) m (x y : rvec) :
  basis_orthonormal d B -> basis_hermitian d B ->
  (forall k, (k < m)%nat -> cert_check (d * d) (choi_of_hs d B (gate_unstack F (d * d) (blk ((d * d) * (d * d)) x k)))
                                        (choi_of_hs d B (gate_unstack F (d * d) (blk ((d * d) * (d * d)) y k))) 0 0 = true) ->
  (forall k, (k < m)%nat -> herm_PSD (d * d) (choi_of_hs d B (gate_unstack F (d * d) (blk ((d * d) * (d * d)) x k)))) /\
  forall z : rvec, (forall k, (k < m)%nat -> herm_PSD (d * d) (choi_of_hs d B (gate_unstack F (d * d) (blk ((d * d) * (d * d)) z k)))) ->
    vdist2 (m * ((d * d) * (d * d))) y x <= vdist2 (m * ((d * d) * (d * d))) y z.
Proof. intros Ho Hh Hc. split.
  - intros k Hk. exact (proj1 (hs_cert_params_exact d B _ _ Ho Hh (Hc k Hk))).
  - intros z Pz. apply blocks_nearest. intros k Hk.
    exact (proj1 (proj2 (hs_cert_params_exact d B _ _ Ho Hh (Hc k Hk)) (blk ((d * d) * (d * d)) z k) (Pz k Hk))). Qed.
End C04Params.
Arguments blk {F} n s k _.
