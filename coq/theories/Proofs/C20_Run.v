(* C20 — an accepted schedule that ends in its only POVM yields a normalised distribution. *)
From Coq Require Import ZArith List Ring Lia.
From QV.Core Require Import OF Sums Mat.
From QV.Model Require Import C20_Schedule C20_Run.
From QV.Proofs Require Import C20_Schedule.
Import ListNotations.

Section Run.
Context {R : CR}.
Add Ring Rrun : (c_ring R).
Variable n : nat.
Notation "0" := (c0 R). Notation "1" := (c1 R).
Infix "+" := (cadd R).

Lemma lsum_nil : @lsum R [] = 0. Proof. reflexivity. Qed.
Lemma lsum_cons x (l : list R) : lsum (x :: l) = x + lsum l. Proof. reflexivity. Qed.
Lemma lsum_app (a b : list R) : lsum (a ++ b) = lsum a + lsum b.
Proof.
  induction a as [|x a IH].
  - change ([] ++ b) with b. rewrite lsum_nil. ring.
  - change ((x :: a) ++ b) with (x :: (a ++ b)). rewrite !lsum_cons, IH. ring.
Qed.
Lemma lsum_map_flat_map {A B} (f : B -> R) (g : A -> list B) (l : list A) :
  lsum (map f (flat_map g l)) = lsum (map (fun x => lsum (map f (g x))) l).
Proof.
  induction l as [|x l IH]; [reflexivity|].
  cbn [flat_map map]. now rewrite map_app, lsum_app, lsum_cons, IH.
Qed.
Lemma lsum_flat_map {A} (g : A -> list R) (l : list A) : lsum (flat_map g l) = lsum (map (fun x => lsum (g x)) l).
Proof. induction l as [|x l IH]; [reflexivity|]. cbn [flat_map map]. now rewrite lsum_app, lsum_cons, IH. Qed.
Lemma lsum_map_ext {A} (f g : A -> R) l : (forall x, f x = g x) -> lsum (map f l) = lsum (map g l).
Proof. intros H. induction l as [|x l IH]; [reflexivity|]. cbn [map]. now rewrite !lsum_cons, H, IH. Qed.

Variable tr : @vec R.
Variable O : @objects R.
Hypothesis phys : physical n tr O.

Lemma measure_sum zp bs : lsum (measure n O zp bs) = lsum (map (dot n tr) bs).
Proof.
  destruct phys as (_ & _ & _ & Hp). unfold measure. rewrite lsum_flat_map. apply lsum_map_ext. intros v. apply Hp.
Qed.
Lemma run_mid_sum mid : forall bs, lsum (map (dot n tr) (run_mid n O mid bs)) = lsum (map (dot n tr) bs).
Proof.
  destruct phys as (_ & Hg & Hm & _).
  induction mid as [|[k z] mid IH]; intros bs; [reflexivity|]. destruct k; cbn [run_mid]; rewrite IH; try reflexivity.
  - rewrite map_map. apply lsum_map_ext. intros v. apply Hg.
  - rewrite lsum_map_flat_map. apply lsum_map_ext. intros v. rewrite map_map. apply Hm.
Qed.
Theorem run_dist_normalised z0 rest : lsum (run_dist n O ((KState, z0) :: rest)) = 1.
Proof.
  cbn [run_dist]. rewrite measure_sum, run_mid_sum. cbn [map]. rewrite lsum_cons, lsum_nil. destruct phys as (Hs & _). rewrite Hs. ring.
Qed.
(* stated for the schedules of the property: accepted by the Experiment and ending in the (only) POVM *)
Theorem accepted_povm_schedule_normalised c s :
  well_formed c (sched_of s) -> ends_in_povm s = true -> lsum (run_dist n O s) = 1.
Proof.
  intros (t & H & _ & (_ & (z & rest & -> & _) & _)) _. fold (sched_of ((KState, z) :: rest)) in H. apply sched_of_inj in H. subst s. apply run_dist_normalised.
Qed.
End Run.
