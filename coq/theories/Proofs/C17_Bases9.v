(* C17 — the two 2-qutrit matrix-basis tables (generalized Gell-Mann, plain and normalised: 81 elements of 9 x 9) are
   orthogonal, complete, Hermitian, identity-first / traceless (and normalised), and with them every named basis instance.
   Separate file only because the table check takes ~25 s.  Axiom-free. *)
From Coq Require Import ZArith List Bool Arith.
From QV.Core Require Import OF Sums Mat C17_Z8.
From QV.Model Require Import C17_Tables.
From QV.Proofs Require Import C17_Tables.
Import ListNotations.

Theorem named_bases_ok_2qutrit : Forall basis_ok basis_instances_2qutrit.
Proof. apply (forallb_Forall basis_okb); [exact basis_okb_spec|]. vm_cast_no_check (@eq_refl bool true). Qed.

Theorem named_bases_ok : Forall basis_ok basis_instances.
Proof. apply Forall_app. split; [exact named_bases_ok_small|exact named_bases_ok_2qutrit]. Qed.
