(* C13 - proofs about the loss / algorithm configuration machines. *)
From Coq Require Import List Bool Lia.
From QV.Model Require Import C13_Loss.
Import ListNotations.

Section Loss.
Context {D W V : Type} (invw : bool -> D -> W) (val : D -> option W -> V).
Notation lop := (@lop D W). Notation wmode := (@wmode W).
Notation g_step := (g_step invw). Notation g_run := (g_run invw). Notation g_value := (g_value val).
Notation f_step := (f_step invw). Notation f_run := (f_run invw). Notation f_value := (f_value val).
Notation new_weights := (new_weights invw). Notation spec := (spec invw val).
Notation spec_weights := (spec_weights invw). Notation last_weights := (last_weights invw).

Definition resets (o : wmode) : Prop := match o with Identity | Unhandled => False | _ => True end.

Lemma new_weights_resets o d w w' : resets o -> new_weights o d w = new_weights o d w'.
Proof. destruct o; cbn; intros H; try reflexivity; contradiction. Qed.
Lemma new_weights_spec o d w : resets o -> new_weights o d w = spec_weights o d.
Proof. destruct o; cbn; intros H; try reflexivity; contradiction. Qed.
(* the parametrised step: without repairs it is the code as it was, with all of them the weights are the option's *)
Lemma new_weights_p_as_coded o d w : new_weights_p invw as_coded o d w = new_weights o d w.
Proof. now destruct o. Qed.
Lemma new_weights_p_repaired o d w : new_weights_p invw repaired o d w = spec_weights o d.
Proof. now destruct o. Qed.

(* ---------- generic loss ---------- *)
Lemma g_run_app a b s : g_run (a ++ b) s = g_run b (g_run a s).
Proof. apply fold_left_app. Qed.
Lemma g_run_weights ops : forall s, g_w (g_run ops s) = last_weights ops (g_w s).
Proof. induction ops as [|op ops IH]; intros s; [reflexivity|].
  change (g_run (op :: ops) s) with (g_run ops (g_step s op)). rewrite IH. now destruct op. Qed.

(* exact description: after ANY history, a configuration leaves the weights that the option names if it
   names any, otherwise those left behind by the history *)
Theorem g_value_after_configure ops w0 d o :
  g_value (g_run (ops ++ [Configure d o]) (g_init w0)) = Some (val d (new_weights o d (last_weights ops w0))).
Proof. rewrite g_run_app. cbn. unfold C13_Loss.g_value. cbn. now rewrite g_run_weights. Qed.

(* positive: custom and inverse-covariance modes are history independent *)
Theorem g_configure_history_independent ops w0 d o :
  resets o -> g_value (g_run (ops ++ [Configure d o]) (g_init w0)) = Some (spec d o).
Proof. intros H. rewrite g_value_after_configure. unfold C13_Loss.spec.
  now rewrite (new_weights_spec o d _ H). Qed.

(* positive: identity is right as long as nothing ever set weights *)
Lemma last_weights_all_identity ops : all_identity ops -> forall w, last_weights ops w = w.
Proof. induction 1 as [|op ops H _ IH]; intros w; [reflexivity|].
  destruct op as [d o|w']; [|contradiction]. destruct o; try contradiction; cbn; apply IH. Qed.
Theorem g_identity_only_history_independent ops d :
  all_identity ops -> g_value (g_run (ops ++ [Configure d Identity]) (g_init None)) = Some (spec d Identity).
Proof. intros H. rewrite g_value_after_configure. cbn. now rewrite (last_weights_all_identity ops H). Qed.

(* refuted: "identity" after a weighted configuration keeps the old weights.  For every dataset on which
   weights matter at all the reused object gives another value than a fresh one. *)
Theorem g_identity_history_independent_refuted d d1 :
  val d (Some (invw false d1)) <> val d None ->
  exists ops, g_value (g_run (ops ++ [Configure d Identity]) (g_init None)) <> Some (spec d Identity).
Proof. intros Hne. exists [Configure d1 InvSample]. cbn. unfold C13_Loss.g_value, C13_Loss.spec. cbn.
  intros H. inversion H. contradiction. Qed.

(* after the fix (identity resets the weights) every configuration is history independent *)
Theorem g_fixed_history_independent ops s d o :
  g_value (g_step_fixed invw (fold_left (g_step_fixed invw) ops s) (Configure d o)) = Some (spec d o).
Proof. reflexivity. Qed.
Lemma g_step_p_as_coded s op : g_step_p invw as_coded s op = g_step s op.
Proof. destruct op as [d o|w]; [|reflexivity]. cbn. now rewrite new_weights_p_as_coded. Qed.
Lemma g_step_p_repaired s op : g_step_p invw repaired s op = g_step_fixed invw s op.
Proof. destruct op as [d o|w]; [|reflexivity]. cbn. now rewrite new_weights_p_repaired. Qed.
(* REPAIRED generic loss (the machine compared with the code): every configuration, after any history from any
   state, evaluates the dataset of the call with the weights the option of the call names *)
Theorem g_repaired_history_independent ops s d o :
  g_value (g_step_p invw repaired (g_run_p invw repaired ops s) (Configure d o)) = Some (spec d o).
Proof. unfold C13_Loss.g_value, C13_Loss.spec. cbn. now rewrite new_weights_p_repaired. Qed.
(* ... and the setter decides the weights from then on *)
Theorem g_repaired_setter ops s d o w :
  g_value (g_step_p invw repaired (g_step_p invw repaired (g_run_p invw repaired ops s) (Configure d o)) (SetW w)) = Some (val d w).
Proof. reflexivity. Qed.

(* ---------- fast loss ---------- *)
Lemma f_run_app a b s : f_run (a ++ b) s = f_run b (f_run a s).
Proof. apply fold_left_app. Qed.
Lemma f_run_weights ops : forall s, f_w (f_run ops s) = last_weights ops (f_w s).
Proof. induction ops as [|op ops IH]; intros s; [reflexivity|].
  change (f_run (op :: ops) s) with (f_run ops (f_step s op)). rewrite IH. now destruct op. Qed.

(* the extension that a history leaves behind: the weights present when the LAST configuration started *)
Fixpoint last_ext (ops : list lop) (w e : option W) : option W :=
  match ops with
  | [] => e
  | Configure d o :: t => last_ext t (new_weights o d w) (match w with Some x => Some x | None => e end)
  | SetW w' :: t => last_ext t w' e
  end.
Lemma f_run_ext ops : forall s, f_ext (f_run ops s) = last_ext ops (f_w s) (f_ext s).
Proof. induction ops as [|op ops IH]; intros s; [reflexivity|].
  change (f_run (op :: ops) s) with (f_run ops (f_step s op)). rewrite IH. now destruct op. Qed.

(* exact description: the value after configure(d, o) uses the weights that were in the object BEFORE this
   configuration (or an even older extension when there were none) - never those named by o *)
Theorem f_value_after_configure ops w0 d o :
  f_value (f_run (ops ++ [Configure d o]) (f_init w0)) =
  Some (val d (match last_weights ops w0 with Some w => Some w | None => last_ext ops w0 None end)).
Proof. rewrite f_run_app. cbn. unfold C13_Loss.f_value. cbn. now rewrite f_run_weights, f_run_ext. Qed.

(* ... in particular the option of the current call is irrelevant for its own result *)
Theorem f_value_ignores_current_option s d o o' :
  f_value (f_step s (Configure d o)) = f_value (f_step s (Configure d o')).
Proof. reflexivity. Qed.

(* positive: a fresh fast loss is unweighted whatever the option says; identity-only histories agree with spec *)
Lemma last_ext_all_identity ops : all_identity ops -> last_ext ops None None = None.
Proof. induction 1 as [|op ops H _ IH]; [reflexivity|].
  destruct op as [d o|w']; [|contradiction]. destruct o; try contradiction; cbn; exact IH. Qed.
Theorem f_identity_only_history_independent ops d :
  all_identity ops -> f_value (f_run (ops ++ [Configure d Identity]) (f_init None)) = Some (spec d Identity).
Proof. intros H. rewrite f_value_after_configure. rewrite (last_weights_all_identity ops H).
  now rewrite (last_ext_all_identity ops H). Qed.

(* refuted, inverse modes: fresh object -> unweighted; re-used object -> weights of the PREVIOUS dataset *)
Theorem f_inverse_history_independent_refuted d d1 :
  val d (Some (invw false d1)) <> val d None ->
  exists ops1 ops2,
    f_value (f_run (ops1 ++ [Configure d InvSample]) (f_init None)) <>
    f_value (f_run (ops2 ++ [Configure d InvSample]) (f_init None)).
Proof. intros Hne. exists [Configure d1 InvSample], []. cbn. unfold C13_Loss.f_value. cbn.
  intros H. inversion H. contradiction. Qed.
(* ... and neither of the two need be the specified value: the first use is always unweighted *)
Theorem f_inverse_first_use_unweighted d o :
  f_value (f_run [Configure d o] (f_init None)) = Some (val d None).
Proof. reflexivity. Qed.
Theorem f_inverse_spec_refuted d :
  val d (Some (invw false d)) <> val d None ->
  f_value (f_run [Configure d InvSample] (f_init None)) <> Some (spec d InvSample).
Proof. intros Hne H. cbn in H. unfold C13_Loss.f_value, C13_Loss.spec in H. cbn in H. inversion H. congruence. Qed.
(* refuted, identity after inverse: same stale weights as the generic loss *)
Theorem f_identity_history_independent_refuted d d1 :
  val d (Some (invw false d1)) <> val d None ->
  exists ops, f_value (f_run (ops ++ [Configure d Identity]) (f_init None)) <> Some (spec d Identity).
Proof. intros Hne. exists [Configure d1 InvSample]. cbn. unfold C13_Loss.f_value, C13_Loss.spec. cbn.
  intros H. inversion H. contradiction. Qed.
(* the setter does not refresh the extension either: value() disagrees with the observable weights *)
Theorem f_setter_stale_refuted d w :
  val d (Some w) <> val d None ->
  let s := f_run [Configure d Identity; SetW (Some w)] (f_init None) in
  f_w s = Some w /\ f_value s <> Some (val d (f_w s)).
Proof. intros Hne. cbn. split; [reflexivity|]. unfold C13_Loss.f_value. cbn. intros H. inversion H. congruence. Qed.

(* after the fix every configuration (and the setter) is history independent *)
Theorem f_fixed_history_independent ops s d o :
  f_value (f_step_fixed invw (fold_left (f_step_fixed invw) ops s) (Configure d o)) = Some (spec d o).
Proof. reflexivity. Qed.
Lemma f_step_p_as_coded s op : f_step_p invw as_coded s op = f_step s op.
Proof. destruct op as [d o|w]; [|reflexivity]. cbn. now rewrite new_weights_p_as_coded. Qed.
Lemma f_step_p_repaired s op : f_step_p invw repaired s op = f_step_fixed invw s op.
Proof. destruct op as [d o|w]; [|reflexivity]. cbn. now rewrite new_weights_p_repaired. Qed.
(* REPAIRED fast loss (the machine compared with the code) *)
Theorem f_repaired_history_independent ops s d o :
  f_value (f_step_p invw repaired (f_run_p invw repaired ops s) (Configure d o)) = Some (spec d o).
Proof. unfold C13_Loss.f_value, C13_Loss.spec. cbn. now rewrite new_weights_p_repaired. Qed.
(* the cached extension mirrors the observable weights after every operation, so value()/gradient() are
   functions of the observable fields (dataset, weight_matrices) *)
Theorem f_repaired_ext_mirrors ops op s :
  let s' := f_run_p invw repaired (ops ++ [op]) s in f_ext s' = f_w s'.
Proof. cbv zeta. unfold C13_Loss.f_run_p. rewrite fold_left_app. cbn. now destruct op. Qed.
Corollary f_repaired_value_observable ops op s :
  let s' := f_run_p invw repaired (ops ++ [op]) s in
  f_value s' = option_map (fun d => val d (f_w s')) (f_data s').
Proof. cbv zeta. unfold C13_Loss.f_value. now rewrite (f_repaired_ext_mirrors ops op s). Qed.

(* ---------- relative entropy: configuring never touches the weights; the extension is rebuilt from the
   object's own weights on every configuration, so the result depends on (d, own weights) only ---------- *)
Lemma r_run_weights (ops : list lop) : (forall op, In op ops -> match op with SetW _ => False | _ => True end) ->
  forall s, r_w (r_run ops s) = r_w s.
Proof. induction ops as [|op ops IH]; intros H s; [reflexivity|].
  change (r_run (op :: ops) s) with (r_run ops (r_step s op)). rewrite IH.
  - destruct op; [reflexivity|]. exfalso. apply (H (SetW w)). now left.
  - intros op' Hin. apply H. now right. Qed.
Theorem r_value_after_configure (ops : list lop) w0 d o :
  (forall op, In op ops -> match op with SetW _ => False | _ => True end) ->
  r_value val (r_run (ops ++ [Configure d o]) (r_init w0)) = Some (val d w0).
Proof. intros H. unfold C13_Loss.r_run. rewrite fold_left_app. cbn. unfold C13_Loss.r_value. cbn.
  fold (r_run ops (r_init w0)). rewrite (r_run_weights ops H). cbn. now destruct w0. Qed.
(* one history on both machines (instantiated numerically in Props/C13.v) *)
Lemma repaired_vs_coded_example d d1 :
  f_value (f_run_p invw repaired [Configure d1 InvSample; Configure d Identity] (f_init None)) = Some (val d None) /\
  f_value (f_run_p invw repaired [Configure d Identity] (f_init None)) = Some (val d None) /\
  (val d (Some (invw false d1)) <> val d None ->
   f_value (f_run [Configure d1 InvSample; Configure d Identity] (f_init None)) <> Some (val d None)).
Proof. split; [reflexivity|split; [reflexivity|]]. intros Hne H. unfold C13_Loss.f_value in H. cbn in H.
  inversion H. contradiction. Qed.

(* ---------- relative entropy, REPAIRED (the machine compared with the code) ---------- *)
Definition r_ok (s : @rstate D W) : Prop := forall x, r_w s = Some x -> r_data s <> None -> r_ext s = Some x.
Lemma r_init_ok w0 : r_ok (r_init w0).
Proof. intros x _ H. now contradiction H. Qed.
Lemma r_step_fixed_ok s op : r_ok s -> r_ok (r_step_fixed s op).
Proof.
  intros H. destruct op as [d o|w]; intros x Hw Hd; cbn in *.
  - now rewrite Hw.
  - subst w. destruct (r_data s); [reflexivity|now contradiction Hd].
Qed.
Lemma r_run_fixed_ok (ops : list lop) : forall s, r_ok s -> r_ok (r_run_fixed ops s).
Proof. induction ops as [|op ops IH]; intros s H; [exact H|]. cbn. apply IH. now apply r_step_fixed_ok. Qed.
(* the value is a function of the observable fields (dataset, weights) *)
Lemma r_value_ok s : r_ok s -> r_value val s = option_map (fun d => val d (r_w s)) (r_data s).
Proof.
  intros H. unfold C13_Loss.r_value. destruct (r_data s) as [d|] eqn:Ed; [|reflexivity]. cbn.
  destruct (r_w s) as [x|] eqn:Ew; [|reflexivity]. rewrite (H x Ew); [reflexivity|]. rewrite Ed. discriminate.
Qed.
Definition r_mode (o : wmode) : Prop := match o with Identity | Custom _ => True | _ => False end.
Theorem r_repaired_history_independent (ops : list lop) w0 d o :
  r_mode o -> r_value val (r_run_fixed (ops ++ [Configure d o]) (r_init w0)) = Some (spec d o).
Proof.
  intros Hm. rewrite r_value_ok by (apply r_run_fixed_ok, r_init_ok).
  unfold C13_Loss.r_run_fixed. rewrite fold_left_app. cbn. unfold C13_Loss.spec.
  destruct o; try contradiction; reflexivity.
Qed.
Theorem r_repaired_setter (ops : list lop) w0 d o w :
  r_value val (r_run_fixed (ops ++ [Configure d o; SetW w]) (r_init w0)) = Some (val d w).
Proof.
  rewrite r_value_ok by (apply r_run_fixed_ok, r_init_ok).
  unfold C13_Loss.r_run_fixed. rewrite fold_left_app. reflexivity.
Qed.
End Loss.

(* ---------- algorithm object ---------- *)
Section Algo.
Context {Q O P : Type} (mkproj : Q -> O -> P).
Notation a_step := (a_step mkproj). Notation a_run := (a_run mkproj).

Lemma a_run_some cs : forall s p, a_proj s = Some p -> a_proj (a_run cs s) = Some p.
Proof. induction cs as [|c cs IH]; intros s p H; [exact H|]. cbn. apply IH. cbn. now rewrite H. Qed.

(* exact description: the projection is the one of the FIRST configuration ever (or the user's), while
   qt / option follow the LAST one *)
Theorem a_proj_is_first c cs :
  a_proj (a_run (c :: cs) (a_init None)) = Some (mkproj (fst c) (snd c)).
Proof. cbn. now apply a_run_some. Qed.
Theorem a_user_proj_kept p cs : a_proj (a_run cs (a_init (Some p))) = Some p.
Proof. now apply a_run_some. Qed.
Theorem a_qt_is_last cs c s : a_qt (a_run (cs ++ [c]) s) = Some (fst c) /\ a_opt (a_run (cs ++ [c]) s) = Some (snd c).
Proof. unfold C13_Loss.a_run. rewrite fold_left_app. cbn. now split. Qed.

(* positive: history independent when all configurations ask for the same projection *)
Theorem a_same_proj_history_independent c cs c' :
  Forall (fun x => mkproj (fst x) (snd x) = mkproj (fst c') (snd c')) (c :: cs) ->
  a_proj (a_run ((c :: cs) ++ [c']) (a_init None)) = Some (mkproj (fst c') (snd c')).
Proof. intros H. cbn [app]. rewrite a_proj_is_first. inversion H; subst. now f_equal. Qed.

(* refuted: any two configurations that need different projections *)
Theorem a_history_independent_refuted q o q' o' :
  mkproj q o <> mkproj q' o' ->
  exists cs, a_proj (a_run (cs ++ [(q', o')]) (a_init None)) <> Some (mkproj q' o').
Proof. intros Hne. exists [(q, o)]. cbn. intros H. inversion H. contradiction. Qed.

Theorem a_fixed_history_independent user cs s c :
  a_proj (a_step_fixed mkproj user (fold_left (a_step_fixed mkproj user) cs s) c) =
  Some (match user with Some p => p | None => mkproj (fst c) (snd c) end).
Proof. cbn. now destruct user. Qed.
End Algo.

(* ---------- whole estimation with re-used objects ---------- *)
Section Estimate.
Context {D W V Q O P R : Type}.
Context (invw : bool -> D -> W) (val : D -> option W -> V) (mkproj : Q -> O -> P) (qt_of : D -> Q).
Context (solve : option V -> option P -> option Q -> option O -> R).
Notation job := (@job D W O).
Notation est_step_g := (est_step_g invw val mkproj qt_of solve).
Notation est_run_g := (est_run_g invw val mkproj qt_of solve).
Notation est_spec := (est_spec invw val mkproj qt_of solve).

Definition same_proj (j j' : job) : Prop :=
  mkproj (qt_of (j_data j)) (j_opt j) = mkproj (qt_of (j_data j')) (j_opt j').

Lemma est_run_g_snd js : forall st, snd (est_run_g st js) =
  a_run mkproj (map (fun j => (qt_of (j_data j), j_opt j)) js) (snd st).
Proof. induction js as [|j js IH]; intros st; [reflexivity|]. cbn. now rewrite IH. Qed.
Lemma est_run_g_proj js : forall st p, a_proj (snd st) = Some p -> a_proj (snd (est_run_g st js)) = Some p.
Proof. intros st p H. rewrite est_run_g_snd. now apply a_run_some. Qed.

(* positive: a generic loss and an algorithm object re-used over any jobs give, for a job whose mode resets
   the weights and whose projection is the one all earlier jobs asked for, exactly the fresh result *)
Theorem est_generic_history_independent j0 js j :
  resets (j_mode j) -> same_proj j0 j ->
  snd (est_step_g (est_run_g (g_init None, a_init None) (j0 :: js)) j) = est_spec j.
Proof.
  intros Hr Hp. unfold C13_Loss.est_step_g, C13_Loss.est_spec. cbn [snd].
  set (st := est_run_g (g_init None, a_init None) (j0 :: js)).
  assert (Hproj : a_proj (snd st) = Some (mkproj (qt_of (j_data j0)) (j_opt j0))).
  { unfold st. cbn [C13_Loss.est_run_g]. apply est_run_g_proj. reflexivity. }
  clearbody st. f_equal.
  - unfold C13_Loss.g_value. cbn. unfold C13_Loss.spec, C13_Loss.spec_weights.
    now rewrite (new_weights_spec invw (j_mode j) (j_data j) _ Hr).
  - cbn. rewrite Hproj. now rewrite Hp.
Qed.
(* REPAIRED loss and algorithm objects (the machines compared with the code), re-used over arbitrary earlier
   jobs from any state: every job returns what fresh objects return *)
Theorem est_repaired_history_independent st js j :
  snd (est_step_gp invw val mkproj qt_of solve repaired (est_run_gp invw val mkproj qt_of solve repaired st js) j) = est_spec j.
Proof. reflexivity. Qed.
Theorem est_repaired_fast_history_independent st js j :
  snd (est_step_fp invw val mkproj qt_of solve repaired (est_run_fp invw val mkproj qt_of solve repaired st js) j) = est_spec j.
Proof. reflexivity. Qed.
(* the first job of fresh objects (code before the fixes; the alias spelling was ignored then) *)
Theorem est_generic_first_job j :
  j_mode j <> Unhandled -> snd (est_step_g (g_init None, a_init None) j) = est_spec j.
Proof. intros H. unfold C13_Loss.est_step_g, C13_Loss.est_spec, C13_Loss.g_value, C13_Loss.spec. cbn.
  destruct (j_mode j); try reflexivity. now contradiction H. Qed.
End Estimate.
