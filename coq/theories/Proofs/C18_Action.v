(* C18 — the generated generator acts on every matrix as the GKSL equation prescribes.
   No hypothesis on the matrix family B is needed here (B is an arbitrary family of d x d matrices).
   Generic in the ordered field; axiom-free. *)
From Coq Require Import Field Ring Setoid Arith Lia Bool List.
From QV.Core Require Import OF Sums Mat Cplx.
From QV.Model Require Import QObj C18_Lindblad.
From QV.Proofs Require Import C18_Algebra.
Import ListNotations.

Section Action.
Context (F : OF).
Add Field Ffb : (k_field F).
Notation Cx := (CF F).
Add Ring Crb : (c_ring Cx).
Notation cmat := (cmat F).
Notation "x +c y" := (cadd Cx x y) (at level 50, left associativity).
Notation "x *c y" := (cmul Cx x y) (at level 40, left associativity).
Notation "x -c y" := (csub Cx x y) (at level 50, left associativity).
Notation "0c" := (c0 Cx).
Notation "1c" := (c1 Cx).
Notation cI := (cI F).
Notation mi := (mi F).
Notation half := (half F).

Variable d : nat.
Hypothesis Hd : (0 < d)%nat.
Variable B : nat -> cmat.
Notation m := (d * d - 1)%nat.

(* ---------------------------------------------------------------- the three parts as maps on matrices (no hypotheses) *)
Lemma h_part_act (H X : cmat) t : (t < d * d)%nat ->
  mv (d * d) (h_part d H) (vecr d X) t = vecr d (fun i j => mi *c (mmul d H X i j -c mmul d X (cadj H) i j)) t.
Proof. intros Ht. unfold h_part. rewrite mv_mscale_m, mv_msub_m, vec_AX, vec_XBd by assumption. reflexivity. Qed.
Lemma j_part_act (J X : cmat) t : (t < d * d)%nat ->
  mv (d * d) (j_part d J) (vecr d X) t = vecr d (fun i j => mmul d J X i j +c mmul d X (cadj J) i j) t.
Proof. intros Ht. unfold j_part. rewrite mv_madd_m, vec_AX, vec_XBd by assumption. reflexivity. Qed.
Lemma k_part_act (K X : cmat) t :
  mv (d * d) (k_part d B K) (vecr d X) t
  = vecr d (fun i j => sumn m (fun a => sumn m (fun b => K a b *c mmul d (mmul d (B (S a)) X) (cadj (B (S b))) i j))) t.
Proof. unfold k_part. rewrite (mv_sum2_m F (d*d) m K (fun a b => bbc d B (S a) (S b))).
  apply eq_trans with (sumn m (fun a => sumn m (fun b => K a b *c vecr d (mmul d (mmul d (B (S a)) X) (cadj (B (S b)))) t))).
  - apply (@sumn_ext Cx); intros a _. apply (@sumn_ext Cx); intros b _. f_equal. cbv beta. unfold bbc. apply vec_AXBd. exact Hd.
  - reflexivity. Qed.

(* the generalised generator of generate_hs_from_hjk:  X |-> -i (H X - X H^dagger) + J X + X J^dagger + sum K_ab B_a X B_b^dagger *)
Definition gen_hjk_map (H J K X : cmat) : cmat := fun i j =>
  mi *c (mmul d H X i j -c mmul d X (cadj H) i j) +c (mmul d J X i j +c mmul d X (cadj J) i j)
  +c sumn m (fun a => sumn m (fun b => K a b *c mmul d (mmul d (B (S a)) X) (cadj (B (S b))) i j)).
Lemma lcb_hjk_act (H J K X : cmat) t : (t < d * d)%nat ->
  mv (d * d) (lcb_hjk d B H J K) (vecr d X) t = vecr d (gen_hjk_map H J K X) t.
Proof. intros Ht. unfold lcb_hjk. rewrite !mv_madd_m, h_part_act, j_part_act, k_part_act by exact Ht. reflexivity. Qed.

Lemma apply_cb_entry (L X : cmat) i j : (j < d)%nat -> apply_cb d L X i j = mv (d * d) L (vecr d X) (i * d + j)%nat.
Proof. reflexivity. Qed.
Lemma vecr_entry (M : cmat) i j : (j < d)%nat -> vecr d M (i * d + j)%nat = M i j.
Proof. intros Hj. unfold vecr. now destruct (divmod_flat i j d Hj) as [-> ->]. Qed.
Lemma flat_lt i j : (i < d)%nat -> (j < d)%nat -> (i * d + j < d * d)%nat.
Proof. intros Hi Hj. nia. Qed.

Theorem apply_lcb_hjk (H J K X : cmat) i j : (i < d)%nat -> (j < d)%nat ->
  apply_cb d (lcb_hjk d B H J K) X i j = gen_hjk_map H J K X i j.
Proof. intros Hi Hj. rewrite apply_cb_entry by exact Hj. rewrite lcb_hjk_act by now apply flat_lt. now apply vecr_entry. Qed.

(* ---------------------------------------------------------------- J(K) is Hermitian when K is *)
Lemma bhb_adj a b i j : zconj (bhb d B a b j i) = bhb d B b a i j.
Proof. change (zconj (bhb d B a b j i)) with (cadj (bhb d B a b) i j). unfold bhb. rewrite cadj_mmul.
  unfold mmul. apply (@sumn_ext Cx); intros l _. now rewrite cadj_cadj. Qed.
Lemma zof_mhalf_conj : zconj (zof (copp F half) : Cx) = zof (copp F half). Proof. apply cj_zof. Qed.
Lemma j_of_k_herm (K : cmat) : hermitian m K -> forall i j, j_of_k d B K i j = zconj (j_of_k d B K j i).
Proof. intros HK i j. unfold j_of_k. rewrite cj_mul, zof_mhalf_conj. f_equal.
  rewrite cj_sum. rewrite sumn_swap. apply (@sumn_ext Cx); intros a Ha. rewrite cj_sum. apply (@sumn_ext Cx); intros b Hb.
  rewrite cj_mul, bhb_adj. rewrite (HK b a Hb Ha). reflexivity. Qed.

Lemma sum2_combine n (K : cmat) (T1 T2 T3 : nat -> nat -> Cx) (h : Cx) :
  sumn n (fun a => sumn n (fun b => K a b *c (T1 a b -c h *c (T2 a b +c T3 a b))))
  = sumn n (fun a => sumn n (fun b => K a b *c T1 a b))
    -c h *c sumn n (fun a => sumn n (fun b => K a b *c T2 a b))
    -c h *c sumn n (fun a => sumn n (fun b => K a b *c T3 a b)).
Proof.
  rewrite <- !sumn_scale_l, <- !sumn_sub. apply (@sumn_ext Cx); intros a _.
  rewrite <- !sumn_scale_l, <- !sumn_sub. apply (@sumn_ext Cx); intros b _. ring. Qed.

(* ---------------------------------------------------------------- the GKSL form *)
Lemma zof_mhalf : (zof (copp F half) : Cx) = copp Cx (zof half).
Proof. apply cplx_eq; cbn; ring. Qed.

Theorem apply_lcb_hk_gksl (H K rho : cmat) : hermitian d H -> hermitian m K ->
  forall i j, (i < d)%nat -> (j < d)%nat -> apply_cb d (lcb_hk d B H K) rho i j = gksl d B H K rho i j.
Proof. intros HH HK i j Hi Hj.
  change (lcb_hk d B H K) with (lcb_hjk d B H (j_of_k d B K) K). rewrite apply_lcb_hjk by assumption.
  unfold gen_hjk_map, gksl.
  (* rho H^dagger = rho H *)
  assert (E1 : mmul d rho (cadj H) i j = mmul d rho H i j).
  { unfold mmul. apply (@sumn_ext Cx); intros l Hl. f_equal. unfold cadj. symmetry. now apply HH. }
  (* rho J^dagger = rho J *)
  assert (E2 : mmul d rho (cadj (j_of_k d B K)) i j = mmul d rho (j_of_k d B K) i j).
  { unfold mmul. apply (@sumn_ext Cx); intros l Hl. f_equal. unfold cadj. symmetry. now apply j_of_k_herm. }
  rewrite E1, E2.
  (* J rho and rho J as double sums *)
  set (S2 := fun s t => sumn m (fun a => sumn m (fun b => K a b *c bhb d B (S a) (S b) s t))).
  assert (EJ : forall s t, j_of_k d B K s t = mscale (zof (copp F half) : Cx) S2 s t) by reflexivity.
  assert (E3 : mmul d (j_of_k d B K) rho i j
               = zof (copp F half) *c sumn m (fun a => sumn m (fun b => K a b *c mmul d (bhb d B (S a) (S b)) rho i j))).
  { transitivity (mmul d (mscale (zof (copp F half) : Cx) S2) rho i j).
    { apply (mmul_ext d _ _ rho rho d d); [intros ? ? _ _; apply EJ|apply meq_refl|exact Hi|exact Hj]. }
    rewrite mmul_mscale_l. unfold mscale. f_equal. apply (mmul_sum2_l F). }
  assert (E4 : mmul d rho (j_of_k d B K) i j
               = zof (copp F half) *c sumn m (fun a => sumn m (fun b => K a b *c mmul d rho (bhb d B (S a) (S b)) i j))).
  { transitivity (mmul d rho (mscale (zof (copp F half) : Cx) S2) i j).
    { apply (mmul_ext d rho rho _ _ d d); [apply meq_refl|intros ? ? _ _; apply EJ|exact Hi|exact Hj]. }
    rewrite mmul_mscale_r. unfold mscale. f_equal. apply (mmul_sum2_r F). }
  rewrite E3, E4, zof_mhalf.
  pose proof (sum2_combine m K
      (fun a b => mmul d (mmul d (B (S a)) rho) (cadj (B (S b))) i j)
      (fun a b => mmul d (bhb d B (S a) (S b)) rho i j)
      (fun a b => mmul d rho (bhb d B (S a) (S b)) i j) (zof half)) as EG.
  cbv beta in EG. rewrite EG. ring. Qed.

(* ---------------------------------------------------------------- trace annihilation: tr (L rho) = 0 for every rho *)
Lemma mtrace_sum2 n (K : cmat) (M : nat -> nat -> cmat) :
  mtrace d (fun i j => sumn n (fun a => sumn n (fun b => K a b *c M a b i j)))
  = sumn n (fun a => sumn n (fun b => K a b *c mtrace d (M a b))).
Proof. unfold mtrace. rewrite sumn_swap. apply (@sumn_ext Cx); intros a _. rewrite sumn_swap. apply (@sumn_ext Cx); intros b _.
  now rewrite sumn_scale_l. Qed.
Lemma gksl_trace0 (H K rho : cmat) : mtrace d (gksl d B H K rho) = 0c.
Proof.
  assert (E : forall i j, gksl d B H K rho i j
     = madd (mscale mi (msub (mmul d H rho) (mmul d rho H)))
            (fun i j => sumn m (fun a => sumn m (fun b => K a b *c
               (msub (mmul d (mmul d (B (S a)) rho) (cadj (B (S b))))
                     (mscale (zof half : Cx) (madd (mmul d (bhb d B (S a) (S b)) rho) (mmul d rho (bhb d B (S a) (S b))))) i j)))) i j)
    by reflexivity.
  rewrite (mtrace_ext d _ _ (fun i j _ _ => E i j)).
  rewrite mtrace_madd, mtrace_mscale, mtrace_sum2.
  assert (E0 : mtrace d (msub (mmul d H rho) (mmul d rho H)) = 0c).
  { unfold mtrace, msub. rewrite sumn_sub. fold (mtrace d (mmul d H rho)). fold (mtrace d (mmul d rho H)).
    rewrite (mtrace_cyclic d d H rho). ring. }
  rewrite E0. rewrite sumn2_zero. { ring. }
  intros a b _ _. cbv beta.
  assert (E1 : mtrace d (fun i j => msub (mmul d (mmul d (B (S a)) rho) (cadj (B (S b))))
                 (mscale (zof half : Cx) (madd (mmul d (bhb d B (S a) (S b)) rho) (mmul d rho (bhb d B (S a) (S b))))) i j)
             = mtrace d (mmul d (mmul d (B (S a)) rho) (cadj (B (S b))))
               -c zof half *c (mtrace d (mmul d (bhb d B (S a) (S b)) rho) +c mtrace d (mmul d rho (bhb d B (S a) (S b))))).
  { unfold mtrace at 1. unfold msub. rewrite sumn_sub. fold (mtrace d (mmul d (mmul d (B (S a)) rho) (cadj (B (S b))))).
    f_equal. fold (mtrace d (mscale (zof half : Cx) (madd (mmul d (bhb d B (S a) (S b)) rho) (mmul d rho (bhb d B (S a) (S b)))))).
    now rewrite mtrace_mscale, mtrace_madd. }
  rewrite E1.
  (* tr (B_a rho B_b^dagger) = tr (B_b^dagger B_a rho) = tr (rho B_b^dagger B_a) *)
  rewrite (mtrace_cyclic d d (mmul d (B (S a)) rho) (cadj (B (S b)))).
  assert (E2 : mtrace d (mmul d (cadj (B (S b))) (mmul d (B (S a)) rho)) = mtrace d (mmul d (bhb d B (S a) (S b)) rho)).
  { apply mtrace_ext. intros i j _ _. unfold bhb. symmetry. apply mmul_assoc. }
  rewrite E2. rewrite (mtrace_cyclic d d rho (bhb d B (S a) (S b))).
  assert (Hh : zof half +c zof half = (1c : Cx)).
  { apply cplx_eq; cbn; [|ring]. unfold C18_Lindblad.half, two. field.
    intros E'. apply (one_neq_zero F). apply (double_neq0 F) in E'; [contradiction|]. apply one_neq_zero. }
  set (T := mtrace d (mmul d (bhb d B (S a) (S b)) rho)).
  replace (K a b *c (T -c zof half *c (T +c T))) with (K a b *c (T -c (zof half +c zof half) *c T)) by ring.
  rewrite Hh. ring. Qed.

Theorem lcb_hk_trace_annihilating (H K rho : cmat) : hermitian d H -> hermitian m K ->
  mtrace d (apply_cb d (lcb_hk d B H K) rho) = 0c.
Proof. intros HH HK. rewrite <- (gksl_trace0 H K rho). apply mtrace_ext. intros i j Hi Hj. now apply apply_lcb_hk_gksl. Qed.

(* ---------------------------------------------------------------- jump operators *)
Lemma mv_msum (l : list cmat) x t : mv (d * d) (msum l) x t = fold_right (fun X acc => mv (d * d) X x t +c acc) 0c l.
Proof. induction l as [|X l IH]; cbn [msum fold_right].
  - unfold mv, mzero. apply sumn_zero'. intros; ring.
  - fold (msum l). rewrite mv_madd_m, IH. reflexivity. Qed.
Definition jump_term (c rho : cmat) : cmat := fun i j =>
  mmul d (mmul d c rho) (cadj c) i j
  -c zof half *c (mmul d (mmul d (cadj c) c) rho i j +c mmul d rho (mmul d (cadj c) c) i j).
Lemma gksl_jump_fold (cs : list cmat) (rho : cmat) i j : gksl_jump d cs rho i j = fold_right (fun c acc => jump_term c rho i j +c acc) 0c cs.
Proof. unfold gksl_jump. induction cs as [|c cs IH]; [reflexivity|].
  unfold msum in *. cbn [map fold_right]. unfold madd at 1. rewrite IH. reflexivity. Qed.
Lemma cdc_herm (c : cmat) l j : cadj (mmul d (cadj c) c) l j = mmul d (cadj c) c l j.
Proof. rewrite cadj_mmul. unfold mmul. apply (@sumn_ext Cx); intros q _. now rewrite cadj_cadj. Qed.

Theorem apply_jump_gksl (cs : list cmat) (rho : cmat) i j : (i < d)%nat -> (j < d)%nat ->
  apply_cb d (jump_d d cs) rho i j = gksl_jump d cs rho i j.
Proof. intros Hi Hj. rewrite apply_cb_entry by exact Hj. rewrite gksl_jump_fold.
  assert (Ht : (i * d + j < d * d)%nat) by now apply flat_lt.
  unfold jump_d, jump_j, jump_k. rewrite mv_madd_m, mv_mscale_m, !mv_msum.
  induction cs as [|c cs IH]; cbn [map fold_right]. { ring. }
  rewrite j_part_act by exact Ht. rewrite vec_AXBd by exact Hd. rewrite !vecr_entry by exact Hj.
  assert (E : mmul d rho (cadj (mmul d (cadj c) c)) i j = mmul d rho (mmul d (cadj c) c) i j).
  { unfold mmul at 1 3. apply (@sumn_ext Cx); intros l _. f_equal. apply cdc_herm. }
  rewrite E. rewrite <- IH. unfold jump_term. rewrite zof_mhalf. ring. Qed.
End Action.
