(* C18 — conjunctions of the main lemmas, so that Props/C18.v states each group as ONE theorem (every `Print Assumptions`
   re-traverses the whole proof cone; fewer, bundled statements keep the per-run re-check of Props/C18.v short). *)
From Coq Require Import Arith List Bool.
From QV.Core Require Import OF Sums Mat Cplx Psd.
From QV.Model Require Import QObj HermEmbed C18_Lindblad.
From QV.Proofs Require Import C18_Algebra C18_Misc C18_Action C18_Extract C18_Rebuild C18_Verdict C18_Convert C18_Physical
  C18_Hermitian C18_JumpHK C18_TaylorHP.
Import ListNotations.

Section Bundle.
Context (F : OF).
Notation Cx := (CF F).
Notation cmat := (cmat F).
Notation rmat := (rmat F).
Notation rvec := (rvec F).

(* trace annihilation, vanishing first row, realness of the generated HS matrix *)
Lemma generator_tp_real (d : nat) : (0 < d)%nat ->
  forall (B : nat -> cmat) (sd : F), basis_hermitian d B -> basis_0th_identity d sd B -> cmul F sd sd = ofnat d ->
  forall H K : cmat, hermitian d H -> hermitian (d * d - 1) K ->
  (forall rho, mtrace d (apply_cb d (lcb_hk d B H K) rho) = c0 Cx) /\
  (forall b, chs_of_cb d B (lcb_hk d B H K) 0%nat b = c0 Cx) /\
  (forall a b, (a < d * d)%nat -> (b < d * d)%nat -> im (chs_of_cb d B (lcb_hk d B H K) a b) = c0 F).
Proof. intros Hd B sd Hh H0 Hsd H K HH HK. split; [|split].
  - intros rho. now apply lcb_hk_trace_annihilating.
  - now apply (gen_hk_first_row_zero F d Hd B sd).
  - intros a b Ha Hb. now apply gen_hk_im0. Qed.

Section Basis.
Variable d : nat.
Hypothesis Hd : (0 < d)%nat.
Variable B : nat -> cmat.
Variable sd : F.
Hypothesis Horth : basis_orthonormal d B.
Hypothesis Hherm : basis_hermitian d B.
Hypothesis H0 : basis_0th_identity d sd B.
Hypothesis Hsd : cmul F sd sd = ofnat d.

Lemma prefix_refuted (hv jv : rvec) (K : cmat) : jv 0%nat <> c0 F ->
  let L := lcb_hjk d B (op_of_vec d B hv) (op_of_vec d B jv) K in
  ~ meq d d (calc_j_mat_prefix d B L) (op_of_vec d B jv) /\ ~ meq (d * d) (d * d) (rebuild_cb_prefix d B L) L.
Proof. intros Hne L. split.
  - now apply (j_prefix_wrong F d Hd B sd).
  - now apply (rebuild_prefix_wrong F d Hd B sd). Qed.

Hypothesis Hcomp : basis_complete d B.

Lemma rebuild_both :
  (forall H J K : cmat, hermitian d H -> hermitian d J -> meq (d * d) (d * d) (rebuild_cb d B (lcb_hjk d B H J K)) (lcb_hjk d B H J K)) /\
  (forall H K : cmat, hermitian d H -> hermitian (d * d - 1) K -> meq (d * d) (d * d) (rebuild_cb d B (lcb_hk d B H K)) (lcb_hk d B H K)).
Proof. split.
  - intros H J K HH HJ. now apply (rebuild_hjk F d Hd B sd).
  - intros H K HH HK. now apply (rebuild_hk F d Hd B sd). Qed.

(* h + j + k parts = whole in the computational basis and in the matrix basis B *)
Lemma parts_sum_both (H J K : cmat) : hermitian d H -> hermitian d J ->
  let L := lcb_hjk d B H J K in
  meq (d * d) (d * d) (madd (madd (h_part d (calc_h_mat d B L)) (j_part d (calc_j_mat d B L))) (k_part d B (calc_k_mat d B L))) L /\
  (forall a b, cadd Cx (cadd Cx (chs_of_cb d B (h_part d (calc_h_mat d B L)) a b) (chs_of_cb d B (j_part d (calc_j_mat d B L)) a b))
                       (chs_of_cb d B (k_part d B (calc_k_mat d B L)) a b) = chs_of_cb d B L a b).
Proof. intros HH HJ L. split.
  - exact (rebuild_hjk F d Hd B sd Horth Hherm H0 Hsd Hcomp H J K HH HJ).
  - intros a b. now apply (parts_sum_hjk_B F d Hd B sd). Qed.
End Basis.

(* jump operators in (H, K) form *)
Lemma jump_hk_form (d : nat) : (0 < d)%nat -> forall (B : nat -> cmat) (l : list (Cx * (nat -> Cx))),
  meq (d * d) (d * d) (jump_d d (jumps_ops d B l)) (lcb_hk d B (jumps_H d B l) (jumps_K l)) /\
  hermitian d (jumps_H d B l) /\ hermitian (d * d - 1) (jumps_K l) /\
  (forall (rho : cmat) i j, (i < d)%nat -> (j < d)%nat ->
     gksl_jump d (jumps_ops d B l) rho i j = gksl d B (jumps_H d B l) (jumps_K l) rho i j).
Proof. intros Hd B l. split; [now apply jumps_as_hk|]. split; [apply jumps_H_herm|]. split; [apply jumps_K_herm|].
  intros rho i j Hi Hj. now apply jumps_gksl_as_hk. Qed.

Lemma sparse_tables_eq (d : nat) (B : nat -> cmat) (K : cmat) :
  (forall s t, (t < d * d)%nat -> k_part_sparse d B K s t = k_part d B K s t) /\
  (forall i j, (j < d)%nat -> j_of_k_sparse d B K i j = j_of_k d B K i j).
Proof. split; intros; [now apply k_part_sparse_eq|now apply j_of_k_sparse_eq]. Qed.

(* the three verdicts of the model *)
Lemma verdict_spec (d : nat) (B : nat -> cmat) (atol : F) (HS : rmat) :
  let K := calc_k_mat d B (cb_of_hs d B HS) in let k := (d * d - 1)%nat in
  (is_tp_dec F (d * d) atol HS = true <-> (forall j, (j < d * d)%nat -> kle F (HS 0%nat j) atol /\ kle F (copp F atol) (HS 0%nat j))) /\
  (is_tp_dec F (d * d) (c0 F) HS = true <-> row0_zero F (d * d) HS) /\
  (is_cp_dec F d B atol HS = true <->
     (forall i j, (i < k)%nat -> (j < k)%nat -> kle F (znorm2 (csub Cx (K i j) (zconj (K j i)))) (cmul F atol atol)) /\
     PSD F (k + k) (shiftI F atol (embed F k (herm_part K)))) /\
  (is_physical_dec F d B atol HS = true <-> is_tp_dec F (d * d) atol HS = true /\ is_cp_dec F d B atol HS = true).
Proof. intros K k. split; [apply is_tp_dec_spec|]. split; [apply is_tp_dec_zero|]. split; [apply is_cp_dec_spec|apply is_physical_dec_spec]. Qed.

Lemma proj_eq_all n (X : rmat) :
  row0_zero F n (proj_eq X) /\ (forall i j, i <> 0%nat -> proj_eq X i j = X i j) /\
  (row0_zero F n X -> meq n n (proj_eq X) X) /\ (forall i j, proj_eq (proj_eq X) i j = proj_eq X i j) /\
  (forall Z : rmat, row0_zero F n Z ->
     dist2 F n X Z = cadd F (dist2 F n X (proj_eq X)) (dist2 F n (proj_eq X) Z) /\ kle F (dist2 F n X (proj_eq X)) (dist2 F n X Z)).
Proof. destruct (proj_eq_exact F n X) as [A [C [D E]]]. repeat (split; [assumption|]). intros Z HZ. now apply proj_eq_nearest_point. Qed.

Lemma psd_certificate_all k (X Y : rmat) : symmetric F k X -> symmetric F k Y ->
  (forall (Z : rmat) eps delta, symmetric F k Z -> PSD F k (shiftI F eps (msub X Y)) -> kle F (inner k k (msub X Y) X) delta -> PSD F k Z ->
     kle F (csub F (csub F (cadd F (dist2 F k Y X) (dist2 F k X Z)) (cadd F delta delta))
                   (cadd F (cmul F eps (mtrace k Z)) (cmul F eps (mtrace k Z)))) (dist2 F k Y Z)) /\
  (PSD F k (msub X Y) -> inner k k (msub X Y) X = c0 F ->
     (forall Z : rmat, symmetric F k Z -> PSD F k Z -> kle F (cadd F (dist2 F k Y X) (dist2 F k X Z)) (dist2 F k Y Z)) /\
     (PSD F k Y -> meq k k X Y)).
Proof. intros HX HY. split.
  - intros Z eps delta HZ HP Hd HZp. now apply psd_proj_certificate.
  - intros HP Hd. split; [intros Z HZ HZp; now apply psd_proj_exact|intros HYp; now apply psd_proj_fixes_psd]. Qed.

(* Taylor partial sums in the computational basis: Hermiticity preserving and trace preserving as MAPS, for every N;
   Hermiticity-preserving maps are closed under real polynomials in general *)
Lemma taylor_cb_all (d : nat) : (0 < d)%nat -> forall (B : nat -> cmat),
  (forall (c : nat -> F) (L : cmat) N, hp_sup d L -> hp_sup d (cpoly_sum (d * d) c L N)) /\
  (forall (c : nat -> F) (L X : cmat) N, ta_sup d L ->
     mtrace d (apply_cb d (cpoly_sum (d * d) c L N) X) = cmul Cx (zof (c 0%nat)) (mtrace d X)) /\
  (forall (H K : cmat) N, hermitian d H -> hermitian (d * d - 1) K ->
     let T := cpoly_sum (d * d) (fun k => kdiv F (c1 F) (ffact F k)) (lcb_hk d B H K) N in
     hp_sup d (lcb_hk d B H K) /\ ta_sup d (lcb_hk d B H K) /\
     hp_sup d T /\ (forall X : cmat, mtrace d (apply_cb d T X) = mtrace d X)).
Proof. intros Hd B. split; [intros; now apply hp_cpoly|]. split; [intros; now apply tp_cpoly|].
  intros H K N HH HK T. split; [now apply hp_lcb_hk|]. split; [now apply ta_lcb_hk|].
  exact (taylor_cb_hp_tp F d Hd B H K N HH HK). Qed.

Lemma taylor_all (frz : rmat -> rmat) n : (forall M i j, (i < n)%nat -> (j < n)%nat -> frz M i j = M i j) ->
  forall (L : rmat) N,
  meq n n (texp frz n L N) (poly_sum n (fun k => kdiv F (c1 F) (ffact F k)) L N) /\
  (row0_zero F n L -> forall j, (j < n)%nat -> texp frz n L N 0%nat j = (if Nat.eqb 0 j then c1 F else c0 F)) /\
  (row0_zero F n L -> forall (c : nat -> F) j, poly_sum n c L N 0%nat j = cmul F (c 0%nat) (if Nat.eqb 0 j then c1 F else c0 F)).
Proof. intros Hf L N. split; [now apply texp_poly|]. split.
  - intros HL j Hj. now apply texp_row0.
  - intros HL c j. now apply poly_sum_row0. Qed.
End Bundle.
