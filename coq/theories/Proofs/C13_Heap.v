(* C13 - proofs about the array-heap model of MProcess.calc_proj_eq_constraint_with_var. *)
From Coq Require Import List Arith Bool Lia.
From QV.Core Require Import OF.
From QV.Model Require Import C13_Heap.
Import ListNotations.

Section Heap.
Context (F : OF).
Add Field Ffh : (k_field F).
Notation "0" := (c0 F). Notation "1" := (c1 F).
Infix "+" := (cadd F). Infix "*" := (cmul F). Infix "-" := (csub F). Infix "/" := (kdiv F).
Notation heap := (heap F). Notation alloc := (alloc F). Notation isub := (isub F). Notation rd := (rd F).
Notation proj_eq_with_var := (proj_eq_with_var F). Notation convert_var_to_hss := (convert_var_to_hss F).
Notation copy_all := (copy_all F).

Lemma alloc_old (h : heap) n f b : (b < h_next F h)%nat -> h_buf F (fst (alloc h n f)) b = h_buf F h b.
Proof. intros H. cbn. destruct (Nat.eqb_spec b (h_next F h)); [lia|reflexivity]. Qed.
Lemma alloc_next (h : heap) n f : h_next F (fst (alloc h n f)) = S (h_next F h). Proof. reflexivity. Qed.
Lemma alloc_arr (h : heap) n f : snd (alloc h n f) = {| a_buf := h_next F h; a_off := 0; a_len := n |}.
Proof. reflexivity. Qed.
Lemma isub_other (h : heap) a c b : b <> a_buf a -> h_buf F (isub h a c) b = h_buf F h b.
Proof. intros H. cbn. destruct (Nat.eqb_spec b (a_buf a)); [contradiction|reflexivity]. Qed.
Lemma isub_next (h : heap) a c : h_next F (isub h a c) = h_next F h. Proof. reflexivity. Qed.

Lemma fold_isub_next d2 c (l : list arr) : forall (h : heap),
  h_next F (fold_left (fun hh a => isub hh (view a 0 d2) c) l h) = h_next F h.
Proof. induction l as [|a l IH]; intros h; [reflexivity|]. cbn [fold_left]. now rewrite IH. Qed.
Lemma fold_isub_frame d2 c (l : list arr) : forall (h : heap) b,
  (forall a, In a l -> a_buf a <> b) ->
  h_buf F (fold_left (fun hh a => isub hh (view a 0 d2) c) l h) b = h_buf F h b.
Proof.
  induction l as [|a l IH]; intros h b H; [reflexivity|]. cbn [fold_left].
  rewrite IH. 2:{ intros x Hx. apply H. now right. }
  apply isub_other. cbn. intros E. apply (H a); [now left|now symmetry].
Qed.

Lemma views_buf (v : arr) hs n a : In a (map (fun k => view v (k * hs) hs) (seq 0 n)) -> a_buf a = a_buf v.
Proof. intros H. apply in_map_iff in H as [k [<- _]]. reflexivity. Qed.

(* where the HS arrays live: in the caller's buffer when on_para_eq_constraint = False, in a fresh one otherwise *)
Lemma convert_spec (h : heap) d2 on_para var h1 hss :
  convert_var_to_hss h d2 on_para var = Some (h1, hss) ->
  (forall b, (b < h_next F h)%nat -> h_buf F h1 b = h_buf F h b) /\
  (h_next F h <= h_next F h1)%nat /\
  (forall a, In a hss -> a_buf a = if on_para then S (h_next F h) else a_buf var).
Proof.
  unfold C13_Heap.convert_var_to_hss. destruct on_para.
  - cbn [C13_Heap.alloc]. match goal with |- context [if ?c then _ else _] => destruct c end; [|discriminate].
    intros E. inversion E; subst; clear E. split; [|split].
    + intros b Hb. cbn. destruct (Nat.eqb_spec b (S (h_next F h))); [lia|].
      destruct (Nat.eqb_spec b (h_next F h)); [lia|reflexivity].
    + cbn. lia.
    + intros a Ha. now apply views_buf in Ha.
  - match goal with |- context [if ?c then _ else _] => destruct c end; [|discriminate].
    intros E. inversion E; subst; clear E. split; [now intros|split; [lia|]].
    intros a Ha. now apply views_buf in Ha.
Qed.

(* the body after the HS arrays have been obtained: writes only the buffers of those arrays; the result is
   a newly allocated buffer *)
Lemma core_frame (h1 : heap) d2 on_para hss :
  (forall b, (b < h_next F h1)%nat -> (forall a, In a hss -> a_buf a <> b) ->
             h_buf F (fst (proj_eq_core F h1 d2 on_para hss)) b = h_buf F h1 b) /\
  a_buf (snd (proj_eq_core F h1 d2 on_para hss)) = h_next F h1 /\
  h_next F (fst (proj_eq_core F h1 d2 on_para hss)) = S (h_next F h1).
Proof.
  unfold C13_Heap.proj_eq_core. set (c := fun j => _ / _).
  pose proof (fold_isub_next d2 c hss h1) as Hn.
  assert (Hfold : forall b, (forall a, In a hss -> a_buf a <> b) ->
     h_buf F (fold_left (fun hh a => isub hh (view a 0 d2) c) hss h1) b = h_buf F h1 b).
  { intros b Hne. now apply fold_isub_frame. }
  set (h2 := fold_left _ hss h1) in *.
  destruct on_para; cbn [C13_Heap.alloc fst snd a_buf h_next h_buf]; rewrite Hn.
  all: split; [|split; reflexivity].
  all: intros b Hb Hne; destruct (Nat.eqb_spec b (h_next F h1)); [lia|now apply Hfold].
Qed.

(* FRAME (code before the fix): the call writes no buffer that existed before - except, when
   on_para_eq_constraint = False, the buffer of its own argument; the result is always a newly allocated buffer *)
Theorem proj_eq_frame (h : heap) d2 on_para var h' res :
  proj_eq_with_var h d2 on_para var = Some (h', res) ->
  (forall b, (b < h_next F h)%nat -> (on_para = false -> b <> a_buf var) -> h_buf F h' b = h_buf F h b) /\
  (h_next F h <= a_buf res)%nat /\ (a_buf res < h_next F h')%nat.
Proof.
  unfold C13_Heap.proj_eq_with_var. destruct (convert_var_to_hss h d2 on_para var) as [[h1 hss]|] eqn:E; [|discriminate].
  destruct (convert_spec h d2 on_para var h1 hss E) as [Hold [Hnext Hbuf]].
  destruct (core_frame h1 d2 on_para hss) as [A [B C]].
  intros R. injection R as R. rewrite R in A, B, C. cbn [fst snd] in A, B, C. split; [|rewrite B, C; split; lia].
  intros b Hb Hne. rewrite A; [now apply Hold|lia|].
  intros a Ha. rewrite (Hbuf a Ha). destruct on_para; [lia|]. intros E'. now apply Hne.
Qed.

(* on_para_eq_constraint = True: no existing buffer is written at all *)
Corollary proj_eq_para_true_pure (h : heap) d2 var h' res :
  proj_eq_with_var h d2 true var = Some (h', res) ->
  forall b, (b < h_next F h)%nat -> h_buf F h' b = h_buf F h b.
Proof. intros E b Hb. apply (proj1 (proj_eq_frame h d2 true var h' res E)); [exact Hb|discriminate]. Qed.

(* copy.deepcopy of a list of arrays: nothing existing is written, every copy lives in a new buffer, and
   holds the values of its original *)
Lemma copy_all_spec (l : list arr) : forall (h : heap),
  (forall b, (b < h_next F h)%nat -> h_buf F (fst (copy_all h l)) b = h_buf F h b) /\
  (h_next F h <= h_next F (fst (copy_all h l)))%nat /\
  (forall a, In a (snd (copy_all h l)) -> (h_next F h <= a_buf a)%nat) /\
  length (snd (copy_all h l)) = length l.
Proof.
  induction l as [|a l IH]; intros h; cbn [C13_Heap.copy_all fst snd].
  - split; [now intros|split; [lia|split; [now intros|reflexivity]]].
  - destruct (IH (fst (alloc h (a_len a) (rd h a)))) as [A [B [C D]]]. rewrite alloc_next in *.
    split; [|split; [lia|split]].
    + intros b Hb. rewrite A by lia. now apply alloc_old.
    + intros x [<-|Hx]; [cbn; lia|]. specialize (C x Hx). lia.
    + cbn [length]. now rewrite D.
Qed.

(* REPAIRED code (copy.deepcopy of the HS arrays before the in-place update): no buffer that existed before
   the call is written, in either mode - in particular not the argument; the result is a new buffer *)
Theorem proj_eq_fixed_pure (h : heap) d2 on_para var h' res :
  proj_eq_with_var_fixed F h d2 on_para var = Some (h', res) ->
  (forall b, (b < h_next F h)%nat -> h_buf F h' b = h_buf F h b) /\
  (h_next F h <= a_buf res)%nat /\ (a_buf res < h_next F h')%nat.
Proof.
  unfold C13_Heap.proj_eq_with_var_fixed.
  destruct (convert_var_to_hss h d2 on_para var) as [[h1 hss]|] eqn:E; [|discriminate].
  destruct (convert_spec h d2 on_para var h1 hss E) as [Hold [Hnext _]].
  destruct (copy_all_spec hss h1) as [A [B [C _]]].
  destruct (core_frame (fst (copy_all h1 hss)) d2 on_para (snd (copy_all h1 hss))) as [X [Y Z]].
  intros R. injection R as R. rewrite R in X, Y, Z. cbn [fst snd] in X, Y, Z. split; [|rewrite Y, Z; split; lia].
  intros b Hb. rewrite X; [rewrite A by lia; now apply Hold|lia|].
  intros a Ha E'. specialize (C a Ha). lia.
Qed.
(* ... hence every array that was live before the call reads the same afterwards *)
Corollary proj_eq_fixed_reads_unchanged (h : heap) d2 on_para var h' res (x : arr) i :
  proj_eq_with_var_fixed F h d2 on_para var = Some (h', res) -> live F h x -> rd h' x i = rd h x i.
Proof. intros E Hl. unfold C13_Heap.rd. now rewrite (proj1 (proj_eq_fixed_pure h d2 on_para var h' res E) _ Hl). Qed.

(* ---- on_para_eq_constraint = False: WHAT is written into the caller's array ---- *)
Section Writes.
Variables (h : heap) (var : arr) (d2 n : nat) (c : nat -> F).
Let hs := (d2 * d2)%nat.
Let stepf := fun (hh : heap) a => isub hh (view a 0 d2) c.
Let views m := map (fun k => view var (k * hs) hs) (seq 0 m).
Hypothesis Hd : (1 <= d2)%nat.

Lemma fold_isub_seq m k j : (j < hs)%nat ->
  b_dat F (h_buf F (fold_left stepf (views m) h) (a_buf var)) (a_off var + (k * hs + j)) =
  if Nat.ltb k m && Nat.ltb j d2
  then b_dat F (h_buf F h (a_buf var)) (a_off var + (k * hs + j)) - c j
  else b_dat F (h_buf F h (a_buf var)) (a_off var + (k * hs + j)).
Proof.
  intros Hj. induction m as [|m IH]; [reflexivity|].
  unfold views. rewrite seq_S, map_app, fold_left_app. cbn [map fold_left plus].
  fold (views m). unfold stepf at 1. cbn [C13_Heap.isub h_buf b_dat C13_Heap.view a_buf a_off a_len].
  rewrite Nat.eqb_refl. cbn [b_dat]. rewrite IH.
  assert (Hhs : (d2 <= hs)%nat) by (unfold hs; nia).
  destruct (Nat.ltb_spec j d2) as [Hjd|Hjd].
  - destruct (Nat.ltb_spec k m) as [Hk|Hk]; cbn [andb].
    + (* already written, not hit again *)
      replace (Nat.ltb k (S m)) with true by (symmetry; apply Nat.ltb_lt; lia). cbn [andb].
      destruct (Nat.leb_spec (a_off var + m * hs + 0) (a_off var + (k * hs + j))) as [A|A]; cbn [andb]; [|reflexivity].
      exfalso. assert ((k + 1) * hs <= m * hs)%nat by (apply Nat.mul_le_mono_r; lia). nia.
    + destruct (Nat.eq_dec k m) as [->|Hne].
      * replace (Nat.ltb m (S m)) with true by (symmetry; apply Nat.ltb_lt; lia). cbn [andb].
        replace (Nat.leb (a_off var + m * hs + 0) (a_off var + (m * hs + j))) with true by (symmetry; apply Nat.leb_le; lia).
        replace (Nat.ltb (a_off var + (m * hs + j)) (a_off var + m * hs + 0 + d2)) with true by (symmetry; apply Nat.ltb_lt; lia).
        cbn [andb]. f_equal. f_equal. lia.
      * replace (Nat.ltb k (S m)) with false by (symmetry; apply Nat.ltb_ge; lia). cbn [andb].
        replace (Nat.ltb (a_off var + (k * hs + j)) (a_off var + m * hs + 0 + d2)) with false.
        { now rewrite andb_false_r. }
        symmetry. apply Nat.ltb_ge. assert ((m + 1) * hs <= k * hs)%nat by (apply Nat.mul_le_mono_r; lia). nia.
  - rewrite !andb_false_r.
    destruct (Nat.leb_spec (a_off var + m * hs + 0) (a_off var + (k * hs + j))) as [A|A]; cbn [andb]; [|reflexivity].
    destruct (Nat.ltb_spec (a_off var + (k * hs + j)) (a_off var + m * hs + 0 + d2)) as [B|B]; [|reflexivity].
    exfalso. (* then k = m and j < d2 *)
    assert (k = m). { destruct (Nat.lt_trichotomy k m) as [L|[E|G]]; [|exact E|].
      - assert ((k + 1) * hs <= m * hs)%nat by (apply Nat.mul_le_mono_r; lia). nia.
      - assert ((m + 1) * hs <= k * hs)%nat by (apply Nat.mul_le_mono_r; lia). nia. }
    subst. lia.
Qed.
End Writes.

(* the argument array after the call: in every HS block the first row (j < d2) has been overwritten with
   old - c j, c = (sum of the first rows - e0) / n; everything else is untouched.  I.e. the caller's array
   now holds the projected point. *)
Theorem proj_eq_para_false_overwrites_arg (h : heap) d2 n var h' res :
  (1 <= d2)%nat -> a_len var = (n * (d2 * d2))%nat -> live F h var ->
  proj_eq_with_var h d2 false var = Some (h', res) ->
  let hs := (d2 * d2)%nat in
  let hss := map (fun k => view var (k * hs) hs) (seq 0 n) in
  let c := fun j => (fold_left (fun acc a => acc + rd h a j) hss 0 - e0 F j) / fnat F n in
  forall k j, (k < n)%nat -> (j < hs)%nat ->
    rd h' var (k * hs + j) = if Nat.ltb j d2 then rd h var (k * hs + j) - c j else rd h var (k * hs + j).
Proof.
  intros Hd Hlen Hlive. unfold C13_Heap.proj_eq_with_var, C13_Heap.proj_eq_core, C13_Heap.convert_var_to_hss.
  assert (Hpos : (d2 * d2 <> 0)%nat) by nia.
  rewrite Hlen, (Nat.div_mul n (d2 * d2) Hpos), Nat.eqb_refl. rewrite map_length, seq_length.
  intros E. inversion E; subst; clear E. intros k j Hk Hj.
  unfold C13_Heap.rd at 1. cbn [C13_Heap.alloc fst h_buf].
  unfold live in Hlive.
  match goal with |- context [Nat.eqb (a_buf var) ?x] => destruct (Nat.eqb_spec (a_buf var) x) as [Ex|_] end.
  { exfalso. rewrite (fold_isub_next d2 _ _ h) in Ex. lia. }
  match goal with |- context [isub _ _ ?cc] => set (c := cc) end.
  pose proof (fold_isub_seq h var d2 c Hd n k j Hj) as Hs. cbv zeta in Hs. rewrite Hs.
  replace (Nat.ltb k n) with true by (symmetry; now apply Nat.ltb_lt). cbn [andb]. reflexivity.
Qed.
End Heap.
