(* C17 — the role-ordered Pauli sums of toffoli / fredkin are -pi times a projector whose reflection is the table gate, for all six
   orders of the ids:  with M = 8 H / pi  (integer combination of Pauli strings)  M M = -8 M,  M Hermitian,  4 U = 4 I + M,
   i.e.  H = -pi P,  P = -M/8  a projector,  U = I - 2 P.   (exp(-iH) = exp(i pi P) = I - 2 P for a projector P is the one analytic step
   that is NOT proved here; the harness compares exp(-iH) with U numerically.)  Axiom-free. *)
From Coq Require Import List ZArith Arith Bool Lia.
From QV.Core Require Import OF Sums Mat C17_Z8.
From QV.Model Require Import C17_Tables C17_Permute C17_Ham3q.
From QV.Proofs Require Import C17_Tables.
Import ListNotations.

Definition ham3q_ok (k : nat) (ids : list nat) : Prop :=
  let M := ham3q k ids in let U := tg_m (gate_tbl (G3 k ids)) in
  (forall i j, (i < 8)%nat -> (j < 8)%nat -> mmul 8 M M i j = z8mul (z8z (-8)) (M i j)) /\
  (forall i j, (i < 8)%nat -> (j < 8)%nat -> M i j = z8conj (M j i)) /\
  (forall i j, (i < 8)%nat -> (j < 8)%nat -> z8mul (z8z 4) (U i j) = z8add (z8mul (z8z 4) (zI i j)) (M i j)) /\
  tg_n (gate_tbl (G3 k ids)) = 1%Z.
Definition ham3q_okb (k : nat) (ids : list nat) : bool :=
  let M := zfreeze 8 (ham3q k ids) in let U := tg_m (gate_tbl (G3 k ids)) in
  allbn 8 (fun i => allbn 8 (fun j => z8eqb (mmul 8 M M i j) (z8mul (z8z (-8)) (M i j)) && z8eqb (M i j) (z8conj (M j i)) &&
                                       z8eqb (z8mul (z8z 4) (U i j)) (z8add (z8mul (z8z 4) (zI i j)) (M i j)))) && (tg_n (gate_tbl (G3 k ids)) =? 1)%Z.
Lemma ham3q_okb_spec k ids : ham3q_okb k ids = true -> ham3q_ok k ids.
Proof. unfold ham3q_okb, ham3q_ok. cbv zeta. rewrite andb_true_iff, allbn_spec, Z.eqb_eq. intros [A B].
  assert (X : forall i j, (i < 8)%nat -> (j < 8)%nat ->
     mmul 8 (zfreeze 8 (ham3q k ids)) (zfreeze 8 (ham3q k ids)) i j = z8mul (z8z (-8)) (ham3q k ids i j) /\
     ham3q k ids i j = z8conj (ham3q k ids j i) /\
     z8mul (z8z 4) (tg_m (gate_tbl (G3 k ids)) i j) = z8add (z8mul (z8z 4) (zI i j)) (ham3q k ids i j)).
  { intros i j Hi Hj. specialize (A i Hi). rewrite allbn_spec in A. specialize (A j Hj). rewrite !andb_true_iff, !z8eqb_spec in A.
    rewrite !zfreeze_spec in A by assumption. tauto. }
  split; [|split; [|split; [|exact B]]]; intros i j Hi Hj.
  - rewrite <- (proj1 (X i j Hi Hj)). unfold mmul. apply sumn_ext; intros l Hl. now rewrite !zfreeze_spec.
  - apply (X i j Hi Hj).
  - apply (X i j Hi Hj). Qed.
Theorem toffoli_fredkin_hamiltonians_are_projectors : forall k ids, (k < 2)%nat -> In ids perms3 -> ham3q_ok k ids.
Proof. intros k ids Hk Hin. apply ham3q_okb_spec.
  assert (A : forallb (fun k => forallb (ham3q_okb k) perms3) [0; 1]%nat = true) by (vm_compute; reflexivity).
  rewrite forallb_forall in A. assert (Hin2 : In k [0; 1]%nat) by (cbn; lia). specialize (A k Hin2). rewrite forallb_forall in A. now apply A. Qed.
