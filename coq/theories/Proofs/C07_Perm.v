(* C07 — the vec-permutation matrices: (I_h (x) K (x) I_t) as an index map, the adjacent-swap lemma on
   Kronecker products of rectangular factors, the first part of _tensor_product_hs_hs. *)
From Coq Require Import Arith List Bool ZArith Lia Ring.
From QV.Core Require Import OF Sums Mat.
From QV.Model Require Import C07_Tensor.
From QV.Proofs Require Import C07_Kron.
Import ListNotations.

Section Perm.
Context {R : CR}.
Add Ring Rp : (c_ring R).
Notation "0" := (c0 R). Notation "1" := (c1 R).
Infix "+" := (cadd R). Infix "*" := (cmul R).
Local Notation mat := (@Mat.mat R). Local Notation vec := (@Mat.vec R).

Lemma mid_refl i : @mid R i i = 1. Proof. unfold mid. now rewrite Nat.eqb_refl. Qed.
Lemma mid_neq i j : i <> j -> @mid R i j = 0.
Proof. intros H. unfold mid. destruct (Nat.eqb_spec i j); [contradiction|reflexivity]. Qed.
Lemma pmat_hit s i : @pmat R s i (s i) = 1. Proof. unfold pmat. now rewrite Nat.eqb_refl. Qed.
Lemma pmat_miss s i j : j <> s i -> @pmat R s i j = 0.
Proof. intros H. unfold pmat. destruct (Nat.eqb_spec j (s i)); [contradiction|reflexivity]. Qed.

(* ---- np.kron(np.kron(I_h, K(dpos,dprev)), I_t) is the permutation matrix of [lpm_map] *)
Lemma lpm_map_lt h t dpos dprev i : (i < h * (dpos * dprev) * t)%nat ->
  (lpm_map t dpos dprev i < h * (dpos * dprev) * t)%nat.
Proof. intros Hi. unfold lpm_map. set (k := (dpos * dprev)%nat) in *.
  assert (Ht : (0 < t)%nat) by (destruct t; lia).
  assert (Hk : (0 < k)%nat) by (destruct k; lia).
  pose proof (div_lt_mul i (h * k) t Hi) as H1.
  pose proof (div_lt_mul (i / t) h k H1) as H2.
  pose proof (mod_lt_pos (i / t) k Hk) as H3.
  pose proof (mod_lt_pos i t Ht) as H4.
  pose proof (Kmap_lt dpos dprev ((i / t) mod k) H3) as H5.
  replace (dprev * dpos)%nat with k in H5 by (unfold k; lia).
  generalize dependent (Kmap dpos dprev ((i / t) mod k)). intros km H5.
  generalize dependent (i / t / k)%nat. intros q H2. generalize dependent (i mod t)%nat. intros r H4.
  assert (q * k + km < h * k)%nat by nia. nia. Qed.

Lemma lpm_pmat h t dpos dprev :
  @meq R (h * (dpos * dprev) * t) (h * (dpos * dprev) * t) (lpm t dpos dprev) (pmat (lpm_map t dpos dprev)).
Proof. intros i j Hi Hj. unfold lpm, kron.
  assert (EL : lpm_map t dpos dprev i = ((i / t / (dpos * dprev) * (dpos * dprev) + Kmap dpos dprev ((i / t) mod (dpos * dprev))) * t + i mod t)%nat) by reflexivity.
  set (k := (dpos * dprev)%nat) in *.
  assert (Ht : (0 < t)%nat) by (destruct t; lia).
  assert (Hk : (0 < k)%nat) by (destruct k; lia).
  pose proof (mod_lt_pos (i / t) k Hk) as H3. pose proof (mod_lt_pos i t Ht) as H4.
  pose proof (Kmap_lt dpos dprev ((i / t) mod k) H3) as H5.
  replace (dprev * dpos)%nat with k in H5 by (unfold k; lia).
  set (km := Kmap dpos dprev ((i / t) mod k)) in *.
  destruct (Nat.eq_dec j (lpm_map t dpos dprev i)) as [E|NE].
  - rewrite E, pmat_hit. rewrite EL.
    destruct (divmod_flat (i / t / k * k + km) (i mod t) t H4) as [-> ->].
    destruct (divmod_flat (i / t / k) km k H5) as [-> ->].
    rewrite !mid_refl. unfold Kmat. fold km. rewrite pmat_hit. ring.
  - rewrite (pmat_miss _ i j NE).
    destruct (Nat.eq_dec (i / t / k) (j / t / k)) as [E1|N1]; [|rewrite (mid_neq _ _ N1); ring].
    destruct (Nat.eq_dec (i mod t) (j mod t)) as [E2|N2]; [|rewrite (mid_neq _ _ N2); ring].
    destruct (Nat.eq_dec ((j / t) mod k) km) as [E3|N3].
    + exfalso. apply NE. rewrite EL, E1, E2, <- E3.
      rewrite (Nat.div_mod_eq j t) at 1. rewrite (Nat.div_mod_eq (j / t) k) at 1. lia.
    + unfold Kmat. fold km. rewrite (pmat_miss _ _ _ N3). ring. Qed.

Lemma mv_lpm h t dpos dprev (x : vec) i : (i < h * (dpos * dprev) * t)%nat ->
  mv (h * (dpos * dprev) * t) (lpm t dpos dprev) x i = x (lpm_map t dpos dprev i).
Proof. intros Hi. rewrite <- (mv_pmat (h * (dpos * dprev) * t)) by (now apply lpm_map_lt).
  exact (mv_ext _ _ _ _ _ _ (lpm_pmat h t dpos dprev) (veq_refl _ x) i Hi). Qed.

(* ---- the first part of _tensor_product_hs_hs is the Kronecker product of the HS matrices *)
Lemma hs_hs_core_kron d1 d2 (hs1 hs2 : mat) :
  meq (d1 * d2) (d1 * d2) (hs_hs_core d1 d2 hs1 hs2) (kron d2 d2 hs1 hs2).
Proof. intros i j Hi Hj. unfold hs_hs_core, unvecr.
  assert (H2 : (0 < d2)%nat) by (destruct d2; lia). assert (H1 : (0 < d1)%nat) by (destruct d1; lia).
  set (a := (i / d2)%nat). set (r := (i mod d2)%nat). set (cc := (j / d2)%nat). set (c := (j mod d2)%nat).
  assert (Ha : (a < d1)%nat) by (apply div_lt_mul; exact Hi).
  assert (Hcc : (cc < d1)%nat) by (apply div_lt_mul; exact Hj).
  assert (Hr : (r < d2)%nat) by (now apply mod_lt_pos). assert (Hc : (c < d2)%nat) by (now apply mod_lt_pos).
  assert (Ei : i = (a * d2 + r)%nat) by (unfold a, r; rewrite (Nat.div_mod_eq i d2) at 1; lia).
  assert (Ej : j = (cc * d2 + c)%nat) by (unfold cc, c; rewrite (Nat.div_mod_eq j d2) at 1; lia).
  assert (Et : (i * (d1 * d2) + j = (a * (d2 * d1) + (r * d1 + cc)) * d2 + c)%nat) by (rewrite Ei, Ej; ring).
  rewrite mv_lpm.
  2:{ rewrite Et. assert (r * d1 + cc < d2 * d1)%nat by nia. nia. }
  unfold lpm_map. rewrite Et.
  destruct (divmod_flat (a * (d2 * d1) + (r * d1 + cc)) c d2 Hc) as [-> ->].
  assert (Hm : (r * d1 + cc < d2 * d1)%nat) by nia.
  destruct (divmod_flat a (r * d1 + cc) (d2 * d1) Hm) as [-> ->].
  rewrite (Kmap_flat d2 d1 r cc Hr Hcc).
  replace ((a * (d2 * d1) + (cc * d2 + r)) * d2 + c)%nat with ((a * d1 + cc) * (d2 * d2) + (r * d2 + c))%nat by ring.
  unfold kronv. assert (Hrc : (r * d2 + c < d2 * d2)%nat) by nia.
  destruct (divmod_flat (a * d1 + cc) (r * d2 + c) (d2 * d2) Hrc) as [-> ->].
  unfold vecr. destruct (divmod_flat a cc d1 Hcc) as [-> ->]. destruct (divmod_flat r c d2 Hc) as [-> ->].
  unfold kron. fold a r cc c. reflexivity. Qed.

(* ---- adjacent swap on matrices:  L_r (Pre (x) (A (x) B) (x) T) L_c^T = Pre (x) (B (x) A) (x) T  *)
Lemma mmul_ext_all k (A A' B B' : mat) i j :
  (forall a b, A a b = A' a b) -> (forall a b, B a b = B' a b) -> mmul k A B i j = mmul k A' B' i j.
Proof. intros HA HB. unfold mmul. apply sumn_ext; intros l _. now rewrite HA, HB. Qed.
Lemma kron_ext_all p q (A A' B B' : mat) i j :
  (forall a b, A a b = A' a b) -> (forall a b, B a b = B' a b) -> kron p q A B i j = kron p q A' B' i j.
Proof. intros HA HB. unfold kron. now rewrite HA, HB. Qed.
Lemma mmul_mid_l k (A : mat) n : meq k n (mmul k mid A) A.
Proof. intros i j Hi _. now apply mmul_id_l. Qed.
Lemma mmul_mTmid_r k (A : mat) m : meq m k (mmul k A (mT mid)) A.
Proof. intros i j _ Hj. rewrite (mmul_ext_all k A A (mT mid) mid i j); [now apply mmul_id_r|reflexivity|apply mT_mid]. Qed.

(* K(rb,ra) (A (x) B) K(cb,ca)^T = B (x) A  (A : ra x ca, B : rb x cb) *)
Lemma K_conj ra ca rb cb (A B : mat) :
  meq (rb * ra) (cb * ca)
    (mmul (cb * ca) (mmul (rb * ra) (Kmat rb ra) (kron rb cb A B)) (mT (Kmat cb ca)))
    (kron ra ca B A).
Proof. intros i j Hi Hj. unfold Kmat.
  rewrite mmul_pmat_rT by (rewrite (Nat.mul_comm cb ca); now apply Kmap_lt).
  rewrite mmul_pmat_l by (rewrite (Nat.mul_comm rb ra); now apply Kmap_lt).
  unfold kron, Kmap. pose proof (div_lt_mul i rb ra Hi) as Hq. pose proof (div_lt_mul j cb ca Hj) as Hq'.
  destruct (divmod_flat (i mod ra) (i / ra) rb Hq) as [-> ->].
  destruct (divmod_flat (j mod ca) (j / ca) cb Hq') as [-> ->]. ring. Qed.
(* one-sided version for single-column factors *)
Lemma K_left ra rb (A B : mat) :
  meq (rb * ra) 1 (mmul (rb * ra) (Kmat rb ra) (kron rb 1 A B)) (kron ra 1 B A).
Proof. intros i j Hi Hj. unfold Kmat.
  rewrite mmul_pmat_l by (rewrite (Nat.mul_comm rb ra); now apply Kmap_lt).
  unfold kron, Kmap. pose proof (div_lt_mul i rb ra Hi) as Hq.
  destruct (divmod_flat (i mod ra) (i / ra) rb Hq) as [-> ->].
  assert (j = 0%nat) by lia. subst j. cbn. ring. Qed.

Lemma swap_core rh ch ra ca rb cb rp cp (Pre A B T : mat) :
  (0 < ra)%nat -> (0 < ca)%nat -> (0 < rb)%nat -> (0 < cb)%nat -> (0 < rp)%nat -> (0 < cp)%nat ->
  meq (rh * (rb * ra) * rp) (ch * (cb * ca) * cp)
    (mmul (ch * (cb * ca) * cp)
       (mmul (rh * (rb * ra) * rp) (lpm rp rb ra) (kron rp cp (kron (rb * ra) (cb * ca) Pre (kron rb cb A B)) T))
       (mT (lpm cp cb ca)))
    (kron rp cp (kron (rb * ra) (cb * ca) Pre (kron ra ca B A)) T).
Proof. intros Hra Hca Hrb Hcb Hrp Hcp i j Hi Hj.
  assert (Hkr : (0 < rb * ra)%nat) by nia. assert (Hkc : (0 < cb * ca)%nat) by nia.
  (* left multiplication, pointwise *)
  rewrite (mmul_ext_all _ _ (kron rp cp (kron (rb * ra) (cb * ca) (mmul rh mid Pre) (mmul (rb * ra) (Kmat rb ra) (kron rb cb A B))) (mmul rp mid T))
             _ (kron cp cp (kron (cb * ca) (cb * ca) (mT mid) (mT (Kmat cb ca))) (mT mid))).
  2:{ intros a b. unfold lpm. rewrite kron_mixed by exact Hrp.
      apply kron_ext_all; [|reflexivity]. intros a' b'. now rewrite kron_mixed. }
  2:{ intros a b. reflexivity. }
  (* right multiplication *)
  rewrite kron_mixed by exact Hcp.
  rewrite (kron_ext_all rp cp _ (kron (rb * ra) (cb * ca) (mmul ch (mmul rh mid Pre) (mT mid))
              (mmul (cb * ca) (mmul (rb * ra) (Kmat rb ra) (kron rb cb A B)) (mT (Kmat cb ca)))) _ (mmul cp (mmul rp mid T) (mT mid))).
  2:{ intros a b. now rewrite kron_mixed. }
  2:{ intros a b. reflexivity. }
  (* simplify the three blocks on their domains *)
  revert i j Hi Hj. change (meq (rh * (rb * ra) * rp) (ch * (cb * ca) * cp)
    (kron rp cp (kron (rb * ra) (cb * ca) (mmul ch (mmul rh mid Pre) (mT mid))
        (mmul (cb * ca) (mmul (rb * ra) (Kmat rb ra) (kron rb cb A B)) (mT (Kmat cb ca)))) (mmul cp (mmul rp mid T) (mT mid)))
    (kron rp cp (kron (rb * ra) (cb * ca) Pre (kron ra ca B A)) T)).
  apply kron_ext; [exact Hrp|exact Hcp| |].
  - apply kron_ext; [exact Hkr|exact Hkc| |].
    + eapply meq_trans; [apply mmul_mTmid_r|apply mmul_mid_l].
    + apply K_conj.
  - eapply meq_trans; [apply mmul_mTmid_r|apply mmul_mid_l]. Qed.

(* one-sided: L_r (Pre (x) (a (x) b) (x) T) = Pre (x) (b (x) a) (x) T  for single-column a, b *)
Lemma swap_core_left rh ch ra rb rp cp (Pre A B T : mat) :
  (0 < ra)%nat -> (0 < rb)%nat -> (0 < rp)%nat -> (0 < cp)%nat ->
  meq (rh * (rb * ra) * rp) (ch * (1 * 1) * cp)
    (mmul (rh * (rb * ra) * rp) (lpm rp rb ra) (kron rp cp (kron (rb * ra) (1 * 1) Pre (kron rb 1 A B)) T))
    (kron rp cp (kron (rb * ra) (1 * 1) Pre (kron ra 1 B A)) T).
Proof. intros Hra Hrb Hrp Hcp i j Hi Hj.
  assert (Hkr : (0 < rb * ra)%nat) by nia.
  unfold lpm. rewrite kron_mixed by exact Hrp.
  rewrite (kron_ext_all rp cp _ (kron (rb * ra) (1 * 1) (mmul rh mid Pre) (mmul (rb * ra) (Kmat rb ra) (kron rb 1 A B))) _ (mmul rp mid T)).
  2:{ intros a b. now rewrite kron_mixed. }
  2:{ intros a b. reflexivity. }
  revert i j Hi Hj. change (meq (rh * (rb * ra) * rp) (ch * (1 * 1) * cp)
    (kron rp cp (kron (rb * ra) (1 * 1) (mmul rh mid Pre) (mmul (rb * ra) (Kmat rb ra) (kron rb 1 A B))) (mmul rp mid T))
    (kron rp cp (kron (rb * ra) (1 * 1) Pre (kron ra 1 B A)) T)).
  apply kron_ext; [exact Hrp|exact Hcp| |].
  - apply kron_ext; [exact Hkr|lia| |].
    + apply mmul_mid_l.
    + apply K_left.
  - apply mmul_mid_l. Qed.
End Perm.
