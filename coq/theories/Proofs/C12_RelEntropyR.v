(* C12 — relative entropy over the real numbers (Coquelicot): away from the clipping thresholds the reported
   gradient is the derivative of the reported value and the reported Hessian is the derivative of the reported
   gradient, for any number of schedules / outcomes / variables.  Uses the standard real-number axioms only. *)
From Coq Require Import Reals Lra Lia Arith Bool.
From Coquelicot Require Import Coquelicot.
From QV.Core Require Import OF Sums Mat ROF.
From QV.Model Require Import C12_Loss.
From QV.Proofs Require Import C12_RelEntropy.
Local Open Scope R_scope.

Notation vecR := (@vec R_OF). Notation matR := (@mat R_OF).

Lemma Rleb_true x y : x <= y -> Rleb x y = true.
Proof. intros H. now apply Rleb_spec. Qed.
Lemma Rleb_false x y : y < x -> Rleb x y = false.
Proof. intros H. destruct (Rleb x y) eqn:E; [|reflexivity]. apply Rleb_spec in E. lra. Qed.

(* ---------- derivative of finite sums / weighted terms of the model *)
Lemma is_derive_sumn n (f : nat -> R -> R) (d : nat -> R) x :
  (forall i, (i < n)%nat -> is_derive (f i) x (d i)) ->
  is_derive (fun t => @sumn R_OF n (fun i => f i t)) x (@sumn R_OF n d).
Proof. induction n as [|n IH]; intros H; cbn [sumn].
  - exact (is_derive_const (K := R_AbsRing) (V := R_NormedModule) 0 x).
  - exact (is_derive_plus (K := R_AbsRing) (V := R_NormedModule) (fun t => @sumn R_OF n (fun i => f i t)) (f n) x
             (@sumn R_OF n d) (d n) (IH (fun i Hi => H i (Nat.lt_lt_succ_r _ _ Hi))) (H n (Nat.lt_succ_diag_r n))). Qed.
Lemma is_derive_wsc (w : option vecR) j (f : R -> R) x d :
  is_derive f x d -> is_derive (fun t => wsc R_OF w j (f t)) x (wsc R_OF w j d).
Proof. intros H. destruct w as [ws|]; cbn [wsc]; [|exact H]. exact (is_derive_scal f x (ws j) d H). Qed.

(* ---------- continuity facts used to stay inside one clipping branch *)
Lemma loc_gt (c p s : R) : c < p -> locally 0 (fun t => c < p + t * s).
Proof. intros H.
  assert (Cn : continuous (fun t : R => p + t * s) 0).
  { apply (ex_derive_continuous (K := R_AbsRing) (V := R_NormedModule)). auto_derive. exact I. }
  apply (Cn (fun u => c < u)). apply (open_gt c). rewrite Rmult_0_l, Rplus_0_r. exact H. Qed.
Lemma loc_lt (c p s : R) : p < c -> locally 0 (fun t => p + t * s < c).
Proof. intros H.
  assert (Cn : continuous (fun t : R => p + t * s) 0).
  { apply (ex_derive_continuous (K := R_AbsRing) (V := R_NormedModule)). auto_derive. exact I. }
  apply (Cn (fun u => u < c)). apply (open_lt c). rewrite Rmult_0_l, Rplus_0_r. exact H. Qed.
Lemma loc_ratio_gt (c q p s : R) : p <> 0 -> c < q / p -> locally 0 (fun t => c < q / (p + t * s)).
Proof. intros Hp H.
  assert (Cn : continuous (fun t : R => q / (p + t * s)) 0).
  { apply (ex_derive_continuous (K := R_AbsRing) (V := R_NormedModule)). auto_derive.
    rewrite Rmult_0_l, Rplus_0_r. exact Hp. }
  apply (Cn (fun u => c < u)). apply (open_gt c). rewrite Rmult_0_l, Rplus_0_r. exact H. Qed.

(* ---------- one summand of the value along a line p(t) = p + t s *)
Lemma plain_term_derive (q p s : R) : 0 < p -> 0 < q ->
  is_derive (fun t => q * ln (q / (p + t * s))) 0 (- q * s / p).
Proof. intros Hp Hq. auto_derive.
  - rewrite Rmult_0_l, Rplus_0_r. split; [lra|]. split; [|exact I]. apply Rdiv_lt_0_compat; lra.
  - rewrite Rmult_0_l, Rplus_0_r. field. lra. Qed.

Lemma re_term_derive (epsq epsp q p s : R) : 0 <= epsp ->
  (epsq <= q -> epsp < p /\ epsp < q / p) ->
  is_derive (fun t => re_term R_OF ln epsq epsp q (p + t * s)) 0 (re_dterm R_OF epsq epsp q p s).
Proof. intros He H. unfold re_term, re_dterm, re_arg, rmax, re_on. cbn.
  destruct (Rleb epsq q) eqn:E.
  - apply Rleb_spec in E. destruct (H E) as [Hp Hr].
    assert (Hp0 : 0 < p) by lra.
    assert (Hq0 : 0 < q).
    { replace q with (q / p * p) by (field; lra). apply Rmult_lt_0_compat; lra. }
    rewrite (Rleb_true epsp p) by lra.
    apply (is_derive_ext_loc (fun t => q * ln (q / (p + t * s)))).
    + generalize (filter_and _ _ (loc_gt epsp p s Hp) (loc_ratio_gt epsp q p s ltac:(lra) Hr)).
      apply filter_imp. intros t [H1 H2]. rewrite (Rleb_true epsp (p + t * s)) by lra.
      now rewrite (Rleb_true epsp (q / (p + t * s))) by lra.
    + now apply plain_term_derive.
  - exact (is_derive_const (K := R_AbsRing) (V := R_NormedModule) 0 0). Qed.

(* inside the clipped region (predicted probability below eps_p) the value does not move at all *)
Lemma re_term_clipped_derive (epsq epsp q p s : R) : p < epsp ->
  is_derive (fun t => re_term R_OF ln epsq epsp q (p + t * s)) 0 0.
Proof. intros Hp. unfold re_term, re_arg, rmax, re_on. cbn.
  apply (is_derive_ext_loc (fun _ => if Rleb epsq q
            then (if Rleb epsq q then q else epsq) *
                 ln (if Rleb epsp ((if Rleb epsq q then q else epsq) / epsp)
                     then (if Rleb epsq q then q else epsq) / epsp else epsp) else 0)).
  - generalize (loc_lt epsp p s Hp). apply filter_imp. intros t Ht.
    now rewrite (Rleb_false epsp (p + t * s)) by lra.
  - exact (is_derive_const (K := R_AbsRing) (V := R_NormedModule) _ 0). Qed.

(* ---------- one summand of the gradient along the line *)
Lemma plain_gterm_derive (q p s a : R) : 0 < p ->
  is_derive (fun t => (- q * a) / (p + t * s)) 0 (q / (p * p) * (a * s)).
Proof. intros Hp. auto_derive.
  - rewrite Rmult_0_l, Rplus_0_r. lra.
  - rewrite Rmult_0_l, Rplus_0_r. field. lra. Qed.

Lemma re_gterm_derive (epsq epsp q p s a : R) : 0 <= epsp -> (epsq <= q -> epsp < p) ->
  is_derive (fun t => re_gterm R_OF epsq epsp q (p + t * s) a) 0 (re_d2term R_OF epsq epsp q p a s).
Proof. intros He H. unfold re_gterm, re_d2term, rmax, re_on. cbn.
  destruct (Rleb epsq q) eqn:E.
  - apply Rleb_spec in E. pose proof (H E) as Hp.
    rewrite (Rleb_true epsp p) by lra.
    apply (is_derive_ext_loc (fun t => (- q * a) / (p + t * s))).
    + generalize (loc_gt epsp p s Hp). apply filter_imp. intros t H1.
      now rewrite (Rleb_true epsp (p + t * s)) by lra.
    + apply plain_gterm_derive. lra.
  - exact (is_derive_const (K := R_AbsRing) (V := R_NormedModule) 0 0). Qed.

(* ---------- the theorems *)
Definition unclipped (N : nat) (epsq epsp : R) (p q : vecR) : Prop :=
  forall i, (i < N)%nat -> epsq <= q i -> epsp < p i /\ epsp < q i / p i.
Definition unclipped_p (N : nat) (epsq epsp : R) (p q : vecR) : Prop :=
  forall i, (i < N)%nat -> epsq <= q i -> epsp < p i.

Lemma flat_ltR ns m j x : (j < ns)%nat -> (x < m)%nat -> (j * m + x < ns * m)%nat.
Proof. intros Hj Hx. apply Nat.lt_le_trans with (S j * m)%nat; [lia|]. apply Nat.mul_le_mono_r. lia. Qed.

Theorem re_value_derive ns m nv (w : option vecR) (epsq epsp : R) (A : matR) (b q v h : vecR) :
  0 <= epsp -> unclipped (ns * m) epsq epsp (pv nv A b v) q ->
  is_derive (fun t : R => re_value R_OF ln ns m nv w epsq epsp A b q (vadd v (@vscale R_OF t h))) 0
            (dot nv (re_grad R_OF ns m nv w epsq epsp A b q v) h).
Proof. intros He Hu. unfold re_grad. rewrite re_grad_dot. unfold re_value, re_value_at.
  apply is_derive_sumn; intros j Hj. apply is_derive_wsc. apply is_derive_sumn; intros x Hx.
  apply (is_derive_ext (fun t => re_term R_OF ln epsq epsp (q (j * m + x)%nat)
                                   (pv nv A b v (j * m + x)%nat + t * mv nv A h (j * m + x)%nat))).
  - intros t. f_equal. symmetry. apply (pv_line R_OF).
  - apply re_term_derive; [exact He|]. apply Hu. now apply flat_ltR. Qed.

Theorem re_grad_derive ns m nv (w : option vecR) (epsq epsp : R) (A : matR) (b q v h : vecR) al :
  0 <= epsp -> unclipped_p (ns * m) epsq epsp (pv nv A b v) q ->
  is_derive (fun t : R => re_grad R_OF ns m nv w epsq epsp A b q (vadd v (@vscale R_OF t h)) al) 0
            (mv nv (re_hess R_OF ns m nv w epsq epsp A b q v) h al).
Proof. intros He Hu. unfold re_hess. rewrite re_hess_mv. unfold re_grad, re_grad_at.
  apply is_derive_sumn; intros j Hj. apply is_derive_wsc. apply is_derive_sumn; intros x Hx.
  apply (is_derive_ext (fun t => re_gterm R_OF epsq epsp (q (j * m + x)%nat)
                                   (pv nv A b v (j * m + x)%nat + t * mv nv A h (j * m + x)%nat) (A (j * m + x)%nat al))).
  - intros t. f_equal. symmetry. apply (pv_line R_OF).
  - apply re_gterm_derive; [exact He|]. apply Hu. now apply flat_ltR. Qed.

(* partial derivatives: direction = unit vector *)
Definition unitv (al : nat) : vecR := fun k => if Nat.eqb k al then 1 else 0.
Lemma dot_unitv nv (g : vecR) al : (al < nv)%nat -> dot nv g (unitv al) = g al.
Proof. intros H. unfold dot, unitv.
  rewrite (sumn_ext nv _ (fun k => if Nat.eqb k al then g k else c0 R_OF)).
  - exact (sumn_delta nv al g H).
  - intros k _. destruct (Nat.eqb k al); cbn; ring. Qed.
Lemma mv_unitv nv (H : matR) al be : (be < nv)%nat -> mv nv H (unitv be) al = H al be.
Proof. intros Hb. unfold mv, unitv.
  rewrite (sumn_ext nv _ (fun k => if Nat.eqb k be then H al k else c0 R_OF)).
  - exact (sumn_delta nv be (fun k => H al k) Hb).
  - intros k _. destruct (Nat.eqb k be); cbn; ring. Qed.

Theorem re_value_partial ns m nv (w : option vecR) (epsq epsp : R) (A : matR) (b q v : vecR) al :
  (al < nv)%nat -> 0 <= epsp -> unclipped (ns * m) epsq epsp (pv nv A b v) q ->
  is_derive (fun t : R => re_value R_OF ln ns m nv w epsq epsp A b q (vadd v (@vscale R_OF t (unitv al)))) 0
            (re_grad R_OF ns m nv w epsq epsp A b q v al).
Proof. intros Ha He Hu. pose proof (re_value_derive ns m nv w epsq epsp A b q v (unitv al) He Hu) as H.
  rewrite (dot_unitv nv _ al Ha) in H. exact H. Qed.
Theorem re_grad_partial ns m nv (w : option vecR) (epsq epsp : R) (A : matR) (b q v : vecR) al be :
  (be < nv)%nat -> 0 <= epsp -> unclipped_p (ns * m) epsq epsp (pv nv A b v) q ->
  is_derive (fun t : R => re_grad R_OF ns m nv w epsq epsp A b q (vadd v (@vscale R_OF t (unitv be))) al) 0
            (re_hess R_OF ns m nv w epsq epsp A b q v al be).
Proof. intros Hb He Hu. pose proof (re_grad_derive ns m nv w epsq epsp A b q v (unitv be) al He Hu) as H.
  rewrite (mv_unitv nv _ al be Hb) in H. exact H. Qed.

(* on the unclipped region the value is the defining formula sum w q ln(q/p) *)
Lemma re_value_is_spec ns m (w : option vecR) (epsq epsp : R) (p q : vecR) :
  unclipped (ns * m) epsq epsp p q ->
  re_value_at R_OF ln ns m w epsq epsp p q = re_spec R_OF ln ns m w epsq p q.
Proof. intros Hu. unfold re_value_at, re_spec. apply sumn_ext; intros j Hj. f_equal.
  apply sumn_ext; intros x Hx. unfold re_term, re_spec_term, re_arg, rmax, re_on. cbn.
  destruct (Rleb epsq (q (j * m + x)%nat)) eqn:E; [|reflexivity].
  apply Rleb_spec in E. destruct (Hu _ (flat_ltR ns m j x Hj Hx) E) as [H1 H2].
  rewrite (Rleb_true epsp (p (j * m + x)%nat)) by lra. now rewrite (Rleb_true epsp _) by lra. Qed.
