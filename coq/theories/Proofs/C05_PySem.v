(* C05 — lemmas and the symbolic executor used by coq/gen/C05_Equiv.v to run the regenerated Python of the Dykstra
   routines (combinators of Model/C05_PySem.v) statement by statement.  Axiom-free. *)
From Coq Require Import List Arith Bool String ZArith Lia.
From QV.Core Require Import OF Sums Mat.
From QV.Model Require Import C05_Dykstra C05_PySem.
Import ListNotations.
Local Open Scope string_scope.

Section Lemmas.
Context (F : OF).
Notation env := (env F). Notation val := (val F).

Lemma seq_nil (e : env) : seq [] e = e. Proof. reflexivity. Qed.
Lemma seq_cons (st : env -> env) l (e : env) : seq (st :: l) e = seq l (st e). Proof. reflexivity. Qed.
Lemma s_if_true (t f : env -> env) e : s_if (VBool true) t f e = t e. Proof. reflexivity. Qed.
Lemma s_if_false (t f : env -> env) e : s_if (VBool false) t f e = f e. Proof. reflexivity. Qed.
Lemma s_assign_eq x (r : env -> val) e v : r e = v -> s_assign x r e = upd x v e.
Proof. intros <-. reflexivity. Qed.
Lemma s_ifs_eq (c : env -> val) t f e v : c e = v -> s_ifs c t f e = s_if v t f e.
Proof. intros <-. reflexivity. Qed.
Lemma s_bind_eq (r : env -> val) (k : val -> env -> env) e v : r e = v -> s_bind r k e = k v e.
Proof. intros <-. reflexivity. Qed.
Lemma s_fors_eq vars x (c : env -> val) body e v : c e = v -> s_fors vars x c body e = s_for vars x v body e.
Proof. intros <-. reflexivity. Qed.
Lemma s_prints_ok (vs : env -> list val) e : existsb (@is_bad F) (vs e) = false -> s_prints vs e = upd N_printed (VBool true) e.
Proof. intros H. unfold s_prints, s_print. now rewrite H. Qed.

(* the frame is the identity on its names and unbound elsewhere *)
Lemma restrict_in vars (e : env) x : In x vars -> restrict vars e x = e x.
Proof. induction vars as [|y r IH]; intros H; [destruct H|]. cbn [restrict]. unfold upd.
  destruct (Pos.eqb_spec x y) as [->|Hne]; [reflexivity|]. destruct H as [H|H]; [congruence|now apply IH]. Qed.
Lemma restrict_out vars (e : env) x : ~ In x vars -> restrict vars e x = VUnbound.
Proof. induction vars as [|y r IH]; intros H; [reflexivity|]. cbn [restrict]. unfold upd.
  destruct (Pos.eqb_spec x y) as [->|Hne]; [exfalso; apply H; now left|]. apply IH. intros G. apply H. now right. Qed.

Lemma restrict_ext vars (e1 e2 : env) : Forall (fun x => e1 x = e2 x) vars -> restrict vars e1 = restrict vars e2.
Proof. induction 1 as [|x r H _ IH]; [reflexivity|]. cbn [restrict]. now rewrite H, IH. Qed.

Lemma for_range_S vars x fuel k body (e : env) :
  for_range vars x (S fuel) k body e =
  match restrict vars (body (upd x (VInt (Z.of_nat k)) e)) N_break with
  | VBool true => restrict vars (body (upd x (VInt (Z.of_nat k)) e))
  | _ => for_range vars x fuel (S k) body (restrict vars (body (upd x (VInt (Z.of_nat k)) e)))
  end.
Proof. reflexivity. Qed.

Lemma v_ge_1_S k : v_ge (VInt (Z.of_nat (S k))) (@VInt F 1) = VBool true.
Proof. unfold v_ge. f_equal. apply Z.leb_le. lia. Qed.
Lemma v_ge_1_0 : v_ge (VInt (Z.of_nat 0)) (@VInt F 1) = VBool false.
Proof. reflexivity. Qed.
(* derivation-style execution: one small lemma per statement *)
Lemma run_seq_nil (e : env) : seq [] e = e. Proof. reflexivity. Qed.
Lemma run_seq_cons (st : env -> env) l (e e1 x : env) : st e = e1 -> seq l e1 = x -> seq (st :: l) e = x.
Proof. intros <- <-. reflexivity. Qed.
Lemma run_assign x (r : env -> val) e v v' : r e = v -> v = v' -> s_assign x r e = upd x v' e.
Proof. intros <- <-. reflexivity. Qed.
Lemma run_bind (r : env -> val) (k : val -> env -> env) e v v' x : r e = v -> v = v' -> k v' e = x -> s_bind r k e = x.
Proof. intros <- <- <-. reflexivity. Qed.
Lemma run_ifs_true (c : env -> val) t f e v x : c e = v -> v = VBool true -> t e = x -> s_ifs c t f e = x.
Proof. intros <- H <-. unfold s_ifs. now rewrite H. Qed.
Lemma run_ifs_false (c : env -> val) t f e v x : c e = v -> v = VBool false -> f e = x -> s_ifs c t f e = x.
Proof. intros <- H <-. unfold s_ifs. now rewrite H. Qed.
Lemma run_ifs_err (c : env -> val) t f e v : c e = v -> v = VErr -> s_ifs c t f e = raise e.
Proof. intros <- H. unfold s_ifs. now rewrite H. Qed.
Lemma run_fors vars x (c : env -> val) body e v v' y : c e = v -> v = v' -> s_for vars x v' body e = y -> s_fors vars x c body e = y.
Proof. intros <- <- <-. reflexivity. Qed.

Lemma v_eq_int (a b : Z) : v_eq (VInt a) (@VInt F b) = VBool (a =? b)%Z. Proof. reflexivity. Qed.
Lemma v_eq_unbound (x : val) : v_eq VUnbound x = VErr. Proof. reflexivity. Qed.
Lemma s_if_err (t f : env -> env) e : s_if VErr t f e = raise e. Proof. reflexivity. Qed.

(* the model loop never reports fewer sweeps than it was entered with *)
Lemma loop_steps_ge n frz PA PB (eps : F) fuel : forall k s h er, (k <= r_steps (loop F n frz PA PB eps fuel k s h er))%nat.
Proof. induction fuel as [|f IH]; intros k s h er; cbn [loop r_steps]; [lia|].
  destruct (match (if (1 <=? k)%nat then Some (br F n s (step F frz PA PB k s)) else None) with
            | Some v => ltb F v eps | None => false end); cbn [r_steps]; [lia|].
  specialize (IH (S k) (step F frz PA PB k s) (h ++ [step F frz PA PB k s])%list
    (er ++ [if (1 <=? k)%nat then Some (br F n s (step F frz PA PB k s)) else None])%list). lia. Qed.
End Lemmas.

(* ---- symbolic execution: one statement of the innermost block whose environment is already a value *)
Ltac py_is_value E :=
  lazymatch E with
  | seq _ _ => fail | s_assign _ _ _ => fail | s_bind _ _ _ => fail | s_ifs _ _ _ _ => fail | s_if _ _ _ _ => fail
  | s_fors _ _ _ _ _ => fail | s_for _ _ _ _ _ => fail | s_prints _ _ => fail | for_range _ _ _ _ _ _ => fail
  | _ => idtac
  end.
(* [ev] : tactic-in-term computing the value of an expression applied to a value environment *)
Ltac py_step ev :=
  match goal with
  | |- context [seq [] ?E] => py_is_value E; rewrite (seq_nil _ E)
  | |- context [seq (?st :: ?l) ?E] => py_is_value E; rewrite (seq_cons _ st l E)
  | |- context [s_assign ?x ?r ?E] => py_is_value E;
      let v := ev (r E) in rewrite (s_assign_eq _ x r E v eq_refl)
  | |- context [s_bind ?r ?k ?E] => py_is_value E;
      let v := ev (r E) in rewrite (s_bind_eq _ r k E v eq_refl); cbv beta
  | |- context [s_ifs ?c ?t ?f ?E] => py_is_value E;
      let v := ev (c E) in rewrite (s_ifs_eq _ c t f E v eq_refl)
  | |- context [s_fors ?vs ?x ?c ?b ?E] => py_is_value E;
      let v := ev (c E) in rewrite (s_fors_eq _ vs x c b E v eq_refl)
  | |- context [s_if (VBool true) ?t ?f ?E] => rewrite (s_if_true _ t f E)
  | |- context [s_if (VBool false) ?t ?f ?E] => rewrite (s_if_false _ t f E)
  | |- context [s_if VErr ?t ?f ?E] => rewrite (s_if_err _ t f E)
  | |- context [s_prints ?vs ?E] => py_is_value E; rewrite (s_prints_ok _ vs E eq_refl)
  end.

(* equality of two frames: name by name, each side computed on the concrete name *)
Ltac py_frames_eq solve1 :=
  apply restrict_ext; repeat (apply Forall_cons; [solve1|]); apply Forall_nil.

(* [py_run ev hook loop]: solves a goal  <block> E = ?X  (or  = a concrete frame that is syntactically the result).
   ev   : term -> term, computes expression values on a value environment;
   hook : tactic rewriting the left-hand side of a goal  v = ?v'  with the propositional facts of the proof (then the
          executor closes it by reflexivity); conditions must end up as VBool true / VBool false / VErr literals;
   loop : tactic solving  s_for vars x cnt body E = ?Y. *)
Ltac py_val ev hook t k :=
  let v := ev t in
  let H := fresh "pyH" in
  eassert (H : v = _) by (hook; reflexivity);
  k v H.
Ltac py_run ev hook loop :=
  lazymatch goal with
  | |- seq [] ?E = _ => exact (run_seq_nil _ E)
  | |- seq (?st :: ?l) ?E = _ =>
      eapply (run_seq_cons _ st l E); [ py_run ev hook loop | py_run ev hook loop ]
  | |- s_assign ?x ?r ?E = _ =>
      py_val ev hook (r E) ltac:(fun v H => exact (run_assign _ x r E v _ (eq_refl v) H))
  | |- s_bind ?r ?k ?E = _ =>
      py_val ev hook (r E) ltac:(fun v H => eapply (run_bind _ r k E v _ _ (eq_refl v) H); clear H; cbv beta; py_run ev hook loop)
  | |- s_ifs ?c ?t ?f ?E = _ =>
      py_val ev hook (c E) ltac:(fun v H =>
        lazymatch type of H with
        | _ = VBool true => eapply (run_ifs_true _ c t f E v _ (eq_refl v) H); clear H; py_run ev hook loop
        | _ = VBool false => eapply (run_ifs_false _ c t f E v _ (eq_refl v) H); clear H; py_run ev hook loop
        | _ = VErr => exact (run_ifs_err _ c t f E v (eq_refl v) H)
        | _ = ?w => fail 100 "py_run: condition does not evaluate to a literal:" w
        end)
  | |- s_fors ?vs ?x ?c ?b ?E = _ =>
      py_val ev hook (c E) ltac:(fun v H => eapply (run_fors _ vs x c b E v _ _ (eq_refl v) H); clear H; loop)
  | |- s_prints ?vs ?E = _ => exact (s_prints_ok _ vs E eq_refl)
  | |- ?g => fail 100 "py_run: unexpected goal" g
  end.
