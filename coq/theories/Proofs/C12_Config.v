(* C12 — the weight configuration: state machine of set_from_standard_qtomography_option_data (THE REPAIRED CODE), the
   inverse-covariance construction, and — for the record — the refutation witnesses (computed over Qc) about the
   [_prefix] definitions, i.e. the code as it was before the fixes c12-* in /verif/fixes.  Axiom-free. *)
From Coq Require Import Ring Field Setoid Arith Lia Bool List QArith Qcanon.
From QV.Core Require Import OF Sums Mat QcOF.
From QV.Model Require Import C12_Loss.
From QV.Proofs Require Import C12_Loss.
Import ListNotations.

(* ------------------------------------------------------------------ state machine, any commutative ring *)
Section Config.
Context {R : CR}.
Notation mat := (@mat R). Notation vec := (@vec R). Notation wts := (@wts R).
Notation fstate := (@fstate R). Notation cstep := (@cstep R).
Notation rstate := (@rstate R). Notation rstep := (@rstep R).

Definition ext_matches_st (N m : nat) (st : fstate) : Prop := ext_matches N m (f_w st) (f_ext st).

(* every mode the option classes accept takes effect, whatever the object held before *)
Lemma modes_effective md (c : wts) k (cur : wts) : set_weights_by_mode md c k cur = mode_spec md c k.
Proof. destruct md; reflexivity. Qed.
Lemma config_generic_history_independent md (c : wts) k (cur cur' : wts) :
  config_generic md c k cur = config_generic md c k cur'.
Proof. unfold config_generic. now rewrite !modes_effective. Qed.

(* _calc_extend_weight_matrix always leaves a cache that matches the weights *)
Lemma calc_ext_matches N m (st : fstate) : ext_matches_st N m (calc_ext m st).
Proof. unfold ext_matches_st, calc_ext; cbn. destruct (f_w st); cbn; [apply meq_refl|exact I]. Qed.
Lemma calc_ext_w m (st : fstate) : f_w (calc_ext m st) = f_w st.
Proof. reflexivity. Qed.
Lemma set_direct_fast_ok N m (w : wts) (st : fstate) :
  f_w (set_direct_fast m w st) = w /\ ext_matches_st N m (set_direct_fast m w st).
Proof. split; [reflexivity|apply calc_ext_matches]. Qed.

(* one configuration of the fast class: same weights as the generic class, cache = extension of THOSE weights *)
Lemma config_fast_ok N m md (c : wts) k (st st' : fstate) :
  config_fast m md c k st = COk st' ->
  config_generic md c k (f_w st) = COk (f_w st') /\ ext_matches_st N m st'.
Proof. unfold config_fast, config_generic. rewrite !calc_ext_w.
  destruct (set_weights_by_mode md c k (f_w st)) as [w|]; intros H; inversion H; subst.
  split; [reflexivity|apply calc_ext_matches]. Qed.
Lemma config_fast_err m md (c : wts) k (st : fstate) :
  config_fast m md c k st = CErr -> config_generic md c k (f_w st) = CErr.
Proof. unfold config_fast, config_generic. rewrite !calc_ext_w.
  destruct (set_weights_by_mode md c k (f_w st)); [discriminate|reflexivity]. Qed.
(* ... and its result does not depend on what the object held before *)
Lemma config_fast_history_independent m md (c : wts) k (st st' : fstate) :
  config_fast m md c k st = config_fast m md c k st'.
Proof. unfold config_fast. rewrite !calc_ext_w, !modes_effective.
  destruct (mode_spec md c k); reflexivity. Qed.

Lemma step_fast_ok N m (s : cstep) (st st' : fstate) :
  step_fast m s st = COk st' -> step_generic s (f_w st) = COk (f_w st') /\ ext_matches_st N m st'.
Proof. destruct s as [md c k|w]; cbn [step_fast step_generic].
  - apply config_fast_ok.
  - intros H; inversion H; subst. split; [reflexivity|apply calc_ext_matches]. Qed.
Lemma step_fast_err m (s : cstep) (st : fstate) : step_fast m s st = CErr -> step_generic s (f_w st) = CErr.
Proof. destruct s as [md c k|w]; cbn [step_fast step_generic]; [apply config_fast_err|discriminate]. Qed.

Lemma run_fast_ok N m (steps : list cstep) : forall (st st' : fstate),
  ext_matches_st N m st -> run_fast m steps st = COk st' ->
  run_generic steps (f_w st) = COk (f_w st') /\ ext_matches_st N m st'.
Proof. induction steps as [|s t IH]; intros st st' H0 H; cbn in *.
  - inversion H; subst. auto.
  - destruct (step_fast m s st) as [st1|] eqn:E1; [|discriminate].
    destruct (step_fast_ok N m s st st1 E1) as [Hg Hm]. rewrite Hg. now apply IH. Qed.
Lemma run_fast_err m (steps : list cstep) : forall (st : fstate),
  run_fast m steps st = CErr -> run_generic steps (f_w st) = CErr.
Proof. induction steps as [|s t IH]; intros st H; cbn in *; [discriminate|].
  destruct (step_fast m s st) as [st1|] eqn:E1.
  - destruct (step_fast_ok 0 m s st st1 E1) as [Hg _]. rewrite Hg. now apply IH.
  - now rewrite (step_fast_err m s st E1). Qed.

(* consequence: after ANY history (configurations with any modes, direct setter calls) on an object whose cache was
   consistent to begin with (e.g. a fresh one) the fast class returns the generic value and gradient *)
Lemma fast_agrees ns m nv (steps : list cstep) (st st' : fstate) (A : mat) (b q v : vec) :
  ext_matches_st (ns * m) m st -> run_fast m steps st = COk st' ->
  run_generic steps (f_w st) = COk (f_w st') /\
  fast_value (ns * m) nv (f_ext st') A b q v = se_value ns m nv (f_w st') A b q v /\
  forall al, fast_grad (ns * m) nv (f_ext st') A b q v al = se_grad ns m nv (f_w st') A b q v al.
Proof. intros H0 H. destruct (run_fast_ok (ns * m) m steps st st' H0 H) as [Hg Hm].
  split; [exact Hg|]. split; [now apply fast_value_eq|]. intros al. now apply fast_grad_eq. Qed.

(* --- option identities: they are carried by the state but never consulted *)
Notation ostate := (@ostate R). Notation ostep := (@ostep R). Notation rostate := (@rostate R). Notation rostep := (@rostep R).
Lemma run_fast_o_erase m (steps : list ostep) : forall os : ostate,
  match run_fast_o m steps os, run_fast m (map erase steps) (o_st os) with
  | COk os', COk st' => o_st os' = st'
  | CErr, CErr => True
  | _, _ => False
  end.
Proof. induction steps as [|s t IH]; intros os; cbn [run_fast_o run_fast map]; [reflexivity|].
  unfold step_fast_o. destruct (step_fast m (erase s) (o_st os)) as [st1|]; [|exact I].
  exact (IH {| o_st := st1; o_opt := held_after s (o_opt os) |}). Qed.
Lemma run_generic_o_erase (steps : list ostep) : forall cur : wts * option nat,
  match run_generic_o steps cur, run_generic (map erase steps) (fst cur) with
  | COk c', COk w => fst c' = w
  | CErr, CErr => True
  | _, _ => False
  end.
Proof. induction steps as [|s t IH]; intros cur; cbn [run_generic_o run_generic map]; [reflexivity|].
  unfold step_generic_o. destruct (step_generic (erase s) (fst cur)) as [w|]; [|exact I].
  exact (IH (w, held_after s (snd cur))). Qed.
(* re-configuration with the SAME option object (or any other) and new data: the weights are those the option's value
   denotes for the CURRENT data, the cache is their extension, whatever the object held (weights, cache, option) *)
Lemma reconfigure_same_option m oid md (c : wts) k (os : ostate) :
  match step_fast_o m (OConfig oid md c k) os, mode_spec md c k with
  | COk os', COk w => f_w (o_st os') = w /\ o_opt os' = Some oid /\
                      f_ext (o_st os') = match w with Some w' => Some (ext_of m w') | None => None end
  | CErr, CErr => True
  | _, _ => False
  end.
Proof. unfold step_fast_o. cbn [erase step_fast]. unfold config_fast. rewrite modes_effective.
  destruct (mode_spec md c k) as [w|]; [|exact I]. cbn. repeat split. Qed.
Lemma run_re_fast_o_erase m (steps : list rostep) : forall os : rostate,
  ro_st (run_re_fast_o m steps os) = run_re_fast m (map rerase steps) (ro_st os).
Proof. induction steps as [|s t IH]; intros os; cbn [run_re_fast_o run_re_fast map]; [reflexivity|].
  rewrite IH. reflexivity. Qed.

(* --- relative entropy *)
Lemma config_re_is_spec cm (custom cur : option vec) : config_re cm custom cur = config_re_spec cm custom.
Proof. reflexivity. Qed.
Lemma calc_ew_ok m (st : rstate) : rstate_ok m (calc_ew m st) /\ r_w (calc_ew m st) = r_w st.
Proof. unfold rstate_ok, calc_ew. destruct (r_w st) eqn:E; cbn; rewrite ?E; auto. Qed.
Lemma set_weights_re_fast_ok m w (st : rstate) :
  rstate_ok m (set_weights_re_fast m true w st) /\ r_w (set_weights_re_fast m true w st) = w.
Proof. unfold set_weights_re_fast. apply calc_ew_ok. Qed.
Lemma config_re_fast_ok m cm (custom : option vec) (st : rstate) :
  rstate_ok m (config_re_fast m cm custom st) /\ r_w (config_re_fast m cm custom st) = config_re_spec cm custom.
Proof. unfold config_re_fast. apply set_weights_re_fast_ok. Qed.
Lemma step_re_fast_ok m (s : rstep) (st : rstate) :
  rstate_ok m (step_re_fast m s st) /\ r_w (step_re_fast m s st) = step_re s (r_w st).
Proof. destruct s as [cm c|w]; cbn [step_re_fast step_re]; [apply config_re_fast_ok|apply set_weights_re_fast_ok]. Qed.
Lemma run_re_fast_ok m (steps : list rstep) : forall st : rstate, rstate_ok m st ->
  rstate_ok m (run_re_fast m steps st) /\ r_w (run_re_fast m steps st) = run_re steps (r_w st).
Proof. induction steps as [|s t IH]; intros st H0; cbn; [auto|].
  destruct (step_re_fast_ok m s st) as [Hok Hw]. destruct (IH _ Hok) as [H1 H2]. split; [exact H1|]. now rewrite H2, Hw. Qed.
Lemma re_fast_sel_ok m (st : rstate) : rstate_ok m st ->
  re_fast_sel st = COk (match r_w st with Some w => Some (ew_of' m w) | None => None end).
Proof. unfold rstate_ok, re_fast_sel. destruct (r_w st); [intros ->; reflexivity|reflexivity]. Qed.

(* --- the code as it was before the fixes (used by the _refuted theorems only) *)
Lemma config_fast_prefix_weights m md (c : wts) k (st : fstate) :
  match config_fast_prefix m md c k st, config_generic_prefix md c k (f_w st) with
  | COk st', COk w => f_w st' = w
  | CErr, CErr => True
  | _, _ => False
  end.
Proof. unfold config_fast_prefix, config_generic_prefix.
  assert (E : f_w (calc_ext_prefix m (calc_ext_prefix m st)) = f_w st).
  { unfold calc_ext_prefix. destruct (f_w st) eqn:Ew; cbn; rewrite ?Ew; cbn; rewrite ?Ew; reflexivity. }
  rewrite E. destruct (set_weights_by_mode_prefix md c k (f_w st)); cbn; auto. Qed.
Lemma config_fast_prefix_cache m md (c : wts) k (st st' : fstate) :
  config_fast_prefix m md c k st = COk st' ->
  f_ext st' = match f_w st with Some w => Some (ext_of m w) | None => f_ext st end.
Proof. unfold config_fast_prefix.
  assert (E : f_ext (calc_ext_prefix m (calc_ext_prefix m st)) = match f_w st with Some w => Some (ext_of m w) | None => f_ext st end).
  { unfold calc_ext_prefix. destruct (f_w st) eqn:Ew; cbn; rewrite ?Ew; cbn; rewrite ?Ew; reflexivity. }
  destruct (set_weights_by_mode_prefix md c k _); intros H; inversion H; subst; cbn. exact E. Qed.
Lemma mode_identity_keeps_prefix md (c : wts) k (cur : wts) :
  md = MIdentity \/ md = MAliasUnbiasedInv -> set_weights_by_mode_prefix md c k cur = COk cur.
Proof. intros [->| ->]; reflexivity. Qed.
End Config.

(* ------------------------------------------------------------------ inverse-covariance construction *)
Section Weights.
Context (F : OF).
Add Field Fw : (k_field F).
Notation "0" := (c0 F). Notation "1" := (c1 F).
Infix "+" := (cadd F). Infix "*" := (cmul F). Infix "-" := (csub F). Infix "/" := (kdiv F).
Notation mat := (@mat F). Notation vec := (@vec F).

Lemma cov_mat_sym (q : vec) n x y : cov_mat F q n x y = cov_mat F q n y x.
Proof. unfold cov_mat. rewrite (Nat.eqb_sym y x). destruct (Nat.eqb_spec x y) as [->|]; f_equal; ring. Qed.
Lemma extracted_sym (q : vec) ncov n32 x y : extracted F q ncov n32 x y = extracted F q ncov n32 y x.
Proof. unfold extracted. now rewrite cov_mat_sym, (Nat.eqb_sym y x). Qed.

(* the slice assignment dst[:r,:c] = src with src of exactly that shape always succeeds *)
Lemma assign_bcast_same r c (src : mat) :
  assign_bcast F r c r c src = Some (fun x y => if (x <? r) && (y <? c) then src x y else 0).
Proof. unfold assign_bcast. rewrite !Nat.eqb_refl. reflexivity. Qed.

Lemma sym_half_sym (inv : mat) x y : sym_half F inv x y = sym_half F inv y x.
Proof. unfold sym_half. f_equal. ring. Qed.
Lemma two_neq0 : 1 + 1 <> 0.
Proof. apply (double_neq0 F). apply (one_neq_zero F). Qed.
Lemma sym_half_of_sym (inv : mat) x y : inv x y = inv y x -> sym_half F inv x y = inv x y.
Proof. intros E. unfold sym_half. rewrite <- E. field. exact two_neq0. Qed.

(* the placement: for EVERY outcome count the weights exist and are the symmetrised inverse on the leading block *)
Lemma place_inv_some row (inv : mat) :
  exists W, place_inv F row inv = Some W /\ forall x y, W x y = lead_block F row (sym_half F inv) x y.
Proof. unfold place_inv. destruct (Nat.eqb_spec row 2) as [->|Hne].
  - eexists. split; [reflexivity|]. intros x y. unfold lead_block.
    destruct x as [|x], y as [|y]; reflexivity.
  - rewrite assign_bcast_same. eexists. split; [reflexivity|]. intros x y. reflexivity. Qed.
Lemma forallb_seq_true (f : nat -> bool) n : forall s, (forall j, (s <= j < s + n)%nat -> f j = true) -> forallb f (seq s n) = true.
Proof. induction n as [|n IH]; intros s H; [reflexivity|]. cbn. rewrite H by lia. apply IH. intros j Hj. apply H. lia. Qed.
Lemma inv_cov_weights_some ns m (invs : nat -> mat) :
  exists w, inv_cov_weights F ns m invs = Some w /\
    forall j x y, w j x y = lead_block F m (sym_half F (invs j)) x y.
Proof. unfold inv_cov_weights, all_some. rewrite forallb_seq_true.
  2:{ intros j _. destruct (place_inv_some m (invs j)) as [W [-> _]]. reflexivity. }
  eexists. split; [reflexivity|]. intros j x y. cbn beta.
  destruct (place_inv_some m (invs j)) as [W [-> HW]]. apply HW. Qed.
Lemma lead_block_sym m (inv : mat) : msym (m - 1) inv -> msym m (lead_block F m inv).
Proof. intros Hs x y _ _. unfold lead_block. rewrite (andb_comm (y <? m - 1)).
  destruct (Nat.ltb_spec x (m - 1)), (Nat.ltb_spec y (m - 1)); cbn; auto. Qed.
Lemma lead_block_sym_half_sym m (inv : mat) : msym m (lead_block F m (sym_half F inv)).
Proof. apply lead_block_sym. intros x y _ _. apply sym_half_sym. Qed.
Lemma qfm_lead_block k (inv : mat) (d : vec) : qfm (S k) (lead_block F (S k) inv) d = qfm k inv d.
Proof. unfold lead_block. replace (S k - 1)%nat with k by lia.
  set (W := fun x y : nat => if (x <? k) && (y <? k) then inv x y else 0).
  assert (Wk1 : forall a, W a k = 0) by (intros a; unfold W; rewrite Nat.ltb_irrefl, andb_false_r; reflexivity).
  assert (Wk2 : forall c, W k c = 0) by (intros c; unfold W; rewrite Nat.ltb_irrefl; reflexivity).
  assert (Win : forall a c, (a < k)%nat -> (c < k)%nat -> W a c = inv a c).
  { intros a c Ha Hc. unfold W. destruct (Nat.ltb_spec a k); [|lia]. destruct (Nat.ltb_spec c k); [|lia]. reflexivity. }
  unfold qfm. cbn [sumn]. rewrite Wk2.
  rewrite (sumn_zero' k (fun c => d k * W k c * d c)) by (intros c _; rewrite Wk2; ring).
  rewrite (sumn_ext k _ (fun a => sumn k (fun c => d a * inv a c * d c))).
  - ring.
  - intros a Ha. rewrite Wk1. rewrite (sumn_ext k _ (fun c => d a * inv a c * d c)).
    + ring.
    + intros c Hc. now rewrite Win. Qed.

(* the oracle: a certified two-sided inverse is THE inverse *)
Lemma is_inverse_unique k (M inv inv' : mat) : is_inverse F k M inv -> is_inverse F k M inv' -> meq k k inv inv'.
Proof. intros [H1 H2] [H1' H2'] x y Hx Hy.
  rewrite <- (mmul_id_r k inv x y Hy).
  rewrite (mmul_ext k inv inv mid (mmul k M inv') k k (meq_refl k k inv) (meq_sym _ _ _ _ H1') x y Hx Hy).
  rewrite <- mmul_assoc.
  rewrite (mmul_ext k (mmul k inv M) mid inv' inv' k k H2 (meq_refl k k inv') x y Hx Hy).
  now apply mmul_id_l. Qed.
(* the inverse of a symmetric matrix is symmetric, hence the symmetrisation in the code is the identity on the
   exact inverse (it only removes the rounding asymmetry of np.linalg.inv) *)
Lemma mid_sym x y : @mid F x y = @mid F y x.
Proof. unfold mid. now rewrite Nat.eqb_sym. Qed.
Lemma inverse_transpose k (M inv : mat) : msym k M -> is_inverse F k M inv -> is_inverse F k M (mT inv).
Proof. intros HM [H1 H2]. split; intros x y Hx Hy.
  - rewrite mid_sym, <- (H2 y x Hy Hx). unfold mmul, mT. apply sumn_ext; intros j Hj. rewrite (HM x j Hx Hj). ring.
  - rewrite mid_sym, <- (H1 y x Hy Hx). unfold mmul, mT. apply sumn_ext; intros j Hj. rewrite (HM j y Hj Hy). ring. Qed.
Lemma inverse_of_sym_is_sym k (M inv : mat) : msym k M -> is_inverse F k M inv -> msym k inv.
Proof. intros HM Hi x y Hx Hy.
  exact (is_inverse_unique k M inv (mT inv) Hi (inverse_transpose k M inv HM Hi) x y Hx Hy). Qed.
Lemma sym_half_exact_inverse k (M inv : mat) : msym k M -> is_inverse F k M inv -> meq k k (sym_half F inv) inv.
Proof. intros HM Hi x y Hx Hy. apply sym_half_of_sym. exact (inverse_of_sym_is_sym k M inv HM Hi x y Hx Hy). Qed.

Lemma forallb_seq_spec (f : nat -> bool) n : forall s, forallb f (seq s n) = true -> forall j, (s <= j < s + n)%nat -> f j = true.
Proof. induction n as [|n IH]; intros s H j Hj; [lia|]. cbn in H. apply andb_true_iff in H. destruct H as [H0 H1].
  destruct (Nat.eq_dec j s) as [->|Hne]; [exact H0|]. apply (IH (S s) H1). lia. Qed.
Lemma is_inverse_b_spec k (M inv : mat) : is_inverse_b F k M inv = true -> is_inverse F k M inv.
Proof. intros H. unfold is_inverse_b in H.
  assert (G : forall x y, (x < k)%nat -> (y < k)%nat -> mmul k M inv x y = mid x y /\ mmul k inv M x y = mid x y).
  { intros x y Hx Hy. pose proof (forallb_seq_spec _ k 0 H x ltac:(lia)) as Hrow. cbn beta in Hrow.
    pose proof (forallb_seq_spec _ k 0 Hrow y ltac:(lia)) as Hc. cbn beta in Hc.
    apply andb_true_iff in Hc. destruct Hc as [Ha Hb]. split; now apply keqb_spec. }
  split; intros x y Hx Hy; now apply G. Qed.

(* --- the code as it was before fix c12-se-inverse-covariance-shape: the slice assignment W[:row,:col] = inverse of shape
       (row-1, row-1) fails for every outcome count other than 2 *)
Lemma place_inv_prefix_none row (inv : mat) : (1 <= row)%nat -> row <> 2%nat -> place_inv_prefix F row inv = None.
Proof. intros H1 H2. unfold place_inv_prefix. destruct (Nat.eqb_spec row 2); [contradiction|].
  unfold assign_bcast.
  replace (Nat.eqb (row - 1) row) with false by (symmetry; apply Nat.eqb_neq; lia).
  replace (Nat.eqb (row - 1) 1) with false by (symmetry; apply Nat.eqb_neq; lia). reflexivity. Qed.
Lemma inv_cov_weights_prefix_none ns m (invs : nat -> mat) :
  (1 <= ns)%nat -> (1 <= m)%nat -> m <> 2%nat -> inv_cov_weights_prefix F ns m invs = None.
Proof. intros Hns Hm H2. unfold inv_cov_weights_prefix, all_some. destruct ns as [|ns]; [lia|].
  cbn [seq forallb]. now rewrite place_inv_prefix_none. Qed.
Lemma inverse_modes_raise_prefix ns m (invs : nat -> mat) md (custom cur : @wts F) :
  (1 <= ns)%nat -> (1 <= m)%nat -> m <> 2%nat -> md = MInvSample \/ md = MInvUnbiased ->
  config_generic_prefix md custom (inv_cov_weights_prefix F ns m invs) cur = CErr.
Proof. intros Hns Hm H2 Hmd. rewrite inv_cov_weights_prefix_none by assumption. destruct Hmd as [-> | ->]; reflexivity. Qed.
(* for 2 outcomes (the only case the upstream tests exercise) the old and the new placement coincide (a 1 x 1 inverse is symmetric) *)
Lemma place_inv_2_agrees (inv : mat) :
  exists W W', place_inv_prefix F 2 inv = Some W /\ place_inv F 2 inv = Some W' /\ forall x y, W x y = W' x y.
Proof. eexists; eexists. split; [reflexivity|]. split; [reflexivity|]. intros x y. cbn beta.
  destruct (Nat.eqb x 0 && Nat.eqb y 0); [|reflexivity]. symmetry. now apply sym_half_of_sym. Qed.
End Weights.

(* ------------------------------------------------------------------ witnesses (Qc, computed) *)
Section Witness.
Local Open Scope Qc_scope.
Notation Rq := (K Qc_OF).
Definition qn (z : Z) : Qc := Q2Qc (inject_Z z).
Definition wA : @mat Rq := fun i _ => if Nat.eqb i 0 then qn 1 else qn (-1).
Definition wz : @vec Rq := fun _ => qn 0.
Definition wv : @vec Rq := fun _ => qn 1.
(* weight matrices of the shape the inverse-covariance mode produces for 2 outcomes: [[t,0],[0,0]] *)
Definition wW (t : Z) : nat -> @mat Rq := fun _ x y => if Nat.eqb x 0 && Nat.eqb y 0 then qn t else qn 0.

Lemma qc_neq (x y : Qc) : Qeq_bool (this x) (this y) = false -> x <> y.
Proof. intros H E. rewrite E in H. rewrite (proj2 (Qeq_bool_iff _ _) (Qeq_refl _)) in H. discriminate. Qed.

(* fresh object: the fast value ignores the first data set's weights (uses the plain dot product);
   reused object: the fast value uses the PREVIOUS data set's weights *)
Lemma fast_stale_witness :
  exists (c1 c2 : nat -> @mat Rq) (A : @mat Rq) (b q v : @vec Rq) (st1 st2 : @fstate Rq),
    config_fast_prefix 2 MInvSample None (Some c1) fresh = COk st1 /\
    config_generic_prefix MInvSample None (Some c1) None = COk (f_w st1) /\
    fast_value 2 1 (f_ext st1) A b q v <> se_value 1 2 1 (f_w st1) A b q v /\
    fast_value 2 1 (f_ext st1) A b q v = se_value 1 2 1 None A b q v /\
    config_fast_prefix 2 MInvSample None (Some c2) st1 = COk st2 /\
    config_generic_prefix MInvSample None (Some c2) (f_w st1) = COk (f_w st2) /\
    fast_value 2 1 (f_ext st2) A b q v <> se_value 1 2 1 (f_w st2) A b q v /\
    fast_value 2 1 (f_ext st2) A b q v = se_value 1 2 1 (f_w st1) A b q v.
Proof. exists (wW 3), (wW 5), wA, wz, wz, wv. eexists. eexists.
  split; [reflexivity|]. split; [reflexivity|]. split; [apply qc_neq; vm_compute; reflexivity|].
  split; [apply Qc_is_canon; vm_compute; reflexivity|]. split; [reflexivity|]. split; [reflexivity|].
  split; [apply qc_neq; vm_compute; reflexivity|]. apply Qc_is_canon; vm_compute; reflexivity. Qed.

Lemma alias_mode_witness :
  exists (c1 : nat -> @mat Rq) (A : @mat Rq) (b q v : @vec Rq) (W Wspec : @wts Rq),
    config_generic_prefix MAliasUnbiasedInv None (Some c1) None = COk W /\ mode_spec MAliasUnbiasedInv None (Some c1) = COk Wspec /\
    se_value 1 2 1 W A b q v <> se_value 1 2 1 Wspec A b q v.
Proof. exists (wW 3), wA, wz, wz, wv. eexists. eexists. split; [reflexivity|]. split; [reflexivity|].
  apply qc_neq; vm_compute; reflexivity. Qed.

Lemma identity_mode_witness :
  exists (c1 : nat -> @mat Rq) (A : @mat Rq) (b q v : @vec Rq) (W1 W2 Wspec : @wts Rq),
    config_generic_prefix MInvSample None (Some c1) None = COk W1 /\ config_generic_prefix MIdentity None None W1 = COk W2 /\
    mode_spec MIdentity None None = COk Wspec /\ se_value 1 2 1 W2 A b q v <> se_value 1 2 1 Wspec A b q v.
Proof. exists (wW 3), wA, wz, wz, wv. eexists. eexists. eexists. split; [reflexivity|]. split; [reflexivity|].
  split; [reflexivity|]. apply qc_neq; vm_compute; reflexivity. Qed.

(* relative entropy: custom weights requested through the option are dropped; observable on the gradient
   (rational, no logarithm involved): q = (3/4, 1/4), p = (1/2, 1/2), dp/dv = (1, -1), weight 2 *)
Definition wq : @vec Qc_OF := fun i => if Nat.eqb i 0 then Q2Qc (3 # 4) else Q2Qc (1 # 4).
Definition wb : @vec Qc_OF := fun _ => Q2Qc (1 # 2).
Definition weps : Qc := Q2Qc (1 # 1000).
Lemma re_custom_witness :
  exists (custom : @vec Qc_OF) (A : @mat Qc_OF) (b q v : @vec Qc_OF),
    config_re_prefix true (Some custom) None = None /\ config_re_spec true (Some custom) = Some custom /\
    re_grad Qc_OF 1 2 1 (config_re_prefix true (Some custom) None) weps weps A b q v O
      <> re_grad Qc_OF 1 2 1 (config_re_spec true (Some custom)) weps weps A b q v O.
Proof. exists (fun _ => qn 2), wA, wb, wq, wz. split; [reflexivity|]. split; [reflexivity|].
  apply qc_neq; vm_compute; reflexivity. Qed.
End Witness.
