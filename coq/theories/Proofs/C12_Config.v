(* C12 — the weight configuration: state machine of set_from_standard_qtomography_option_data, the
   inverse-covariance construction, the refutation witnesses (computed over Qc) and the behaviour after the
   proposed fixes.  Axiom-free. *)
From Coq Require Import Ring Field Setoid Arith Lia Bool List QArith Qcanon.
From QV.Core Require Import OF Sums Mat QcOF.
From QV.Model Require Import C12_Loss.
From QV.Proofs Require Import C12_Loss.
Import ListNotations.

(* ------------------------------------------------------------------ state machine, any commutative ring *)
Section Config.
Context {R : CR}.
Notation mat := (@mat R). Notation vec := (@vec R). Notation wts := (@wts R).
Notation fstate := (@fstate R). Notation cstep := (@cstep R).

Definition ext_matches_st (N m : nat) (st : fstate) : Prop := ext_matches N m (f_w st) (f_ext st).

(* the fast class always holds the same WEIGHTS as the generic class ... *)
Lemma config_fast_weights m md (c : wts) k (st : fstate) :
  match config_fast m md c k st, config_generic md c k (f_w st) with
  | COk st', COk w => f_w st' = w
  | CErr, CErr => True
  | _, _ => False
  end.
Proof. unfold config_fast, config_generic.
  assert (E : f_w (calc_ext m (calc_ext m st)) = f_w st).
  { unfold calc_ext. destruct (f_w st) eqn:Ew; cbn; rewrite ?Ew; cbn; rewrite ?Ew; reflexivity. }
  rewrite E. destruct (set_weights_by_mode md c k (f_w st)); cbn; auto. Qed.
(* ... but its cache is the extension of the weights it held BEFORE the call (or is left untouched) *)
Lemma config_fast_cache m md (c : wts) k (st st' : fstate) :
  config_fast m md c k st = COk st' ->
  f_ext st' = match f_w st with Some w => Some (ext_of m w) | None => f_ext st end.
Proof. unfold config_fast.
  assert (E : f_ext (calc_ext m (calc_ext m st)) = match f_w st with Some w => Some (ext_of m w) | None => f_ext st end).
  { unfold calc_ext. destruct (f_w st) eqn:Ew; cbn; rewrite ?Ew; cbn; rewrite ?Ew; reflexivity. }
  destruct (set_weights_by_mode md c k _); intros H; inversion H; subst; cbn. exact E. Qed.

(* with the proposed fix the cache always matches the weights, whatever the history *)
Lemma config_fast_fixed_ok N m md (c : wts) k (st st' : fstate) :
  config_fast_fixed m md c k st = COk st' ->
  config_generic md c k (f_w st) = COk (f_w st') /\ ext_matches_st N m st'.
Proof. unfold config_fast_fixed, config_generic, ext_matches_st.
  destruct (set_weights_by_mode md c k (f_w st)) as [w|]; intros H; inversion H; subst; cbn. split; [reflexivity|].
  destruct w; cbn; [apply meq_refl|exact I]. Qed.
Lemma config_fast_fixed_err m md (c : wts) k (st : fstate) :
  config_fast_fixed m md c k st = CErr -> config_generic md c k (f_w st) = CErr.
Proof. unfold config_fast_fixed, config_generic. destruct (set_weights_by_mode md c k (f_w st)); [discriminate|reflexivity]. Qed.

Lemma run_fast_fixed_ok N m (steps : list cstep) : forall (st st' : fstate),
  ext_matches_st N m st -> run_fast_fixed m steps st = COk st' ->
  run_generic steps (f_w st) = COk (f_w st') /\ ext_matches_st N m st'.
Proof. induction steps as [|[[md c] k] t IH]; intros st st' H0 H; cbn in *.
  - inversion H; subst. auto.
  - destruct (config_fast_fixed m md c k st) as [st1|] eqn:E1; [|discriminate].
    destruct (config_fast_fixed_ok N m md c k st st1 E1) as [Hg Hm]. rewrite Hg. now apply IH. Qed.
Lemma run_fast_fixed_err m (steps : list cstep) : forall (st : fstate),
  run_fast_fixed m steps st = CErr -> run_generic steps (f_w st) = CErr.
Proof. induction steps as [|[[md c] k] t IH]; intros st H; cbn in *; [discriminate|].
  destruct (config_fast_fixed m md c k st) as [st1|] eqn:E1.
  - destruct (config_fast_fixed_ok 0 m md c k st st1 E1) as [Hg _]. rewrite Hg. now apply IH.
  - now rewrite (config_fast_fixed_err m md c k st E1). Qed.

(* consequence: after ANY history the fixed fast class returns the generic value and gradient *)
Lemma fixed_fast_agrees ns m nv (steps : list cstep) (st' : fstate) (A : mat) (b q v : vec) :
  run_fast_fixed m steps fresh = COk st' ->
  run_generic steps None = COk (f_w st') /\
  fast_value (ns * m) nv (f_ext st') A b q v = se_value ns m nv (f_w st') A b q v /\
  forall al, fast_grad (ns * m) nv (f_ext st') A b q v al = se_grad ns m nv (f_w st') A b q v al.
Proof. intros H. destruct (run_fast_fixed_ok (ns * m) m steps fresh st') as [Hg Hm]; [exact I|exact H|].
  split; [exact Hg|]. split; [now apply fast_value_eq|]. intros al. now apply fast_grad_eq. Qed.

(* which modes take effect in the code as it is *)
Lemma modes_effective md (c : wts) k (cur : wts) :
  (md = MCustom \/ md = MInvSample \/ md = MInvUnbiased \/ (md = MIdentity /\ cur = None)) ->
  set_weights_by_mode md c k cur = mode_spec md c k.
Proof. intros [->|[->|[->|[-> ->]]]]; reflexivity. Qed.
Lemma mode_identity_keeps md (c : wts) k (cur : wts) :
  md = MIdentity \/ md = MAliasUnbiasedInv -> set_weights_by_mode md c k cur = COk cur.
Proof. intros [->| ->]; reflexivity. Qed.
Lemma config_re_ignores (custom cur : option vec) : config_re custom cur = cur.
Proof. reflexivity. Qed.
End Config.

(* ------------------------------------------------------------------ inverse-covariance construction *)
Section Weights.
Context (F : OF).
Add Field Fw : (k_field F).
Notation "0" := (c0 F). Notation "1" := (c1 F).
Infix "+" := (cadd F). Infix "*" := (cmul F). Infix "-" := (csub F). Infix "/" := (kdiv F).
Notation mat := (@mat F). Notation vec := (@vec F).

Lemma cov_mat_sym (q : vec) n x y : cov_mat F q n x y = cov_mat F q n y x.
Proof. unfold cov_mat. rewrite (Nat.eqb_sym y x). destruct (Nat.eqb_spec x y) as [->|]; f_equal; ring. Qed.
Lemma extracted_sym (q : vec) ncov n32 x y : extracted F q ncov n32 x y = extracted F q ncov n32 y x.
Proof. unfold extracted. now rewrite cov_mat_sym, (Nat.eqb_sym y x). Qed.

(* the slice assignment as coded fails for every outcome count other than 2 *)
Lemma place_inv_none row (inv : mat) : (1 <= row)%nat -> row <> 2%nat -> place_inv F row inv = None.
Proof. intros H1 H2. unfold place_inv. destruct (Nat.eqb_spec row 2); [contradiction|].
  unfold assign_bcast.
  replace (Nat.eqb (row - 1) row) with false by (symmetry; apply Nat.eqb_neq; lia).
  replace (Nat.eqb (row - 1) 1) with false by (symmetry; apply Nat.eqb_neq; lia). reflexivity. Qed.
Lemma inv_cov_weights_none ns m (invs : nat -> mat) :
  (1 <= ns)%nat -> (1 <= m)%nat -> m <> 2%nat -> inv_cov_weights F false ns m invs = None.
Proof. intros Hns Hm H2. unfold inv_cov_weights, all_some. destruct ns as [|ns]; [lia|].
  cbn [seq forallb]. now rewrite place_inv_none. Qed.
Lemma inverse_modes_raise ns m (invs : nat -> mat) md (custom cur : @wts F) :
  (1 <= ns)%nat -> (1 <= m)%nat -> m <> 2%nat -> md = MInvSample \/ md = MInvUnbiased ->
  config_generic md custom (inv_cov_weights F false ns m invs) cur = CErr.
Proof. intros Hns Hm H2 Hmd. rewrite inv_cov_weights_none by assumption. destruct Hmd as [-> | ->]; reflexivity. Qed.
(* for 2 outcomes the coded placement is the intended one *)
Lemma place_inv_2 (inv : mat) : exists W W', place_inv F 2 inv = Some W /\ place_inv_fixed F 2 inv = Some W' /\ forall x y, W x y = W' x y.
Proof. eexists; eexists. split; [reflexivity|]. split; [reflexivity|]. intros x y.
  destruct x as [|x], y as [|y]; reflexivity. Qed.

(* after the proposed fix: weights exist for every outcome count, are symmetric, vanish on the last row and
   column and carry the inverse on the leading block, so the value is the reduced quadratic form *)
Lemma forallb_seq_true (f : nat -> bool) n : forall s, (forall j, (s <= j < s + n)%nat -> f j = true) -> forallb f (seq s n) = true.
Proof. induction n as [|n IH]; intros s H; [reflexivity|]. cbn. rewrite H by lia. apply IH. intros j Hj. apply H. lia. Qed.
Lemma inv_cov_weights_fixed ns m (invs : nat -> mat) :
  exists w, inv_cov_weights F true ns m invs = Some w /\
    forall j x y, (j < ns)%nat -> w j x y = if (x <? m - 1) && (y <? m - 1) then invs j x y else 0.
Proof. unfold inv_cov_weights, all_some. rewrite forallb_seq_true by reflexivity.
  eexists. split; [reflexivity|]. intros j x y _. reflexivity. Qed.
Lemma placed_sym m (inv : mat) : msym (m - 1) inv ->
  msym m (fun x y => if (x <? m - 1) && (y <? m - 1) then inv x y else 0).
Proof. intros Hs x y _ _. rewrite (andb_comm (y <? m - 1)).
  destruct (Nat.ltb_spec x (m - 1)), (Nat.ltb_spec y (m - 1)); cbn; auto. Qed.
Lemma qfm_placed k (inv : mat) (d : vec) :
  qfm (S k) (fun x y => if (x <? S k - 1) && (y <? S k - 1) then inv x y else 0) d = qfm k inv d.
Proof. replace (S k - 1)%nat with k by lia.
  set (W := fun x y : nat => if (x <? k) && (y <? k) then inv x y else 0).
  assert (Wk1 : forall a, W a k = 0) by (intros a; unfold W; rewrite Nat.ltb_irrefl, andb_false_r; reflexivity).
  assert (Wk2 : forall c, W k c = 0) by (intros c; unfold W; rewrite Nat.ltb_irrefl; reflexivity).
  assert (Win : forall a c, (a < k)%nat -> (c < k)%nat -> W a c = inv a c).
  { intros a c Ha Hc. unfold W. destruct (Nat.ltb_spec a k); [|lia]. destruct (Nat.ltb_spec c k); [|lia]. reflexivity. }
  unfold qfm. cbn [sumn]. rewrite Wk2.
  rewrite (sumn_zero' k (fun c => d k * W k c * d c)) by (intros c _; rewrite Wk2; ring).
  rewrite (sumn_ext k _ (fun a => sumn k (fun c => d a * inv a c * d c))).
  - ring.
  - intros a Ha. rewrite Wk1. rewrite (sumn_ext k _ (fun c => d a * inv a c * d c)).
    + ring.
    + intros c Hc. now rewrite Win. Qed.

(* the oracle: a certified two-sided inverse is THE inverse *)
Lemma is_inverse_unique k (M inv inv' : mat) : is_inverse F k M inv -> is_inverse F k M inv' -> meq k k inv inv'.
Proof. intros [H1 H2] [H1' H2'] x y Hx Hy.
  rewrite <- (mmul_id_r k inv x y Hy).
  rewrite (mmul_ext k inv inv mid (mmul k M inv') k k (meq_refl k k inv) (meq_sym _ _ _ _ H1') x y Hx Hy).
  rewrite <- mmul_assoc.
  rewrite (mmul_ext k (mmul k inv M) mid inv' inv' k k H2 (meq_refl k k inv') x y Hx Hy).
  now apply mmul_id_l. Qed.
Lemma forallb_seq_spec (f : nat -> bool) n : forall s, forallb f (seq s n) = true -> forall j, (s <= j < s + n)%nat -> f j = true.
Proof. induction n as [|n IH]; intros s H j Hj; [lia|]. cbn in H. apply andb_true_iff in H. destruct H as [H0 H1].
  destruct (Nat.eq_dec j s) as [->|Hne]; [exact H0|]. apply (IH (S s) H1). lia. Qed.
Lemma is_inverse_b_spec k (M inv : mat) : is_inverse_b F k M inv = true -> is_inverse F k M inv.
Proof. intros H. unfold is_inverse_b in H.
  assert (G : forall x y, (x < k)%nat -> (y < k)%nat -> mmul k M inv x y = mid x y /\ mmul k inv M x y = mid x y).
  { intros x y Hx Hy. pose proof (forallb_seq_spec _ k 0 H x ltac:(lia)) as Hrow. cbn beta in Hrow.
    pose proof (forallb_seq_spec _ k 0 Hrow y ltac:(lia)) as Hc. cbn beta in Hc.
    apply andb_true_iff in Hc. destruct Hc as [Ha Hb]. split; now apply keqb_spec. }
  split; intros x y Hx Hy; now apply G. Qed.
End Weights.

(* ------------------------------------------------------------------ witnesses (Qc, computed) *)
Section Witness.
Local Open Scope Qc_scope.
Notation Rq := (K Qc_OF).
Definition qn (z : Z) : Qc := Q2Qc (inject_Z z).
Definition wA : @mat Rq := fun i _ => if Nat.eqb i 0 then qn 1 else qn (-1).
Definition wz : @vec Rq := fun _ => qn 0.
Definition wv : @vec Rq := fun _ => qn 1.
(* weight matrices of the shape the inverse-covariance mode produces for 2 outcomes: [[t,0],[0,0]] *)
Definition wW (t : Z) : nat -> @mat Rq := fun _ x y => if Nat.eqb x 0 && Nat.eqb y 0 then qn t else qn 0.

Lemma qc_neq (x y : Qc) : Qeq_bool (this x) (this y) = false -> x <> y.
Proof. intros H E. rewrite E in H. rewrite (proj2 (Qeq_bool_iff _ _) (Qeq_refl _)) in H. discriminate. Qed.

(* fresh object: the fast value ignores the first data set's weights (uses the plain dot product);
   reused object: the fast value uses the PREVIOUS data set's weights *)
Lemma fast_stale_witness :
  exists (c1 c2 : nat -> @mat Rq) (A : @mat Rq) (b q v : @vec Rq) (st1 st2 : @fstate Rq),
    config_fast 2 MInvSample None (Some c1) fresh = COk st1 /\
    config_generic MInvSample None (Some c1) None = COk (f_w st1) /\
    fast_value 2 1 (f_ext st1) A b q v <> se_value 1 2 1 (f_w st1) A b q v /\
    fast_value 2 1 (f_ext st1) A b q v = se_value 1 2 1 None A b q v /\
    config_fast 2 MInvSample None (Some c2) st1 = COk st2 /\
    config_generic MInvSample None (Some c2) (f_w st1) = COk (f_w st2) /\
    fast_value 2 1 (f_ext st2) A b q v <> se_value 1 2 1 (f_w st2) A b q v /\
    fast_value 2 1 (f_ext st2) A b q v = se_value 1 2 1 (f_w st1) A b q v.
Proof. exists (wW 3), (wW 5), wA, wz, wz, wv. eexists. eexists.
  split; [reflexivity|]. split; [reflexivity|]. split; [apply qc_neq; vm_compute; reflexivity|].
  split; [apply Qc_is_canon; vm_compute; reflexivity|]. split; [reflexivity|]. split; [reflexivity|].
  split; [apply qc_neq; vm_compute; reflexivity|]. apply Qc_is_canon; vm_compute; reflexivity. Qed.

Lemma alias_mode_witness :
  exists (c1 : nat -> @mat Rq) (A : @mat Rq) (b q v : @vec Rq) (W Wspec : @wts Rq),
    config_generic MAliasUnbiasedInv None (Some c1) None = COk W /\ mode_spec MAliasUnbiasedInv None (Some c1) = COk Wspec /\
    se_value 1 2 1 W A b q v <> se_value 1 2 1 Wspec A b q v.
Proof. exists (wW 3), wA, wz, wz, wv. eexists. eexists. split; [reflexivity|]. split; [reflexivity|].
  apply qc_neq; vm_compute; reflexivity. Qed.

Lemma identity_mode_witness :
  exists (c1 : nat -> @mat Rq) (A : @mat Rq) (b q v : @vec Rq) (W1 W2 Wspec : @wts Rq),
    config_generic MInvSample None (Some c1) None = COk W1 /\ config_generic MIdentity None None W1 = COk W2 /\
    mode_spec MIdentity None None = COk Wspec /\ se_value 1 2 1 W2 A b q v <> se_value 1 2 1 Wspec A b q v.
Proof. exists (wW 3), wA, wz, wz, wv. eexists. eexists. eexists. split; [reflexivity|]. split; [reflexivity|].
  split; [reflexivity|]. apply qc_neq; vm_compute; reflexivity. Qed.

(* relative entropy: custom weights requested through the option are dropped; observable on the gradient
   (rational, no logarithm involved): q = (3/4, 1/4), p = (1/2, 1/2), dp/dv = (1, -1), weight 2 *)
Definition wq : @vec Qc_OF := fun i => if Nat.eqb i 0 then Q2Qc (3 # 4) else Q2Qc (1 # 4).
Definition wb : @vec Qc_OF := fun _ => Q2Qc (1 # 2).
Definition weps : Qc := Q2Qc (1 # 1000).
Lemma re_custom_witness :
  exists (custom : @vec Qc_OF) (A : @mat Qc_OF) (b q v : @vec Qc_OF),
    config_re (Some custom) None = None /\ config_re_spec true (Some custom) = Some custom /\
    re_grad Qc_OF 1 2 1 (config_re (Some custom) None) weps weps A b q v O
      <> re_grad Qc_OF 1 2 1 (config_re_spec true (Some custom)) weps weps A b q v O.
Proof. exists (fun _ => qn 2), wA, wb, wq, wz. split; [reflexivity|]. split; [reflexivity|].
  apply qc_neq; vm_compute; reflexivity. Qed.
End Witness.
