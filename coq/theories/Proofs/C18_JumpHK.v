(* C18 — the jump-operator generators in (H, K) form.  For jump operators given by decompositions  c = a I + sum_b g_b B_{b+1}
   (any matrix family B; for an orthonormal basis with B_0 = I/sd: a = tr c / d, g_b = <B_{b+1}, c>) :
     sum_c ( c (x) conj c - 1/2 (c^dagger c (x) I + I (x) conj (c^dagger c)) )  =  lcb_hk H_eff K   entrywise, with
     K = sum_c g g^dagger   and   H_eff = sum_c (i/2)(conj a c' - a c'^dagger),  c' = c - a I  (the identity component of a jump
     operator is NOT dynamically irrelevant: it contributes the Hamiltonian H_eff),
   H_eff and K are Hermitian, hence  sum_c D[c](rho) = -i[H_eff, rho] + sum_ab K_ab (B_a rho B_b^dagger - 1/2 {B_b^dagger B_a, rho}).
   Generic in the ordered field; no hypothesis on B; axiom-free. *)
From Coq Require Import Field Ring Setoid Arith Lia Bool List.
From QV.Core Require Import OF Sums Mat Cplx.
From QV.Model Require Import QObj C18_Lindblad.
From QV.Proofs Require Import C18_Algebra C18_Misc C18_Action C18_Extract C18_Rebuild.
Import ListNotations.
Section JumpHK.
Context (F : OF).
Add Field Ffj : (k_field F).
Notation Cx := (CF F).
Add Ring Crj : (c_ring Cx).
Notation cmat := (cmat F).
Notation "x +c y" := (cadd Cx x y) (at level 50, left associativity).
Notation "x *c y" := (cmul Cx x y) (at level 40, left associativity).
Notation "x -c y" := (csub Cx x y) (at level 50, left associativity).
Notation "0c" := (c0 Cx).
Notation "1c" := (c1 Cx).
Notation half := (half F).
Notation mi := (mi F).
Variable d : nat.
Hypothesis Hd : (0 < d)%nat.
Variable B : nat -> cmat.
Notation n := (d * d)%nat.
Notation m := (d * d - 1)%nat.

Lemma two_ne : cadd F (c1 F) (c1 F) <> c0 F.
Proof. intros E. apply (double_neq0 F) in E; [exact E|apply one_neq_zero]. Qed.
Lemma dm_lt s : (s < n)%nat -> (s / d < d)%nat /\ (s mod d < d)%nat.
Proof. intros Hs. split; [apply Nat.div_lt_upper_bound; lia|apply Nat.mod_upper_bound; lia]. Qed.

(* c^dagger c for c = c' + a I *)
Lemma cdc_shift (c' : cmat) (a : Cx) i k : (i < d)%nat -> (k < d)%nat ->
  mmul d (cadj (madd c' (mscale a mid))) (madd c' (mscale a mid)) i k
  = mmul d (cadj c') c' i k +c zconj a *c c' i k +c a *c zconj (c' k i) +c a *c zconj a *c mid i k.
Proof. intros Hi Hk. unfold mmul, cadj, madd, mscale.
  rewrite (sumn_ext d _ (fun q => (zconj (c' q i) *c c' q k +c (if Nat.eqb q i then zconj a *c c' q k else 0c))
                                   +c ((if Nat.eqb q k then a *c zconj (c' q i) else 0c)
                                   +c (if Nat.eqb q i then (if Nat.eqb q k then a *c zconj a else 0c) else 0c)))).
  2:{ intros q Hq. rewrite cj_add, cj_mul. unfold mid.
      destruct (Nat.eqb q i), (Nat.eqb q k); rewrite ?cj_1, ?cj_0; ring. }
  rewrite !sumn_add.
  rewrite (sumn_delta d i (fun q => zconj a *c c' q k) Hi).
  rewrite (sumn_delta d k (fun q => a *c zconj (c' q i)) Hk).
  rewrite (sumn_delta d i (fun q => if Nat.eqb q k then a *c zconj a else 0c) Hi).
  unfold mid. destruct (Nat.eqb i k); ring. Qed.

Lemma jump1_shift (c' : cmat) (a : Cx) :
  meq n n (jump_d d [madd c' (mscale a mid)]) (madd (jump_d d [c']) (h_part d (jump_heff a c'))).
Proof. intros s t Hs Ht. destruct (dm_lt s Hs) as [A1 A2], (dm_lt t Ht) as [A3 A4].
  set (c := madd c' (mscale a mid)).
  unfold jump_d, jump_j, jump_k, msum. cbn [map fold_right].
  unfold madd, mscale, mzero, j_part, h_part, msub, kron, cconj, cI. cbv beta.
  unfold madd, mscale, msub. cbv beta.
  unfold c. rewrite !cdc_shift by assumption.
  unfold madd, mscale, jump_heff.
  set (M1 := mmul d (cadj c') c' (s / d)%nat (t / d)%nat). set (M2 := mmul d (cadj c') c' (s mod d)%nat (t mod d)%nat).
  set (p := (@mid Cx) (s / d)%nat (t / d)%nat). set (q := (@mid Cx) (s mod d)%nat (t mod d)%nat).
  assert (Hp : zconj p = p) by (unfold p, mid; destruct (Nat.eqb _ _); [apply cj_1|apply cj_0]).
  assert (Hq : zconj q = q) by (unfold q, mid; destruct (Nat.eqb _ _); [apply cj_1|apply cj_0]).
  rewrite !cj_add, !cj_mul, !cj_sub, !cj_mul, !cj_cj, ?Hp, ?Hq.
  apply cplx_eq; cbn; unfold C18_Lindblad.half, two; field; apply two_ne. Qed.

(* the traceless part: c' = sum_b g_b B_{b+1}  gives the generator of K = g g^dagger (no Hamiltonian) *)
Lemma tl_kron (g : nat -> Cx) s t :
  kron d d (jump_tl d B g) (cconj (jump_tl d B g)) s t = k_part d B (jump_K g) s t.
Proof. unfold kron, cconj, jump_tl, k_part, jump_K, bbc, kron, cconj. rewrite cj_sum.
  rewrite sumn_mul. apply (sumn_ext2 Cx). intros a b _ _. rewrite cj_mul. ring. Qed.
Lemma tl_cdc (g : nat -> Cx) i k :
  mscale (zof (copp F half) : Cx) (mmul d (cadj (jump_tl d B g)) (jump_tl d B g)) i k = j_of_k d B (jump_K g) i k.
Proof. unfold mscale, j_of_k. f_equal. unfold mmul, cadj, jump_tl, jump_K, bhb, mmul, cadj.
  set (T := fun a b q => g a *c zconj (g b) *c (zconj (B (S b) q i) *c B (S a) q k)).
  rewrite (sumn_ext d _ (fun q => sumn m (fun a => sumn m (fun b => T a b q)))).
  2:{ intros q _. rewrite cj_sum. rewrite (@sumn_mul Cx m m). rewrite sumn_swap.
      apply (sumn_ext2 Cx). intros a b _ _. unfold T. rewrite cj_mul. ring. }
  rewrite (@sumn_swap Cx d m (fun q a => sumn m (fun b => T a b q))).
  apply (@sumn_ext Cx); intros a _.
  rewrite (@sumn_swap Cx d m (fun q b => T a b q)).
  apply (@sumn_ext Cx); intros b _. unfold T. now rewrite sumn_scale_l. Qed.

Lemma j_part_scale (r : F) (X : cmat) s t : j_part d (mscale (zof r : Cx) X) s t = zof r *c j_part d X s t.
Proof. unfold j_part, madd, kron, cconj, mscale. rewrite cj_mul, cj_zof. ring. Qed.
Lemma jump1_tl (g : nat -> Cx) : meq n n (jump_d d [jump_tl d B g]) (lcb_k d B (jump_K g)).
Proof. intros s t Hs Ht. unfold jump_d, jump_j, jump_k, msum, lcb_k. cbn [map fold_right].
  unfold madd, mscale, mzero. rewrite tl_kron.
  rewrite <- (j_part_ext F d Hd _ _ (fun i k _ _ => tl_cdc g i k) s t Hs Ht).
  rewrite j_part_scale. ring. Qed.
Lemma jump1_hk (a : Cx) (g : nat -> Cx) :
  meq n n (jump_d d [jump_op d B a g]) (lcb_hk d B (jump_heff a (jump_tl d B g)) (jump_K g)).
Proof. intros s t Hs Ht. unfold jump_op. rewrite (jump1_shift _ a s t Hs Ht). unfold madd at 1.
  rewrite (jump1_tl g s t Hs Ht). unfold lcb_hk, lcb_k, madd. ring. Qed.

(* additivity *)
Lemma jump_d_cons (c : cmat) (cs : list cmat) s t : jump_d d (c :: cs) s t = jump_d d [c] s t +c jump_d d cs s t.
Proof. unfold jump_d, jump_j, jump_k, msum. cbn [map fold_right]. unfold madd, mscale, mzero. ring. Qed.
Lemma jump_d_nil s t : jump_d d [] s t = 0c.
Proof. unfold jump_d, jump_j, jump_k, msum. cbn [map fold_right]. unfold madd, mscale, mzero. ring. Qed.
Lemma h_part_madd (H1 H2 : cmat) s t : h_part d (madd H1 H2) s t = h_part d H1 s t +c h_part d H2 s t.
Proof. unfold h_part, mscale, msub, kron, cconj, madd. rewrite cj_add. ring. Qed.
Lemma sum2_madd k (K1 K2 : cmat) (T : nat -> nat -> Cx) :
  sumn k (fun a => sumn k (fun b => madd K1 K2 a b *c T a b))
  = sumn k (fun a => sumn k (fun b => K1 a b *c T a b)) +c sumn k (fun a => sumn k (fun b => K2 a b *c T a b)).
Proof. rewrite <- sumn_add. apply (@sumn_ext Cx); intros a _. rewrite <- sumn_add. apply (@sumn_ext Cx); intros b _.
  unfold madd. ring. Qed.
Lemma j_of_k_madd (K1 K2 : cmat) i j : j_of_k d B (madd K1 K2) i j = j_of_k d B K1 i j +c j_of_k d B K2 i j.
Proof. unfold j_of_k. rewrite (sum2_madd m K1 K2 (fun a b => bhb d B (S a) (S b) i j)). ring. Qed.
Lemma k_part_madd (K1 K2 : cmat) s t : k_part d B (madd K1 K2) s t = k_part d B K1 s t +c k_part d B K2 s t.
Proof. unfold k_part. exact (sum2_madd m K1 K2 (fun a b => bbc d B (S a) (S b) s t)). Qed.
Lemma lcb_hk_entry (H K : cmat) s t :
  lcb_hk d B H K s t = h_part d H s t +c j_part d (j_of_k d B K) s t +c k_part d B K s t.
Proof. reflexivity. Qed.
Lemma j_part_j_of_k_madd (K1 K2 : cmat) s t :
  j_part d (j_of_k d B (madd K1 K2)) s t = j_part d (j_of_k d B K1) s t +c j_part d (j_of_k d B K2) s t.
Proof. set (X := madd K1 K2). unfold j_part, madd, kron, cconj. unfold X. rewrite !j_of_k_madd, cj_add. ring. Qed.
Lemma lcb_hk_madd (H1 H2 K1 K2 : cmat) s t :
  lcb_hk d B (madd H1 H2) (madd K1 K2) s t = lcb_hk d B H1 K1 s t +c lcb_hk d B H2 K2 s t.
Proof. rewrite !lcb_hk_entry, h_part_madd, k_part_madd, j_part_j_of_k_madd. ring. Qed.
Lemma lcb_hk_zero s t : lcb_hk d B mzero mzero s t = 0c.
Proof. unfold lcb_hk, madd, h_part, j_part, k_part, j_of_k, mscale, msub, madd, kron, cconj, mzero.
  rewrite !(sumn_zero' m) by (intros a _; apply sumn_zero'; intros b _; ring). rewrite cj_mul, !cj_0. ring. Qed.

Theorem jumps_as_hk (l : list (Cx * (nat -> Cx))) :
  meq n n (jump_d d (jumps_ops d B l)) (lcb_hk d B (jumps_H d B l) (jumps_K l)).
Proof. induction l as [|[a g] l IH]; intros s t Hs Ht.
  - unfold jumps_ops, jumps_H, jumps_K, msum. cbn [map fold_right]. now rewrite lcb_hk_zero, jump_d_nil.
  - unfold jumps_ops, jumps_H, jumps_K, msum in *. cbn [map fold_right fst snd]. rewrite jump_d_cons, lcb_hk_madd.
    rewrite (jump1_hk a g s t Hs Ht), (IH s t Hs Ht). reflexivity. Qed.

(* H_eff and K are Hermitian, so the (H, K) generator is a GKSL generator: the jump-operator form and the (H, K) form of the
   GKSL right-hand side agree on every matrix *)
Lemma jump_heff_herm (a : Cx) (c' : cmat) i j : jump_heff a c' i j = zconj (jump_heff a c' j i).
Proof. unfold jump_heff. apply cplx_eq; cbn; ring. Qed.
Lemma jump_K_herm (g : nat -> Cx) a b : jump_K g a b = zconj (jump_K g b a).
Proof. unfold jump_K. rewrite cj_mul, cj_cj. ring. Qed.
Lemma msum_herm (l : list cmat) : (forall X, In X l -> forall i j, X i j = zconj (X j i)) -> forall i j, msum l i j = zconj (msum l j i).
Proof. induction l as [|X l IH]; intros H i j; unfold msum; cbn [fold_right].
  - unfold mzero. now rewrite cj_0.
  - fold (msum l). unfold madd. rewrite cj_add, <- (H X (or_introl eq_refl) i j), <- (IH (fun Y HY => H Y (or_intror HY)) i j). reflexivity. Qed.
Lemma jumps_H_herm l k : @hermitian F k (jumps_H d B l).
Proof. intros i j _ _. apply msum_herm. intros X HX. apply in_map_iff in HX. destruct HX as [p [<- _]]. apply jump_heff_herm. Qed.
Lemma jumps_K_herm (l : list (Cx * (nat -> Cx))) k : @hermitian F k (jumps_K l).
Proof. intros i j _ _. apply msum_herm. intros X HX. apply in_map_iff in HX. destruct HX as [p [<- _]]. apply jump_K_herm. Qed.

Theorem jumps_gksl_as_hk (l : list (Cx * (nat -> Cx))) (rho : cmat) i j : (i < d)%nat -> (j < d)%nat ->
  gksl_jump d (jumps_ops d B l) rho i j = gksl d B (jumps_H d B l) (jumps_K l) rho i j.
Proof. intros Hi Hj.
  rewrite <- (apply_jump_gksl F d Hd (jumps_ops d B l) rho i j Hi Hj).
  rewrite <- (apply_lcb_hk_gksl F d Hd B _ _ rho (jumps_H_herm l d) (jumps_K_herm l m) i j Hi Hj).
  rewrite !(apply_cb_entry F d) by exact Hj.
  apply mv_ext_m. intros q Hq. apply jumps_as_hk; [nia|exact Hq]. Qed.
End JumpHK.
