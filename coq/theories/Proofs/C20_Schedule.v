(* C20 — specification predicates and proofs about the schedule-validation model. *)
From Coq Require Import ZArith List Bool Arith String Lia.
From QV.Model Require Import C20_Schedule.
Import ListNotations.

(* ================================================================== specification (declarative) *)
Definition in_range (c : cfg) (it : titem) : Prop := (0 <= snd it < size c (fst it))%Z.
(* a well-typed item: a 2-tuple of a known kind name (str) and an int (not bool) index that is in range *)
Definition item_ok (c : cfg) (v : pyval) : Prop := exists it, v = raw it /\ in_range c it.
Definition order_ok (s : list titem) : Prop :=
  (2 <= List.length s)%nat /\
  (exists z rest, s = (KState, z) :: rest /\ Forall (fun it => fst it <> KState) rest) /\
  (forall a b za zb, nth_error s a = Some (KPovm, za) -> nth_error s b = Some (KPovm, zb) -> a = b) /\
  (exists front k z, s = front ++ [(k, z)] /\ (k = KPovm \/ k = KMprocess)).
Definition well_formed (c : cfg) (s : rsched) : Prop :=
  exists items, s = SSeq (map raw items) /\ Forall (in_range c) items /\ order_ok items.

(* ================================================================== items *)
Lemma kind_eqb_eq a b : kind_eqb a b = true <-> a = b.
Proof. destruct a, b; cbn; split; intros H; try reflexivity; try discriminate. Qed.
Lemma kind_eqb_refl a : kind_eqb a a = true. Proof. now destruct a. Qed.
Lemma kind_eqb_neq a b : kind_eqb a b = false <-> a <> b.
Proof. destruct a, b; cbn; split; intros H; try reflexivity; try discriminate; try congruence. Qed.

Lemma kind_of_name_name k : kind_of_name (kind_name k) = Some k.
Proof. now destruct k. Qed.
Lemma kind_of_name_spec s k : kind_of_name s = Some k <-> s = kind_name k.
Proof.
  split; [|intros ->; apply kind_of_name_name].
  unfold kind_of_name.
  destruct (String.eqb_spec s "state"); [intros [= <-]; assumption|].
  destruct (String.eqb_spec s "povm"); [intros [= <-]; assumption|].
  destruct (String.eqb_spec s "gate"); [intros [= <-]; assumption|].
  destruct (String.eqb_spec s "mprocess"); [intros [= <-]; assumption|].
  discriminate.
Qed.
Lemma kind_name_inj a b : kind_name a = kind_name b -> a = b.
Proof. intros H. pose proof (kind_of_name_name a) as Ha. rewrite H, kind_of_name_name in Ha. congruence. Qed.
Lemma raw_inj a b : raw a = raw b -> a = b.
Proof. destruct a as [k z], b as [k' z']; unfold raw; cbn. intros [= Hk Hz]. apply kind_name_inj in Hk. congruence. Qed.
Lemma map_raw_inj a b : map raw a = map raw b -> a = b.
Proof. revert b; induction a as [|x a IH]; intros [|y b]; cbn; try discriminate; [reflexivity|].
  intros H. assert (H1 : raw x = raw y) by congruence. assert (H2 : map raw a = map raw b) by congruence.
  f_equal; [now apply raw_inj | now apply IH]. Qed.

Lemma sched_of_inj a b : sched_of a = sched_of b -> a = b.
Proof. unfold sched_of. intros H. apply map_raw_inj. congruence. Qed.

Lemma size_nil c k : objs c k = [] -> size c k = 0%Z.
Proof. unfold size; now intros ->. Qed.

(* the item validator accepts exactly the well-typed in-range items, and returns the parsed item *)
Lemma validate_item_ok_iff c v it : validate_item c v = IOk it <-> v = raw it /\ in_range c it.
Proof.
  split.
  - destruct v as [| | | |vs|]; cbn; try discriminate.
    destruct vs as [|name [|idx [|x vs]]]; try discriminate.
    destruct name as [|s| | | |]; try discriminate.
    destruct idx as [| |z| | |]; try discriminate.
    destruct (kind_of_name s) as [k|] eqn:Hk; [|discriminate].
    apply kind_of_name_spec in Hk; subst s.
    destruct (kind_eqb k KPovm && is_nil (c_povms c)); [discriminate|].
    destruct (kind_eqb k KMprocess && is_nil (c_mprocesses c)); [discriminate|].
    destruct ((0 <=? z) && (z <? size c k))%Z eqn:Hr; [|discriminate].
    intros [= <-]. split; [reflexivity|]. unfold in_range; cbn. lia.
  - intros [-> Hr]. destruct it as [k z]. unfold in_range in Hr; cbn [fst snd] in Hr.
    unfold raw; cbn [fst snd validate_item]. rewrite kind_of_name_name.
    assert (H1 : kind_eqb k KPovm && is_nil (c_povms c) = false).
    { destruct k; cbn; try reflexivity. destruct (c_povms c) eqn:E; [|reflexivity].
      exfalso. unfold size in Hr; cbn in Hr. rewrite E in Hr. cbn in Hr. lia. }
    assert (H2 : kind_eqb k KMprocess && is_nil (c_mprocesses c) = false).
    { destruct k; cbn; try reflexivity. destruct (c_mprocesses c) eqn:E; [|reflexivity].
      exfalso. unfold size in Hr; cbn in Hr. rewrite E in Hr. cbn in Hr. lia. }
    rewrite H1, H2.
    replace ((0 <=? z) && (z <? size c k))%Z with true; [reflexivity|]. symmetry.
    apply andb_true_iff; split; [apply Z.leb_le | apply Z.ltb_lt]; lia.
Qed.
Lemma validate_item_err_iff c v : (exists e, validate_item c v = IErr e) <-> ~ item_ok c v.
Proof.
  split.
  - intros [e He] [it [-> Hr]]. assert (H : validate_item c (raw it) = IOk it) by (apply validate_item_ok_iff; auto). congruence.
  - intros H. destruct (validate_item c v) as [it|e] eqn:E; [|now exists e].
    exfalso; apply H. exists it. now apply validate_item_ok_iff.
Qed.

(* all items pass  <->  the schedule is the raw form of in-range typed items (which are then returned) *)
Lemma cons_map_raw_inv v l t : v :: l = map raw t -> exists a t', t = a :: t' /\ v = raw a /\ l = map raw t'.
Proof. destruct t as [|a t']; cbn; [discriminate|]. intros H. exists a, t'. repeat split; congruence. Qed.
Lemma validate_items_inl_iff c items : forall j t,
  validate_items c j items = inl t <-> items = map raw t /\ Forall (in_range c) t.
Proof.
  induction items as [|v items IH]; intros j t; cbn.
  - split.
    + intros [= <-]. split; [reflexivity|constructor].
    + intros [H _]. destruct t; [reflexivity|discriminate].
  - destruct (validate_item c v) as [it|e] eqn:E.
    + apply validate_item_ok_iff in E. destruct E as [-> Hr].
      destruct (validate_items c (S j) items) as [l|x] eqn:E2.
      * apply IH in E2. destruct E2 as [-> Hl]. split.
        -- intros [= <-]. split; [reflexivity|now constructor].
        -- intros [H1 H2]. apply cons_map_raw_inv in H1. destruct H1 as (a & t' & -> & Ha & Ht).
           apply raw_inj in Ha. apply map_raw_inj in Ht. now subst.
      * split; [discriminate|]. intros [H1 H2]. apply cons_map_raw_inv in H1. destruct H1 as (a & t' & -> & Ha & Ht).
        inversion H2; subst. assert (validate_items c (S j) (map raw t') = inl t') by (apply IH; auto). congruence.
    + split; [discriminate|]. intros [H1 H2]. apply cons_map_raw_inv in H1. destruct H1 as (a & t' & -> & Ha & Ht).
      inversion H2; subst. assert (validate_item c (raw a) = IOk a) by (apply validate_item_ok_iff; auto). congruence.
Qed.
(* first failing item: position, everything before it is fine, the item itself is not *)
Lemma validate_items_inr c items : forall j0 j e,
  validate_items c j0 items = inr (j, e) ->
  exists pre bad post, items = map raw pre ++ bad :: post /\ Forall (in_range c) pre /\
                       j = (j0 + List.length pre)%nat /\ validate_item c bad = IErr e.
Proof.
  induction items as [|v items IH]; intros j0 j e; cbn; [discriminate|].
  destruct (validate_item c v) as [it|e'] eqn:E.
  - apply validate_item_ok_iff in E. destruct E as [-> Hr].
    destruct (validate_items c (S j0) items) as [l|x] eqn:E2; [discriminate|].
    intros [= ->]. apply IH in E2. destruct E2 as (pre & bad & post & -> & Hp & -> & Hb).
    exists (it :: pre), bad, post. cbn. repeat split; auto; try lia.
  - intros [= <- <-]. exists [], v, items. cbn. repeat split; auto; try lia.
Qed.
Lemma validate_items_total c items j :
  (exists t, validate_items c j items = inl t) \/ (exists j' e, validate_items c j items = inr (j', e)).
Proof. destruct (validate_items c j items) as [t|[j' e]]; [left; now exists t | right; now exists j', e]. Qed.
Lemma validate_items_shift c items : forall j j',
  match validate_items c j items, validate_items c j' items with
  | inl a, inl b => a = b
  | inr (x, e), inr (y, e') => e = e' /\ (x + j' = y + j)%nat
  | _, _ => False
  end.
Proof.
  induction items as [|v items IH]; intros j j'; cbn; [reflexivity|].
  destruct (validate_item c v); [|split; [reflexivity|lia]].
  specialize (IH (S j) (S j')).
  destruct (validate_items c (S j) items) as [a|[x e]], (validate_items c (S j') items) as [b|[y e']]; try contradiction.
  - now subst.
  - destruct IH; split; [assumption|lia].
Qed.

(* ================================================================== order *)
Lemma count_kind_cons k it s : count_kind k (it :: s) = ((if kind_eqb (fst it) k then 1 else 0) + count_kind k s)%nat.
Proof. unfold count_kind; cbn. now destruct (kind_eqb (fst it) k). Qed.
Lemma count_zero_iff k s : count_kind k s = 0%nat <-> Forall (fun it => fst it <> k) s.
Proof.
  induction s as [|it s IH]; [split; [constructor|reflexivity]|].
  rewrite count_kind_cons. destruct (kind_eqb (fst it) k) eqn:E.
  - split; [discriminate|]. intros H; inversion H; subst. apply kind_eqb_eq in E. contradiction.
  - cbn. rewrite IH. apply kind_eqb_neq in E. split; [now constructor | intros H; now inversion H].
Qed.
Lemma count_le1_iff k s : (count_kind k s <= 1)%nat <->
  (forall a b za zb, nth_error s a = Some (k, za) -> nth_error s b = Some (k, zb) -> a = b).
Proof.
  induction s as [|it s IH].
  - split; [intros _ [|a] b za zb H; discriminate | intros _; cbn; lia].
  - rewrite count_kind_cons. destruct (kind_eqb (fst it) k) eqn:E.
    + apply kind_eqb_eq in E. split.
      * intros H. assert (H0 : count_kind k s = 0%nat) by lia. apply count_zero_iff in H0.
        rewrite Forall_forall in H0.
        intros [|a] [|b] za zb Ha Hb; cbn in *; try reflexivity; exfalso.
        -- apply nth_error_In in Hb. apply H0 in Hb. now cbn in Hb.
        -- apply nth_error_In in Ha. apply H0 in Ha. now cbn in Ha.
        -- apply nth_error_In in Ha. apply H0 in Ha. now cbn in Ha.
      * intros H. enough (count_kind k s = 0%nat) by lia. apply count_zero_iff. apply Forall_forall.
        intros [k' z'] Hin Hk; cbn in Hk; subst k'. apply In_nth_error in Hin. destruct Hin as [n Hn].
        destruct it as [k0 z0]; cbn in E; subst k0.
        specialize (H 0%nat (S n) z0 z' eq_refl Hn). discriminate.
    + apply kind_eqb_neq in E. cbn [Nat.add]. rewrite IH. split.
      * intros H [|a] [|b] za zb Ha Hb; cbn in *; try reflexivity.
        -- injection Ha as Ha; subst it; now cbn in E.
        -- injection Hb as Hb; subst it; now cbn in E.
        -- f_equal; eauto.
      * intros H a b za zb Ha Hb. specialize (H (S a) (S b) za zb Ha Hb). now injection H.
Qed.
Lemma is_meas_iff k : is_meas k = true <-> (k = KPovm \/ k = KMprocess).
Proof. destruct k; cbn; split; intros H; try discriminate; auto; destruct H; discriminate. Qed.
Lemma last_app_single {A} (l : list A) x d : last (l ++ [x]) d = x.
Proof. apply last_last. Qed.

Lemma validate_order_none_iff s : validate_order s = None <-> order_ok s.
Proof.
  unfold validate_order, order_ok. split.
  - destruct (Nat.ltb_spec (List.length s) 2) as [|Hlen]; [discriminate|].
    destruct (kind_eqb (fst (hd dflt_item s)) KState) eqn:Hhd; cbn [negb]; [|discriminate].
    destruct (is_meas (fst (last s dflt_item))) eqn:Hlast; cbn [negb]; [|discriminate].
    destruct (Nat.leb_spec 2 (count_kind KState s)) as [|Hcs]; [discriminate|].
    destruct (Nat.leb_spec 2 (count_kind KPovm s)) as [|Hcp]; [discriminate|]. intros _.
    split; [assumption|]. split; [|split].
    + destruct s as [|[k z] rest]; [cbn in Hlen; lia|]. cbn in Hhd. apply kind_eqb_eq in Hhd; subst k.
      exists z, rest. split; [reflexivity|]. apply count_zero_iff. rewrite count_kind_cons in Hcs. cbn in Hcs. lia.
    + apply count_le1_iff. lia.
    + destruct (exists_last (l := s)) as [front [[k z] ->]]; [intros ->; cbn in Hlen; lia|].
      rewrite last_app_single in Hlast. cbn in Hlast. exists front, k, z. split; [reflexivity|]. now apply is_meas_iff.
  - intros (Hlen & (z & rest & Hs0 & Hrest) & Hp & (front & k & z' & Hs & Hk)).
    destruct (Nat.ltb_spec (List.length s) 2) as [|_]; [lia|].
    assert (Hhd : kind_eqb (fst (hd dflt_item s)) KState = true) by (rewrite Hs0; reflexivity).
    rewrite Hhd. cbn [negb].
    assert (Hl : is_meas (fst (last s dflt_item)) = true).
    { rewrite Hs, last_app_single. cbn [fst]. now apply is_meas_iff. }
    rewrite Hl. cbn [negb].
    assert (Hcs : count_kind KState s = 1%nat).
    { rewrite Hs0, count_kind_cons. cbn. apply count_zero_iff in Hrest. lia. }
    rewrite Hcs. change (2 <=? 1)%nat with false. cbv iota. apply count_le1_iff in Hp.
    destruct (Nat.leb_spec 2 (count_kind KPovm s)); [lia|reflexivity].
Qed.
(* which rule is reported: the first violated one, in the code's order *)
Lemma validate_order_reason s r : validate_order s = Some r ->
  match r with
  | TooShort => (List.length s < 2)%nat
  | FirstNotState => (2 <= List.length s)%nat /\ forall z rest, s <> (KState, z) :: rest
  | LastNotMeasurement => (2 <= List.length s)%nat /\ (exists z rest, s = (KState, z) :: rest) /\
                          forall front k z, s = front ++ [(k, z)] -> k <> KPovm /\ k <> KMprocess
  | TooManyStates => (exists z rest, s = (KState, z) :: rest /\ ~ Forall (fun it => fst it <> KState) rest)
  | TooManyPovms => (exists z rest, s = (KState, z) :: rest /\ Forall (fun it => fst it <> KState) rest) /\
                    exists a b za zb, nth_error s a = Some (KPovm, za) /\ nth_error s b = Some (KPovm, zb) /\ a <> b
  end.
Proof.
  unfold validate_order.
  destruct (Nat.ltb_spec (List.length s) 2) as [Hlen|Hlen]; [intros [= <-]; assumption|].
  destruct (kind_eqb (fst (hd dflt_item s)) KState) eqn:Hhd; cbn [negb].
  2:{ intros [= <-]. split; [assumption|]. intros z rest ->. cbn in Hhd. discriminate. }
  assert (Hst : exists z rest, s = (KState, z) :: rest).
  { destruct s as [|[k z] rest]; [cbn in Hlen; lia|]. cbn in Hhd. apply kind_eqb_eq in Hhd; subst k. now exists z, rest. }
  destruct (is_meas (fst (last s dflt_item))) eqn:Hlast; cbn [negb].
  2:{ intros [= <-]. split; [assumption|]. split; [assumption|]. intros front k z ->. rewrite last_app_single in Hlast.
      cbn in Hlast. destruct k; cbn in Hlast; try discriminate; split; discriminate. }
  destruct Hst as (z & rest & ->).
  destruct (Nat.leb_spec 2 (count_kind KState ((KState, z) :: rest))) as [Hcs|Hcs].
  { intros [= <-]. exists z, rest. split; [reflexivity|]. intros HF. apply count_zero_iff in HF.
    rewrite count_kind_cons in Hcs. cbn in Hcs. lia. }
  destruct (Nat.leb_spec 2 (count_kind KPovm ((KState, z) :: rest))) as [Hcp|Hcp]; [|discriminate].
  intros [= <-]. split.
  { exists z, rest. split; [reflexivity|]. apply count_zero_iff. rewrite count_kind_cons in Hcs. cbn in Hcs. lia. }
  (* two POVM positions exist *)
  clear - Hcp. remember ((KState, z) :: rest) as s. clear Heqs.
  induction s as [|it s IH]; [cbn in Hcp; lia|].
  rewrite count_kind_cons in Hcp. destruct (kind_eqb (fst it) KPovm) eqn:E.
  - apply kind_eqb_eq in E. destruct it as [k0 z0]; cbn in E; subst k0.
    assert (Hn : count_kind KPovm s <> 0%nat) by lia.
    rewrite count_zero_iff in Hn.
    assert (Hex : exists n z1, nth_error s n = Some (KPovm, z1)).
    { clear - Hn. induction s as [|[k1 z1] s IH]; [exfalso; apply Hn; constructor|].
      destruct (kind_eqb k1 KPovm) eqn:E.
      - apply kind_eqb_eq in E; subst. now exists 0%nat, z1.
      - apply kind_eqb_neq in E. destruct IH as (n & z2 & H).
        + intros HF. apply Hn. constructor; [exact E|exact HF].
        + now exists (S n), z2. }
    destruct Hex as (n & z1 & Hn1). exists 0%nat, (S n), z0, z1. cbn. repeat split; auto.
  - cbn in Hcp. destruct (IH Hcp) as (a & b & za & zb & Ha & Hb & Hab).
    exists (S a), (S b), za, zb. cbn. repeat split; auto.
Qed.

(* ================================================================== schedule lists *)
Lemma seq_wf_iff c items :
  well_formed c (SSeq items) <-> exists t, validate_items c 0 items = inl t /\ validate_order t = None.
Proof.
  split.
  - intros (t & [= ->] & Hr & Ho). exists t. split; [apply validate_items_inl_iff; auto | now apply validate_order_none_iff].
  - intros (t & Hi & Ho). apply validate_items_inl_iff in Hi. destruct Hi as [-> Hr].
    exists t. split; [reflexivity|]. split; [assumption|]. now apply validate_order_none_iff.
Qed.
Lemma noniter_not_wf c : ~ well_formed c SNonIter.
Proof. intros (t & H & _). discriminate. Qed.

Lemma validate_from_ok_iff c ss : forall i, validate_from c i ss = VOk <-> Forall (well_formed c) ss.
Proof.
  induction ss as [|s ss IH]; intros i; cbn; [split; [constructor|reflexivity]|].
  destruct s as [items|].
  - destruct (validate_items c 0 items) as [t|[j e]] eqn:Hi.
    + destruct (validate_order t) as [r|] eqn:Ho.
      * split; [discriminate|]. intros H; inversion H as [|? ? Hwf _]; subst. apply seq_wf_iff in Hwf.
        destruct Hwf as (t' & Hi' & Ho'). congruence.
      * rewrite IH. split.
        -- intros H. constructor; [|exact H]. apply seq_wf_iff. now exists t.
        -- intros H; now inversion H.
    + split; [discriminate|]. intros H; inversion H as [|? ? Hwf _]; subst. apply seq_wf_iff in Hwf.
      destruct Hwf as (t' & Hi' & _). congruence.
  - split; [discriminate|]. intros H; inversion H as [|? ? Hwf _]; subst. now apply noniter_not_wf in Hwf.
Qed.

Theorem experiment_accepts_iff c ss : validate_schedules c ss = VOk <-> Forall (well_formed c) ss.
Proof. apply validate_from_ok_iff. Qed.

(* ================================================================== which error, where *)
(* the schedule's first item that is not a well-typed in-range item sits at position j and raised e *)
Definition first_bad_item (c : cfg) (items : list pyval) (j : nat) (e : pyexc) : Prop :=
  exists pre bad post, items = map raw pre ++ bad :: post /\ Forall (in_range c) pre /\ j = List.length pre /\
                       ~ item_ok c bad /\ validate_item c bad = IErr e.
Definition has_bad_item (c : cfg) (s : rsched) : Prop :=
  exists items v, s = SSeq items /\ In v items /\ ~ item_ok c v.

Lemma wf_items_nonempty c items : well_formed c (SSeq items) -> items <> [].
Proof. intros (t & [= ->] & _ & Hlen & _). destruct t; cbn in *; [lia|discriminate]. Qed.

Lemma validate_from_spec c ss : forall i0,
  match validate_from c i0 ss with
  | VOk => Forall (well_formed c) ss
  | VItemError i j e =>
      exists pre items post, ss = pre ++ SSeq items :: post /\ i = (i0 + List.length pre)%nat /\ Forall (well_formed c) pre /\
        first_bad_item c items j e
  | VNonIter i =>
      exists pre post, ss = pre ++ SNonIter :: post /\ i = (i0 + List.length pre)%nat /\ Forall (well_formed c) pre
  | VOrderError i r =>
      exists pre t post, ss = pre ++ sched_of t :: post /\ i = (i0 + List.length pre)%nat /\ Forall (well_formed c) pre /\
        Forall (in_range c) t /\ ~ order_ok t /\ validate_order t = Some r
  end.
Proof.
  induction ss as [|s ss IH]; intros i0; cbn; [constructor|].
  destruct s as [items|].
  - destruct (validate_items c 0 items) as [t|[j e]] eqn:Hi.
    + destruct (validate_order t) as [r|] eqn:Ho.
      * apply validate_items_inl_iff in Hi. destruct Hi as [-> Hr].
        exists [], t, ss. cbn. repeat split; auto.
        intros Hok. apply validate_order_none_iff in Hok. congruence.
      * assert (Hwf : well_formed c (SSeq items)) by (apply seq_wf_iff; now exists t).
        specialize (IH (S i0)).
        destruct (validate_from c (S i0) ss) as [|i j e|i|i r].
        -- now constructor.
        -- destruct IH as (pre & its & post & -> & -> & Hpre & Hs).
           exists (SSeq items :: pre), its, post. cbn. split; [reflexivity|]. split; [lia|]. split; [now constructor|assumption].
        -- destruct IH as (pre & post & -> & -> & Hpre).
           exists (SSeq items :: pre), post. cbn. split; [reflexivity|]. split; [lia|now constructor].
        -- destruct IH as (pre & t' & post & -> & -> & Hpre & Hrest).
           exists (SSeq items :: pre), t', post. cbn. split; [reflexivity|]. split; [lia|]. split; [now constructor|assumption].
    + apply validate_items_inr in Hi. destruct Hi as (pre & bad & post & -> & Hp & -> & Hb).
      exists [], (map raw pre ++ bad :: post), ss. cbn. repeat split; auto.
      exists pre, bad, post. repeat split; auto.
      apply validate_item_err_iff. now exists e.
  - exists [], ss. cbn. repeat split; auto.
Qed.

Theorem validate_schedules_spec c ss :
  match validate_schedules c ss with
  | VOk => Forall (well_formed c) ss
  | VItemError i j e =>
      exists pre items post, ss = pre ++ SSeq items :: post /\ i = List.length pre /\ Forall (well_formed c) pre /\
        first_bad_item c items j e
  | VNonIter i =>
      exists pre post, ss = pre ++ SNonIter :: post /\ i = List.length pre /\ Forall (well_formed c) pre
  | VOrderError i r =>
      exists pre t post, ss = pre ++ sched_of t :: post /\ i = List.length pre /\ Forall (well_formed c) pre /\
        Forall (in_range c) t /\ ~ order_ok t /\ validate_order t = Some r
  end.
Proof. exact (validate_from_spec c ss 0). Qed.

(* stepping over a well-formed prefix *)
Lemma validate_from_skip c pre : forall i rest, Forall (well_formed c) pre ->
  validate_from c i (pre ++ rest) = validate_from c (i + List.length pre) rest.
Proof.
  induction pre as [|s pre IH]; intros i rest Hwf.
  - cbn. now rewrite Nat.add_0_r.
  - inversion Hwf as [|? ? Hs Hpre]; subst. destruct s as [items|]; [|now apply noniter_not_wf in Hs].
    apply seq_wf_iff in Hs. destruct Hs as (t & Hi & Ho). cbn. rewrite Hi, Ho.
    rewrite (IH (S i) rest Hpre). f_equal. lia.
Qed.

(* QuaraScheduleItemError raised for an item  <->  the first schedule that is not well formed is a sequence that
   contains a value which is not a well-typed in-range (kind, index) pair *)
Theorem item_error_iff c ss :
  (exists i j e, validate_schedules c ss = VItemError i j e) <->
  (exists pre s post, ss = pre ++ s :: post /\ Forall (well_formed c) pre /\ has_bad_item c s).
Proof.
  split.
  - intros (i & j & e & H). pose proof (validate_schedules_spec c ss) as S. rewrite H in S.
    destruct S as (pre & items & post & -> & _ & Hpre & (p & bad & q & -> & _ & _ & Hbad & _)).
    exists pre, (SSeq (map raw p ++ bad :: q)), post. repeat split; auto.
    exists (map raw p ++ bad :: q), bad. repeat split; auto. apply in_or_app; right; now left.
  - intros (pre & s & post & -> & Hpre & (items & v & -> & Hin & Hbad)). unfold validate_schedules.
    rewrite (validate_from_skip c pre 0 _ Hpre). cbn [validate_from].
    destruct (validate_items c 0 items) as [t|[j e]] eqn:Hi.
    + exfalso. apply validate_items_inl_iff in Hi. destruct Hi as [-> Hr]. apply Hbad.
      apply in_map_iff in Hin. destruct Hin as (it & <- & Hit). exists it. split; [reflexivity|].
      rewrite Forall_forall in Hr. now apply Hr.
    + now exists (0 + List.length pre)%nat, j, e.
Qed.
(* QuaraScheduleItemError raised for a whole schedule  <->  the first schedule that is not well formed is a
   non-iterable value (in ANY position, the first included) *)
Theorem noniter_error_iff c ss :
  (exists i, validate_schedules c ss = VNonIter i) <->
  (exists pre post, ss = pre ++ SNonIter :: post /\ Forall (well_formed c) pre).
Proof.
  split.
  - intros (i & H). pose proof (validate_schedules_spec c ss) as S. rewrite H in S.
    destruct S as (pre & post & -> & _ & Hpre). now exists pre, post.
  - intros (pre & post & -> & Hpre). unfold validate_schedules.
    rewrite (validate_from_skip c pre 0 _ Hpre). cbn [validate_from]. now exists (0 + List.length pre)%nat.
Qed.

(* QuaraScheduleOrderError  <->  the first schedule that is not well formed consists of well-typed in-range items
   only, but breaks an order rule *)
Theorem order_error_iff c ss :
  (exists i r, validate_schedules c ss = VOrderError i r) <->
  (exists pre t post, ss = pre ++ sched_of t :: post /\ Forall (well_formed c) pre /\
                      Forall (in_range c) t /\ ~ order_ok t).
Proof.
  split.
  - intros (i & r & H). pose proof (validate_schedules_spec c ss) as S. rewrite H in S.
    destruct S as (pre & t & post & -> & _ & Hpre & Hr & Ho & _). now exists pre, t, post.
  - intros (pre & t & post & -> & Hpre & Hr & Ho). unfold validate_schedules.
    rewrite (validate_from_skip c pre 0 _ Hpre).
    unfold sched_of. cbn [validate_from].
    assert (Hi : validate_items c 0 (map raw t) = inl t) by (apply validate_items_inl_iff; auto). rewrite Hi.
    destruct (validate_order t) as [r|] eqn:E; [now exists (0 + List.length pre)%nat, r|].
    exfalso. apply Ho. now apply validate_order_none_iff.
Qed.

(* THE PROPERTY: a schedule list is accepted exactly when every schedule is well formed; ANYTHING else — whatever the
   schedules and items are — is rejected with the schedule-item or the schedule-order error *)
Theorem accepted_or_item_or_order_error c ss :
  (Forall (well_formed c) ss /\ validate_schedules c ss = VOk) \/
  (~ Forall (well_formed c) ss /\ (is_item_error (validate_schedules c ss) \/ is_order_error (validate_schedules c ss))).
Proof.
  destruct (validate_schedules c ss) eqn:E.
  - left. split; [now apply experiment_accepts_iff|reflexivity].
  - right. split; [intros H; apply experiment_accepts_iff in H; congruence|left; exact I].
  - right. split; [intros H; apply experiment_accepts_iff in H; congruence|left; exact I].
  - right. split; [intros H; apply experiment_accepts_iff in H; congruence|right; exact I].
Qed.

(* ================================================================== None placeholders do not matter for validation *)
Definition same_sizes (c c' : cfg) : Prop := forall k, List.length (objs c k) = List.length (objs c' k).
Lemma is_nil_length {A} (l : list A) : is_nil l = (List.length l =? 0)%nat.
Proof. now destruct l. Qed.
Lemma validate_item_sizes c c' v : same_sizes c c' -> validate_item c v = validate_item c' v.
Proof.
  intros H. destruct v as [| | | |vs|]; try reflexivity.
  destruct vs as [|name [|idx [|x vs]]]; try reflexivity.
  destruct name as [|s| | | |]; try reflexivity. destruct idx as [| |z| | |]; try reflexivity.
  cbn. destruct (kind_of_name s) as [k|]; [|reflexivity].
  rewrite !is_nil_length. pose proof (H KPovm) as Hp. pose proof (H KMprocess) as Hm. cbn in Hp, Hm. rewrite Hp, Hm.
  unfold size. now rewrite (H k).
Qed.
Lemma validate_items_sizes c c' items : same_sizes c c' -> forall j, validate_items c j items = validate_items c' j items.
Proof.
  intros H. induction items as [|v items IH]; intros j; cbn; [reflexivity|].
  rewrite (validate_item_sizes c c' v H). destruct (validate_item c' v); [|reflexivity]. now rewrite IH.
Qed.
Theorem validation_ignores_placeholders c c' ss : same_sizes c c' -> validate_schedules c ss = validate_schedules c' ss.
Proof.
  intros H. unfold validate_schedules. generalize 0%nat.
  induction ss as [|s ss IH]; intros i; cbn; [reflexivity|].
  destruct s as [items|]; [|reflexivity]. rewrite (validate_items_sizes c c' items H).
  destruct (validate_items c' 0 items) as [t|[j e]]; [|reflexivity].
  destruct (validate_order t); [reflexivity|]. apply IH.
Qed.

(* ================================================================== constructor and setters *)
Definition valid_exp (e : exp) : Prop := Forall (well_formed (e_cfg e)) (e_scheds e).
(* what the assignment would make of the experiment *)
Definition target (e : exp) (op : setop) : exp :=
  match op with
  | SetObjs k v => mkexp (with_objs (e_cfg e) k v) (e_scheds e)
  | SetSchedules ss => mkexp (e_cfg e) ss
  end.
Theorem construct_spec c ss :
  (Forall (well_formed c) ss -> construct c ss = inl (mkexp c ss)) /\
  (~ Forall (well_formed c) ss -> exists r, construct c ss = inr r /\ r <> VOk /\ r = validate_schedules c ss).
Proof.
  unfold construct. split; intros H.
  - apply experiment_accepts_iff in H. now rewrite H.
  - destruct (validate_schedules c ss) eqn:E; [exfalso; apply H; now apply experiment_accepts_iff| | |];
      eexists; repeat split; discriminate.
Qed.
(* a setter is a re-validation of the would-be experiment; it takes effect exactly when that is well formed,
   otherwise nothing changes and the validator's error is raised *)
Theorem apply_set_spec e op :
  snd (apply_set e op) = validate_schedules (e_cfg (target e op)) (e_scheds (target e op)) /\
  (valid_exp (target e op) -> apply_set e op = (target e op, VOk)) /\
  (~ valid_exp (target e op) -> fst (apply_set e op) = e /\ snd (apply_set e op) <> VOk).
Proof.
  unfold valid_exp. destruct op as [k v|ss]; cbn [apply_set target e_cfg e_scheds].
  - destruct (validate_schedules (with_objs (e_cfg e) k v) (e_scheds e)) eqn:E; cbn [fst snd]; (split; [reflexivity|]);
      try (split; [intros H; apply experiment_accepts_iff in H; congruence | intros _; split; [reflexivity|discriminate]]).
    split; [reflexivity|]. intros H; exfalso; apply H. now apply experiment_accepts_iff.
  - destruct (validate_schedules (e_cfg e) ss) eqn:E; cbn [fst snd]; (split; [reflexivity|]);
      try (split; [intros H; apply experiment_accepts_iff in H; congruence | intros _; split; [reflexivity|discriminate]]).
    split; [reflexivity|]. intros H; exfalso; apply H. now apply experiment_accepts_iff.
Qed.
Lemma apply_set_valid e op : valid_exp e -> valid_exp (fst (apply_set e op)).
Proof.
  intros He. destruct (apply_set_spec e op) as (_ & H1 & H2).
  assert (D : validate_schedules (e_cfg (target e op)) (e_scheds (target e op)) = VOk \/
              validate_schedules (e_cfg (target e op)) (e_scheds (target e op)) <> VOk)
    by (destruct (validate_schedules (e_cfg (target e op)) (e_scheds (target e op))); [now left|right; discriminate..]).
  destruct D as [D|D].
  - apply experiment_accepts_iff in D. rewrite (H1 D). exact D.
  - assert (Hn : ~ valid_exp (target e op)) by (intros Hv; apply D; now apply experiment_accepts_iff).
    destruct (H2 Hn) as [-> _]. exact He.
Qed.
(* invariant over every history of assignments, accepted or rejected *)
Theorem run_sets_valid ops : forall e, valid_exp e -> valid_exp (run_sets e ops).
Proof.
  induction ops as [|op ops IH]; intros e He; [exact He|]. unfold run_sets; cbn [fold_left].
  apply IH. now apply apply_set_valid.
Qed.
(* replacing an object list can only fail with the schedule-ITEM error *)
Theorem objs_setter_error_is_item_error e k v : valid_exp e ->
  snd (apply_set e (SetObjs k v)) = VOk \/ exists i j err, snd (apply_set e (SetObjs k v)) = VItemError i j err.
Proof.
  intros He. destruct (apply_set_spec e (SetObjs k v)) as (-> & _ & _). cbn [target e_cfg e_scheds].
  pose proof (validate_schedules_spec (with_objs (e_cfg e) k v) (e_scheds e)) as S.
  destruct (validate_schedules (with_objs (e_cfg e) k v) (e_scheds e)) as [|i j err|i|i r]; [now left|right; now exists i, j, err| |]; exfalso.
  - destruct S as (pre & post & Hss & _). unfold valid_exp in He. rewrite Hss in He.
    apply Forall_app in He. destruct He as [_ He]. inversion He as [|? ? Hwf _]; subst.
    now apply noniter_not_wf in Hwf.
  - destruct S as (pre & t & post & Hss & _ & _ & _ & Ho & _). unfold valid_exp in He. rewrite Hss in He.
    apply Forall_app in He. destruct He as [_ He]. inversion He as [|? ? Hwf _]; subst.
    destruct Hwf as (t' & Heq & _ & Ho'). unfold sched_of in Heq. injection Heq as Heq. apply map_raw_inj in Heq. subst. contradiction.
Qed.

(* ================================================================== calc_prob_dist: index check and None placeholders *)
Definition present (c : cfg) (it : titem) : Prop := nth (Z.to_nat (snd it)) (objs c (fst it)) false = true.
Lemma first_none_spec c t : forall p,
  match first_none c p t with
  | None => Forall (present c) t
  | Some q => exists pre it post, t = pre ++ it :: post /\ q = (p + List.length pre)%nat /\ Forall (present c) pre /\ ~ present c it
  end.
Proof.
  induction t as [|[k z] t IH]; intros p; cbn; [constructor|].
  destruct (nth (Z.to_nat z) (objs c k) false) eqn:E.
  - specialize (IH (S p)). destruct (first_none c (S p) t) as [q|].
    + destruct IH as (pre & it & post & -> & -> & Hpre & Hit). exists ((k, z) :: pre), it, post. cbn.
      repeat split; auto; try lia.
    + now constructor.
  - exists [], (k, z), t. cbn. repeat split; auto; try lia. unfold present; cbn. congruence.
Qed.
(* on a validated experiment, for a valid schedule index: ValueError exactly when the schedule references a None
   placeholder (position of the first one), otherwise the referenced objects are composed *)
Theorem calc_prob_dist_spec e n s : valid_exp e -> nth_error (e_scheds e) n = Some s ->
  exists t, s = sched_of t /\ Forall (in_range (e_cfg e)) t /\ order_ok t /\
    calc_prob_dist_pre e (PInt (Z.of_nat n)) =
      match first_none (e_cfg e) 0 t with Some p => CValueError p | None => CRun t end.
Proof.
  intros He Hn. unfold valid_exp in He. rewrite Forall_forall in He.
  pose proof (He s (nth_error_In _ _ Hn)) as (t & -> & Hr & Ho). exists t. split; [reflexivity|]. split; [assumption|]. split; [assumption|].
  unfold calc_prob_dist_pre. cbv beta iota.
  assert (Hlt : (n < List.length (e_scheds e))%nat) by (apply nth_error_Some; congruence).
  replace ((0 <=? Z.of_nat n) && (Z.of_nat n <? Z.of_nat (List.length (e_scheds e))))%Z with true
    by (symmetry; apply andb_true_iff; split; [apply Z.leb_le|apply Z.ltb_lt]; lia).
  cbv iota. rewrite Nat2Z.id. rewrite (nth_error_nth _ _ _ Hn). fold (sched_of t).
  assert (Hi : validate_items (e_cfg e) 0 (map raw t) = inl t) by (apply validate_items_inl_iff; auto).
  unfold sched_of. now rewrite Hi.
Qed.
Theorem calc_prob_dist_bad_index e v :
  match v with
  | PInt z => ~ (0 <= z < Z.of_nat (List.length (e_scheds e)))%Z -> calc_prob_dist_pre e v = CIndexError
  | _ => calc_prob_dist_pre e v = CTypeError
  end.
Proof.
  destruct v; try reflexivity. intros H. unfold calc_prob_dist_pre.
  destruct ((0 <=? z) && (z <? Z.of_nat (List.length (e_scheds e))))%Z eqn:E; [|reflexivity].
  exfalso. apply H. apply andb_true_iff in E. destruct E as [E1 E2]. apply Z.leb_le in E1. apply Z.ltb_lt in E2. lia.
Qed.
