(* C15 — depolarising noise preserves positivity for 0 <= p <= 1 (convex combination of PSD quadratic forms).
   Complex Hermitian matrices are handled through the real symmetric embedding of Model/HermEmbed.v.
   Axiom-free, generic in the ordered field. *)
From Coq Require Import Field Ring Setoid List Arith Bool Lia.
From QV.Core Require Import OF Sums Mat Cplx Psd.
From QV.Model Require Import QObj HermEmbed C15_Depol.
From QV.Proofs Require Import C15_Depol.
Import ListNotations.

Section DepolPsd.
Context (F : OF).
Add Field Ffp : (k_field F).
Notation "0" := (c0 F). Notation "1" := (c1 F).
Infix "+" := (cadd F). Infix "*" := (cmul F). Infix "<=" := (kle F). Infix "-" := (csub F).
Infix "/" := (kdiv F). Notation "- x" := (copp F x).
Notation Cx := (CF F).
Notation PSD := (PSD F). Notation qf := (qf F).

(* ------------------------------------------------------------------ PSD forms: closure properties *)
Lemma sumn_nonneg n (f : nat -> F) : (forall i, (i < n)%nat -> 0 <= f i) -> 0 <= sumn n f.
Proof. induction n as [|n IH]; intros H; cbn; [apply k_refl|]. apply add_nonneg; [apply IH; intros; apply H; lia|apply H; lia]. Qed.

Lemma qf_ext n M M' x : meq n n M M' -> qf n M x = qf n M' x.
Proof. intros H. unfold Psd.qf. apply sumn_ext; intros i Hi. apply sumn_ext; intros j Hj. now rewrite H. Qed.
Lemma PSD_ext n M M' : meq n n M M' -> PSD n M -> PSD n M'.
Proof. intros H HP x. rewrite <- (qf_ext n M M' x H). apply HP. Qed.

Lemma qf_comb n a b (M N : @mat F) x :
  qf n (fun i j => a * M i j + b * N i j) x = a * qf n M x + b * qf n N x.
Proof. unfold Psd.qf. rewrite <- !sumn_scale_l, <- sumn_add. apply sumn_ext; intros i _.
  rewrite <- !sumn_scale_l, <- sumn_add. apply sumn_ext; intros j _. ring. Qed.

Theorem PSD_comb n a b M N : 0 <= a -> 0 <= b -> PSD n M -> PSD n N -> PSD n (fun i j => a * M i j + b * N i j).
Proof. intros Ha Hb HM HN x. rewrite qf_comb. apply add_nonneg; apply k_mul; auto. Qed.

Definition idm : @mat F := fun i j => if Nat.eqb i j then 1 else 0.
Lemma qf_idm n x : qf n idm x = sumn n (fun i => x i * x i).
Proof. unfold Psd.qf, idm. apply sumn_ext; intros i Hi.
  rewrite (sumn_ext n _ (fun j => if Nat.eqb i j then x i * x j else 0)).
  2:{ intros j _. destruct (Nat.eqb i j); ring. }
  apply (sumn_delta' n i (fun j => x i * x j) Hi). Qed.
Lemma PSD_idm n : PSD n idm.
Proof. intros x. rewrite qf_idm. apply sumn_nonneg. intros; apply sqr_nonneg. Qed.

Lemma PSD_diag n M i : PSD n M -> (i < n)%nat -> 0 <= M i i.
Proof. intros H Hi. rewrite <- (qf_delta F n M i Hi). apply H. Qed.

Lemma le_one_sub p : p <= 1 -> 0 <= 1 - p.
Proof. intros H. now apply le_sub in H. Qed.

(* ------------------------------------------------------------------ the embedding is real-linear *)
Lemma embed_ext n (X Y : cmat F) : (forall i j, (i < n)%nat -> (j < n)%nat -> X i j = Y i j) ->
  meq (n + n) (n + n) (embed F n X) (embed F n Y).
Proof. intros H i j Hi Hj. unfold embed.
  destruct (Nat.ltb_spec i n), (Nat.ltb_spec j n); rewrite H by lia; reflexivity. Qed.

Lemma embed_comb n a b (Y Z : cmat F) i j :
  embed F n (fun i j => cadd Cx (cmul Cx (zof a) (Y i j)) (cmul Cx (zof b) (Z i j))) i j
  = a * embed F n Y i j + b * embed F n Z i j.
Proof. unfold embed. destruct (i <? n)%nat, (j <? n)%nat; cbn; ring. Qed.

(* Z = t * identity (complex d x d)  embeds to  t * identity (real 2d x 2d), inside the index range *)
Lemma embed_cid n i j : (i < n + n)%nat -> (j < n + n)%nat ->
  embed F n (fun i j => if Nat.eqb i j then c1 Cx else c0 Cx) i j = idm i j.
Proof. intros Hi Hj. unfold embed, idm.
  destruct (Nat.ltb_spec i n), (Nat.ltb_spec j n).
  - destruct (Nat.eqb i j); reflexivity.
  - destruct (Nat.eqb_spec i (j - n)), (Nat.eqb_spec i j); try lia; cbn; ring.
  - destruct (Nat.eqb_spec (i - n) j), (Nat.eqb_spec i j); try lia; cbn; ring.
  - destruct (Nat.eqb_spec (i - n) (j - n)), (Nat.eqb_spec i j); try lia; reflexivity. Qed.

(* ------------------------------------------------------------------ D_p on a Hermitian PSD operator *)
Lemma self_neg_zero (x : F) : x = - x -> x = 0.
Proof. intros E. destruct (keqb F x 0) eqn:K; [now apply keqb_spec|].
  assert (Hx : x <> 0). { intros ->. unfold keqb in K. rewrite (proj2 (k_leb F 0 0) (k_refl F 0)) in K. discriminate. }
  exfalso. apply (double_neq0 F x Hx). rewrite E at 1. ring. Qed.

Lemma hermitian_diag_real d (X : cmat F) i : hermitian d X -> (i < d)%nat -> im (X i i) = 0.
Proof. intros H Hi. apply self_neg_zero. pose proof (H i i Hi Hi) as E. apply (f_equal im) in E. exact E. Qed.

Lemma D_op_as_comb d dF p (X : cmat F) i j : (i < d)%nat -> (j < d)%nat -> hermitian d X ->
  D_op F d dF p X i j =
  cadd Cx (cmul Cx (zof (1 - p)) (X i j))
          (cmul Cx (zof (p / dF * re (ctrace F d X))) (if Nat.eqb i j then c1 Cx else c0 Cx)).
Proof. intros Hi Hj HX. unfold D_op. f_equal.
  assert (Him : im (ctrace F d X) = 0).
  { unfold ctrace. rewrite im_sumn. apply sumn_zero'. intros k Hk. now apply (hermitian_diag_real d X k). }
  destruct (Nat.eqb i j); apply cplx_eq; cbn; try rewrite Him; ring. Qed.

Theorem D_op_psd d dF p (X : cmat F) : (0 < d)%nat -> dF = ones F d -> hermitian d X ->
  0 <= p -> p <= 1 -> PSD (d + d) (embed F d X) -> PSD (d + d) (embed F d (D_op F d dF p X)).
Proof. intros Hd HdF HX Hp0 Hp1 HP.
  set (t := p / dF * re (ctrace F d X)).
  apply (PSD_ext (d + d) (fun i j => (1 - p) * embed F d X i j + t * idm i j)).
  - intros i j Hi Hj.
    rewrite (embed_ext d (D_op F d dF p X)
              (fun i j => cadd Cx (cmul Cx (zof (1 - p)) (X i j)) (cmul Cx (zof t) (if Nat.eqb i j then c1 Cx else c0 Cx))) ) by
      (try assumption; intros; now apply D_op_as_comb).
    rewrite (embed_comb d (1 - p) t X (fun i j => if Nat.eqb i j then c1 Cx else c0 Cx)).
    rewrite embed_cid by assumption. reflexivity.
  - apply PSD_comb; [now apply le_one_sub| |exact HP|apply PSD_idm].
    unfold t. assert (Hf : dF <> 0) by (rewrite HdF; now apply ones_neq0).
    replace (p / dF * re (ctrace F d X)) with (p * ((1 / dF) * re (ctrace F d X))) by (field; exact Hf).
    apply k_mul; [exact Hp0|]. apply k_mul.
    + apply inv_nonneg; [exact Hf|]. rewrite HdF. apply ones_ge.
    + unfold ctrace. rewrite re_sumn. apply sumn_nonneg. intros i Hi.
      replace (re (X i i)) with (embed F d X i i).
      * apply (PSD_diag (d + d)); [exact HP|lia].
      * unfold embed. destruct (Nat.ltb_spec i d); [reflexivity|lia]. Qed.

(* real coefficient vector + Hermitian basis -> Hermitian operator *)
Lemma op_of_vec_hermitian d B (v : nat -> F) : basis_hermitian d B -> hermitian d (op_of_vec d B v).
Proof. intros HB i j Hi Hj. unfold op_of_vec. rewrite (zconj_sumn F). apply sumn_ext; intros a Ha.
  cbn [cmul CF]. rewrite (zconj_mul F), (zconj_zof F). f_equal. now apply (HB a Ha). Qed.

(* ---- states and POVM elements *)
Section Basis.
Variables (d : nat) (sd dF : F) (B : nat -> cmat F).
Hypothesis Hd : (0 < d)%nat.
Hypothesis HdF : dF = ones F d.
Hypothesis Hsd : sd * sd = dF.
Hypothesis HB0 : basis_0th_identity d sd B.
Hypothesis HBt : basis_rest_traceless F d B.
Hypothesis HBh : basis_hermitian d B.

Theorem depol_state_psd p v : 0 <= p -> p <= 1 ->
  PSD (d + d) (embed F d (op_of_vec d B v)) -> PSD (d + d) (embed F d (op_of_vec d B (depol_state F (d * d) p v))).
Proof. intros Hp0 Hp1 HP.
  apply (PSD_ext (d + d) (embed F d (D_op F d dF p (op_of_vec d B v)))).
  - apply embed_ext. intros i j Hi Hj. symmetry. now apply (depol_state_operator F d sd dF B Hd HdF Hsd HB0 HBt).
  - apply D_op_psd; try assumption. now apply op_of_vec_hermitian. Qed.

Theorem depol_povm_elem_psd p v : 0 <= p -> p <= 1 ->
  PSD (d + d) (embed F d (op_of_vec d B v)) -> PSD (d + d) (embed F d (op_of_vec d B (depol_povm_elem F (d * d) p v))).
Proof. intros Hp0 Hp1 HP.
  apply (PSD_ext (d + d) (embed F d (D_op F d dF p (op_of_vec d B v)))).
  - apply embed_ext. intros i j Hi Hj. symmetry. now apply (depol_povm_elem_operator F d sd dF B Hd HdF Hsd HB0 HBt).
  - apply D_op_psd; try assumption. now apply op_of_vec_hermitian. Qed.

(* ---- gates and instrument outcomes: Choi matrix *)
Add Ring Cr : (c_ring Cx).
Definition row0 (HS : rmat F) : rmat F := fun a b => if Nat.eqb a 0 then HS 0%nat b else 0.

Lemma zof_comb a x b y : (zof (a * x + b * y) : Cx) = cadd Cx (cmul Cx (zof a) (zof x)) (cmul Cx (zof b) (zof y)).
Proof. apply cplx_eq; cbn; ring. Qed.

(* the Choi matrix is linear in the HS matrix: Choi(depolarised) = (1-p) Choi + p Choi(trace-functional part) *)
Theorem choi_depol_gate p HS i j :
  choi_of_hs d B (depol_gate F (d * d) p HS) i j =
  cadd Cx (cmul Cx (zof (1 - p)) (choi_of_hs d B HS i j)) (cmul Cx (zof p) (choi_of_hs d B (row0 HS) i j)).
Proof. unfold choi_of_hs.
  rewrite <- !(@sumn_scale_l Cx), <- (@sumn_add Cx). apply sumn_ext; intros a Ha.
  rewrite <- !(@sumn_scale_l Cx), <- (@sumn_add Cx). apply sumn_ext; intros b Hb.
  rewrite depol_gate_is_mixture by exact Ha. unfold mix_hs, row0. rewrite zof_comb. ring. Qed.

Lemma div_mod_eqb i j : (Nat.eqb (i / d) (j / d) && Nat.eqb (i mod d) (j mod d))%bool = Nat.eqb i j.
Proof. destruct (Nat.eqb_spec i j) as [->|Hne]. { now rewrite !Nat.eqb_refl. }
  apply andb_false_iff. destruct (Nat.eqb_spec (i / d) (j / d)) as [E1|]; [|now left]. right.
  apply Nat.eqb_neq. intros E2. apply Hne. rewrite (Nat.div_mod_eq i d), (Nat.div_mod_eq j d). congruence. Qed.

(* for a trace-preserving map the trace-functional part is the completely depolarising channel: Choi = I / d *)
Theorem choi_row0_tp HS i j : hs_tp F (d * d) HS -> (i < d * d)%nat -> (j < d * d)%nat ->
  choi_of_hs d B (row0 HS) i j = cmul Cx (zof (1 / dF)) (if Nat.eqb i j then c1 Cx else c0 Cx).
Proof. intros Htp Hi Hj. pose proof (sd_neq0 F d sd dF Hd HdF Hsd) as Hs. pose proof (dd_pos d Hd) as Hdd.
  unfold choi_of_hs.
  rewrite (sumn_ext (d * d) _ (fun a => if Nat.eqb a 0 then bbc d B 0%nat 0%nat i j else c0 Cx)).
  2:{ intros a Ha. unfold row0. destruct (Nat.eqb_spec a 0) as [->|Hne].
      - rewrite (sumn_ext (d * d) _ (fun b => if Nat.eqb b 0 then bbc d B 0%nat b i j else c0 Cx)).
        2:{ intros b Hb. rewrite (Htp b Hb). destruct (Nat.eqb b 0); apply cplx_eq; cbn; ring. }
        apply (sumn_delta (d * d) 0%nat (fun b => bbc d B 0%nat b i j) Hdd).
      - apply sumn_zero'. intros b _. apply cplx_eq; cbn; ring. }
  rewrite (sumn_delta (d * d) 0%nat (fun _ => bbc d B 0%nat 0%nat i j) Hdd).
  unfold bbc, kron, cconj.
  assert (Hi1 : (i / d < d)%nat) by (apply Nat.div_lt_upper_bound; lia).
  assert (Hj1 : (j / d < d)%nat) by (apply Nat.div_lt_upper_bound; lia).
  assert (Hi2 : (i mod d < d)%nat) by (apply Nat.mod_upper_bound; lia).
  assert (Hj2 : (j mod d < d)%nat) by (apply Nat.mod_upper_bound; lia).
  pose proof (B0_re F d sd dF B Hd HdF Hsd HB0 _ _ Hi1 Hj1) as R1. pose proof (B0_im F d sd dF B Hd HdF Hsd HB0 _ _ Hi1 Hj1) as I1.
  pose proof (B0_re F d sd dF B Hd HdF Hsd HB0 _ _ Hi2 Hj2) as R2. pose proof (B0_im F d sd dF B Hd HdF Hsd HB0 _ _ Hi2 Hj2) as I2.
  rewrite <- (div_mod_eqb i j).
  apply cplx_eq; cbn [re im cmul CF zmul zconj fst snd]; rewrite R1, R2, I1, I2;
    destruct (Nat.eqb (i / d) (j / d)), (Nat.eqb (i mod d) (j mod d)); cbn; rewrite <- Hsd; field; exact Hs. Qed.

(* CP is preserved: trace-preserving gate *)
Theorem depol_gate_cp p HS : hs_tp F (d * d) HS -> 0 <= p -> p <= 1 ->
  PSD (d * d + d * d) (embed F (d * d) (choi_of_hs d B HS)) ->
  PSD (d * d + d * d) (embed F (d * d) (choi_of_hs d B (depol_gate F (d * d) p HS))).
Proof. intros Htp Hp0 Hp1 HP. set (n := (d * d)%nat) in *.
  assert (Hf : dF <> 0) by (rewrite HdF; now apply ones_neq0).
  apply (PSD_ext (n + n) (fun i j => (1 - p) * embed F n (choi_of_hs d B HS) i j + (p * (1 / dF)) * idm i j)).
  - intros i j Hi Hj.
    rewrite (embed_ext n (choi_of_hs d B (depol_gate F n p HS))
       (fun i j => cadd Cx (cmul Cx (zof (1 - p)) (choi_of_hs d B HS i j))
                           (cmul Cx (zof (p * (1 / dF))) (if Nat.eqb i j then c1 Cx else c0 Cx)))) by
      (try assumption; intros i' j' Hi' Hj'; unfold n; rewrite choi_depol_gate, (choi_row0_tp HS i' j' Htp Hi' Hj');
       destruct (Nat.eqb i' j'); apply cplx_eq; cbn; ring).
    rewrite (embed_comb n (1 - p) (p * (1 / dF)) (choi_of_hs d B HS) (fun i j => if Nat.eqb i j then c1 Cx else c0 Cx)).
    rewrite embed_cid by assumption. reflexivity.
  - apply PSD_comb; [now apply le_one_sub| |exact HP|apply PSD_idm].
    apply k_mul; [exact Hp0|]. apply inv_nonneg; [exact Hf|]. rewrite HdF. apply ones_ge. Qed.

(* CP is preserved: any outcome of an instrument, GIVEN that its trace-functional part X |-> tr(G_x(X)) I/d is CP
   (mathematically a consequence of CP of G_x; that implication is not derived here) *)
Theorem depol_instrument_cp_partial p HS : 0 <= p -> p <= 1 ->
  PSD (d * d + d * d) (embed F (d * d) (choi_of_hs d B HS)) ->
  PSD (d * d + d * d) (embed F (d * d) (choi_of_hs d B (row0 HS))) ->
  PSD (d * d + d * d) (embed F (d * d) (choi_of_hs d B (depol_gate F (d * d) p HS))).
Proof. intros Hp0 Hp1 HP HR. set (n := (d * d)%nat) in *.
  apply (PSD_ext (n + n) (fun i j => (1 - p) * embed F n (choi_of_hs d B HS) i j + p * embed F n (choi_of_hs d B (row0 HS)) i j)).
  - intros i j Hi Hj. rewrite <- embed_comb. apply (embed_ext n); [|exact Hi|exact Hj].
    intros i' j' _ _. unfold n. now rewrite choi_depol_gate.
  - apply PSD_comb; [now apply le_one_sub|exact Hp0|exact HP|exact HR]. Qed.
End Basis.
End DepolPsd.
