(* C07 — calc_permutation_matrix: the bubble loop on lists of factors.  Denotation by fold of kron (tensm),
   adjacent-swap lemma on lists, loop invariant, termination by inversion count, coded = corrected sizes up to 3 subsystems. *)
From Coq Require Import Arith List Bool ZArith Lia Ring Permutation Sorted.
From QV.Core Require Import OF Sums Mat.
From QV.Model Require Import C07_Tensor.
From QV.Proofs Require Import C07_Kron C07_Perm.
Import ListNotations.

(* ---------------------------------------------------------------- lists, names (no ring involved) *)
Lemma prodn_app l1 l2 : prodn (l1 ++ l2) = (prodn l1 * prodn l2)%nat.
Proof. unfold prodn. induction l1 as [|x l IH]; simpl; [lia|]. rewrite IH. lia. Qed.
Lemma prodn_cons x l : prodn (x :: l) = (x * prodn l)%nat. Proof. reflexivity. Qed.
Lemma prodn_pos l : Forall (fun n => 0 < n)%nat l -> (0 < prodn l)%nat.
Proof. unfold prodn. induction 1 as [|x l Hx _ IH]; simpl; [lia|]. nia. Qed.

Lemma swap_at_app {A : Type} (pre : list A) a b post :
  swap_at (S (length pre)) (pre ++ a :: b :: post) = pre ++ b :: a :: post.
Proof. induction pre as [|x pre IH]; [reflexivity|]. cbn [length app].
  change (swap_at (S (S (length pre))) (x :: pre ++ a :: b :: post)) with (x :: swap_at (S (length pre)) (pre ++ a :: b :: post)).
  now rewrite IH. Qed.
Lemma swap_at_map {A B : Type} (f : A -> B) pos : forall l, swap_at pos (map f l) = map f (swap_at pos l).
Proof. induction pos as [|p IH]; intros l; [now destruct l|].
  destruct p as [|p].
  - destruct l as [|a [|b r]]; reflexivity.
  - destruct l as [|a r]; [reflexivity|]. cbn [map].
    change (swap_at (S (S p)) (f a :: map f r)) with (f a :: swap_at (S p) (map f r)).
    change (swap_at (S (S p)) (a :: r)) with (a :: swap_at (S p) r). cbn [map]. now rewrite IH. Qed.
Lemma swap_at_length {A : Type} pos : forall l : list A, length (swap_at pos l) = length l.
Proof. induction pos as [|p IH]; intros l; [now destruct l|].
  destruct p as [|p].
  - destruct l as [|a [|b r]]; reflexivity.
  - destruct l as [|a r]; [reflexivity|].
    change (swap_at (S (S p)) (a :: r)) with (a :: swap_at (S p) r). cbn [length]. now rewrite IH. Qed.
Lemma split_at {A : Type} k : forall l : list A, (k + 2 <= length l)%nat ->
  exists pre x y post, l = pre ++ x :: y :: post /\ length pre = k.
Proof. induction k as [|k IH]; intros l H.
  - destruct l as [|x [|y r]]; cbn in H; try lia. now exists [], x, y, r.
  - destruct l as [|z r]; cbn in H; [lia|]. destruct (IH r ltac:(lia)) as (pre & x & y & post & -> & E).
    exists (z :: pre), x, y, post. split; [reflexivity|cbn; lia]. Qed.

(* _check_cross_system_position *)
Lemma check_cross_from_some l : forall former pos p, check_cross_from former pos l = Some p ->
  exists pre x y post, former :: l = pre ++ x :: y :: post /\ p = (pos + length pre)%nat /\ (y < x)%Z.
Proof. induction l as [|z r IH]; intros former pos p H; [discriminate|]. cbn in H.
  destruct (Z.ltb_spec z former) as [Hlt|Hge].
  - inversion H; subst. exists [], former, z, r. repeat split; [cbn; lia|exact Hlt].
  - destruct (IH _ _ _ H) as (pre & x & y & post & E & -> & Hxy).
    exists (former :: pre), x, y, post. repeat split; [cbn; now rewrite E|cbn; lia|exact Hxy]. Qed.
Lemma check_cross_some l p : check_cross l = Some p ->
  exists pre x y post, l = pre ++ x :: y :: post /\ p = S (length pre) /\ (y < x)%Z.
Proof. destruct l as [|z r]; [discriminate|]. cbn. intros H.
  destruct (check_cross_from_some _ _ _ _ H) as (pre & x & y & post & E & -> & Hxy). now exists pre, x, y, post. Qed.
Lemma check_cross_from_none l : forall former pos, check_cross_from former pos l = None -> Sorted Z.le (former :: l).
Proof. induction l as [|z r IH]; intros former pos H; [repeat constructor|]. cbn in H.
  destruct (Z.ltb_spec z former) as [Hlt|Hge]; [discriminate|].
  constructor; [now apply (IH z (S pos))|constructor; exact Hge]. Qed.
Lemma check_cross_none l : check_cross l = None -> Sorted Z.le l.
Proof. destruct l as [|z r]; [constructor|]. cbn. apply check_cross_from_none. Qed.

(* inversion count: the termination measure *)
Fixpoint count_lt (x : Z) (l : list Z) : nat :=
  match l with [] => 0%nat | y :: r => ((if (y <? x)%Z then 1 else 0) + count_lt x r)%nat end.
Fixpoint inversions (l : list Z) : nat :=
  match l with [] => 0%nat | x :: r => (count_lt x r + inversions r)%nat end.
Lemma count_lt_app x l1 l2 : count_lt x (l1 ++ l2) = (count_lt x l1 + count_lt x l2)%nat.
Proof. induction l1 as [|y l IH]; cbn; [reflexivity|]. rewrite IH. lia. Qed.
Lemma inversions_swap pre a b post : (b < a)%Z ->
  inversions (pre ++ a :: b :: post) = S (inversions (pre ++ b :: a :: post)).
Proof. intros Hba. induction pre as [|x pre IH].
  - cbn. destruct (Z.ltb_spec b a); [|lia]. destruct (Z.ltb_spec a b); lia.
  - cbn [app inversions]. rewrite IH. rewrite !count_lt_app. cbn [count_lt]. lia. Qed.
Lemma count_lt_le x l : (count_lt x l <= length l)%nat.
Proof. induction l as [|y l IH]; cbn; [lia|]. destruct (y <? x)%Z; lia. Qed.
Lemma inversions_le l : (inversions l <= length l * length l)%nat.
Proof. induction l as [|x l IH]; cbn [inversions length]; [lia|]. pose proof (count_lt_le x l). nia. Qed.

Lemma agg_single m x : agg m [x] = x. Proof. destruct m; cbn; lia. Qed.
(* sizes at a swap position *)
Section Sizes.
Variables (pre : list nat) (a b : nat) (post : list nat).
Let sizes := pre ++ a :: b :: post.
Let pos := S (length pre).
Lemma nth_pos : nth pos sizes 0%nat = b.
Proof. unfold sizes, pos. rewrite app_nth2 by lia. replace (S (length pre) - length pre)%nat with 1%nat by lia. reflexivity. Qed.
Lemma nth_prev : nth (pos - 1) sizes 0%nat = a.
Proof. unfold sizes, pos. rewrite app_nth2 by lia. replace (S (length pre) - 1 - length pre)%nat with 0%nat by lia. reflexivity. Qed.
Lemma skipn_tail : skipn (pos + 1) sizes = post.
Proof. unfold sizes, pos. replace (S (length pre) + 1)%nat with (length pre + 2)%nat by lia.
  rewrite skipn_app. rewrite skipn_all2 by lia. replace (length pre + 2 - length pre)%nat with 2%nat by lia. reflexivity. Qed.
Lemma firstn_head : firstn (pos - 1) sizes = pre.
Proof. unfold sizes, pos. replace (S (length pre) - 1)%nat with (length pre + 0)%nat by lia.
  rewrite firstn_app_2. cbn. now rewrite app_nil_r. Qed.
Lemma tail_size_fixed : tail_size Fixed pos sizes = prodn post.
Proof. unfold tail_size. rewrite skipn_tail. destruct (Nat.ltb_spec pos (length sizes - 1)) as [H|H]; [reflexivity|].
  unfold sizes, pos in H. rewrite app_length in H. cbn in H. destruct post; [reflexivity|cbn in H; lia]. Qed.
Lemma head_size_fixed : head_size Fixed pos sizes = prodn pre.
Proof. unfold head_size. rewrite firstn_head. destruct (Nat.ltb_spec pos 2) as [H|H]; [|reflexivity].
  unfold pos in H. destruct pre; [reflexivity|cbn in H; lia]. Qed.
Lemma left_perm_dim_fixed : left_perm_dim Fixed pos sizes = prodn sizes.
Proof. unfold left_perm_dim. rewrite head_size_fixed, tail_size_fixed, nth_pos, nth_prev.
  unfold sizes. rewrite prodn_app, !prodn_cons. lia. Qed.
(* up to three subsystems the coded sums range over at most one element *)
Lemma tail_size_coded3 : (length sizes <= 3)%nat -> tail_size Coded pos sizes = tail_size Fixed pos sizes.
Proof. intros H. unfold tail_size. rewrite skipn_tail. destruct (Nat.ltb_spec pos (length sizes - 1)) as [H1|H1]; [|reflexivity].
  unfold sizes, pos in *. rewrite app_length in *. cbn [length] in *.
  destruct post as [|x [|y r]]; cbn [length] in *; try lia. now rewrite !agg_single. Qed.
Lemma head_size_coded3 : (length sizes <= 3)%nat -> head_size Coded pos sizes = head_size Fixed pos sizes.
Proof. intros H. unfold head_size. rewrite firstn_head. destruct (Nat.ltb_spec pos 2) as [H1|H1]; [reflexivity|].
  unfold sizes, pos in *. rewrite app_length in *. cbn [length] in *.
  destruct pre as [|x [|y r]]; cbn [length] in *; try lia. now rewrite !agg_single. Qed.
End Sizes.

Lemma left_perm_dim_mode m pre a b post : (m = Fixed \/ length (pre ++ a :: b :: post) <= 3)%nat ->
  left_perm_dim m (S (length pre)) (pre ++ a :: b :: post) = prodn (pre ++ a :: b :: post).
Proof. intros [->|H]; [apply left_perm_dim_fixed|]. destruct m; [|apply left_perm_dim_fixed].
  rewrite <- left_perm_dim_fixed. unfold left_perm_dim. now rewrite head_size_coded3, tail_size_coded3. Qed.
Lemma tail_size_mode m pre a b post : (m = Fixed \/ length (pre ++ a :: b :: post) <= 3)%nat ->
  tail_size m (S (length pre)) (pre ++ a :: b :: post) = prodn post.
Proof. intros [->|H]; [apply tail_size_fixed|]. destruct m; [|apply tail_size_fixed].
  rewrite tail_size_coded3 by exact H. apply tail_size_fixed. Qed.

(* ---------------------------------------------------------------- factors *)
Section Loop.
Context {R : CR}.
Add Ring Rl : (c_ring R).
Notation "0" := (c0 R). Notation "1" := (c1 R).
Infix "+" := (cadd R). Infix "*" := (cmul R).
Local Notation mat := (@Mat.mat R). Local Notation vec := (@Mat.vec R).
Local Notation rfac := (@rfac R).

Definition fpos (f : rfac) : Prop := (0 < frows f)%nat /\ (0 < fcols f)%nat.
Lemma rsize_app (l1 l2 : list rfac) : rsize (l1 ++ l2) = (rsize l1 * rsize l2)%nat.
Proof. unfold rsize. now rewrite map_app, prodn_app. Qed.
Lemma csize_app (l1 l2 : list rfac) : csize (l1 ++ l2) = (csize l1 * csize l2)%nat.
Proof. unfold csize. now rewrite map_app, prodn_app. Qed.
Lemma rsize_cons (f : rfac) l : rsize (f :: l) = (frows f * rsize l)%nat. Proof. reflexivity. Qed.
Lemma csize_cons (f : rfac) l : csize (f :: l) = (fcols f * csize l)%nat. Proof. reflexivity. Qed.
Lemma rsize_pos (l : list rfac) : Forall fpos l -> (0 < rsize l)%nat.
Proof. intros H. apply prodn_pos. apply Forall_map. eapply Forall_impl; [|exact H]. now intros f [? ?]. Qed.
Lemma csize_pos (l : list rfac) : Forall fpos l -> (0 < csize l)%nat.
Proof. intros H. apply prodn_pos. apply Forall_map. eapply Forall_impl; [|exact H]. now intros f [? ?]. Qed.

Lemma tensm_app (l1 l2 : list rfac) : Forall fpos l1 -> Forall fpos l2 ->
  meq (rsize (l1 ++ l2)) (csize (l1 ++ l2)) (tensm (l1 ++ l2)) (kron (rsize l2) (csize l2) (tensm l1) (tensm l2)).
Proof. intros H1 H2. pose proof (rsize_pos l2 H2) as Hr2. pose proof (csize_pos l2 H2) as Hc2.
  induction H1 as [|f l1 Hf H1 IH].
  - intros i j Hi Hj. cbn [app] in *. unfold kron. cbn [tensm].
    rewrite Nat.mod_small by exact Hi. rewrite Nat.mod_small by exact Hj. ring.
  - intros i j Hi Hj. cbn [app] in *. rewrite rsize_cons in Hi. rewrite csize_cons in Hj.
    pose proof (rsize_pos l1 H1) as Hr1. pose proof (csize_pos l1 H1) as Hc1.
    transitivity (kron (rsize (l1 ++ l2)) (csize (l1 ++ l2)) (fmat f) (kron (rsize l2) (csize l2) (tensm l1) (tensm l2)) i j).
    + cbn [tensm]. apply (kron_ext (frows f) (fcols f)); try assumption.
      * rewrite rsize_app. nia.
      * rewrite csize_app. nia.
      * apply meq_refl.
    + rewrite rsize_app, csize_app. cbn [tensm]. now apply kron_assoc. Qed.

(* tensm (pre ++ a :: b :: post) regrouped as  (Pre (x) (A (x) B)) (x) T  *)
Lemma tensm_regroup (pre : list rfac) (a b : rfac) post : Forall fpos pre -> fpos a -> fpos b -> Forall fpos post ->
  meq (rsize pre * (frows b * frows a) * rsize post) (csize pre * (fcols b * fcols a) * csize post)
    (tensm (pre ++ a :: b :: post))
    (kron (rsize post) (csize post)
       (kron (frows b * frows a) (fcols b * fcols a) (tensm pre) (kron (frows b) (fcols b) (fmat a) (fmat b))) (tensm post)).
Proof. intros Hpre [Hra Hca] [Hrb Hcb] Hpost i j Hi Hj.
  pose proof (rsize_pos post Hpost) as Hrp. pose proof (csize_pos post Hpost) as Hcp.
  rewrite (tensm_app pre (a :: b :: post) Hpre).
  2:{ repeat constructor; assumption. }
  2:{ rewrite rsize_app, !rsize_cons. nia. }
  2:{ rewrite csize_app, !csize_cons. nia. }
  rewrite !rsize_cons, !csize_cons.
  rewrite (kron_ext_all _ _ (tensm pre) (tensm pre) (tensm (a :: b :: post))
            (kron (rsize post) (csize post) (kron (frows b) (fcols b) (fmat a) (fmat b)) (tensm post))).
  2:{ reflexivity. }
  2:{ intros x y. cbn [tensm]. rewrite rsize_cons, csize_cons. now apply kron_assoc. }
  replace (frows a * (frows b * rsize post))%nat with ((frows b * frows a) * rsize post)%nat by lia.
  replace (fcols a * (fcols b * csize post))%nat with ((fcols b * fcols a) * csize post)%nat by lia.
  apply kron_assoc; try assumption; nia. Qed.

(* adjacent swap on lists of factors, corrected sizes *)
Lemma swap_rect (pre : list rfac) (a b : rfac) post : Forall fpos pre -> fpos a -> fpos b -> Forall fpos post ->
  let fs := pre ++ a :: b :: post in
  meq (rsize fs) (csize fs)
    (mmul (csize fs) (mmul (rsize fs) (lpm (rsize post) (frows b) (frows a)) (tensm fs)) (mT (lpm (csize post) (fcols b) (fcols a))))
    (tensm (pre ++ b :: a :: post)).
Proof. intros Hpre Ha Hb Hpost fs.
  assert (Er : rsize fs = (rsize pre * (frows b * frows a) * rsize post)%nat) by (unfold fs; rewrite rsize_app, !rsize_cons; lia).
  assert (Ec : csize fs = (csize pre * (fcols b * fcols a) * csize post)%nat) by (unfold fs; rewrite csize_app, !csize_cons; lia).
  rewrite Er, Ec. destruct Ha as [Hra Hca]. destruct Hb as [Hrb Hcb].
  pose proof (rsize_pos post Hpost) as Hrp. pose proof (csize_pos post Hpost) as Hcp.
  eapply meq_trans.
  { apply mmul_ext; [|apply meq_refl]. apply mmul_ext; [apply meq_refl|]. apply (tensm_regroup pre a b post); try assumption; now split. }
  eapply meq_trans; [now apply swap_core|].
  apply meq_sym.
  replace (rsize pre * (frows b * frows a) * rsize post)%nat with (rsize pre * (frows a * frows b) * rsize post)%nat by lia.
  replace (csize pre * (fcols b * fcols a) * csize post)%nat with (csize pre * (fcols a * fcols b) * csize post)%nat by lia.
  replace (frows b * frows a)%nat with (frows a * frows b)%nat by lia.
  replace (fcols b * fcols a)%nat with (fcols a * fcols b)%nat by lia.
  apply (tensm_regroup pre b a post); try assumption; now split. Qed.

(* one-sided version: all factors have a single column *)
Definition onecol (f : rfac) : Prop := fcols f = 1%nat.
Lemma csize_onecol (l : list rfac) : Forall onecol l -> csize l = 1%nat.
Proof. induction 1 as [|f l Hf _ IH]; [reflexivity|]. rewrite csize_cons, IH, Hf. reflexivity. Qed.
Lemma swap_col (pre : list rfac) (a b : rfac) post : Forall fpos pre -> fpos a -> fpos b -> Forall fpos post ->
  Forall onecol pre -> onecol a -> onecol b -> Forall onecol post ->
  let fs := pre ++ a :: b :: post in
  meq (rsize fs) 1 (mmul (rsize fs) (lpm (rsize post) (frows b) (frows a)) (tensm fs)) (tensm (pre ++ b :: a :: post)).
Proof. intros Hpre Ha Hb Hpost Opre Oa Ob Opost fs.
  assert (Er : rsize fs = (rsize pre * (frows b * frows a) * rsize post)%nat) by (unfold fs; rewrite rsize_app, !rsize_cons; lia).
  pose proof (tensm_regroup pre a b post Hpre Ha Hb Hpost) as G1.
  pose proof (tensm_regroup pre b a post Hpre Hb Ha Hpost) as G2.
  unfold onecol in Oa, Ob. rewrite Oa, Ob in G1, G2. rewrite (csize_onecol pre Opre), (csize_onecol post Opost) in G1, G2.
  rewrite Er. destruct Ha as [Hra _]. destruct Hb as [Hrb _].
  pose proof (rsize_pos post Hpost) as Hrp.
  eapply meq_trans.
  { apply mmul_ext; [apply meq_refl|]. exact G1. }
  eapply meq_trans.
  { apply (swap_core_left (rsize pre) 1 (frows a) (frows b) (rsize post) 1); try assumption; lia. }
  apply meq_sym.
  replace (rsize pre * (frows b * frows a) * rsize post)%nat with (rsize pre * (frows a * frows b) * rsize post)%nat by lia.
  replace (frows b * frows a)%nat with (frows a * frows b)%nat by lia.
  exact G2. Qed.

(* ---- the loop *)
Lemma calc_perm_loop_eq m fuel total names sizes (P : mat) :
  calc_perm_loop m fuel total names sizes P =
  match check_cross names with
  | None => POk P
  | Some pos =>
      match fuel with
      | O => PErr 2
      | S f => if (left_perm_dim m pos sizes =? total)%nat
               then calc_perm_loop m f total (swap_at pos names) (swap_at pos sizes) (mmul total (left_perm_matrix m pos sizes) P)
               else PErr 1
      end
  end.
Proof. destruct fuel; reflexivity. Qed.

Lemma combine_app2 {A B : Type} (l1 : list A) (l1' : list B) l2 l2' : length l1 = length l1' ->
  combine (l1 ++ l2) (l1' ++ l2') = combine l1 l1' ++ combine l2 l2'.
Proof. revert l1'. induction l1 as [|x l IH]; intros [|y l'] H; cbn in *; try lia; [reflexivity|]. now rewrite IH by lia. Qed.

Lemma conj_step NR NC (L Q0 M P0 Lp : mat) i j :
  mmul NC (mmul NR (mmul NR L Q0) M) (mT (mmul NC Lp P0)) i j =
  mmul NC (mmul NR L (mmul NC (mmul NR Q0 M) (mT P0))) (mT Lp) i j.
Proof.
  rewrite (mmul_ext_all NC _ (mmul NR L (mmul NR Q0 M)) _ (mmul NC (mT P0) (mT Lp))).
  2:{ intros a b. apply mmul_assoc. }
  2:{ intros a b. apply mT_mmul. }
  rewrite <- mmul_assoc. apply mmul_ext_all; [|reflexivity]. intros a b. apply mmul_assoc. Qed.

Section Generic.
Variables (T : Type) (tofac : T -> rfac).
Local Notation F := (map tofac).

Lemma step_decomp names (ts : list T) pos : length names = length ts -> check_cross names = Some pos ->
  exists pre_n x y post_n pre a b post, names = pre_n ++ x :: y :: post_n /\ ts = pre ++ a :: b :: post /\
    length pre_n = length pre /\ pos = S (length pre) /\ (y < x)%Z.
Proof. intros Hl Hc. destruct (check_cross_some _ _ Hc) as (pre_n & x & y & post_n & -> & -> & Hxy).
  destruct (split_at (length pre_n) ts) as (pre & a & b & post & -> & E).
  { rewrite <- Hl, app_length. cbn. lia. }
  exists pre_n, x, y, post_n, pre, a, b, post. repeat split; try assumption; congruence. Qed.

Lemma rsize_swap (pre : list rfac) a b post : rsize (pre ++ b :: a :: post) = rsize (pre ++ a :: b :: post).
Proof. rewrite !rsize_app, !rsize_cons. lia. Qed.
Lemma csize_swap (pre : list rfac) a b post : csize (pre ++ b :: a :: post) = csize (pre ++ a :: b :: post).
Proof. rewrite !csize_app, !csize_cons. lia. Qed.

Lemma loop_sound_rect md : forall fuel1 fuel2 names (ts : list T) (Q0 P0 Q P M : mat),
  length names = length ts -> Forall fpos (F ts) -> (md = Fixed \/ length names <= 3)%nat ->
  calc_perm_loop md fuel1 (rsize (F ts)) names (map frows (F ts)) Q0 = POk Q ->
  calc_perm_loop md fuel2 (csize (F ts)) names (map fcols (F ts)) P0 = POk P ->
  meq (rsize (F ts)) (csize (F ts)) (mmul (csize (F ts)) (mmul (rsize (F ts)) Q0 M) (mT P0)) (tensm (F ts)) ->
  exists names' ts', Permutation (combine names ts) (combine names' ts') /\ length names' = length ts' /\
     Sorted Z.le names' /\
     meq (rsize (F ts)) (csize (F ts)) (mmul (csize (F ts)) (mmul (rsize (F ts)) Q M) (mT P)) (tensm (F ts')).
Proof. induction fuel1 as [|f1 IH]; intros fuel2 names ts Q0 P0 Q P M Hl Hpos Hmd H1 H2 Hinv;
  rewrite calc_perm_loop_eq in H1, H2; destruct (check_cross names) as [pos|] eqn:Ec.
  - discriminate.
  - inversion H1; inversion H2; subst. exists names, ts. repeat split; [apply Permutation_refl|exact Hl|now apply check_cross_none|exact Hinv].
  - destruct fuel2 as [|f2]; [discriminate|].
    destruct (left_perm_dim md pos (map frows (F ts)) =? rsize (F ts))%nat; [|discriminate].
    destruct (left_perm_dim md pos (map fcols (F ts)) =? csize (F ts))%nat; [|discriminate].
    destruct (step_decomp names ts pos Hl Ec) as (pre_n & x & y & post_n & pre & a & b & post & -> & -> & Elen & -> & Hxy).
    assert (Hlen3 : (md = Fixed \/ length (pre_n ++ y :: x :: post_n) <= 3)%nat).
    { destruct Hmd as [?|Hm]; [now left|right]. rewrite app_length in *. cbn [length] in *. lia. }
    rewrite map_app in Hpos. cbn [map] in Hpos. apply Forall_app in Hpos. destruct Hpos as [Hpre Hrest].
    inversion Hrest as [|? ? Ha Hrest']; subst. inversion Hrest' as [|? ? Hb Hpost]; subst.
    (* the two left permutation matrices *)
    assert (EL : forall (g : rfac -> nat), left_perm_matrix md (S (length pre)) (map g (F (pre ++ a :: b :: post))) =
                   @lpm R (prodn (map g (F post))) (g (tofac b)) (g (tofac a))).
    { intros g. unfold left_perm_matrix. rewrite !map_app. cbn [map].
      replace (S (length pre)) with (S (length (map g (F pre)))) by (now rewrite !map_length).
      rewrite tail_size_mode, nth_pos, nth_prev; [reflexivity|].
      destruct Hmd as [?|Hm]; [now left|right]. rewrite !app_length in *. cbn [length] in *. rewrite !map_length. lia. }
    rewrite (EL frows) in H1. rewrite (EL fcols) in H2.
    rewrite !swap_at_map in H1, H2. rewrite <- Elen in H1, H2. rewrite swap_at_app in H1, H2. rewrite Elen in H1, H2. rewrite swap_at_app in H1, H2.
    assert (Er : rsize (F (pre ++ b :: a :: post)) = rsize (F (pre ++ a :: b :: post))) by (rewrite !map_app; cbn [map]; apply rsize_swap).
    assert (Ec' : csize (F (pre ++ b :: a :: post)) = csize (F (pre ++ a :: b :: post))) by (rewrite !map_app; cbn [map]; apply csize_swap).
    rewrite <- Er in H1. rewrite <- Ec' in H2.
    assert (Hlen' : length (pre_n ++ y :: x :: post_n) = length (pre ++ b :: a :: post)).
    { rewrite !app_length in *. cbn [length] in *. lia. }
    assert (Hf' : Forall fpos (F (pre ++ b :: a :: post))).
    { rewrite map_app. cbn [map]. apply Forall_app. split; [exact Hpre|]. constructor; [exact Hb|constructor; [exact Ha|exact Hpost]]. }
    match type of H1 with calc_perm_loop _ _ _ _ _ ?Qn = _ =>
    match type of H2 with calc_perm_loop _ _ _ _ _ ?Pn = _ =>
      assert (Hinv' : meq (rsize (F (pre ++ b :: a :: post))) (csize (F (pre ++ b :: a :: post)))
         (mmul (csize (F (pre ++ b :: a :: post))) (mmul (rsize (F (pre ++ b :: a :: post))) Qn M) (mT Pn)) (tensm (F (pre ++ b :: a :: post))))
    end end.
    { (* the invariant after one step *)
      rewrite Er, Ec'. intros i j Hi Hj. rewrite conj_step.
      transitivity (mmul (csize (F (pre ++ a :: b :: post)))
        (mmul (rsize (F (pre ++ a :: b :: post))) (lpm (prodn (map frows (F post))) (frows (tofac b)) (frows (tofac a))) (tensm (F (pre ++ a :: b :: post))))
        (mT (lpm (prodn (map fcols (F post))) (fcols (tofac b)) (fcols (tofac a)))) i j).
      { revert i j Hi Hj. apply mmul_ext; [|apply meq_refl]. apply mmul_ext; [apply meq_refl|exact Hinv]. }
      revert i j Hi Hj. rewrite !map_app. cbn [map]. apply swap_rect; assumption. }
    destruct (IH f2 _ _ _ _ Q P M Hlen' Hf' Hlen3 H1 H2 Hinv') as (names' & ts' & Hperm & Hl' & Hs & Hm).
    exists names', ts'. rewrite Er, Ec' in Hm. repeat split; try assumption.
      eapply Permutation_trans; [|exact Hperm].
      rewrite !combine_app2 by exact Elen. apply Permutation_app_head. cbn [combine]. apply perm_swap.
  - inversion H1; inversion H2; subst. exists names, ts. repeat split; [apply Permutation_refl|exact Hl|now apply check_cross_none|exact Hinv].
Qed.

Lemma loop_sound_col md : forall fuel1 names (ts : list T) (Q0 Q M : mat),
  length names = length ts -> Forall fpos (F ts) -> Forall onecol (F ts) -> (md = Fixed \/ length names <= 3)%nat ->
  calc_perm_loop md fuel1 (rsize (F ts)) names (map frows (F ts)) Q0 = POk Q ->
  meq (rsize (F ts)) 1 (mmul (rsize (F ts)) Q0 M) (tensm (F ts)) ->
  exists names' ts', Permutation (combine names ts) (combine names' ts') /\ length names' = length ts' /\
     Sorted Z.le names' /\
     meq (rsize (F ts)) 1 (mmul (rsize (F ts)) Q M) (tensm (F ts')).
Proof. induction fuel1 as [|f1 IH]; intros names ts Q0 Q M Hl Hpos Hone Hmd H1 Hinv;
  rewrite calc_perm_loop_eq in H1; destruct (check_cross names) as [pos|] eqn:Ec.
  - discriminate.
  - inversion H1; subst. exists names, ts. repeat split; [apply Permutation_refl|exact Hl|now apply check_cross_none|exact Hinv].
  - destruct (left_perm_dim md pos (map frows (F ts)) =? rsize (F ts))%nat; [|discriminate].
    destruct (step_decomp names ts pos Hl Ec) as (pre_n & x & y & post_n & pre & a & b & post & -> & -> & Elen & -> & Hxy).
    assert (Hlen3 : (md = Fixed \/ length (pre_n ++ y :: x :: post_n) <= 3)%nat).
    { destruct Hmd as [?|Hm]; [now left|right]. rewrite app_length in *. cbn [length] in *. lia. }
    rewrite map_app in Hpos, Hone. cbn [map] in Hpos, Hone. apply Forall_app in Hpos. destruct Hpos as [Hpre Hrest].
    inversion Hrest as [|? ? Ha Hrest']; subst. inversion Hrest' as [|? ? Hb Hpost]; subst.
    apply Forall_app in Hone. destruct Hone as [Opre Orest].
    inversion Orest as [|? ? Oa Orest']; subst. inversion Orest' as [|? ? Ob Opost]; subst.
    assert (EL : left_perm_matrix md (S (length pre)) (map frows (F (pre ++ a :: b :: post))) =
                   @lpm R (prodn (map frows (F post))) (frows (tofac b)) (frows (tofac a))).
    { unfold left_perm_matrix. rewrite !map_app. cbn [map].
      replace (S (length pre)) with (S (length (map frows (F pre)))) by (now rewrite !map_length).
      rewrite tail_size_mode, nth_pos, nth_prev; [reflexivity|].
      destruct Hmd as [?|Hm]; [now left|right]. rewrite !app_length in *. cbn [length] in *. rewrite !map_length. lia. }
    rewrite EL in H1.
    rewrite !swap_at_map in H1. rewrite <- Elen in H1. rewrite swap_at_app in H1. rewrite Elen in H1. rewrite swap_at_app in H1.
    assert (Er : rsize (F (pre ++ b :: a :: post)) = rsize (F (pre ++ a :: b :: post))) by (rewrite !map_app; cbn [map]; apply rsize_swap).
    rewrite <- Er in H1.
    assert (Hlen' : length (pre_n ++ y :: x :: post_n) = length (pre ++ b :: a :: post)).
    { rewrite !app_length in *. cbn [length] in *. lia. }
    assert (Hf' : Forall fpos (F (pre ++ b :: a :: post))).
    { rewrite map_app. cbn [map]. apply Forall_app. split; [exact Hpre|]. constructor; [exact Hb|constructor; [exact Ha|exact Hpost]]. }
    assert (Ho' : Forall onecol (F (pre ++ b :: a :: post))).
    { rewrite map_app. cbn [map]. apply Forall_app. split; [exact Opre|]. constructor; [exact Ob|constructor; [exact Oa|exact Opost]]. }
    match type of H1 with calc_perm_loop _ _ _ _ _ ?Qn = _ =>
      assert (Hinv' : meq (rsize (F (pre ++ b :: a :: post))) 1 (mmul (rsize (F (pre ++ b :: a :: post))) Qn M) (tensm (F (pre ++ b :: a :: post))))
    end.
    { rewrite Er. intros i j Hi Hj. rewrite mmul_assoc.
      transitivity (mmul (rsize (F (pre ++ a :: b :: post))) (lpm (prodn (map frows (F post))) (frows (tofac b)) (frows (tofac a))) (tensm (F (pre ++ a :: b :: post))) i j).
      { revert i j Hi Hj. apply mmul_ext; [apply meq_refl|exact Hinv]. }
      revert i j Hi Hj. rewrite !map_app. cbn [map]. apply swap_col; assumption. }
    destruct (IH _ _ _ Q M Hlen' Hf' Ho' Hlen3 H1 Hinv') as (names' & ts' & Hperm & Hl' & Hs & Hm).
    exists names', ts'. rewrite Er in Hm. repeat split; try assumption.
      eapply Permutation_trans; [|exact Hperm].
      rewrite !combine_app2 by exact Elen. apply Permutation_app_head. cbn [combine]. apply perm_swap.
  - inversion H1; subst. exists names, ts. repeat split; [apply Permutation_refl|exact Hl|now apply check_cross_none|exact Hinv].
Qed.
End Generic.

(* termination: the loop needs at most [inversions names] iterations and never fails on a dimension check *)
Lemma loop_terminates md : forall fuel names sizes (P : mat),
  length names = length sizes -> (inversions names <= fuel)%nat -> (md = Fixed \/ length names <= 3)%nat ->
  exists Q, calc_perm_loop md fuel (prodn sizes) names sizes P = POk Q.
Proof. induction fuel as [|f IH]; intros names sizes P Hl Hinv Hmd; rewrite calc_perm_loop_eq;
  destruct (check_cross names) as [pos|] eqn:Ec; try (eexists; reflexivity).
  - destruct (step_decomp nat names sizes pos Hl Ec) as (pre_n & x & y & post_n & pre & a & b & post & -> & -> & Elen & -> & Hxy).
    rewrite (inversions_swap _ _ _ _ Hxy) in Hinv. lia.
  - destruct (step_decomp nat names sizes pos Hl Ec) as (pre_n & x & y & post_n & pre & a & b & post & -> & -> & Elen & -> & Hxy).
    rewrite (inversions_swap _ _ _ _ Hxy) in Hinv.
    rewrite left_perm_dim_mode, Nat.eqb_refl.
    2:{ destruct Hmd as [?|Hm]; [now left|right]. rewrite !app_length in *. cbn [length] in *. lia. }
    assert (E1 : swap_at (S (length pre)) (pre_n ++ x :: y :: post_n) = pre_n ++ y :: x :: post_n) by (rewrite <- Elen; apply swap_at_app).
    rewrite E1, swap_at_app.
    replace (prodn (pre ++ a :: b :: post)) with (prodn (pre ++ b :: a :: post)) by (rewrite !prodn_app, !prodn_cons; lia).
    apply IH.
    + rewrite !app_length in *. cbn [length] in *. lia.
    + lia.
    + destruct Hmd as [?|Hm]; [now left|right]. rewrite !app_length in *. cbn [length] in *. lia. Qed.
End Loop.
