(* C16 — layout facts that connect the pieces:
   (1) the Z-level index maps of index_util (translated code) and the nat-level row-major index of the tensor theorems agree;
   (2) __getitem__ / state as coded: for an in-range multi-index the addressed entry is the row-major one; int arguments follow
       Python's sequence rules;
   (3) measuring an ensemble: entry (old multi-index ++ new multi-index) of the new ensemble is entry (new multi-index) of the block
       produced from old entry (old multi-index) — for every shape, every instrument outcome shape, by induction every history;
   (4) marginals and conditionals that are accepted are normalised (corollaries of the constructor theorem). *)
From Coq Require Import List Arith Bool ZArith Lia.
From QV.Core Require Import OF.
From QV.Model Require Import IndexUtil Multinomial C16_Ensemble.
From QV.Proofs Require Import IndexUtil C16_Multinomial C16_Marginal C16_Conditional.
Import ListNotations.

(* ---------------------------------------------------------------- (1) Z-level = nat-level *)
Lemma prodz_of_nat sh : prodz (map Z.of_nat sh) = Z.of_nat (prodn sh).
Proof. induction sh as [|n t IH]; cbn [map prodz prodn fold_right]; [reflexivity|].
  change (fold_right Nat.mul 1%nat t) with (prodn t). rewrite IH. lia. Qed.

Lemma row_major_of_nat sh : forall idx, row_major (map Z.of_nat sh) (map Z.of_nat idx) = Z.of_nat (rowmajorn sh idx).
Proof. induction sh as [|n t IH]; intros [|x xs]; cbn [map row_major rowmajorn]; try reflexivity.
  rewrite IH, prodz_of_nat. lia. Qed.

Lemma in_range_of_nat sh : forall idx, in_rangen sh idx -> in_range (map Z.of_nat sh) (map Z.of_nat idx).
Proof. induction sh as [|n t IH]; intros [|x xs]; cbn; try tauto. intros [Hx Hr]. split; [lia|now apply IH]. Qed.

Lemma serial_of_nat sh idx : length sh = length idx ->
  serial_from_multi (map Z.of_nat sh) (map Z.of_nat idx) = Some (Z.of_nat (rowmajorn sh idx)).
Proof. intros Hl. rewrite serial_from_multi_row_major by (now rewrite !map_length). now rewrite row_major_of_nat. Qed.

Lemma digits_of_nat sh : forall k, digits (map Z.of_nat sh) (Z.of_nat k) = map Z.of_nat (digitsn sh k).
Proof. induction sh as [|n t IH]; intros k; cbn [map digits digitsn]; [reflexivity|].
  rewrite IH, prodz_of_nat. f_equal.
  destruct (Nat.eq_dec (prodn t) 0) as [E0|N0].
  - rewrite E0. cbn. rewrite Zdiv_0_r. destruct n; cbn; [reflexivity|]. rewrite Nat.sub_diag. reflexivity.
  - rewrite <- Nat2Z.inj_div. destruct (Nat.eq_dec n 0) as [->|Nn]; [cbn; now rewrite Zmod_0_r|].
    now rewrite <- Nat2Z.inj_mod. Qed.

(* ---------------------------------------------------------------- (2) __getitem__ / state as coded *)
Lemma seq_pos_nonneg n i : (0 <= i < n)%Z -> seq_pos n i = Some (Z.to_nat i).
Proof. intros H. unfold seq_pos.
  replace (0 <=? i)%Z with true by (symmetry; apply Z.leb_le; lia).
  replace (i <? n)%Z with true by (symmetry; apply Z.ltb_lt; lia). reflexivity. Qed.
Lemma seq_pos_negative n i : (- n <= i < 0)%Z -> seq_pos n i = Some (Z.to_nat (n + i)).
Proof. intros H. unfold seq_pos.
  replace (0 <=? i)%Z with false by (symmetry; apply Z.leb_gt; lia). cbn [andb].
  replace (i <? 0)%Z with true by (symmetry; apply Z.ltb_lt; lia).
  replace (0 <=? n + i)%Z with true by (symmetry; apply Z.leb_le; lia). reflexivity. Qed.
Lemma seq_pos_outside n i : (i < - n \/ n <= i)%Z -> (0 <= n)%Z -> seq_pos n i = None.
Proof. intros H Hn. unfold seq_pos.
  destruct ((0 <=? i)%Z && (i <? n)%Z) eqn:A.
  { apply andb_true_iff in A. destruct A as [A1 A2]. apply Z.leb_le in A1. apply Z.ltb_lt in A2. lia. }
  destruct ((i <? 0)%Z && (0 <=? n + i)%Z) eqn:B; [|reflexivity].
  apply andb_true_iff in B. destruct B as [B1 B2]. apply Z.ltb_lt in B1. apply Z.leb_le in B2. lia. Qed.

(* int argument: Python's sequence index *)
Theorem index_get_int {A} (l : list A) shape i :
  ((0 <= i < Z.of_nat (length l))%Z -> index_get l shape (AInt i) = match nth_error l (Z.to_nat i) with Some v => MOk v | None => MErr 9 end) /\
  ((- Z.of_nat (length l) <= i < 0)%Z -> index_get l shape (AInt i) = match nth_error l (length l - Z.to_nat (- i)) with Some v => MOk v | None => MErr 9 end) /\
  ((i < - Z.of_nat (length l) \/ Z.of_nat (length l) <= i)%Z -> index_get l shape (AInt i) = MErr 9).
Proof. unfold index_get, resolve_index. repeat split; intros H.
  - now rewrite seq_pos_nonneg.
  - rewrite seq_pos_negative by lia. replace (Z.to_nat (Z.of_nat (length l) + i)) with (length l - Z.to_nat (- i))%nat by lia. reflexivity.
  - rewrite seq_pos_outside by lia. reflexivity. Qed.

(* tuple argument, every component in range, the sequence as long as the shape says: the row-major entry *)
Theorem index_get_tuple_in_range {A} (l : list A) sh idx dflt : in_rangen sh idx -> length l = prodn sh ->
  index_get l (map Z.of_nat sh) (ATuple (map Z.of_nat idx)) = MOk (nth (rowmajorn sh idx) l dflt).
Proof. intros Hr Hl. unfold index_get, resolve_index.
  rewrite serial_of_nat by (symmetry; now apply in_rangen_length).
  pose proof (rowmajorn_bound sh idx Hr) as Hb.
  rewrite seq_pos_nonneg by lia. rewrite Nat2Z.id.
  destruct (nth_error l (rowmajorn sh idx)) as [v|] eqn:E.
  - f_equal. symmetry. now apply nth_error_nth.
  - apply nth_error_None in E. lia. Qed.

Theorem index_get_tuple_rank_mismatch {A} (l : list A) shape t : length shape <> length t -> index_get l shape (ATuple t) = MErr 2.
Proof. intros H. unfold index_get, resolve_index. now rewrite serial_from_multi_mismatch. Qed.

(* the distribution's own accessor of the tensor theorems is this entry *)
Corollary getitem_is_index_get (F : OF) (d : dist F) idx : in_rangen (d_shape F d) idx -> length (d_ps F d) = prodn (d_shape F d) ->
  index_get (d_ps F d) (map Z.of_nat (d_shape F d)) (ATuple (map Z.of_nat idx)) = MOk (getitem F d idx).
Proof. intros Hr Hl. unfold getitem. now apply index_get_tuple_in_range. Qed.

(* states and probabilities of an ensemble are addressed through the SAME position *)
Theorem ensemble_same_position {A B} (states : list A) (ps : list B) shape a : length states = length ps ->
  match resolve_index (Z.of_nat (length ps)) shape a with
  | MOk k => exists s p, index_get states shape a = MOk s /\ nth_error states k = Some s /\ index_get ps shape a = MOk p /\ nth_error ps k = Some p
  | MErr c => index_get states shape a = MErr c /\ index_get ps shape a = MErr c
  end.
Proof. intros Hl. unfold index_get. rewrite Hl.
  destruct (resolve_index _ shape a) as [k|c] eqn:E; [|split; reflexivity].
  assert (Hk : (k < length ps)%nat).
  { assert (G : forall n i k, seq_pos (Z.of_nat n) i = Some k -> (k < n)%nat).
    { intros n i k0. unfold seq_pos. destruct ((0 <=? i)%Z && (i <? Z.of_nat n)%Z) eqn:A'.
      - apply andb_true_iff in A'. destruct A' as [A1 A2]. apply Z.leb_le in A1. apply Z.ltb_lt in A2. intros H; inversion H. lia.
      - destruct ((i <? 0)%Z && (0 <=? Z.of_nat n + i)%Z) eqn:B'; [|discriminate].
        apply andb_true_iff in B'. destruct B' as [B1 B2]. apply Z.ltb_lt in B1. apply Z.leb_le in B2. intros H; inversion H. lia. }
    unfold resolve_index in E. destruct a as [i|t|]; [| |discriminate].
    - destruct (seq_pos _ i) eqn:S; [|discriminate]. inversion E; subst. eapply G; eassumption.
    - destruct (serial_from_multi shape t); [|discriminate]. destruct (seq_pos _ z) eqn:S; [|discriminate]. inversion E; subst. eapply G; eassumption. }
  destruct (nth_error states k) as [s|] eqn:Es; [|apply nth_error_None in Es; lia].
  destruct (nth_error ps k) as [p|] eqn:Ep; [|apply nth_error_None in Ep; lia].
  exists s, p. repeat split; reflexivity. Qed.

(* ---------------------------------------------------------------- (3) measuring an ensemble *)
Lemma prodn_app a b : prodn (a ++ b) = (prodn a * prodn b)%nat.
Proof. unfold prodn. induction a as [|m u IHu]; [cbn; now rewrite Nat.add_0_r|].
  cbn [app fold_right]. rewrite IHu. apply Nat.mul_assoc. Qed.

Lemma rowmajorn_app a : forall b x y, length a = length x ->
  rowmajorn (a ++ b) (x ++ y) = (rowmajorn a x * prodn b + rowmajorn b y)%nat.
Proof. induction a as [|n t IH]; intros b [|x0 xs] y Hl; try discriminate; [reflexivity|].
  cbn [app rowmajorn]. rewrite IH by (cbn in Hl; lia). rewrite prodn_app. lia. Qed.

Lemma in_rangen_app a : forall b x y, in_rangen a x -> in_rangen b y -> in_rangen (a ++ b) (x ++ y).
Proof. induction a as [|n t IH]; intros b [|x0 xs] y; cbn; try tauto. intros [H1 H2] Hb. split; [exact H1|now apply IH]. Qed.

Section Blocks.
Context {E : Type}.
Lemma flat_map_block (meas : E -> list E) (M : nat) (dflt : E) : forall (old : list E) i j,
  (forall e, length (meas e) = M) -> (i < length old)%nat -> (j < M)%nat ->
  nth (i * M + j) (flat_map meas old) dflt = nth j (meas (nth i old dflt)) dflt.
Proof. induction old as [|e old IH]; intros i j HM Hi Hj; [cbn in Hi; lia|].
  cbn [flat_map]. destruct i as [|i].
  - cbn [Nat.mul Nat.add nth]. apply app_nth1. rewrite HM. exact Hj.
  - rewrite app_nth2 by (rewrite HM; lia). rewrite HM.
    replace (S i * M + j - M)%nat with (i * M + j)%nat by lia. cbn [nth]. apply IH; [exact HM|cbn in Hi; lia|exact Hj]. Qed.

Lemma flat_map_length_const (meas : E -> list E) (M : nat) : forall old, (forall e, length (meas e) = M) ->
  length (flat_map meas old) = (length old * M)%nat.
Proof. induction old as [|e old IH]; intros HM; [reflexivity|]. cbn [flat_map length]. rewrite app_length, HM, IH by exact HM. lia. Qed.

(* one measurement: the table of the new ensemble has prod(old_shape ++ mshape) entries, and its entry at the multi-index
   (old multi-index ++ outcome multi-index) is the entry at (outcome multi-index) of the block made from the old entry *)
Theorem measure_all_layout (meas : E -> list E) old old_shape mshape idx j dflt :
  (forall e, length (meas e) = prodn mshape) -> length old = prodn old_shape ->
  in_rangen old_shape idx -> in_rangen mshape j ->
  length (measure_all meas old) = prodn (measured_shape old_shape mshape) /\
  in_rangen (measured_shape old_shape mshape) (idx ++ j) /\
  nth (rowmajorn (measured_shape old_shape mshape) (idx ++ j)) (measure_all meas old) dflt =
  nth (rowmajorn mshape j) (meas (nth (rowmajorn old_shape idx) old dflt)) dflt.
Proof. intros HM Hl Hi Hj. unfold measure_all, measured_shape. split; [|split].
  - rewrite (flat_map_length_const meas (prodn mshape)) by exact HM. rewrite prodn_app, Hl. reflexivity.
  - now apply in_rangen_app.
  - rewrite rowmajorn_app by (symmetry; now apply in_rangen_length).
    apply flat_map_block; [exact HM|rewrite Hl; now apply rowmajorn_bound|now apply rowmajorn_bound]. Qed.

(* every history: after any sequence of measurements the table still has as many entries as its shape says (so the one-step
   layout theorem applies to each further measurement) *)
Theorem measure_chain_length : forall (chain : list ((E -> list E) * list nat)) entries shape,
  Forall (fun ms => forall e, length (fst ms e) = prodn (snd ms)) chain -> length entries = prodn shape ->
  length (fst (measure_chain chain entries shape)) = prodn (snd (measure_chain chain entries shape)).
Proof. induction chain as [|[meas mshape] rest IH]; intros entries shape Hc Hl; [exact Hl|].
  cbn [measure_chain]. inversion Hc; subst. apply IH; [assumption|].
  unfold measure_all, measured_shape. rewrite (flat_map_length_const meas (prodn mshape)) by assumption.
  rewrite prodn_app, Hl. reflexivity. Qed.

Theorem measure_chain_shape : forall (chain : list ((E -> list E) * list nat)) entries shape,
  snd (measure_chain chain entries shape) = shape ++ concat (map snd chain).
Proof. induction chain as [|[meas mshape] rest IH]; intros entries shape; cbn [measure_chain map concat]; [now rewrite app_nil_r|].
  rewrite IH. unfold measured_shape. now rewrite app_assoc. Qed.
End Blocks.

(* ---------------------------------------------------------------- (4) marginals / conditionals stay normalised *)
Section Normalised.
Context (F : OF).
Notation "0" := (c0 F). Notation "1" := (c1 F).
Infix "<=" := (kle F).
Definition normalised (tol : F) (d : dist F) : Prop :=
  Forall (fun p => 0 <= p) (d_ps F d) /\ absF F (csub F (lsum F (d_ps F d)) 1) <= tol.

Theorem marginalize_normalised tol d rem d' : 0 <= tol -> tol <> 0 ->
  marginalize F tol d rem = MOk d' -> d_zero F d' = false -> normalised tol d'.
Proof. intros Ht Hne. unfold marginalize. destruct (remain_check _ _ rem); [discriminate|].
  intros H Hz. destruct (construct_normalised F tol tol _ _ d' Ht Hne H Hz) as [A [B _]]. split; assumption. Qed.

Theorem conditionalize_normalised tol d idxs vals d' : 0 <= tol -> tol <> 0 ->
  conditionalize F tol d idxs vals = MOk d' -> d_zero F d' = false -> normalised tol d'.
Proof. intros Ht Hne. unfold conditionalize.
  destruct (cond_precheck _ _ _); [discriminate|].
  cbv zeta. destruct (match select _ _ with [] => true | _ => false end); [discriminate|].
  destruct (_ && _); [discriminate|].
  intros H Hz. destruct (construct_normalised F tol tol _ _ d' Ht Hne H Hz) as [A [B _]]. split; assumption. Qed.
End Normalised.
