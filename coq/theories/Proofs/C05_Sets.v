(* C05 — the two kinds of constraint sets behind the physical projection, in the form the certificate needs:
   (1) linear equality constraints: a correction term that is a combination of the constraint normals is
       orthogonal to the feasible directions (normal-cone inequality with slack 0);
   (2) the PSD cone: if  eps*I - Q  is PSD then  <Q, Z> <= eps * tr Z  for every PSD Z (normal-cone inequality of
       the inequality projection with explicit slack; rests on Core.Psd.psd_inner_nonneg);
   (3) a concrete family satisfying the obtuse-angle hypotheses for every length n and every ordered field:
       A = { v | v_0 = c }  with  PA u = u[0 := c]   (the State equality projection as coded),
       B = non-negative orthant with PB v = max(v, 0)   (the PSD cone of diagonal matrices). *)
From Coq Require Import Field Ring Setoid Arith Lia Bool List.
From QV.Core Require Import OF Sums Mat Psd.
From QV.Model Require Import C05_Dykstra.
From QV.Proofs Require Import C05_Dykstra.

Section Sets.
Context (F : OF).
Add Field Ff5s : (k_field F).
Notation "0" := (c0 F). Notation "1" := (c1 F).
Infix "+" := (cadd F). Infix "*" := (cmul F). Infix "<=" := (kle F). Infix "-" := (csub F).
Notation "- x" := (copp F x).
Notation vec := (@vec F).
Notation mat := (@mat F).

(* ---- (1) linear equality constraints  { z | <c_j, z> = b_j, j < m } *)
Definition lin_set (n m : nat) (c : nat -> vec) (b : nat -> F) (z : vec) : Prop :=
  forall j, (j < m)%nat -> dot n (c j) z = b j.
Definition lin_comb (m : nat) (lam : nat -> F) (c : nat -> vec) : vec :=
  fun i => sumn m (fun j => lam j * c j i).

Theorem lin_normal n m c b lam (p y z : vec) :
  veq n p (lin_comb m lam c) -> lin_set n m c b y -> lin_set n m c b z -> dot n p (vsub z y) = 0.
Proof. intros Hp Hy Hz.
  rewrite (dot_ext n p (lin_comb m lam c) (vsub z y) (vsub z y) Hp (veq_refl n _)).
  unfold dot, lin_comb.
  rewrite (sumn_ext n _ (fun i => sumn m (fun j => lam j * (c j i * vsub z y i)))).
  2:{ intros i _. rewrite <- sumn_scale_r. apply sumn_ext; intros; ring. }
  rewrite sumn_swap. apply sumn_zero'. intros j Hj. rewrite sumn_scale_l.
  assert (E : sumn n (fun i => c j i * vsub z y i) = dot n (c j) z - dot n (c j) y).
  { unfold dot, vsub. rewrite <- sumn_sub. apply sumn_ext; intros; ring. }
  rewrite E, (Hy j Hj), (Hz j Hj). ring. Qed.

(* ---- (2) the PSD cone *)
Definition eps_minus (eps : F) (Q : mat) : mat := fun i j => (if Nat.eqb i j then eps else 0) - Q i j.

Lemma inner_eps_minus n eps Q Z : inner n n (eps_minus eps Q) Z = eps * mtrace n Z - inner n n Q Z.
Proof. unfold inner, eps_minus, mtrace. rewrite <- sumn_scale_l, <- sumn_sub. apply sumn_ext; intros i Hi.
  rewrite (sumn_ext n _ (fun j => (if Nat.eqb j i then eps * Z i j else 0) - Q i j * Z i j)).
  2:{ intros j _. rewrite (Nat.eqb_sym i j). destruct (Nat.eqb j i); ring. }
  rewrite sumn_sub, (sumn_delta n i (fun j => eps * Z i j) Hi). reflexivity. Qed.

Theorem psd_normal_cone n eps (Q X Z : mat) :
  symmetric F n Q -> symmetric F n Z -> PSD F n (eps_minus eps Q) -> PSD F n Z ->
  inner n n Q (msub Z X) <= eps * mtrace n Z - inner n n Q X.
Proof. intros HQ HZ PN PZ.
  assert (HN : symmetric F n (eps_minus eps Q)).
  { intros i j Hi Hj. unfold eps_minus. rewrite (HQ i j Hi Hj), (Nat.eqb_sym i j). reflexivity. }
  pose proof (psd_inner_nonneg F n _ _ HN HZ PN PZ) as H. rewrite inner_eps_minus in H.
  assert (E : inner n n Q (msub Z X) = inner n n Q Z - inner n n Q X).
  { rewrite (inner_comm n n Q (msub Z X)), inner_msub_l, (inner_comm n n Z Q), (inner_comm n n X Q). reflexivity. }
  rewrite E. apply (proj2 (le_sub F _ _)).
  replace (eps * mtrace n Z - inner n n Q X - (inner n n Q Z - inner n n Q X)) with (eps * mtrace n Z - inner n n Q Z) by ring.
  exact H. Qed.

(* ---- (1)+(2) combined: the statement the harness relies on when it accepts a FINAL history record.
   [Op] sends a stacked vector to the (real symmetric image of the) operator whose positivity is the inequality
   constraint; it is assumed linear on differences and isometric (orthonormal basis) - that link is C02's subject.
   Order "eq_ineq": y lies in the equality set and p is a combination of its normals; x = output of the PSD
   projection with correction q.  Order "ineq_eq": the roles of (y,p) and (x,q) are exchanged. *)
Section Record.
Context (n m md : nat) (Op : vec -> mat) (c : nat -> vec) (b lam : nat -> F).
Hypothesis Op_iso : forall u v, inner md md (Op u) (Op v) = dot n u v.
Hypothesis Op_sub : forall u v i j, Op (vsub u v) i j = Op u i j - Op v i j.
Hypothesis Op_sym : forall u, symmetric F md (Op u).

Lemma psd_side eps (cor out z : vec) :
  PSD F md (eps_minus eps (Op cor)) -> PSD F md (Op z) ->
  dot n cor (vsub z out) <= eps * mtrace md (Op z) - dot n cor out.
Proof. intros PN PZ. rewrite <- (Op_iso cor (vsub z out)), <- (Op_iso cor out).
  rewrite (inner_ext md md (Op cor) (Op cor) (Op (vsub z out)) (msub (Op z) (Op out))).
  - apply psd_normal_cone; auto.
  - apply meq_refl.
  - intros i j _ _. apply Op_sub. Qed.

Theorem record_certificate_eq_ineq (x0 x y p q : vec) eps :
  (forall i, (i < n)%nat -> x i + p i + q i = x0 i) ->
  veq n p (lin_comb m lam c) -> lin_set n m c b y ->
  PSD F md (eps_minus eps (Op q)) ->
  forall z, lin_set n m c b z -> PSD F md (Op z) ->
  dot n (vsub x0 x) (vsub z x) <= dot n p (vsub y x) + 0 + (eps * mtrace md (Op z) - dot n q x).
Proof. intros Hinv Hp Hy PN z Hz PZ.
  apply (certificate_record F n x0 x y p q z 0 (eps * mtrace md (Op z) - dot n q x)); [exact Hinv| |now apply psd_side].
  rewrite (lin_normal n m c b lam p y z Hp Hy Hz). apply k_refl. Qed.

Theorem record_certificate_ineq_eq (x0 x y p q : vec) eps :
  (forall i, (i < n)%nat -> x i + p i + q i = x0 i) ->
  veq n q (lin_comb m lam c) -> lin_set n m c b x ->
  PSD F md (eps_minus eps (Op p)) ->
  forall z, lin_set n m c b z -> PSD F md (Op z) ->
  dot n (vsub x0 x) (vsub z x) <= dot n p (vsub y x) + (eps * mtrace md (Op z) - dot n p y) + 0.
Proof. intros Hinv Hq Hx PN z Hz PZ.
  apply (certificate_record F n x0 x y p q z (eps * mtrace md (Op z) - dot n p y) 0); [exact Hinv|now apply psd_side|].
  rewrite (lin_normal n m c b lam q x z Hq Hx Hz). apply k_refl. Qed.
End Record.

(* the diagonal embedding satisfies the three [Op] hypotheses (non-vacuity; it is the commuting case) *)
Definition diagop (u : vec) : mat := fun i j => if Nat.eqb i j then u i else 0.
Lemma diagop_iso n u v : inner n n (diagop u) (diagop v) = dot n u v.
Proof. unfold inner, diagop, dot. apply sumn_ext; intros i Hi.
  rewrite (sumn_ext n _ (fun j => if Nat.eqb j i then u i * v i else 0)).
  2:{ intros j _. rewrite (Nat.eqb_sym i j). destruct (Nat.eqb j i); ring. }
  now rewrite (sumn_delta n i (fun _ => u i * v i) Hi). Qed.
Lemma diagop_sub u v i j : diagop (vsub u v) i j = diagop u i j - diagop v i j.
Proof. unfold diagop, vsub. destruct (Nat.eqb i j); ring. Qed.
Lemma diagop_sym n u : symmetric F n (diagop u).
Proof. intros i j _ _. unfold diagop. destruct (Nat.eqb_spec i j) as [->|H]; [now rewrite Nat.eqb_refl|].
  destruct (Nat.eqb_spec j i) as [E|_]; [congruence|reflexivity]. Qed.

(* ---- (3) a concrete obtuse pair, any n *)
Definition setA (c : F) (z : vec) : Prop := z O = c.
Definition projA (c : F) (_ : nat) (u : vec) : vec := fun i => if Nat.eqb i 0 then c else u i.
Definition setB (n : nat) (z : vec) : Prop := forall i, (i < n)%nat -> 0 <= z i.
Definition pos (a : F) : F := if kleb F 0 a then a else 0.
Definition projB (_ : nat) (v : vec) : vec := fun i => pos (v i).

Lemma obtuse_A n c : (1 <= n)%nat -> obtuse F n (setA c) (projA c).
Proof. intros Hn k u. split; [reflexivity|]. intros z Hz. unfold setA in Hz.
  assert (E : dot n (vsub u (projA c k u)) (vsub z (projA c k u)) = 0).
  { unfold dot, vsub, projA. apply sumn_zero'. intros i Hi. destruct i as [|i]; cbn [Nat.eqb]; [rewrite Hz|]; ring. }
  rewrite E. apply k_refl. Qed.

Lemma pos_nonneg a : 0 <= pos a.
Proof. unfold pos. destruct (kleb F 0 a) eqn:E; [now apply k_leb|apply k_refl]. Qed.
Lemma obtuse_B n : obtuse F n (setB n) projB.
Proof. intros k u. split. { intros i _. apply pos_nonneg. }
  intros z Hz. unfold dot. apply sumn_nonpos. intros i Hi. unfold vsub, projB, pos.
  destruct (kleb F 0 (u i)) eqn:E.
  - replace ((u i - u i) * (z i - u i)) with 0 by ring. apply k_refl.
  - destruct (leb_false_lt F _ _ E) as [Hle _].
    replace ((u i - 0) * (z i - 0)) with (- ((- u i) * z i)) by ring.
    apply opp_nonpos. apply k_mul; [now apply opp_nonneg|now apply Hz]. Qed.

(* feasible points are fixed by these projections (extensionally on [0,n)) *)
Lemma fix_A n c x0 : setA c x0 -> forall k u, veq n u x0 -> veq n (projA c k u) x0.
Proof. intros H k u Hu i Hi. unfold projA. destruct i as [|i]; cbn [Nat.eqb]; [now rewrite H|now apply Hu]. Qed.
Lemma fix_B n x0 : setB n x0 -> forall k u, veq n u x0 -> veq n (projB k u) x0.
Proof. intros H k u Hu i Hi. unfold projB, pos. rewrite (Hu i Hi).
  rewrite (proj2 (k_leb F 0 (x0 i)) (H i Hi)). reflexivity. Qed.

(* ---- a hyperplane  { z | <c, z> = b }  with its orthogonal projection (non-orthogonal to the orthant: a
        genuinely iterating Dykstra instance; used by the worked example in Props/C05.v) *)
Definition setH (n : nat) (c : vec) (b : F) (z : vec) : Prop := dot n c z = b.
Definition projH (n : nat) (c : vec) (b : F) (_ : nat) (u : vec) : vec :=
  fun i => u i - kdiv F (dot n c u - b) (dot n c c) * c i.
Lemma dot_projH n c b k u : dot n c c <> 0 -> dot n c (projH n c b k u) = b.
Proof. intros Hc. unfold projH.
  assert (E : dot n c (fun i => u i - kdiv F (dot n c u - b) (dot n c c) * c i)
              = dot n c u - kdiv F (dot n c u - b) (dot n c c) * dot n c c).
  { unfold dot at 1. rewrite (sumn_ext n _ (fun i => c i * u i - kdiv F (dot n c u - b) (dot n c c) * (c i * c i))).
    2:{ intros; ring. }
    rewrite sumn_sub, sumn_scale_l. reflexivity. }
  rewrite E. field. exact Hc. Qed.
Lemma obtuse_H n c b : dot n c c <> 0 -> obtuse F n (setH n c b) (projH n c b).
Proof. intros Hc k u. split; [now apply dot_projH|]. intros z Hz. unfold setH in Hz.
  assert (E : dot n (vsub u (projH n c b k u)) (vsub z (projH n c b k u))
              = kdiv F (dot n c u - b) (dot n c c) * (dot n c z - dot n c (projH n c b k u))).
  { unfold dot at 1. unfold vsub.
    rewrite (sumn_ext n _ (fun i => kdiv F (dot n c u - b) (dot n c c) * (c i * z i - c i * projH n c b k u i))).
    2:{ intros i _. unfold projH. ring. }
    rewrite sumn_scale_l, sumn_sub. reflexivity. }
  rewrite E, Hz, dot_projH by exact Hc.
  replace (kdiv F (dot n c u - b) (dot n c c) * (b - b)) with 0 by ring. apply k_refl. Qed.
End Sets.
