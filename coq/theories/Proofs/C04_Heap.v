(* C04 — "never modifies its argument" on the heap model.
   Faithful model [h_proj_eq_with_var] (the code with repair mprocess-proj-eq-var-mutates-argument):
     * pure under both flags, all m, n, heaps                                           (proj_eq_with_var_pure)
     * the returned array holds exactly the functional model mp_proj_eq_var of Model/C04_Proj.v,
       all m, n > 0, both flags                                                          (proj_eq_with_var_value)
   Model of the code as it was BEFORE the repair [h_proj_eq_with_var_prefix]: pure for flag True, refuted for flag False
   (witness: 1 qubit, 2 outcomes, var = zeros(32)). *)
From Coq Require Import Field Ring Arith Bool List Lia QArith Qcanon.
From QV.Core Require Import OF QcOF Sums Mat.
From QV.Model Require Import QObj C04_Proj C04_Heap.
Import ListNotations.

Section C04HeapProofs.
Context (F : OF).
Add Field Ffh : (k_field F).
Notation heap := (heap F).
Notation "0" := (c0 F).
Infix "+" := (cadd F). Infix "-" := (csub F). Infix "/" := (kdiv F).

Lemma isub_other (h : heap) r len v b i : b <> buf r -> isub F h r len v b i = h b i.
Proof. intros Hb. unfold isub. destruct (Nat.eqb_spec b (buf r)); [contradiction|reflexivity]. Qed.
Lemma fold_isub_other len (g : nat -> F) (rs : list aref) : forall (h : heap) b i,
  (forall r, In r rs -> buf r <> b) ->
  fold_left (fun hh r => isub F hh r len g) rs h b i = h b i.
Proof. induction rs as [|r rs IH]; intros h b i Hrs; [reflexivity|]. cbn [fold_left].
  rewrite IH by (intros r' Hr'; apply Hrs; now right).
  apply isub_other. intros E. apply (Hrs r); [now left|now symmetry]. Qed.
Lemma hss_views_buf base m n r : In r (hss_views base m n) -> buf r = buf base.
Proof. unfold hss_views. intros H. apply in_map_iff in H. destruct H as (x & <- & _). reflexivity. Qed.
Lemma alloc_other (h : heap) fresh c b i : b <> fresh -> alloc F h fresh c b i = h b i.
Proof. intros Hb. unfold alloc. destruct (Nat.eqb_spec b fresh); [contradiction|reflexivity]. Qed.
Lemma alloc_same (h : heap) fresh c i : alloc F h fresh c fresh i = c i.
Proof. unfold alloc. now rewrite Nat.eqb_refl. Qed.

(* the spread step only writes to the buffers of the views it is given and to the fresh output buffer *)
Lemma h_spread_other flag fresh2 m n (h1 : heap) hss b i :
  b <> fresh2 -> (forall r, In r hss -> buf r <> b) -> fst (h_spread F flag fresh2 m n h1 hss) b i = h1 b i.
Proof. intros H2 Hrs. unfold h_spread. cbn [fst]. rewrite alloc_other by exact H2. now apply fold_isub_other. Qed.

(* convert_var_to_hss never writes to the buffer of var *)
Lemma h_convert_other flag fresh1 m n (h : heap) var h1 hss i :
  fresh1 <> buf var -> h_convert_var_to_hss F flag fresh1 m n h var = (h1, hss) -> h1 (buf var) i = h (buf var) i.
Proof. intros H1 E. destruct flag; cbn [h_convert_var_to_hss] in E; inversion E; subst; [|reflexivity].
  apply alloc_other. now apply not_eq_sym. Qed.

(* ------------------------------------------------------------------ purity of the repaired code, both flags *)
Theorem proj_eq_with_var_pure flag fresh1 fresh2 fresh3 m n (h : heap) var i :
  fresh1 <> buf var -> fresh2 <> buf var -> fresh3 <> buf var ->
  fst (h_proj_eq_with_var F flag fresh1 fresh2 fresh3 m n h var) (buf var) i = h (buf var) i.
Proof. intros H1 H2 H3. unfold h_proj_eq_with_var.
  destruct (h_convert_var_to_hss F flag fresh1 m n h var) as [h1 hss] eqn:E.
  unfold h_deepcopy. rewrite h_spread_other.
  - rewrite alloc_other by now apply not_eq_sym. now apply (h_convert_other flag fresh1 m n h var h1 hss).
  - now apply not_eq_sym.
  - intros r Hr. rewrite (hss_views_buf _ m n r Hr). exact H3. Qed.

(* the code as it was before the repair, flag = True: the argument is untouched (all writes go to fresh buffers) *)
Theorem proj_eq_with_var_prefix_true_pure fresh1 fresh2 m n (h : heap) var i :
  fresh1 <> buf var -> fresh2 <> buf var ->
  fst (h_proj_eq_with_var_prefix F true fresh1 fresh2 m n h var) (buf var) i = h (buf var) i.
Proof. intros H1 H2. unfold h_proj_eq_with_var_prefix. cbn [h_convert_var_to_hss].
  rewrite h_spread_other.
  - apply alloc_other. now apply not_eq_sym.
  - now apply not_eq_sym.
  - intros r Hr. rewrite (hss_views_buf _ m n r Hr). exact H1. Qed.

(* ------------------------------------------------------------------ the returned VALUE of the repaired code *)
(* windows [x*N, x*N+N) of different x are disjoint *)
Lemma win_disjoint N x y j j' : x <> y -> (j < N)%nat -> (j' < N)%nat -> (x * N + j <> y * N + j')%nat.
Proof. intros Hxy Hj Hj' E. destruct (Nat.lt_gt_cases x y) as [Hc _]. destruct (Hc Hxy) as [L|L].
  - pose proof (Nat.mul_le_mono_r (S x) y N L) as M. rewrite Nat.mul_succ_l in M. lia.
  - pose proof (Nat.mul_le_mono_r (S y) x N L) as M. rewrite Nat.mul_succ_l in M. lia. Qed.
Lemma row_lt_sq a b n : (a < n)%nat -> (b < n)%nat -> (a * n + b < n * n)%nat.
Proof. intros Ha Hb. pose proof (Nat.mul_le_mono_r (S a) n n Ha) as M. rewrite Nat.mul_succ_l in M. lia. Qed.
Lemma le_sq n : (n <= n * n)%nat.
Proof. destruct n as [|k]; [lia|]. pose proof (Nat.mul_le_mono_r 1 (S k) (S k) ltac:(lia)) as M. lia. Qed.

Lemma nth_views base m n x d : (x < m)%nat ->
  nth x (hss_views base m n) d = {| buf := buf base; off := (off base + x * (n * n))%nat |}.
Proof. intros Hx. unfold hss_views. set (f := fun y => {| buf := buf base; off := (off base + y * (n * n))%nat |}).
  rewrite (nth_indep _ d (f 0%nat)) by (now rewrite map_length, seq_length).
  rewrite (map_nth f). now rewrite seq_nth by exact Hx. Qed.
Lemma views_length base m n : length (hss_views base m n) = m.
Proof. unfold hss_views. now rewrite map_length, seq_length. Qed.

(* sum over a list of views = sumn *)
Lemma fold_right_views (f : aref -> F) (g : nat -> aref) m : forall acc,
  fold_right (fun r a => f r + a) acc (map g (seq 0 m)) = sumn m (fun y => f (g y)) + acc.
Proof. induction m as [|m IH]; intros acc; [cbn; ring|].
  rewrite seq_S, map_app, fold_right_app. cbn [map fold_right sumn Nat.add]. rewrite IH. ring. Qed.

(* in-place subtraction through a list of views: an index outside every window is untouched *)
Lemma fold_isub_miss len (g : nat -> F) (rs : list aref) : forall (h : heap) b i,
  (forall r, In r rs -> buf r = b -> (i < off r)%nat \/ (off r + len <= i)%nat) ->
  fold_left (fun hh r => isub F hh r len g) rs h b i = h b i.
Proof. induction rs as [|r rs IH]; intros h b i Hrs; [reflexivity|]. cbn [fold_left].
  rewrite IH by (intros r' Hr' Eb; apply Hrs; [now right|exact Eb]).
  unfold isub. destruct (Nat.eqb_spec b (buf r)) as [Eb|]; [|reflexivity].
  destruct (Hrs r (or_introl eq_refl) (eq_sym Eb)) as [L|L].
  - destruct (Nat.leb_spec (off r) i); [lia|reflexivity].
  - destruct (Nat.ltb_spec i (off r + len)); [lia|]. now rewrite andb_false_r. Qed.
(* ... and an index inside exactly one window is decremented once *)
Lemma isub_hit (h : heap) r len g j : (j < len)%nat -> isub F h r len g (buf r) (off r + j)%nat = h (buf r) (off r + j)%nat - g j.
Proof. intros Hj. unfold isub. rewrite Nat.eqb_refl.
  destruct (Nat.leb_spec (off r) (off r + j)); [|lia]. destruct (Nat.ltb_spec (off r + j) (off r + len)); [|lia].
  cbn [andb]. now replace (off r + j - off r)%nat with j by lia. Qed.
Lemma fold_isub_hit len (g : nat -> F) (l1 l2 : list aref) r (h : heap) j :
  (j < len)%nat ->
  (forall r', In r' (l1 ++ l2) -> buf r' = buf r -> (off r + j < off r')%nat \/ (off r' + len <= off r + j)%nat) ->
  fold_left (fun hh r => isub F hh r len g) (l1 ++ r :: l2) h (buf r) (off r + j)%nat = h (buf r) (off r + j)%nat - g j.
Proof. intros Hj Hm. rewrite fold_left_app. cbn [fold_left].
  rewrite fold_isub_miss by (intros r' Hr' Eb; apply Hm; [apply in_or_app; now right|exact Eb]).
  rewrite isub_hit by exact Hj.
  now rewrite fold_isub_miss by (intros r' Hr' Eb; apply Hm; [apply in_or_app; now left|exact Eb]). Qed.

Definition vw (B : nat) (n x : nat) : aref := {| buf := B; off := (0 + x * (n * n))%nat |}.
Lemma views_split B m n x : (x < m)%nat ->
  hss_views {| buf := B; off := 0 |} m n = map (vw B n) (seq 0 x) ++ vw B n x :: map (vw B n) (seq (S x) (m - S x)).
Proof. intros Hx. unfold hss_views. cbn [buf off]. fold (vw B n).
  replace m with (x + S (m - S x))%nat at 1 by lia. rewrite seq_app, map_app. cbn [seq map Nat.add]. reflexivity. Qed.
Lemma in_views_other B n x r l2 : In r (map (vw B n) (seq 0 x) ++ map (vw B n) (seq (S x) l2)) ->
  exists y, y <> x /\ r = vw B n y.
Proof. intros H. apply in_app_or in H. destruct H as [H|H]; apply in_map_iff in H; destruct H as (y & <- & Hy); apply in_seq in Hy;
  exists y; (split; [lia|reflexivity]). Qed.

(* reading the heap after `for hs in hss: hs[0] -= g` where hss are the m windows of buffer B *)
Lemma spread_read B m n (g : nat -> F) (h : heap) x a b : (0 < n)%nat -> (x < m)%nat -> (a < n)%nat -> (b < n)%nat ->
  fold_left (fun hh r => isub F hh r n g) (hss_views {| buf := B; off := 0 |} m n) h B (0 + x * (n * n) + (a * n + b))%nat
  = if Nat.eqb a 0 then h B (0 + x * (n * n) + (a * n + b))%nat - g b else h B (0 + x * (n * n) + (a * n + b))%nat.
Proof. intros Hn Hx Ha Hb. pose proof (le_sq n) as Hsq. pose proof (row_lt_sq a b n Ha Hb) as Hab.
  destruct (Nat.eqb_spec a 0) as [->|Ha0].
  - rewrite (views_split B m n x Hx). cbn [Nat.mul Nat.add].
    change (x * (n * n) + b)%nat with (off (vw B n x) + b)%nat. change B with (buf (vw B n x)) at 3 4.
    apply fold_isub_hit; [exact Hb|]. intros r' Hr' _.
    destruct (in_views_other B n x r' _ Hr') as (y & Hy & ->). cbn [vw off Nat.add].
    pose proof (win_disjoint (n * n) x y b 0 (not_eq_sym Hy)) as D1.
    destruct (Nat.lt_gt_cases y x) as [Hc _]. destruct (Hc Hy) as [L|L].
    + right. pose proof (Nat.mul_le_mono_r (S y) x (n * n) L) as M. rewrite Nat.mul_succ_l in M. lia.
    + left. pose proof (Nat.mul_le_mono_r (S x) y (n * n) L) as M. rewrite Nat.mul_succ_l in M. lia.
  - apply fold_isub_miss. intros r Hr _. apply in_map_iff in Hr. destruct Hr as (y & <- & Hy). cbn [buf off Nat.add].
    assert (Hge : (n <= a * n)%nat) by (pose proof (Nat.mul_le_mono_r 1 a n ltac:(lia)); lia).
    destruct (Nat.lt_trichotomy y x) as [L|[->|L]].
    + right. pose proof (Nat.mul_le_mono_r (S y) x (n * n) L) as M. rewrite Nat.mul_succ_l in M. lia.
    + right. lia.
    + left. pose proof (Nat.mul_le_mono_r (S x) y (n * n) L) as M. rewrite Nat.mul_succ_l in M. lia. Qed.

(* what convert_var_to_hss lets the code read: the hss of the functional model *)
Lemma convert_reads flag fresh1 m n (h : heap) var h1 hss y a b : (y < m)%nat ->
  h_convert_var_to_hss F flag fresh1 m n h var = (h1, hss) ->
  read_hss F n h1 hss y a b = mp_var_to_hss F flag m n (rd F h var) y a b.
Proof. intros Hy E. unfold read_hss, mp_var_to_hss, mp_unstack.
  destruct flag; unfold h_convert_var_to_hss in E; injection E as <- <-; rewrite nth_views by exact Hy; unfold rd at 1; cbn [buf off].
  - rewrite alloc_same. now replace (0 + y * (n * n) + (a * n + b))%nat with (y * (n * n) + a * n + b)%nat by lia.
  - cbn [mp_var_to_stacked]. unfold rd. f_equal. lia. Qed.

(* what the deep copy holds: the same matrices, in a fresh buffer *)
Lemma deepcopy_reads fresh3 m n (h1 : heap) hss y a b : (0 < n)%nat -> (y < m)%nat -> (a < n)%nat -> (b < n)%nat ->
  fst (h_deepcopy F fresh3 m n h1 hss) fresh3 (0 + y * (n * n) + (a * n + b))%nat = read_hss F n h1 hss y a b.
Proof. intros Hn Hy Ha Hb. pose proof (row_lt_sq a b n Ha Hb) as Hab. unfold h_deepcopy, read_hss. cbn [fst]. rewrite alloc_same.
  assert (Hnn : (n * n <> 0)%nat) by (pose proof (le_sq n); lia).
  replace ((0 + y * (n * n) + (a * n + b)) / (n * n))%nat with y.
  2:{ apply (Nat.div_unique _ (n * n) y (a * n + b)); [exact Hab|lia]. }
  replace ((0 + y * (n * n) + (a * n + b)) mod (n * n))%nat with (a * n + b)%nat.
  2:{ apply (Nat.mod_unique _ (n * n) y (a * n + b)); [exact Hab|lia]. }
  reflexivity. Qed.

(* entries of the flat outputs only read the matrices inside their bounds *)
Lemma mp_stack_ext n (H W : nat -> @mat F) m k : (0 < n)%nat -> (k < m * (n * n))%nat ->
  (forall x a b, (x < m)%nat -> (a < n)%nat -> (b < n)%nat -> H x a b = W x a b) -> mp_stack F n H k = mp_stack F n W k.
Proof. intros Hn Hk E. unfold mp_stack. assert (Hnn : (n * n <> 0)%nat) by (pose proof (le_sq n); lia). apply E.
  - apply Nat.div_lt_upper_bound; [exact Hnn|lia].
  - apply Nat.div_lt_upper_bound; [lia|]. apply Nat.mod_upper_bound. exact Hnn.
  - apply Nat.mod_upper_bound. lia. Qed.
Lemma mp_hss_to_var_ext flag n (H W : nat -> @mat F) m k : (0 < n)%nat -> (k < mp_var_len flag m n)%nat ->
  (forall x a b, (x < m)%nat -> (a < n)%nat -> (b < n)%nat -> H x a b = W x a b) ->
  mp_hss_to_var F flag m n H k = mp_hss_to_var F flag m n W k.
Proof. intros Hn Hk E. destruct flag; cbn [mp_hss_to_var mp_var_len] in *.
  - unfold vdelete. destruct (Nat.ltb_spec k ((m - 1) * (n * n))); apply (mp_stack_ext n H W m); try exact Hn; try exact E; lia.
  - apply (mp_stack_ext n H W m); assumption. Qed.

(* the array returned by the repaired code is the functional model of the variable-level projection:
   for every heap, every var (any buffer, any offset), both flags, all m, n > 0 *)
Theorem proj_eq_with_var_value flag fresh1 fresh2 fresh3 m n (h : heap) var k :
  (0 < m)%nat -> (0 < n)%nat -> (k < mp_var_len flag m n)%nat ->
  let '(h', out) := h_proj_eq_with_var F flag fresh1 fresh2 fresh3 m n h var in
  rd F h' out k = mp_proj_eq_var F flag m n (rd F h var) k.
Proof. intros Hm Hn Hk. unfold h_proj_eq_with_var.
  destruct (h_convert_var_to_hss F flag fresh1 m n h var) as [h1 hss] eqn:E.
  pose proof (fun y a b Hy => convert_reads flag fresh1 m n h var h1 hss y a b Hy E) as CR.
  pose proof (fun y a b => deepcopy_reads fresh3 m n h1 hss y a b Hn) as DR.
  unfold h_deepcopy in *. cbn [fst] in DR. set (h1' := alloc F h1 fresh3 _) in *.
  unfold h_spread. unfold rd at 1. cbn [buf off Nat.add]. rewrite alloc_same. unfold mp_proj_eq_var.
  apply (mp_hss_to_var_ext flag n _ _ m k Hn Hk). intros x a b Hx Ha Hb.
  unfold read_hss at 1. rewrite nth_views by exact Hx. unfold rd at 1. cbn [buf off].
  rewrite views_length. rewrite (spread_read fresh3 m n _ h1' x a b Hn Hx Ha Hb).
  rewrite (DR x a b Hx Ha Hb), (CR x a b Hx). unfold mp_proj_eq.
  destruct (Nat.eqb_spec a 0) as [->|_]; [|reflexivity].
  f_equal. f_equal. unfold mp_defect. f_equal.
  unfold hss_views. rewrite (fold_right_views (fun r => rd F h1' r b)).
  assert (S0 : sumn m (fun y => rd F h1' {| buf := buf {| buf := fresh3; off := 0 |}; off := (off {| buf := fresh3; off := 0 |} + y * (n * n))%nat |} b)
               = sumn m (fun y => mp_var_to_hss F flag m n (rd F h var) y 0%nat b)).
  { apply sumn_ext. intros y Hy. unfold rd. cbn [buf off].
    pose proof (DR y 0%nat b Hy Hn Hb) as D. cbn [Nat.mul Nat.add] in D. cbn [Nat.add]. rewrite D. now apply CR. }
  rewrite S0. ring. Qed.
End C04HeapProofs.

(* flag = False, AS CODED BEFORE repair mprocess-proj-eq-var-mutates-argument: the argument IS modified.
   Witness over Qc: d = 2 (n = 4), m = 2, var = zeros(32) in buffer 0; after the call var[0] = 1/2. *)
Definition zero_heap : heap Qc_OF := fun _ _ => 0%Qc.
Definition var0 : aref := {| buf := 0; off := 0 |}.
Theorem proj_eq_with_var_prefix_false_mutates :
  exists (m n fresh1 fresh2 : nat) (h : heap Qc_OF) (var : aref) (i : nat),
    fresh1 <> buf var /\ fresh2 <> buf var /\
    fst (h_proj_eq_with_var_prefix Qc_OF false fresh1 fresh2 m n h var) (buf var) i <> h (buf var) i.
Proof. exists 2%nat, 4%nat, 1%nat, 2%nat, zero_heap, var0, 0%nat. split; [discriminate|]. split; [discriminate|].
  vm_compute. discriminate. Qed.
