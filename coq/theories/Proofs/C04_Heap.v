(* C04 — "never modifies its argument" on the heap model: refuted for MProcess.calc_proj_eq_constraint_with_var with
   on_para_eq_constraint=False (witness: 1 qubit, 2 outcomes, var = zeros(32)); proved for flag True and for the fixed code. *)
From Coq Require Import Arith Bool List Lia QArith Qcanon.
From QV.Core Require Import OF QcOF Sums Mat.
From QV.Model Require Import QObj C04_Proj C04_Heap.
Import ListNotations.

Section C04HeapProofs.
Context (F : OF).
Notation heap := (heap F).

Lemma isub_other (h : heap) r len v b i : b <> buf r -> isub F h r len v b i = h b i.
Proof. intros Hb. unfold isub. destruct (Nat.eqb_spec b (buf r)); [contradiction|reflexivity]. Qed.
Lemma fold_isub_other len (g : nat -> F) (rs : list aref) : forall (h : heap) b i,
  (forall r, In r rs -> buf r <> b) ->
  fold_left (fun hh r => isub F hh r len g) rs h b i = h b i.
Proof. induction rs as [|r rs IH]; intros h b i Hrs; [reflexivity|]. cbn [fold_left].
  rewrite IH by (intros r' Hr'; apply Hrs; now right).
  apply isub_other. intros E. apply (Hrs r); [now left|now symmetry]. Qed.
Lemma hss_views_buf base m n r : In r (hss_views base m n) -> buf r = buf base.
Proof. unfold hss_views. intros H. apply in_map_iff in H. destruct H as (x & <- & _). reflexivity. Qed.
Lemma alloc_other (h : heap) fresh c b i : b <> fresh -> alloc F h fresh c b i = h b i.
Proof. intros Hb. unfold alloc. destruct (Nat.eqb_spec b fresh); [contradiction|reflexivity]. Qed.

(* the spread step only writes to the buffers of the views it is given and to the fresh output buffer *)
Lemma h_spread_other flag fresh2 m n (h1 : heap) hss b i :
  b <> fresh2 -> (forall r, In r hss -> buf r <> b) -> fst (h_spread F flag fresh2 m n h1 hss) b i = h1 b i.
Proof. intros H2 Hrs. unfold h_spread. cbn [fst]. rewrite alloc_other by exact H2. now apply fold_isub_other. Qed.

(* flag = True: the argument is untouched (all writes go to fresh buffers) *)
Theorem proj_eq_with_var_true_pure fresh1 fresh2 m n (h : heap) var i :
  fresh1 <> buf var -> fresh2 <> buf var ->
  fst (h_proj_eq_with_var F true fresh1 fresh2 m n h var) (buf var) i = h (buf var) i.
Proof. intros H1 H2. unfold h_proj_eq_with_var. cbn [h_convert_var_to_hss].
  rewrite h_spread_other.
  - apply alloc_other. now apply not_eq_sym.
  - now apply not_eq_sym.
  - intros r Hr. rewrite (hss_views_buf _ m n r Hr). exact H1. Qed.

(* the fixed code is pure under both flags *)
Theorem proj_eq_with_var_fixed_pure flag fresh1 fresh2 fresh3 m n (h : heap) var i :
  fresh1 <> buf var -> fresh2 <> buf var -> fresh3 <> buf var ->
  fst (h_proj_eq_with_var_fixed F flag fresh1 fresh2 fresh3 m n h var) (buf var) i = h (buf var) i.
Proof. intros H1 H2 H3. unfold h_proj_eq_with_var_fixed.
  destruct (h_convert_var_to_hss F flag fresh1 m n h var) as [h1 hss] eqn:E.
  rewrite h_spread_other.
  - rewrite alloc_other by now apply not_eq_sym.
    destruct flag; cbn [h_convert_var_to_hss] in E; inversion E; subst; [apply alloc_other; now apply not_eq_sym|reflexivity].
  - now apply not_eq_sym.
  - intros r Hr. rewrite (hss_views_buf _ m n r Hr). exact H3. Qed.
End C04HeapProofs.

(* flag = False, as coded: the argument IS modified.  Witness over Qc: d = 2 (n = 4), m = 2, var = zeros(32) in buffer 0;
   after the call var[0] = 1/2. *)
Definition zero_heap : heap Qc_OF := fun _ _ => 0%Qc.
Definition var0 : aref := {| buf := 0; off := 0 |}.
Theorem proj_eq_with_var_false_mutates :
  exists (m n fresh1 fresh2 : nat) (h : heap Qc_OF) (var : aref) (i : nat),
    fresh1 <> buf var /\ fresh2 <> buf var /\
    fst (h_proj_eq_with_var Qc_OF false fresh1 fresh2 m n h var) (buf var) i <> h (buf var) i.
Proof. exists 2%nat, 4%nat, 1%nat, 2%nat, zero_heap, var0, 0%nat. split; [discriminate|]. split; [discriminate|].
  vm_compute. discriminate. Qed.
