(* C04 — proofs about the equality-projection models: each returns a point of its affine constraint set, the
   displacement is orthogonal to the direction space, hence (Core/C04_ProjCert.v, Pythagoras) it is THE nearest
   point in the Euclidean norm of the stacked vector, idempotent, the identity on feasible points.  All d, m. *)
From Coq Require Import Field Ring Setoid Arith Lia Bool.
From QV.Core Require Import OF Sums Mat Psd C04_ProjCert.
From QV.Model Require Import QObj C04_Proj.

Section C04Proofs.
Context (F : OF).
Add Field Ffq1 : (k_field F).
Notation "0" := (c0 F). Notation "1" := (c1 F).
Infix "+" := (cadd F). Infix "*" := (cmul F). Infix "<=" := (kle F). Infix "-" := (csub F).
Infix "/" := (kdiv F). Notation "- x" := (copp F x).
Notation rvec := (@vec F). Notation rmat := (@mat F).
Notation of_nat := (@of_nat F).

(* ---------------------------------------------------------------- of_nat *)
Lemma of_nat_nonneg k : 0 <= of_nat k.
Proof. induction k as [|k IH]; cbn. { apply k_refl. } apply add_nonneg; [exact IH|apply one_nonneg]. Qed.
Lemma of_nat_S_neq0 k : of_nat (S k) <> 0.
Proof. cbn. intros E. apply (one_neq_zero F). apply (k_antisym F); [|apply one_nonneg].
  replace 1 with (- of_nat k) by (replace (- of_nat k) with (1 - (of_nat k + 1)) by ring; rewrite E; ring).
  apply opp_nonpos, of_nat_nonneg. Qed.
Lemma of_nat_pos_neq0 m : (0 < m)%nat -> of_nat m <> 0.
Proof. destruct m; [lia|intros _; apply of_nat_S_neq0]. Qed.
Lemma sumn_const m (c : F) : sumn m (fun _ => c) = of_nat m * c.
Proof. induction m as [|m IH]; cbn; [ring|]. rewrite IH. ring. Qed.

(* ---------------------------------------------------------------- the package derived from "lands + orthogonal" *)
Definition nearest_package (L : nat) (A : rvec -> Prop) (P : rvec -> rvec) : Prop :=
  lands_in F A P /\ displacement_orthogonal F L A P /\
  (forall x z, A z -> vdist2 L x z = vdist2 L x (P x) + vdist2 L (P x) z) /\
  (forall x z, A z -> vdist2 L x (P x) <= vdist2 L x z) /\
  (forall x z, A z -> vdist2 L x z <= vdist2 L x (P x) -> veq L z (P x)) /\
  (forall x, veq L (P (P x)) (P x)) /\
  (forall x, A x -> veq L (P x) x).
Lemma package L A P : lands_in F A P -> displacement_orthogonal F L A P -> nearest_package L A P.
Proof. intros HL HO. repeat split; try assumption.
  - exact (affine_pythagoras F L A P HL HO).
  - exact (affine_nearest F L A P HL HO).
  - exact (affine_nearest_unique F L A P HL HO).
  - exact (affine_idempotent F L A P HL HO).
  - exact (affine_fixed_points F L A P HL HO). Qed.

(* ---------------------------------------------------------------- generic "spread the column defect" projection *)
Section Spread.
Variables (m N : nat) (J : nat -> bool) (t : rvec).
Hypothesis Hm : (0 < m)%nat.
Definition colsum (s : rvec) (j : nat) : F := sumn m (fun y => s (y * N + j)%nat).
Definition spread (s : rvec) : rvec :=
  fun k => if J (k mod N)%nat then s k - (colsum s (k mod N)%nat - t (k mod N)%nat) / of_nat m else s k.
Definition feas (s : rvec) : Prop := forall j, (j < N)%nat -> J j = true -> colsum s j = t j.

Lemma colsum_spread s j : (j < N)%nat -> J j = true -> colsum (spread s) j = t j.
Proof. intros Hj HJ. unfold colsum at 1.
  rewrite (sumn_ext m _ (fun y => s (y * N + j)%nat - (colsum s j - t j) / of_nat m)).
  2:{ intros y _. unfold spread. destruct (divmod_flat y j N Hj) as [_ ->]. now rewrite HJ. }
  rewrite sumn_sub, sumn_const. fold (colsum s j). field. now apply of_nat_pos_neq0. Qed.
Lemma spread_lands : lands_in F feas spread.
Proof. intros s j Hj HJ. now apply colsum_spread. Qed.
Lemma spread_orth : displacement_orthogonal F (m * N) feas spread.
Proof. intros x z z' Hz Hz'. unfold dot. rewrite sumn_flat, sumn_swap.
  apply sumn_zero'. intros j Hj.
  destruct (J j) eqn:HJ.
  - rewrite (sumn_ext m _ (fun y => (- ((colsum x j - t j) / of_nat m)) * (z (y * N + j)%nat - z' (y * N + j)%nat))).
    2:{ intros y _. unfold vsub, spread. destruct (divmod_flat y j N Hj) as [_ ->]. rewrite HJ. ring. }
    rewrite sumn_scale_l, sumn_sub. fold (colsum z j) (colsum z' j). rewrite (Hz j Hj HJ), (Hz' j Hj HJ). ring.
  - apply sumn_zero'. intros y _. unfold vsub, spread. destruct (divmod_flat y j N Hj) as [_ ->]. rewrite HJ. ring. Qed.
End Spread.

(* transport of "lands + orthogonal" along pointwise equality of the projection (on the first L entries) *)
Lemma transport L (A A' : rvec -> Prop) (P P' : rvec -> rvec) :
  (forall s, A s <-> A' s) -> (forall s s', veq L s s' -> A' s -> A' s') -> (forall s, veq L (P s) (P' s)) ->
  lands_in F A' P' -> displacement_orthogonal F L A' P' ->
  lands_in F A P /\ displacement_orthogonal F L A P.
Proof. intros HA Hext HP HL HO. split.
  - intros x. apply HA. apply (Hext (P' x)); [apply veq_sym, HP|apply HL].
  - intros x z z' Hz Hz'. rewrite <- (HO x z z' (proj1 (HA z) Hz) (proj1 (HA z') Hz')).
    apply dot_ext; [|apply veq_refl]. intros i Hi. unfold vsub. now rewrite (HP x i Hi). Qed.

Lemma feas_ext m N J t s s' : veq (m * N) s s' -> feas m N J t s -> feas m N J t s'.
Proof. intros H Hs j Hj HJ. rewrite <- (Hs j Hj HJ). unfold colsum. apply sumn_ext; intros y Hy. symmetry. apply H. nia. Qed.

(* ---------------------------------------------------------------- State *)
Definition state_A (sd : F) : rvec -> Prop := state_eq_ok F sd.
Lemma state_lands sd : lands_in F (state_A sd) (state_proj_eq F sd).
Proof. intros x. reflexivity. Qed.
Lemma state_orth sd n : displacement_orthogonal F n (state_A sd) (state_proj_eq F sd).
Proof. intros x z z' Hz Hz'. unfold dot. apply sumn_zero'. intros k _. unfold vsub, state_proj_eq.
  destruct (Nat.eqb_spec k 0) as [->|_]; [|ring]. unfold state_A, state_eq_ok in *. rewrite Hz, Hz'. ring. Qed.
Theorem state_eq_proj_nearest sd n : nearest_package n (state_A sd) (state_proj_eq F sd).
Proof. apply package; [apply state_lands|apply state_orth]. Qed.

(* ---------------------------------------------------------------- Gate (stacked vector = hs.flatten()) *)
Definition gate_P (n : nat) (s : rvec) : rvec := gate_stack F n (gate_proj_eq F (gate_unstack F n s)).
Definition gate_A (n : nat) (s : rvec) : Prop := gate_eq_ok F n (gate_unstack F n s).
Lemma gate_P_val n s k : (0 < n)%nat ->
  gate_P n s k = if (k <? n)%nat then e0 k else s k.
Proof. intros Hn. unfold gate_P, gate_stack, gate_proj_eq, gate_unstack, vecr, unvecr.
  destruct (Nat.ltb_spec k n) as [Hk|Hk].
  - rewrite (Nat.div_small k n Hk), (Nat.mod_small k n Hk). reflexivity.
  - destruct (Nat.eqb_spec (k / n) 0) as [E|_].
    + apply Nat.div_small_iff in E; lia.
    + f_equal. rewrite Nat.mul_comm. symmetry. apply Nat.div_mod_eq. Qed.
Lemma gate_lands n : (0 < n)%nat -> lands_in F (gate_A n) (gate_P n).
Proof. intros Hn x b Hb. unfold gate_unstack, unvecr. cbn [Nat.mul Nat.add]. rewrite gate_P_val by exact Hn.
  now rewrite (proj2 (Nat.ltb_lt b n) Hb). Qed.
Lemma gate_orth n : (0 < n)%nat -> displacement_orthogonal F (n * n) (gate_A n) (gate_P n).
Proof. intros Hn x z z' Hz Hz'. unfold dot. apply sumn_zero'. intros k _. unfold vsub. rewrite gate_P_val by exact Hn.
  destruct (Nat.ltb_spec k n) as [Hk|Hk]; [|ring].
  pose proof (Hz k Hk) as E1. pose proof (Hz' k Hk) as E2. unfold gate_unstack, unvecr in E1, E2. cbn [Nat.mul Nat.add] in E1, E2.
  rewrite E1, E2. ring. Qed.
Theorem gate_eq_proj_nearest n : (0 < n)%nat -> nearest_package (n * n) (gate_A n) (gate_P n).
Proof. intros Hn. apply package; [now apply gate_lands|now apply gate_orth]. Qed.

(* ---------------------------------------------------------------- Povm (stacked vector = np.hstack(vecs)) *)
Definition povm_P (sd : F) (m n : nat) (s : rvec) : rvec := povm_stack F n (povm_proj_eq F sd m (povm_unstack F n s)).
Definition povm_A (sd : F) (m n : nat) (s : rvec) : Prop := povm_eq_ok F sd m n (povm_unstack F n s).
Definition povm_t (sd : F) : rvec := fun a => if Nat.eqb a 0 then sd else 0.
Lemma povm_A_feas sd m n s : povm_A sd m n s <-> feas m n (fun _ => true) (povm_t sd) s.
Proof. unfold povm_A, povm_eq_ok, feas, colsum, povm_unstack, unvecr, povm_t. split.
  - intros H j Hj _. now apply H.
  - intros H a Ha. now apply H. Qed.
Lemma povm_P_spread sd m n s : (0 < m)%nat -> (0 < n)%nat ->
  veq (m * n) (povm_P sd m n s) (spread m n (fun _ => true) (povm_t sd) s).
Proof. intros Hm Hn k Hk. unfold povm_P, povm_stack, povm_proj_eq, povm_unstack, povm_abar, povm_c, vecr, unvecr, spread, colsum, povm_t.
  replace (k / n * n + k mod n)%nat with k by (rewrite Nat.mul_comm; apply Nat.div_mod_eq).
  pose proof (of_nat_pos_neq0 m Hm) as Hm0.
  destruct (Nat.eqb (k mod n) 0); field; exact Hm0. Qed.
Theorem povm_eq_proj_nearest sd m n : (0 < m)%nat -> (0 < n)%nat -> nearest_package (m * n) (povm_A sd m n) (povm_P sd m n).
Proof. intros Hm Hn.
  destruct (transport (m * n) (povm_A sd m n) (feas m n (fun _ => true) (povm_t sd)) (povm_P sd m n) (spread m n (fun _ => true) (povm_t sd)))
    as [HL HO].
  - apply povm_A_feas. - intros s s'. apply feas_ext. - intros s. now apply povm_P_spread.
  - now apply spread_lands. - now apply spread_orth.
  - now apply package. Qed.

(* ---------------------------------------------------------------- MProcess (stacked vector = np.array(hss).flatten()) *)
Definition mp_P (m n : nat) (s : rvec) : rvec := mp_stack F n (mp_proj_eq F m (mp_unstack F n s)).
Definition mp_A (m n : nat) (s : rvec) : Prop := mp_eq_ok F m n (mp_unstack F n s).
Definition mp_J (n : nat) : nat -> bool := fun j => (j <? n)%nat.
Lemma mp_A_feas m n s : mp_A m n s <-> feas m (n * n) (mp_J n) e0 s.
Proof. unfold mp_A, mp_eq_ok, feas, colsum, mp_unstack, mp_J. split.
  - intros H j Hj HJ. apply Nat.ltb_lt in HJ. rewrite <- (H j HJ). apply sumn_ext; intros y _. f_equal. lia.
  - intros H b Hb. rewrite <- (H b); [|nia|now apply Nat.ltb_lt]. apply sumn_ext; intros y _. f_equal. lia. Qed.
Lemma mod_mod_sq k n : (0 < n)%nat -> ((k mod (n * n)) mod n = k mod n)%nat.
Proof. intros Hn. rewrite Nat.mod_mul_r by lia. rewrite (Nat.mul_comm n), Nat.mod_add by lia. apply Nat.mod_mod. lia. Qed.
Lemma mp_P_spread m n s : (0 < m)%nat -> (0 < n)%nat ->
  veq (m * (n * n)) (mp_P m n s) (spread m (n * n) (mp_J n) e0 s).
Proof. intros Hm Hn k Hk. unfold mp_P, mp_stack, mp_proj_eq, mp_defect, mp_unstack, spread, colsum, mp_J.
  set (j := (k mod (n * n))%nat). set (x := (k / (n * n))%nat).
  assert (Hk' : (k = x * (n * n) + j)%nat) by (unfold x, j; rewrite Nat.mul_comm; apply Nat.div_mod_eq).
  assert (Hj : (j < n * n)%nat) by (apply Nat.mod_upper_bound; nia).
  assert (Hb : (k mod n = j mod n)%nat) by (symmetry; now apply mod_mod_sq).
  rewrite Hb.
  destruct (Nat.ltb_spec j n) as [Hjn|Hjn].
  - rewrite (Nat.div_small j n Hjn), (Nat.mod_small j n Hjn). cbn [Nat.eqb Nat.mul Nat.add].
    replace (x * (n * n) + 0 + j)%nat with k by lia.
    rewrite (sumn_ext m (fun y => s (y * (n * n) + 0 + j)%nat) (fun y => s (y * (n * n) + j)%nat)) by (intros; f_equal; lia).
    reflexivity.
  - destruct (Nat.eqb_spec (j / n) 0) as [E|_].
    + apply Nat.div_small_iff in E; lia.
    + f_equal. pose proof (Nat.div_mod_eq j n) as E. lia. Qed.
Theorem mp_eq_proj_nearest m n : (0 < m)%nat -> (0 < n)%nat -> nearest_package (m * (n * n)) (mp_A m n) (mp_P m n).
Proof. intros Hm Hn.
  destruct (transport (m * (n * n)) (mp_A m n) (feas m (n * n) (mp_J n) e0) (mp_P m n) (spread m (n * n) (mp_J n) e0))
    as [HL HO].
  - apply mp_A_feas. - intros s s'. apply feas_ext. - intros s. now apply mp_P_spread.
  - now apply spread_lands. - now apply spread_orth.
  - now apply package. Qed.
End C04Proofs.
