(* C11 — proofs about the backtracking projected-gradient model (generic ordered field, axiom-free). *)
From Coq Require Import Arith List Bool Lia Field Ring Setoid.
From QV.Core Require Import OF Sums Mat.
From QV.Model Require Import C11_Pgdb.
Import ListNotations.

Section C11_Proofs.
Context (F : OF).
Add Field Ff11 : (k_field F).
Notation "0" := (c0 F). Notation "1" := (c1 F).
Infix "+" := (cadd F). Infix "*" := (cmul F). Infix "<=" := (kle F). Infix "-" := (csub F).
Infix "/" := (kdiv F). Notation "- x" := (copp F x).
Notation vec := (@vec F).

(* ------------------------------------------------------------------ order helpers *)
Lemma C11_le_refl_eq a b : a = b -> a <= b. Proof. intros ->. apply k_refl. Qed.
Lemma C11_mul_nonneg_nonpos a b : 0 <= a -> b <= 0 -> a * b <= 0.
Proof. intros Ha Hb. replace 0 with (a * 0) by ring. now apply mul_le_compat_nonneg. Qed.
Lemma C11_le_opp a b : a <= b -> - b <= - a.
Proof. intros H. apply (proj2 (le_sub F _ _)). replace (- a - - b) with (b - a) by ring. now apply (proj1 (le_sub F _ _)). Qed.
Lemma C11_le_move a b c : a - b <= c -> a <= c + b.
Proof. intros H. pose proof (k_add F _ _ b H) as A. now replace (a - b + b) with a in A by ring. Qed.
(* transfer an inequality along a ring identity of the slacks *)
Lemma C11_le_by a b c d : a <= b -> d - c = b - a -> c <= d.
Proof. intros H E. apply (proj2 (le_sub F _ _)). rewrite E. now apply (proj1 (le_sub F _ _)). Qed.
Lemma C11_le_by2 a b a' b' c d : a <= b -> a' <= b' -> d - c = (b - a) + (b' - a') -> c <= d.
Proof. intros H H' E. apply (proj2 (le_sub F _ _)). rewrite E. apply add_nonneg; now apply (proj1 (le_sub F _ _)). Qed.
Lemma C11_le_by3 a b a' b' a'' b'' c d : a <= b -> a' <= b' -> a'' <= b'' -> d - c = (b - a) + (b' - a') + (b'' - a'') -> c <= d.
Proof. intros H H' H'' E. apply (proj2 (le_sub F _ _)). rewrite E. repeat apply add_nonneg; now apply (proj1 (le_sub F _ _)). Qed.
Lemma C11_sumn_nonneg n (f : nat -> F) : (forall i, (i < n)%nat -> 0 <= f i) -> 0 <= sumn n f.
Proof. induction n as [|n IH]; intros H; cbn [sumn]; [apply k_refl|].
  apply add_nonneg; [apply IH; intros; apply H; lia|apply H; lia]. Qed.
Lemma C11_nrm2_nonneg n (x : vec) : 0 <= C11_nrm2 F n x.
Proof. apply C11_sumn_nonneg. intros; apply sqr_nonneg. Qed.
Lemma C11_two_pos : 0 <= C11_two F. Proof. apply add_nonneg; apply one_nonneg. Qed.
Lemma C11_two_neq0 : C11_two F <> 0. Proof. apply double_neq0, one_neq_zero. Qed.
Lemma C11_half_nonneg : 0 <= C11_half F.
Proof. apply inv_nonneg; [apply C11_two_neq0|apply C11_two_pos]. Qed.
Lemma C11_half_le1 : C11_half F <= 1.
Proof. apply (proj2 (le_sub F _ _)). unfold C11_half.
  replace (1 - 1 / (1 + 1)) with (1 / (1 + 1)) by (field; apply C11_two_neq0). apply C11_half_nonneg. Qed.
Lemma C11_half_double a : C11_half F * a + C11_half F * a = a.
Proof. unfold C11_half. field. apply C11_two_neq0. Qed.
(* cancel a positive factor *)
Lemma C11_cancel_pos p t : 0 <= p -> p <> 0 -> 0 <= p * t -> 0 <= t.
Proof. intros Hp Hp0 H. destruct (k_total F 0 t) as [G|G]; [exact G|].
  assert (E : p * t = 0). { apply (k_antisym F); [|exact H]. now apply C11_mul_nonneg_nonpos. }
  assert (t = 0). { replace t with ((1 / p) * (p * t)) by (field; exact Hp0). rewrite E. ring. }
  subst t. apply k_refl. Qed.

(* ------------------------------------------------------------------ dot-product algebra *)
Lemma C11_dot_vsub_r n (x y z : vec) : dot n x (vsub y z) = dot n x y - dot n x z.
Proof. rewrite dot_comm, dot_vsub_l, (dot_comm n y), (dot_comm n z). reflexivity. Qed.
Lemma C11_dot_vadd_r n (x y z : vec) : dot n x (vadd y z) = dot n x y + dot n x z.
Proof. rewrite dot_comm, dot_vadd_l, (dot_comm n y), (dot_comm n z). reflexivity. Qed.
Lemma C11_dot_vscale_r n c (x y : vec) : dot n x (vscale c y) = c * dot n x y.
Proof. rewrite dot_comm, dot_vscale_l, (dot_comm n y). reflexivity. Qed.

(* the algebraic identity behind every statement: with p = P(x - g/mu),
   mu * <x - g/mu - p, z - p>  =  - <g, z - p> - mu <p - x, z - p>                                      *)
Lemma C11_key_identity n mu (x gx p z : vec) : mu <> 0 ->
  mu * dot n (vsub (vsub x (C11_vdiv F gx mu)) p) (vsub z p)
  = - dot n gx (vsub z p) - mu * dot n (vsub p x) (vsub z p).
Proof. intros Hmu. unfold dot, vsub, C11_vdiv.
  rewrite <- sumn_scale_l, <- sumn_opp, <- sumn_scale_l, <- sumn_sub.
  apply sumn_ext; intros i _. field. exact Hmu. Qed.

Section Step.
Variables (n : nat) (C : vec -> Prop) (P : vec -> vec) (f : vec -> F) (g : vec -> vec) (mu : F).
Hypothesis Hmu0 : mu <> 0.
Hypothesis Hmu : 0 <= mu.
Hypothesis HP : C11_obtuse F n C P.

(* for every z in C:   <g x, z - x - y>  >=  - mu <y, z - x - y>      (y = P(x - g x/mu) - x) *)
Lemma C11_variational x z : C z ->
  let y := C11_dir F P g mu x in
  - (mu * dot n y (vsub (vsub z x) y)) <= dot n (g x) (vsub (vsub z x) y).
Proof. intros Cz y.
  set (p := P (vsub x (C11_vdiv F (g x) mu))).
  destruct (HP (vsub x (C11_vdiv F (g x) mu))) as [_ Hob]. specialize (Hob z Cz). fold p in Hob.
  pose proof (C11_mul_nonneg_nonpos mu _ Hmu Hob) as A. rewrite C11_key_identity in A by exact Hmu0.
  assert (Hy : forall i, y i = p i - x i) by (intros; reflexivity).
  assert (E1 : dot n (g x) (vsub z p) = dot n (g x) (vsub (vsub z x) y)).
  { apply dot_ext; [apply veq_refl|]. intros i _. unfold vsub. rewrite Hy. ring. }
  assert (E2 : dot n (vsub p x) (vsub z p) = dot n y (vsub (vsub z x) y)).
  { apply dot_ext; intros i _; unfold vsub; rewrite !Hy; ring. }
  rewrite E1, E2 in A. apply (C11_le_by _ _ _ _ A). ring. Qed.

(* T1: the projected-gradient direction is a descent direction:  <g,y> <= - mu |y|^2 *)
Lemma C11_descent_direction x : C x ->
  let y := C11_dir F P g mu x in dot n (g x) y <= - (mu * C11_nrm2 F n y).
Proof. intros Cx y. pose proof (C11_variational x x Cx) as A. cbv zeta in A. fold y in A.
  assert (E1 : dot n y (vsub (vsub x x) y) = - C11_nrm2 F n y).
  { unfold C11_nrm2, dot, vsub. rewrite <- sumn_opp. apply sumn_ext; intros; ring. }
  assert (E2 : dot n (g x) (vsub (vsub x x) y) = - dot n (g x) y).
  { unfold dot, vsub. rewrite <- sumn_opp. apply sumn_ext; intros; ring. }
  rewrite E1, E2 in A. apply C11_le_opp in A.
  replace (- - dot n (g x) y) with (dot n (g x) y) in A by ring.
  replace (- - (mu * - C11_nrm2 F n y)) with (- (mu * C11_nrm2 F n y)) in A by ring. exact A. Qed.

Lemma C11_descent_defect_nonpos x : C x ->
  C11_descent_defect F n mu (g x) (C11_dir F P g mu x) <= 0.
Proof. intros Cx. unfold C11_descent_defect. pose proof (C11_descent_direction x Cx) as A. cbv zeta in A.
  apply (C11_le_by _ _ _ _ A). ring. Qed.

(* T5: a-posteriori optimality gap, per competitor z in C *)
Hypothesis Hconv : C11_first_order_convex F n f g.
Lemma C11_gap x z : C z ->
  C11_gap_bound F n mu x (g x) (C11_dir F P g mu x) z <= f z - f x.
Proof. intros Cz. set (y := C11_dir F P g mu x). unfold C11_gap_bound.
  pose proof (C11_variational x z Cz) as A. cbv zeta in A. fold y in A.
  pose proof (Hconv x z) as B.
  assert (E : dot n (g x) (vsub z x) = dot n (g x) (vsub (vsub z x) y) + dot n (g x) y).
  { unfold dot, vsub. rewrite <- sumn_add. apply sumn_ext; intros; ring. }
  rewrite E in B.
  apply (C11_le_by2 _ _ _ _ _ _ A B). ring. Qed.

(* T4: y = 0  =>  x minimises f over C *)
Lemma C11_stationary_optimal x z : C z -> veq n (C11_dir F P g mu x) vzero -> f x <= f z.
Proof. intros Cz Hy. pose proof (C11_gap x z Cz) as A. unfold C11_gap_bound in A.
  assert (E1 : dot n (g x) (C11_dir F P g mu x) = 0).
  { rewrite (dot_ext n _ (g x) _ vzero (veq_refl n _) Hy). unfold dot, vzero. apply sumn_zero'. intros; ring. }
  assert (E2 : dot n (C11_dir F P g mu x) (vsub (vsub z x) (C11_dir F P g mu x)) = 0).
  { rewrite (dot_ext n _ vzero _ _ Hy (veq_refl n _)). unfold dot, vzero. apply sumn_zero'. intros; ring. }
  rewrite E1, E2 in A. apply (proj2 (le_sub F _ _)).
  replace (0 - mu * 0) with 0 in A by ring. exact A. Qed.
End Step.

(* ------------------------------------------------------------------ Armijo acceptance *)
Lemma C11_backtrack_sound fuel phi fx gamma slope : forall alpha a,
  C11_backtrack F fuel phi fx gamma slope alpha = Some a -> C11_armijo_ok F phi fx gamma slope a = true.
Proof. induction fuel as [|k IH]; intros alpha a H; cbn in H; [discriminate|].
  destruct (C11_armijo_ok F phi fx gamma slope alpha) eqn:E; [injection H as <-; exact E|]. now apply IH in H. Qed.
Lemma C11_backtrack_range fuel phi fx gamma slope : forall alpha a,
  0 <= alpha -> alpha <= 1 ->
  C11_backtrack F fuel phi fx gamma slope alpha = Some a -> 0 <= a /\ a <= 1.
Proof. induction fuel as [|k IH]; intros alpha a H0 H1 H; cbn in H; [discriminate|].
  destruct (C11_armijo_ok F phi fx gamma slope alpha); [injection H as <-; now split|].
  apply IH in H; [exact H| |].
  - apply k_mul; [apply C11_half_nonneg|exact H0].
  - apply (k_trans F _ (1 * alpha)).
    + replace (C11_half F * alpha) with (alpha * C11_half F) by ring.
      replace (1 * alpha) with (alpha * 1) by ring. apply mul_le_compat_nonneg; [exact H0|apply C11_half_le1].
    + replace (1 * alpha) with alpha by ring. exact H1. Qed.
(* the returned alpha is the FIRST success: either the start value or its double failed the test *)
Lemma C11_backtrack_first fuel phi fx gamma slope : forall alpha a,
  C11_backtrack F fuel phi fx gamma slope alpha = Some a ->
  a = alpha \/ C11_armijo_ok F phi fx gamma slope (a + a) = false.
Proof. induction fuel as [|k IH]; intros alpha a H; cbn in H; [discriminate|].
  destruct (C11_armijo_ok F phi fx gamma slope alpha) eqn:E; [injection H as <-; now left|].
  destruct (IH _ _ H) as [->|G]; [|now right]. right. now rewrite C11_half_double. Qed.
(* success as soon as the trial value enters a region where the test always holds *)
Fixpoint C11_pow (a : F) (k : nat) : F := match k with O => 1 | S j => a * C11_pow a j end.
Lemma C11_backtrack_terminates phi fx gamma slope (good : F -> Prop) :
  (forall a, good a -> C11_armijo_ok F phi fx gamma slope a = true) ->
  forall K alpha, good (C11_pow (C11_half F) K * alpha) ->
  exists a, C11_backtrack F (S K) phi fx gamma slope alpha = Some a.
Proof. intros Hg. induction K as [|K IH]; intros alpha H.
  - cbn [C11_pow] in H. replace (1 * alpha) with alpha in H by ring. cbn. rewrite (Hg _ H). now exists alpha.
  - cbn [C11_backtrack]. destruct (C11_armijo_ok F phi fx gamma slope alpha); [now exists alpha|].
    apply IH. cbn [C11_pow] in H.
    replace (C11_pow (C11_half F) K * (C11_half F * alpha)) with (C11_half F * C11_pow (C11_half F) K * alpha) by ring.
    exact H. Qed.
Lemma C11_backtrack_count_some fuel phi fx gamma slope : forall alpha a,
  C11_backtrack F fuel phi fx gamma slope alpha = Some a ->
  exists c, C11_backtrack_count F fuel phi fx gamma slope alpha = Some c /\ a = C11_pow (C11_half F) c * alpha.
Proof. induction fuel as [|k IH]; intros alpha a H; cbn in H; [discriminate|]. cbn [C11_backtrack_count].
  destruct (C11_armijo_ok F phi fx gamma slope alpha).
  - injection H as <-. exists O. split; [reflexivity|]. cbn. ring.
  - destruct (IH _ _ H) as [c [-> ->]]. exists (S c). split; [reflexivity|]. cbn. ring. Qed.

(* the complete specification of the line search as coded, for ANY loss: the accepted alpha passes the Armijo test, lies in
   [0,1], equals 2^-c for the returned number c of halvings, and is the FIRST success (alpha = 1 or 2*alpha was rejected) *)
Lemma C11_backtrack_spec fuel phi fx gamma slope a :
  C11_backtrack F fuel phi fx gamma slope 1 = Some a ->
  C11_armijo_ok F phi fx gamma slope a = true /\ 0 <= a /\ a <= 1
  /\ (a = 1 \/ C11_armijo_ok F phi fx gamma slope (a + a) = false)
  /\ exists c, C11_backtrack_count F fuel phi fx gamma slope 1 = Some c /\ a = C11_pow (C11_half F) c.
Proof. intros H.
  destruct (C11_backtrack_range _ _ _ _ _ _ _ (one_nonneg F) (k_refl F 1) H) as [A0 A1].
  destruct (C11_backtrack_count_some _ _ _ _ _ _ _ H) as [c [Hc Ec]].
  split; [exact (C11_backtrack_sound _ _ _ _ _ _ _ H)|]. split; [exact A0|]. split; [exact A1|].
  split; [exact (C11_backtrack_first _ _ _ _ _ _ _ H)|].
  exists c. split; [exact Hc|]. rewrite Ec. ring. Qed.

(* the step parameter actually used (model of the selection before the loop; coq/gen/C11_Equiv.v ties it to the source):
   an explicit non-zero mu wins; mu = None or mu = 0 fall back to 3/(2 sqrt n), n from the start point if given, else from the tomography;
   without either the call fails *)
Lemma C11_default_mu_spec (sqrtn : nat -> F) :
  (forall m sl qn, m <> 0 -> C11_default_mu F sqrtn (Some m) sl qn = Some m)
  /\ (forall sl qn, C11_default_mu F sqrtn (Some 0) sl qn = C11_default_mu F sqrtn None sl qn)
  /\ (forall n qn, C11_default_mu F sqrtn None (Some n) qn = Some (C11_mu_formula F sqrtn n))
  /\ (forall n, C11_default_mu F sqrtn None None (Some n) = Some (C11_mu_formula F sqrtn n))
  /\ C11_default_mu F sqrtn None None None = None.
Proof. unfold C11_default_mu. split; [|split; [|split; [|split]]]; try reflexivity.
  - intros m sl qn Hm. destruct (keqb F m 0) eqn:E; [|reflexivity]. apply keqb_spec in E. contradiction.
  - intros sl qn. assert (E : keqb F 0 0 = true) by now apply keqb_spec. now rewrite E. Qed.
(* with sqrtn n * sqrtn n = n (as a field element) and n > 0 the default mu is positive and non-zero, as T1-T5 require *)
Lemma C11_mu_formula_pos (sqrtn : nat -> F) n : 0 <= sqrtn n -> sqrtn n <> 0 ->
  0 <= C11_mu_formula F sqrtn n /\ C11_mu_formula F sqrtn n <> 0.
Proof. intros Hs Hs0. unfold C11_mu_formula.
  assert (H2 : (1 + 1) * sqrtn n <> 0).
  { intros E. apply Hs0. replace (sqrtn n) with (((1 + 1) * sqrtn n) / (1 + 1)) by (field; apply C11_two_neq0). rewrite E. field. apply C11_two_neq0. }
  assert (H3 : 0 <= 1 + 1 + 1) by (apply add_nonneg; [apply C11_two_pos|apply one_nonneg]).
  assert (Hd : 0 <= (1 + 1) * sqrtn n) by (apply k_mul; [apply C11_two_pos|exact Hs]).
  split.
  - replace ((1 + 1 + 1) / ((1 + 1) * sqrtn n)) with ((1 + 1 + 1) * (1 / ((1 + 1) * sqrtn n))) by (field; repeat split; first [exact Hs0 | apply C11_two_neq0 | exact H2]).
    apply k_mul; [exact H3|]. apply inv_nonneg; assumption.
  - intros E. assert (Z : 1 + 1 + 1 = 0).
    { replace (1 + 1 + 1) with (((1 + 1 + 1) / ((1 + 1) * sqrtn n)) * ((1 + 1) * sqrtn n)) by (field; repeat split; first [exact Hs0 | apply C11_two_neq0 | exact H2]). rewrite E. ring. }
    apply (not_le_0_m1 F). replace (- (1)) with (1 + 1) by (replace (1 + 1) with ((1 + 1 + 1) - 1) by ring; rewrite Z; ring). apply C11_two_pos. Qed.

Section Decrease.
Variables (n : nat) (C : vec -> Prop) (P : vec -> vec) (f : vec -> F) (g : vec -> vec) (mu gamma : F).
Hypothesis Hmu0 : mu <> 0.
Hypothesis Hmu : 0 <= mu.
Hypothesis Hgamma : 0 <= gamma.
Hypothesis HP : C11_obtuse F n C P.

(* T2: an accepted Armijo step decreases the loss by at least gamma*alpha*mu*|y|^2 *)
Lemma C11_armijo_decrease x alpha : C x -> 0 <= alpha ->
  let y := C11_dir F P g mu x in
  C11_armijo_ok F (C11_phi F f x y) (f x) gamma (C11_slope F n g x y) alpha = true ->
  f (C11_point F x y alpha) <= f x - C11_decrease F n mu gamma alpha y.
Proof. intros Cx Ha y H. apply k_leb in H. unfold C11_phi, C11_slope in H.
  apply (k_trans F _ _ _ H). pose proof (C11_descent_direction n C P g mu Hmu0 Hmu HP x Cx) as D. cbv zeta in D. fold y in D.
  rewrite dot_comm in D. unfold C11_decrease.
  assert (G : 0 <= gamma * alpha) by now apply k_mul.
  pose proof (mul_le_compat_nonneg F _ _ _ G D) as M.
  apply (C11_le_by _ _ _ _ M). ring. Qed.

Lemma C11_step_feasible x alpha : C11_convex_set F C -> C x -> 0 <= alpha -> alpha <= 1 ->
  C (C11_point F x (C11_dir F P g mu x) alpha).
Proof. intros Hc Cx H0 H1. unfold C11_point, C11_dir. apply Hc; try assumption. apply HP. Qed.

(* T3: along a whole run every iterate is feasible and the loss never increases (induction over the iterations) *)
Definition C11_run_inv (xs : list vec) : Prop := Forall C xs /\ C11_nonincreasing F (map f xs).

Lemma C11_body_props sq eps mode h fuel x errs o : C11_convex_set F C -> C x ->
  C11_body F sq n f g gamma eps mode h fuel x (C11_dir F P g mu x) errs = Some o ->
  C (io_x o) /\ f (io_x o) <= f x - C11_decrease F n mu gamma (io_alpha o) (C11_dir F P g mu x)
  /\ 0 <= io_alpha o /\ io_alpha o <= 1.
Proof. intros Hc Cx H. unfold C11_body, C11_body_ray in H.
  destruct (C11_backtrack F fuel _ _ _ _ 1) as [a|] eqn:Ea; [|discriminate].
  destruct (C11_backtrack_count F fuel _ _ _ _ 1) as [c|]; [|discriminate]. injection H as <-. cbn.
  destruct (C11_backtrack_range _ _ _ _ _ _ _ (one_nonneg F) (k_refl F 1) Ea) as [A0 A1].
  pose proof (C11_backtrack_sound _ _ _ _ _ _ _ Ea) as Ok.
  repeat split; try assumption.
  - now apply C11_step_feasible.
  - now apply C11_armijo_decrease. Qed.

Lemma C11_loop_inv sq eps mode h fuel : forall rem k xs errs xs' errs' k' w, C11_convex_set F C ->
  C11_run_inv xs ->
  C11_loop F sq n f g P mu gamma eps mode h fuel rem k xs errs = C11_Done xs' errs' k' w ->
  C11_run_inv xs'.
Proof. induction rem as [|r IH]; intros k xs errs xs' errs' k' w Hc [HC Hm] H; cbn [C11_loop] in H; [discriminate|].
  destruct xs as [|x t]; [discriminate|].
  destruct (C11_body F sq n f g gamma eps mode h fuel x (C11_dir F P g mu x) errs) as [o|] eqn:Eb; [|discriminate].
  assert (Cx : C x) by now inversion HC.
  destruct (C11_body_props _ _ _ _ _ _ _ _ Hc Cx Eb) as [Co [Hd [A0 A1]]].
  assert (Hle : f (io_x o) <= f x).
  { apply (k_trans F _ _ _ Hd). apply (proj2 (le_sub F _ _)).
    replace (f x - (f x - C11_decrease F n mu gamma (io_alpha o) (C11_dir F P g mu x)))
      with (C11_decrease F n mu gamma (io_alpha o) (C11_dir F P g mu x)) by ring.
    unfold C11_decrease. apply k_mul; [apply k_mul; [now apply k_mul|exact Hmu]|apply C11_nrm2_nonneg]. }
  assert (Inv' : C11_run_inv (io_x o :: x :: t)).
  { split; [now constructor|]. cbn [map C11_nonincreasing]. split; [exact Hle|exact Hm]. }
  destruct (io_continue o).
  - destruct r as [|r'].
    + injection H as <- _ _ _. exact Inv'.
    + eapply IH; [exact Hc|exact Inv'|exact H].
  - injection H as <- _ _ _. exact Inv'. Qed.

Lemma C11_optimize_inv sq eps mode h fuel max_iteration x0 xs errs k w : C11_convex_set F C -> C x0 ->
  C11_optimize F sq n f g P mu gamma eps mode h fuel max_iteration x0 = C11_Done xs errs k w ->
  Forall C xs /\ C11_nonincreasing F (map f xs).
Proof. intros Hc Cx0 H. unfold C11_optimize in H. eapply C11_loop_inv; [exact Hc| |exact H].
  split; [constructor; [exact Cx0|constructor]|exact I]. Qed.

Lemma C11_nonincreasing_last (l : list F) a d : C11_nonincreasing F (a :: l) -> a <= last (a :: l) d.
Proof. revert a. induction l as [|b t IH]; intros a H; [apply k_refl|].
  destruct H as [H1 H2]. apply (k_trans F _ _ _ H1). change (last (a :: b :: t) d) with (last (b :: t) d). now apply IH. Qed.
End Decrease.

(* ------------------------------------------------------------------ squared-error loss *)
Section Quadratic.
Variables (m n : nat) (A : @mat F) (b q : vec).
Notation f := (C11_sq_loss F m n A b q).
Notation g := (C11_sq_grad F m n A b q).
Notation r := (C11_resid F m n A b q).

Lemma C11_resid_shift x d i : r (vadd x d) i = r x i + mv n A d i.
Proof. unfold C11_resid. rewrite mv_vadd. unfold vadd. ring. Qed.
Lemma C11_grad_dot x d : dot n (g x) d = C11_two F * dot m (r x) (mv n A d).
Proof. unfold C11_sq_grad, dot, mv.
  rewrite (sumn_ext n _ (fun a => C11_two F * sumn m (fun i => A i a * r x i * d a))).
  2:{ intros a _. rewrite sumn_scale_r. ring. }
  rewrite sumn_scale_l. f_equal. rewrite sumn_swap. apply sumn_ext; intros i _.
  rewrite <- sumn_scale_l. apply sumn_ext; intros; ring. Qed.
(* exact second-order expansion:  f(x + d) = f x + <g x, d> + |A d|^2 *)
Lemma C11_sq_expansion x d : f (vadd x d) = f x + dot n (g x) d + C11_nrm2 F m (mv n A d).
Proof. rewrite C11_grad_dot. unfold C11_sq_loss, C11_nrm2, dot, C11_two.
  rewrite (sumn_ext m _ (fun i => r x i * r x i + (1 + 1) * (r x i * mv n A d i) + mv n A d i * mv n A d i)).
  2:{ intros i _. rewrite C11_resid_shift. ring. }
  rewrite !sumn_add, sumn_scale_l. reflexivity. Qed.
(* T6: first-order convexity of the squared-error loss, outright *)
Lemma C11_sq_convex : C11_first_order_convex F n f g.
Proof. intros x z. apply (proj2 (le_sub F _ _)).
  assert (E : f z = f (vadd x (vsub z x))).
  { unfold C11_sq_loss, C11_nrm2. apply dot_ext; intros i _; unfold C11_resid;
      (f_equal; f_equal; apply sumn_ext; intros j _; unfold vadd, vsub; f_equal; ring). }
  rewrite E, C11_sq_expansion.
  replace (f x + dot n (g x) (vsub z x) + C11_nrm2 F m (mv n A (vsub z x)) - (f x + dot n (g x) (vsub z x)))
    with (C11_nrm2 F m (mv n A (vsub z x))) by ring. apply C11_nrm2_nonneg. Qed.

(* Cauchy-Schwarz over an ordered field (no square roots):  <a,b>^2 <= |a|^2 |b|^2 *)
Lemma C11_nrm2_zero k (v : vec) : C11_nrm2 F k v = 0 -> forall i, (i < k)%nat -> v i = 0.
Proof. induction k as [|k IH]; intros H i Hi; [lia|]. unfold C11_nrm2, dot in H. cbn [sumn] in H.
  assert (N : 0 <= sumn k (fun i => v i * v i)) by (apply C11_sumn_nonneg; intros; apply sqr_nonneg).
  assert (Z : sumn k (fun i => v i * v i) = 0 /\ v k * v k = 0).
  { pose proof (sqr_nonneg F (v k)) as S. split; apply (k_antisym F); try assumption.
    - rewrite <- H. apply (proj2 (le_sub F _ _)). replace (sumn k (fun i0 => v i0 * v i0) + v k * v k - sumn k (fun i0 => v i0 * v i0)) with (v k * v k) by ring. exact S.
    - rewrite <- H. apply (proj2 (le_sub F _ _)). replace (sumn k (fun i0 => v i0 * v i0) + v k * v k - v k * v k) with (sumn k (fun i0 => v i0 * v i0)) by ring. exact N. }
  destruct Z as [Z1 Z2]. destruct (Nat.eq_dec i k) as [->|Hne].
  - apply (sum_sqr_zero F (v k) 0). rewrite Z2. ring.
  - apply IH; [exact Z1|lia]. Qed.
Lemma C11_cauchy_schwarz k (a c : vec) : dot k a c * dot k a c <= C11_nrm2 F k a * C11_nrm2 F k c.
Proof. set (p := C11_nrm2 F k c). set (s := dot k a c).
  destruct (keqb F p 0) eqn:Ep.
  - apply keqb_spec in Ep. assert (Z : s = 0).
    { unfold s, dot. apply sumn_zero'. intros i Hi. rewrite (C11_nrm2_zero k c Ep i Hi). ring. }
    rewrite Z, Ep. apply C11_le_refl_eq. ring.
  - assert (Hp0 : p <> 0). { intros E. rewrite E in Ep. unfold keqb in Ep. rewrite (proj2 (k_leb F 0 0) (k_refl F 0)) in Ep. discriminate. }
    assert (Hp : 0 <= p) by apply C11_nrm2_nonneg.
    apply (proj2 (le_sub F _ _)). apply (C11_cancel_pos p); try assumption.
    assert (E : p * (C11_nrm2 F k a * p - s * s) = C11_nrm2 F k (fun i => p * a i - s * c i)).
    { unfold C11_nrm2 at 2. unfold dot.
      rewrite (sumn_ext k _ (fun i => p * p * (a i * a i) - (1 + 1) * p * s * (a i * c i) + s * s * (c i * c i))) by (intros; ring).
      rewrite sumn_add, sumn_sub, !sumn_scale_l. fold (dot k a a) (dot k a c) (dot k c c).
      fold (C11_nrm2 F k a) (C11_nrm2 F k c). fold p s. ring. }
    rewrite E. apply C11_nrm2_nonneg. Qed.
(* curvature:  |A d|^2 <= |A|_F^2 |d|^2,  i.e.  2|A d|^2 <= lambda |d|^2  with lambda = 2 |A|_F^2 *)
Lemma C11_sq_curvature d : C11_two F * C11_nrm2 F m (mv n A d) <= C11_sq_lambda F m n A * C11_nrm2 F n d.
Proof. unfold C11_sq_lambda. replace (C11_two F * inner m n A A * C11_nrm2 F n d) with (C11_two F * (inner m n A A * C11_nrm2 F n d)) by ring.
  apply mul_le_compat_nonneg; [apply C11_two_pos|]. unfold inner, C11_nrm2 at 1, dot.
  rewrite <- sumn_scale_r. apply (proj2 (le_sub F _ _)). rewrite <- sumn_sub. apply C11_sumn_nonneg. intros i _.
  apply (proj1 (le_sub F _ _)). exact (C11_cauchy_schwarz n (A i) d). Qed.

(* T7: for the squared-error loss the Armijo test holds for every  0 <= alpha  with  alpha*lambda <= 2(1-gamma)mu,
   provided the direction satisfies <g,y> <= -mu|y|^2 (which T1 guarantees) and gamma <= 1 *)
Lemma C11_sq_armijo_holds mu gamma x y alpha : 0 <= alpha -> gamma <= 1 ->
  dot n (g x) y <= - (mu * C11_nrm2 F n y) ->
  alpha * C11_sq_lambda F m n A <= C11_two F * (1 - gamma) * mu ->
  C11_armijo_ok F (C11_phi F f x y) (f x) gamma (C11_slope F n g x y) alpha = true.
Proof. intros Ha Hg1 Hd Hl. apply k_leb. unfold C11_phi, C11_point, C11_slope. rewrite C11_sq_expansion.
  rewrite C11_dot_vscale_r, (dot_comm n y).
  assert (E : C11_nrm2 F m (mv n A (vscale alpha y)) = alpha * alpha * C11_nrm2 F m (mv n A y)).
  { unfold C11_nrm2, dot. rewrite <- sumn_scale_l. apply sumn_ext; intros i _. rewrite mv_vscale. unfold vscale. ring. }
  rewrite E. set (s := dot n (g x) y) in *. set (c := C11_nrm2 F m (mv n A y)). set (yy := C11_nrm2 F n y) in *.
  apply (proj2 (le_sub F _ _)).
  replace (f x + gamma * alpha * s - (f x + alpha * s + alpha * alpha * c)) with (alpha * (- ((1 - gamma) * s) - alpha * c)) by ring.
  apply k_mul; [exact Ha|].
  apply (C11_cancel_pos (C11_two F)); [apply C11_two_pos|apply C11_two_neq0|].
  pose proof (C11_sq_curvature y) as Cv. fold c yy in Cv.
  pose proof (mul_le_compat_nonneg F _ _ _ Ha Cv) as S1.
  assert (Hyy : 0 <= yy) by apply C11_nrm2_nonneg.
  pose proof (mul_le_compat_nonneg F _ _ _ Hyy Hl) as S2.
  assert (Hg : 0 <= 1 - gamma) by now apply (proj1 (le_sub F _ _)).
  assert (G2 : 0 <= C11_two F * (1 - gamma)) by (apply k_mul; [apply C11_two_pos|exact Hg]).
  pose proof (mul_le_compat_nonneg F _ _ _ G2 Hd) as S3.
  apply (C11_le_by3 _ _ _ _ _ _ _ _ S1 S2 S3). ring. Qed.

(* the inner loop terminates: K halvings suffice as soon as 2^-K * lambda <= 2(1-gamma)mu *)
Lemma C11_sq_backtrack_terminates mu gamma x y K : 0 <= gamma -> gamma <= 1 ->
  dot n (g x) y <= - (mu * C11_nrm2 F n y) ->
  C11_pow (C11_half F) K * C11_sq_lambda F m n A <= C11_two F * (1 - gamma) * mu ->
  exists a, C11_backtrack F (S K) (C11_phi F f x y) (f x) gamma (C11_slope F n g x y) 1 = Some a
    /\ 0 <= a /\ a <= 1
    /\ (a = 1 \/ ~ ((a + a) * C11_sq_lambda F m n A <= C11_two F * (1 - gamma) * mu)).
Proof. intros Hg0 Hg1 Hd HK.
  set (good := fun a => 0 <= a /\ a * C11_sq_lambda F m n A <= C11_two F * (1 - gamma) * mu).
  assert (Hgood : forall a, good a -> C11_armijo_ok F (C11_phi F f x y) (f x) gamma (C11_slope F n g x y) a = true).
  { intros a [H0 H1]. now apply (C11_sq_armijo_holds mu). }
  assert (Hpow : forall k, 0 <= C11_pow (C11_half F) k).
  { induction k as [|k IH]; cbn; [apply one_nonneg|apply k_mul; [apply C11_half_nonneg|exact IH]]. }
  destruct (C11_backtrack_terminates _ _ _ _ good Hgood K 1) as [a Ea].
  { split; [replace (C11_pow (C11_half F) K * 1) with (C11_pow (C11_half F) K) by ring; apply Hpow|].
    replace (C11_pow (C11_half F) K * 1) with (C11_pow (C11_half F) K) by ring. exact HK. }
  exists a. split; [exact Ea|].
  destruct (C11_backtrack_range _ _ _ _ _ _ _ (one_nonneg F) (k_refl F 1) Ea) as [A0 A1].
  repeat split; try assumption.
  destruct (C11_backtrack_first _ _ _ _ _ _ _ Ea) as [->|Hf]; [now left|right].
  intros Hle. rewrite Hgood in Hf; [discriminate|]. split; [now apply add_nonneg|exact Hle]. Qed.
End Quadratic.

(* ------------------------------------------------------------------ universal gap from a diameter bound *)
Lemma C11_sq_le_imp a r : 0 <= r -> a * a <= r * r -> a <= r.
Proof. intros Hr H. destruct (k_total F a r) as [G|G]; [exact G|].
  destruct (keqb F (a + r) 0) eqn:E.
  - apply keqb_spec in E. assert (Ea : a = - r) by (replace a with ((a + r) - r) by ring; rewrite E; ring).
    rewrite Ea. apply (k_trans F _ 0); [now apply opp_nonpos|exact Hr].
  - assert (Hs0 : a + r <> 0). { intros Z. rewrite Z in E. unfold keqb in E. rewrite (proj2 (k_leb F 0 0) (k_refl F 0)) in E. discriminate. }
    assert (Hs : 0 <= a + r). { apply add_nonneg; [apply (k_trans F _ r); assumption|exact Hr]. }
    apply (proj2 (le_sub F _ _)). apply (C11_cancel_pos (a + r)); try assumption.
    replace ((a + r) * (r - a)) with (r * r - a * a) by ring. now apply (proj1 (le_sub F _ _)). Qed.

Section Universal.
Variables (n : nat) (C : vec -> Prop) (P : vec -> vec) (f : vec -> F) (g : vec -> vec) (mu : F).
Hypothesis Hmu0 : mu <> 0.
Hypothesis Hmu : 0 <= mu.
Hypothesis HP : C11_obtuse F n C P.
Hypothesis Hconv : C11_first_order_convex F n f g.
(* if every feasible point is within distance^2 D2 of the trial point x + y = P(x - g/mu), and r >= |y| sqrt(D2), then
   NO feasible point beats x by more than  -<g,y> + mu r  *)
Lemma C11_universal_gap x D2 r :
  let y := C11_dir F P g mu x in
  (forall z, C z -> C11_nrm2 F n (vsub (vsub z x) y) <= D2) ->
  0 <= r -> C11_nrm2 F n y * D2 <= r * r ->
  forall z, C z -> f x - f z <= - dot n (g x) y + mu * r.
Proof. intros y HD Hr Hrr z Cz.
  pose proof (C11_gap n C P f g mu Hmu0 Hmu HP Hconv x z Cz) as G. unfold C11_gap_bound in G. fold y in G.
  set (w := vsub (vsub z x) y) in *.
  assert (Hyw : dot n y w <= r).
  { apply C11_sq_le_imp; [exact Hr|]. apply (k_trans F _ _ _ (C11_cauchy_schwarz n y w)).
    apply (k_trans F _ (C11_nrm2 F n y * D2)); [|exact Hrr].
    apply mul_le_compat_nonneg; [apply C11_nrm2_nonneg|]. now apply HD. }
  pose proof (mul_le_compat_nonneg F _ _ _ Hmu Hyw) as S.
  apply (C11_le_by2 _ _ _ _ _ _ G S). ring. Qed.
End Universal.

(* ------------------------------------------------------------------ a projection of the WRONG metric breaks T4
   n = 2, C = { z | 0 <= z_0 }, inner product <x, M y> with M = [[2,1],[1,2]] (= I + 1 1^T, the metric a 3-outcome POVM
   variable inherits from its stacked full vector), P = nearest point of C in that metric,
   f z = (z_0 + 1)^2 + (z_1 - 1)^2.  The iteration is stationary at x = (0, 1/2) although z = (0, 1) is feasible and better. *)
Section WrongMetric.
Let two := C11_two F.
Let half := C11_half F.
Definition C11_wm_M : @mat F := fun i j => if Nat.eqb i j then two else 1.
Definition C11_wm_C : vec -> Prop := fun z => 0 <= z 0%nat.
Definition C11_wm_P : vec -> vec := fun u =>
  if kleb F 0 (u 0%nat) then u else fun i => match i with O => 0 | S O => u 1%nat + half * u 0%nat | _ => u i end.
Definition C11_wm_A : @mat F := fun i j => if Nat.eqb i j then 1 else 0.
Definition C11_wm_b : vec := fun _ => 0.
Definition C11_wm_q : vec := fun i => match i with O => - (1) | _ => 1 end.
Definition C11_wm_x : vec := fun i => match i with O => 0 | _ => half end.
Definition C11_wm_z : vec := fun i => match i with O => 0 | _ => 1 end.

Lemma C11_wm_half2 : half + half = 1.
Proof. unfold half, C11_half. field. apply C11_two_neq0. Qed.
Lemma C11_wm_convex : C11_convex_set F C11_wm_C.
Proof. intros x y t Hx Hy H0 H1. unfold C11_wm_C, vadd, vscale, vsub in *.
  replace (x 0%nat + t * (y 0%nat - x 0%nat)) with ((1 - t) * x 0%nat + t * y 0%nat) by ring.
  apply add_nonneg; apply k_mul; try assumption. now apply (proj1 (le_sub F _ _)). Qed.
Lemma C11_wm_obtuse : C11_obtuse_ip F (C11_ipM F 2 C11_wm_M) C11_wm_C C11_wm_P.
Proof. intros u. unfold C11_wm_P. destruct (kleb F 0 (u 0%nat)) eqn:E.
  - split; [now apply k_leb|]. intros z _. apply C11_le_refl_eq.
    unfold C11_ipM, dot, mv, vsub. cbn [sumn]. ring.
  - split; [unfold C11_wm_C; apply k_refl|]. intros z Cz. destruct (leb_false_lt F _ _ E) as [Hu _].
    unfold C11_wm_C in Cz. unfold C11_ipM, dot, mv, vsub, C11_wm_M. cbn [sumn Nat.eqb].
    replace (_ + _) with ((1 + half) * (u 0%nat * z 0%nat)).
    2:{ unfold two, half, C11_two, C11_half. field. apply C11_two_neq0. }
    apply C11_mul_nonneg_nonpos.
    + apply add_nonneg; [apply one_nonneg|apply C11_half_nonneg].
    + replace (u 0%nat * z 0%nat) with (z 0%nat * u 0%nat) by ring. now apply C11_mul_nonneg_nonpos. Qed.
Lemma C11_wm_stationary :
  veq 2 (C11_dir F C11_wm_P (C11_sq_grad F 2 2 C11_wm_A C11_wm_b C11_wm_q) 1 C11_wm_x) vzero.
Proof.
  assert (G0 : C11_sq_grad F 2 2 C11_wm_A C11_wm_b C11_wm_q C11_wm_x 0%nat = two).
  { unfold C11_sq_grad, C11_resid, mv, C11_wm_A, C11_wm_b, C11_wm_q, C11_wm_x. cbn [sumn Nat.eqb]. unfold two, C11_two. ring. }
  assert (G1 : C11_sq_grad F 2 2 C11_wm_A C11_wm_b C11_wm_q C11_wm_x 1%nat = - (1)).
  { unfold C11_sq_grad, C11_resid, mv, C11_wm_A, C11_wm_b, C11_wm_q, C11_wm_x. cbn [sumn Nat.eqb].
    fold half. transitivity (C11_two F * (half - 1)); [ring|]. transitivity ((half + half) - 1 - 1); [unfold C11_two; ring|]. rewrite C11_wm_half2. ring. }
  assert (E : kleb F 0 (vsub C11_wm_x (C11_vdiv F (C11_sq_grad F 2 2 C11_wm_A C11_wm_b C11_wm_q C11_wm_x) 1) 0%nat) = false).
  { unfold vsub, C11_vdiv. rewrite G0. cbn [C11_wm_x]. destruct (kleb F 0 (0 - two / 1)) eqn:K; [|reflexivity].
    exfalso. apply k_leb in K. apply (not_le_0_m1 F).
    assert (T : 0 <= - two) by (replace (- two) with (0 - two / 1) by (field; apply one_neq_zero); exact K).
    apply (k_trans F _ _ _ T). apply C11_le_opp. unfold two, C11_two.
    apply (proj2 (le_sub F _ _)). replace (1 + 1 - 1) with 1 by ring. apply one_nonneg. }
  intros i Hi. unfold C11_dir, C11_wm_P. rewrite E. unfold vsub at 1. unfold vzero.
  destruct i as [|[|i]]; [| |lia].
  - cbn [C11_wm_x]. ring.
  - unfold vsub, C11_vdiv. rewrite G0, G1. cbn [C11_wm_x]. fold half.
    transitivity (1 - (half + half)); [unfold two, C11_two; field; apply one_neq_zero|].
    rewrite C11_wm_half2. ring. Qed.
Lemma C11_wm_not_optimal :
  ~ (C11_sq_loss F 2 2 C11_wm_A C11_wm_b C11_wm_q C11_wm_x <= C11_sq_loss F 2 2 C11_wm_A C11_wm_b C11_wm_q C11_wm_z).
Proof. intros H.
  assert (E1 : C11_sq_loss F 2 2 C11_wm_A C11_wm_b C11_wm_q C11_wm_x = 1 + half * half).
  { unfold C11_sq_loss, C11_nrm2, dot, C11_resid, mv, C11_wm_A, C11_wm_b, C11_wm_q, C11_wm_x. cbn [sumn Nat.eqb]. fold half.
    transitivity (1 + (half - 1) * (half - 1)); [ring|].
    transitivity (1 + (half - (half + half)) * (half - (half + half))); [rewrite C11_wm_half2; ring|ring]. }
  assert (E2 : C11_sq_loss F 2 2 C11_wm_A C11_wm_b C11_wm_q C11_wm_z = 1).
  { unfold C11_sq_loss, C11_nrm2, dot, C11_resid, mv, C11_wm_A, C11_wm_b, C11_wm_q, C11_wm_z. cbn [sumn Nat.eqb]. ring. }
  rewrite E1, E2 in H. apply (proj1 (le_sub F _ _)) in H. replace (1 - (1 + half * half)) with (- (half * half)) in H by ring.
  assert (Z : half * half = 0).
  { apply (k_antisym F); [|apply sqr_nonneg]. apply C11_le_opp in H. replace (- - (half * half)) with (half * half) in H by ring.
    replace (- 0) with 0 in H by ring. exact H. }
  assert (Hh : half = 0) by (apply (sum_sqr_zero F half 0); rewrite Z; ring).
  apply (one_neq_zero F). rewrite <- C11_wm_half2, Hh. ring. Qed.
(* everything about the witness in one statement: C convex, x and z feasible, P the nearest-point map of C for <., M .>,
   f convex with gradient g, the iteration map of the code (Euclidean gradient step, then P) is stationary at x  -- and z beats x *)
Lemma C11_wm_summary :
  C11_convex_set F C11_wm_C /\ C11_obtuse_ip F (C11_ipM F 2 C11_wm_M) C11_wm_C C11_wm_P
  /\ C11_first_order_convex F 2 (C11_sq_loss F 2 2 C11_wm_A C11_wm_b C11_wm_q) (C11_sq_grad F 2 2 C11_wm_A C11_wm_b C11_wm_q)
  /\ C11_wm_C C11_wm_x /\ C11_wm_C C11_wm_z
  /\ veq 2 (C11_dir F C11_wm_P (C11_sq_grad F 2 2 C11_wm_A C11_wm_b C11_wm_q) 1 C11_wm_x) vzero
  /\ ~ (C11_sq_loss F 2 2 C11_wm_A C11_wm_b C11_wm_q C11_wm_x <= C11_sq_loss F 2 2 C11_wm_A C11_wm_b C11_wm_q C11_wm_z).
Proof. split; [exact C11_wm_convex|]. split; [exact C11_wm_obtuse|]. split; [apply C11_sq_convex|].
  split; [unfold C11_wm_C, C11_wm_x; apply k_refl|]. split; [unfold C11_wm_C, C11_wm_z; apply k_refl|].
  split; [exact C11_wm_stationary|exact C11_wm_not_optimal]. Qed.
End WrongMetric.
End C11_Proofs.
