(* C19 — the analytical error formulas are the exact expectations.  Axiom-free, generic in the ordered field. *)
From Coq Require Import Field Ring Setoid Arith Lia Bool List.
From QV.Core Require Import OF Sums Mat.
From QV.Model Require Import Multinomial C19_Expect C19_ErrFormulas.
From QV.Proofs Require Import C19_Expect.
Import ListNotations.

Section FormulaProofs.
Context (F : OF).
Add Field Fff : (k_field F).
Notation "0" := (c0 F). Notation "1" := (c1 F).
Infix "+" := (cadd F). Infix "*" := (cmul F). Infix "-" := (csub F). Infix "/" := (kdiv F).
Infix "<=" := (kle F). Notation "- x" := (copp F x).
Notation vec := (@vec F). Notation mat := (@mat F).
Notation of_nat := (of_nat F). Notation expect := (expect F). Notation expectL := (expectL F).
Notation dev := (dev F). Notation dev_total := (dev_total F). Notation f_total := (f_total F).
Notation p_total := (p_total F). Notation total_size := (total_size F).
Notation cov_mat := (cov_mat F). Notation dsum := (dsum F). Notation dsum_size := (dsum_size F).
Notation conjugate := (conjugate F).

Lemma div_def x y : x / y = x * kinv F y.
Proof. destruct (k_field F) as [_ _ Hd _]. apply Hd. Qed.

Lemma mmul_congr_l k (A A' B : mat) i j : (forall l, A i l = A' i l) -> mmul k A B i j = mmul k A' B i j.
Proof. intros H. unfold mmul. apply sumn_ext; intros l _. now rewrite H. Qed.
Lemma mmul_congr_r k (A B B' : mat) i j : (forall l, B l j = B' l j) -> mmul k A B i j = mmul k A B' i j.
Proof. intros H. unfold mmul. apply sumn_ext; intros l _. now rewrite H. Qed.

(* ---------- calc_covariance_mat is the exact covariance of the empirical distribution ---------- *)
Theorem cov_mat_exact m p n x y : sumn m p = 1 -> (x < m)%nat -> (y < m)%nat -> (1 <= n)%nat ->
  expect m p n (fun s => dev n p s x * dev n p s y) = cov_mat (of_nat n) p x y.
Proof. intros. unfold C19_ErrFormulas.cov_mat. now apply expect_dev2. Qed.

(* covariance matrix of the stacked empirical distributions of independent schedules *)
Definition cov_of_scheds (ss : list (sched F)) : mat :=
  cov_total F (map (fun s : sched F => let '(m, p, n) := s in (m, of_nat n, p)) ss).

Lemma cov_of_scheds_cons m p n t i j :
  cov_of_scheds ((m, p, n) :: t) i j =
  if Nat.ltb i m then (if Nat.ltb j m then cov_mat (of_nat n) p i j else 0)
  else (if Nat.ltb j m then 0 else cov_of_scheds t (i - m)%nat (j - m)%nat).
Proof. reflexivity. Qed.

Theorem cov_total_exact ss : Forall (valid_sched F) ss -> forall i j,
  expectL ss (fun obs => dev_total ss obs i * dev_total ss obs j) = cov_of_scheds ss i j.
Proof. induction 1 as [|[[m p] n] t [Hp Hn] Ht IH]; intros i j.
  { cbn [C19_Expect.expectL]. rewrite !dev_total_nil. unfold cov_of_scheds. cbn. ring. }
  rewrite cov_of_scheds_cons. cbn [C19_Expect.expectL].
  destruct (Nat.ltb_spec i m) as [Hi|Hi]; destruct (Nat.ltb_spec j m) as [Hj|Hj].
  - rewrite (expect_ext F m p n _ (fun s => dev n p s i * dev n p s j)).
    2:{ intros s _. rewrite (expectL_ext F t _ (fun _ => dev n p s i * dev n p s j)).
        2:{ intros st. rewrite !dev_total_cons.
            destruct (Nat.ltb_spec i m); [|lia]. destruct (Nat.ltb_spec j m); [|lia]. reflexivity. }
        now apply expectL_const. }
    now apply cov_mat_exact.
  - rewrite (expect_ext F m p n _ (fun _ => 0)). { now apply expect_const. }
    intros s _. rewrite (expectL_ext F t _ (fun st => dev n p s i * dev_total t st (j - m)%nat)).
    2:{ intros st. rewrite !dev_total_cons.
        destruct (Nat.ltb_spec i m); [|lia]. destruct (Nat.ltb_spec j m); [lia|]. reflexivity. }
    rewrite expectL_scale, expectL_dev by exact Ht. ring.
  - rewrite (expect_ext F m p n _ (fun _ => 0)). { now apply expect_const. }
    intros s _. rewrite (expectL_ext F t _ (fun st => dev n p s j * dev_total t st (i - m)%nat)).
    2:{ intros st. rewrite !dev_total_cons.
        destruct (Nat.ltb_spec i m); [lia|]. destruct (Nat.ltb_spec j m); [|lia]. ring. }
    rewrite expectL_scale, expectL_dev by exact Ht. ring.
  - rewrite (expect_ext F m p n _ (fun _ => cov_of_scheds t (i - m)%nat (j - m)%nat)). { now apply expect_const. }
    intros s _. rewrite <- IH. apply expectL_ext. intros st. rewrite !dev_total_cons.
    destruct (Nat.ltb_spec i m); [lia|]. destruct (Nat.ltb_spec j m); [lia|]. reflexivity. Qed.

(* ---------- E |M (f - p)|^2 = tr (M Sigma M^T)  for every matrix M ---------- *)
Theorem mse_linear_exact ss k nr (M : mat) : Forall (valid_sched F) ss ->
  expectL ss (fun obs => dot k (mv nr M (dev_total ss obs)) (mv nr M (dev_total ss obs)))
  = mtrace k (conjugate nr M (cov_of_scheds ss)).
Proof. intros Hv. unfold dot, mtrace, C19_ErrFormulas.conjugate.
  rewrite expectL_sumn. apply sumn_ext; intros a _.
  unfold mv at 1 2.
  rewrite (expectL_ext F ss _ (fun obs => sumn nr (fun i => sumn nr (fun j =>
            (M a i * M a j) * (dev_total ss obs i * dev_total ss obs j))))).
  2:{ intros obs. rewrite sumn_mul. apply sumn_ext; intros i _. apply sumn_ext; intros j _. ring. }
  rewrite expectL_sumn.
  unfold mmul, mT.
  rewrite (sumn_ext nr (fun l => sumn nr (fun l0 => M a l0 * cov_of_scheds ss l0 l) * M a l)
                       (fun l => sumn nr (fun l0 => M a l0 * M a l * cov_of_scheds ss l0 l))).
  2:{ intros l _. rewrite <- sumn_scale_r. apply sumn_ext; intros; ring. }
  rewrite sumn_swap. apply sumn_ext; intros i _.
  rewrite expectL_sumn. apply sumn_ext; intros j _.
  rewrite expectL_scale, cov_total_exact by exact Hv. reflexivity. Qed.

(* ---------- the linear estimate  v^ = L (f - b)  and its error ---------- *)
Section Estimator.
Variables (nv nr : nat) (A L : mat) (b v : vec) (ss : list (sched F)).
Hypothesis Hvalid : Forall (valid_sched F) ss.
Hypothesis HLA : meq nv nv (mmul nr L A) mid.                  (* certificate of calc_left_inv *)
Hypothesis Hp : veq nr (p_total ss) (affine F nv A b v).        (* true probabilities = forward model at v *)

Definition est (obs : list (list nat)) : vec := mv nr L (vsub (f_total ss obs) b).

Lemma est_err obs a : (a < nv)%nat -> est obs a - v a = mv nr L (dev_total ss obs) a.
Proof. intros Ha. unfold est.
  assert (E : veq nr (vsub (f_total ss obs) b) (vadd (dev_total ss obs) (mv nv A v))).
  { intros i Hi. unfold vsub, vadd, C19_Expect.dev_total. rewrite (Hp i Hi). unfold C19_ErrFormulas.affine. ring. }
  rewrite (mv_ext nv nr L L _ _ (meq_refl nv nr L) E a Ha).
  rewrite mv_vadd. unfold vadd. rewrite <- mv_mmul.
  rewrite (mv_ext nv nv _ mid v v HLA (veq_refl nv v) a Ha), mv_mid by exact Ha. ring. Qed.

(* var mode: calc_mse_linear_analytical(mode="var") = tr(L Sigma L^T) is the exact MSE of the estimated variables *)
Theorem mse_var_exact :
  expectL ss (fun obs => sqdist F nv (est obs) v) = mse_var F nv nr L (cov_of_scheds ss).
Proof. unfold C19_ErrFormulas.mse_var, C19_ErrFormulas.cov_linear. rewrite <- (mse_linear_exact ss nv nr L Hvalid).
  apply expectL_ext. intros obs. unfold C19_ErrFormulas.sqdist. apply dot_ext; intros a Ha; unfold vsub; now apply est_err. Qed.

(* object ("qoperation") mode: squared error of the stacked vector, with implied entries  c - S var *)
Lemma conj_compose d2 (S : mat) (Sg : mat) :
  mtrace d2 (conjugate nr (mmul nv S L) Sg) = mtrace d2 (conjugate nv S (conjugate nr L Sg)).
Proof. apply mtrace_ext. intros i j _ _. unfold C19_ErrFormulas.conjugate.
  rewrite (mmul_congr_l nr _ (mmul nv S (mmul nr L Sg))) by (intros; apply mmul_assoc).
  rewrite (mmul_congr_r nr _ _ (mmul nv (mT L) (mT S))) by (intros; apply mT_mmul).
  rewrite mmul_assoc.
  rewrite (mmul_congr_r nv _ _ (mmul nv (mmul nr (mmul nr L Sg) (mT L)) (mT S))) by (intros; symmetry; apply mmul_assoc).
  symmetry. apply mmul_assoc. Qed.

Theorem mse_object_exact_thm d2 (S : mat) :
  expectL ss (fun obs => object_sqerr F d2 nv S (vsub (est obs) v))
  = mse_object_exact F d2 nv nr S L (cov_of_scheds ss).
Proof. unfold C19_ErrFormulas.mse_object_exact, C19_ErrFormulas.object_sqerr, C19_ErrFormulas.mse_var, C19_ErrFormulas.cov_linear.
  rewrite expectL_add. f_equal.
  - rewrite <- (mse_linear_exact ss nv nr L Hvalid). apply expectL_ext. intros obs.
    apply dot_ext; intros a Ha; unfold vsub; now apply est_err.
  - rewrite <- conj_compose, <- (mse_linear_exact ss d2 nr (mmul nv S L) Hvalid). apply expectL_ext. intros obs.
    assert (Hx : veq nv (vsub (est obs) v) (mv nr L (dev_total ss obs))) by (intros c Hc; unfold vsub; now apply est_err).
    apply dot_ext; intros a Ha; rewrite mv_mmul; exact (mv_ext d2 nv S S _ _ (meq_refl d2 nv S) Hx a Ha).
  Qed.
End Estimator.

(* ---------- which analytical values are exact ---------- *)
Lemma conj_zero_trace d2 nv (V : mat) : mtrace d2 (conjugate nv (fun _ _ => 0) V) = 0.
Proof. unfold mtrace, C19_ErrFormulas.conjugate, mmul. apply sumn_zero'. intros i _.
  apply sumn_zero'. intros l _. rewrite (sumn_zero' nv) by (intros; ring). ring. Qed.

(* the value computed by calc_mse_linear_analytical is the exact object MSE for QST, POVMT, QPT in every
   parametrisation and for QMPT without the equality constraint; in var mode it is mse_var for all four *)
Theorem mse_analytical_is_object_exact ty on_eq d2 mo nv nr (L Sg : mat) :
  (ty = QMPT -> on_eq = false) ->
  mse_linear_analytical F ty true on_eq d2 nv nr L Sg
  = mse_object_exact F d2 nv nr (implied_S F ty on_eq d2 mo) L Sg.
Proof. intros Hq. unfold C19_ErrFormulas.mse_linear_analytical, C19_ErrFormulas.mse_object_exact, C19_ErrFormulas.implied_S.
  destruct ty, on_eq; cbn [andb]; try reflexivity; try (rewrite conj_zero_trace; ring).
  discriminate (Hq eq_refl). Qed.
Theorem mse_analytical_var_mode ty on_eq d2 nv nr (L Sg : mat) :
  mse_linear_analytical F ty false on_eq d2 nv nr L Sg = mse_var F nv nr L Sg.
Proof. destruct ty; reflexivity. Qed.

(* ---------- MSE of the empirical distributions ---------- *)
Lemma trace_cov_mat m n p : sumn m p = 1 -> mtrace m (cov_mat n p) = (1 - dot m p p) / n.
Proof. intros Hp. unfold mtrace, C19_ErrFormulas.cov_mat, dot.
  rewrite (sumn_ext m _ (fun i => (p i - p i * p i) * kinv F n)).
  2:{ intros i _. rewrite Nat.eqb_refl, div_def. reflexivity. }
  rewrite sumn_scale_r, sumn_sub, Hp, div_def. reflexivity. Qed.

Theorem mse_empi_closed_eq eps nv J m A b v ns :
  (forall j, (j < J)%nat -> sumn m (prob_dists F eps nv m A b v j) = 1) ->
  mse_empi F eps nv J m A b v ns = mse_empi_closed F eps nv J m A b v ns.
Proof. intros H. unfold C19_ErrFormulas.mse_empi, C19_ErrFormulas.mse_empi_closed. apply sumn_ext; intros j Hj.
  now apply trace_cov_mat, H. Qed.

Lemma mtrace_dsum bs : mtrace (dsum_size bs) (dsum bs) = fold_right (fun b acc => mtrace (fst b) (snd b) + acc) 0 bs.
Proof. induction bs as [|[s M] t IH]; cbn [C19_ErrFormulas.dsum_size C19_ErrFormulas.dsum fold_right fst snd]. { reflexivity. }
  unfold mtrace in *. rewrite sumn_app. f_equal.
  - apply sumn_ext; intros i Hi. destruct (Nat.ltb_spec i s); [reflexivity|lia].
  - rewrite <- IH. apply sumn_ext; intros i _. destruct (Nat.ltb_spec (s + i) s); [lia|].
    replace (s + i - s)%nat with i by lia. reflexivity. Qed.

Fixpoint mse_empi_scheds (ss : list (sched F)) : F :=
  match ss with [] => 0 | (m, p, n) :: t => (1 - dot m p p) / of_nat n + mse_empi_scheds t end.

(* E sum_j |f_j - p_j|^2 = sum_j (1 - |p_j|^2) / n_j *)
Theorem mse_empi_exact ss : Forall (valid_sched F) ss ->
  expectL ss (fun obs => dot (total_size ss) (dev_total ss obs) (dev_total ss obs)) = mse_empi_scheds ss.
Proof. intros Hv. unfold dot. rewrite expectL_sumn.
  rewrite (sumn_ext _ _ (fun i => cov_of_scheds ss i i)) by (intros; now apply cov_total_exact).
  clear - Hv. induction Hv as [|[[m p] n] t [Hp Hn] Ht IH]; cbn [C19_Expect.total_size mse_empi_scheds sumn]. { reflexivity. }
  rewrite sumn_app. f_equal.
  - rewrite <- (trace_cov_mat m (of_nat n) p Hp). apply sumn_ext; intros i Hi. rewrite cov_of_scheds_cons.
    destruct (Nat.ltb_spec i m); [reflexivity|lia].
  - rewrite <- IH. apply sumn_ext; intros i _. rewrite cov_of_scheds_cons.
    destruct (Nat.ltb_spec (m + i) m); [lia|]. replace (m + i - m)%nat with i by lia. reflexivity. Qed.

(* ---------- direct sum: blocks on the diagonal, zero elsewhere ---------- *)
Theorem dsum_block bs1 s M bs2 i j : (i < s)%nat -> (j < s)%nat ->
  dsum (bs1 ++ (s, M) :: bs2) (dsum_size bs1 + i)%nat (dsum_size bs1 + j)%nat = M i j.
Proof. intros Hi Hj. induction bs1 as [|[s1 M1] t IH]; cbn [app C19_ErrFormulas.dsum C19_ErrFormulas.dsum_size Nat.add].
  - destruct (Nat.ltb_spec i s); [|lia]. destruct (Nat.ltb_spec j s); [|lia]. reflexivity.
  - destruct (Nat.ltb_spec (s1 + dsum_size t + i) s1); [lia|]. destruct (Nat.ltb_spec (s1 + dsum_size t + j) s1); [lia|].
    replace (s1 + dsum_size t + i - s1)%nat with (dsum_size t + i)%nat by lia.
    replace (s1 + dsum_size t + j - s1)%nat with (dsum_size t + j)%nat by lia. exact IH. Qed.
Theorem dsum_offblock bs1 s M bs2 i j : (i < s)%nat ->
  (j < dsum_size bs1 \/ dsum_size bs1 + s <= j)%nat ->
  dsum (bs1 ++ (s, M) :: bs2) (dsum_size bs1 + i)%nat j = 0 /\ dsum (bs1 ++ (s, M) :: bs2) j (dsum_size bs1 + i)%nat = 0.
Proof. intros Hi. revert j. induction bs1 as [|[s1 M1] t IH]; intros j Hj; cbn [app C19_ErrFormulas.dsum C19_ErrFormulas.dsum_size Nat.add] in *.
  - destruct (Nat.ltb_spec i s); [|lia]. destruct (Nat.ltb_spec j s); [lia|]. split; reflexivity.
  - destruct (Nat.ltb_spec (s1 + dsum_size t + i) s1); [lia|].
    destruct (Nat.ltb_spec j s1); [split; reflexivity|].
    replace (s1 + dsum_size t + i - s1)%nat with (dsum_size t + i)%nat by lia. apply IH. lia. Qed.

(* ---------- truncate_and_normalize is the identity on a distribution whose entries are 0 or >= eps ---------- *)
Lemma trunc_norm_id eps m row x : (forall y, (y < m)%nat -> row y = 0 \/ eps <= row y) -> sumn m row = 1 ->
  (x < m)%nat -> trunc_norm_row F eps m row x = row x.
Proof. intros H Hs Hx. unfold C19_ErrFormulas.trunc_norm_row.
  assert (E : forall y, (y < m)%nat -> (if flt F (row y) eps then 0 else row y) = row y).
  { intros y Hy. unfold C19_ErrFormulas.flt. destruct (kleb F eps (row y)) eqn:Ek; cbn [negb]; [reflexivity|].
    destruct (H y Hy) as [E0|Hle]; [now rewrite E0|]. apply k_leb in Hle. congruence. }
  rewrite (sumn_ext m _ row E), Hs, E by exact Hx. rewrite div_def.
  replace (kinv F 1) with 1. { ring. }
  destruct (k_field F) as [_ _ _ Hinv]. rewrite <- (Hinv 1) at 1. { ring. } apply one_neq_zero. Qed.

(* ---------- Fisher matrix ---------- *)
Lemma filter_nil {A} (f : A -> bool) l : (forall x, In x l -> f x = false) -> filter f l = [].
Proof. induction l as [|a l IH]; intros H; cbn [filter]; [reflexivity|].
  rewrite (H a (or_introl eq_refl)). apply IH. intros x Hx. apply H. now right. Qed.
Lemma count_lt_zero eps m (p : vec) : (forall x, (x < m)%nat -> eps <= p x) -> count_lt F eps m p = O.
Proof. intros H. unfold C19_ErrFormulas.count_lt. rewrite filter_nil; [reflexivity|].
  intros x Hx. apply in_seq in Hx. unfold C19_ErrFormulas.flt.
  rewrite (proj2 (k_leb F eps (p x))); [reflexivity|]. apply H. lia. Qed.

(* replace_prob_dist does nothing when every probability is at least eps *)
Theorem replace_id eps m p x : (forall y, (y < m)%nat -> eps <= p y) -> (x < m)%nat ->
  replace_prob_dist F eps m p x = p x.
Proof. intros H Hx. unfold C19_ErrFormulas.replace_prob_dist. rewrite count_lt_zero by exact H.
  unfold C19_ErrFormulas.flt. rewrite (proj2 (k_leb F eps (p x)) (H x Hx)). cbn [negb C19_Expect.of_nat].
  rewrite div_def. ring. Qed.

(* score of outcome x for parameter a *)
Definition score (p : vec) (G : mat) (a x : nat) : F := G x a / p x.

(* the loop of calc_fisher_matrix computes  sum_x p_x s_x s_x^T  =  E[ s s^T ] over one draw *)
Theorem fisher_is_expected_score eps m p G a b :
  (forall x, (x < m)%nat -> eps <= p x) -> (forall x, (x < m)%nat -> p x <> 0) ->
  fisher_core F m (replace_prob_dist F eps m p) G a b
  = expect m p 1 (fun s => score p G a (hd O s) * score p G b (hd O s)).
Proof. intros He Hnz. unfold C19_ErrFormulas.fisher_core. cbn [C19_Expect.expect hd]. apply sumn_ext; intros x Hx.
  rewrite replace_id by assumption. unfold score. field. now apply Hnz. Qed.

(* mu_fisher returns that matrix on valid input *)
Theorem mu_fisher_ok eps m p G :
  validate F eps true (map p (seq 0 m)) = MOk tt -> kleb F eps 0 = false ->
  mu_fisher F eps m m p G = MOk (fisher_core F m (replace_prob_dist F eps m p) G).
Proof. intros Hv He. unfold C19_ErrFormulas.mu_fisher. rewrite Hv, Nat.eqb_refl, He. reflexivity. Qed.

(* Fisher information of n independent draws is n times the single-draw matrix *)
Fixpoint score_sum (p : vec) (G : mat) (a : nat) (s : list nat) : F :=
  match s with [] => 0 | z :: t => score p G a z + score_sum p G a t end.

Lemma expect_score_sum m p G a n : sumn m p = 1 -> (forall x, (x < m)%nat -> p x <> 0) ->
  sumn m (fun x => G x a) = 0 -> expect m p n (score_sum p G a) = 0.
Proof. intros Hp Hnz Hg. induction n as [|n IH]; cbn [C19_Expect.expect score_sum]. { reflexivity. }
  rewrite (sumn_ext m _ (fun x => G x a)).
  2:{ intros x Hx. rewrite expect_add, expect_const, IH by exact Hp. unfold score. field. now apply Hnz. }
  exact Hg. Qed.

Theorem fisher_n_draws m p G a b n : sumn m p = 1 -> (forall x, (x < m)%nat -> p x <> 0) ->
  sumn m (fun x => G x a) = 0 -> sumn m (fun x => G x b) = 0 ->
  expect m p n (fun s => score_sum p G a s * score_sum p G b s) = of_nat n * fisher_core F m p G a b.
Proof. intros Hp Hnz Ha Hb. induction n as [|n IH]; cbn [C19_Expect.expect score_sum C19_Expect.of_nat]. { ring. }
  rewrite (sumn_ext m _ (fun x => G x a * G x b / p x + G x a * 0 + G x b * 0 + p x * (of_nat n * fisher_core F m p G a b))).
  2:{ intros x Hx.
      rewrite (expect_ext F m p n _ (fun s => score p G a x * score p G b x + score p G a x * score_sum p G b s
                                             + score p G b x * score_sum p G a s + score_sum p G a s * score_sum p G b s))
        by (intros; ring).
      rewrite !expect_add, !expect_scale, expect_const, IH, !expect_score_sum by assumption.
      unfold score. field. now apply Hnz. }
  rewrite !sumn_add, !sumn_scale_r, Hp. unfold C19_ErrFormulas.fisher_core. ring. Qed.

(* ---------- Cramer-Rao: the inverse (hence the bound) is determined by the certificate ---------- *)
Theorem inverse_unique n (Fm M M' : mat) :
  meq n n (mmul n Fm M) mid -> meq n n (mmul n M' Fm) mid -> meq n n M' M.
Proof. intros H1 H2 i j Hi Hj.
  rewrite <- (mmul_id_r n M' i j Hj).
  rewrite <- (mmul_ext n M' M' _ _ n n (meq_refl n n M') H1 i j Hi Hj).
  rewrite <- mmul_assoc.
  rewrite (mmul_ext n _ mid M M n n H2 (meq_refl n n M) i j Hi Hj).
  now apply mmul_id_l. Qed.
Theorem cr_var_unique n N (Fm M M' : mat) :
  meq n n (mmul n Fm M) mid -> meq n n (mmul n M' Fm) mid -> cr_var F n N M' = cr_var F n N M.
Proof. intros H1 H2. unfold C19_ErrFormulas.cr_var. f_equal. apply mtrace_ext. now apply (inverse_unique n Fm). Qed.

(* ---------- calc_left_inv: certificate => normal equations (the estimate is the least-squares solution) ---------- *)
Theorem left_inv_normal_eq nv nr (A L : mat) :
  meq nv nv (mmul nr L A) mid ->
  meq nr nr (mmul nv A L) (mT (mmul nv A L)) ->
  meq nv nr (mmul nr (mT A) (mmul nv A L)) (mT A).
Proof. intros HLA Hsym i j Hi Hj.
  rewrite (mmul_ext nr (mT A) (mT A) _ _ nv nr (meq_refl nv nr (mT A)) Hsym i j Hi Hj).
  transitivity (mmul nr (mT A) (mmul nv (mT L) (mT A)) i j).
  { unfold mmul at 1 3. apply sumn_ext; intros l _. f_equal. apply mT_mmul. }
  rewrite <- mmul_assoc.
  transitivity (mmul nv (mT (mmul nr L A)) (mT A) i j).
  { unfold mmul at 1 3. apply sumn_ext; intros l _. f_equal. symmetry. apply mT_mmul. }
  transitivity (mmul nv mid (mT A) i j).
  { apply (mmul_ext nv _ mid (mT A) (mT A) nv nr); [|apply meq_refl|exact Hi|exact Hj].
    intros a c Ha Hc. unfold mT. rewrite (HLA c a Hc Ha). unfold mid. rewrite Nat.eqb_sym. reflexivity. }
  now apply mmul_id_l. Qed.

(* ---------- tomography level: what the StandardQTomography methods compute is the exact expectation ---------- *)
Lemma p_total_uniform m (P : nat -> vec) (n : nat -> nat) J : (0 < m)%nat -> forall s i, (i < J * m)%nat ->
  p_total (map (fun j => (m, P j, n j)) (seq s J)) i = P (s + i / m)%nat (i mod m).
Proof. intros Hm. induction J as [|J IH]; intros s i Hi; [lia|]. cbn [seq map C19_Expect.p_total].
  destruct (Nat.ltb_spec i m) as [Hlt|Hge].
  - rewrite Nat.div_small, Nat.mod_small by exact Hlt. now rewrite Nat.add_0_r.
  - rewrite IH by (cbn in Hi; lia).
    replace i with ((i - m) + 1 * m)%nat at 3 4 by lia.
    rewrite Nat.div_add, Nat.mod_add by lia. f_equal. lia. Qed.
Lemma total_size_uniform m (P : nat -> vec) (n : nat -> nat) J s :
  total_size (map (fun j => (m, P j, n j)) (seq s J)) = (J * m)%nat.
Proof. revert s. induction J as [|J IH]; intros s; cbn [seq map C19_Expect.total_size]; [reflexivity|]. rewrite IH. lia. Qed.

Section Tomo.
Variables (eps : F) (nv J m : nat) (A L : mat) (b v : vec) (n : nat -> nat).
Notation raw := (affine F nv A b v).
Hypothesis Hm : (0 < m)%nat.
Hypothesis Hrow : forall j, (j < J)%nat -> sumn m (fun x => raw (j * m + x)%nat) = 1.
Hypothesis Hent : forall j x, (j < J)%nat -> (x < m)%nat -> raw (j * m + x)%nat = 0 \/ eps <= raw (j * m + x)%nat.
Hypothesis Hn : forall j, (j < J)%nat -> (1 <= n j)%nat.
Hypothesis HLA : meq nv nv (mmul (J * m) L A) mid.

Definition tomo_scheds : list (sched F) := map (fun j => (m, prob_dists F eps nv m A b v j, n j)) (seq 0 J).

Lemma prob_dists_raw j x : (j < J)%nat -> (x < m)%nat -> prob_dists F eps nv m A b v j x = raw (j * m + x)%nat.
Proof. intros Hj Hx. unfold C19_ErrFormulas.prob_dists.
  apply (trunc_norm_id eps m (fun x0 => raw (j * m + x0)%nat) x); [intros y Hy; now apply Hent|now apply Hrow|exact Hx]. Qed.
Lemma tomo_scheds_valid : Forall (valid_sched F) tomo_scheds.
Proof. unfold tomo_scheds. apply Forall_forall. intros s Hs. apply in_map_iff in Hs as [j [<- Hj]].
  apply in_seq in Hj. split; [|apply Hn; lia].
  rewrite <- (Hrow j) by lia. apply sumn_ext; intros x Hx. apply prob_dists_raw; [lia|exact Hx]. Qed.
Lemma tomo_scheds_size : total_size tomo_scheds = (J * m)%nat.
Proof. apply total_size_uniform. Qed.
Lemma tomo_scheds_p : veq (J * m) (p_total tomo_scheds) raw.
Proof. intros i Hi. unfold tomo_scheds. rewrite p_total_uniform by assumption. cbn [Nat.add].
  assert (Hq : (i / m < J)%nat) by (apply Nat.div_lt_upper_bound; lia).
  rewrite prob_dists_raw by (try exact Hq; apply Nat.mod_upper_bound; lia).
  f_equal. rewrite (Nat.div_mod_eq i m) at 3. lia. Qed.
Lemma tomo_cov_total_eq :
  tomo_cov_total F eps nv J m A b v (fun j => of_nat (n j)) = cov_of_scheds tomo_scheds.
Proof. unfold C19_ErrFormulas.tomo_cov_total, cov_of_scheds, C19_ErrFormulas.cov_total, tomo_scheds.
  rewrite !map_map. reflexivity. Qed.

Notation Sigma := (tomo_cov_total F eps nv J m A b v (fun j => of_nat (n j))).
Notation estL := (est (J * m)%nat L b tomo_scheds).

(* calc_mse_linear_analytical(mode="var") *)
Theorem tomo_mse_var_exact ty on_eq d2 :
  mse_linear_analytical F ty false on_eq d2 nv (J * m)%nat L Sigma
  = expectL tomo_scheds (fun obs => sqdist F nv (estL obs) v).
Proof. rewrite mse_analytical_var_mode, tomo_cov_total_eq. symmetry.
  apply (mse_var_exact nv (J * m)%nat A L b v tomo_scheds tomo_scheds_valid HLA tomo_scheds_p). Qed.
(* calc_mse_linear_analytical(mode="qoperation"), every case except QMPT with the equality constraint *)
Theorem tomo_mse_qoperation_exact ty on_eq d2 mo : (ty = QMPT -> on_eq = false) ->
  mse_linear_analytical F ty true on_eq d2 nv (J * m)%nat L Sigma
  = expectL tomo_scheds (fun obs => object_sqerr F d2 nv (implied_S F ty on_eq d2 mo) (vsub (estL obs) v)).
Proof. intros Hq. rewrite (mse_analytical_is_object_exact ty on_eq d2 mo) by exact Hq. rewrite tomo_cov_total_eq. symmetry.
  apply (mse_object_exact_thm nv (J * m)%nat A L b v tomo_scheds tomo_scheds_valid HLA tomo_scheds_p). Qed.
(* calc_mse_empi_dists_analytical *)
Theorem tomo_mse_empi_exact :
  mse_empi F eps nv J m A b v (fun j => of_nat (n j))
  = expectL tomo_scheds (fun obs => dot (J * m)%nat (dev_total tomo_scheds obs) (dev_total tomo_scheds obs)).
Proof. rewrite <- tomo_scheds_size, (mse_empi_exact tomo_scheds tomo_scheds_valid).
  unfold C19_ErrFormulas.mse_empi, tomo_scheds.
  assert (G : forall s, (forall j, In j (seq s J) -> (j < J)%nat) ->
     sumn J (fun j => mtrace m (cov_mat (of_nat (n (s + j))) (prob_dists F eps nv m A b v (s + j))))
     = mse_empi_scheds (map (fun j => (m, prob_dists F eps nv m A b v j, n j)) (seq s J))).
  2:{ rewrite <- (G O); [reflexivity|]. intros j Hj. apply in_seq in Hj. lia. }
  clear HLA. generalize J at 1 3 4 as K. induction K as [|K IH]; intros s Hs; cbn [seq map mse_empi_scheds]. { reflexivity. }
  rewrite sumn_S_first, Nat.add_0_r. f_equal.
  - apply trace_cov_mat. assert (Hj : (s < J)%nat) by (apply Hs; now left).
    rewrite <- (Hrow s Hj). apply sumn_ext; intros x Hx. now apply prob_dists_raw.
  - rewrite <- IH by (intros j Hj; apply Hs; now right).
    apply sumn_ext; intros j _. now rewrite Nat.add_succ_comm. Qed.
End Tomo.

(* ---------- helpers ---------- *)
Lemma calc_se_app n l1 l2 : calc_se F n (l1 ++ l2) = calc_se F n l1 + calc_se F n l2.
Proof. unfold C19_ErrFormulas.calc_se. induction l1 as [|xy t IH]; cbn [app fold_right]; [ring|]. rewrite IH. ring. Qed.
Lemma sqdist_zero_iff_same n x : sqdist F n x x = 0.
Proof. unfold C19_ErrFormulas.sqdist, dot, vsub. apply sumn_zero'. intros; ring. Qed.
End FormulaProofs.
