(* C19 — the analytical error formulas are the exact expectations.  Axiom-free, generic in the ordered field. *)
From Coq Require Import Field Ring Setoid Arith Lia Bool List.
From QV.Core Require Import OF Sums Mat Cplx.
From QV.Model Require Import Multinomial C19_Expect C19_ErrFormulas.
From QV.Proofs Require Import C19_Expect.
Import ListNotations.

Section FormulaProofs.
Context (F : OF).
Add Field Fff : (k_field F).
Notation "0" := (c0 F). Notation "1" := (c1 F).
Infix "+" := (cadd F). Infix "*" := (cmul F). Infix "-" := (csub F). Infix "/" := (kdiv F).
Infix "<=" := (kle F). Notation "- x" := (copp F x).
Notation vec := (@vec F). Notation mat := (@mat F).
Notation of_nat := (of_nat F). Notation expect := (expect F). Notation expectL := (expectL F).
Notation dev := (dev F). Notation dev_total := (dev_total F). Notation f_total := (f_total F).
Notation p_total := (p_total F). Notation total_size := (total_size F).
Notation cov_mat := (cov_mat F). Notation dsum := (dsum F). Notation dsum_size := (dsum_size F).
Notation conjugate := (conjugate F).

Lemma div_def x y : x / y = x * kinv F y.
Proof. destruct (k_field F) as [_ _ Hd _]. apply Hd. Qed.

Lemma mmul_congr_l k (A A' B : mat) i j : (forall l, A i l = A' i l) -> mmul k A B i j = mmul k A' B i j.
Proof. intros H. unfold mmul. apply sumn_ext; intros l _. now rewrite H. Qed.
Lemma mmul_congr_r k (A B B' : mat) i j : (forall l, B l j = B' l j) -> mmul k A B i j = mmul k A B' i j.
Proof. intros H. unfold mmul. apply sumn_ext; intros l _. now rewrite H. Qed.

(* ---------- calc_covariance_mat is the exact covariance of the empirical distribution ---------- *)
Theorem cov_mat_exact m p n x y : sumn m p = 1 -> (x < m)%nat -> (y < m)%nat -> (1 <= n)%nat ->
  expect m p n (fun s => dev n p s x * dev n p s y) = cov_mat (of_nat n) p x y.
Proof. intros. unfold C19_ErrFormulas.cov_mat. now apply expect_dev2. Qed.

(* covariance matrix of the stacked empirical distributions of independent schedules *)
Definition cov_of_scheds (ss : list (sched F)) : mat :=
  cov_total F (map (fun s : sched F => let '(m, p, n) := s in (m, of_nat n, p)) ss).

Lemma cov_of_scheds_cons m p n t i j :
  cov_of_scheds ((m, p, n) :: t) i j =
  if Nat.ltb i m then (if Nat.ltb j m then cov_mat (of_nat n) p i j else 0)
  else (if Nat.ltb j m then 0 else cov_of_scheds t (i - m)%nat (j - m)%nat).
Proof. reflexivity. Qed.

Theorem cov_total_exact ss : Forall (valid_sched F) ss -> forall i j,
  expectL ss (fun obs => dev_total ss obs i * dev_total ss obs j) = cov_of_scheds ss i j.
Proof. induction 1 as [|[[m p] n] t [Hp Hn] Ht IH]; intros i j.
  { cbn [C19_Expect.expectL]. rewrite !dev_total_nil. unfold cov_of_scheds. cbn. ring. }
  rewrite cov_of_scheds_cons. cbn [C19_Expect.expectL].
  destruct (Nat.ltb_spec i m) as [Hi|Hi]; destruct (Nat.ltb_spec j m) as [Hj|Hj].
  - rewrite (expect_ext F m p n _ (fun s => dev n p s i * dev n p s j)).
    2:{ intros s _. rewrite (expectL_ext F t _ (fun _ => dev n p s i * dev n p s j)).
        2:{ intros st. rewrite !dev_total_cons.
            destruct (Nat.ltb_spec i m); [|lia]. destruct (Nat.ltb_spec j m); [|lia]. reflexivity. }
        now apply expectL_const. }
    now apply cov_mat_exact.
  - rewrite (expect_ext F m p n _ (fun _ => 0)). { now apply expect_const. }
    intros s _. rewrite (expectL_ext F t _ (fun st => dev n p s i * dev_total t st (j - m)%nat)).
    2:{ intros st. rewrite !dev_total_cons.
        destruct (Nat.ltb_spec i m); [|lia]. destruct (Nat.ltb_spec j m); [lia|]. reflexivity. }
    rewrite expectL_scale, expectL_dev by exact Ht. ring.
  - rewrite (expect_ext F m p n _ (fun _ => 0)). { now apply expect_const. }
    intros s _. rewrite (expectL_ext F t _ (fun st => dev n p s j * dev_total t st (i - m)%nat)).
    2:{ intros st. rewrite !dev_total_cons.
        destruct (Nat.ltb_spec i m); [lia|]. destruct (Nat.ltb_spec j m); [|lia]. ring. }
    rewrite expectL_scale, expectL_dev by exact Ht. ring.
  - rewrite (expect_ext F m p n _ (fun _ => cov_of_scheds t (i - m)%nat (j - m)%nat)). { now apply expect_const. }
    intros s _. rewrite <- IH. apply expectL_ext. intros st. rewrite !dev_total_cons.
    destruct (Nat.ltb_spec i m); [lia|]. destruct (Nat.ltb_spec j m); [lia|]. reflexivity. Qed.

(* ---------- E |M (f - p)|^2 = tr (M Sigma M^T)  for every matrix M ---------- *)
Theorem mse_linear_exact ss k nr (M : mat) : Forall (valid_sched F) ss ->
  expectL ss (fun obs => dot k (mv nr M (dev_total ss obs)) (mv nr M (dev_total ss obs)))
  = mtrace k (conjugate nr M (cov_of_scheds ss)).
Proof. intros Hv. unfold dot, mtrace, C19_ErrFormulas.conjugate.
  rewrite expectL_sumn. apply sumn_ext; intros a _.
  unfold mv at 1 2.
  rewrite (expectL_ext F ss _ (fun obs => sumn nr (fun i => sumn nr (fun j =>
            (M a i * M a j) * (dev_total ss obs i * dev_total ss obs j))))).
  2:{ intros obs. rewrite sumn_mul. apply sumn_ext; intros i _. apply sumn_ext; intros j _. ring. }
  rewrite expectL_sumn.
  unfold mmul, mT.
  rewrite (sumn_ext nr (fun l => sumn nr (fun l0 => M a l0 * cov_of_scheds ss l0 l) * M a l)
                       (fun l => sumn nr (fun l0 => M a l0 * M a l * cov_of_scheds ss l0 l))).
  2:{ intros l _. rewrite <- sumn_scale_r. apply sumn_ext; intros; ring. }
  rewrite sumn_swap. apply sumn_ext; intros i _.
  rewrite expectL_sumn. apply sumn_ext; intros j _.
  rewrite expectL_scale, cov_total_exact by exact Hv. reflexivity. Qed.

(* ---------- the linear estimate  v^ = L (f - b)  and its error ---------- *)
Section Estimator.
Variables (nv nr : nat) (A L : mat) (b v : vec) (ss : list (sched F)).
Hypothesis Hvalid : Forall (valid_sched F) ss.
Hypothesis HLA : meq nv nv (mmul nr L A) mid.                  (* certificate of calc_left_inv *)
Hypothesis Hp : veq nr (p_total ss) (affine F nv A b v).        (* true probabilities = forward model at v *)

Definition est (obs : list (list nat)) : vec := mv nr L (vsub (f_total ss obs) b).

Lemma est_err obs a : (a < nv)%nat -> est obs a - v a = mv nr L (dev_total ss obs) a.
Proof. intros Ha. unfold est.
  assert (E : veq nr (vsub (f_total ss obs) b) (vadd (dev_total ss obs) (mv nv A v))).
  { intros i Hi. unfold vsub, vadd, C19_Expect.dev_total. rewrite (Hp i Hi). unfold C19_ErrFormulas.affine. ring. }
  rewrite (mv_ext nv nr L L _ _ (meq_refl nv nr L) E a Ha).
  rewrite mv_vadd. unfold vadd. rewrite <- mv_mmul.
  rewrite (mv_ext nv nv _ mid v v HLA (veq_refl nv v) a Ha), mv_mid by exact Ha. ring. Qed.

(* var mode: calc_mse_linear_analytical(mode="var") = tr(L Sigma L^T) is the exact MSE of the estimated variables *)
Theorem mse_var_exact :
  expectL ss (fun obs => sqdist F nv (est obs) v) = mse_var F nv nr L (cov_of_scheds ss).
Proof. unfold C19_ErrFormulas.mse_var, C19_ErrFormulas.cov_linear. rewrite <- (mse_linear_exact ss nv nr L Hvalid).
  apply expectL_ext. intros obs. unfold C19_ErrFormulas.sqdist. apply dot_ext; intros a Ha; unfold vsub; now apply est_err. Qed.

(* object ("qoperation") mode: squared error of the stacked vector, with implied entries  c - S var *)
Lemma conj_compose d2 (S : mat) (Sg : mat) :
  mtrace d2 (conjugate nr (mmul nv S L) Sg) = mtrace d2 (conjugate nv S (conjugate nr L Sg)).
Proof. apply mtrace_ext. intros i j _ _. unfold C19_ErrFormulas.conjugate.
  rewrite (mmul_congr_l nr _ (mmul nv S (mmul nr L Sg))) by (intros; apply mmul_assoc).
  rewrite (mmul_congr_r nr _ _ (mmul nv (mT L) (mT S))) by (intros; apply mT_mmul).
  rewrite mmul_assoc.
  rewrite (mmul_congr_r nv _ _ (mmul nv (mmul nr (mmul nr L Sg) (mT L)) (mT S))) by (intros; symmetry; apply mmul_assoc).
  symmetry. apply mmul_assoc. Qed.

Theorem mse_object_exact_thm d2 (S : mat) :
  expectL ss (fun obs => object_sqerr F d2 nv S (vsub (est obs) v))
  = mse_object_exact F d2 nv nr S L (cov_of_scheds ss).
Proof. unfold C19_ErrFormulas.mse_object_exact, C19_ErrFormulas.object_sqerr, C19_ErrFormulas.mse_var, C19_ErrFormulas.cov_linear.
  rewrite expectL_add. f_equal.
  - rewrite <- (mse_linear_exact ss nv nr L Hvalid). apply expectL_ext. intros obs.
    apply dot_ext; intros a Ha; unfold vsub; now apply est_err.
  - rewrite <- conj_compose, <- (mse_linear_exact ss d2 nr (mmul nv S L) Hvalid). apply expectL_ext. intros obs.
    assert (Hx : veq nv (vsub (est obs) v) (mv nr L (dev_total ss obs))) by (intros c Hc; unfold vsub; now apply est_err).
    apply dot_ext; intros a Ha; rewrite mv_mmul; exact (mv_ext d2 nv S S _ _ (meq_refl d2 nv S) Hx a Ha).
  Qed.
End Estimator.

(* ---------- which analytical values are exact ---------- *)
Lemma conj_zero_trace d2 nv (V : mat) : mtrace d2 (conjugate nv (fun _ _ => 0) V) = 0.
Proof. unfold mtrace, C19_ErrFormulas.conjugate, mmul. apply sumn_zero'. intros i _.
  apply sumn_zero'. intros l _. rewrite (sumn_zero' nv) by (intros; ring). ring. Qed.

(* the value computed by calc_mse_linear_analytical (repaired code) is the exact object MSE for all four tomography types in
   every parametrisation; in var mode it is mse_var for all four *)
Theorem mse_analytical_is_object_exact ty on_eq d2 mo nv nr (L Sg : mat) :
  mse_linear_analytical F ty true on_eq d2 mo nv nr L Sg
  = mse_object_exact F d2 nv nr (implied_S F ty on_eq d2 mo) L Sg.
Proof. unfold C19_ErrFormulas.mse_linear_analytical, C19_ErrFormulas.mse_analytical_of_cov, C19_ErrFormulas.mse_object_exact,
    C19_ErrFormulas.implied_S, C19_ErrFormulas.mse_var.
  destruct ty, on_eq; cbn [andb]; try reflexivity; rewrite conj_zero_trace; ring. Qed.
Theorem mse_analytical_var_mode ty on_eq d2 mo nv nr (L Sg : mat) :
  mse_linear_analytical F ty false on_eq d2 mo nv nr L Sg = mse_var F nv nr L Sg.
Proof. destruct ty; reflexivity. Qed.
(* the analytical value only depends on the entries of V inside nv x nv (used to justify the frozen evaluation in Exec) *)
Lemma conjugate_ext r c (X X' V V' : mat) : meq r c X X' -> meq c c V V' -> meq r r (conjugate c X V) (conjugate c X' V').
Proof. intros HX HV. unfold C19_ErrFormulas.conjugate. apply (mmul_ext c _ _ _ _ r r).
  - now apply (mmul_ext c _ _ _ _ r c).
  - intros i j Hi Hj. unfold mT. now apply HX. Qed.
Lemma mse_analytical_of_cov_ext ty mode on_eq d2 mo nv (V V' : mat) : meq nv nv V V' ->
  mse_analytical_of_cov F ty mode on_eq d2 mo nv V = mse_analytical_of_cov F ty mode on_eq d2 mo nv V'.
Proof. intros H. unfold C19_ErrFormulas.mse_analytical_of_cov.
  rewrite (mtrace_ext nv V V' H).
  rewrite (mtrace_ext d2 _ _ (conjugate_ext d2 nv (matS F d2) (matS F d2) V V' (meq_refl _ _ _) H)).
  rewrite (mtrace_ext d2 _ _ (conjugate_ext d2 nv (matS_mp F d2 mo) (matS_mp F d2 mo) V V' (meq_refl _ _ _) H)).
  reflexivity. Qed.
(* the code as it was before fix qmpt-mse-linear-analytical-qoperation agrees with the repaired code everywhere except
   QMPT / qoperation mode / equality constraint *)
Theorem mse_analytical_before_fix_agrees ty mode on_eq d2 mo nv nr (L Sg : mat) :
  (ty = QMPT -> mode = true -> on_eq = true -> False) ->
  mse_linear_analytical_before_fix F ty mode on_eq d2 nv nr L Sg = mse_linear_analytical F ty mode on_eq d2 mo nv nr L Sg.
Proof. intros H. destruct ty; try reflexivity. destruct mode, on_eq; try reflexivity. destruct (H eq_refl eq_refl eq_refl). Qed.

(* ---------- MSE of the empirical distributions ---------- *)
Lemma trace_cov_mat m n p : sumn m p = 1 -> mtrace m (cov_mat n p) = (1 - dot m p p) / n.
Proof. intros Hp. unfold mtrace, C19_ErrFormulas.cov_mat, dot.
  rewrite (sumn_ext m _ (fun i => (p i - p i * p i) * kinv F n)).
  2:{ intros i _. rewrite Nat.eqb_refl, div_def. reflexivity. }
  rewrite sumn_scale_r, sumn_sub, Hp, div_def. reflexivity. Qed.

Theorem mse_empi_closed_eq eps nv ms A b v ns :
  Forall (fun mp : nat * vec => sumn (fst mp) (snd mp) = 1) (tomo_pds F eps nv ms A b v) ->
  mse_empi F eps nv ms A b v ns = mse_empi_closed F eps nv ms A b v ns.
Proof. unfold C19_ErrFormulas.mse_empi, C19_ErrFormulas.mse_empi_closed.
  generalize (tomo_pds F eps nv ms A b v) as pds. generalize O as j. intros j pds. revert j.
  induction pds as [|[m p] t IH]; intros j H; cbn [C19_ErrFormulas.mse_empi_pds C19_ErrFormulas.mse_empi_closed_pds]; [reflexivity|].
  inversion H as [|? ? Hp Ht]; subst. cbn [fst snd] in Hp. rewrite (trace_cov_mat m (ns j) p Hp). f_equal. now apply IH. Qed.

Lemma mtrace_dsum bs : mtrace (dsum_size bs) (dsum bs) = fold_right (fun b acc => mtrace (fst b) (snd b) + acc) 0 bs.
Proof. induction bs as [|[s M] t IH]; cbn [C19_ErrFormulas.dsum_size C19_ErrFormulas.dsum fold_right fst snd]. { reflexivity. }
  unfold mtrace in *. rewrite sumn_app. f_equal.
  - apply sumn_ext; intros i Hi. destruct (Nat.ltb_spec i s); [reflexivity|lia].
  - rewrite <- IH. apply sumn_ext; intros i _. destruct (Nat.ltb_spec (s + i) s); [lia|].
    replace (s + i - s)%nat with i by lia. reflexivity. Qed.

Fixpoint mse_empi_scheds (ss : list (sched F)) : F :=
  match ss with [] => 0 | (m, p, n) :: t => (1 - dot m p p) / of_nat n + mse_empi_scheds t end.

(* E sum_j |f_j - p_j|^2 = sum_j (1 - |p_j|^2) / n_j *)
Theorem mse_empi_exact ss : Forall (valid_sched F) ss ->
  expectL ss (fun obs => dot (total_size ss) (dev_total ss obs) (dev_total ss obs)) = mse_empi_scheds ss.
Proof. intros Hv. unfold dot. rewrite expectL_sumn.
  rewrite (sumn_ext _ _ (fun i => cov_of_scheds ss i i)) by (intros; now apply cov_total_exact).
  clear - Hv. induction Hv as [|[[m p] n] t [Hp Hn] Ht IH]; cbn [C19_Expect.total_size mse_empi_scheds sumn]. { reflexivity. }
  rewrite sumn_app. f_equal.
  - rewrite <- (trace_cov_mat m (of_nat n) p Hp). apply sumn_ext; intros i Hi. rewrite cov_of_scheds_cons.
    destruct (Nat.ltb_spec i m); [reflexivity|lia].
  - rewrite <- IH. apply sumn_ext; intros i _. rewrite cov_of_scheds_cons.
    destruct (Nat.ltb_spec (m + i) m); [lia|]. replace (m + i - m)%nat with i by lia. reflexivity. Qed.

(* ---------- direct sum: blocks on the diagonal, zero elsewhere ---------- *)
Theorem dsum_block bs1 s M bs2 i j : (i < s)%nat -> (j < s)%nat ->
  dsum (bs1 ++ (s, M) :: bs2) (dsum_size bs1 + i)%nat (dsum_size bs1 + j)%nat = M i j.
Proof. intros Hi Hj. induction bs1 as [|[s1 M1] t IH]; cbn [app C19_ErrFormulas.dsum C19_ErrFormulas.dsum_size Nat.add].
  - destruct (Nat.ltb_spec i s); [|lia]. destruct (Nat.ltb_spec j s); [|lia]. reflexivity.
  - destruct (Nat.ltb_spec (s1 + dsum_size t + i) s1); [lia|]. destruct (Nat.ltb_spec (s1 + dsum_size t + j) s1); [lia|].
    replace (s1 + dsum_size t + i - s1)%nat with (dsum_size t + i)%nat by lia.
    replace (s1 + dsum_size t + j - s1)%nat with (dsum_size t + j)%nat by lia. exact IH. Qed.
Theorem dsum_offblock bs1 s M bs2 i j : (i < s)%nat ->
  (j < dsum_size bs1 \/ dsum_size bs1 + s <= j)%nat ->
  dsum (bs1 ++ (s, M) :: bs2) (dsum_size bs1 + i)%nat j = 0 /\ dsum (bs1 ++ (s, M) :: bs2) j (dsum_size bs1 + i)%nat = 0.
Proof. intros Hi. revert j. induction bs1 as [|[s1 M1] t IH]; intros j Hj; cbn [app C19_ErrFormulas.dsum C19_ErrFormulas.dsum_size Nat.add] in *.
  - destruct (Nat.ltb_spec i s); [|lia]. destruct (Nat.ltb_spec j s); [lia|]. split; reflexivity.
  - destruct (Nat.ltb_spec (s1 + dsum_size t + i) s1); [lia|].
    destruct (Nat.ltb_spec j s1); [split; reflexivity|].
    replace (s1 + dsum_size t + i - s1)%nat with (dsum_size t + i)%nat by lia. apply IH. lia. Qed.

(* ---------- truncate_and_normalize is the identity on a distribution whose entries are 0 or >= eps ---------- *)
Lemma trunc_norm_id eps m row x : (forall y, (y < m)%nat -> row y = 0 \/ eps <= row y) -> sumn m row = 1 ->
  (x < m)%nat -> trunc_norm_row F eps m row x = row x.
Proof. intros H Hs Hx. unfold C19_ErrFormulas.trunc_norm_row.
  assert (E : forall y, (y < m)%nat -> (if flt F (row y) eps then 0 else row y) = row y).
  { intros y Hy. unfold C19_ErrFormulas.flt. destruct (kleb F eps (row y)) eqn:Ek; cbn [negb]; [reflexivity|].
    destruct (H y Hy) as [E0|Hle]; [now rewrite E0|]. apply k_leb in Hle. congruence. }
  rewrite (sumn_ext m _ row E), Hs, E by exact Hx. rewrite div_def.
  replace (kinv F 1) with 1. { ring. }
  destruct (k_field F) as [_ _ _ Hinv]. rewrite <- (Hinv 1) at 1. { ring. } apply one_neq_zero. Qed.

(* ---------- Fisher matrix ---------- *)
Lemma filter_nil {A} (f : A -> bool) l : (forall x, In x l -> f x = false) -> filter f l = [].
Proof. induction l as [|a l IH]; intros H; cbn [filter]; [reflexivity|].
  rewrite (H a (or_introl eq_refl)). apply IH. intros x Hx. apply H. now right. Qed.
Lemma count_lt_zero eps m (p : vec) : (forall x, (x < m)%nat -> eps <= p x) -> count_lt F eps m p = O.
Proof. intros H. unfold C19_ErrFormulas.count_lt. rewrite filter_nil; [reflexivity|].
  intros x Hx. apply in_seq in Hx. unfold C19_ErrFormulas.flt.
  rewrite (proj2 (k_leb F eps (p x))); [reflexivity|]. apply H. lia. Qed.

(* replace_prob_dist does nothing when every probability is at least eps *)
Theorem replace_id eps m p x : (forall y, (y < m)%nat -> eps <= p y) -> (x < m)%nat ->
  replace_prob_dist F eps m p x = p x.
Proof. intros H Hx. unfold C19_ErrFormulas.replace_prob_dist. rewrite count_lt_zero by exact H.
  unfold C19_ErrFormulas.flt. rewrite (proj2 (k_leb F eps (p x)) (H x Hx)). cbn [negb C19_Expect.of_nat].
  rewrite div_def. ring. Qed.

(* score of outcome x for parameter a *)
Definition score (p : vec) (G : mat) (a x : nat) : F := G x a / p x.

(* the loop of calc_fisher_matrix computes  sum_x p_x s_x s_x^T  =  E[ s s^T ] over one draw *)
Theorem fisher_is_expected_score eps m p G a b :
  (forall x, (x < m)%nat -> eps <= p x) -> (forall x, (x < m)%nat -> p x <> 0) ->
  fisher_core F m (replace_prob_dist F eps m p) G a b
  = expect m p 1 (fun s => score p G a (hd O s) * score p G b (hd O s)).
Proof. intros He Hnz. unfold C19_ErrFormulas.fisher_core. cbn [C19_Expect.expect hd]. apply sumn_ext; intros x Hx.
  rewrite replace_id by assumption. unfold score. field. now apply Hnz. Qed.

(* mu_fisher returns that matrix on valid input *)
Theorem mu_fisher_ok eps m p G :
  validate F eps true (map p (seq 0 m)) = MOk tt -> kleb F eps 0 = false ->
  mu_fisher F eps m m p G = MOk (fisher_core F m (replace_prob_dist F eps m p) G).
Proof. intros Hv He. unfold C19_ErrFormulas.mu_fisher. rewrite Hv, Nat.eqb_refl, He. reflexivity. Qed.

(* matrix_util.calc_fisher_matrix_total (repaired code) returns  sum_j w_j F_j  (nv x nv) on valid input *)
Lemma collect_map_ok {A B} (f : A -> mres B) (g : A -> B) l :
  (forall a, In a l -> f a = MOk (g a)) -> collect (map f l) = MOk (map g l).
Proof. induction l as [|a l IH]; intros H; cbn [map C19_ErrFormulas.collect]; [reflexivity|].
  rewrite (H a (or_introl eq_refl)), IH; [reflexivity|]. intros x Hx. apply H. now right. Qed.
Definition item_ok (eps : F) (m : nat) (it : F * vec * mat) : Prop :=
  let '(w, p, _) := it in 0 <= w /\ validate F eps true (map p (seq 0 m)) = MOk tt.
Theorem mu_fisher_total_ok eps m nv items :
  Forall (item_ok eps m) items -> kleb F eps 0 = false ->
  exists M, mu_fisher_total F eps m nv items = MOk (nv, M) /\ forall a b, M a b = fisher_total_def F eps m items a b.
Proof. intros Hv He. unfold C19_ErrFormulas.mu_fisher_total.
  assert (Hw : existsb (fun it : F * vec * mat => let '(w, _, _) := it in flt F w 0) items = false).
  { induction Hv as [|[[w p] G] t [H0 _] _ IH]; cbn [existsb]; [reflexivity|]. rewrite IH.
    unfold C19_ErrFormulas.flt. rewrite (proj2 (k_leb F 0 w) H0). reflexivity. }
  rewrite Hw.
  rewrite (collect_map_ok _ (fun it : F * vec * mat => let '(_, p, G) := it in fisher_core F m (replace_prob_dist F eps m p) G)).
  2:{ intros [[w p] G] Hin. rewrite Forall_forall in Hv. destruct (Hv _ Hin) as [_ Hp]. now apply mu_fisher_ok. }
  eexists. split; [reflexivity|]. intros a b. unfold C19_ErrFormulas.fisher_total_def.
  clear. induction items as [|[[w p] G] t IH]; cbn [map combine C19_ErrFormulas.wsum_mats]; [reflexivity|]. now rewrite IH. Qed.

(* Fisher information of n independent draws is n times the single-draw matrix *)
Fixpoint score_sum (p : vec) (G : mat) (a : nat) (s : list nat) : F :=
  match s with [] => 0 | z :: t => score p G a z + score_sum p G a t end.

Lemma expect_score_sum m p G a n : sumn m p = 1 -> (forall x, (x < m)%nat -> p x <> 0) ->
  sumn m (fun x => G x a) = 0 -> expect m p n (score_sum p G a) = 0.
Proof. intros Hp Hnz Hg. induction n as [|n IH]; cbn [C19_Expect.expect score_sum]. { reflexivity. }
  rewrite (sumn_ext m _ (fun x => G x a)).
  2:{ intros x Hx. rewrite expect_add, expect_const, IH by exact Hp. unfold score. field. now apply Hnz. }
  exact Hg. Qed.

Theorem fisher_n_draws m p G a b n : sumn m p = 1 -> (forall x, (x < m)%nat -> p x <> 0) ->
  sumn m (fun x => G x a) = 0 -> sumn m (fun x => G x b) = 0 ->
  expect m p n (fun s => score_sum p G a s * score_sum p G b s) = of_nat n * fisher_core F m p G a b.
Proof. intros Hp Hnz Ha Hb. induction n as [|n IH]; cbn [C19_Expect.expect score_sum C19_Expect.of_nat]. { ring. }
  rewrite (sumn_ext m _ (fun x => G x a * G x b / p x + G x a * 0 + G x b * 0 + p x * (of_nat n * fisher_core F m p G a b))).
  2:{ intros x Hx.
      rewrite (expect_ext F m p n _ (fun s => score p G a x * score p G b x + score p G a x * score_sum p G b s
                                             + score p G b x * score_sum p G a s + score_sum p G a s * score_sum p G b s))
        by (intros; ring).
      rewrite !expect_add, !expect_scale, expect_const, IH, !expect_score_sum by assumption.
      unfold score. field. now apply Hnz. }
  rewrite !sumn_add, !sumn_scale_r, Hp. unfold C19_ErrFormulas.fisher_core. ring. Qed.

(* ---------- Fisher information of the whole experiment: additive over independent schedules with DIFFERENT distributions,
   outcome counts, gradients and shot numbers ---------- *)
(* a schedule together with the gradients G (row x = gradient of p_x) of its distribution *)
Definition sched_ok (a b : nat) (sg : sched F * mat) : Prop :=
  let '((m, p, n), G) := sg in
  sumn m p = 1 /\ (1 <= n)%nat /\ (forall x, (x < m)%nat -> p x <> 0) /\ sumn m (fun x => G x a) = 0 /\ sumn m (fun x => G x b) = 0.
(* score of the complete record obs (one outcome sequence per schedule) for parameter a *)
Fixpoint score_total (ssG : list (sched F * mat)) (a : nat) (obs : list (list nat)) : F :=
  match ssG with
  | [] => 0
  | ((m, p, n), G) :: t => score_sum p G a (hd [] obs) + score_total t a (tl obs)
  end.
(* sum_j n_j F_j *)
Fixpoint fisher_info (ssG : list (sched F * mat)) (a b : nat) : F :=
  match ssG with
  | [] => 0
  | ((m, p, n), G) :: t => of_nat n * fisher_core F m p G a b + fisher_info t a b
  end.
Lemma sched_ok_valid a b ssG : Forall (sched_ok a b) ssG -> Forall (valid_sched F) (map fst ssG).
Proof. induction 1 as [|[[[m p] n] G] t H _ IH]; cbn [map fst]; constructor; [|exact IH].
  destruct H as (Hp & Hn & _). split; assumption. Qed.
Lemma score_total_mean a b ssG : Forall (sched_ok a b) ssG ->
  expectL (map fst ssG) (fun obs => score_total ssG a obs) = 0 /\ expectL (map fst ssG) (fun obs => score_total ssG b obs) = 0.
Proof. induction 1 as [|[[[m p] n] G] t H Ht IH]; cbn [map fst C19_Expect.expectL score_total]; [split; reflexivity|].
  destruct H as (Hp & Hn & Hnz & Ha & Hb). destruct IH as [IHa IHb].
  pose proof (sched_ok_valid a b t Ht) as Hv. split.
  - rewrite (expect_ext F m p n _ (fun s => score_sum p G a s)).
    2:{ intros s _. cbn [hd tl]. rewrite expectL_add, (expectL_const F _ _ Hv).
        replace (expectL (map fst t) (score_total t a)) with 0 by (symmetry; exact IHa). ring. }
    now apply expect_score_sum.
  - rewrite (expect_ext F m p n _ (fun s => score_sum p G b s)).
    2:{ intros s _. cbn [hd tl]. rewrite expectL_add, (expectL_const F _ _ Hv).
        replace (expectL (map fst t) (score_total t b)) with 0 by (symmetry; exact IHb). ring. }
    now apply expect_score_sum. Qed.
Theorem fisher_info_additive a b ssG : Forall (sched_ok a b) ssG ->
  expectL (map fst ssG) (fun obs => score_total ssG a obs * score_total ssG b obs) = fisher_info ssG a b.
Proof. induction 1 as [|[[[m p] n] G] t H Ht IH]; cbn [map fst C19_Expect.expectL score_total fisher_info]; [ring|].
  destruct H as (Hp & Hn & Hnz & Ha & Hb).
  pose proof (sched_ok_valid a b t Ht) as Hv. destruct (score_total_mean a b t Ht) as [Ma Mb].
  rewrite (expect_ext F m p n _ (fun s => score_sum p G a s * score_sum p G b s + fisher_info t a b)).
  2:{ intros s _. cbn [hd tl].
      rewrite (expectL_ext F (map fst t) _ (fun st => score_sum p G a s * score_sum p G b s + score_sum p G a s * score_total t b st
                                                   + score_sum p G b s * score_total t a st + score_total t a st * score_total t b st))
        by (intros; ring).
      rewrite !expectL_add, !expectL_scale, (expectL_const F _ _ Hv), IH.
      replace (expectL (map fst t) (score_total t a)) with 0 by (symmetry; exact Ma).
      replace (expectL (map fst t) (score_total t b)) with 0 by (symmetry; exact Mb). ring. }
  rewrite expect_add, (expect_const F m p n _ Hp), (fisher_n_draws m p G a b n Hp Hnz Ha Hb). reflexivity. Qed.

(* ---------- Cramer-Rao: the inverse (hence the bound) is determined by the certificate ---------- *)
Theorem inverse_unique n (Fm M M' : mat) :
  meq n n (mmul n Fm M) mid -> meq n n (mmul n M' Fm) mid -> meq n n M' M.
Proof. intros H1 H2 i j Hi Hj.
  rewrite <- (mmul_id_r n M' i j Hj).
  rewrite <- (mmul_ext n M' M' _ _ n n (meq_refl n n M') H1 i j Hi Hj).
  rewrite <- mmul_assoc.
  rewrite (mmul_ext n _ mid M M n n H2 (meq_refl n n M) i j Hi Hj).
  now apply mmul_id_l. Qed.
Theorem cr_var_unique n N (Fm M M' : mat) :
  meq n n (mmul n Fm M) mid -> meq n n (mmul n M' Fm) mid -> cr_var F n N M' = cr_var F n N M.
Proof. intros H1 H2. unfold C19_ErrFormulas.cr_var. f_equal. apply mtrace_ext. now apply (inverse_unique n Fm). Qed.

(* textbook form: with the weights n_j / N the code inverts  F_w = sum_j (n_j / N) F_j  and divides the trace by N; that is the
   trace of the inverse of the total Fisher information  sum_j n_j F_j  of the whole experiment *)
Lemma wsum_weights_scale N (ns : nat -> F) js (Fs : list mat) a b : N <> 0 ->
  N * wsum_mats F (combine (map (cr_weights F N ns) js) Fs) a b = wsum_mats F (combine (map ns js) Fs) a b.
Proof. intros HN. revert Fs. induction js as [|j t IH]; intros Fs; cbn [map combine C19_ErrFormulas.wsum_mats]; [ring|].
  destruct Fs as [|M Fs]; cbn [combine C19_ErrFormulas.wsum_mats]; [ring|]. rewrite <- IH.
  unfold C19_ErrFormulas.cr_weights. field. exact HN. Qed.
Theorem cr_bound_textbook n N (Fw M : mat) : N <> 0 -> meq n n (mmul n Fw M) mid ->
  meq n n (mmul n (mscale N Fw) (mscale (kinv F N) M)) mid /\ cr_var F n N M = mtrace n (mscale (kinv F N) M).
Proof. intros HN H. split.
  - intros i j Hi Hj. rewrite mmul_mscale_l. unfold mscale at 1. rewrite mmul_mscale_r. unfold mscale.
    rewrite (H i j Hi Hj). field. exact HN.
  - unfold C19_ErrFormulas.cr_var, mtrace, mscale. rewrite sumn_scale_l, div_def. ring. Qed.

(* ---------- calc_left_inv: certificate => normal equations (the estimate is the least-squares solution) ---------- *)
Theorem left_inv_normal_eq nv nr (A L : mat) :
  meq nv nv (mmul nr L A) mid ->
  meq nr nr (mmul nv A L) (mT (mmul nv A L)) ->
  meq nv nr (mmul nr (mT A) (mmul nv A L)) (mT A).
Proof. intros HLA Hsym i j Hi Hj.
  rewrite (mmul_ext nr (mT A) (mT A) _ _ nv nr (meq_refl nv nr (mT A)) Hsym i j Hi Hj).
  transitivity (mmul nr (mT A) (mmul nv (mT L) (mT A)) i j).
  { unfold mmul at 1 3. apply sumn_ext; intros l _. f_equal. apply mT_mmul. }
  rewrite <- mmul_assoc.
  transitivity (mmul nv (mT (mmul nr L A)) (mT A) i j).
  { unfold mmul at 1 3. apply sumn_ext; intros l _. f_equal. symmetry. apply mT_mmul. }
  transitivity (mmul nv mid (mT A) i j).
  { apply (mmul_ext nv _ mid (mT A) (mT A) nv nr); [|apply meq_refl|exact Hi|exact Hj].
    intros a c Ha Hc. unfold mT. rewrite (HLA c a Hc Ha). unfold mid. rewrite Nat.eqb_sym. reflexivity. }
  now apply mmul_id_l. Qed.

(* ---------- tomography level: what the StandardQTomography methods compute is the exact expectation ---------- *)
(* schedules with arbitrary (possibly different) numbers of outcomes ms; pieces of the stacked vector start at offset off *)
Fixpoint pieces_ok_rec (eps : F) (raw : vec) (off : nat) (ms : list nat) : Prop :=
  match ms with [] => True | m :: t => piece_ok F eps raw off m /\ pieces_ok_rec eps raw (off + m)%nat t end.
Lemma pieces_ok_rec_of eps raw ms : forall off,
  (forall j, (j < length ms)%nat -> piece_ok F eps raw (off + sizes_sum (firstn j ms))%nat (nth j ms O)) -> pieces_ok_rec eps raw off ms.
Proof. induction ms as [|m t IH]; intros off H; cbn [pieces_ok_rec]; [exact I|]. split.
  - assert (H0 := H O ltac:(cbn; lia)). cbn [firstn C19_ErrFormulas.sizes_sum nth] in H0. now rewrite Nat.add_0_r in H0.
  - apply IH. intros j Hj. assert (H1 := H (S j) ltac:(cbn; lia)). cbn [firstn C19_ErrFormulas.sizes_sum nth] in H1.
    now rewrite Nat.add_assoc in H1. Qed.
Lemma pds_row eps raw off m x : piece_ok F eps raw off m -> (x < m)%nat ->
  trunc_norm_row F eps m (fun x0 => raw (off + x0)%nat) x = raw (off + x)%nat.
Proof. intros [Hs He] Hx. exact (trunc_norm_id eps m (fun x0 => raw (off + x0)%nat) x He Hs Hx). Qed.
Lemma scheds_valid eps raw n ms : forall off j, pieces_ok_rec eps raw off ms ->
  (forall k, (k < length ms)%nat -> (1 <= n (j + k)%nat)%nat) ->
  Forall (valid_sched F) (scheds_of F n j (pds_of_raw F eps raw off ms)).
Proof. induction ms as [|m t IH]; intros off j Hp Hn; cbn [C19_ErrFormulas.pds_of_raw C19_ErrFormulas.scheds_of]; constructor.
  - destruct Hp as [Hp _]. unfold C19_Expect.valid_sched. split.
    + rewrite <- (proj1 Hp). apply sumn_ext; intros x Hx. now apply pds_row.
    + assert (H0 := Hn O ltac:(cbn; lia)). now rewrite Nat.add_0_r in H0.
  - apply IH; [apply Hp|]. intros k Hk. assert (H1 := Hn (S k) ltac:(cbn; lia)). now rewrite Nat.add_succ_r in H1. Qed.
Lemma scheds_size eps raw n ms : forall off j, total_size (scheds_of F n j (pds_of_raw F eps raw off ms)) = sizes_sum ms.
Proof. induction ms as [|m t IH]; intros off j; cbn [C19_ErrFormulas.pds_of_raw C19_ErrFormulas.scheds_of C19_Expect.total_size C19_ErrFormulas.sizes_sum];
  [reflexivity|]. now rewrite IH. Qed.
Lemma scheds_p eps raw n ms : forall off j, pieces_ok_rec eps raw off ms -> forall i, (i < sizes_sum ms)%nat ->
  p_total (scheds_of F n j (pds_of_raw F eps raw off ms)) i = raw (off + i)%nat.
Proof. induction ms as [|m t IH]; intros off j Hp i Hi;
    cbn [C19_ErrFormulas.pds_of_raw C19_ErrFormulas.scheds_of C19_Expect.p_total C19_ErrFormulas.sizes_sum pieces_ok_rec] in *; [lia|].
  destruct (Nat.ltb_spec i m) as [Hlt|Hge].
  - apply pds_row; [apply Hp|exact Hlt].
  - rewrite IH by (try apply Hp; lia). f_equal. lia. Qed.
Lemma cov_blocks_scheds n j pds :
  dsum (cov_blocks F (fun j0 => of_nat (n j0)) j pds) = cov_of_scheds (scheds_of F n j pds).
Proof. unfold cov_of_scheds, C19_ErrFormulas.cov_total. f_equal. revert j.
  induction pds as [|[m p] t IH]; intros j; cbn [C19_ErrFormulas.cov_blocks C19_ErrFormulas.scheds_of map]; [reflexivity|]. now rewrite IH. Qed.
Lemma mse_empi_pds_scheds n pds : forall j, Forall (valid_sched F) (scheds_of F n j pds) ->
  mse_empi_pds F (fun j0 => of_nat (n j0)) j pds = mse_empi_scheds (scheds_of F n j pds).
Proof. induction pds as [|[m p] t IH]; intros j H; cbn [C19_ErrFormulas.mse_empi_pds C19_ErrFormulas.scheds_of mse_empi_scheds]; [reflexivity|].
  cbn [C19_ErrFormulas.scheds_of] in H. inversion H as [|? ? Hv Ht]; subst. destruct Hv as [Hp _]. rewrite (trace_cov_mat m _ p Hp). f_equal. now apply IH. Qed.

Section Tomo.
Variables (eps : F) (nv : nat) (ms : list nat) (A L : mat) (b v : vec) (n : nat -> nat).
Notation raw := (affine F nv A b v).
Notation nr := (sizes_sum ms).
Hypothesis Hpieces : pieces_ok F eps raw ms.
Hypothesis Hn : forall j, (j < length ms)%nat -> (1 <= n j)%nat.
Hypothesis HLA : meq nv nv (mmul nr L A) mid.
Notation tomo_scheds := (tomo_scheds F eps nv ms A b v n).

Lemma pieces_rec : pieces_ok_rec eps raw O ms.
Proof. apply pieces_ok_rec_of. intros j Hj. cbn [Nat.add]. now apply Hpieces. Qed.
Lemma tomo_scheds_valid : Forall (valid_sched F) tomo_scheds.
Proof. unfold C19_ErrFormulas.tomo_scheds, C19_ErrFormulas.tomo_pds. apply scheds_valid; [exact pieces_rec|]. intros k Hk. cbn [Nat.add]. now apply Hn. Qed.
Lemma tomo_scheds_size : total_size tomo_scheds = nr.
Proof. apply scheds_size. Qed.
Lemma tomo_scheds_p : veq nr (p_total tomo_scheds) raw.
Proof. intros i Hi. unfold C19_ErrFormulas.tomo_scheds, C19_ErrFormulas.tomo_pds. rewrite (scheds_p eps raw n ms O O pieces_rec i Hi). reflexivity. Qed.
Lemma tomo_cov_total_eq :
  tomo_cov_total F eps nv ms A b v (fun j => of_nat (n j)) = cov_of_scheds tomo_scheds.
Proof. apply cov_blocks_scheds. Qed.
(* the truncate-and-normalise step is the identity under the hypotheses: calc_prob_dists returns the Born probabilities *)
Lemma tomo_pds_sum1 : Forall (fun mp : nat * vec => sumn (fst mp) (snd mp) = 1) (tomo_pds F eps nv ms A b v).
Proof. assert (H := tomo_scheds_valid). unfold C19_ErrFormulas.tomo_scheds in H. revert H.
  generalize (tomo_pds F eps nv ms A b v) as pds. generalize O as j. intros j pds. revert j.
  induction pds as [|[m p] t IH]; intros j H; constructor.
  - cbn [C19_ErrFormulas.scheds_of] in H. inversion H as [|? ? Hv _]; subst. destruct Hv as [Hp _]. exact Hp.
  - cbn [C19_ErrFormulas.scheds_of] in H. inversion H; subst. eapply IH; eassumption. Qed.

Notation Sigma := (tomo_cov_total F eps nv ms A b v (fun j => of_nat (n j))).
Notation estL := (est nr L b tomo_scheds).

(* calc_mse_linear_analytical(mode="var") *)
Theorem tomo_mse_var_exact ty on_eq d2 mo :
  mse_linear_analytical F ty false on_eq d2 mo nv nr L Sigma
  = expectL tomo_scheds (fun obs => sqdist F nv (estL obs) v).
Proof. rewrite mse_analytical_var_mode, tomo_cov_total_eq. symmetry.
  apply (mse_var_exact nv nr A L b v tomo_scheds tomo_scheds_valid HLA tomo_scheds_p). Qed.
(* calc_mse_linear_analytical(mode="qoperation"): all four tomography types, both parametrisations *)
Theorem tomo_mse_qoperation_exact ty on_eq d2 mo :
  mse_linear_analytical F ty true on_eq d2 mo nv nr L Sigma
  = expectL tomo_scheds (fun obs => object_sqerr F d2 nv (implied_S F ty on_eq d2 mo) (vsub (estL obs) v)).
Proof. rewrite (mse_analytical_is_object_exact ty on_eq d2 mo). rewrite tomo_cov_total_eq. symmetry.
  apply (mse_object_exact_thm nv nr A L b v tomo_scheds tomo_scheds_valid HLA tomo_scheds_p). Qed.
(* calc_covariance_mat_total is the exact covariance of the stacked empirical distributions *)
Theorem tomo_cov_total_exact i j :
  expectL tomo_scheds (fun obs => dev_total tomo_scheds obs i * dev_total tomo_scheds obs j) = Sigma i j.
Proof. rewrite tomo_cov_total_eq. apply cov_total_exact. exact tomo_scheds_valid. Qed.
(* calc_mse_empi_dists_analytical *)
Theorem tomo_mse_empi_exact :
  mse_empi F eps nv ms A b v (fun j => of_nat (n j))
  = expectL tomo_scheds (fun obs => dot nr (dev_total tomo_scheds obs) (dev_total tomo_scheds obs)).
Proof. rewrite <- tomo_scheds_size, (mse_empi_exact tomo_scheds tomo_scheds_valid).
  unfold C19_ErrFormulas.mse_empi. apply mse_empi_pds_scheds. exact tomo_scheds_valid. Qed.
Theorem tomo_mse_empi_closed ns :
  mse_empi F eps nv ms A b v ns = mse_empi_closed F eps nv ms A b v ns.
Proof. apply mse_empi_closed_eq. exact tomo_pds_sum1. Qed.
End Tomo.

(* ---------- extensionality: the tomography-level functions only look at their arguments inside the stated sizes ----------
   (used in Exec/C19_ops.v to show that evaluating them on materialised ("frozen") vectors and matrices gives the same value) *)
Lemma trunc_norm_row_ext eps m (row row' : vec) x : veq m row row' -> (x < m)%nat ->
  trunc_norm_row F eps m row x = trunc_norm_row F eps m row' x.
Proof. intros H Hx. unfold C19_ErrFormulas.trunc_norm_row. rewrite (H x Hx). f_equal.
  apply sumn_ext; intros y Hy. now rewrite (H y Hy). Qed.
Definition pds_eq (a b : list (nat * vec)) : Prop :=
  Forall2 (fun x y : nat * vec => fst x = fst y /\ veq (fst x) (snd x) (snd y)) a b.
Lemma pds_of_raw_ext eps (raw raw' : vec) ms : forall off, (forall i, (i < sizes_sum ms)%nat -> raw (off + i)%nat = raw' (off + i)%nat) ->
  pds_eq (pds_of_raw F eps raw off ms) (pds_of_raw F eps raw' off ms).
Proof. induction ms as [|m t IH]; intros off H; cbn [C19_ErrFormulas.pds_of_raw]; constructor.
  - cbn [fst snd]. split; [reflexivity|]. intros x Hx. apply trunc_norm_row_ext; [|exact Hx].
    intros y Hy. apply H. cbn [C19_ErrFormulas.sizes_sum]. lia.
  - apply IH. intros i Hi. rewrite <- !Nat.add_assoc. apply H. cbn [C19_ErrFormulas.sizes_sum]. lia. Qed.
Lemma cov_mat_ext n m (q q' : vec) : veq m q q' -> meq m m (cov_mat n q) (cov_mat n q').
Proof. intros H i j Hi Hj. unfold C19_ErrFormulas.cov_mat. now rewrite (H i Hi), (H j Hj). Qed.
Definition blocks_eq (a b : list (nat * mat)) : Prop :=
  Forall2 (fun x y : nat * mat => fst x = fst y /\ meq (fst x) (fst x) (snd x) (snd y)) a b.
Lemma cov_blocks_ext ns pds pds' : pds_eq pds pds' -> forall j, blocks_eq (cov_blocks F ns j pds) (cov_blocks F ns j pds').
Proof. induction 1 as [|[m p] [m' p'] t t' [Hm Hp] _ IH]; intros j; cbn [C19_ErrFormulas.cov_blocks]; constructor.
  - cbn [fst snd] in *. subst m'. split; [reflexivity|]. now apply cov_mat_ext.
  - apply IH. Qed.
Lemma dsum_ext bs bs' : blocks_eq bs bs' -> forall i j, dsum bs i j = dsum bs' i j.
Proof. induction 1 as [|[s M] [s' M'] t t' [Hs HM] _ IH]; intros i j; cbn [C19_ErrFormulas.dsum]; [reflexivity|].
  cbn [fst snd] in *. subst s'. destruct (Nat.ltb_spec i s) as [Hi|Hi]; destruct (Nat.ltb_spec j s) as [Hj|Hj]; try reflexivity.
  - now apply HM.
  - apply IH. Qed.
Lemma mse_empi_pds_ext ns pds pds' : pds_eq pds pds' -> forall j, mse_empi_pds F ns j pds = mse_empi_pds F ns j pds'.
Proof. induction 1 as [|[m p] [m' p'] t t' [Hm Hp] _ IH]; intros j; cbn [C19_ErrFormulas.mse_empi_pds]; [reflexivity|].
  cbn [fst snd] in *. subst m'. rewrite (IH (S j)). f_equal. apply mtrace_ext. now apply cov_mat_ext. Qed.
Lemma mse_empi_closed_pds_ext ns pds pds' : pds_eq pds pds' -> forall j, mse_empi_closed_pds F ns j pds = mse_empi_closed_pds F ns j pds'.
Proof. induction 1 as [|[m p] [m' p'] t t' [Hm Hp] _ IH]; intros j; cbn [C19_ErrFormulas.mse_empi_closed_pds]; [reflexivity|].
  cbn [fst snd] in *. subst m'. rewrite (IH (S j)). f_equal. f_equal. f_equal. unfold dot. apply sumn_ext; intros x Hx. now rewrite (Hp x Hx). Qed.
Lemma pds_eq_trans a b c : pds_eq a b -> pds_eq b c -> pds_eq a c.
Proof. intros H. revert c. induction H as [|x y t t' [H1 H2] _ IH]; intros c Hc; inversion Hc as [|? z ? t'' [H3 H4] Ht]; subst; constructor.
  - split; [congruence|]. intros i Hi. rewrite (H2 i Hi). apply H4. now rewrite <- H1.
  - now apply IH. Qed.
(* Fisher matrices: same result (same error code / pointwise equal matrices) for stacked vectors that agree on the rows *)
Definition mres_mat_eq (r r' : mres mat) : Prop :=
  match r, r' with MOk M, MOk M' => forall a b, M a b = M' a b | MErr c, MErr c' => c = c' | _, _ => False end.
Lemma replace_prob_dist_ext eps m (p p' : vec) x : veq m p p' -> (x < m)%nat ->
  replace_prob_dist F eps m p x = replace_prob_dist F eps m p' x.
Proof. intros H Hx. unfold C19_ErrFormulas.replace_prob_dist, C19_ErrFormulas.count_lt.
  rewrite (filter_ext_in (fun x0 => flt F (p x0) eps) (fun x0 => flt F (p' x0) eps) (seq 0 m)).
  2:{ intros y Hy. apply in_seq in Hy. rewrite (H y) by lia. reflexivity. }
  now rewrite (H x Hx). Qed.
Lemma mu_fisher_ext eps m g (p p' : vec) G : veq m p p' -> mres_mat_eq (mu_fisher F eps m g p G) (mu_fisher F eps m g p' G).
Proof. intros H. unfold C19_ErrFormulas.mu_fisher.
  rewrite (map_ext_in p p' (seq 0 m)) by (intros y Hy; apply in_seq in Hy; apply H; lia).
  destruct (validate F eps true (map p' (seq 0 m))) as [u|c]; [|reflexivity].
  destruct (negb (Nat.eqb m g)); [reflexivity|]. destruct (kleb F eps 0); [reflexivity|].
  intros a b. unfold C19_ErrFormulas.fisher_core. apply sumn_ext; intros x Hx. now rewrite (replace_prob_dist_ext eps m p p' x H Hx). Qed.
Lemma piece_in_range ms : forall j, (j < length ms)%nat -> (sizes_sum (firstn j ms) + nth j ms O <= sizes_sum ms)%nat.
Proof. induction ms as [|m t IH]; intros j Hj; cbn [length] in Hj; [lia|].
  destruct j as [|j]; cbn [firstn nth C19_ErrFormulas.sizes_sum]; [lia|]. specialize (IH j ltac:(lia)). lia. Qed.
Lemma fisher_of_raw_ext eps8 (raw raw' : vec) A ms j : (j < length ms)%nat -> veq (sizes_sum ms) raw raw' ->
  mres_mat_eq (fisher_of_raw F eps8 raw A ms j) (fisher_of_raw F eps8 raw' A ms j).
Proof. intros Hj H. unfold C19_ErrFormulas.fisher_of_raw. apply mu_fisher_ext. intros x Hx. apply H.
  pose proof (piece_in_range ms j Hj). lia. Qed.
Lemma collect_ext (l l' : list (mres mat)) : Forall2 mres_mat_eq l l' ->
  match collect l, collect l' with
  | MOk Fs, MOk Fs' => Forall2 (fun M M' : mat => forall a b, M a b = M' a b) Fs Fs'
  | MErr c, MErr c' => c = c'
  | _, _ => False end.
Proof. induction 1 as [|r r' t t' Hr _ IH]; cbn [C19_ErrFormulas.collect]; [constructor|].
  destruct r as [M|c], r' as [M'|c']; cbn in Hr; try contradiction; [|exact Hr].
  destruct (collect t) as [Fs|c], (collect t') as [Fs'|c']; try contradiction; [|exact IH]. constructor; assumption. Qed.
Lemma wsum_mats_ext (ws : list F) Fs Fs' : Forall2 (fun M M' : mat => forall a b, M a b = M' a b) Fs Fs' ->
  forall a b, wsum_mats F (combine ws Fs) a b = wsum_mats F (combine ws Fs') a b.
Proof. intros H. revert ws. induction H as [|M M' t t' HM _ IH]; intros ws a b; destruct ws as [|w ws]; cbn [combine C19_ErrFormulas.wsum_mats]; try reflexivity.
  now rewrite HM, IH. Qed.
Theorem fisher_total_of_raw_ext eps8 (raw raw' : vec) A ms w : veq (sizes_sum ms) raw raw' ->
  mres_mat_eq (fisher_total_of_raw F eps8 raw A ms w) (fisher_total_of_raw F eps8 raw' A ms w).
Proof. intros H. unfold C19_ErrFormulas.fisher_total_of_raw.
  assert (HF : Forall2 mres_mat_eq (map (fun j => fisher_of_raw F eps8 raw A ms j) (seq 0 (length ms)))
                                   (map (fun j => fisher_of_raw F eps8 raw' A ms j) (seq 0 (length ms)))).
  { assert (G : forall l, (forall j, In j l -> (j < length ms)%nat) ->
       Forall2 mres_mat_eq (map (fun j => fisher_of_raw F eps8 raw A ms j) l) (map (fun j => fisher_of_raw F eps8 raw' A ms j) l)).
    { induction l as [|j t IH]; intros Hl; cbn [map]; constructor.
      - apply fisher_of_raw_ext; [apply Hl; now left|exact H].
      - apply IH. intros k Hk. apply Hl. now right. }
    apply G. intros j Hj. apply in_seq in Hj. lia. }
  pose proof (collect_ext _ _ HF) as HC.
  destruct (collect (map (fun j => fisher_of_raw F eps8 raw A ms j) (seq 0 (length ms)))) as [Fs|c],
           (collect (map (fun j => fisher_of_raw F eps8 raw' A ms j) (seq 0 (length ms)))) as [Fs'|c']; try contradiction; [|exact HC].
  intros a b. now apply wsum_mats_ext. Qed.

Lemma mse_linear_analytical_ext ty mode on_eq d2 mo nv nr (L L' Sg Sg' : mat) : meq nv nr L L' -> meq nr nr Sg Sg' ->
  mse_linear_analytical F ty mode on_eq d2 mo nv nr L Sg = mse_linear_analytical F ty mode on_eq d2 mo nv nr L' Sg'.
Proof. intros HL HS. unfold C19_ErrFormulas.mse_linear_analytical, C19_ErrFormulas.cov_linear.
  apply mse_analytical_of_cov_ext. now apply conjugate_ext. Qed.

(* ---------- squared error of complex arrays: sum of squared moduli, real, non-negative ---------- *)
Lemma cvdot_self_re n (d : nat -> cplx F) : re (cvdot_self F n d) = sumn n (fun k => znorm2 (d k)).
Proof. unfold C19_ErrFormulas.cvdot_self. rewrite re_sumn. apply sumn_ext; intros k _. unfold znorm2. cbn. ring. Qed.
Lemma cvdot_self_im n (d : nat -> cplx F) : im (cvdot_self F n d) = 0.
Proof. unfold C19_ErrFormulas.cvdot_self. rewrite im_sumn. apply sumn_zero'; intros k _. cbn. ring. Qed.
Theorem csqdist_is_sum_sqr_moduli n (x y : nat -> cplx F) :
  csqdist F n x y = sumn n (fun k => znorm2 (zsub (x k) (y k))).
Proof. unfold C19_ErrFormulas.csqdist. apply cvdot_self_re. Qed.
Theorem csqdist_nonneg n (x y : nat -> cplx F) : 0 <= csqdist F n x y.
Proof. rewrite csqdist_is_sum_sqr_moduli. induction n as [|n IH]; cbn [sumn]; [apply k_refl|].
  apply add_nonneg; [exact IH|]. unfold znorm2. apply add_nonneg; apply sqr_nonneg. Qed.
(* on real data (imaginary parts 0) it is the real squared distance *)
Theorem csqdist_real n (x y : vec) : csqdist F n (fun k => zof (x k)) (fun k => zof (y k)) = sqdist F n x y.
Proof. rewrite csqdist_is_sum_sqr_moduli. unfold C19_ErrFormulas.sqdist, dot, vsub. apply sumn_ext; intros k _.
  unfold znorm2. cbn. ring. Qed.

(* ---------- helpers ---------- *)
Lemma calc_se_app n l1 l2 : calc_se F n (l1 ++ l2) = calc_se F n l1 + calc_se F n l2.
Proof. unfold C19_ErrFormulas.calc_se. induction l1 as [|xy t IH]; cbn [app fold_right]; [ring|]. rewrite IH. ring. Qed.
Lemma sqdist_zero_iff_same n x : sqdist F n x x = 0.
Proof. unfold C19_ErrFormulas.sqdist, dot, vsub. apply sumn_zero'. intros; ring. Qed.
End FormulaProofs.
