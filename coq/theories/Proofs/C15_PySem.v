(* C15 — facts about the Python-idiom combinators of Model/C15_PySem.v, relating them to the list/option vocabulary of the
   hand-written decision-table model (Model/C15_PhysCheck.v: all_opt, column, get).  Used by coq/gen/C15_Equiv.v, which is
   re-checked on every run against the REGENERATED functions.  Axiom-free. *)
From Coq Require Import List Arith Bool Lia.
From QV.Core Require Import OF.
From QV.Model Require Import C15_PhysCheck C15_PySem.
Import ListNotations.

Lemma obind_id {A} (x : option A) : obind x (fun a => Some a) = x.
Proof. now destruct x. Qed.
Lemma obind_assoc {A B C} (x : option A) (f : A -> option B) (g : B -> option C) :
  obind (obind x f) g = obind x (fun a => obind (f a) g).
Proof. now destruct x. Qed.
Lemma obind_ext {A B} (x : option A) (f g : A -> option B) : (forall a, f a = g a) -> obind x f = obind x g.
Proof. intros H. destruct x; cbn; auto. Qed.
Lemma obind_option_map {A B C} (x : option A) (f : A -> B) (g : B -> option C) :
  obind (option_map f x) g = obind x (fun a => g (f a)).
Proof. now destruct x. Qed.

Lemma omap_ext {A B} (f g : A -> option B) l : (forall a, In a l -> f a = g a) -> omap f l = omap g l.
Proof. induction l as [|a t IH]; intros H; cbn; [reflexivity|].
  rewrite (H a) by now left. rewrite IH by (intros; apply H; now right). reflexivity. Qed.
Lemma omap_some {A B} (f : A -> B) l : omap (fun a => Some (f a)) l = Some (map f l).
Proof. induction l as [|a t IH]; cbn; [reflexivity|]. now rewrite IH. Qed.
Lemma omap_id {A} (l : list A) : omap (fun a => Some a) l = Some l.
Proof. rewrite (omap_some (fun a => a)). now rewrite map_id. Qed.
(* fusion: a comprehension whose element is "look up, then apply a total function" *)
Lemma omap_fuse {A B C} (h : A -> option B) (f : B -> C) l :
  omap (fun a => obind (h a) (fun b => Some (f b))) l = option_map (map f) (omap h l).
Proof. induction l as [|a t IH]; cbn; [reflexivity|]. rewrite IH.
  destruct (h a); cbn; [|reflexivity]. destruct (omap h t); reflexivity. Qed.

(* a for-loop that appends one value per iteration *)
Lemma ofold_append {A B C} (h : A -> option B) (f : B -> C) l : forall acc,
  ofold (fun acc a => obind (h a) (fun b => Some (acc ++ [f b]))) l acc
  = option_map (fun cs => acc ++ cs) (omap (fun a => option_map f (h a)) l).
Proof. induction l as [|a t IH]; intros acc; cbn.
  - now rewrite app_nil_r.
  - destruct (h a) as [b|]; cbn; [|reflexivity]. rewrite IH.
    destruct (omap (fun a0 => option_map f (h a0)) t); cbn; [|reflexivity].
    now rewrite <- app_assoc. Qed.

Lemma negb_in_false_cons b bs : negb (py_in false (b :: bs)) = b && negb (py_in false bs).
Proof. unfold py_in. cbn. now destruct b. Qed.
Lemma if_in_false (bs : list bool) : (if py_in false bs then Some false else Some true) = Some (negb (py_in false bs)).
Proof. now destruct (py_in false bs). Qed.
(* "False not in [ ... ]" over possibly raising elements  =  the strict conjunction all_opt *)
Lemma all_opt_omap {A} (g : A -> option bool) l :
  all_opt (map g l) = option_map (fun bs => negb (py_in false bs)) (omap g l).
Proof. induction l as [|a t IH]; cbn [map all_opt omap]; [reflexivity|]. rewrite IH.
  destruct (g a) as [b|]; cbn [obind option_map]; [|reflexivity]. destruct (omap g t) as [bs|]; cbn [obind option_map]; [|reflexivity].
  now rewrite negb_in_false_cons. Qed.

Lemma forallb_in_false (bs : list bool) : negb (py_in false bs) = forallb (fun b => b) bs.
Proof. induction bs as [|b t IH]; [reflexivity|]. rewrite negb_in_false_cons, IH. reflexivity. Qed.
Lemma count_filter_zero {A} (p : A -> bool) l :
  Nat.eqb (length (filter (fun a => negb (p a)) l)) 0 = negb (py_in false (map p l)).
Proof. induction l as [|a t IH]; [reflexivity|]. cbn [filter map]. rewrite negb_in_false_cons, <- IH.
  destruct (p a); reflexivity. Qed.

Section Est.
Context (F : OF).
Notation est := (est F).

Lemma idx_then (row : list est) i {B} (f : est -> B) : obind (py_idx row i) (fun q => Some (f q)) = option_map f (nth_error row i).
Proof. unfold py_idx. now destruct (nth_error row i). Qed.

(* [v.seq[i].pred() for v in ests]  then  "False not in"  =  column *)
Lemma column_omap (ests : list (list est)) i (p : est -> bool) :
  column F ests i p = option_map (fun bs => negb (py_in false bs)) (omap (fun row => obind (py_idx row i) (fun q => Some (p q))) ests).
Proof. unfold column. rewrite all_opt_omap. f_equal. Qed.

Lemma get_as_idx {B} (ests : list (list est)) r i (k : est -> option B) :
  obind (py_idx ests r) (fun row => obind (py_idx row i) k) = match get F ests r i with Some e => k e | None => None end.
Proof. unfold get, py_idx. destruct (nth_error ests r) as [row|]; cbn; [|reflexivity]. now destruct (nth_error row i). Qed.
End Est.

(* ------------------------------------------------------------------ stream objects: what n consecutive task-draws return *)
From Coq Require Import ZArith.
From QV.Model Require Import C15_Dataflow.

Fixpoint draws (f : sm key) (n : nat) (st : sstate) : list key :=
  match n with O => [] | S k => let (r, st') := f st in r :: draws f k st' end.

(* the repetition loop of generate_empi_dists_and_calc_estimate: two lists collect (data derived from) the same draws *)
Lemma sloop_pairs (f : sm key) n : forall l1 l2 st,
  fst (sloop n (fun '(a, b) => sbind f (fun r => sret (a ++ [r], b ++ [r]))) (l1, l2) st) = (l1 ++ draws f n st, l2 ++ draws f n st).
Proof. induction n as [|n IH]; intros l1 l2 st; cbn [sloop draws].
  - unfold sret. cbn. now rewrite !app_nil_r.
  - unfold sbind at 1. unfold sbind at 1. destruct (f st) as [r st'] eqn:E. unfold sret at 1.
    rewrite IH. now rewrite <- !app_assoc. Qed.

Section Draws.
Variable origin : Z * list nat * nat.

Lemma draws_amb n : forall st, draws (draw_stream origin SAmb) n st = map (fun i => KAmbient (s_amb st + i)) (seq 0 n).
Proof. induction n as [|n IH]; intros st; [reflexivity|]. cbn [draws draw_stream]. rewrite IH. cbn [s_amb seq map].
  f_equal; [f_equal; lia|]. rewrite <- seq_shift, map_map. apply map_ext. intros i. f_equal. lia. Qed.

Lemma draws_arg n : forall st, draws (draw_stream origin SArg) n st =
  map (fun i => let '(r, p, o) := origin in KSeed r p (o + s_arg st + i)) (seq 0 n).
Proof. destruct origin as [[r p] o]. induction n as [|n IH]; intros st; [reflexivity|]. cbn [draws draw_stream]. rewrite IH. cbn [s_arg seq map].
  f_equal; [f_equal; lia|]. rewrite <- seq_shift, map_map. apply map_ext. intros i. f_equal. lia. Qed.

Lemma nth_error_bump l : forall id z u, nth_error l id = Some (z, u) -> nth_error (bump l id) id = Some (z, S u).
Proof. induction l as [|[z0 u0] t IH]; intros id z u H; destruct id; cbn in *; try discriminate.
  - now inversion H.
  - now apply IH. Qed.

Lemma draws_new id n : forall st z u, nth_error (s_new st) id = Some (z, u) ->
  draws (draw_stream origin (SNew id)) n st = map (fun i => KSeed z [] (u + i)) (seq 0 n).
Proof. induction n as [|n IH]; intros st z u H; [reflexivity|]. cbn [draws draw_stream]. rewrite H.
  rewrite (IH _ z (S u)) by (cbn [s_new]; now apply nth_error_bump). cbn [seq map].
  f_equal; [f_equal; lia|]. rewrite <- seq_shift, map_map. apply map_ext. intros i. f_equal. lia. Qed.
End Draws.

(* ------------------------------------------------------------------ tasks on loss objects *)
(* when every task that occurs loads into its OWN object, every program-ordered interleaving lets each task optimise over its data *)
Theorem run_objs_private_race_free reg_of sched : forall seen regs,
  (forall s, In s sched -> reg_of (step_task s) = Some (step_task s)) ->
  program_order seen sched = true -> (forall t, In t seen -> regs (Some t) = Some t) ->
  Forall (fun tr => snd tr = Some (fst tr)) (run_objs reg_of regs sched).
Proof. induction sched as [|[t|t] r IH]; intros seen regs Hp Ho Hr; cbn in *.
  - constructor.
  - apply (IH (t :: seen)); [intros s Hs; apply Hp; now right|exact Ho|].
    pose proof (Hp (SetData t) (or_introl eq_refl)) as E. cbn [step_task] in E. rewrite E. cbn [obj_eqb]. intros u [<-|Hu].
    + now rewrite Nat.eqb_refl.
    + destruct (Nat.eqb_spec u t) as [->|_]; [reflexivity|now apply Hr].
  - apply andb_true_iff in Ho. destruct Ho as [Hs Ho]. constructor.
    + cbn. pose proof (Hp (Optimize t) (or_introl eq_refl)) as E0. cbn [step_task] in E0. rewrite E0. apply Hr.
      apply existsb_exists in Hs. destruct Hs as [u [Hu E1]]. apply Nat.eqb_eq in E1. now subst.
    + apply (IH seen); [intros s Hs'; apply Hp; now right|exact Ho|exact Hr]. Qed.
