(* C13 - the repaired MProcess.calc_proj_eq_constraint_with_var (copy.deepcopy of the HS arrays before the in-place
   update) returns, for all sizes and inputs, exactly the values that the code before the fix returned: the repair
   removes the write into the argument and nothing else.
   Core of the argument: the body of the function ([proj_eq_core]) depends on the heap only through the values read
   from its list of arrays, provided the arrays of the list do not overlap each other. *)
From Coq Require Import List Arith Bool Lia.
From QV.Core Require Import OF.
From QV.Model Require Import C13_Heap.
From QV.Proofs Require Import C13_Heap.
Import ListNotations.

Section Value.
Context (F : OF).
Notation "0" := (c0 F). Notation "1" := (c1 F).
Infix "+" := (cadd F). Infix "*" := (cmul F). Infix "-" := (csub F). Infix "/" := (kdiv F).
Notation heap := (heap F). Notation alloc := (alloc F). Notation isub := (isub F). Notation rd := (rd F).
Notation dummy := C13_Heap.dummy.

Section Fold.
Variables (d2 hs : nat).
Hypothesis Hdh : (d2 <= hs)%nat.

(* two arrays of length hs that do not overlap *)
Definition disj (a b : arr) : Prop :=
  a_buf a <> a_buf b \/ (a_off a + hs <= a_off b)%nat \/ (a_off b + hs <= a_off a)%nat.
Lemma disj_sym a b : disj a b -> disj b a.
Proof. unfold disj. intros [H|[H|H]]; [left; congruence|right; right; exact H|right; left; exact H]. Qed.

Lemma isub_rd_same (h : heap) a c j :
  rd (isub h (view a 0 d2) c) a j = if Nat.ltb j d2 then rd h a j - c j else rd h a j.
Proof.
  unfold C13_Heap.rd, C13_Heap.isub, C13_Heap.view. cbn [h_buf a_buf a_off a_len b_dat].
  rewrite Nat.eqb_refl. cbn [b_dat].
  replace (Nat.leb (a_off a + 0) (a_off a + j)) with true by (symmetry; apply Nat.leb_le; lia).
  cbn [andb].
  destruct (Nat.ltb_spec j d2) as [H|H].
  - replace (Nat.ltb (a_off a + j) (a_off a + 0 + d2)) with true by (symmetry; apply Nat.ltb_lt; lia).
    f_equal. f_equal. lia.
  - replace (Nat.ltb (a_off a + j) (a_off a + 0 + d2)) with false by (symmetry; apply Nat.ltb_ge; lia). reflexivity.
Qed.

Lemma isub_rd_other (h : heap) a b c j : disj a b -> (j < hs)%nat -> rd (isub h (view a 0 d2) c) b j = rd h b j.
Proof.
  intros D Hj. unfold C13_Heap.rd, C13_Heap.isub, C13_Heap.view. cbn [h_buf a_buf a_off a_len b_dat].
  destruct (Nat.eqb_spec (a_buf b) (a_buf a)) as [E|E]; [|reflexivity]. cbn [b_dat].
  destruct D as [D|[D|D]]; [congruence| |].
  - replace (Nat.ltb (a_off b + j) (a_off a + 0 + d2)) with false by (symmetry; apply Nat.ltb_ge; lia).
    now rewrite andb_false_r.
  - replace (Nat.leb (a_off a + 0) (a_off b + j)) with false by (symmetry; apply Nat.leb_gt; lia). reflexivity.
Qed.

Variable c : nat -> F.
Let stepf := fun (hh : heap) a => isub hh (view a 0 d2) c.

Lemma fold_rd_other (l : list arr) : forall (h : heap) b j,
  (forall a, In a l -> disj a b) -> (j < hs)%nat -> rd (fold_left stepf l h) b j = rd h b j.
Proof.
  induction l as [|a l IH]; intros h b j H Hj; [reflexivity|]. cbn [fold_left].
  rewrite IH; [|intros x Hx; apply H; now right|exact Hj].
  unfold stepf. apply isub_rd_other; [apply H; now left|exact Hj].
Qed.

(* a list of pairwise non-overlapping arrays *)
Inductive sepl : list arr -> Prop :=
| sep_nil : sepl []
| sep_cons a l : (forall b, In b l -> disj a b) -> sepl l -> sepl (a :: l).

(* after the in-place updates every array of the list holds its old values, the first d2 entries lowered by c *)
Lemma fold_rd (l : list arr) : sepl l -> forall (h : heap) k j, (k < length l)%nat -> (j < hs)%nat ->
  rd (fold_left stepf l h) (nth k l dummy) j =
  if Nat.ltb j d2 then rd h (nth k l dummy) j - c j else rd h (nth k l dummy) j.
Proof.
  induction 1 as [|a l Ha Hs IH]; intros h k j Hk Hj; [cbn in Hk; lia|].
  cbn [fold_left]. destruct k as [|k]; cbn [nth].
  - rewrite fold_rd_other; [|intros x Hx; apply disj_sym; now apply Ha|exact Hj].
    unfold stepf. apply isub_rd_same.
  - cbn in Hk. rewrite IH by (try lia; exact Hj).
    assert (E : rd (stepf h a) (nth k l dummy) j = rd h (nth k l dummy) j).
    { unfold stepf. apply isub_rd_other; [|exact Hj]. apply Ha. apply nth_In. lia. }
    now rewrite E.
Qed.
End Fold.

(* sums over two lists with pointwise equal summands *)
Lemma sum_ext (g g' : arr -> F) : forall (l l' : list arr),
  length l = length l' -> (forall k, (k < length l)%nat -> g (nth k l dummy) = g' (nth k l' dummy)) ->
  forall acc, fold_left (fun ac a => ac + g a) l acc = fold_left (fun ac a => ac + g' a) l' acc.
Proof.
  induction l as [|a l IH]; intros [|a' l'] Hl H acc; try discriminate; [reflexivity|].
  cbn [fold_left]. assert (H0 : g a = g' a') by (apply (H 0%nat); cbn; lia). rewrite H0. apply IH; [now injection Hl|].
  intros k Hk. apply (H (S k)). cbn; lia.
Qed.

Lemma alloc_rd (h : heap) n f i : rd (fst (alloc h n f)) (snd (alloc h n f)) i = f i.
Proof. unfold C13_Heap.rd, C13_Heap.alloc. cbn [fst snd h_buf a_buf a_off b_dat]. now rewrite Nat.eqb_refl. Qed.

(* MAIN LEMMA: the body of the function is a function of the VALUES of its (non-overlapping) arrays *)
Lemma core_ext (h1 h1' : heap) (hss hss' : list arr) d2 on_para :
  (1 <= d2)%nat -> length hss = length hss' -> (1 <= length hss)%nat ->
  sepl (d2 * d2) hss -> sepl (d2 * d2) hss' ->
  (forall k j, (k < length hss)%nat -> (j < d2 * d2)%nat -> rd h1 (nth k hss dummy) j = rd h1' (nth k hss' dummy) j) ->
  a_len (snd (proj_eq_core F h1 d2 on_para hss)) = a_len (snd (proj_eq_core F h1' d2 on_para hss')) /\
  forall i, (i < a_len (snd (proj_eq_core F h1 d2 on_para hss)))%nat ->
    rd (fst (proj_eq_core F h1 d2 on_para hss)) (snd (proj_eq_core F h1 d2 on_para hss)) i =
    rd (fst (proj_eq_core F h1' d2 on_para hss')) (snd (proj_eq_core F h1' d2 on_para hss')) i.
Proof.
  intros Hd Hl Hn S S' R. unfold C13_Heap.proj_eq_core. rewrite <- Hl.
  set (hs := (d2 * d2)%nat) in *. set (n := length hss) in *.
  assert (Hdh : (d2 <= hs)%nat). { unfold hs. rewrite <- (Nat.mul_1_r d2) at 1. apply Nat.mul_le_mono_l. exact Hd. }
  assert (Hpos : hs <> 0%nat) by lia.
  set (c := fun j => (fold_left (fun acc a => acc + rd h1 a j) hss 0 - e0 F j) / fnat F n).
  set (c' := fun j => (fold_left (fun acc a => acc + rd h1' a j) hss' 0 - e0 F j) / fnat F n).
  assert (Hc : forall j, (j < hs)%nat -> c j = c' j).
  { intros j Hj. unfold c, c'. f_equal. f_equal. apply sum_ext; [exact Hl|]. intros k Hk. now apply R. }
  set (h2 := fold_left (fun hh a => isub hh (view a 0 d2) c) hss h1).
  set (h2' := fold_left (fun hh a => isub hh (view a 0 d2) c') hss' h1').
  assert (Hrl : forall i, (i < n * hs)%nat -> rd_list F h2 hss hs i = rd_list F h2' hss' hs i).
  { intros i Hi. unfold C13_Heap.rd_list.
    assert (Hk : (i / hs < n)%nat) by (apply Nat.div_lt_upper_bound; [exact Hpos|rewrite Nat.mul_comm; exact Hi]).
    assert (Hj : (i mod hs < hs)%nat) by (apply Nat.mod_upper_bound; exact Hpos).
    unfold h2, h2'. rewrite (fold_rd d2 hs Hdh c hss S h1 _ _ Hk Hj).
    rewrite (fold_rd d2 hs Hdh c' hss' S' h1' (i / hs) (i mod hs)) by (try (rewrite <- Hl; exact Hk); exact Hj).
    rewrite (R _ _ Hk Hj). destruct (Nat.ltb_spec (i mod hs) d2) as [Hlt|_]; [|reflexivity].
    rewrite (Hc _ Hj). reflexivity. }
  destruct on_para; cbn [C13_Heap.alloc snd a_len]; (split; [reflexivity|]); intros i Hi; rewrite !alloc_rd.
  - assert (Hnh : (hs <= n * hs)%nat). { rewrite <- (Nat.mul_1_l hs) at 1. apply Nat.mul_le_mono_r. exact Hn. }
    destruct (Nat.ltb_spec i ((n - 1) * hs)) as [A|A].
    + apply Hrl. assert ((n - 1) * hs <= n * hs)%nat by (apply Nat.mul_le_mono_r; lia). lia.
    + apply Hrl. lia.
  - now apply Hrl.
Qed.

(* ---- the two lists the function works on: views of one array at multiples of hs, and their deep copies ---- *)
Lemma sepl_views (v : arr) hs n : forall s, sepl hs (map (fun k => view v (k * hs) hs) (seq s n)).
Proof.
  induction n as [|n IH]; intros s; cbn [seq map]; [constructor|]. constructor; [|apply IH].
  intros b Hb. apply in_map_iff in Hb as [k [<- Hk]]. apply in_seq in Hk. right. left. cbn [C13_Heap.view a_off].
  assert ((s + 1) * hs <= k * hs)%nat by (apply Nat.mul_le_mono_r; lia). lia.
Qed.

Lemma copy_all_sep hs (l : list arr) : forall (h : heap), sepl hs (snd (copy_all F h l)).
Proof.
  induction l as [|a l IH]; intros h; cbn [C13_Heap.copy_all snd]; [constructor|]. constructor; [|apply IH].
  intros b Hb. left. cbn [C13_Heap.alloc snd a_buf].
  destruct (copy_all_spec F l (fst (alloc h (a_len a) (rd h a)))) as [_ [_ [C _]]].
  specialize (C b Hb). rewrite alloc_next in C. lia.
Qed.

(* a copy holds the values of its original (arrays that are live in the heap the copies are made in) *)
Lemma copy_all_rd (l : list arr) : forall (h : heap) k j,
  (forall a, In a l -> live F h a) -> (k < length l)%nat ->
  rd (fst (copy_all F h l)) (nth k (snd (copy_all F h l)) dummy) j = rd h (nth k l dummy) j.
Proof.
  induction l as [|a l IH]; intros h k j Hlive Hk; [cbn in Hk; lia|].
  cbn [C13_Heap.copy_all fst snd]. set (h1 := fst (alloc h (a_len a) (rd h a))).
  destruct k as [|k]; cbn [nth].
  - (* the first copy lives in buffer h_next h, untouched by the later allocations *)
    unfold C13_Heap.rd at 1. cbn [C13_Heap.alloc snd a_buf a_off].
    destruct (copy_all_spec F l h1) as [A _]. rewrite A by (unfold h1; rewrite alloc_next; lia).
    unfold h1. cbn [C13_Heap.alloc fst h_buf]. rewrite Nat.eqb_refl. reflexivity.
  - cbn in Hk. rewrite IH; [| |lia].
    + assert (L : live F h (nth k l dummy)) by (apply Hlive; right; apply nth_In; lia).
      unfold C13_Heap.rd. unfold h1. now rewrite alloc_old.
    + intros x Hx. unfold live, h1. rewrite alloc_next. specialize (Hlive x (or_intror Hx)). unfold live in Hlive. lia.
Qed.

(* what convert_var_to_hss returns: non-overlapping arrays, all live, at least ... as many as the length says *)
Lemma convert_shape (h : heap) d2 on_para var h1 hss :
  convert_var_to_hss F h d2 on_para var = Some (h1, hss) -> live F h var ->
  sepl (d2 * d2) hss /\ (forall a, In a hss -> live F h1 a).
Proof.
  unfold C13_Heap.convert_var_to_hss. destruct on_para.
  - cbn [C13_Heap.alloc]. match goal with |- context [if ?c then _ else _] => destruct c end; [|discriminate].
    intros E _. inversion E; subst; clear E. split; [apply sepl_views|].
    intros a Ha. apply in_map_iff in Ha as [k [<- _]]. unfold live. cbn. lia.
  - match goal with |- context [if ?c then _ else _] => destruct c end; [|discriminate].
    intros E L. inversion E; subst; clear E. split; [apply sepl_views|].
    intros a Ha. apply in_map_iff in Ha as [k [<- _]]. exact L.
Qed.

(* MAIN: same returned values before and after the fix *)
Theorem proj_eq_fixed_same_values (h : heap) d2 on_para var h0 r0 h' r' :
  (1 <= d2)%nat -> live F h var ->
  proj_eq_with_var F h d2 on_para var = Some (h0, r0) ->
  proj_eq_with_var_fixed F h d2 on_para var = Some (h', r') ->
  a_len r' = a_len r0 /\ forall i, (i < a_len r0)%nat -> rd h' r' i = rd h0 r0 i.
Proof.
  intros Hd L. unfold C13_Heap.proj_eq_with_var, C13_Heap.proj_eq_with_var_fixed.
  destruct (convert_var_to_hss F h d2 on_para var) as [[h1 hss]|] eqn:E; [|discriminate].
  destruct (convert_shape h d2 on_para var h1 hss E L) as [S Lv].
  intros E0 E1. injection E0 as E0. injection E1 as E1.
  destruct (copy_all_spec F hss h1) as [_ [_ [_ Hlen]]].
  destruct hss as [|a0 hss0] eqn:Eh.
  - (* no HS array at all: both versions allocate the same (empty) result *)
    cbn [C13_Heap.copy_all fst snd] in E1. rewrite E0 in E1. injection E1 as <- <-. split; [reflexivity|intros; reflexivity].
  - rewrite <- Eh in *.
    assert (Hn : (1 <= length hss)%nat) by (rewrite Eh; cbn; lia).
    destruct (core_ext h1 (fst (copy_all F h1 hss)) hss (snd (copy_all F h1 hss)) d2 on_para Hd (eq_sym Hlen) Hn S
                (copy_all_sep (d2 * d2) hss h1)) as [A B].
    { intros k j Hk Hj. symmetry. apply copy_all_rd; [exact Lv|exact Hk]. }
    rewrite E0, E1 in A, B. cbn [fst snd] in A, B. split; [now symmetry|].
    intros i Hi. symmetry. now apply B.
Qed.
End Value.
