(* C07 — the EXECUTED model (Exec/C07_ops.v: [eval_fast] with index maps instead of permutation matrices, memoised by
   [vfreeze]) satisfies the same soundness / totality statements as the specification-level [eval]:
   one product step of [tp_obj_fast] returns the same error code or an object with the same subsystem data and an
   entrywise equal matrix as [tp_obj] (operands that denote Kronecker products), hence [eval_fast] denotes the Kronecker
   product of all the leaves' factors in ascending name order and returns a value under the same conditions. *)
From Coq Require Import Arith List Bool ZArith Lia Permutation Sorted.
From QV.Core Require Import OF Sums Mat.
From QV.Exec Require Import Base.
From QV.Model Require Import C07_Tensor.
From QV.Proofs Require Import C07_Kron C07_Perm C07_Loop C07_Main C07_Products.
Import ListNotations.

Lemma vfreeze_memo_ok : memo_ok (vfreeze 0%nat).
Proof. intros n f i Hi. now apply vfreeze_spec. Qed.

Section Fast.
Context {R : CR}.
Local Notation mat := (@Mat.mat R).
Local Notation rfac := (@rfac R). Local Notation robj := (@robj R). Local Notation texp := (@texp R).

(* same subsystem data, matrices equal on the object's index range *)
Definition oeq (a b : robj) : Prop :=
  o_names a = o_names b /\ o_rs a = o_rs b /\ o_cs a = o_cs b /\
  meq (prodn (o_rs a)) (prodn (o_cs a)) (o_m a) (o_m b).
Definition prel (a b : pres robj) : Prop :=
  match a, b with POk x, POk y => oeq x y | PErr c, PErr c' => c = c' | _, _ => False end.

Lemma denotes_oeq (o o' : robj) items : denotes o items -> oeq o o' -> denotes o' items.
Proof. intros (N & Rr & Cc & S & ND & Fp & M) (EN & ER & EC & EM). unfold denotes.
  rewrite <- EN, <- ER, <- EC. repeat split; try assumption.
  rewrite Rr, Cc in EM. fold (rsize (map snd items)) (csize (map snd items)) in EM.
  eapply meq_trans; [apply meq_sym; exact EM|exact M]. Qed.

Lemma map_fs_combine3 (names : list Z) (rs cs : list nat) : length names = length rs -> length rs = length cs ->
  map (fun x : Z * (nat * nat) => fst (snd x)) (combine names (combine rs cs)) = rs /\
  map (fun x : Z * (nat * nat) => snd (snd x)) (combine names (combine rs cs)) = cs.
Proof. intros H1 H2.
  assert (L : length names = length (combine rs cs)) by (rewrite combine_length; lia).
  split.
  - rewrite <- (map_map snd fst). rewrite (map_snd_combine names _ L). now apply map_fst_combine.
  - rewrite <- (map_map snd snd). rewrite (map_snd_combine names _ L). now apply map_snd_combine. Qed.

Lemma srt_sizes (names : list Z) (rs cs : list nat) : length names = length rs -> length rs = length cs ->
  let srt := sort_by_name (combine names (combine rs cs)) in
  prodn (map (fun x => fst (snd x)) srt) = prodn rs /\ prodn (map (fun x => snd (snd x)) srt) = prodn cs.
Proof. intros H1 H2 srt. destruct (map_fs_combine3 names rs cs H1 H2) as [E1 E2]. split.
  - transitivity (prodn (map (fun x : Z * (nat * nat) => fst (snd x)) (combine names (combine rs cs)))); [|now rewrite E1].
    apply prodn_perm. apply Permutation_map. apply sort_perm.
  - transitivity (prodn (map (fun x : Z * (nat * nat) => snd (snd x)) (combine names (combine rs cs)))); [|now rewrite E2].
    apply prodn_perm. apply Permutation_map. apply sort_perm. Qed.

Lemma meq_mT n (A B : mat) : meq n n A B -> meq n n (mT A) (mT B).
Proof. intros H i j Hi Hj. unfold mT. now apply H. Qed.

(* one product step: specification-level and executed version agree *)
Theorem tp_obj_fast_rel memo k md fuel (o1 o2 : robj) items1 items2 : memo_ok memo ->
  denotes o1 items1 -> denotes o2 items2 -> kind_ok k (map snd (items1 ++ items2)) ->
  prel (tp_obj k md fuel o1 o2) (tp_obj_fast memo k md fuel o1 o2).
Proof. intros Hmemo (N1 & R1 & C1 & _ & _ & F1 & _) (N2 & R2 & C2 & _ & _ & F2 & _) Hk.
  unfold tp_obj, tp_obj_fast.
  set (names := o_names o1 ++ o_names o2). set (rs := o_rs o1 ++ o_rs o2). set (cs := o_cs o1 ++ o_cs o2).
  destruct (nodupb names); cbn [negb]; [|reflexivity].
  assert (Ln : length names = length rs).
  { unfold names, rs. rewrite !app_length, N1, N2, R1, R2, !map_length. reflexivity. }
  assert (Lr : length rs = length cs).
  { unfold rs, cs. rewrite !app_length, R1, R2, C1, C2, !map_length. reflexivity. }
  destruct (srt_sizes names rs cs Ln Lr) as [Srs Scs]. cbv zeta in Srs, Scs.
  set (srt := sort_by_name (combine names (combine rs cs))) in *.
  assert (Prs : prodn rs = (prodn (o_rs o1) * prodn (o_rs o2))%nat) by (unfold rs; apply prodn_app).
  assert (Pcs : prodn cs = (prodn (o_cs o1) * prodn (o_cs o2))%nat) by (unfold cs; apply prodn_app).
  set (Xf := kron (prodn (o_rs o2)) (prodn (o_cs o2)) (o_m o1) (o_m o2)).
  set (X := match k with
            | KHs => hs_hs_core (prodn (o_rs o1)) (prodn (o_rs o2)) (o_m o1) (o_m o2)
            | _ => Xf
            end).
  assert (HX : meq (prodn rs) (prodn cs) X Xf).
  { unfold X. destruct k; try apply meq_refl.
    cbn [kind_ok] in Hk. rewrite map_app in Hk. apply Forall_app in Hk. destruct Hk as [K1 K2].
    assert (E1 : o_cs o1 = o_rs o1) by (rewrite C1, R1; now apply square_sizes).
    assert (E2 : o_cs o2 = o_rs o2) by (rewrite C2, R2; now apply square_sizes).
    rewrite Pcs, Prs. unfold Xf. rewrite E1, E2. apply hs_hs_core_kron. }
  (* rows: Q X  =  X o sq *)
  assert (Rows : forall (Q : mat) sq, meq (prodn rs) (prodn rs) Q (pmat sq) ->
            (forall i, (i < prodn rs)%nat -> (sq i < prodn rs)%nat) ->
            meq (prodn rs) (prodn cs) (mmul (prodn rs) Q X) (fun i j => Xf (sq i) j)).
  { intros Q sq HQ Hsq i j Hi Hj.
    rewrite (mmul_ext_l (prodn rs) Q (pmat sq) X (prodn rs) i j Hi HQ).
    rewrite mmul_pmat_l by (now apply Hsq). apply HX; [now apply Hsq|exact Hj]. }
  pose proof (@calc_perm_map_correct R memo md fuel names rs Hmemo) as HQ.
  pose proof (@calc_perm_map_correct R memo md fuel names cs Hmemo) as HP.
  unfold perm_rel in HQ, HP.
  assert (Two : prel
    match @calc_perm_matrix R md fuel names cs with
    | PErr c => PErr c
    | POk P => match @calc_perm_matrix R md fuel names rs with
               | PErr c => PErr c
               | POk Q => POk {| o_names := map fst srt; o_rs := map (fun x => fst (snd x)) srt;
                                 o_cs := map (fun x => snd (snd x)) srt;
                                 o_m := mmul (prodn cs) (mmul (prodn rs) Q X) (mT P) |}
               end
    end
    match calc_perm_map memo md fuel names cs with
    | PErr c => PErr c
    | POk sp => match calc_perm_map memo md fuel names rs with
                | PErr c => PErr c
                | POk sq => POk {| o_names := map fst srt; o_rs := map (fun x => fst (snd x)) srt;
                                   o_cs := map (fun x => snd (snd x)) srt;
                                   o_m := fun i j => Xf (sq i) (sp j) |}
                end
    end).
  { destruct (@calc_perm_matrix R md fuel names cs) as [P|c], (calc_perm_map memo md fuel names cs) as [sp|c'];
      try contradiction; [|exact HP].
    destruct (@calc_perm_matrix R md fuel names rs) as [Q|c], (calc_perm_map memo md fuel names rs) as [sq|c'];
      try contradiction; [|exact HQ].
    destruct HP as [HPm HPb]. destruct HQ as [HQm HQb].
    cbn [prel]. unfold oeq. cbn [o_names o_rs o_cs o_m]. repeat split. rewrite Srs, Scs.
    intros i j Hi Hj.
    rewrite (mmul_ext (prodn cs) _ (fun a b => Xf (sq a) b) _ (mT (pmat sp)) (prodn rs) (prodn cs)
               (Rows Q sq HQm HQb) (meq_mT _ _ _ HPm) i j Hi Hj).
    rewrite mmul_pmat_rT by (now apply HPb). reflexivity. }
  destruct k; [|exact Two|exact Two].
  destruct (@calc_perm_matrix R md fuel names rs) as [Q|c], (calc_perm_map memo md fuel names rs) as [sq|c'];
    try contradiction; [|exact HQ].
  destruct HQ as [HQm HQb]. cbn [prel]. unfold oeq. cbn [o_names o_rs o_cs o_m]. repeat split.
  rewrite Srs, Scs. now apply Rows. Qed.

(* ---- any order, any grouping, for the executed evaluator *)
Theorem eval_fast_sound memo k md fuel : memo_ok memo -> forall (d : @dtree R) o, dwf d -> kind_ok k (map snd (ditems d)) ->
  (md = Fixed \/ length (ditems d) <= 3)%nat ->
  eval_fast memo k md fuel (erase d) = POk o -> exists items, Permutation (ditems d) items /\ denotes o items.
Proof. intros Hmemo. induction d as [o0 it|l IHl r IHr]; intros o Hwf Hk Hmd H; cbn in *.
  - inversion H; subst. exists it. split; [apply Permutation_refl|exact Hwf].
  - destruct Hwf as [Wl Wr]. rewrite map_app in Hk. apply kind_ok_app in Hk. destruct Hk as [Kl Kr].
    rewrite app_length in Hmd.
    destruct (eval_fast memo k md fuel (erase l)) as [a|c] eqn:Ea; [|discriminate].
    destruct (eval_fast memo k md fuel (erase r)) as [b|c] eqn:Eb; [|discriminate].
    destruct (IHl a Wl Kl ltac:(destruct Hmd; [now left|right; lia]) eq_refl) as (ia & Pa & Da).
    destruct (IHr b Wr Kr ltac:(destruct Hmd; [now left|right; lia]) eq_refl) as (ib & Pb & Db).
    assert (Pab : Permutation (ditems l ++ ditems r) (ia ++ ib)) by (now apply Permutation_app).
    assert (Kab : kind_ok k (map snd (ia ++ ib))).
    { eapply kind_ok_perm; [apply Permutation_map; exact Pab|]. rewrite map_app. apply kind_ok_app. now split. }
    pose proof (tp_obj_fast_rel memo k md fuel a b ia ib Hmemo Da Db Kab) as Hrel.
    rewrite H in Hrel. destruct (tp_obj k md fuel a b) as [o'|c] eqn:Eo; cbn [prel] in Hrel; [|contradiction].
    destruct (tp_obj_sound k md fuel a b o' ia ib Da Db Kab) as (items & Pi & Di).
    + rewrite <- (Permutation_length Pab), app_length. exact Hmd.
    + exact Eo.
    + exists items. split; [eapply Permutation_trans; [exact Pab|exact Pi]|]. now apply (denotes_oeq o' o). Qed.

Theorem eval_fast_total memo k md fuel : memo_ok memo -> forall (d : @dtree R), dwf d -> kind_ok k (map snd (ditems d)) ->
  NoDup (map fst (ditems d)) -> (md = Fixed \/ length (ditems d) <= 3)%nat ->
  (length (ditems d) * length (ditems d) <= fuel)%nat ->
  exists o, eval_fast memo k md fuel (erase d) = POk o.
Proof. intros Hmemo. induction d as [o0 it|l IHl r IHr]; intros Hwf Hk Hnd Hmd Hfuel; cbn in *.
  - eexists; reflexivity.
  - destruct Hwf as [Wl Wr]. rewrite map_app in Hk, Hnd. apply kind_ok_app in Hk. destruct Hk as [Kl Kr].
    rewrite app_length in Hmd, Hfuel.
    set (nl := length (ditems l)) in *. set (nr := length (ditems r)) in *.
    assert (Hml : (md = Fixed \/ nl <= 3)%nat) by (destruct Hmd; [now left|right; lia]).
    assert (Hmr : (md = Fixed \/ nr <= 3)%nat) by (destruct Hmd; [now left|right; lia]).
    assert (Hfl : (nl * nl <= fuel)%nat).
    { eapply Nat.le_trans; [|exact Hfuel]. apply Nat.mul_le_mono; lia. }
    assert (Hfr : (nr * nr <= fuel)%nat).
    { eapply Nat.le_trans; [|exact Hfuel]. apply Nat.mul_le_mono; lia. }
    destruct (IHl Wl Kl (nodup_app_l _ _ Hnd) Hml Hfl) as (a & Ea).
    destruct (IHr Wr Kr (nodup_app_r _ _ Hnd) Hmr Hfr) as (b & Eb).
    rewrite Ea, Eb.
    destruct (eval_fast_sound memo k md fuel Hmemo l a Wl Kl Hml Ea) as (ia & Pa & Da).
    destruct (eval_fast_sound memo k md fuel Hmemo r b Wr Kr Hmr Eb) as (ib & Pb & Db).
    assert (Pab : Permutation (ditems l ++ ditems r) (ia ++ ib)) by (now apply Permutation_app).
    assert (Kab : kind_ok k (map snd (ia ++ ib))).
    { eapply kind_ok_perm; [apply Permutation_map; exact Pab|]. rewrite map_app. apply kind_ok_app. now split. }
    destruct (tp_obj_total k md fuel a b ia ib Da Db) as (o' & Eo).
    + eapply Permutation_NoDup; [apply Permutation_map; exact Pab|]. now rewrite map_app.
    + rewrite <- (Permutation_length Pab), app_length. exact Hmd.
    + rewrite <- (Permutation_length Pab), app_length. exact Hfuel.
    + pose proof (tp_obj_fast_rel memo k md fuel a b ia ib Hmemo Da Db Kab) as Hrel.
      rewrite Eo in Hrel. destruct (tp_obj_fast memo k md fuel a b) as [o|c]; cbn [prel] in Hrel; [|contradiction].
      eexists; reflexivity. Qed.
End Fast.
