(* C09 — linear estimation: proofs.  Everything is generic in the ordered field F and axiom-free.
   Only hypothesis about the inverse used anywhere: the LEFT-inverse certificate  M (A^T A) = I  on the n x n block
   (the right-inverse property and the symmetry of M are derived from it, because A^T A is symmetric). *)
From Coq Require Import Field Ring Setoid Arith Lia Bool List ZArith.
From QV.Core Require Import OF Sums Mat.
From QV.Model Require Import C09_LinEst.
Import ListNotations.

Section P.
Context (F : OF).
Add Field Ff9 : (k_field F).
Notation "0" := (c0 F). Notation "1" := (c1 F).
Infix "+" := (cadd F). Infix "*" := (cmul F). Infix "<=" := (kle F). Infix "-" := (csub F).
Infix "/" := (kdiv F). Notation "- x" := (copp F x).
Notation mat := (@mat F).
Notation vec := (@vec F).

(* ------------------------------------------------------------------ small order / sum facts *)
Lemma nonneg_sum_zero a c : 0 <= a -> 0 <= c -> a + c = 0 -> a = 0 /\ c = 0.
Proof. intros Ha Hc E.
  assert (A0 : a = 0).
  { apply (k_antisym F); [|exact Ha]. replace a with ((a + c) - c) by ring. rewrite E.
    replace (0 - c) with (- c) by ring. now apply opp_nonpos. }
  split; [exact A0|]. rewrite A0 in E. rewrite <- E. ring. Qed.

Lemma sqr_zero x : x * x = 0 -> x = 0.
Proof. intros E. apply (sum_sqr_zero F x 0). rewrite E. ring. Qed.

Lemma dot_self_nonneg m (u : vec) : 0 <= dot m u u.
Proof. unfold dot. induction m as [|m IH]; cbn [sumn]; [apply k_refl|].
  apply add_nonneg; [exact IH|apply sqr_nonneg]. Qed.

Lemma dot_self_zero m (u : vec) : dot m u u = 0 -> veq m u vzero.
Proof. unfold dot. induction m as [|m IH]; intros E i Hi; [lia|]. cbn [sumn] in E.
  destruct (nonneg_sum_zero _ _ (dot_self_nonneg m u) (sqr_nonneg F (u m)) E) as [E1 E2].
  destruct (Nat.eq_dec i m) as [->|Hne]; [now apply sqr_zero|]. apply IH; [exact E1|lia]. Qed.

Lemma dot_zero_r n (x y : vec) : veq n y vzero -> dot n x y = 0.
Proof. intros H. unfold dot. apply sumn_zero'. intros i Hi. rewrite (H i Hi). unfold vzero. ring. Qed.

Lemma mv_zero m n (A : mat) (u : vec) : veq n u vzero -> veq m (mv n A u) vzero.
Proof. intros H i _. unfold mv, vzero. apply sumn_zero'. intros j Hj. rewrite (H j Hj). unfold vzero. ring. Qed.

(* ------------------------------------------------------------------ the Gram matrix and the certificate *)
Lemma gram_sym m (A : mat) i j : gram m A i j = gram m A j i.
Proof. unfold gram, mmul, mT. apply sumn_ext; intros; ring. Qed.

Lemma gram_mv m n (A : mat) (x : vec) i : mv m (mT A) (mv n A x) i = mv n (gram m A) x i.
Proof. unfold gram. now rewrite mv_mmul. Qed.

Section Cert.
Variables (n : nat) (M G : mat).
Hypothesis Gsym : forall i j, (i < n)%nat -> (j < n)%nat -> G i j = G j i.
Hypothesis HM : left_inverse_cert n M G.

Lemma cert_transpose : meq n n (mmul n G (mT M)) mid.
Proof. intros i j Hi Hj. unfold mmul, mT.
  rewrite (sumn_ext n _ (fun k => M j k * G k i)).
  2:{ intros k Hk. rewrite (Gsym i k) by assumption. ring. }
  change (mmul n M G j i = mid i j). rewrite HM by assumption. unfold mid. now rewrite Nat.eqb_sym. Qed.

Lemma cert_symmetric : meq n n M (mT M).
Proof. intros i j Hi Hj.
  rewrite <- (mmul_id_r n M i j Hj).
  rewrite (mmul_ext n M M mid (mmul n G (mT M)) n n (meq_refl n n M) (meq_sym _ _ _ _ cert_transpose) i j Hi Hj).
  rewrite <- mmul_assoc.
  rewrite (mmul_ext n (mmul n M G) mid (mT M) (mT M) n n HM (meq_refl n n (mT M)) i j Hi Hj).
  now apply mmul_id_l. Qed.

Lemma cert_right : meq n n (mmul n G M) mid.
Proof. intros i j Hi Hj. rewrite <- (cert_transpose i j Hi Hj).
  apply (mmul_ext n G G M (mT M) n n (meq_refl n n G) cert_symmetric i j Hi Hj). Qed.
End Cert.

Lemma cert_apply n (M G : mat) (v : vec) : left_inverse_cert n M G -> veq n (mv n M (mv n G v)) v.
Proof. intros H i Hi. rewrite <- mv_mmul.
  rewrite (mv_ext n n (mmul n M G) mid v v H (veq_refl n v) i Hi). now apply mv_mid. Qed.

(* ------------------------------------------------------------------ main theorems *)
Section Main.
Variables (m n : nat) (M A : mat).
Hypothesis HM : left_inverse_cert n M (gram m A).

Let Gsym : forall i j, (i < n)%nat -> (j < n)%nat -> gram m A i j = gram m A j i.
Proof. intros; apply gram_sym. Qed.

(* (1) normal equations:  A^T (A x - (f - b)) = 0 *)
Theorem normal_equations b f :
  veq n (mv m (mT A) (residual n A b f (estimate m n M A b f))) vzero.
Proof. intros i Hi. unfold residual. rewrite mv_vsub. unfold vsub at 1. rewrite gram_mv.
  unfold estimate. set (u := mv m (mT A) (vsub f b)).
  rewrite <- mv_mmul.
  rewrite (mv_ext n n _ mid u u (cert_right n M (gram m A) Gsym HM) (veq_refl n u) i Hi).
  rewrite mv_mid by exact Hi. unfold vzero. ring. Qed.

(* (2) Pythagoras, for ANY x satisfying the normal equations and any competitor z *)
Lemma pythagoras_gen (y x z : vec) :
  veq n (mv m (mT A) (vsub (mv n A x) y)) vzero ->
  nrm2 m (vsub (mv n A z) y) = nrm2 m (vsub (mv n A x) y) + nrm2 m (mv n A (vsub z x)).
Proof. intros Hn. unfold nrm2.
  set (r := vsub (mv n A x) y). set (d := mv n A (vsub z x)).
  assert (E : veq m (vsub (mv n A z) y) (vadd r d)).
  { intros i _. unfold r, d, vadd. rewrite mv_vsub. unfold vsub. ring. }
  rewrite (dot_ext m _ (vadd r d) _ (vadd r d) E E).
  rewrite dot_vadd_l, (dot_comm m r (vadd r d)), (dot_comm m d (vadd r d)), !dot_vadd_l.
  assert (X : dot m d r = 0).
  { unfold d. rewrite dot_mv. now apply dot_zero_r. }
  rewrite (dot_comm m r d), X. ring. Qed.

Theorem pythagoras b f z :
  nrm2 m (residual n A b f z) =
  nrm2 m (residual n A b f (estimate m n M A b f)) + nrm2 m (mv n A (vsub z (estimate m n M A b f))).
Proof. unfold residual. apply pythagoras_gen. exact (normal_equations b f). Qed.

(* (3) least squares *)
Theorem least_squares b f z :
  nrm2 m (residual n A b f (estimate m n M A b f)) <= nrm2 m (residual n A b f z).
Proof. rewrite (pythagoras b f z).
  set (a := nrm2 m (residual n A b f (estimate m n M A b f))).
  set (c := nrm2 m (mv n A (vsub z (estimate m n M A b f)))).
  apply le_sub. replace (a + c - a) with c by ring. apply dot_self_nonneg. Qed.

(* the forward map is injective: ||A w||^2 = 0 -> w = 0 (derived from the certificate) *)
Lemma cert_injective (w : vec) : veq m (mv n A w) vzero -> veq n w vzero.
Proof. intros H i Hi. rewrite <- (cert_apply n M (gram m A) w HM i Hi).
  apply (mv_zero n n M); [|exact Hi]. intros j Hj. rewrite <- gram_mv. now apply (mv_zero n m (mT A)). Qed.

Lemma nrm2_zero_injective (w : vec) : nrm2 m (mv n A w) = 0 -> veq n w vzero.
Proof. intros H. apply cert_injective. now apply dot_self_zero. Qed.

(* (4) uniqueness: whoever does at least as well as the estimate IS the estimate *)
Theorem least_squares_unique b f z :
  nrm2 m (residual n A b f z) <= nrm2 m (residual n A b f (estimate m n M A b f)) ->
  veq n z (estimate m n M A b f).
Proof. intros H. rewrite (pythagoras b f z) in H.
  set (a := nrm2 m (residual n A b f (estimate m n M A b f))) in *.
  set (c := nrm2 m (mv n A (vsub z (estimate m n M A b f)))) in *.
  assert (C0 : c = 0).
  { apply (k_antisym F); [|apply dot_self_nonneg].
    apply le_sub in H. replace (a - (a + c)) with (- c) in H by ring.
    apply le_sub. replace (0 - c) with (- c) by ring. exact H. }
  pose proof (nrm2_zero_injective _ C0) as Hz. intros i Hi. specialize (Hz i Hi).
  unfold vsub, vzero in Hz. replace (z i) with ((z i - estimate m n M A b f i) + estimate m n M A b f i) by ring.
  rewrite Hz. ring. Qed.

(* (5) exact recovery, for EVERY variable vector v *)
Theorem exact_recovery b f v : veq m f (predict n A b v) -> veq n (estimate m n M A b f) v.
Proof. intros Hf i Hi. unfold estimate.
  assert (E : veq n (mv m (mT A) (vsub f b)) (mv n (gram m A) v)).
  { intros j Hj. rewrite <- gram_mv. apply (mv_ext n m (mT A) (mT A)); [apply meq_refl| |exact Hj].
    intros k Hk. unfold vsub. rewrite (Hf k Hk). unfold predict, vadd. ring. }
  rewrite (mv_ext n n M M _ _ (meq_refl n n M) E i Hi). now apply cert_apply. Qed.

(* the estimate depends on the data only through f - b restricted to the m rows *)
Lemma estimate_ext b b' f f' : veq m (vsub f b) (vsub f' b') -> veq n (estimate m n M A b f) (estimate m n M A b' f').
Proof. intros H. unfold estimate. apply mv_ext; [apply meq_refl|]. apply mv_ext; [apply meq_refl|exact H]. Qed.

(* M is THE inverse: any two certified matrices give the same estimate *)
Theorem estimate_cert_unique M' b f : left_inverse_cert n M' (gram m A) ->
  veq n (estimate m n M' A b f) (estimate m n M A b f).
Proof. intros HM' i Hi. unfold estimate. set (u := mv m (mT A) (vsub f b)).
  assert (E : meq n n M' M).
  { intros a c Ha Hc. rewrite <- (mmul_id_r n M' a c Hc).
    rewrite (mmul_ext n M' M' mid (mmul n (gram m A) M) n n (meq_refl n n M')
               (meq_sym _ _ _ _ (cert_right n M (gram m A) Gsym HM)) a c Ha Hc).
    rewrite <- mmul_assoc.
    rewrite (mmul_ext n (mmul n M' (gram m A)) mid M M n n HM' (meq_refl n n M) a c Ha Hc).
    now apply mmul_id_l. }
  exact (mv_ext n n M' M u u E (veq_refl n u) i Hi). Qed.
End Main.

(* ------------------------------------------------------------------ the kernel certificate *)
Theorem kernel_no_inverse n (G M : mat) (w : vec) : kernel_cert n G w -> ~ left_inverse_cert n M G.
Proof. intros [Hk [i [Hi Hw]]] HM. apply Hw. rewrite <- (cert_apply n M G w HM i Hi).
  exact (mv_zero n n M _ Hk i Hi). Qed.

Theorem kernel_invisible m n (A : mat) (w : vec) : kernel_cert n (gram m A) w -> veq m (mv n A w) vzero.
Proof. intros [Hk _]. apply dot_self_zero. rewrite dot_mv.
  apply dot_zero_r. intros j Hj. rewrite gram_mv. now apply Hk. Qed.

(* two different variable vectors with identical exact data: no estimator can return both *)
Theorem kernel_unidentifiable m n (A : mat) (b v w : vec) : kernel_cert n (gram m A) w ->
  veq m (predict n A b (vadd v w)) (predict n A b v) /\ ~ veq n (vadd v w) v.
Proof. intros Hk. split.
  - intros i Hi. unfold predict, vadd at 1 3. rewrite mv_vadd. unfold vadd.
    rewrite (kernel_invisible m n A w Hk i Hi). unfold vzero. ring.
  - destruct Hk as [_ [i [Hi Hw]]]. intros H. apply Hw. specialize (H i Hi). unfold vadd in H.
    replace (w i) with ((v i + w i) - v i) by ring. rewrite H. ring. Qed.

(* ------------------------------------------------------------------ materialisation lemmas *)
Lemma nth_map_seq9 {B : Type} (f : nat -> B) (db : B) k : forall s i, (i < k)%nat -> nth i (map f (seq s k)) db = f (s + i)%nat.
Proof. induction k as [|k IH]; intros s i H; [lia|]. destruct i as [|i]; cbn.
  - now rewrite Nat.add_0_r.
  - rewrite IH by lia. f_equal. lia. Qed.
Lemma lvec_length n (v : vec) : length (lvec n v) = n.
Proof. unfold lvec. now rewrite map_length, seq_length. Qed.
Lemma lvec_nth n (v : vec) i : (i < n)%nat -> nth i (lvec n v) 0 = v i.
Proof. intros H. unfold lvec. now rewrite nth_map_seq9. Qed.
Lemma vfrz_spec n (v : vec) : veq n (vfrz n v) v.
Proof. intros i Hi. unfold vfrz, vofl. now apply lvec_nth. Qed.
Lemma mfrz_spec m n (A : mat) : meq m n (mfrz m n A) A.
Proof. intros i j Hi Hj. unfold mfrz, mofr, lrows. rewrite (nth_map_seq9 _ [] m 0 i Hi). now apply lvec_nth. Qed.

Lemma estimate_x_spec m n (M A : mat) b f : veq n (estimate_x m n M A b f) (estimate m n M A b f).
Proof. unfold estimate_x, estimate. apply mv_ext; [apply meq_refl|].
  apply (veq_trans n _ (mv m (mT A) (vfrz m (vsub f b)))); [apply vfrz_spec|].
  apply mv_ext; [apply meq_refl|apply vfrz_spec]. Qed.

(* ------------------------------------------------------------------ the executable checks decide the certificates *)
Lemma alln_spec n p : alln n p = true <-> forall i, (i < n)%nat -> p i = true.
Proof. induction n as [|n IH]; cbn. { split; [intros _ i Hi; lia|reflexivity]. }
  rewrite andb_true_iff, IH. split.
  - intros [H1 H2] i Hi. destruct (Nat.eq_dec i n) as [->|]; [exact H2|apply H1; lia].
  - intros H. split; [intros i Hi; apply H; lia|apply H; lia]. Qed.
Lemma alln_false n p : alln n p = false -> exists i, (i < n)%nat /\ p i = false.
Proof. induction n as [|n IH]; cbn; [discriminate|]. intros H. apply andb_false_iff in H. destruct H as [H|H].
  - destruct (IH H) as [i [Hi Hp]]. exists i. split; [lia|exact Hp].
  - exists n. split; [lia|exact H]. Qed.
Lemma veqb_spec n (x y : vec) : veqb n x y = true <-> veq n x y.
Proof. unfold veqb. rewrite alln_spec. split; intros H i Hi; [now apply keqb_spec, H|now apply keqb_spec, H]. Qed.
Lemma cert_okb_spec n (M G : mat) : cert_okb n M G = true <-> left_inverse_cert n M G.
Proof. unfold cert_okb, left_inverse_cert, meq. rewrite alln_spec. split.
  - intros H i j Hi Hj. specialize (H i Hi). rewrite alln_spec in H. now apply keqb_spec, H.
  - intros H i Hi. apply alln_spec. intros j Hj. apply keqb_spec. now apply H. Qed.
Lemma ker_okb_spec n (G : mat) (w : vec) : ker_okb n G w = true -> kernel_cert n G w.
Proof. unfold ker_okb. rewrite andb_true_iff, negb_true_iff, alln_spec. intros [H1 H2]. split.
  - intros i Hi. unfold vzero. now apply keqb_spec, H1.
  - destruct (alln_false _ _ H2) as [i [Hi Hp]]. exists i. split; [exact Hi|].
    intros E. rewrite (proj2 (keqb_spec F (w i) 0) E) in Hp. discriminate. Qed.

Lemma left_inverse_cert_ext n (M G G' : mat) : meq n n G G' -> left_inverse_cert n M G -> left_inverse_cert n M G'.
Proof. intros E H i j Hi Hj. rewrite <- (H i j Hi Hj). symmetry.
  exact (mmul_ext n M M G G' n n (meq_refl n n M) E i j Hi Hj). Qed.
Lemma kernel_cert_ext n (G G' : mat) (w : vec) : meq n n G G' -> kernel_cert n G w -> kernel_cert n G' w.
Proof. intros E [H1 H2]. split; [|exact H2]. intros i Hi. rewrite <- (H1 i Hi). symmetry.
  exact (mv_ext n n G G' w w E (veq_refl n w) i Hi). Qed.

(* [solve] is sound whatever the untrusted producer [gj] returns *)
Theorem solve_inv_sound m n (A M : mat) : solve m n A = S_inv M -> left_inverse_cert n M (gram m A).
Proof. unfold solve, solve_g. destruct (gj n _) as [rows|w].
  - destruct (cert_okb n (mofr rows) _) eqn:E; [|discriminate]. intros H. injection H as <-.
    apply (left_inverse_cert_ext n _ _ _ (mfrz_spec n n (gram m A))). now apply cert_okb_spec.
  - destruct (ker_okb n _ _); discriminate. Qed.
Theorem solve_ker_sound m n (A : mat) (w : vec) : solve m n A = S_ker w -> kernel_cert n (gram m A) w.
Proof. unfold solve, solve_g. destruct (gj n _) as [rows|w'].
  - destruct (cert_okb n _ _); discriminate.
  - destruct (ker_okb n _ (vofl w')) eqn:E; [|discriminate]. intros H. injection H as <-.
    apply (kernel_cert_ext n _ _ _ (mfrz_spec n n (gram m A))). now apply ker_okb_spec. Qed.

Lemma one_estimate_nth m n (M A : mat) b f i : (i < n)%nat ->
  nth i (one_estimate m n M A b f) 0 = estimate m n M A (vofl b) (vofl f) i.
Proof. intros Hi. unfold one_estimate. rewrite lvec_nth by exact Hi. now apply estimate_x_spec. Qed.
Lemma one_estimate_length m n (M A : mat) b f : length (one_estimate m n M A b f) = n.
Proof. apply lvec_length. Qed.

Lemma Forall_exists_Forall2 {X Y : Type} (R : X -> Y -> Prop) (l : list X) :
  Forall (fun a => exists c, R a c) l -> exists l', Forall2 R l l'.
Proof. induction 1 as [|a l [c Hc] _ [l' IH]]; [exists []; constructor|]. exists (c :: l'). now constructor. Qed.
Lemma Forall2_Forall_exists {X Y : Type} (R : X -> Y -> Prop) (l : list X) l' :
  Forall2 R l l' -> Forall (fun a => exists c, R a c) l.
Proof. induction 1; constructor; [eexists; eassumption|assumption]. Qed.

(* ------------------------------------------------------------------ the estimator as coded *)
(* Everything about the loop is proved ONCE, for an arbitrary stacking function and an arbitrary guard, and then
   instantiated with the repaired code (hstack, rank == n).  The pre-fix code (vstack_flatten, rank == min m n) is an
   instance of the same generic statements; it is used only for the two refutations in C09_Witness.v. *)
Section Coded.
Variable stack : list (list F) -> option (list F).
Variable guard : nat -> nat -> mat -> bool.

Definition flat_ok_with (m : nat) (ds : dataset F) (f : list F) : Prop :=
  stack (map snd ds) = Some f /\ length f = m.

Lemma est_loop_spec_with (one : list F -> list F) m : forall (sq : list (dataset F)) acc xs,
  est_loop_with stack one m sq acc = E_ok xs <-> exists fs, Forall2 (flat_ok_with m) sq fs /\ xs = acc ++ map one fs.
Proof. induction sq as [|ds rest IH]; intros acc xs; simpl.
  - split.
    + intros H. injection H as <-. exists []. split; [constructor|]. cbn. now rewrite app_nil_r.
    + intros [fs [H ->]]. inversion H. cbn. now rewrite app_nil_r.
  - split.
    + destruct (stack (map snd ds)) as [f|] eqn:Ef; [|discriminate].
      destruct (Nat.eqb (length f) m) eqn:El; [|discriminate]. apply Nat.eqb_eq in El.
      intros H. apply IH in H. destruct H as [fs [H1 ->]]. exists (f :: fs). split.
      * constructor; [split; assumption|exact H1].
      * cbn. now rewrite <- app_assoc.
    + intros [fs [H ->]]. inversion H as [|ds' f sq' fs' [Ef El] Hr]; subst.
      rewrite Ef. rewrite (proj2 (Nat.eqb_eq _ _) eq_refl). apply IH. exists fs'. split; [exact Hr|].
      cbn. now rewrite <- app_assoc. Qed.

(* sample counts are not used: datasets with the same distributions give the same result, error branches included *)
Lemma est_loop_counts_with (one : list F -> list F) m : forall (sq sq' : list (dataset F)) acc,
  map (map snd) sq = map (map snd) sq' -> est_loop_with stack one m sq acc = est_loop_with stack one m sq' acc.
Proof. induction sq as [|ds rest IH]; intros [|ds' rest'] acc H; try discriminate; [reflexivity|].
  cbn in H. injection H as H1 H2. simpl. rewrite H1.
  destruct (stack (map snd ds')) as [f|]; [|reflexivity].
  destruct (Nat.eqb (length f) m); [|reflexivity]. now apply IH. Qed.

Theorem counts_irrelevant_with m n (A : mat) b (sq sq' : list (dataset F)) :
  map (map snd) sq = map (map snd) sq' ->
  calc_estimate_sequence_with guard stack m n A b sq = calc_estimate_sequence_with guard stack m n A b sq'.
Proof. intros H. unfold calc_estimate_sequence_with. destruct (negb (guard m n A)); [reflexivity|].
  destruct (solve m n A); try reflexivity. now apply est_loop_counts_with. Qed.

(* the value returned by the coded estimator is the certified estimate of each dataset *)
Definition is_estimate_of_with (m n : nat) (M A : mat) (b : list F) (ds : dataset F) (x : list F) : Prop :=
  exists f, flat_ok_with m ds f /\ x = one_estimate m n M A b f.

Theorem coded_sound_with m n (A : mat) b sq xs :
  calc_estimate_sequence_with guard stack m n A b sq = E_ok xs ->
  exists M, left_inverse_cert n M (gram m A) /\ Forall2 (is_estimate_of_with m n M A b) sq xs.
Proof. unfold calc_estimate_sequence_with. destruct (negb (guard m n A)); [discriminate|].
  destruct (solve m n A) as [M|w|] eqn:Es; try discriminate.
  intros H. apply est_loop_spec_with in H. destruct H as [fs [H ->]]. exists M. split; [now apply solve_inv_sound|].
  cbn. clear Es. induction H as [|ds f sq fs Hf _ IH]; cbn; constructor; [|exact IH].
  exists f. split; [exact Hf|reflexivity]. Qed.

(* estimating a list = mapping the single estimate (no state is threaded through the loop) *)
Theorem sequence_is_map_with m n (A : mat) b sq xs :
  calc_estimate_sequence_with guard stack m n A b sq = E_ok xs ->
  Forall2 (fun ds x => calc_estimate_sequence_with guard stack m n A b [ds] = E_ok [x]) sq xs.
Proof. unfold calc_estimate_sequence_with. destruct (negb (guard m n A)); [discriminate|].
  destruct (solve m n A) as [M|w|]; try discriminate.
  intros H. apply est_loop_spec_with in H. destruct H as [fs [H ->]]. cbn [app].
  induction H as [|ds f sq fs Hf _ IH]; cbn [map]; constructor; [|exact IH].
  apply (proj2 (est_loop_spec_with _ m [ds] [] _)). exists [f]. split; [constructor; [exact Hf|constructor]|reflexivity]. Qed.

Lemma est_loop_forall2_with (one : list F -> list F) m (sq : list (dataset F)) xs :
  Forall2 (fun ds x => est_loop_with stack one m [ds] [] = E_ok [x]) sq xs -> est_loop_with stack one m sq [] = E_ok xs.
Proof. intros H. apply est_loop_spec_with. induction H as [|ds x sq xs Hx _ IH].
  - exists []. split; [constructor|reflexivity].
  - destruct IH as [fs [H1 H2]]. apply est_loop_spec_with in Hx. destruct Hx as [fs1 [Hf E]].
    inversion Hf as [|? f ? ? Hf1 Hf2]. subst. inversion Hf2. subst.
    cbn in E. injection E as ->. exists (f :: fs). split; [constructor; assumption|reflexivity]. Qed.

Theorem map_is_sequence_with m n (A : mat) b sq xs : sq <> [] ->
  Forall2 (fun ds x => calc_estimate_sequence_with guard stack m n A b [ds] = E_ok [x]) sq xs ->
  calc_estimate_sequence_with guard stack m n A b sq = E_ok xs.
Proof. unfold calc_estimate_sequence_with. intros Hne H.
  destruct sq as [|ds0 sq0]; [congruence|]. clear Hne.
  destruct (negb (guard m n A)). { inversion H; discriminate. }
  destruct (solve m n A) as [M|w|]; try (inversion H; discriminate).
  now apply est_loop_forall2_with. Qed.

(* the coded estimator returns values exactly when: the guard passes, the solve step certifies an inverse, and every
   dataset stacks to m entries *)
Theorem coded_returns_iff_with m n (A : mat) b (sq : list (dataset F)) :
  (exists xs, calc_estimate_sequence_with guard stack m n A b sq = E_ok xs) <->
  guard m n A = true /\ (exists M, solve m n A = S_inv M) /\ Forall (fun ds => exists f, flat_ok_with m ds f) sq.
Proof. unfold calc_estimate_sequence_with. split.
  - intros [xs H]. destruct (guard m n A); [|discriminate]. cbn [negb] in H.
    destruct (solve m n A) as [M|w|]; try discriminate. split; [reflexivity|]. split; [now exists M|].
    apply est_loop_spec_with in H. destruct H as [fs [H _]]. now apply Forall2_Forall_exists in H.
  - intros [Hg [[M HM] Hf]]. rewrite Hg, HM. cbn [negb].
    destruct (Forall_exists_Forall2 _ _ Hf) as [fs Hfs].
    exists ([] ++ map (one_estimate m n M A b) fs). apply est_loop_spec_with. now exists fs. Qed.

(* exact recovery through the coded estimator: dataset i holds the exact distributions of v  ->  result i is v *)
Theorem coded_exact_recovery_with m n (A : mat) b sq xs v :
  calc_estimate_sequence_with guard stack m n A b sq = E_ok xs ->
  Forall2 (fun ds x => forall f, flat_ok_with m ds f -> veq m (vofl f) (predict n A (vofl b) v) ->
                       length x = n /\ veq n (vofl x) v) sq xs.
Proof. intros H. destruct (coded_sound_with _ _ _ _ _ _ H) as [M [HM HF]]. clear H.
  induction HF as [|ds x sq xs [f [Hf ->]] _ IH]; constructor; [|exact IH].
  intros f' Hf' Hv. destruct Hf as [Hf1 Hf2], Hf' as [Hf1' _]. rewrite Hf1 in Hf1'. injection Hf1' as <-.
  split; [apply one_estimate_length|]. intros i Hi. unfold vofl at 1. rewrite one_estimate_nth by exact Hi.
  now apply (exact_recovery m n M A HM). Qed.
End Coded.

(* ------------------------------------------------------------------ instances for the repaired code *)
Definition flat_ok := flat_ok_with hstack.
Definition is_estimate_of := is_estimate_of_with hstack.

(* when exactly does np.hstack succeed: at least one block; the result is the concatenation, whatever the block lengths *)
Lemma hstack_spec (blocks : list (list F)) f : hstack blocks = Some f <-> blocks <> [] /\ f = concat blocks.
Proof. destruct blocks as [|b0 t]; unfold hstack.
  - split; [discriminate|]. intros [H _]. congruence.
  - split; [intros H; injection H as <-; split; [discriminate|reflexivity]|intros [_ ->]; reflexivity]. Qed.

Lemma flat_ok_iff m (ds : dataset F) f :
  flat_ok m ds f <-> ds <> [] /\ f = concat (map snd ds) /\ length (concat (map snd ds)) = m.
Proof. unfold flat_ok, flat_ok_with. rewrite hstack_spec. split.
  - intros [[H1 ->] H2]. split; [|split; [reflexivity|exact H2]]. intros E. apply H1. now rewrite E.
  - intros [H1 [-> H2]]. split; [split; [|reflexivity]|exact H2]. intros E. apply H1.
    destruct ds; [reflexivity|discriminate]. Qed.

Theorem counts_irrelevant m n (A : mat) b (sq sq' : list (dataset F)) :
  map (map snd) sq = map (map snd) sq' ->
  calc_estimate_sequence m n A b sq = calc_estimate_sequence m n A b sq'.
Proof. exact (counts_irrelevant_with hstack coded_guard m n A b sq sq'). Qed.

Theorem coded_sound m n (A : mat) b sq xs :
  calc_estimate_sequence m n A b sq = E_ok xs ->
  exists M, left_inverse_cert n M (gram m A) /\ Forall2 (is_estimate_of m n M A b) sq xs.
Proof. exact (coded_sound_with hstack coded_guard m n A b sq xs). Qed.

Theorem sequence_is_map m n (A : mat) b sq xs :
  calc_estimate_sequence m n A b sq = E_ok xs ->
  Forall2 (fun ds x => calc_estimate m n A b ds = E_ok [x]) sq xs.
Proof. exact (sequence_is_map_with hstack coded_guard m n A b sq xs). Qed.

Theorem sequence_is_map_var m n (A : mat) b sq xs :
  calc_estimate_sequence m n A b sq = E_ok xs ->
  Forall2 (fun ds x => calc_estimate m n A b ds = E_ok [x] /\ estimated_var [x] = x) sq xs.
Proof. intros H. pose proof (sequence_is_map m n A b sq xs H) as H1. clear H.
  induction H1 as [|ds x sq xs Hx _ IH]; constructor; [split; [exact Hx|reflexivity]|exact IH]. Qed.

Theorem map_is_sequence m n (A : mat) b sq xs : sq <> [] ->
  Forall2 (fun ds x => calc_estimate m n A b ds = E_ok [x]) sq xs ->
  calc_estimate_sequence m n A b sq = E_ok xs.
Proof. exact (map_is_sequence_with hstack coded_guard m n A b sq xs). Qed.

Theorem estimated_var_single m n (A : mat) b ds x : calc_estimate m n A b ds = E_ok [x] -> estimated_var [x] = x.
Proof. reflexivity. Qed.

Theorem coded_returns_iff m n (A : mat) b (sq : list (dataset F)) :
  (exists xs, calc_estimate_sequence m n A b sq = E_ok xs) <->
  coded_guard m n A = true /\ (exists M, solve m n A = S_inv M) /\ Forall (fun ds => exists f, flat_ok m ds f) sq.
Proof. exact (coded_returns_iff_with hstack coded_guard m n A b sq). Qed.

(* the repaired estimator accepts ANY block lengths (outcome counts): non-empty datasets with m entries in total *)
Theorem coded_returns_any_block_lengths m n (A M : mat) b (sq : list (dataset F)) :
  coded_guard m n A = true -> solve m n A = S_inv M ->
  Forall (fun ds => ds <> [] /\ length (concat (map snd ds)) = m) sq ->
  calc_estimate_sequence m n A b sq = E_ok (map (fun ds => one_estimate m n M A b (concat (map snd ds))) sq).
Proof. intros Hg HM Hf. unfold calc_estimate_sequence, calc_estimate_sequence_with. rewrite Hg, HM. cbn [negb].
  apply est_loop_spec_with. exists (map (fun ds => concat (map snd ds)) sq). split.
  - induction Hf as [|ds sq [H1 H2] _ IH]; cbn [map]; constructor; [|exact IH].
    apply flat_ok_iff. repeat split; assumption.
  - cbn [app]. now rewrite map_map. Qed.

Theorem coded_exact_recovery m n (A : mat) b sq xs v :
  calc_estimate_sequence m n A b sq = E_ok xs ->
  Forall2 (fun ds x => forall f, flat_ok m ds f -> veq m (vofl f) (predict n A (vofl b) v) ->
                       length x = n /\ veq n (vofl x) v) sq xs.
Proof. exact (coded_exact_recovery_with hstack coded_guard m n A b sq xs v). Qed.

(* the pre-fix stacking: np.vstack(...).flatten() succeeds only for at least one block, all blocks of one length *)
Lemma vstack_flatten_spec (blocks : list (list F)) f :
  vstack_flatten blocks = Some f <->
  blocks <> [] /\ (forall b, In b blocks -> length b = length (hd [] blocks)) /\ f = concat blocks.
Proof. destruct blocks as [|b0 t]; unfold vstack_flatten.
  - split; [discriminate|]. intros [H _]. congruence.
  - destruct (forallb (fun b => Nat.eqb (length b) (length b0)) (b0 :: t)) eqn:E.
    + rewrite forallb_forall in E. split.
      * intros H. injection H as <-. split; [discriminate|]. split; [|reflexivity].
        intros b Hb. apply Nat.eqb_eq. now apply E.
      * intros [_ [_ ->]]. reflexivity.
    + split; [discriminate|]. intros [_ [H _]].
      assert (X : forallb (fun b => Nat.eqb (length b) (length b0)) (b0 :: t) = true).
      { apply forallb_forall. intros b Hb. apply Nat.eqb_eq. now apply H. }
      congruence. Qed.
(* the repair only ADDS behaviour: wherever the old stacking was defined, the new one gives the same vector *)
Lemma hstack_extends_vstack (blocks : list (list F)) f : vstack_flatten blocks = Some f -> hstack blocks = Some f.
Proof. intros H. apply vstack_flatten_spec in H. destruct H as [H1 [_ ->]]. now apply hstack_spec. Qed.

(* ------------------------------------------------------------------ the repaired guard rejects every wide matA *)
Lemma pick_length c : forall (rows : list (row F)) p rest, pick F c rows = Some (p, rest) -> length rows = S (length rest).
Proof. induction rows as [|r t IH]; intros p rest H; cbn in H; [discriminate|].
  destruct (is0 F (rget F r c)).
  - destruct (pick F c t) as [[p' rest']|] eqn:E; [|discriminate]. injection H as <- <-. cbn. f_equal. now apply (IH p' rest').
  - injection H as <- <-. reflexivity. Qed.

Lemma rank_loop_le : forall fuel c (dn td : list (row F)) acc,
  (rank_loop F fuel c (dn, td) acc <= acc + length td)%nat.
Proof. induction fuel as [|k IH]; intros c dn td acc; cbn [rank_loop]; [lia|].
  unfold gj_step. destruct (pick F c td) as [[p rest]|] eqn:E.
  - apply pick_length in E. specialize (IH (S c) (map (elim_with F c (rscale F (kinv F (rget F p c)) p)) dn ++ [rscale F (kinv F (rget F p c)) p])
                                            (map (elim_with F c (rscale F (kinv F (rget F p c)) p)) rest) (S acc)).
    rewrite map_length in IH. lia.
  - apply IH. Qed.

Theorem rank_of_le_rows m n (A : mat) : (rank_of m n A <= m)%nat.
Proof. unfold rank_of. pose proof (rank_loop_le n 0 [] (lrows m n A) 0) as H.
  unfold lrows in H. rewrite map_length, seq_length in H. exact H. Qed.

Theorem guard_rejects_wide m n (A : mat) : (m < n)%nat -> coded_guard m n A = false.
Proof. intros H. unfold coded_guard. apply Nat.eqb_neq. pose proof (rank_of_le_rows m n A). lia. Qed.

Theorem wide_raises_guard m n (A : mat) b sq : (m < n)%nat -> calc_estimate_sequence m n A b sq = E_guard.
Proof. intros H. unfold calc_estimate_sequence, calc_estimate_sequence_with. now rewrite (guard_rejects_wide m n A H). Qed.

(* end-to-end corollary with the object layer abstracted: any pair of maps with from_var (to_var o) = o *)
Theorem exact_data_returns_object (Obj : Type) (from_var : vec -> Obj) (to_var : Obj -> vec)
  m n (M A : mat) b f o :
  (forall x y, veq n x y -> from_var x = from_var y) -> from_var (to_var o) = o ->
  left_inverse_cert n M (gram m A) -> veq m f (predict n A b (to_var o)) ->
  from_var (estimate m n M A b f) = o.
Proof. intros Hext Hrt HM Hf. rewrite <- Hrt. apply Hext. now apply (exact_recovery m n M A HM). Qed.
End P.
