(* C18 — algebra of complex matrices used by the Lindbladian proofs: conjugation / adjoint laws, traces of Kronecker
   products, bilinearity of  tr (X Y), linearity of matrix-vector products, vec (A X B^dagger) = (A (x) conj B) vec X.
   Generic in the ordered field; axiom-free. *)
From Coq Require Import Field Ring Setoid Arith Lia Bool List.
From QV.Core Require Import OF Sums Mat Cplx.
From QV.Model Require Import QObj C18_Lindblad.

Section Alg.
Context (F : OF).
Add Field Ffa : (k_field F).
Notation Cx := (CF F).
Add Ring Cra : (c_ring Cx).
Notation cmat := (cmat F).
Notation "x +c y" := (cadd Cx x y) (at level 50, left associativity).
Notation "x *c y" := (cmul Cx x y) (at level 40, left associativity).
Notation "x -c y" := (csub Cx x y) (at level 50, left associativity).
Notation "0c" := (c0 Cx).
Notation "1c" := (c1 Cx).
Notation cI := (cI F).

(* ---------------------------------------------------------------- scalars *)
Lemma cj_add (a b : Cx) : zconj (a +c b) = zconj a +c zconj b. Proof. apply (zconj_add F). Qed.
Lemma cj_sub (a b : Cx) : zconj (a -c b) = zconj a -c zconj b. Proof. apply (zconj_sub F). Qed.
Lemma cj_mul (a b : Cx) : zconj (a *c b) = zconj a *c zconj b. Proof. apply (zconj_mul F). Qed.
Lemma cj_cj (a : Cx) : zconj (zconj a) = a. Proof. apply (zconj_conj F). Qed.
Lemma cj_zof (x : F) : zconj (zof x : Cx) = zof x. Proof. apply (zconj_zof F). Qed.
Lemma cj_0 : zconj 0c = 0c. Proof. apply cj_zof. Qed.
Lemma cj_1 : zconj 1c = 1c. Proof. apply cj_zof. Qed.
Lemma cj_sum n (f : nat -> Cx) : zconj (sumn n f) = sumn n (fun i => zconj (f i) : Cx).
Proof. apply (zconj_sumn F). Qed.
Lemma zof_add (x y : F) : (zof (cadd F x y) : Cx) = zof x +c zof y.
Proof. apply cplx_eq; cbn; ring. Qed.
Lemma zof_mul (x y : F) : (zof (cmul F x y) : Cx) = zof x *c zof y.
Proof. apply cplx_eq; cbn; ring. Qed.
Lemma zof_0 : (zof (c0 F) : Cx) = 0c. Proof. reflexivity. Qed.
Lemma zof_1 : (zof (c1 F) : Cx) = 1c. Proof. reflexivity. Qed.
Lemma zof_sum n (f : nat -> F) : (zof (sumn n f) : Cx) = sumn n (fun i => zof (f i) : Cx).
Proof. induction n as [|n IH]; cbn [sumn]; [reflexivity|]. now rewrite zof_add, IH. Qed.
Lemma zof_inj (x y : F) : (zof x : Cx) = zof y -> x = y.
Proof. intros E. now inversion E. Qed.

(* ---------------------------------------------------------------- pointwise equality helpers *)
Lemma sumn_ext2 (R : CR) m n (f g : nat -> nat -> R) :
  (forall a b, (a < m)%nat -> (b < n)%nat -> f a b = g a b) ->
  sumn m (fun a => sumn n (fun b => f a b)) = sumn m (fun a => sumn n (fun b => g a b)).
Proof. intros H. apply sumn_ext; intros a Ha. apply sumn_ext; intros b Hb. now apply H. Qed.
Lemma sumn2_zero (R : CR) m n (f : nat -> nat -> R) :
  (forall a b, (a < m)%nat -> (b < n)%nat -> f a b = c0 R) -> sumn m (fun a => sumn n (fun b => f a b)) = c0 R.
Proof. intros H. apply sumn_zero'. intros a Ha. apply sumn_zero'. intros b Hb. now apply H. Qed.

(* ---------------------------------------------------------------- conjugate / adjoint *)
Lemma cconj_mid i j : cconj (mid : cmat) i j = mid i j.
Proof. unfold cconj, mid. destruct (Nat.eqb i j); [apply cj_1|apply cj_0]. Qed.
Lemma mid_sym (R : CR) i j : (@mid R) i j = (@mid R) j i.
Proof. unfold mid. now rewrite Nat.eqb_sym. Qed.
Lemma cconj_mmul d (A B : cmat) i j : cconj (mmul d A B) i j = mmul d (cconj A) (cconj B) i j.
Proof. unfold cconj, mmul. rewrite cj_sum. apply sumn_ext; intros l _. apply cj_mul. Qed.
Lemma cadj_mmul d (A B : cmat) i j : cadj (mmul d A B) i j = mmul d (cadj B) (cadj A) i j.
Proof. unfold cadj, mmul. rewrite cj_sum. apply sumn_ext; intros l _. rewrite cj_mul. ring. Qed.
Lemma cadj_cadj (A : cmat) i j : cadj (cadj A) i j = A i j.
Proof. unfold cadj. apply cj_cj. Qed.
Lemma mtrace_cconj d (A : cmat) : mtrace d (cconj A) = zconj (mtrace d A).
Proof. unfold mtrace. now rewrite cj_sum. Qed.
Lemma mtrace_cadj d (A : cmat) : mtrace d (cadj A) = zconj (mtrace d A).
Proof. unfold mtrace. now rewrite cj_sum. Qed.
Lemma mT_cadj (A : cmat) i j : mT (cadj A) i j = cconj A i j. Proof. reflexivity. Qed.
Lemma hermitian_cadj d (A : cmat) : hermitian d A -> meq d d (cadj A) A.
Proof. intros H i j Hi Hj. unfold cadj. symmetry. now apply H. Qed.
Lemma hermitian_cconj d (A : cmat) i j : hermitian d A -> (i < d)%nat -> (j < d)%nat -> cconj A i j = A j i.
Proof. intros H Hi Hj. unfold cconj. rewrite (H j i Hj Hi). reflexivity. Qed.

(* ---------------------------------------------------------------- products with the identity, traces *)
Definition trp (d : nat) (A B : cmat) : Cx := mtrace d (mmul d A B).
Lemma trp_mid_r d (A : cmat) : trp d A mid = mtrace d A.
Proof. unfold trp. apply mtrace_ext. intros i j Hi Hj. now apply mmul_id_r. Qed.
Lemma trp_mid_l d (A : cmat) : trp d mid A = mtrace d A.
Proof. unfold trp. apply mtrace_ext. intros i j Hi Hj. now apply mmul_id_l. Qed.
Lemma trp_comm d (A B : cmat) : trp d A B = trp d B A.
Proof. apply mtrace_cyclic. Qed.
Lemma trp_cconj d (A B : cmat) : trp d (cconj A) (cconj B) = zconj (trp d A B).
Proof. unfold trp. rewrite <- mtrace_cconj. apply mtrace_ext. intros i j _ _. now rewrite cconj_mmul. Qed.
Lemma trp_ext d (A A' B B' : cmat) : meq d d A A' -> meq d d B B' -> trp d A B = trp d A' B'.
Proof. intros HA HB. unfold trp. apply mtrace_ext. now apply mmul_ext. Qed.
Lemma mtrace_mid d : mtrace d (mid : cmat) = zof (ofnat d).
Proof. induction d as [|d IH]. { reflexivity. }
  unfold mtrace in *. cbn [sumn ofnat]. rewrite IH. unfold mid. rewrite Nat.eqb_refl. now rewrite zof_add. Qed.
Lemma trp_sum_l d n (f : nat -> cmat) (c : nat -> Cx) (X : cmat) :
  trp d (fun i j => sumn n (fun a => c a *c f a i j)) X = sumn n (fun a => c a *c trp d (f a) X).
Proof. unfold trp, mtrace, mmul.
  rewrite (sumn_ext d _ (fun i => sumn n (fun a => c a *c sumn d (fun l => f a i l *c X l i)))).
  2:{ intros i _. rewrite (sumn_ext d _ (fun l => sumn n (fun a => c a *c f a i l *c X l i))).
      2:{ intros l _. now rewrite sumn_scale_r. }
      rewrite sumn_swap. apply sumn_ext; intros a _. rewrite <- sumn_scale_l. apply sumn_ext; intros; ring. }
  rewrite sumn_swap. apply sumn_ext; intros a _. now rewrite sumn_scale_l. Qed.

(* ---------------------------------------------------------------- tr2 : bilinear, multiplicative on Kronecker products *)
Lemma tr2_ext d (X X' Y Y' : cmat) : meq (d*d) (d*d) X X' -> meq (d*d) (d*d) Y Y' -> tr2 d X Y = tr2 d X' Y'.
Proof. intros HX HY. unfold tr2. apply mtrace_ext. now apply mmul_ext. Qed.
Lemma tr2_madd_l d (X Y Z : cmat) : tr2 d (madd X Y) Z = tr2 d X Z +c tr2 d Y Z.
Proof. unfold tr2. rewrite <- mtrace_madd. apply mtrace_ext. intros i j _ _. apply mmul_madd_l. Qed.
Lemma tr2_madd_r d (X Y Z : cmat) : tr2 d X (madd Y Z) = tr2 d X Y +c tr2 d X Z.
Proof. unfold tr2. rewrite <- mtrace_madd. apply mtrace_ext. intros i j _ _. apply mmul_madd_r. Qed.
Lemma tr2_mscale_l d (c : Cx) (X Z : cmat) : tr2 d (mscale c X) Z = c *c tr2 d X Z.
Proof. unfold tr2. rewrite <- mtrace_mscale. apply mtrace_ext. intros i j _ _. apply mmul_mscale_l. Qed.
Lemma tr2_mscale_r d (c : Cx) (X Z : cmat) : tr2 d X (mscale c Z) = c *c tr2 d X Z.
Proof. unfold tr2. rewrite <- mtrace_mscale. apply mtrace_ext. intros i j _ _. apply mmul_mscale_r. Qed.
Lemma msub_madd (X Y : cmat) i j : msub X Y i j = madd X (mscale (copp Cx 1c) Y) i j.
Proof. unfold msub, madd, mscale. ring. Qed.
Lemma tr2_msub_l d (X Y Z : cmat) : tr2 d (msub X Y) Z = tr2 d X Z -c tr2 d Y Z.
Proof. rewrite (tr2_ext d (msub X Y) (madd X (mscale (copp Cx 1c) Y)) Z Z); [|intros i j _ _; apply msub_madd|apply meq_refl].
  rewrite tr2_madd_l, tr2_mscale_l. ring. Qed.
Lemma tr2_msub_r d (X Y Z : cmat) : tr2 d X (msub Y Z) = tr2 d X Y -c tr2 d X Z.
Proof. rewrite (tr2_ext d X X (msub Y Z) (madd Y (mscale (copp Cx 1c) Z))); [|apply meq_refl|intros i j _ _; apply msub_madd].
  rewrite tr2_madd_r, tr2_mscale_r. ring. Qed.
Lemma tr2_kron d (A B C E : cmat) : (0 < d)%nat ->
  tr2 d (kron d d A B) (kron d d C E) = trp d A C *c trp d B E.
Proof. intros Hd. unfold tr2, trp. rewrite <- (mtrace_kron d d _ _ Hd).
  apply mtrace_ext. intros i j _ _. now apply kron_mixed. Qed.
(* a double sum of scaled matrices on the left *)
Lemma tr2_sum2_l d m (K : cmat) (M : nat -> nat -> cmat) (Z : cmat) :
  tr2 d (fun s t => sumn m (fun a => sumn m (fun b => K a b *c M a b s t))) Z
  = sumn m (fun a => sumn m (fun b => K a b *c tr2 d (M a b) Z)).
Proof. unfold tr2, mtrace, mmul.
  rewrite (sumn_ext (d*d) _ (fun i => sumn m (fun a => sumn m (fun b => K a b *c sumn (d*d) (fun l => M a b i l *c Z l i))))).
  2:{ intros i _.
      rewrite (sumn_ext (d*d) _ (fun l => sumn m (fun a => sumn m (fun b => K a b *c M a b i l *c Z l i)))).
      2:{ intros l _. rewrite <- sumn_scale_r. apply sumn_ext; intros a _. now rewrite <- sumn_scale_r. }
      rewrite sumn_swap. apply sumn_ext; intros a _. rewrite sumn_swap. apply sumn_ext; intros b _.
      rewrite <- sumn_scale_l. apply sumn_ext; intros; ring. }
  rewrite sumn_swap. apply sumn_ext; intros a _. rewrite sumn_swap. apply sumn_ext; intros b _.
  now rewrite sumn_scale_l. Qed.

(* ---------------------------------------------------------------- matrix-vector products: linear in the matrix *)
Lemma mv_madd_m n (A B : cmat) x i : mv n (madd A B) x i = mv n A x i +c mv n B x i.
Proof. unfold mv, madd. rewrite <- sumn_add. apply sumn_ext; intros; ring. Qed.
Lemma mv_msub_m n (A B : cmat) x i : mv n (msub A B) x i = mv n A x i -c mv n B x i.
Proof. unfold mv, msub. rewrite <- sumn_sub. apply sumn_ext; intros; ring. Qed.
Lemma mv_mscale_m n (c : Cx) (A : cmat) x i : mv n (mscale c A) x i = c *c mv n A x i.
Proof. unfold mv, mscale. rewrite <- sumn_scale_l. apply sumn_ext; intros; ring. Qed.
Lemma mv_sum2_m n m (K : cmat) (M : nat -> nat -> cmat) x i :
  mv n (fun s t => sumn m (fun a => sumn m (fun b => K a b *c M a b s t))) x i
  = sumn m (fun a => sumn m (fun b => K a b *c mv n (M a b) x i)).
Proof. unfold mv.
  rewrite (sumn_ext n _ (fun t => sumn m (fun a => sumn m (fun b => K a b *c M a b i t *c x t)))).
  2:{ intros t _. rewrite <- sumn_scale_r. apply sumn_ext; intros a _. now rewrite <- sumn_scale_r. }
  rewrite sumn_swap. apply sumn_ext; intros a _. rewrite sumn_swap. apply sumn_ext; intros b _.
  rewrite <- sumn_scale_l. apply sumn_ext; intros; ring. Qed.
Lemma mv_ext_m n (A A' : cmat) x i : (forall j, (j < n)%nat -> A i j = A' i j) -> mv n A x i = mv n A' x i.
Proof. intros H. unfold mv. apply sumn_ext; intros j Hj. now rewrite H. Qed.

(* vec (A X B^dagger) = (A (x) conj B) vec X   (row-major) *)
Lemma vec_AXBd d (A X Bm : cmat) t : (0 < d)%nat ->
  mv (d * d) (kron d d A (cconj Bm)) (vecr d X) t = vecr d (mmul d (mmul d A X) (cadj Bm)) t.
Proof. intros Hd. symmetry. exact (vecr_AXB d d d A X (cadj Bm) t Hd Hd). Qed.
Lemma vec_AX d (A X : cmat) t : (0 < d)%nat -> (t < d * d)%nat ->
  mv (d * d) (kron d d A cI) (vecr d X) t = vecr d (mmul d A X) t.
Proof. intros Hd Ht.
  rewrite (mv_ext_m (d*d) _ (kron d d A (cconj cI))). 2:{ intros j _. unfold kron. now rewrite cconj_mid. }
  rewrite vec_AXBd by exact Hd. unfold vecr.
  assert (Hm : (t mod d < d)%nat) by (apply Nat.mod_upper_bound; lia).
  unfold mmul at 1. rewrite (sumn_ext d _ (fun l => if Nat.eqb l (t mod d) then mmul d A X (t / d)%nat l else 0c)).
  2:{ intros l _. unfold cadj, cI, mid. rewrite (Nat.eqb_sym (t mod d) l). destruct (Nat.eqb l (t mod d)); [rewrite cj_1|rewrite cj_0]; ring. }
  now rewrite sumn_delta. Qed.
Lemma vec_XBd d (X Bm : cmat) t : (0 < d)%nat -> (t < d * d)%nat ->
  mv (d * d) (kron d d cI (cconj Bm)) (vecr d X) t = vecr d (mmul d X (cadj Bm)) t.
Proof. intros Hd Ht. rewrite vec_AXBd by exact Hd. unfold vecr.
  assert (Hq : (t / d < d)%nat) by (apply Nat.div_lt_upper_bound; lia).
  unfold mmul at 1 3. apply sumn_ext; intros l Hl. f_equal. unfold cI. now apply mmul_id_l. Qed.

(* ---------------------------------------------------------------- linearity of mmul in sums *)
Lemma mmul_sum2_l d m (K : cmat) (M : nat -> nat -> cmat) (X : cmat) i j :
  mmul d (fun s t => sumn m (fun a => sumn m (fun b => K a b *c M a b s t))) X i j
  = sumn m (fun a => sumn m (fun b => K a b *c mmul d (M a b) X i j)).
Proof. unfold mmul.
  rewrite (sumn_ext d _ (fun l => sumn m (fun a => sumn m (fun b => K a b *c M a b i l *c X l j)))).
  2:{ intros l _. rewrite <- sumn_scale_r. apply sumn_ext; intros a _. now rewrite <- sumn_scale_r. }
  rewrite sumn_swap. apply sumn_ext; intros a _. rewrite sumn_swap. apply sumn_ext; intros b _.
  rewrite <- sumn_scale_l. apply sumn_ext; intros; ring. Qed.
Lemma mmul_sum2_r d m (K : cmat) (M : nat -> nat -> cmat) (X : cmat) i j :
  mmul d X (fun s t => sumn m (fun a => sumn m (fun b => K a b *c M a b s t))) i j
  = sumn m (fun a => sumn m (fun b => K a b *c mmul d X (M a b) i j)).
Proof. unfold mmul.
  rewrite (sumn_ext d _ (fun l => sumn m (fun a => sumn m (fun b => K a b *c (X i l *c M a b l j))))).
  2:{ intros l _. rewrite <- sumn_scale_l. rewrite sumn_scale_l. rewrite <- sumn_scale_l. apply sumn_ext; intros a _.
      rewrite <- sumn_scale_l. apply sumn_ext; intros; ring. }
  rewrite sumn_swap. apply sumn_ext; intros a _. rewrite sumn_swap. apply sumn_ext; intros b _.
  rewrite <- sumn_scale_l. apply sumn_ext; intros; ring. Qed.
End Alg.

Arguments trp {F} d A B.
