(* C11 — concrete instances showing that the hypotheses of the property theorems are satisfiable (axiom-free). *)
From Coq Require Import Arith List Bool Lia Field Ring Setoid ZArith QArith Qcanon.
From QV.Core Require Import OF Sums Mat Cplx QcOF C01_HermPsd.
From QV.Model Require Import QObj C11_Pgdb C11_Cvx.
From QV.Proofs Require Import C11_Pgdb C11_Metric C11_Diameter.
Import ListNotations.

Section C11_Ex.
Context (F : OF).
Add Field Ffex11 : (k_field F).
Notation "0" := (c0 F). Notation "1" := (c1 F).
Infix "+" := (cadd F). Infix "*" := (cmul F). Infix "<=" := (kle F). Infix "-" := (csub F).
Infix "/" := (kdiv F). Notation "- x" := (copp F x).
Notation vec := (@vec F).

(* the half space { z | 0 <= z_0 } of F^2 and its EUCLIDEAN projection (clip coordinate 0) *)
Definition C11_ex_C : vec -> Prop := fun z => 0 <= z 0%nat.
Definition C11_ex_P : vec -> vec := fun u i => match i with O => if kleb F 0 (u 0%nat) then u 0%nat else 0 | _ => u i end.

Lemma C11_ex_convex : C11_convex_set F C11_ex_C.
Proof. exact (C11_wm_convex F). Qed.
Lemma C11_ex_obtuse : C11_obtuse F 2%nat C11_ex_C C11_ex_P.
Proof. intros u. unfold C11_ex_C, C11_ex_P. destruct (kleb F 0 (u 0%nat)) eqn:E.
  - split; [now apply k_leb|]. intros z _. apply C11_le_refl_eq. unfold dot, vsub. cbn [sumn]. ring.
  - split; [apply k_refl|]. intros z Cz. destruct (leb_false_lt F _ _ E) as [Hu _].
    unfold dot, vsub. cbn [sumn].
    replace (_ + _) with (z 0%nat * u 0%nat) by ring. now apply C11_mul_nonneg_nonpos. Qed.

(* the embedding of the variable of a 3-outcome POVM with on_para_eq_constraint=True (one coordinate per element):
   (v_1, v_2) |-> (v_1, v_2, e - v_1 - v_2);  its metric L^T L is the matrix of the wrong-metric witness *)
Definition C11_ex_L3 : @mat F := fun i j => match i with 2%nat => - (1) | _ => if Nat.eqb i j then 1 else 0 end.
Lemma C11_ex_L3_metric : meq 2%nat 2%nat (C11_metric_of F 3%nat C11_ex_L3) (C11_wm_M F).
Proof. intros i j Hi Hj. unfold C11_metric_of, mmul, mT, C11_ex_L3, C11_wm_M, C11_two. cbn [sumn].
  destruct i as [|[|i]]; [| |lia]; (destruct j as [|[|j]]; [| |lia]); cbn [Nat.eqb]; ring. Qed.

(* a basis whose 0th element is c * identity, c * sd = 1 (all that T8a / T8b ask of the basis) *)
Definition C11_ex_B (c : F) : nat -> cmat F := fun a i j => match a with O => zof (c * C11_delta F i j) | _ => zof 0 end.
Lemma C11_ex_basis0 d sd c : c * sd = 1 -> basis_0th_identity d sd (C11_ex_B c).
Proof. intros Hc i j _ _. unfold C11_ex_B, C11_delta. destruct (Nat.eqb i j); apply cplx_eq; cbn.
  - transitivity (c * sd); [ring|rewrite Hc; reflexivity].
  - ring.
  - ring.
  - ring. Qed.
(* the physical set of the universal gap theorem is inhabited: d = 1, basis { [[1]] }, coefficient vector (1) *)
Definition C11_ex_B1 : nat -> cmat F := fun _ _ _ => (1, 0).
Lemma C11_ex_state_set : C11_state_set F 1 C11_ex_B1 (fun _ => 1).
Proof. split.
  - intros x. rewrite hqf_expand. cbn [sumn]. unfold op_of_vec, C11_ex_B1. cbn [sumn Nat.mul]. destruct (x 0%nat) as [a b]. cbn.
    replace (_ + _) with (a * a + b * b) by ring. apply add_nonneg; apply sqr_nonneg.
  - unfold C11_rtrace, op_of_vec, C11_ex_B1. cbn. ring. Qed.
End C11_Ex.

(* ---- executed instances over Qc *)
Local Notation Q := Qc_OF.
Definition C11_exq_q : @vec Q := fun i => match i with O => (- (1))%Qc | _ => 1%Qc end.
Definition C11_exq_x0 : @vec Q := fun i => match i with O => 1%Qc | _ => 0%Qc end.
Definition C11_exq_f := C11_sq_loss Q 2%nat 2%nat (C11_wm_A Q) (C11_wm_b Q) C11_exq_q.
Definition C11_exq_g := C11_sq_grad Q 2%nat 2%nat (C11_wm_A Q) (C11_wm_b Q) C11_exq_q.
(* f z = (z_0 + 1)^2 + (z_1 - 1)^2 over { z_0 >= 0 }, start (1, 0), mu = 1, gamma = 3/10, eps = 1/1000, mode
   single_difference_loss, window 1, at most 10 iterations:
   the loop of the model stops by its criterion after k = 3 iterations (step sizes 1, 1/2, 1) at the minimiser (0, 1) *)
Definition C11_exq_run : C11_result Q :=
  C11_optimize Q (fun r => r) 2%nat C11_exq_f C11_exq_g (C11_ex_P Q) 1%Qc (Q2Qc (3 # 10)) (Q2Qc (1 # 1000))
               C11_SingleDiffLoss 1%nat 20%nat 10%nat C11_exq_x0.
Definition C11_exq_run_ok : bool :=
  match C11_exq_run with
  | C11_Done (x :: _) errs k w =>
      Nat.eqb k 3%nat && negb w && Nat.eqb (length errs) 3%nat && keqb Q (x 0%nat) 0%Qc && keqb Q (x 1%nat) 1%Qc
  | _ => false
  end.
Lemma C11_exq_run_done : C11_exq_run_ok = true.
Proof. vm_compute. reflexivity. Qed.
Lemma C11_exq_run_is_done : exists xs errs k w, C11_exq_run = C11_Done xs errs k w.
Proof. pose proof C11_exq_run_done as H. unfold C11_exq_run_ok in H.
  destruct C11_exq_run as [xs errs k w| |]; [|discriminate|discriminate]. now exists xs, errs, k, w. Qed.
(* B_0 (x) conj B_0 has a non-zero entry (hypothesis of the refutation of the pre-fix instrument map): 2 qubits, B_0 = I/2 *)
Lemma C11_exq_bbc00 : bbc 4%nat (C11_ex_B Q (Q2Qc (1 # 2))) 0%nat 0%nat 0%nat 0%nat <> c0 (CF Q).
Proof. intros H. apply (f_equal (fun z : CF Q => keqb Q (fst z) 0%Qc)) in H. vm_compute in H. discriminate. Qed.
