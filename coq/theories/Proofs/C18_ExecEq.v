(* C18 — the EXECUTED wrappers of Exec/C18_ops.v (which materialise intermediate function-matrices with [freeze]) compute the model
   definitions on the index range the harness reads:  conv_to_B = chs_of_cb,  conv_to_cb = cb_of_chs,  the comp-basis generator
   build_lcb of the ops c18.lcb / c18.gen in the modes hk / k = lcb_hk / lcb_k  (mode hjk and h are the model terms themselves),
   and the rebuilt generator of c18.proj_ineq = proj_ineq_cb.  Instantiated at Qc (the executed field); axiom-free. *)
From Coq Require Import ZArith QArith Qcanon Arith Lia List Bool.
From QV.Core Require Import OF QcOF Sums Mat Cplx.
From QV.Exec Require Import Base C18_ops.
From QV.Model Require Import QObj HermEmbed C18_Lindblad.
From QV.Proofs Require Import C18_Algebra C18_Misc C18_Action C18_Extract C18_Rebuild C18_Convert.

Section ExecEq.
Notation F := Qc_OF.
Notation Cx := (CF F).
Variable d : nat.
Hypothesis Hd : (0 < d)%nat.
Variable B : nat -> CM.
Notation n := (d * d)%nat.
Notation m := (d * d - 1)%nat.

Lemma cfrz_spec r c (A : CM) i j : (i < r)%nat -> (j < c)%nat -> cfrz r c A i j = A i j.
Proof. intros. unfold cfrz. now apply freeze_spec. Qed.

(* change of basis as executed *)
Theorem conv_to_B_eq (L : CM) a b : (a < n)%nat -> (b < n)%nat -> conv_to_B d B L a b = chs_of_cb d B L a b.
Proof. intros Ha Hb. unfold conv_to_B, chs_of_cb. cbv zeta.
  apply (mmul_ext n _ _ _ _ n n); [| |exact Ha|exact Hb].
  - intros i j Hi Hj. rewrite cfrz_spec by assumption. apply (mmul_ext n _ _ L L n n); [|apply meq_refl|exact Hi|exact Hj].
    intros p q Hp Hq. now apply cfrz_spec.
  - intros i j Hi Hj. rewrite cfrz_spec by assumption. unfold cadj. now rewrite cfrz_spec. Qed.
Theorem conv_to_cb_eq (HS : CM) s t : (s < n)%nat -> (t < n)%nat -> conv_to_cb d B HS s t = cb_of_chs d B HS s t.
Proof. intros Hs Ht. unfold conv_to_cb, cb_of_chs. cbv zeta. rewrite cfrz_spec by assumption.
  apply (mmul_ext n _ _ _ _ n n); [| |exact Hs|exact Ht].
  - intros i j Hi Hj. rewrite cfrz_spec by assumption. apply (mmul_ext n _ _ HS HS n n); [|apply meq_refl|exact Hi|exact Hj].
    intros p q Hp Hq. rewrite cfrz_spec by assumption. unfold cadj. now rewrite cfrz_spec.
  - intros i j Hi Hj. now apply cfrz_spec. Qed.

(* the generator as executed in the modes that freeze J(K) *)
Theorem exec_lcb_hk (H K : CM) : meq n n (lcb_hjk d B H (cfrz d d (j_of_k d B K)) K) (lcb_hk d B H K).
Proof. change (lcb_hk d B H K) with (lcb_hjk d B H (j_of_k d B K) K).
  apply (lcb_hjk_ext F d Hd B); [apply meq_refl| |apply meq_refl]. intros i j Hi Hj. now apply cfrz_spec. Qed.
Theorem exec_lcb_k (K : CM) : meq n n (madd (j_part d (cfrz d d (j_of_k d B K))) (k_part d B K)) (lcb_k d B K).
Proof. intros s t Hs Ht. unfold lcb_k, madd. f_equal.
  apply (j_part_ext F d Hd); [|exact Hs|exact Ht]. intros i j Hi Hj. now apply cfrz_spec. Qed.

(* the rebuilt generator of the op c18.proj_ineq *)
Theorem exec_proj_ineq (L K' : CM) :
  meq n n (cfrz n n (lcb_hjk d B (cfrz d d (calc_h_mat d B L)) (cfrz d d (calc_j_mat d B L)) K')) (proj_ineq_cb d B L K').
Proof. intros s t Hs Ht. rewrite cfrz_spec by assumption. unfold proj_ineq_cb.
  apply (lcb_hjk_ext F d Hd B); [| |apply meq_refl|exact Hs|exact Ht]; intros i j Hi Hj; now apply cfrz_spec. Qed.

Theorem exec_ops_eq :
  (forall (L : CM) a b, (a < n)%nat -> (b < n)%nat -> conv_to_B d B L a b = chs_of_cb d B L a b) /\
  (forall (HS : CM) s t, (s < n)%nat -> (t < n)%nat -> conv_to_cb d B HS s t = cb_of_chs d B HS s t) /\
  (forall H K : CM, meq n n (lcb_hjk d B H (cfrz d d (j_of_k d B K)) K) (lcb_hk d B H K)) /\
  (forall K : CM, meq n n (madd (j_part d (cfrz d d (j_of_k d B K))) (k_part d B K)) (lcb_k d B K)) /\
  (forall L K' : CM, meq n n (cfrz n n (lcb_hjk d B (cfrz d d (calc_h_mat d B L)) (cfrz d d (calc_j_mat d B L)) K')) (proj_ineq_cb d B L K')).
Proof. repeat split; [apply conv_to_B_eq|apply conv_to_cb_eq|apply exec_lcb_hk|apply exec_lcb_k|apply exec_proj_ineq]. Qed.
End ExecEq.
