(* C01 — the EXECUTED ops of Exec/C01_ops.v (what the harness calls through the extracted driver) compute exactly the verdict
   functions of Model/C01_Verdicts.v on the decoded request: freezing, the re-associated Choi evaluation, the memoised PSD
   decision and the reuse of an already computed verdict do not change any result.  So the theorems of Props/C01.v are about
   the very functions the implementation is compared with.  Axiom-free (Qc). *)
From Coq Require Import ZArith QArith Qcanon List Bool Arith Lia.
From QV.Core Require Import OF QcOF Sums Mat Cplx Psd C01_HermPsd.
From QV.Exec Require Import Base Core_ops C01_ops.
From QV.Model Require Import QObj HermEmbed C01_Verdicts.
From QV.Proofs Require Import C01_Verdicts.
Import ListNotations.

(* ---- generic helpers *)
Lemma cfreeze_meq n (H : cmat Fq) : meq n n (cfreeze n H) H.
Proof. intros i j Hi Hj. unfold cfreeze. now apply freeze_spec. Qed.
Lemma mtrace_ext n (H H' : cmat Fq) : meq n n H H' -> mtrace n H = mtrace n H'.
Proof. intros E. unfold mtrace. apply sumn_ext; intros i Hi. now apply E. Qed.
Lemma rows_of_mat_ext {A : Type} m n (M M' : nat -> nat -> A) :
  (forall i j, (i < m)%nat -> (j < n)%nat -> M i j = M' i j) -> rows_of_mat m n M = rows_of_mat m n M'.
Proof. intros E. unfold rows_of_mat, list_of_vec. apply map_ext_in; intros i Hi. apply in_seq in Hi.
  apply map_ext_in; intros j Hj. apply in_seq in Hj. apply E; lia. Qed.
Lemma flat_of_cmat_ext m n (M M' : cmat Fq) : meq m n M M' -> flat_of_cmat m n M = flat_of_cmat m n M'.
Proof. intros E. unfold flat_of_cmat, flat_of_mat. f_equal. f_equal. now apply rows_of_mat_ext. Qed.
Lemma mat_of_rows_nth {A : Type} (dflt : A) (m n : nat) (f : nat -> nat -> nat -> A) (k x i j : nat) :
  (x < k)%nat -> (i < m)%nat -> (j < n)%nat ->
  mat_of_rows dflt (nth x (map (fun y => rows_of_mat m n (f y)) (seq 0 k)) []) i j = f x i j.
Proof. intros Hx Hi Hj. rewrite (nth_map_seq (fun y => rows_of_mat m n (f y)) [] k 0 x Hx). cbn [Nat.add].
  change (freeze dflt m n (f x) i j = f x i j). now apply freeze_spec. Qed.

(* ---- PSD verdict: memoised decision = specified decision *)
Lemma x_is_psd_eq n (H : cmat Fq) atol : x_is_psd n H atol = mutil_is_psd n H atol.
Proof. unfold x_is_psd, mutil_is_psd, herm_psd_dec. now rewrite psd_fast_eq. Qed.
Lemma x_is_psd_meq n (H H' : cmat Fq) atol : meq n n H H' -> x_is_psd n H atol = mutil_is_psd n H' atol.
Proof. intros E. rewrite x_is_psd_eq. now apply mutil_is_psd_ext. Qed.

(* ---- Choi matrix: re-associated, frozen evaluation = QObj.choi_of_hs *)
Lemma x_choi_meq d B (HS : rmat Fq) : meq (d * d) (d * d) (x_choi d B HS) (choi_of_hs d B HS).
Proof. intros i j Hi Hj. unfold x_choi. rewrite (cfreeze_meq (d * d) _ i j Hi Hj).
  rewrite <- choi_assoc_eq. apply choi_assoc_ext; [exact Hi|exact Hj|]. intros a Ha k l Hk Hl.
  exact (mat_of_rows_nth cz d d (fun a => choi_inner d B HS a) (d * d) a k l Ha Hk Hl). Qed.
Lemma x_gate_is_cp_eq d B (HS : rmat Fq) atol : x_is_psd (d * d) (x_choi d B HS) atol = gate_is_cp d B HS atol.
Proof. unfold gate_is_cp. apply x_is_psd_meq. apply x_choi_meq. Qed.

(* ---- request decoding, named *)
Definition nbasis (d : nat) : nat := (2 * (d * d) * (d * d))%nat.
Definition dec_basis (d : nat) (l : list Qc) : nat -> cmat Fq := basis_of_flat d (firstn (nbasis d) l).
Definition dec_data (d : nat) (l : list Qc) : list Qc := skipn (nbasis d) l.

Lemma raises_eq (rq : bool) (e i : bool) : (if rq then negb (e && i) else false) = ctor_raises rq (e && i).
Proof. destruct rq; reflexivity. Qed.

(* ---- State *)
Theorem op_state_spec (dz en inn rq : Z) (st aeq aineq rtol : Qc) (l : list Qc) :
  let d := Z.to_nat dz in let B := dec_basis d l in let v := vec_of_list 0%Qc (dec_data d l) in
  let a1 := @resolve_atol Fq st (opt en aeq) in let a2 := @resolve_atol Fq st (opt inn aineq) in
  op_state [dz; en; inn; rq] (st :: aeq :: aineq :: rtol :: l) =
  Ok [re (state_trace d B v); im (state_trace d B v); qb (state_is_trace_one d B v a1 rtol);
      qb (state_is_hermitian d B v a2); qb (state_is_psd d B v a2);
      qb (@state_is_physical Fq st rtol d B v (opt en aeq) (opt inn aineq));
      qb (@state_ctor_raises Fq st rtol d B v (zb rq))].
Proof. intros d B v a1 a2. unfold op_state. cbv zeta. fold d. fold (nbasis d). fold (dec_basis d l). fold B. fold (dec_data d l). fold v.
  fold a1. fold a2.
  pose proof (cfreeze_meq d (op_of_vec d B v)) as E.
  rewrite (mtrace_ext d _ _ E). fold (state_trace d B v).
  rewrite (reuse_eq a2 st (x_is_psd d (cfreeze d (op_of_vec d B v)))).
  rewrite !(x_is_psd_meq d _ _ _ E), (mutil_is_hermitian_ext Fq d _ _ a2 E), raises_eq. reflexivity. Qed.

(* ---- Povm *)
Lemma x_povm_elems_meq d B m (vs : nat -> rvec Fq) x : (x < m)%nat -> meq d d (x_povm_elems d B m vs x) (op_of_vec d B (vs x)).
Proof. intros Hx i j Hi Hj. unfold x_povm_elems.
  exact (mat_of_rows_nth cz d d (fun x => op_of_vec d B (vs x)) m x i j Hx Hi Hj). Qed.
Lemma x_povm_sum_meq d B m (vs : nat -> rvec Fq) atol rtol :
  meq d d (snd (x_povm_eq d m (x_povm_elems d B m vs) atol rtol)) (povm_sum d B m vs).
Proof. intros i j Hi Hj. unfold x_povm_eq. cbn [snd]. rewrite (cfreeze_meq d _ i j Hi Hj). unfold povm_sum.
  apply sumn_ext; intros x Hx. now apply x_povm_elems_meq. Qed.
Lemma x_povm_eq_eq d B m (vs : nat -> rvec Fq) atol rtol :
  fst (x_povm_eq d m (x_povm_elems d B m vs) atol rtol) = povm_is_identity_sum d B m vs atol rtol.
Proof. unfold povm_is_identity_sum. change (fst (x_povm_eq d m (x_povm_elems d B m vs) atol rtol))
    with (all2 d (fun i j => @ciscl Fq (snd (x_povm_eq d m (x_povm_elems d B m vs) atol rtol) i j) (cdelta i j) (rdelta i j) atol rtol)).
  apply all2_ext; intros i j Hi Hj. now rewrite (x_povm_sum_meq d B m vs atol rtol i j Hi Hj). Qed.
Lemma x_povm_psd_eq d B m (vs : nat -> rvec Fq) atol :
  allb m (fun x => x_is_psd d (x_povm_elems d B m vs x) atol) = povm_is_psd d B m vs atol.
Proof. unfold povm_is_psd. apply allb_ext; intros x Hx. apply x_is_psd_meq. now apply x_povm_elems_meq. Qed.

Theorem op_povm_spec (dz mz en inn rq : Z) (st aeq aineq rtol : Qc) (l : list Qc) :
  let d := Z.to_nat dz in let m := Z.to_nat mz in let B := dec_basis d l in let vs := vecs_of_flat (d * d) m (dec_data d l) in
  let a1 := @resolve_atol Fq st (opt en aeq) in let a2 := @resolve_atol Fq st (opt inn aineq) in
  op_povm [dz; mz; en; inn; rq] (st :: aeq :: aineq :: rtol :: l) =
  Ok ([qb (povm_is_identity_sum d B m vs a1 rtol); qb (povm_is_psd d B m vs a2);
       qb (@povm_is_physical Fq st rtol d B m vs (opt en aeq) (opt inn aineq));
       qb (@povm_ctor_raises Fq st rtol d B m vs (zb rq))] ++ flat_of_cmat d d (povm_sum d B m vs)).
Proof. intros d m B vs a1 a2. unfold op_povm. cbv zeta. fold d. fold m. fold (nbasis d). fold (dec_basis d l). fold B. fold (dec_data d l). fold vs.
  fold a1. fold a2.
  rewrite (reuse_eq a2 st (fun a => allb m (fun x => x_is_psd d (x_povm_elems d B m vs x) a))).
  rewrite !x_povm_eq_eq, !x_povm_psd_eq, raises_eq, (flat_of_cmat_ext d d _ _ (x_povm_sum_meq d B m vs a1 rtol)). reflexivity. Qed.

(* ---- Gate *)
Theorem op_gate_spec (dz fl en inn rq wc : Z) (st aeq aineq : Qc) (l : list Qc) :
  let d := Z.to_nat dz in let B := dec_basis d l in let HS := rmat_of_flat (d * d) (d * d) (dec_data d l) in
  let a1 := @resolve_atol Fq st (opt en aeq) in let a2 := @resolve_atol Fq st (opt inn aineq) in
  op_gate [dz; fl; en; inn; rq; wc] (st :: aeq :: aineq :: l) =
  Ok ([qb (gate_is_tp_row d HS a1); qb (gate_is_tp_trace d B HS a1); qb (gate_is_tp (zb fl) d B HS a1);
       qb (mutil_is_hermitian (d * d) (choi_of_hs d B HS) a2); qb (gate_is_cp d B HS a2);
       qb (@gate_is_physical Fq st (zb fl) d B HS (opt en aeq) (opt inn aineq));
       qb (@gate_ctor_raises Fq st (zb fl) d B HS (zb rq))]
      ++ (if zb wc then flat_of_cmat (d * d) (d * d) (choi_of_hs d B HS) else [])).
Proof. intros d B HS a1 a2. unfold op_gate. cbv zeta. fold d. fold (nbasis d). fold (dec_basis d l). fold B. fold (dec_data d l). fold HS.
  fold a1. fold a2. unfold x_gate_is_tp.
  rewrite (reuse_eq a2 st (x_is_psd (d * d) (x_choi d B HS))).
  rewrite !x_gate_is_cp_eq, (mutil_is_hermitian_ext Fq (d * d) _ _ a2 (x_choi_meq d B HS)), raises_eq,
          (flat_of_cmat_ext (d * d) (d * d) _ _ (x_choi_meq d B HS)). reflexivity. Qed.

Theorem op_gate_tp_spec (dz : Z) (a_row a_trace : Qc) (l : list Qc) :
  let d := Z.to_nat dz in let B := dec_basis d l in let HS := rmat_of_flat (d * d) (d * d) (dec_data d l) in
  op_gate_tp [dz] (a_row :: a_trace :: l) = Ok [qb (gate_is_tp_row d HS a_row); qb (gate_is_tp_trace d B HS a_trace)].
Proof. reflexivity. Qed.

(* ---- MProcess *)
Lemma x_mp_choi_meq d B m (hss : nat -> rmat Fq) x : (x < m)%nat ->
  meq (d * d) (d * d) (mat_of_rows cz (nth x (map (fun x => rows_of_mat (d * d) (d * d) (x_choi d B (hss x))) (seq 0 m)) []) : cmat Fq)
                      (choi_of_hs d B (hss x)).
Proof. intros Hx i j Hi Hj.
  transitivity (x_choi d B (hss x) i j); [|now apply x_choi_meq].
  exact (mat_of_rows_nth cz (d * d) (d * d) (fun x => x_choi d B (hss x)) m x i j Hx Hi Hj). Qed.
Lemma x_mp_cp_eq d B m (hss : nat -> rmat Fq) atol :
  allb m (fun x => x_is_psd (d * d) (mat_of_rows cz (nth x (map (fun x => rows_of_mat (d * d) (d * d) (x_choi d B (hss x))) (seq 0 m)) [])) atol)
  = mprocess_is_cp d B m hss atol.
Proof. unfold mprocess_is_cp, gate_is_cp. apply allb_ext; intros x Hx. apply x_is_psd_meq. now apply x_mp_choi_meq. Qed.
Lemma gate_is_tp_frozen flag d B (HS : rmat Fq) atol : (0 < d)%nat ->
  @gate_is_tp Fq flag d B (freeze 0%Qc (d * d) (d * d) HS) atol = gate_is_tp flag d B HS atol.
Proof. intros Hd. apply gate_is_tp_ext; [exact Hd|]. intros a b Ha Hb. now apply freeze_spec. Qed.

Theorem op_mprocess_spec (dz mz fl en inn rq : Z) (st aeq aineq : Qc) (l : list Qc) :
  let d := Z.to_nat dz in let m := Z.to_nat mz in let B := dec_basis d l in let hss := mats_of_flat (d * d) m (dec_data d l) in
  (0 < d)%nat ->
  op_mprocess [dz; mz; fl; en; inn; rq] (st :: aeq :: aineq :: l) =
  Ok [qb (mprocess_is_sum_tp (zb fl) d B m hss (@resolve_atol Fq st (opt en aeq)));
      qb (mprocess_is_cp d B m hss (@resolve_atol Fq st (opt inn aineq)));
      qb (@mprocess_is_physical Fq st (zb fl) d B m hss (opt en aeq) (opt inn aineq));
      qb (@mprocess_ctor_raises Fq st (zb fl) d B m hss (zb rq))].
Proof. intros d m B hss Hd. unfold op_mprocess. cbv zeta. fold d. fold m. fold (nbasis d). fold (dec_basis d l). fold B. fold (dec_data d l). fold hss.
  unfold x_gate_is_tp.
  rewrite (reuse_eq (@resolve_atol Fq st (opt inn aineq)) st
             (fun a => allb m (fun x => x_is_psd (d * d) (mat_of_rows cz (nth x (map (fun x => rows_of_mat (d * d) (d * d) (x_choi d B (hss x))) (seq 0 m)) [])) a))).
  rewrite !x_mp_cp_eq, !(gate_is_tp_frozen (zb fl) d B _ _ Hd), raises_eq. reflexivity. Qed.

(* ---- origin / zero data: the op returns the model's origin data followed by the model's zero data, element after element *)
Theorem op_origin_spec (dz mz : Z) (sd : Qc) :
  let d := Z.to_nat dz in let m := Z.to_nat mz in let n := (d * d)%nat in
  op_origin [0%Z; dz; mz] [sd] = Ok (list_of_vec n (@state_origin Fq sd) ++ list_of_vec n (@state_zero Fq)) /\
  op_origin [1%Z; dz; mz] [sd] = Ok (concat (map (fun x => list_of_vec n (@povm_origin Fq sd m x)) (seq 0 m))
                                     ++ concat (map (fun x => list_of_vec n (@povm_zero Fq x)) (seq 0 m))) /\
  op_origin [2%Z; dz; mz] [sd] = Ok (flat_of_rmat n n (@gate_origin Fq) ++ flat_of_rmat n n (@gate_zero Fq)) /\
  op_origin [3%Z; dz; mz] [sd] = Ok (concat (map (fun x => flat_of_rmat n n (@mprocess_origin Fq m x)) (seq 0 m))
                                     ++ concat (map (fun x => flat_of_rmat n n (@mprocess_zero Fq x)) (seq 0 m))).
Proof. cbv zeta. split; [reflexivity|]. split; [reflexivity|]. split; reflexivity. Qed.
