(* C15 — proofs about the seed dataflow model. Axiom-free. *)
From Coq Require Import List Arith Bool ZArith Lia Permutation.
From QV.Model Require Import C15_Dataflow.
Import ListNotations.

Lemma nth_map_seq {B} (f : nat -> B) (db : B) n i : (i < n)%nat -> nth i (map f (seq 0 n)) db = f i.
Proof. intros Hi. rewrite (nth_indep _ db (f 0%nat)) by (rewrite map_length, seq_length; exact Hi).
  rewrite map_nth, seq_nth by exact Hi. reflexivity. Qed.

(* ------------------------------------------------------------------ joblib.Parallel: schedule irrelevance *)
Section Par.
Context {A : Type} (d : A).

Lemma lookup_run_in_order (task : nat -> A) order i :
  In i order -> lookup i (run_in_order order task) = Some (task i).
Proof. induction order as [|j t IH]; intros H; [inversion H|]. cbn.
  destruct (Nat.eqb_spec j i) as [->|Hne]; [reflexivity|].
  apply IH. destruct H as [H|H]; [congruence|exact H]. Qed.

Theorem par_exec_schedule_irrelevant n order (task : nat -> A) :
  covers n order -> par_exec d n order task = map task (seq 0 n).
Proof. intros Hc. unfold par_exec, assemble. apply map_ext_in. intros i Hi.
  apply in_seq in Hi. rewrite lookup_run_in_order by (apply Hc; lia). reflexivity. Qed.

Corollary par_exec_two_schedules n o1 o2 (task : nat -> A) :
  covers n o1 -> covers n o2 -> par_exec d n o1 task = par_exec d n o2 task.
Proof. intros H1 H2. now rewrite !par_exec_schedule_irrelevant. Qed.

(* a partition of the tasks over workers (each worker runs its chunk in its own order; completion
   interleaving arbitrary) is a covering order *)
Lemma covers_concat n (chunks : list (list nat)) :
  (forall i, (i < n)%nat -> exists ch, In ch chunks /\ In i ch) -> covers n (concat chunks).
Proof. intros H i Hi. destruct (H i Hi) as [ch [H1 H2]]. apply in_concat. now exists ch. Qed.
Lemma covers_perm n order : Permutation order (seq 0 n) -> covers n order.
Proof. intros HP i Hi. apply (Permutation_in i (Permutation_sym HP)). apply in_seq. lia. Qed.
Lemma covers_seq n : covers n (seq 0 n).
Proof. intros i Hi. apply in_seq. lia. Qed.

Lemma par_exec_nth n order (task : nat -> A) i : covers n order -> (i < n)%nat ->
  nth i (par_exec d n order task) d = task i.
Proof. intros Hc Hi. rewrite par_exec_schedule_irrelevant by exact Hc.
  rewrite (nth_indep _ d (task 0%nat)) by (rewrite map_length, seq_length; exact Hi).
  rewrite map_nth, seq_nth by exact Hi. reflexivity. Qed.
End Par.

(* ------------------------------------------------------------------ flow: nested levels *)
Section Flow.
Context {Obj Data Est : Type} (dObj : Obj) (dData : Data) (dEst : Est).
Variable gen_obj : nat -> genkey -> Obj.
Variable gen_data : Obj -> list Obj -> key -> Data.
Variable estimate : nat -> Obj -> list Obj -> Data -> Est.

Notation flow_exec := (flow_exec dObj dData dEst gen_obj gen_data estimate).
Notation flow_spec := (flow_spec gen_obj gen_data estimate).
Notation sample_unit := (sample_unit dData dEst gen_obj gen_data estimate).


Lemma sample_unit_spec c o s : orders_cover c o ->
  sample_unit c o s =
  {| r_true := sample_true gen_obj c s; r_testers := sample_testers gen_obj c s;
     r_data := map (flow_data gen_obj gen_data c s) (seq 0 (f_n_rep c));
     r_est := map (fun k => map (flow_est gen_obj gen_data estimate c s k) (seq 0 (f_n_rep c))) (seq 0 (f_n_case c)) |}.
Proof. intros (H1 & H2 & H3 & H4). unfold C15_Dataflow.sample_unit.
  rewrite (par_exec_schedule_irrelevant dData) by apply H2.
  rewrite (par_exec_schedule_irrelevant []) by apply H3.
  f_equal. apply map_ext_in. intros k Hk. unfold case_unit.
  rewrite (par_exec_schedule_irrelevant dEst) by apply H4.
  apply map_ext_in. intros r Hr. apply in_seq in Hr. unfold flow_est. f_equal.
  rewrite nth_map_seq by lia. reflexivity. Qed.

(* results of the four-level parallel execution = the directly written result map, for every schedule *)
Theorem flow_exec_spec c o : orders_cover c o -> flow_exec c o = flow_spec c.
Proof. intros H. unfold C15_Dataflow.flow_exec, C15_Dataflow.flow_spec.
  rewrite (par_exec_schedule_irrelevant _) by apply H.
  apply map_ext_in. intros s _. now apply sample_unit_spec. Qed.

Lemma serial_covers c : orders_cover c (serial c).
Proof. repeat split; intros; apply covers_seq. Qed.

(* the whole result is a function of the configuration (settings + seeds) alone: the schedules of the four levels do
   not matter, and nothing else (no process-global stream) enters *)
Theorem flow_deterministic c o o' :
  orders_cover c o -> orders_cover c o' -> flow_exec c o = flow_exec c o'.
Proof. intros H H'. now rewrite !flow_exec_spec. Qed.

(* what every stored item is, by index *)
Theorem flow_exec_nth c o s : orders_cover c o -> (s < f_n_sample c)%nat ->
  nth s (flow_exec c o) (d_sample dObj) =
  {| r_true := sample_true gen_obj c s; r_testers := sample_testers gen_obj c s;
     r_data := map (flow_data gen_obj gen_data c s) (seq 0 (f_n_rep c));
     r_est := map (fun k => map (flow_est gen_obj gen_data estimate c s k) (seq 0 (f_n_rep c))) (seq 0 (f_n_case c)) |}.
Proof. intros H Hs. rewrite flow_exec_spec by exact H. unfold C15_Dataflow.flow_spec.
  now rewrite nth_map_seq. Qed.

(* re-estimating from the stored data of (sample s, repetition r) with the stored objects reproduces the stored
   estimate of every case k *)
Theorem flow_reestimate c o s k r : orders_cover c o ->
  (s < f_n_sample c)%nat -> (k < f_n_case c)%nat -> (r < f_n_rep c)%nat ->
  let res := nth s (flow_exec c o) (d_sample dObj) in
  nth r (nth k (r_est res) []) dEst = estimate k (r_true res) (r_testers res) (nth r (r_data res) dData).
Proof. intros H Hs Hk Hr. cbn zeta. rewrite flow_exec_nth by assumption. cbn [r_est r_data r_true r_testers].
  rewrite (nth_map_seq _ [] _ k Hk), (nth_map_seq _ dEst _ r Hr), (nth_map_seq _ dData _ r Hr). reflexivity. Qed.
End Flow.

(* ------------------------------------------------------------------ keys: injectivity of spawning *)
Lemma app_single_inj {A} (p : list A) i j : p ++ [i] = p ++ [j] -> i = j.
Proof. intros H. apply app_inv_head in H. now inversion H. Qed.

Lemma NoDup_map_inj {A B} (f : A -> B) l : (forall x y, In x l -> In y l -> f x = f y -> x = y) -> NoDup l -> NoDup (map f l).
Proof. intros Hinj Hnd. induction Hnd as [|a l Hn Hnd IH]; cbn; constructor.
  - intros Hin. apply in_map_iff in Hin. destruct Hin as [y [E Hy]].
    assert (y = a) by (apply Hinj; [now right|now left|exact E]). subst. contradiction.
  - apply IH. intros x y Hx Hy. apply Hinj; now right. Qed.

Theorem spawn_NoDup root parent n : NoDup (spawn root parent n).
Proof. unfold spawn. apply NoDup_map_inj; [|apply seq_NoDup].
  intros i j _ _ H. inversion H as [H1]. now apply app_single_inj in H1. Qed.

Lemma spawn_nth root parent n i : (i < n)%nat -> nth i (spawn root parent n) (KAmbient 0) = KSeed root (parent ++ [i]) 0.
Proof. intros Hi. unfold spawn. now rewrite nth_map_seq. Qed.

(* children of different parents / different roots never collide either *)
Lemma spawn_disjoint root root' p p' n n' k :
  (root <> root' \/ (length p = length p' /\ p <> p')) -> In k (spawn root p n) -> ~ In k (spawn root' p' n').
Proof. intros Hd H1 H2. unfold spawn in *. apply in_map_iff in H1, H2.
  destruct H1 as [i [E1 _]], H2 as [j [E2 _]]. subst k. inversion E2 as [[Hr Hp]].
  destruct Hd as [Hd|[Hl Hd]]; [congruence|]. apply Hd.
  apply app_inj_tail_iff in Hp. destruct Hp as [Hp _]. now symmetry. Qed.

(* every leaf of a spawn tree of any depth and any child counts is distinct *)
Lemma spawn_paths_length counts p : In p (spawn_paths counts) -> length p = length counts.
Proof. revert p. induction counts as [|n t IH]; intros p H; cbn in H.
  - destruct H as [<-|[]]. reflexivity.
  - apply in_flat_map in H. destruct H as [i [_ H]]. apply in_map_iff in H. destruct H as [q [<- Hq]].
    cbn. f_equal. now apply IH. Qed.

Lemma NoDup_flat_map_disjoint {A B} (f : A -> list B) l :
  NoDup l -> (forall a, In a l -> NoDup (f a)) ->
  (forall a a' b, In a l -> In a' l -> a <> a' -> In b (f a) -> ~ In b (f a')) -> NoDup (flat_map f l).
Proof. intros Hnd. induction Hnd as [|a l Hn Hnd IH]; intros H1 H2; cbn; [constructor|].
  assert (forall b, In b (f a) -> ~ In b (flat_map f l)).
  { intros b Hb Hin. apply in_flat_map in Hin. destruct Hin as [a' [Ha' Hb']].
    apply (H2 a a' b); [now left|now right| |exact Hb|exact Hb']. intros ->. contradiction. }
  assert (NoDup (f a)) by (apply H1; now left).
  assert (NoDup (flat_map f l)).
  { apply IH; [intros; apply H1; now right|]. intros a1 a2 b Ha1 Ha2. apply H2; now right. }
  clear IH H1 H2. induction H0 as [|b fb Hb Hfb IHfb]; cbn; [assumption|].
  constructor.
  - intros Hin. apply in_app_or in Hin. destruct Hin as [Hin|Hin]; [contradiction|].
    apply (H b); [now left|exact Hin].
  - apply IHfb. intros b' Hb'. apply H. now right. Qed.

Theorem spawn_paths_NoDup counts : NoDup (spawn_paths counts).
Proof. induction counts as [|n t IH]; cbn. { constructor; [intros []|constructor]. }
  apply NoDup_flat_map_disjoint; [apply seq_NoDup| |].
  - intros i _. apply NoDup_map_inj; [|exact IH]. intros x y _ _ H. now inversion H.
  - intros i j p _ _ Hne H1 H2. apply in_map_iff in H1, H2.
    destruct H1 as [q [<- _]], H2 as [q' [E _]]. inversion E. congruence. Qed.

Lemma spawn_paths_complete counts p :
  length p = length counts -> (forall i, (i < length p)%nat -> (nth i p 0 < nth i counts 0)%nat) -> In p (spawn_paths counts).
Proof. revert p. induction counts as [|n t IH]; intros p Hl Hb.
  - destruct p; [now left|discriminate].
  - destruct p as [|x q]; [discriminate|]. cbn. apply in_flat_map. exists x. split.
    + apply in_seq. specialize (Hb 0%nat). cbn in Hb. lia.
    + apply in_map. apply IH; [cbn in Hl; lia|]. intros i Hi. specialize (Hb (S i)). cbn in Hb. apply Hb. lia. Qed.

(* ------------------------------------------------------------------ keys used by the flow *)
Theorem flow_data_keys_distinct c : NoDup (map (data_key c) (seq 0 (f_n_rep c))).
Proof. apply (spawn_NoDup (f_seed_data c) [] (f_n_rep c)). Qed.

Lemma flow_data_keys_are_spawned c : map (data_key c) (seq 0 (f_n_rep c)) = spawn (f_seed_data c) [] (f_n_rep c).
Proof. reflexivity. Qed.

Lemma count_true_app l l' : count_true (l ++ l') = (count_true l + count_true l')%nat.
Proof. unfold count_true. now rewrite filter_app, app_length. Qed.

Lemma count_seeded_lt c j j' : (j < j')%nat -> seeded_at c j = true ->
  (count_true (map (seeded_at c) (seq 0 j)) < count_true (map (seeded_at c) (seq 0 j')))%nat.
Proof. intros Hlt Hs. replace j' with (j + S (j' - j - 1))%nat by lia.
  rewrite seq_app, map_app, count_true_app. cbn [seq map]. rewrite Nat.add_0_l, Hs.
  unfold count_true at 3. cbn [filter length]. lia. Qed.

(* object generation: no two (sample, object) pairs share a stream position, whatever mix of noise methods *)
Theorem flow_qop_keys_distinct c s j s' j' k :
  qop_key c s j = GKey k -> qop_key c s' j' = GKey k -> s = s' /\ j = j'.
Proof. unfold qop_key. destruct (seeded_at c j) eqn:E; [|discriminate].
  destruct (seeded_at c j') eqn:E'; [|discriminate]. intros H1 H2. inversion H1; subst. inversion H2 as [[Hs Hc]].
  split; [congruence|].
  destruct (Nat.lt_trichotomy j j') as [Hl|[He|Hl]]; [|exact He|].
  - pose proof (count_seeded_lt c j j' Hl E). lia.
  - pose proof (count_seeded_lt c j' j Hl E'). lia. Qed.

(* every object is either deterministic or drawn from the sample's spawned stream: never the process-global stream,
   never an error; and an object whose setting takes a stream does get one *)
Theorem flow_qop_key_seeded c s j :
  qop_key c s j = GNoRandom \/ exists off, qop_key c s j = GKey (KSeed (f_seed_qop c) [s] off).
Proof. unfold qop_key. destruct (seeded_at c j); [right; eexists; reflexivity|now left]. Qed.
Theorem flow_qop_key_random_gets_stream c s j : seeded_at c j = true -> exists k, qop_key c s j = GKey k.
Proof. unfold qop_key. intros ->. eexists; reflexivity. Qed.

(* the object streams and the data streams never coincide when the two seeds differ *)
Theorem flow_qop_data_keys_disjoint c s j r : f_seed_qop c <> f_seed_data c -> qop_key c s j <> GKey (data_key c r).
Proof. unfold qop_key, data_key. intros Hne. destruct (seeded_at c j); [|discriminate]. intros H. inversion H. congruence. Qed.

(* --- as coded before fix c15-flow-generation-stream-per-setting --- *)
Theorem flow_qop_keys_before_fix_distinct c amb s j s' j' k :
  f_true_seeded c = true ->
  qop_key_before_fix c amb s j = GKey k -> qop_key_before_fix c amb s' j' = GKey k -> s = s' /\ j = j'.
Proof. unfold qop_key_before_fix. intros ->. destruct j as [|t], j' as [|t']; intros H1 H2.
  - inversion H1; subst. inversion H2. auto.
  - destruct (nth t' _ false); inversion H1; subst; inversion H2.
  - destruct (nth t _ false); inversion H1; subst; inversion H2.
  - destruct (nth t _ false); [|discriminate]. destruct (nth t' _ false); [|discriminate].
    inversion H1; subst. inversion H2. auto. Qed.

(* on the configurations on which the old code neither raised nor used the ambient stream in a different way, old and
   new keys coincide: the repair changes nothing for homogeneous noise *)
Theorem flow_qop_key_fix_conservative c amb s j : (j <= length (f_tester_seeded c))%nat ->
  forallb (fun b => Bool.eqb b (f_true_seeded c)) (f_tester_seeded c) = true ->
  qop_key c s j = qop_key_before_fix c amb s j.
Proof. intros Hj Hall. rewrite forallb_forall in Hall.
  assert (Hs : forall i, (i <= length (f_tester_seeded c))%nat -> seeded_at c i = f_true_seeded c).
  { intros [|t] Ht; [reflexivity|]. cbn. apply eqb_prop. apply Hall. apply nth_In. lia. }
  unfold qop_key, qop_key_before_fix. rewrite (Hs j Hj).
  destruct (f_true_seeded c) eqn:Et.
  - assert (Hc : count_true (map (seeded_at c) (seq 0 j)) = j).
    { clear -Hs Hj. induction j as [|j IH]; [reflexivity|].
      rewrite seq_S, map_app, count_true_app, IH by lia. cbn [map Nat.add]. rewrite (Hs j) by lia.
      unfold count_true. cbn. lia. }
    rewrite Hc. destruct j as [|t]; [reflexivity|].
    specialize (Hs (S t) Hj). cbn in Hs. rewrite Hs. reflexivity.
  - destruct j as [|t]; [reflexivity|]. specialize (Hs (S t) Hj). cbn in Hs. rewrite Hs. reflexivity. Qed.

(* ------------------------------------------------------------------ single-setting entry point *)
(* whatever the argument (None -> seed_data or the ambient stream, an int, a Generator): the repetitions draw from
   pairwise distinct stream positions *)
Theorem single_keys_distinct arg seed_data n_rep : NoDup (single_keys arg seed_data n_rep).
Proof. unfold single_keys. apply NoDup_map_inj; [|apply seq_NoDup].
  intros i j _ _ H. destruct (resolve_seed arg seed_data); cbn in H; inversion H; lia. Qed.

(* all repetitions draw from ONE generator, at consecutive positions *)
Theorem single_keys_one_stream arg seed_data n_rep i : (i < n_rep)%nat ->
  nth i (single_keys arg seed_data n_rep) (KAmbient 0) =
  match resolve_seed arg seed_data with
  | SInt n => KSeed n [] i | SGen r p o => KSeed r p (o + i) | SNone => KAmbient i end.
Proof. intros Hi. unfold single_keys. rewrite nth_map_seq by exact Hi. destruct (resolve_seed arg seed_data); reflexivity. Qed.

(* with a seed (argument or the setting's seed_data) no process-global stream is involved: the run is a function of
   settings and seed *)
Definition key_seeded (k : key) : bool := match k with KSeed _ _ _ => true | KAmbient _ => false end.
Theorem single_keys_seeded arg seed_data n_rep : (arg <> SNone \/ seed_data <> None) ->
  forallb key_seeded (single_keys arg seed_data n_rep) = true.
Proof. intros H. apply forallb_forall. intros k Hk. unfold single_keys in Hk. apply in_map_iff in Hk.
  destruct Hk as [i [<- _]]. destruct arg; cbn; try reflexivity.
  destruct seed_data; [reflexivity|]. destruct H; congruence. Qed.

(* the repair does not touch the Generator / ambient cases, nor repetition 0 of the int case *)
Theorem single_key_fix_conservative s rep : (forall n, s <> SInt n) \/ rep = 0%nat -> single_key s rep = single_key_before_fix s rep.
Proof. intros [H| ->]; destruct s; try reflexivity. exfalso. now apply (H n). Qed.

(* --- as coded before fix c15-execute-simulation-int-seed-stream --- *)
(* int seed: EVERY repetition received the same key, hence (tasks being functions of the key) identical results *)
Theorem single_int_seed_all_keys_equal_before_fix n i j : single_key_before_fix (SInt n) i = single_key_before_fix (SInt n) j.
Proof. reflexivity. Qed.

Section SingleRun.
Context {Data Est : Type} (gen_data : key -> Data) (estimate : Data -> Est).
Theorem single_run_int_seed_identical_before_fix (dflt : Data * Est) arg seed n_rep i j :
  resolve_seed arg (Some seed) = SInt seed -> (i < n_rep)%nat -> (j < n_rep)%nat ->
  nth i (single_run_before_fix gen_data estimate arg (Some seed) n_rep) dflt = nth j (single_run_before_fix gen_data estimate arg (Some seed) n_rep) dflt.
Proof. intros E Hi Hj. unfold single_run_before_fix, single_keys_before_fix. rewrite E, map_map.
  set (f := fun x : nat => (gen_data (single_key_before_fix (SInt seed) x), estimate (gen_data (single_key_before_fix (SInt seed) x)))).
  rewrite !(nth_indep _ dflt (f 0%nat)) by (rewrite map_length, seq_length; assumption).
  rewrite !map_nth. reflexivity. Qed.

(* every stored estimate is the estimator applied to the stored data of the same repetition (re-estimation) *)
Theorem single_run_reestimate (dflt : Data * Est) arg seed_data n_rep r : (r < n_rep)%nat ->
  snd (nth r (single_run gen_data estimate arg seed_data n_rep) dflt) = estimate (fst (nth r (single_run gen_data estimate arg seed_data n_rep) dflt)).
Proof. intros Hr. unfold single_run.
  set (f := fun k => (gen_data k, estimate (gen_data k))).
  rewrite (nth_indep _ dflt (f (KAmbient 0))) by (unfold single_keys; rewrite !map_length, seq_length; exact Hr).
  rewrite map_nth. reflexivity. Qed.
End SingleRun.

(* the property "repetitions draw from pairwise distinct streams" was FALSE of the code before the fix *)
Theorem execute_simulation_repetitions_identical_before_fix_refuted :
  exists (arg : seedarg) (seed_data : option Z) (n_rep : nat),
    (2 <= n_rep)%nat /\ ~ NoDup (single_keys_before_fix arg seed_data n_rep).
Proof. exists SNone, (Some 5%Z), 3%nat. split; [lia|]. cbn. intros H. inversion H as [|x l Hn _]. apply Hn. now left. Qed.

(* ------------------------------------------------------------------ flow: unseeded tester generation *)
(* as coded before fix c15-flow-generation-stream-per-setting: "the generated objects are a function of settings and
   seeds" was FALSE when the true object's noise needs no randomness but a tester's does: the tester drew from the
   ambient stream *)
Theorem flow_tester_generation_unseeded_before_fix_refuted :
  exists (c : flowcfg) (s j a a' : nat), qop_key_before_fix c a s j <> qop_key_before_fix c a' s j.
Proof. exists {| f_seed_qop := 888; f_seed_data := 777; f_n_sample := 2; f_n_rep := 3; f_n_case := 3;
                 f_true_seeded := false; f_tester_seeded := [true; true; true] |}, 0%nat, 1%nat, 0%nat, 1%nat.
  cbn. intros H. inversion H. Qed.

(* and the converse mix raises *)
Theorem flow_mixed_generation_raises_before_fix c t : f_true_seeded c = true -> (t < length (f_tester_seeded c))%nat ->
  nth t (f_tester_seeded c) false = false -> flow_raises_before_fix c = true /\ forall amb s, qop_key_before_fix c amb s (S t) = GTypeError.
Proof. intros H1 Hl H2. split.
  - unfold flow_raises_before_fix. rewrite H1. cbn. apply negb_true_iff. apply not_true_iff_false. intros Hf.
    rewrite forallb_forall in Hf. specialize (Hf (nth t (f_tester_seeded c) false) (nth_In _ _ Hl)). congruence.
  - intros amb s. unfold qop_key_before_fix. now rewrite H1, H2. Qed.

(* ------------------------------------------------------------------ tasks sharing a mutable object *)
Definition all_own (l : list (nat * option nat)) : Prop := Forall (fun tr => snd tr = Some (fst tr)) l.

(* private copies (process workers, or a deep copy per task): every interleaving that respects each task's own
   program order makes every task optimise over ITS data *)
Theorem private_copies_race_free sched : forall seen regs,
  program_order seen sched = true -> (forall t, In t seen -> regs t = Some t) -> all_own (run_private regs sched).
Proof. induction sched as [|[t|t] r IH]; intros seen regs Hp Hr; cbn in *.
  - constructor.
  - apply (IH (t :: seen)); [exact Hp|]. intros u [<-|Hu].
    + now rewrite Nat.eqb_refl.
    + destruct (Nat.eqb_spec u t) as [->|_]; [reflexivity|now apply Hr].
  - apply andb_true_iff in Hp. destruct Hp as [Hs Hp]. constructor.
    + cbn. apply Hr. apply existsb_exists in Hs. destruct Hs as [u [Hu E]]. apply Nat.eqb_eq in E. now subst.
    + now apply (IH seen). Qed.

(* one shared object, tasks executed one after the other (n_jobs = 1): fine as well *)
Theorem shared_object_sequential_ok_before_fix order : forall reg,
  all_own (run_shared_before_fix reg (concat (map (fun t => [SetData t; Optimize t]) order))).
Proof. induction order as [|t r IH]; intros reg; cbn; [constructor|]. constructor; [reflexivity|apply IH]. Qed.

(* one shared object, two threads: there is an interleaving, respecting program order, in which a task optimises
   over ANOTHER task's data *)
Theorem shared_object_thread_race_before_fix_refuted :
  exists sched, program_order [] sched = true /\ ~ all_own (run_shared_before_fix None sched).
Proof. exists [SetData 0; SetData 1; Optimize 0; Optimize 1]%nat. split; [reflexivity|].
  cbn. intros H. inversion H as [|x l Hx _]. cbn in Hx. discriminate. Qed.
