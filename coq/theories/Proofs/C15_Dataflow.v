(* C15 — proofs about the seed dataflow model. Axiom-free. *)
From Coq Require Import List Arith Bool ZArith Lia Permutation.
From QV.Model Require Import C15_Dataflow.
Import ListNotations.

Lemma nth_map_seq {B} (f : nat -> B) (db : B) n i : (i < n)%nat -> nth i (map f (seq 0 n)) db = f i.
Proof. intros Hi. rewrite (nth_indep _ db (f 0%nat)) by (rewrite map_length, seq_length; exact Hi).
  rewrite map_nth, seq_nth by exact Hi. reflexivity. Qed.

(* ------------------------------------------------------------------ joblib.Parallel: schedule irrelevance *)
Section Par.
Context {A : Type} (d : A).

Lemma lookup_run_in_order (task : nat -> A) order i :
  In i order -> lookup i (run_in_order order task) = Some (task i).
Proof. induction order as [|j t IH]; intros H; [inversion H|]. cbn.
  destruct (Nat.eqb_spec j i) as [->|Hne]; [reflexivity|].
  apply IH. destruct H as [H|H]; [congruence|exact H]. Qed.

Theorem par_exec_schedule_irrelevant n order (task : nat -> A) :
  covers n order -> par_exec d n order task = map task (seq 0 n).
Proof. intros Hc. unfold par_exec, assemble. apply map_ext_in. intros i Hi.
  apply in_seq in Hi. rewrite lookup_run_in_order by (apply Hc; lia). reflexivity. Qed.

Corollary par_exec_two_schedules n o1 o2 (task : nat -> A) :
  covers n o1 -> covers n o2 -> par_exec d n o1 task = par_exec d n o2 task.
Proof. intros H1 H2. now rewrite !par_exec_schedule_irrelevant. Qed.

(* a partition of the tasks over workers (each worker runs its chunk in its own order; completion
   interleaving arbitrary) is a covering order *)
Lemma covers_concat n (chunks : list (list nat)) :
  (forall i, (i < n)%nat -> exists ch, In ch chunks /\ In i ch) -> covers n (concat chunks).
Proof. intros H i Hi. destruct (H i Hi) as [ch [H1 H2]]. apply in_concat. now exists ch. Qed.
Lemma covers_perm n order : Permutation order (seq 0 n) -> covers n order.
Proof. intros HP i Hi. apply (Permutation_in i (Permutation_sym HP)). apply in_seq. lia. Qed.
Lemma covers_seq n : covers n (seq 0 n).
Proof. intros i Hi. apply in_seq. lia. Qed.

Lemma par_exec_nth n order (task : nat -> A) i : covers n order -> (i < n)%nat ->
  nth i (par_exec d n order task) d = task i.
Proof. intros Hc Hi. rewrite par_exec_schedule_irrelevant by exact Hc.
  rewrite (nth_indep _ d (task 0%nat)) by (rewrite map_length, seq_length; exact Hi).
  rewrite map_nth, seq_nth by exact Hi. reflexivity. Qed.
End Par.

(* ------------------------------------------------------------------ flow: nested levels *)
Section Flow.
Context {Obj Data Est : Type} (dObj : Obj) (dData : Data) (dEst : Est).
Variable gen_obj : nat -> genkey -> Obj.
Variable gen_data : Obj -> list Obj -> key -> Data.
Variable estimate : nat -> Obj -> list Obj -> Data -> Est.

Notation flow_exec := (flow_exec dObj dData dEst gen_obj gen_data estimate).
Notation flow_spec := (flow_spec gen_obj gen_data estimate).
Notation sample_unit := (sample_unit dData dEst gen_obj gen_data estimate).


Lemma sample_unit_spec c o amb s : orders_cover c o ->
  sample_unit c o amb s =
  {| r_true := sample_true gen_obj c amb s; r_testers := sample_testers gen_obj c amb s;
     r_data := map (flow_data gen_obj gen_data c amb s) (seq 0 (f_n_rep c));
     r_est := map (fun k => map (flow_est gen_obj gen_data estimate c amb s k) (seq 0 (f_n_rep c))) (seq 0 (f_n_case c)) |}.
Proof. intros (H1 & H2 & H3 & H4). unfold C15_Dataflow.sample_unit.
  rewrite (par_exec_schedule_irrelevant dData) by apply H2.
  rewrite (par_exec_schedule_irrelevant []) by apply H3.
  f_equal. apply map_ext_in. intros k Hk. unfold case_unit.
  rewrite (par_exec_schedule_irrelevant dEst) by apply H4.
  apply map_ext_in. intros r Hr. apply in_seq in Hr. unfold flow_est. f_equal.
  rewrite nth_map_seq by lia. reflexivity. Qed.

(* results of the four-level parallel execution = the directly written result map, for every schedule *)
Theorem flow_exec_spec c o amb : orders_cover c o -> flow_exec c o amb = flow_spec c amb.
Proof. intros H. unfold C15_Dataflow.flow_exec, C15_Dataflow.flow_spec.
  rewrite (par_exec_schedule_irrelevant _) by apply H.
  apply map_ext_in. intros s _. now apply sample_unit_spec. Qed.

Lemma serial_covers c : orders_cover c (serial c).
Proof. repeat split; intros; apply covers_seq. Qed.

Theorem flow_schedule_irrelevant c o o' amb :
  orders_cover c o -> orders_cover c o' -> flow_exec c o amb = flow_exec c o' amb.
Proof. intros H H'. now rewrite !flow_exec_spec. Qed.

(* when no generation setting falls back to the ambient stream the result is a function of the
   configuration (settings + seeds) alone *)
Lemma qop_key_ambient_free c a a' s j : ambient_free c = true -> qop_key c a s j = qop_key c a' s j.
Proof. unfold ambient_free, qop_key. intros H. destruct (f_true_seeded c); [reflexivity|].
  cbn in H. destruct j as [|t]; [reflexivity|].
  destruct (nth t (f_tester_seeded c) false) eqn:E; [|reflexivity].
  exfalso. apply negb_true_iff in H.
  assert (existsb (fun b => b) (f_tester_seeded c) = true); [|congruence].
  apply existsb_exists. exists true. split; [|reflexivity].
  destruct (Nat.lt_ge_cases t (length (f_tester_seeded c))) as [Hl|Hl].
  - rewrite <- E. now apply nth_In.
  - rewrite nth_overflow in E by exact Hl. discriminate. Qed.

Theorem flow_deterministic c o o' amb amb' : ambient_free c = true ->
  orders_cover c o -> orders_cover c o' -> flow_exec c o amb = flow_exec c o' amb'.
Proof. intros Ha H H'. rewrite !flow_exec_spec by assumption. unfold C15_Dataflow.flow_spec.
  apply map_ext_in. intros s _.
  assert (Et : sample_true gen_obj c amb s = sample_true gen_obj c amb' s).
  { unfold sample_true. now rewrite (qop_key_ambient_free c (amb s) (amb' s) s 0 Ha). }
  assert (Es : sample_testers gen_obj c amb s = sample_testers gen_obj c amb' s).
  { unfold sample_testers. apply map_ext_in. intros j _. now rewrite (qop_key_ambient_free c (amb s) (amb' s) s j Ha). }
  unfold flow_est, flow_data. rewrite Et, Es. reflexivity. Qed.
End Flow.

(* ------------------------------------------------------------------ keys: injectivity of spawning *)
Lemma app_single_inj {A} (p : list A) i j : p ++ [i] = p ++ [j] -> i = j.
Proof. intros H. apply app_inv_head in H. now inversion H. Qed.

Lemma NoDup_map_inj {A B} (f : A -> B) l : (forall x y, In x l -> In y l -> f x = f y -> x = y) -> NoDup l -> NoDup (map f l).
Proof. intros Hinj Hnd. induction Hnd as [|a l Hn Hnd IH]; cbn; constructor.
  - intros Hin. apply in_map_iff in Hin. destruct Hin as [y [E Hy]].
    assert (y = a) by (apply Hinj; [now right|now left|exact E]). subst. contradiction.
  - apply IH. intros x y Hx Hy. apply Hinj; now right. Qed.

Theorem spawn_NoDup root parent n : NoDup (spawn root parent n).
Proof. unfold spawn. apply NoDup_map_inj; [|apply seq_NoDup].
  intros i j _ _ H. inversion H as [H1]. now apply app_single_inj in H1. Qed.

Lemma spawn_nth root parent n i : (i < n)%nat -> nth i (spawn root parent n) (KAmbient 0) = KSeed root (parent ++ [i]) 0.
Proof. intros Hi. unfold spawn. now rewrite nth_map_seq. Qed.

(* children of different parents / different roots never collide either *)
Lemma spawn_disjoint root root' p p' n n' k :
  (root <> root' \/ (length p = length p' /\ p <> p')) -> In k (spawn root p n) -> ~ In k (spawn root' p' n').
Proof. intros Hd H1 H2. unfold spawn in *. apply in_map_iff in H1, H2.
  destruct H1 as [i [E1 _]], H2 as [j [E2 _]]. subst k. inversion E2 as [[Hr Hp]].
  destruct Hd as [Hd|[Hl Hd]]; [congruence|]. apply Hd.
  apply app_inj_tail_iff in Hp. destruct Hp as [Hp _]. now symmetry. Qed.

(* every leaf of a spawn tree of any depth and any child counts is distinct *)
Lemma spawn_paths_length counts p : In p (spawn_paths counts) -> length p = length counts.
Proof. revert p. induction counts as [|n t IH]; intros p H; cbn in H.
  - destruct H as [<-|[]]. reflexivity.
  - apply in_flat_map in H. destruct H as [i [_ H]]. apply in_map_iff in H. destruct H as [q [<- Hq]].
    cbn. f_equal. now apply IH. Qed.

Lemma NoDup_flat_map_disjoint {A B} (f : A -> list B) l :
  NoDup l -> (forall a, In a l -> NoDup (f a)) ->
  (forall a a' b, In a l -> In a' l -> a <> a' -> In b (f a) -> ~ In b (f a')) -> NoDup (flat_map f l).
Proof. intros Hnd. induction Hnd as [|a l Hn Hnd IH]; intros H1 H2; cbn; [constructor|].
  assert (forall b, In b (f a) -> ~ In b (flat_map f l)).
  { intros b Hb Hin. apply in_flat_map in Hin. destruct Hin as [a' [Ha' Hb']].
    apply (H2 a a' b); [now left|now right| |exact Hb|exact Hb']. intros ->. contradiction. }
  assert (NoDup (f a)) by (apply H1; now left).
  assert (NoDup (flat_map f l)).
  { apply IH; [intros; apply H1; now right|]. intros a1 a2 b Ha1 Ha2. apply H2; now right. }
  clear IH H1 H2. induction H0 as [|b fb Hb Hfb IHfb]; cbn; [assumption|].
  constructor.
  - intros Hin. apply in_app_or in Hin. destruct Hin as [Hin|Hin]; [contradiction|].
    apply (H b); [now left|exact Hin].
  - apply IHfb. intros b' Hb'. apply H. now right. Qed.

Theorem spawn_paths_NoDup counts : NoDup (spawn_paths counts).
Proof. induction counts as [|n t IH]; cbn. { constructor; [intros []|constructor]. }
  apply NoDup_flat_map_disjoint; [apply seq_NoDup| |].
  - intros i _. apply NoDup_map_inj; [|exact IH]. intros x y _ _ H. now inversion H.
  - intros i j p _ _ Hne H1 H2. apply in_map_iff in H1, H2.
    destruct H1 as [q [<- _]], H2 as [q' [E _]]. inversion E. congruence. Qed.

Lemma spawn_paths_complete counts p :
  length p = length counts -> (forall i, (i < length p)%nat -> (nth i p 0 < nth i counts 0)%nat) -> In p (spawn_paths counts).
Proof. revert p. induction counts as [|n t IH]; intros p Hl Hb.
  - destruct p; [now left|discriminate].
  - destruct p as [|x q]; [discriminate|]. cbn. apply in_flat_map. exists x. split.
    + apply in_seq. specialize (Hb 0%nat). cbn in Hb. lia.
    + apply in_map. apply IH; [cbn in Hl; lia|]. intros i Hi. specialize (Hb (S i)). cbn in Hb. apply Hb. lia. Qed.

(* ------------------------------------------------------------------ keys used by the flow *)
Theorem flow_data_keys_distinct c : NoDup (map (data_key c) (seq 0 (f_n_rep c))).
Proof. apply (spawn_NoDup (f_seed_data c) [] (f_n_rep c)). Qed.

Lemma flow_data_keys_are_spawned c : map (data_key c) (seq 0 (f_n_rep c)) = spawn (f_seed_data c) [] (f_n_rep c).
Proof. reflexivity. Qed.

(* seeded generation: the keys of all (sample, object) pairs are pairwise distinct *)
Theorem flow_qop_keys_distinct c amb s j s' j' k :
  f_true_seeded c = true ->
  qop_key c amb s j = GKey k -> qop_key c amb s' j' = GKey k -> s = s' /\ j = j'.
Proof. unfold qop_key. intros ->. destruct j as [|t], j' as [|t']; intros H1 H2.
  - inversion H1; subst. inversion H2. auto.
  - destruct (nth t' _ false); inversion H1; subst; inversion H2.
  - destruct (nth t _ false); inversion H1; subst; inversion H2.
  - destruct (nth t _ false); [|discriminate]. destruct (nth t' _ false); [|discriminate].
    inversion H1; subst. inversion H2. auto. Qed.

(* ------------------------------------------------------------------ single-setting entry point *)
(* int seed: EVERY repetition receives the same key, hence (tasks being functions of the key) identical results *)
Theorem single_int_seed_all_keys_equal n i j : single_key (SInt n) i = single_key (SInt n) j.
Proof. reflexivity. Qed.

Theorem single_default_seed_all_keys_equal n i j :
  single_key (resolve_seed SNone (Some n)) i = single_key (resolve_seed SNone (Some n)) j.
Proof. reflexivity. Qed.

Section SingleRun.
Context {Data Est : Type} (gen_data : key -> Data) (estimate : Data -> Est).
Theorem single_run_int_seed_identical (dflt : Data * Est) arg seed n_rep i j :
  resolve_seed arg (Some seed) = SInt seed -> (i < n_rep)%nat -> (j < n_rep)%nat ->
  nth i (single_run gen_data estimate arg (Some seed) n_rep) dflt = nth j (single_run gen_data estimate arg (Some seed) n_rep) dflt.
Proof. intros E Hi Hj. unfold single_run, single_keys. rewrite E, map_map.
  set (f := fun x : nat => (gen_data (single_key (SInt seed) x), estimate (gen_data (single_key (SInt seed) x)))).
  rewrite !(nth_indep _ dflt (f 0%nat)) by (rewrite map_length, seq_length; assumption).
  rewrite !map_nth. reflexivity. Qed.
End SingleRun.

(* the property "repetitions draw from pairwise distinct streams" is FALSE of the faithful model *)
Theorem execute_simulation_repetitions_identical_refuted :
  exists (arg : seedarg) (seed_data : option Z) (n_rep : nat),
    (2 <= n_rep)%nat /\ ~ NoDup (single_keys arg seed_data n_rep).
Proof. exists SNone, (Some 5%Z), 3%nat. split; [lia|]. cbn. intros H. inversion H as [|x l Hn _]. apply Hn. now left. Qed.

(* ... whereas a Generator object (or the ambient stream) is threaded: distinct positions *)
Theorem single_generator_keys_distinct r p o seed_data n_rep : NoDup (single_keys (SGen r p o) seed_data n_rep).
Proof. unfold single_keys. cbn [resolve_seed]. apply NoDup_map_inj; [|apply seq_NoDup].
  intros i j _ _ H. cbn in H. inversion H. lia. Qed.
Theorem single_ambient_keys_distinct n_rep : NoDup (single_keys SNone None n_rep).
Proof. unfold single_keys. cbn [resolve_seed]. apply NoDup_map_inj; [|apply seq_NoDup].
  intros i j _ _ H. cbn in H. now inversion H. Qed.

(* ------------------------------------------------------------------ flow: unseeded tester generation *)
(* "the generated objects are a function of settings and seeds" is FALSE of the faithful model when the true
   object's noise needs no randomness but a tester's does: the tester draws from the ambient stream *)
Theorem flow_tester_generation_unseeded_refuted :
  exists (c : flowcfg) (s j a a' : nat), qop_key c a s j <> qop_key c a' s j.
Proof. exists {| f_seed_qop := 888; f_seed_data := 777; f_n_sample := 2; f_n_rep := 3; f_n_case := 3;
                 f_true_seeded := false; f_tester_seeded := [true; true; true] |}, 0%nat, 1%nat, 0%nat, 1%nat.
  cbn. intros H. inversion H. Qed.

(* and the converse mix raises *)
Theorem flow_mixed_generation_raises c t : f_true_seeded c = true -> (t < length (f_tester_seeded c))%nat ->
  nth t (f_tester_seeded c) false = false -> flow_raises c = true /\ forall amb s, qop_key c amb s (S t) = GTypeError.
Proof. intros H1 Hl H2. split.
  - unfold flow_raises. rewrite H1. cbn. apply negb_true_iff. apply not_true_iff_false. intros Hf.
    rewrite forallb_forall in Hf. specialize (Hf (nth t (f_tester_seeded c) false) (nth_In _ _ Hl)). congruence.
  - intros amb s. unfold qop_key. now rewrite H1, H2. Qed.

(* ------------------------------------------------------------------ the proposed repairs restore the property *)
Theorem single_keys_fixed_distinct arg seed_data n_rep : NoDup (single_keys_fixed arg seed_data n_rep).
Proof. unfold single_keys_fixed. apply NoDup_map_inj; [|apply seq_NoDup].
  intros i j _ _ H. destruct (resolve_seed arg seed_data); cbn in H; inversion H; lia. Qed.

Lemma count_true_app l l' : count_true (l ++ l') = (count_true l + count_true l')%nat.
Proof. unfold count_true. now rewrite filter_app, app_length. Qed.

Lemma count_seeded_lt c j j' : (j < j')%nat -> seeded_at c j = true ->
  (count_true (map (seeded_at c) (seq 0 j)) < count_true (map (seeded_at c) (seq 0 j')))%nat.
Proof. intros Hlt Hs. replace j' with (j + S (j' - j - 1))%nat by lia.
  rewrite seq_app, map_app, count_true_app. cbn [seq map]. rewrite Nat.add_0_l, Hs.
  unfold count_true at 3. cbn [filter length]. lia. Qed.

Theorem flow_qop_keys_fixed_distinct c s j s' j' k :
  qop_key_fixed c s j = GKey k -> qop_key_fixed c s' j' = GKey k -> s = s' /\ j = j'.
Proof. unfold qop_key_fixed. destruct (seeded_at c j) eqn:E; [|discriminate].
  destruct (seeded_at c j') eqn:E'; [|discriminate]. intros H1 H2. inversion H1; subst. inversion H2 as [[Hs Hc]].
  split; [congruence|].
  destruct (Nat.lt_trichotomy j j') as [Hl|[He|Hl]]; [|exact He|].
  - pose proof (count_seeded_lt c j j' Hl E). lia.
  - pose proof (count_seeded_lt c j' j Hl E'). lia. Qed.

(* ------------------------------------------------------------------ tasks sharing a mutable object *)
Definition all_own (l : list (nat * option nat)) : Prop := Forall (fun tr => snd tr = Some (fst tr)) l.

(* private copies (process workers, or a deep copy per task): every interleaving that respects each task's own
   program order makes every task optimise over ITS data *)
Theorem private_copies_race_free sched : forall seen regs,
  program_order seen sched = true -> (forall t, In t seen -> regs t = Some t) -> all_own (run_private regs sched).
Proof. induction sched as [|[t|t] r IH]; intros seen regs Hp Hr; cbn in *.
  - constructor.
  - apply (IH (t :: seen)); [exact Hp|]. intros u [<-|Hu].
    + now rewrite Nat.eqb_refl.
    + destruct (Nat.eqb_spec u t) as [->|_]; [reflexivity|now apply Hr].
  - apply andb_true_iff in Hp. destruct Hp as [Hs Hp]. constructor.
    + cbn. apply Hr. apply existsb_exists in Hs. destruct Hs as [u [Hu E]]. apply Nat.eqb_eq in E. now subst.
    + now apply (IH seen). Qed.

(* one shared object, tasks executed one after the other (n_jobs = 1): fine as well *)
Theorem shared_object_sequential_ok order : forall reg,
  all_own (run_shared reg (concat (map (fun t => [SetData t; Optimize t]) order))).
Proof. induction order as [|t r IH]; intros reg; cbn; [constructor|]. constructor; [reflexivity|apply IH]. Qed.

(* one shared object, two threads: there is an interleaving, respecting program order, in which a task optimises
   over ANOTHER task's data *)
Theorem shared_object_thread_race_refuted :
  exists sched, program_order [] sched = true /\ ~ all_own (run_shared None sched).
Proof. exists [SetData 0; SetData 1; Optimize 0; Optimize 1]%nat. split; [reflexivity|].
  cbn. intros H. inversion H as [|x l Hx _]. cbn in Hx. discriminate. Qed.
