(* C12 — statements of Props/C12.v that combine several lemmas (glue proofs only). *)
From Coq Require Import Reals Arith List QArith Qcanon Lra Lia String.
From Coquelicot Require Import Coquelicot.
From QV.Core Require Import OF Sums Mat QcOF ROF.
From QV.Model Require Import C12_Loss C12_Mixed C12_Dispatch C12_Skeleton C12_Slices.
From QV.Proofs Require Import C12_Loss C12_Config C12_RelEntropy C12_RelEntropyR C12_Mixed C12_Dispatch C12_Skeleton C12_Slices.
Import ListNotations.

Lemma main_se_hessian_is_twice_half_and_symmetric : forall (R : CR) ns m nv (W : @wts R) (A : @mat R) (b q v : @vec R),
  (forall al be, se_hess ns m nv W A b q v al be
                 = cadd R (se_hess_half ns m nv W A b q v al be) (se_hess_half ns m nv W A b q v al be)) /\
  (wsym ns m W -> msym nv (se_hess ns m nv W A b q v)).
Proof. intros. split; [intros; apply se_hess_double|apply se_hess_sym]. Qed.

Lemma main_simple_quadratic_taylor : forall (R : CR) n (ref v h : @vec R),
  sq_value n ref (vadd v h) = cadd R (cadd R (sq_value n ref v) (dot n (sq_grad ref v) h)) (dot n h h) /\
  (forall i, (i < n)%nat -> sq_grad ref (vadd v h) i = cadd R (sq_grad ref v i) (mv n sq_hess h i)).
Proof. intros. split; [apply sq_taylor|intros; now apply sq_grad_shift]. Qed.

Lemma main_fast_value_gradient_eq_generic : forall (R : CR) ns m nv (W : @wts R) (E : option (@mat R)) (A : @mat R) (b q v : @vec R),
  ext_matches (ns * m) m W E ->
  fast_value (ns * m) nv E A b q v = se_value ns m nv W A b q v /\
  forall al, fast_grad (ns * m) nv E A b q v al = se_grad ns m nv W A b q v al.
Proof. intros. split; [now apply fast_value_eq|intros; now apply fast_grad_eq]. Qed.

(* ---- the repaired code *)
Lemma main_fast_agrees_all_histories : forall (R : CR) ns m nv (steps : list (@cstep R)) (st : @fstate R) (A : @mat R) (b q v : @vec R),
  ext_matches (ns * m) m (f_w st) (f_ext st) ->
  (forall st', run_fast m steps st = COk st' ->
     run_generic steps (f_w st) = COk (f_w st') /\
     fast_value (ns * m) nv (f_ext st') A b q v = se_value ns m nv (f_w st') A b q v /\
     forall al, fast_grad (ns * m) nv (f_ext st') A b q v al = se_grad ns m nv (f_w st') A b q v al) /\
  (run_fast m steps st = CErr -> run_generic steps (f_w st) = CErr).
Proof. intros R ns m nv steps st A b q v H0. split.
  - intros st' H. now apply (fast_agrees ns m nv steps st st').
  - apply run_fast_err. Qed.

(* histories that carry option identities (same object handed again / equal-but-distinct objects): the identities
   have no influence, the fast class agrees with the generic one after any such history *)
Lemma main_fast_agrees_all_histories_with_option_reuse : forall (R : CR) ns m nv (steps : list (@ostep R)) (os : @ostate R)
    (A : @mat R) (b q v : @vec R),
  ext_matches (ns * m) m (f_w (o_st os)) (f_ext (o_st os)) ->
  (forall os', run_fast_o m steps os = COk os' ->
     run_fast m (map erase steps) (o_st os) = COk (o_st os') /\
     (exists c', run_generic_o steps (f_w (o_st os), o_opt os) = COk c' /\ fst c' = f_w (o_st os')) /\
     fast_value (ns * m) nv (f_ext (o_st os')) A b q v = se_value ns m nv (f_w (o_st os')) A b q v /\
     forall al, fast_grad (ns * m) nv (f_ext (o_st os')) A b q v al = se_grad ns m nv (f_w (o_st os')) A b q v al) /\
  (run_fast_o m steps os = CErr -> run_generic_o steps (f_w (o_st os), o_opt os) = CErr).
Proof. intros R ns m nv steps os A b q v H0.
  pose proof (run_fast_o_erase m steps os) as HF.
  pose proof (run_generic_o_erase steps (f_w (o_st os), o_opt os)) as HG. cbn [fst] in HG.
  split.
  - intros os' H. rewrite H in HF. destruct (run_fast m (map erase steps) (o_st os)) as [st'|] eqn:E; [|contradiction].
    subst st'. split; [reflexivity|].
    destruct (fast_agrees ns m nv (map erase steps) (o_st os) (o_st os') A b q v H0 E) as [Hg [Hv Hgr]].
    rewrite Hg in HG. destruct (run_generic_o steps (f_w (o_st os), o_opt os)) as [c'|]; [|contradiction].
    split; [exists c'; split; [reflexivity|exact HG]|]. split; [exact Hv|exact Hgr].
  - intros H. rewrite H in HF. destruct (run_fast m (map erase steps) (o_st os)) as [st'|] eqn:E; [contradiction|].
    rewrite (run_fast_err m (map erase steps) (o_st os) E) in HG.
    destruct (run_generic_o steps (f_w (o_st os), o_opt os)); [contradiction|reflexivity]. Qed.

Lemma main_reconfiguration_uses_current_data : forall (R : CR) m oid md (c : @wts R) k (os : @ostate R),
  match step_fast_o m (OConfig oid md c k) os, step_generic_o (OConfig oid md c k) (f_w (o_st os), o_opt os), mode_spec md c k with
  | COk os', COk c', COk w =>
      f_w (o_st os') = w /\ fst c' = w /\ o_opt os' = Some oid /\
      f_ext (o_st os') = match w with Some w' => Some (ext_of m w') | None => None end
  | CErr, CErr, CErr => True
  | _, _, _ => False
  end.
Proof. intros. pose proof (reconfigure_same_option m oid md c k os) as H.
  unfold step_generic_o. cbn [erase step_generic fst snd]. unfold config_generic. rewrite modes_effective.
  destruct (step_fast_o m (OConfig oid md c k) os) as [os'|], (mode_spec md c k) as [w|]; try exact H.
  destruct H as [H1 [H2 H3]]. cbn [fst]. repeat split; assumption. Qed.

Lemma main_re_option_identity_irrelevant : forall (R : CR) m (steps : list (@rostep R)) (os : @rostate R),
  ro_st (run_re_fast_o m steps os) = run_re_fast m (map rerase steps) (ro_st os).
Proof. intros. apply run_re_fast_o_erase. Qed.

Lemma main_modes_effective : forall (R : CR) md (c : @wts R) k (cur : @wts R) m (st : @fstate R),
  config_generic md c k cur = mode_spec md c k /\
  match config_fast m md c k st, mode_spec md c k with
  | COk st', COk w => f_w st' = w /\ f_ext st' = match w with Some w' => Some (ext_of m w') | None => None end
  | CErr, CErr => True
  | _, _ => False
  end.
Proof. intros. split; [apply modes_effective|].
  unfold config_fast. rewrite modes_effective. destruct (mode_spec md c k) as [w|]; [|exact I].
  split; reflexivity. Qed.

Lemma main_configuration_history_independent : forall (R : CR) m md (c : @wts R) k (cur cur' : @wts R) (st st' : @fstate R),
  config_generic md c k cur = config_generic md c k cur' /\ config_fast m md c k st = config_fast m md c k st'.
Proof. intros. split; [apply config_generic_history_independent|apply config_fast_history_independent]. Qed.

Lemma main_inverse_covariance_all_outcome_counts : forall (F : OF) ns m (invs : nat -> @mat F),
  exists w, inv_cov_weights F ns m invs = Some w /\
    (forall j x y, w j x y = lead_block F m (sym_half F (invs j)) x y) /\
    wsym ns m (Some w) /\
    (forall k (inv : @mat F) (d : @vec F), qfm (S k) (lead_block F (S k) inv) d = qfm k inv d).
Proof. intros. destruct (inv_cov_weights_some F ns m invs) as [w [Hw Hv]]. exists w. split; [exact Hw|].
  split; [exact Hv|]. split.
  - intros j _ x y Hx Hy. rewrite !Hv. exact (lead_block_sym_half_sym F m (invs j) x y Hx Hy).
  - intros. apply qfm_lead_block. Qed.

Lemma main_inverse_covariance_weights_are_the_inverse_block : forall (F : OF) k (M inv : @mat F),
  msym k M -> is_inverse F k M inv ->
  msym k inv /\ meq k k (sym_half F inv) inv /\
  (forall x y, (x < S k)%nat -> (y < S k)%nat -> lead_block F (S k) (sym_half F inv) x y = lead_block F (S k) inv x y).
Proof. intros F k M inv HM Hi. split; [now apply (inverse_of_sym_is_sym F k M)|].
  split; [now apply (sym_half_exact_inverse F k M)|].
  intros x y _ _. unfold lead_block. replace (S k - 1)%nat with k by lia.
  destruct (Nat.ltb_spec x k); [|reflexivity]. destruct (Nat.ltb_spec y k); [|reflexivity]. cbn.
  now apply (sym_half_exact_inverse F k M). Qed.

Lemma main_inverse_certificate : forall (F : OF) k (M inv inv' : @mat F),
  (is_inverse_b F k M inv = true -> is_inverse F k M inv) /\
  (is_inverse F k M inv -> is_inverse F k M inv' -> meq k k inv inv') /\
  (forall (q : @vec F) ncov n32 x y, extracted F q ncov n32 x y = extracted F q ncov n32 y x).
Proof. intros. split; [apply is_inverse_b_spec|]. split; [apply is_inverse_unique|intros; apply extracted_sym]. Qed.

Lemma main_re_modes_effective : forall (R : CR) m cm (custom cur : option (@vec R)) (st : @rstate R),
  config_re cm custom cur = config_re_spec cm custom /\
  r_w (config_re_fast m cm custom st) = config_re_spec cm custom /\ rstate_ok m (config_re_fast m cm custom st).
Proof. intros. split; [reflexivity|]. destruct (config_re_fast_ok m cm custom st) as [H1 H2]. now split. Qed.

Lemma rstate_ok_ew_matches (F : OF) m N (st : @rstate F) : rstate_ok m st ->
  exists sel, re_fast_sel st = COk sel /\ ew_matches F m (r_w st) sel N.
Proof. intros H. rewrite (re_fast_sel_ok m st H). eexists. split; [reflexivity|].
  destruct (r_w st); cbn; [intros i _; reflexivity|exact I]. Qed.

Lemma main_re_fast_agrees_all_histories : forall (F : OF) (ln : F -> F) ns m (steps : list (@rstep F)) (st : @rstate F)
    epsq epsp (A : @mat F) (p q : @vec F),
  rstate_ok m st -> (forall i, (i < ns * m)%nat -> kle F (c0 F) (q i)) ->
  let st' := run_re_fast m steps st in
  r_w st' = run_re steps (r_w st) /\
  exists sel, re_fast_sel st' = COk sel /\
    re_fast_value_at F ln (ns * m) sel epsq epsp p q = re_value_at F ln ns m (r_w st') epsq epsp p q /\
    forall al, re_fast_grad_at F (ns * m) sel epsq epsp A p q al = re_grad_at F ns m (r_w st') epsq epsp A p q al.
Proof. intros F ln ns m steps st epsq epsp A p q H0 Hq st'.
  destruct (run_re_fast_ok m steps st H0) as [Hok Hw]. fold st' in Hok, Hw. split; [exact Hw|].
  destruct (rstate_ok_ew_matches F m (ns * m) st' Hok) as [sel [Hs Hm]]. exists sel. split; [exact Hs|].
  split; [now apply re_fast_value_eq|intros; now apply re_fast_grad_eq]. Qed.

(* ---- the code as it was before the fixes *)
Lemma main_fast_cache_prefix : forall (R : CR) m md (c : @wts R) k (st st' : @fstate R),
  config_fast_prefix m md c k st = COk st' ->
  config_generic_prefix md c k (f_w st) = COk (f_w st') /\
  f_ext st' = match f_w st with Some w => Some (ext_of m w) | None => f_ext st end.
Proof. intros R m md c k st st' H. split.
  - pose proof (config_fast_prefix_weights m md c k st) as G. rewrite H in G.
    destruct (config_generic_prefix md c k (f_w st)); [now subst|contradiction].
  - now apply (config_fast_prefix_cache m md c k st st'). Qed.

Lemma main_alias_mode_ignored_refuted :
  (forall (R : CR) (c : @wts R) k (cur : @wts R), set_weights_by_mode_prefix MAliasUnbiasedInv c k cur = COk cur) /\
  exists (c1 : nat -> @mat Qc_OF) (A : @mat Qc_OF) (b q v : @vec Qc_OF) (W Wspec : @wts Qc_OF),
    config_generic_prefix MAliasUnbiasedInv None (Some c1) None = COk W /\ mode_spec MAliasUnbiasedInv None (Some c1) = COk Wspec /\
    se_value 1 2 1 W A b q v <> se_value 1 2 1 Wspec A b q v.
Proof. split; [reflexivity|exact alias_mode_witness]. Qed.

Lemma main_relative_entropy_custom_weights_ignored_refuted :
  (forall (R : CR) cm (custom cur : option (@vec R)), config_re_prefix cm custom cur = cur) /\
  exists (custom : @vec Qc_OF) (A : @mat Qc_OF) (b q v : @vec Qc_OF),
    config_re_prefix true (Some custom) None = None /\ config_re_spec true (Some custom) = Some custom /\
    re_grad Qc_OF 1 2 1 (config_re_prefix true (Some custom) None) weps weps A b q v O
      <> re_grad Qc_OF 1 2 1 (config_re_spec true (Some custom)) weps weps A b q v O.
Proof. split; [reflexivity|exact re_custom_witness]. Qed.

Lemma main_se_mixed_outcome_counts : forall (R : CR) nv (Bs : list (@sblock R)) (v h : @vec R),
  mix_value nv Bs v = mix_spec nv Bs v /\
  (blocks_sym Bs ->
     mix_value nv Bs (vadd v h)
     = cadd R (cadd R (mix_value nv Bs v) (dot nv (mix_grad nv Bs v) h)) (qfm nv (mix_hess_half nv Bs v) h)) /\
  (forall al, mix_grad nv Bs (vadd v h) al
     = cadd R (mix_grad nv Bs v al)
              (mv nv (fun a c => cadd R (mix_hess_half nv Bs v a c) (mix_hess_half nv Bs v a c)) h al)).
Proof. intros. split; [apply mix_value_is_spec|]. split; [apply mix_taylor|intros; apply mix_grad_shift]. Qed.

Lemma main_decision_tables : forall (R : CR),
  (forall md (c : @wts R) k (cur : @wts R), set_weights_by_mode md c k cur = run_action (action_of md) c k cur) /\
  (forall (cm : bool) (c cur : option (@vec R)),
     config_re cm c cur = run_action_re (re_dispatch (Some (if cm then "custom" else "identity")%string)) c cur) /\
  (forall mw hw mw', option_accepts se_modes mw hw = OOk mw' ->
     se_dispatch mw' = AReset \/ se_dispatch mw' = ACustom \/ exists ub, se_dispatch mw' = AInverse ub) /\
  (forall mw hw mw', option_accepts re_modes mw hw = OOk mw' -> re_dispatch mw' = AReset \/ re_dispatch mw' = ACustom) /\
  (forall mw, option_accepts se_modes mw true = OOk (Some "custom"%string) /\ option_accepts re_modes mw true = OOk (Some "custom"%string)).
Proof. intros R. split; [intros; apply set_weights_by_mode_is_table|]. split; [intros; apply config_re_is_table|].
  split; [apply se_accepted_mode_has_branch|]. split; [apply re_accepted_mode_has_branch|].
  intros mw. split; apply option_with_weights_is_custom; cbn; auto. Qed.

Lemma main_call_skeletons_are_the_state_machine : forall (R : CR) m gr he oid md (c : @wts R) k (os : @ostate R)
    (cur : @wts R * option nat) (cm : bool) (cr : option (@vec R)) (ros : @rostate R) (w : @wts R) (st : @fstate R)
    hasq (wr : option (@vec R)) (rs : @rstate R),
  sem_config_fast m sk_se_bodies sk_config gr he oid (action_of md) c k os = step_fast_o m (OConfig oid md c k) os /\
  sem_config_generic sk_config gr he oid (action_of md) c k cur = step_generic_o (OConfig oid md c k) cur /\
  sem_config_re_fast m sk_re_bodies sk_config gr he oid (re_dispatch (Some (if cm then "custom" else "identity")%string)) cr ros
    = step_re_fast_o m (ROConfig oid cm cr) ros /\
  sem_setter (sem_calc_ext m (sb_calc sk_se_bodies)) (sb_setter sk_se_bodies) w st = set_direct_fast m w st /\
  sem_setter_re (sem_calc_ew m (sb_calc sk_re_bodies)) (sb_setter sk_re_bodies) hasq wr rs = set_weights_re_fast m hasq wr rs.
Proof. intros. split; [apply sk_config_fast|]. split; [apply sk_config_generic|]. split; [apply sk_config_re_fast|].
  split; [apply sk_setter|apply sk_setter_re]. Qed.

Lemma main_schedule_slices_partition_the_rows : forall sizes : list nat,
  List.length (slices sizes) = List.length sizes /\
  (forall j, (j < List.length sizes)%nat ->
     nth j (slices sizes) (0, 0)%nat = (offset sizes j, offset sizes j + nth j sizes 0)%nat /\
     snd (nth j (slices sizes) (0, 0)%nat) = offset sizes (S j)) /\
  offset sizes 0 = 0%nat /\ offset sizes (List.length sizes) = total sizes /\
  (forall lo hi, (lo <= hi)%nat ->
     (lo + fst (helper_rows (hi - lo) 0) = lo /\ lo + snd (helper_rows (hi - lo) 0) = hi /\
      forall i, (i < hi - lo)%nat -> lo + helper_grad_row (hi - lo) 0 i = lo + i)%nat).
Proof. intros sizes. destruct (slices_partition sizes) as [H1 [H2 [H3 H4]]].
  split; [exact H1|]. split; [exact H2|]. split; [exact H3|]. split; [exact H4|]. intros lo hi H. now apply helper_on_slice. Qed.

Lemma main_re_fast_eq_generic : forall (F : OF) (ln : F -> F) ns m (w ew : option (@vec F)) epsq epsp (A : @mat F) (p q : @vec F),
  ew_matches F m w ew (ns * m) -> (forall i, (i < ns * m)%nat -> kle F (c0 F) (q i)) ->
  re_fast_value_at F ln (ns * m) ew epsq epsp p q = re_value_at F ln ns m w epsq epsp p q /\
  forall al, re_fast_grad_at F (ns * m) ew epsq epsp A p q al = re_grad_at F ns m w epsq epsp A p q al.
Proof. intros. split; [now apply re_fast_value_eq|intros; now apply re_fast_grad_eq]. Qed.

Local Open Scope R_scope.
Lemma main_re_partial_derivatives : forall ns m nv (w : option (@vec R_OF)) (epsq epsp : R) (A : @mat R_OF) (b q v : @vec R_OF) al be,
  (al < nv)%nat -> (be < nv)%nat -> 0 <= epsp -> unclipped (ns * m) epsq epsp (pv nv A b v) q ->
  is_derive (fun t : R => re_value R_OF ln ns m nv w epsq epsp A b q (vadd v (@vscale R_OF t (unitv al)))) 0
            (re_grad R_OF ns m nv w epsq epsp A b q v al) /\
  is_derive (fun t : R => re_grad R_OF ns m nv w epsq epsp A b q (vadd v (@vscale R_OF t (unitv be))) al) 0
            (re_hess R_OF ns m nv w epsq epsp A b q v al be).
Proof. intros ns m nv w epsq epsp A b q v al be Ha Hb He Hu. split; [now apply re_value_partial|].
  apply re_grad_partial; [exact Hb|exact He|]. intros i Hi Hq. exact (proj1 (Hu i Hi Hq)). Qed.

Lemma main_re_clipped_region_value_is_flat : forall (epsq epsp q p s : R), p < epsp ->
  is_derive (fun t => re_term R_OF ln epsq epsp q (p + t * s)) 0 0 /\
  (epsq <= q -> re_dterm R_OF epsq epsp q p s = - q * s / epsp).
Proof. intros epsq epsp q p s Hp. split; [now apply re_term_clipped_derive|].
  intros Hq. unfold re_dterm, re_on, rmax. cbn. rewrite (Rleb_true epsq q Hq). now rewrite (Rleb_false epsp p Hp). Qed.

