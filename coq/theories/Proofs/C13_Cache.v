(* C13 - proofs about the CompositeSystem cache machine. *)
From Coq Require Import List Arith Bool Lia.
From QV.Model Require Import C13_Cache.
Import ListNotations.

Lemma slot_eqb_eq a b : slot_eqb a b = true <-> a = b.
Proof. split; [|intros ->; now destruct b]. destruct a, b; cbn; intros H; try reflexivity; discriminate. Qed.
Lemma slot_eqb_refl a : slot_eqb a a = true. Proof. now apply slot_eqb_eq. Qed.
Lemma smem_self s : smem s (fills s) = true. Proof. now destruct s. Qed.
(* the groups are closed: every attribute of a group triggers the same builder *)
Lemma fills_group s x : smem x (fills s) = true -> fills x = fills s.
Proof. destruct s, x; cbn; intros H; try reflexivity; discriminate. Qed.

Section Cache.
Context {B T : Type} (build : B -> slot -> T).
Notation cache := (@cache B T).
Notation step := (step build). Notation run := (run build). Notation get := (get build).
Notation get_tick := (get_tick build). Notation cache_inv := (cache_inv build).
Notation init := (@init B T).

Lemma init_inv b : cache_inv b (init b).
Proof. split; [reflexivity|]. intros s. now left. Qed.

Lemma step_inv b c op : is_poke op = false -> cache_inv b c -> cache_inv b (step c op).
Proof.
  intros Hp [Hb Ht]. destruct op as [s|s|b']; [| |discriminate]; cbn.
  - destruct (c_tab c s) eqn:E; [now split|]. split; [exact Hb|]. intros x. cbn.
    destruct (smem x (fills s)).
    + right. exists (c_tick c). split; [lia|]. now rewrite Hb.
    + destruct (Ht x) as [H|[n [Hn H]]]; [now left|]. right. exists n. split; [lia|exact H].
  - destruct (deletable s); [|now split]. split; [exact Hb|]. intros x. cbn.
    destruct (slot_eqb x s); [now left|]. exact (Ht x).
Qed.

Lemma run_inv b ops : quara_ops ops -> forall c, cache_inv b c -> cache_inv b (run ops c).
Proof.
  unfold quara_ops. induction ops as [|op ops IH]; intros Hq c Hc; [exact Hc|].
  cbn in Hq. apply andb_true_iff in Hq as [H1 H2]. cbn. apply IH; [exact H2|].
  apply step_inv; [|exact Hc]. now destruct (is_poke op).
Qed.

Lemma get_of_inv b c s : cache_inv b c -> get c s = Some (build b s).
Proof.
  intros [Hb Ht]. unfold C13_Cache.get. cbn. destruct (c_tab c s) as [[n t]|] eqn:E.
  - rewrite E. cbn. destruct (Ht s) as [H|[m [_ H]]]; congruence.
  - cbn. rewrite smem_self. cbn. now rewrite Hb.
Qed.

(* MAIN: whatever sequence of getter calls and deletions preceded it, every getter returns the table
   that a fresh object would build from the basis *)
Theorem cache_history_irrelevant b ops s :
  quara_ops ops -> get (run ops (init b)) s = Some (build b s).
Proof. intros Hq. apply get_of_inv. apply run_inv; [exact Hq|apply init_inv]. Qed.

(* two histories are indistinguishable by any later query *)
Corollary cache_histories_agree b ops1 ops2 s :
  quara_ops ops1 -> quara_ops ops2 -> get (run ops1 (init b)) s = get (run ops2 (init b)) s.
Proof. intros H1 H2. now rewrite !cache_history_irrelevant. Qed.

(* the same for a query in the middle of a history followed by anything *)
Corollary cache_history_irrelevant_mid b ops1 ops2 s :
  quara_ops ops1 -> quara_ops ops2 ->
  get (run ops2 (run ops1 (init b))) s = get (run ops1 (init b)) s.
Proof.
  intros H1 H2. rewrite (cache_history_irrelevant b ops1 s H1).
  apply get_of_inv. apply run_inv; [exact H2|]. apply run_inv; [exact H1|apply init_inv].
Qed.

(* ---- exact description of one step (this is what the harness compares with the private attributes) *)
Lemma get_hit c s p : c_tab c s = Some p -> step c (Get s) = c.
Proof. intros E. cbn. now rewrite E. Qed.

Lemma get_miss c s x : c_tab c s = None ->
  c_tab (step c (Get s)) x = if smem x (fills s) then Some (c_tick c, build (c_basis c) x) else c_tab c x.
Proof. intros E. cbn. now rewrite E. Qed.

Lemma del_spec c s x :
  c_tab (step c (Del s)) x = if deletable s && slot_eqb x s then None else c_tab c x.
Proof. cbn. destruct (deletable s); cbn; [|reflexivity]. reflexivity. Qed.

(* a deletion touches nothing but its own attribute *)
Lemma del_other c s x : x <> s -> c_tab (step c (Del s)) x = c_tab c x.
Proof. intros H. rewrite del_spec. destruct (slot_eqb x s) eqn:E; [apply slot_eqb_eq in E; contradiction|].
  now rewrite andb_false_r. Qed.

(* object identity: a rebuilt table is a NEW object (its tick was never used before), and the
   sibling attributes of the same builder are replaced by new objects as well *)
Lemma rebuild_is_fresh b c s : cache_inv b c -> c_tab c s = None ->
  get_tick c s = Some (c_tick c) /\
  (forall x n t, c_tab c x = Some (n, t) -> n <> c_tick c) /\
  (forall x, smem x (fills s) = true -> option_map fst (c_tab (step c (Get s)) x) = Some (c_tick c)).
Proof.
  intros [Hb Ht] E. split; [|split].
  - unfold C13_Cache.get_tick. rewrite get_miss by exact E. now rewrite smem_self.
  - intros x n t Hx. destruct (Ht x) as [H|[m [Hm H]]]; [congruence|]. rewrite Hx in H. inversion H. lia.
  - intros x Hx. rewrite get_miss by exact E. now rewrite Hx.
Qed.

(* a hit returns the very object stored (no rebuild, tick unchanged) *)
Lemma hit_same_object c s n t : c_tab c s = Some (n, t) -> get_tick c s = Some n /\ c_tick (step c (Get s)) = c_tick c.
Proof. intros E. unfold C13_Cache.get_tick. rewrite (get_hit c s _ E). now rewrite E. Qed.

(* ---- what the theorem needs: the basis must be immutable.  If it can be changed in place (it can
   in the implementation for SparseMatrixBasis: csr data are writable) a filled attribute goes stale. *)
Theorem cache_stale_if_basis_writable b b' s :
  build b s <> build b' s ->
  let c := run [Get s; Poke b'] (init b) in
  c_basis c = b' /\ get c s <> Some (build (c_basis c) s).
Proof.
  intros Hne. cbn. split; [reflexivity|]. unfold C13_Cache.get. cbn.
  rewrite smem_self. cbn. rewrite smem_self. cbn. intros H. inversion H. contradiction.
Qed.
End Cache.
