(* C16 — joint = marginal x conditional stated for the MODEL FUNCTIONS (cond_precheck / cond_fixed / cond_sel / conditionalize of
   Model/Multinomial.v, i.e. what the translated code is proved equal to), not only for the proof-level [slice]:
   whenever the argument checks pass, the assignment is well formed; the conditional handed to the constructor is slice / total, the total
   IS the marginal probability (marg_raw over exactly the conditioned axes, at the conditioning values), and conditional x marginal = the
   joint entry at the filled multi-index.  Every shape of positive sizes, every argument lists (a variable may be listed twice). *)
From Coq Require Import List Arith Bool ZArith Lia Field.
From QV.Core Require Import OF Sums.
From QV.Model Require Import Multinomial.
From QV.Proofs Require Import C16_Multinomial C16_Marginal C16_Conditional.
Import ListNotations.

Lemma fixed_ok_all_none sh : fixed_ok sh (map (fun _ => None) sh).
Proof. induction sh as [|n t IH]; cbn; [exact I|exact IH]. Qed.

Lemma fixed_ok_assign_in sh : forall fixed i v, fixed_ok sh fixed -> i < length sh -> v < nth i sh 0 -> fixed_ok sh (assign fixed i v).
Proof. induction sh as [|n t IH]; intros [|o f] i v Hf Hi Hv; cbn [fixed_ok length] in *; try contradiction; try lia.
  destruct i as [|i]; cbn [assign fixed_ok nth] in *.
  - split; [exact Hv|]. destruct o; tauto.
  - assert (Hi' : i < length t) by lia.
    destruct o as [w|]; [destruct Hf as [Hw Hf]; split; [exact Hw|]|]; now apply IH. Qed.

Lemma fold_assign_ok sh : forall pairs fixed, fixed_ok sh fixed ->
  existsb (fun p : nat * nat => (length sh <=? fst p) || (nth (fst p) sh 0 <=? snd p)) pairs = false ->
  fixed_ok sh (fold_left (fun cur p => assign cur (fst p) (snd p)) pairs fixed).
Proof. induction pairs as [|[i v] pairs IH]; intros fixed Hf He; cbn [fold_left]; [exact Hf|].
  cbn [existsb fst snd] in He. apply orb_false_iff in He. destruct He as [E1 E2].
  apply orb_false_iff in E1. destruct E1 as [A B]. apply Nat.leb_gt in A, B.
  apply IH; [now apply fixed_ok_assign_in|exact E2]. Qed.

(* the argument checks guarantee a well-formed conditioning assignment *)
Theorem cond_fixed_ok sh idxs vals : cond_precheck sh idxs vals = None -> fixed_ok sh (cond_fixed sh idxs vals).
Proof. unfold cond_precheck, cond_fixed. destruct (negb _); [discriminate|]. destruct (_ || _); [discriminate|].
  cbv zeta. destruct (existsb _ _) eqn:E; [discriminate|]. intros _. apply fold_assign_ok; [apply fixed_ok_all_none|exact E]. Qed.

Lemma freemask_is_none fixed : cond_freemask fixed = map is_none fixed.
Proof. unfold cond_freemask. apply map_ext. intros [v|]; reflexivity. Qed.

Section CondModel.
Context (F : OF).
Add Field Fcm : (k_field F).
Notation "0" := (c0 F).
Infix "*" := (cmul F). Infix "/" := (kdiv F).

Lemma cond_sel_is_slice sh ps fixed :
  cond_sel F sh ps fixed = map (slice F sh ps fixed) (seq 0 (prodn (select (map is_none fixed) sh))).
Proof. unfold cond_sel, slice. rewrite freemask_is_none. reflexivity. Qed.

(* when the checks pass and the slice is neither empty-shaped nor of total 0, conditionalize IS the constructor applied to slice / total *)
Theorem conditionalize_unfold tol (d : dist F) idxs vals :
  cond_precheck (d_shape F d) idxs vals = None ->
  let fixed := cond_fixed (d_shape F d) idxs vals in
  let newshape := select (cond_freemask fixed) (d_shape F d) in
  let sel := cond_sel F (d_shape F d) (d_ps F d) fixed in
  newshape <> [] -> lsum F sel <> 0 ->
  conditionalize F tol d idxs vals = construct F tol tol (map (fun p => p / lsum F sel) sel) (Some newshape).
Proof. intros Hc fixed newshape sel Hn Ht. unfold conditionalize. rewrite Hc. cbv zeta. fold fixed. fold newshape. fold sel.
  destruct newshape as [|n t]; [congruence|].
  replace (kleb F (lsum F sel) 0 && kleb F 0 (lsum F sel)) with false; [reflexivity|].
  symmetry. apply not_true_is_false. intros Hb. apply eqb_spec in Hb. exact (Ht Hb). Qed.

(* joint = marginal x conditional for the model: total = marginal probability of the conditioning event; every entry of slice / total,
   multiplied by that marginal, is the joint entry at the multi-index obtained by filling the conditioning values in *)
Theorem conditionalize_joint sh ps idxs vals : posn sh -> cond_precheck sh idxs vals = None ->
  let fixed := cond_fixed sh idxs vals in
  let newshape := select (cond_freemask fixed) sh in
  let sel := cond_sel F sh ps fixed in
  let marginal := nth (rowmajorn (select (map is_some fixed) sh) (somes fixed)) (marg_raw F sh ps (map is_some fixed)) 0 in
  lsum F sel = marginal /\
  (lsum F sel <> 0 -> forall k', k' < prodn newshape ->
     nth k' (map (fun p => p / lsum F sel) sel) 0 * marginal = nth (rowmajorn sh (fill fixed (digitsn newshape k'))) ps 0).
Proof. intros Hpos Hc fixed newshape sel marginal.
  pose proof (cond_fixed_ok sh idxs vals Hc) as Hok. fold fixed in Hok.
  assert (Hs : sel = map (slice F sh ps fixed) (seq 0 (prodn (select (map is_none fixed) sh)))) by apply cond_sel_is_slice.
  assert (Hn : newshape = select (map is_none fixed) sh) by (unfold newshape; now rewrite freemask_is_none).
  assert (Ht : lsum F sel = marginal).
  { rewrite Hs, lsum_seq_sumn. unfold marginal. now apply slice_total_is_marginal. }
  split; [exact Ht|]. intros Hne k' Hk. rewrite <- Ht.
  rewrite (nth_indep _ 0 ((fun p => p / lsum F sel) 0)) by (rewrite map_length, Hs, map_length, seq_length, <- Hn; exact Hk).
  rewrite (map_nth (fun p => p / lsum F sel) sel 0 k').
  assert (Hv : nth k' sel 0 = nth (rowmajorn sh (fill fixed (digitsn newshape k'))) ps 0).
  { rewrite Hs, (nth_indep _ 0 (slice F sh ps fixed O)) by (rewrite map_length, seq_length, <- Hn; exact Hk).
    rewrite (map_nth (slice F sh ps fixed) (seq O _) O k'), seq_nth by (rewrite <- Hn; exact Hk). cbn [plus].
    unfold slice. now rewrite <- Hn. }
  rewrite <- Hv. field. exact Hne. Qed.
End CondModel.
