(* C17 — the repaired permute_pauli_symbol puts every role's Pauli letter on the elemental system named for that role, for
   every number of qubits and every list of ids; the code as it was before fix toffoli-fredkin-cyclic-ids-inverted does not
   (witness: the cyclic order [1; 2; 0]).  Axiom-free. *)
From Coq Require Import List Arith Bool Lia Sorting.Sorted Sorting.Permutation.
From QV.Model Require Import C17_Permute.
Import ListNotations.

(* ---- sorted(ids) is ascending and a permutation of ids *)
Lemma ins_asc_perm x l : Permutation (ins_asc x l) (x :: l).
Proof. induction l as [|y t IH]; cbn [ins_asc]; [reflexivity|]. destruct (x <=? y); [reflexivity|].
  rewrite IH. apply perm_swap. Qed.
Lemma sorted_ids_perm l : Permutation (sorted_ids l) l.
Proof. induction l as [|x l IH]; cbn [sorted_ids fold_right]; [reflexivity|]. fold (sorted_ids l). rewrite ins_asc_perm. now constructor. Qed.
Lemma sorted_ids_length l : length (sorted_ids l) = length l.
Proof. apply Permutation_length, sorted_ids_perm. Qed.
Lemma ins_asc_hdrel a x l : a <= x -> HdRel le a l -> HdRel le a (ins_asc x l).
Proof. intros Hax H. destruct l as [|y t]; cbn [ins_asc]; [now constructor|]. destruct (x <=? y); constructor; [exact Hax|].
  now inversion H. Qed.
Lemma ins_asc_sorted x l : Sorted le l -> Sorted le (ins_asc x l).
Proof. induction 1 as [|y t Ht IH Hd]; cbn [ins_asc]; [repeat constructor|].
  destruct (x <=? y) eqn:E.
  - apply Nat.leb_le in E. constructor; [now constructor|now constructor].
  - apply Nat.leb_gt in E. constructor; [exact IH|]. apply ins_asc_hdrel; [lia|exact Hd]. Qed.
Lemma sorted_ids_sorted l : Sorted le (sorted_ids l).
Proof. induction l as [|x l IH]; cbn [sorted_ids fold_right]; [constructor|]. fold (sorted_ids l). now apply ins_asc_sorted. Qed.

(* ---- first occurrence *)
Lemma first_index_in x l : In x l -> exists k, first_index x l = Some k /\ k < length l /\ nth k l 0 = x.
Proof. induction l as [|y t IH]; [intros []|]. intros H. cbn [first_index]. destruct (x =? y) eqn:E.
  - apply Nat.eqb_eq in E. exists 0. cbn. repeat split; [lia|now symmetry].
  - destruct H as [H|H]; [apply Nat.eqb_neq in E; congruence|]. destruct (IH H) as [k [A [B D]]].
    exists (S k). rewrite A. cbn. repeat split; [lia|exact D]. Qed.

(* ---- delta sums *)
Lemma sumf_zero n f : (forall i, i < n -> f i = 0) -> sumf n f = 0.
Proof. induction n as [|n IH]; intros H; cbn [sumf]; [reflexivity|]. rewrite IH by (intros; apply H; lia). rewrite H by lia. reflexivity. Qed.
Lemma sumf_delta n k g : k < n -> sumf n (fun i => if k =? i then g i else 0) = g k.
Proof. induction n as [|n IH]; [lia|]. intros Hk. cbn [sumf]. destruct (Nat.eq_dec k n) as [->|Hne].
  - rewrite Nat.eqb_refl. rewrite sumf_zero; [reflexivity|]. intros i Hi. destruct (n =? i) eqn:E; [apply Nat.eqb_eq in E; lia|reflexivity].
  - rewrite IH by lia. destruct (k =? n) eqn:E; [apply Nat.eqb_eq in E; lia|lia]. Qed.

Lemma nth_map_seq_0 (f : nat -> nat) n p : p < n -> nth p (map f (seq 0 n)) 0 = f p.
Proof. intros H. rewrite (nth_indep _ 0 (f 0)) by (rewrite map_length, seq_length; exact H).
  rewrite map_nth. now rewrite seq_nth. Qed.

(* ---- the repaired code meets the specification: ALL lengths, ALL id lists (duplicates included: first match) *)
Theorem permute_fixed_spec ids v : permute_spec ids v (permute_fixed ids v).
Proof. unfold permute_spec, permute_fixed. cbv zeta. split; [now rewrite map_length, seq_length|].
  intros p Hp. assert (Hin : In (nth p (sorted_ids ids) 0) ids).
  { apply (Permutation_in _ (sorted_ids_perm ids)). apply nth_In. now rewrite sorted_ids_length. }
  destruct (first_index_in _ _ Hin) as [k [A [B D]]]. exists k. split; [exact B|]. split; [exact D|].
  rewrite nth_map_seq_0 by exact Hp. unfold matP. rewrite A. exact (sumf_delta (length ids) k (fun i => nth i v 0) B). Qed.

(* with pairwise different ids the role k of the specification is unique: the specification determines the output *)
Lemma NoDup_nth_inj (l : list nat) i j : NoDup l -> i < length l -> j < length l -> nth i l 0 = nth j l 0 -> i = j.
Proof. intros H. now apply (proj1 (NoDup_nth l 0) H). Qed.
Theorem permute_spec_unique ids v out1 out2 : NoDup ids ->
  permute_spec ids v out1 -> permute_spec ids v out2 -> out1 = out2.
Proof. intros Hnd [L1 S1] [L2 S2]. apply (nth_ext _ _ 0 0); [congruence|]. intros p Hp. rewrite L1 in Hp.
  destruct (S1 p Hp) as [k1 [A1 [B1 D1]]]. destruct (S2 p Hp) as [k2 [A2 [B2 D2]]].
  assert (k1 = k2) by (apply (NoDup_nth_inj ids); [exact Hnd|exact A1|exact A2|congruence]). subst. congruence. Qed.

(* ---- the code as it was before the fix violates the specification: ids [1; 2; 0], symbol "iix" = [0; 0; 1]
        (toffoli's target letter goes to ascending position 1 instead of 0) *)
Theorem permute_coded_refuted : exists ids v, NoDup ids /\ length v = length ids /\ ~ permute_spec ids v (permute_coded ids v).
Proof. exists [1; 2; 0], [0; 0; 1]. split; [repeat constructor; cbn; intuition lia|]. split; [reflexivity|].
  intros [_ HS]. destruct (HS 0) as [k [Hk [A B]]]; [cbn; lia|].
  cbn in Hk. assert (E : k = 0 \/ k = 1 \/ k = 2) by lia. destruct E as [-> | [-> | ->]]; vm_compute in A, B; discriminate. Qed.
(* ... and agrees with the repaired code when the id order is its own inverse (all orders of <= 2 qubits, 4 of the 6 orders of 3):
   checked by computation for the six orders of three ids on all 64 symbols *)
Definition orders3 : list (list nat) := [[0;1;2]; [0;2;1]; [1;0;2]; [1;2;0]; [2;0;1]; [2;1;0]].
Definition symbols3 : list (list nat) :=
  flat_map (fun a => flat_map (fun b => map (fun c => [a; b; c]) [0;1;2;3]) [0;1;2;3]) [0;1;2;3].
Definition list_eqb (a b : list nat) : bool := (length a =? length b) && forallb (fun p => fst p =? snd p) (combine a b).
Theorem permute_coded_differs_exactly_on_cycles :
  forallb (fun ids => Bool.eqb (forallb (fun v => list_eqb (permute_coded ids v) (permute_fixed ids v)) symbols3)
                               (negb (list_eqb ids [1;2;0] || list_eqb ids [2;0;1]))) orders3 = true.
Proof. vm_compute. reflexivity. Qed.
