(* C01 — a verdict is a function of (object, tolerance in force at that call) only: whatever was set or asked before. *)
From Coq Require Import List Bool Arith Lia.
From QV.Core Require Import OF.
From QV.Model Require Import QObj C01_Verdicts C01_History.
From QV.Proofs Require Import C01_Verdicts.
Import ListNotations.

Section C01HistoryProofs.
Context (F : OF).
Context (veq vineq : F -> bool).

Lemma run_history_app st h1 h2 :
  run_history veq vineq st (h1 ++ h2) = run_history veq vineq st h1 ++ run_history veq vineq (final_settings st h1) h2.
Proof. revert st. induction h1 as [|[x|q a b] t IH]; intros st; cbn [app run_history final_settings]; [reflexivity|apply IH|].
  rewrite IH. reflexivity. Qed.

(* the answer to a query after ANY history h1 (and before any continuation h2) is the pure verdict at the setting last made in h1
   (resp. at the explicit arguments): earlier queries, earlier settings and later operations do not matter *)
Theorem history_answer st h1 q a b h2 :
  nth (length (run_history veq vineq st h1)) (run_history veq vineq st (h1 ++ HQuery q a b :: h2)) false
  = hanswer veq vineq (final_settings st h1) q a b.
Proof. rewrite run_history_app. cbn [run_history]. apply nth_middle. Qed.

(* in particular: asking the same question again after changing the global tolerance back and forth gives the pure verdicts *)
Corollary history_requery st x y q :
  run_history veq vineq st [HSet x; HQuery q None None; HSet y; HQuery q None None; HSet x; HQuery q None None]
  = [hanswer veq vineq x q None None; hanswer veq vineq y q None None; hanswer veq vineq x q None None].
Proof. reflexivity. Qed.

(* queries have no effect: removing them does not change the answers to the remaining ones *)
Theorem history_queries_inert st h1 q a b h2 :
  run_history veq vineq st (h1 ++ HQuery q a b :: h2)
  = run_history veq vineq st h1 ++ hanswer veq vineq (final_settings st h1) q a b :: run_history veq vineq (final_settings st h1) h2.
Proof. rewrite run_history_app. reflexivity. Qed.

(* along a history: with monotone pure verdicts, a query answered true under a setting stays true under every looser setting *)
Theorem history_monotone st st' q :
  (forall t t', kle F t t' -> veq t = true -> veq t' = true) -> (forall t t', kle F t t' -> vineq t = true -> vineq t' = true) ->
  kle F st st' -> hanswer veq vineq st q None None = true -> hanswer veq vineq st' q None None = true.
Proof. intros Me Mi H. destruct q; cbn [hanswer resolve_atol].
  - now apply Me. - now apply Mi.
  - rewrite !andb_true_iff. intros [A B]. split; [now apply (Me st)|now apply (Mi st)]. Qed.
End C01HistoryProofs.

(* the four object types: the pure verdicts are the model's verdict functions, and the QPhys answer is is_physical *)
Section C01HistoryInstances.
Context (F : OF).
Lemma hanswer_state st rtol d B (v : QObj.rvec F) a b :
  hanswer (fun t => state_is_trace_one d B v t rtol) (state_is_psd d B v) st QPhys a b = state_is_physical st rtol d B v a b.
Proof. reflexivity. Qed.
Lemma hanswer_povm st rtol d B m (vs : nat -> QObj.rvec F) a b :
  hanswer (fun t => povm_is_identity_sum d B m vs t rtol) (povm_is_psd d B m vs) st QPhys a b = povm_is_physical st rtol d B m vs a b.
Proof. reflexivity. Qed.
Lemma hanswer_gate st flag d B (HS : QObj.rmat F) a b :
  hanswer (gate_is_tp flag d B HS) (gate_is_cp d B HS) st QPhys a b = gate_is_physical st flag d B HS a b.
Proof. reflexivity. Qed.
Lemma hanswer_mprocess st flag d B m (hss : nat -> QObj.rmat F) a b :
  hanswer (mprocess_is_sum_tp flag d B m hss) (mprocess_is_cp d B m hss) st QPhys a b = mprocess_is_physical st flag d B m hss a b.
Proof. reflexivity. Qed.
End C01HistoryInstances.
