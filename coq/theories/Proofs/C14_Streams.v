(* C14 — proofs about the random-stream dataflow model: every entry point is a pure function of its arguments
   and of the ONE generator state selected by to_stream (refinement of the call-chain model, with its nested
   to_stream calls and loops, to the pure dataflow specification), hence: int seed => history independent,
   shared generator => sequential consumption, None => global state.  The generator is abstract. *)
From Coq Require Import List Arith Bool ZArith Lia.
From QV.Model Require Import C14_DataGen C14_Streams.
Import ListNotations.

Section P.
Context {G V : Type} (draw : G -> req -> V * G) (mkgen gseed : Z -> G).
Notation world := (@world G).
Notation M := (@M G).
Notation P := (@P G).
Notation to_stream := (to_stream mkgen).
Notation sel := (sel mkgen).
Notation request := (request draw mkgen).
Notation lift := (lift mkgen).
Notation with_stream := (with_stream mkgen).
Notation preq := (preq draw).
Notation dg_data := (dg_data draw mkgen).
Notation dg_dataset := (dg_dataset draw mkgen).
Notation dg_empi_seq := (dg_empi_seq draw mkgen).
Notation dg_empi_seqs := (dg_empi_seqs draw mkgen).
Notation ex_data := (ex_data draw mkgen).
Notation ex_dataset := (ex_dataset draw mkgen).
Notation ex_empi_seq := (ex_empi_seq draw mkgen).
Notation ex_empi_seqs := (ex_empi_seqs draw mkgen).
Notation tomo_empi_dist := (tomo_empi_dist draw mkgen gseed).
Notation tomo_empi_dists := (tomo_empi_dists draw mkgen gseed).
Notation tomo_empi_dists_seq := (tomo_empi_dists_seq draw mkgen gseed).
Notation md_sampling := (md_sampling draw mkgen).
Notation run_call := (run_call draw mkgen gseed).
Notation call_nf := (call_nf draw mkgen gseed).
Notation call_body := (call_body draw).
Notation p_data := (p_data draw).
Notation p_empi_seq := (p_empi_seq draw).
Notation p_empi_seqs := (p_empi_seqs draw).
Notation p_dataset := (p_dataset draw).
Notation ex_empi_seqs_body := (ex_empi_seqs_body draw).
Notation copy_experiment := (copy_experiment gseed).

(* r denotes an existing, state-threading stream of w *)
Definition valid (r : sref) (w : world) : Prop :=
  match r with RefGlobal => True | RefGen h => (h < length (gens w))%nat end.

(* ------------------------------------------------------------------ lists *)
Lemma set_nth_length {A} (g : A) : forall l h, length (set_nth h g l) = length l.
Proof. induction l as [|x l IH]; intros h; [destruct h; reflexivity|]. destruct h; cbn; [reflexivity|now rewrite IH]. Qed.
Lemma nth_set_nth {A} (g d : A) : forall l h, (h < length l)%nat -> nth h (set_nth h g l) d = g.
Proof. induction l as [|x l IH]; intros h H; [cbn in H; lia|]. destruct h; cbn; [reflexivity|]. apply IH. cbn in H. lia. Qed.
Lemma set_nth_set_nth {A} (g1 g2 : A) : forall l h, set_nth h g2 (set_nth h g1 l) = set_nth h g2 l.
Proof. induction l as [|x l IH]; intros h; [destruct h; reflexivity|]. destruct h; cbn; [reflexivity|now rewrite IH]. Qed.
Lemma set_nth_nth {A} (d : A) : forall l h, set_nth h (nth h l d) l = l.
Proof. induction l as [|x l IH]; intros h; [destruct h; reflexivity|]. destruct h; cbn; [reflexivity|now rewrite IH]. Qed.

(* ------------------------------------------------------------------ state laws *)
Lemma sel_put r g (w : world) : valid r w -> sel r (put r g w) = g.
Proof. destruct r as [|h]; cbn; intros H; [reflexivity|]. now apply nth_set_nth. Qed.
Lemma put_put r g1 g2 (w : world) : put r g2 (put r g1 w) = put r g2 w.
Proof. destruct r as [|h]; cbn; [reflexivity|]. unfold set_gen. cbn. now rewrite set_nth_set_nth. Qed.
Lemma put_sel r (w : world) : put r (sel r w) w = w.
Proof. destruct w as [g l o n]. destruct r as [|h]; cbn; [reflexivity|]. unfold set_gen. cbn. now rewrite set_nth_nth. Qed.
Lemma valid_put r g r' (w : world) : valid r' w -> valid r' (put r g w).
Proof. destruct r as [|h], r' as [|h']; cbn; auto. now rewrite set_nth_length. Qed.

(* ------------------------------------------------------------------ monad laws (pointwise) *)
Lemma bind_eq {A B} (m : M A) (k : A -> M B) (w : world) a (w1 : world) : m w = (a, w1) -> bind m k w = k a w1.
Proof. unfold bind. now intros ->. Qed.
Lemma bind_ext {A B} (m : M A) (k k' : A -> M B) (w : world) : (forall a w', k a w' = k' a w') -> bind m k w = bind m k' w.
Proof. intros H. unfold bind. destruct (m w). apply H. Qed.
Lemma bind_assoc {A B C} (m : M A) (k : A -> M B) (k2 : B -> M C) (w : world) :
  bind (bind m k) k2 w = bind m (fun a => bind (k a) k2) w.
Proof. unfold bind. destruct (m w) as [a w1]. reflexivity. Qed.
Lemma bind_ret_r {A} (m : M A) (w : world) : bind m (fun a => ret a) w = m w.
Proof. unfold bind, ret. now destruct (m w). Qed.
Lemma pbind_assoc {A B C} (m : P A) (k : A -> P B) (k2 : B -> P C) g :
  pbind (pbind m k) k2 g = pbind m (fun a => pbind (k a) k2) g.
Proof. unfold pbind. destruct (m g) as [a g1]. reflexivity. Qed.
Lemma lift_ext {A} r (p p' : P A) (w : world) : (forall g, p g = p' g) -> lift r p w = lift r p' w.
Proof. intros H. unfold C14_Streams.lift. now rewrite H. Qed.

Lemma lift_ret {A} r (a : A) (w : world) : lift r (pret a) w = ret a w.
Proof. unfold C14_Streams.lift, pret, ret. now rewrite put_sel. Qed.
Lemma lift_preq r q (w : world) : lift r (preq q) w = request r q w.
Proof. reflexivity. Qed.
Lemma lift_bind {A B} r (p : P A) (k : A -> P B) (w : world) : valid r w ->
  lift r (pbind p k) w = bind (lift r p) (fun a => lift r (k a)) w.
Proof. intros Hv. unfold C14_Streams.lift, pbind, bind. destruct (p (sel r w)) as [a g1].
  rewrite sel_put by exact Hv. destruct (k a g1) as [b g2]. now rewrite put_put. Qed.
Lemma lift_valid {A} r (p : P A) (w : world) a (w1 : world) r' : lift r p w = (a, w1) -> valid r' w -> valid r' w1.
Proof. unfold C14_Streams.lift. destruct (p (sel r w)) as [a' g']. intros E Hv. injection E as _ <-. now apply valid_put. Qed.
Lemma lift_bind_ret {A B} r (p : P A) (f : A -> B) (w : world) : valid r w ->
  bind (lift r p) (fun a => ret (f a)) w = lift r (pbind p (fun a => pret (f a))) w.
Proof. intros Hv. rewrite lift_bind by exact Hv. apply bind_ext. intros a w'. now rewrite lift_ret. Qed.

Lemma mapM_lift {X A} r (f : X -> M A) (pf : X -> P A) : forall xs,
  (forall x w, In x xs -> valid r w -> f x w = lift r (pf x) w) ->
  forall w, valid r w -> mapM f xs w = lift r (pmapM pf xs) w.
Proof. induction xs as [|x xs IH]; intros Hf w Hv; cbn [mapM pmapM].
  - now rewrite lift_ret.
  - rewrite lift_bind by exact Hv. unfold bind at 1 3. rewrite (Hf x w (or_introl eq_refl) Hv).
    destruct (lift r (pf x) w) as [b w1] eqn:E. pose proof (lift_valid _ _ _ _ _ r E Hv) as Hv1.
    rewrite lift_bind by exact Hv1. unfold bind. rewrite IH; [|intros; apply Hf; [now right|assumption]|exact Hv1].
    destruct (lift r (pmapM pf xs) w1) as [l w2]. now rewrite lift_ret. Qed.
Lemma mapM_map {X Y A} (f : Y -> M A) (g : X -> Y) : forall xs w, mapM f (map g xs) w = mapM (fun x => f (g x)) xs w.
Proof. induction xs as [|x xs IH]; intros w; cbn [map mapM]; [reflexivity|].
  unfold bind. destruct (f (g x) w) as [a w1]. rewrite IH. reflexivity. Qed.
Lemma pmapM_map {X Y A} (f : Y -> P A) (g : X -> Y) : forall xs s, pmapM f (map g xs) s = pmapM (fun x => f (g x)) xs s.
Proof. induction xs as [|x xs IH]; intros s; cbn [map pmapM]; [reflexivity|].
  unfold pbind. destruct (f (g x) s) as [a s1]. rewrite IH. reflexivity. Qed.
Lemma combine_repeat {X Y} (a : Y) : forall (l : list X) k, (length l <= k)%nat -> combine l (repeat a k) = map (fun t => (t, a)) l.
Proof. induction l as [|x l IH]; intros k H; [reflexivity|]. destruct k; cbn in H; [lia|]. cbn. rewrite IH by lia. reflexivity. Qed.

(* ------------------------------------------------------------------ to_stream *)
Lemma to_stream_as_arg r (w : world) : to_stream (as_arg r) w = (r, w).
Proof. destruct r; reflexivity. Qed.
Lemma to_stream_valid s (w : world) r (w1 : world) : valid_sog s w -> to_stream s w = (r, w1) -> valid r w1.
Proof. destruct s; cbn; intros H E; injection E as <- <-; cbn; auto; rewrite app_length; cbn; lia. Qed.
(* an entry point of the shape `stream = to_stream(seed); BODY(stream)` whose body is local to its stream *)
Lemma entry_with_stream {A} (body : sref -> M A) (p : P A) s (w : world) :
  (forall r w', valid r w' -> body r w' = lift r p w') -> valid_sog s w ->
  bind (to_stream s) body w = with_stream s p w.
Proof. intros Hb Hs. unfold C14_Streams.with_stream, bind. destruct (to_stream s w) as [r w1] eqn:E.
  apply Hb. exact (to_stream_valid _ _ _ _ Hs E). Qed.
Lemma entry_local {A} (body : sref -> M A) (p : P A) r (w : world) :
  (forall r w', valid r w' -> body r w' = lift r p w') -> valid r w ->
  bind (to_stream (as_arg r)) body w = lift r p w.
Proof. intros Hb Hv. rewrite (bind_eq _ _ _ _ _ (to_stream_as_arg r w)). now apply Hb. Qed.

(* ------------------------------------------------------------------ bodies of the data_generator functions *)
Lemma one_request_local r q (n : Z) (w : world) : valid r w ->
  bind (request r q) (fun v => ret (n, v)) w = lift r (pbind (preq q) (fun v => pret (n, v))) w.
Proof. intros Hv. exact (lift_bind_ret r (preq q) (fun v => (n, v)) w Hv). Qed.

Lemma dg_data_local pd n r (w : world) : valid r w -> dg_data pd n (as_arg r) w = lift r (p_data pd n) w.
Proof. intros Hv. unfold C14_Streams.dg_data. apply entry_local; [|exact Hv]. intros r' w' Hv'. now apply one_request_local. Qed.
Lemma empi_seq_body_local pd ns r (w : world) : valid r w ->
  mapM (fun n => bind (request r (RMulti n pd)) (fun v => ret (n, v))) ns w = lift r (p_empi_seq pd ns) w.
Proof. intros Hv. unfold C14_Streams.p_empi_seq. apply mapM_lift; [|exact Hv]. intros n w' _ Hv'. now apply one_request_local. Qed.
Lemma dg_empi_seq_local pd ns r (w : world) : valid r w -> dg_empi_seq pd ns (as_arg r) w = lift r (p_empi_seq pd ns) w.
Proof. intros Hv. unfold C14_Streams.dg_empi_seq. apply entry_local; [|exact Hv]. intros r' w' Hv'. now apply empi_seq_body_local. Qed.
Lemma empi_seqs_body_local pds lns r (w : world) : valid r w ->
  bind (mapM (fun t => dg_empi_seq (fst t) (snd t) (as_arg r)) (combine pds lns)) (fun l => ret (EOk l)) w
  = lift r (p_empi_seqs pds lns) w.
Proof. intros Hv. unfold C14_Streams.p_empi_seqs. rewrite <- lift_bind_ret by exact Hv.
  unfold bind. rewrite (mapM_lift r _ (fun t => p_empi_seq (fst t) (snd t))); [reflexivity| |exact Hv].
  intros t w' _ Hv'. now apply dg_empi_seq_local. Qed.
Lemma dg_empi_seqs_local pds lns r (w : world) : valid r w -> length pds = length lns ->
  dg_empi_seqs pds lns (as_arg r) w = lift r (p_empi_seqs pds lns) w.
Proof. intros Hv Hl. unfold C14_Streams.dg_empi_seqs. rewrite Hl, Nat.eqb_refl. cbn [negb].
  apply entry_local; [|exact Hv]. intros r' w' Hv'. now apply empi_seqs_body_local. Qed.
Lemma dataset_body_local pds ns k a r (w : world) :
  (forall pd n (w' : world), valid r w' -> dg_data pd n a w' = lift r (p_data pd n) w') ->
  valid r w -> (length (combine pds ns) <= k)%nat ->
  bind (mapM (fun t => dg_data (fst (fst t)) (snd (fst t)) (snd t)) (combine (combine pds ns) (repeat a k)))
       (fun l => ret (EOk (map (fun x => [x]) l))) w
  = lift r (p_dataset pds ns) w.
Proof. intros Ha Hv Hk. unfold C14_Streams.p_dataset. rewrite <- lift_bind_ret by exact Hv.
  rewrite combine_repeat by exact Hk. unfold bind. rewrite mapM_map. cbn [fst snd].
  rewrite (mapM_lift r _ (fun t => p_data (fst t) (snd t))); [reflexivity| |exact Hv].
  intros t w' _ Hv'. now apply Ha. Qed.

Lemma bind_ret_l {A B} (a : A) (k : A -> M B) (w : world) : bind (ret a) k w = k a w.
Proof. reflexivity. Qed.
Lemma bind_local_ret {A B} r (m : M A) (p : P A) (f : A -> B) (w : world) :
  m w = lift r p w -> valid r w -> bind m (fun a => ret (f a)) w = lift r (pbind p (fun a => pret (f a))) w.
Proof. intros E Hv. rewrite <- lift_bind_ret by exact Hv. unfold bind. now rewrite E. Qed.

(* ------------------------------------------------------------------ Experiment / tomography bodies *)
Lemma ex_empi_seqs_local Sn lns r (w : world) : valid r w ->
  ex_empi_seqs Sn lns (as_arg r) w = lift r (ex_empi_seqs_body Sn lns) w.
Proof. intros Hv. unfold C14_Streams.ex_empi_seqs, C14_Streams.ex_empi_seqs_body.
  destruct (existsb (fun row => negb (Nat.eqb (length row) Sn)) lns); [now rewrite lift_ret|].
  destruct (Nat.eqb (length (seq O Sn)) (length (zipstar lns))) eqn:E; cbn [negb].
  - apply dg_empi_seqs_local; [exact Hv|]. now apply Nat.eqb_eq.
  - unfold C14_Streams.dg_empi_seqs. rewrite E. cbn [negb]. now rewrite lift_ret. Qed.
Lemma ex_empi_seq_local Sn sched ns r (w : world) : valid r w -> (Sn <=? sched)%nat = false ->
  ex_empi_seq Sn sched ns (as_arg r) w = lift r (pbind (p_empi_seq sched ns) (fun l => pret (EOk [l]))) w.
Proof. intros Hv E. unfold C14_Streams.ex_empi_seq. rewrite E.
  apply (bind_local_ret r _ (p_empi_seq sched ns) (fun l => EOk [l])); [|exact Hv]. now apply dg_empi_seq_local. Qed.

Lemma copy_gens (w : world) : gens (snd (copy_experiment w)) = gens w.
Proof. reflexivity. Qed.
Lemma valid_sog_copy s (w : world) : valid_sog s w -> valid_sog s (snd (copy_experiment w)).
Proof. destruct s; cbn; auto. Qed.

Lemma tomo_frame {A} (rest nf : M A) s (w : world) :
  (forall w1 : world, valid_sog s w1 -> rest w1 = nf w1) -> valid_sog s w ->
  bind copy_experiment (fun _ => rest) w = bind (bind copy_experiment (fun _ => ret tt)) (fun _ => nf) w.
Proof. intros H Hv. pose proof (valid_sog_copy s w Hv) as Hv1. unfold bind. destruct (copy_experiment w) as [o w1].
  cbn [snd] in Hv1. unfold ret. now apply H. Qed.

(* ------------------------------------------------------------------ the refinement theorem *)
(* Every entry point, called with a seed argument that denotes a stream, is its normal form: (copy the experiment,)
   raise the argument error, or run the pure body on the one generator state selected by to_stream. *)
Theorem run_call_nf c s (w : world) : single_stream c s -> valid_sog s w -> run_call c s w = call_nf c s w.
Proof. destruct c as [pd n|pds ns ss|pd ns|pds lns|Sn sched n|Sn ns|Sn sched ns|Sn lns|Sn sched n|Sn n|Sn ns|pd num size];
  intros Hs Hv; unfold C14_Streams.run_call, C14_Streams.call_nf; cbn [call_copies C14_Streams.call_pre C14_Streams.call_body].
  - (* dg.generate_data_from_prob_dist *)
    rewrite bind_ret_l. unfold C14_Streams.dg_data. rewrite bind_assoc. apply entry_with_stream; [|exact Hv].
    intros r w' Hv'. apply (bind_local_ret r _ (p_data pd n) (fun x => EOk [[x]])); [|exact Hv']. now apply one_request_local.
  - (* dg.generate_dataset_from_prob_dists without a seed list *)
    destruct Hs as [-> ->]. rewrite bind_ret_l. unfold C14_Streams.dg_dataset.
    destruct (Nat.eqb (length pds) (length ns)) eqn:E; cbn [negb]; [|reflexivity].
    unfold C14_Streams.with_stream. rewrite (bind_eq _ _ w RefGlobal w eq_refl).
    apply dataset_body_local; [|exact I|].
    + intros pd n w' Hv'. exact (dg_data_local pd n RefGlobal w' Hv').
    + rewrite combine_length. apply Nat.eqb_eq in E. lia.
  - (* dg.generate_empi_dist_sequence_from_prob_dist *)
    rewrite bind_ret_l. unfold C14_Streams.dg_empi_seq. rewrite bind_assoc. apply entry_with_stream; [|exact Hv].
    intros r w' Hv'. apply (bind_local_ret r _ (p_empi_seq pd ns) (fun l => EOk [l])); [|exact Hv']. now apply empi_seq_body_local.
  - (* dg.generate_empi_dists_sequence_from_prob_dists *)
    rewrite bind_ret_l. unfold C14_Streams.dg_empi_seqs.
    destruct (Nat.eqb (length pds) (length lns)); cbn [negb]; [|reflexivity].
    apply entry_with_stream; [|exact Hv]. intros r w' Hv'. now apply empi_seqs_body_local.
  - (* Experiment.generate_data *)
    rewrite bind_ret_l. unfold C14_Streams.ex_data. destruct (n <? 0)%Z; [reflexivity|]. destruct (Sn <=? sched)%nat; [reflexivity|].
    apply entry_with_stream; [|exact Hv]. intros r w' Hv'.
    apply (bind_local_ret r _ (p_data sched n) (fun x => EOk [[x]])); [|exact Hv']. now apply dg_data_local.
  - (* Experiment.generate_dataset *)
    rewrite bind_ret_l. unfold C14_Streams.ex_dataset. destruct (Nat.eqb (length ns) Sn) eqn:E; cbn [negb]; [|reflexivity].
    apply Nat.eqb_eq in E. apply entry_with_stream; [|exact Hv]. intros r w' Hv'. unfold C14_Streams.dg_dataset.
    rewrite seq_length, repeat_length, E, Nat.eqb_refl. cbn [negb].
    apply dataset_body_local; [|exact Hv'|].
    + intros pd n' w'' Hv''. now apply dg_data_local.
    + rewrite combine_length, seq_length. lia.
  - (* Experiment.generate_empi_dist_sequence *)
    rewrite bind_ret_l. unfold C14_Streams.ex_empi_seq. destruct (Sn <=? sched)%nat; [reflexivity|].
    unfold C14_Streams.dg_empi_seq. rewrite bind_assoc. apply entry_with_stream; [|exact Hv].
    intros r w' Hv'. apply (bind_local_ret r _ (p_empi_seq sched ns) (fun l => EOk [l])); [|exact Hv']. now apply empi_seq_body_local.
  - (* Experiment.generate_empi_dists_sequence *)
    rewrite bind_ret_l. unfold C14_Streams.ex_empi_seqs.
    destruct (existsb (fun row => negb (Nat.eqb (length row) Sn)) lns); [reflexivity|].
    unfold C14_Streams.dg_empi_seqs. destruct (Nat.eqb (length (seq O Sn)) (length (zipstar lns))); cbn [negb]; [|reflexivity].
    apply entry_with_stream; [|exact Hv]. intros r w' Hv'. now apply empi_seqs_body_local.
  - (* Standard*.generate_empi_dist *)
    unfold C14_Streams.tomo_empi_dist. apply (tomo_frame _ _ s w); [|exact Hv]. clear w Hv. intros w1 Hv1.
    destruct (Sn <=? sched)%nat eqn:E; [reflexivity|].
    apply entry_with_stream; [|exact Hv1]. intros r w' Hv'.
    rewrite (bind_local_ret r _ (pbind (p_empi_seq sched [n]) (fun l => pret (EOk [l])))
               (fun e => match e with EOk ((x :: _) :: _) => EOk [[x]] | EOk _ => EErr 17 | EErr c => EErr c end) w');
      [|now apply ex_empi_seq_local|exact Hv'].
    apply lift_ext. intros g. rewrite pbind_assoc. unfold pbind, pret. destruct (p_empi_seq sched [n] g) as [l g1].
    destruct l; reflexivity.
  - (* Standard*.generate_empi_dists *)
    unfold C14_Streams.tomo_empi_dists. apply (tomo_frame _ _ s w); [|exact Hv]. clear w Hv. intros w1 Hv1.
    apply entry_with_stream; [|exact Hv1]. intros r w' Hv'.
    apply (bind_local_ret r _ (ex_empi_seqs_body Sn [repeat n Sn])
             (fun e => match e with EOk rows => EOk [concat rows] | EErr c => EErr c end)); [|exact Hv'].
    now apply ex_empi_seqs_local.
  - (* Standard*.generate_empi_dists_sequence *)
    unfold C14_Streams.tomo_empi_dists_seq. apply (tomo_frame _ _ s w); [|exact Hv]. clear w Hv. intros w1 Hv1.
    apply entry_with_stream; [|exact Hv1]. intros r w' Hv'.
    apply (bind_local_ret r _ (ex_empi_seqs_body Sn (zipstar (repeat ns Sn)))
             (fun e => match e with EOk rows => EOk (zipstar rows) | EErr c => EErr c end)); [|exact Hv'].
    now apply ex_empi_seqs_local.
  - (* MultinomialDistribution.execute_random_sampling *)
    rewrite bind_ret_l. unfold C14_Streams.md_sampling. apply entry_with_stream; [|exact Hv].
    intros r w' Hv'. exact (lift_bind_ret r (preq (RMultiSz num size pd)) (fun v => EOk [[(num, v)]]) w' Hv'). Qed.

(* ------------------------------------------------------------------ consequences *)
Notation int_seed_output := (int_seed_output draw mkgen).
Notation after_copy := (after_copy gseed).
Notation exec := (exec draw mkgen gseed).

Lemma set_nth_app_last {A} (g g' : A) : forall l, set_nth (length l) g' (l ++ [g]) = l ++ [g'].
Proof. induction l as [|x l IH]; cbn; [reflexivity|now rewrite IH]. Qed.
Lemma after_copy_glob c (w : world) : glob (after_copy c w) = glob w.
Proof. unfold C14_Streams.after_copy. destruct (call_copies c); reflexivity. Qed.
Lemma after_copy_gens c (w : world) : gens (after_copy c w) = gens w.
Proof. unfold C14_Streams.after_copy. destruct (call_copies c); reflexivity. Qed.
Lemma after_copy_objs c (w : world) k : (k < nobj w)%nat -> objs (after_copy c w) k = objs w k.
Proof. unfold C14_Streams.after_copy. destruct (call_copies c); [|reflexivity]. intros H. cbn. unfold upd.
  destruct (Nat.eqb_spec k (nobj w)); [lia|reflexivity]. Qed.
Lemma call_nf_unfold c s (w : world) :
  call_nf c s w = match call_pre c with Some e => (EErr e, after_copy c w) | None => with_stream s (call_body c) (after_copy c w) end.
Proof. unfold C14_Streams.call_nf, C14_Streams.after_copy. destruct (call_copies c).
  - rewrite bind_assoc. unfold bind at 1. destruct (copy_experiment w) as [o w1]. cbn [snd]. rewrite bind_ret_l. destruct (call_pre c); reflexivity.
  - rewrite bind_ret_l. destruct (call_pre c); reflexivity. Qed.

(* INT SEED: the output is [int_seed_output c z] — arguments and seed only, whatever the world (global state, existing
   generators, earlier calls) — and the call disturbs neither the global state nor any existing generator nor any
   existing object: it only leaves one more (unreachable) generator behind. *)
Theorem int_seed_function_of_seed c z (w : world) : single_stream c (SInt z) ->
  fst (run_call c (SInt z) w) = int_seed_output c z /\
  glob (snd (run_call c (SInt z) w)) = glob w /\
  (exists extra, gens (snd (run_call c (SInt z) w)) = gens w ++ extra) /\
  (forall k, (k < nobj w)%nat -> objs (snd (run_call c (SInt z) w)) k = objs w k).
Proof. intros Hs. rewrite (run_call_nf c (SInt z) w Hs I), call_nf_unfold. unfold C14_Streams.int_seed_output.
  destruct (call_pre c) as [e|].
  - cbn [fst snd]. split; [reflexivity|]. split; [apply after_copy_glob|]. split; [exists []; now rewrite app_nil_r, after_copy_gens|].
    apply after_copy_objs.
  - unfold C14_Streams.with_stream, bind. cbn [C14_Streams.to_stream]. unfold C14_Streams.lift. cbn [C14_Streams.sel alloc_gen gens].
    rewrite app_nth2, Nat.sub_diag by lia. cbn [nth]. destruct (call_body c (mkgen z)) as [o g']. cbn [fst snd C14_Streams.put set_gen gens glob objs].
    split; [reflexivity|]. split; [apply after_copy_glob|]. split; [|apply after_copy_objs].
    exists [g']. cbn [alloc_gen gens]. rewrite set_nth_app_last, after_copy_gens. reflexivity. Qed.

(* ... hence independent of the session history: the same seeded call made after ANY two histories returns the same value *)
Theorem int_seed_history_independent c z hs1 hs2 (w1 w2 : world) : single_stream c (SInt z) ->
  fst (run_call c (SInt z) (snd (exec hs1 w1))) = fst (run_call c (SInt z) (snd (exec hs2 w2))).
Proof. intros Hs. destruct (int_seed_function_of_seed c z (snd (exec hs1 w1)) Hs) as [-> _].
  destruct (int_seed_function_of_seed c z (snd (exec hs2 w2)) Hs) as [-> _]. reflexivity. Qed.

(* SHARED GENERATOR / GLOBAL STATE: the output is the pure body run on the current state of that stream, and the stream is
   left in the state where the body stopped *)
Theorem stream_call c s (w : world) r : single_stream c s -> valid r w -> call_pre c = None -> (s = as_arg r \/ (s = SNone /\ r = RefGlobal)) ->
  run_call c s w = (fst (call_body c (sel r w)), put r (snd (call_body c (sel r w))) (after_copy c w)).
Proof. intros Hs Hv Hp Hr.
  assert (Hvs : valid_sog s w). { destruct Hr as [->|[-> ->]]; [|exact I]. destruct r; cbn in *; auto. }
  rewrite (run_call_nf c s w Hs Hvs), call_nf_unfold, Hp. unfold C14_Streams.with_stream.
  assert (E : to_stream s (after_copy c w) = (r, after_copy c w)). { destruct Hr as [->|[-> ->]]; [apply to_stream_as_arg|reflexivity]. }
  rewrite (bind_eq _ _ _ _ _ E). unfold C14_Streams.lift.
  assert (Es : sel r (after_copy c w) = sel r w). { destruct r; cbn; now rewrite ?after_copy_glob, ?after_copy_gens. }
  rewrite Es. destruct (call_body c (sel r w)); reflexivity. Qed.

Theorem shared_generator_advances c h (w : world) : single_stream c (SGen h) -> (h < length (gens w))%nat -> call_pre c = None ->
  run_call c (SGen h) w = (fst (call_body c (nth h (gens w) (mkgen 0%Z))),
                           set_gen h (snd (call_body c (nth h (gens w) (mkgen 0%Z)))) (after_copy c w)).
Proof. intros Hs Hh Hp. exact (stream_call c (SGen h) w (RefGen h) Hs Hh Hp (or_introl eq_refl)). Qed.

Theorem none_uses_global_state c (w : world) : single_stream c SNone -> call_pre c = None ->
  run_call c SNone w = (fst (call_body c (glob w)), set_glob (snd (call_body c (glob w))) (after_copy c w)).
Proof. intros Hs Hp. exact (stream_call c SNone w RefGlobal Hs I Hp (or_intror (conj eq_refl eq_refl))). Qed.

(* two consecutive calls on one shared generator: the second continues exactly where the first stopped (nothing is
   consumed twice, nothing is skipped), and the global state is not involved *)
Theorem shared_generator_sequential c1 c2 h (w : world) :
  single_stream c1 (SGen h) -> single_stream c2 (SGen h) -> (h < length (gens w))%nat -> call_pre c1 = None -> call_pre c2 = None ->
  let g0 := nth h (gens w) (mkgen 0%Z) in
  let g1 := snd (call_body c1 g0) in
  let w1 := snd (run_call c1 (SGen h) w) in
  fst (run_call c1 (SGen h) w) = fst (call_body c1 g0) /\
  fst (run_call c2 (SGen h) w1) = fst (call_body c2 g1) /\
  nth h (gens (snd (run_call c2 (SGen h) w1))) (mkgen 0%Z) = snd (call_body c2 g1) /\
  glob (snd (run_call c2 (SGen h) w1)) = glob w.
Proof. intros H1 H2 Hh P1 P2 g0 g1 w1. subst w1. rewrite (shared_generator_advances c1 h w H1 Hh P1). cbn [fst snd]. fold g0. fold g1.
  set (w1 := set_gen h g1 (after_copy c1 w)).
  assert (Hh1 : (h < length (gens w1))%nat). { subst w1. cbn. now rewrite set_nth_length, after_copy_gens. }
  assert (E1 : nth h (gens w1) (mkgen 0%Z) = g1). { subst w1. cbn. apply nth_set_nth. now rewrite after_copy_gens. }
  rewrite (shared_generator_advances c2 h w1 H2 Hh1 P2), E1. cbn [fst snd].
  split; [reflexivity|]. split; [reflexivity|]. split.
  - cbn. apply nth_set_nth. now rewrite after_copy_gens.
  - cbn. rewrite after_copy_glob. subst w1. cbn. apply after_copy_glob. Qed.

(* seeding the global state makes a None-seeded call reproducible (how `seed_data` is meant to work) *)
Theorem global_seed_then_none c z (w : world) : single_stream c SNone -> call_pre c = None ->
  fst (run_call c SNone (set_glob (gseed z) w)) = fst (call_body c (gseed z)).
Proof. intros Hs Hp. now rewrite (none_uses_global_state c _ Hs Hp). Qed.

(* one multinomial sequence = its consecutive segments: requesting n_1..n_j and then n_{j+1}..n_k from the same
   stream is the same as requesting n_1..n_k at once *)
Lemma pmapM_app {X A} (f : X -> P A) : forall a b g,
  pmapM f (a ++ b) g = (fst (pmapM f a g) ++ fst (pmapM f b (snd (pmapM f a g))), snd (pmapM f b (snd (pmapM f a g)))).
Proof. induction a as [|x a IH]; intros b g; cbn [app pmapM].
  - unfold pret. cbn [fst snd app]. now destruct (pmapM f b g).
  - unfold pbind, pret. destruct (f x g) as [v g1]. rewrite IH. destruct (pmapM f a g1) as [l g2]. cbn [fst snd].
    destruct (pmapM f b g2) as [l' g3]. reflexivity. Qed.
Theorem empi_seq_segments pd ns1 ns2 g :
  p_empi_seq pd (ns1 ++ ns2) g =
  (fst (p_empi_seq pd ns1 g) ++ fst (p_empi_seq pd ns2 (snd (p_empi_seq pd ns1 g))), snd (p_empi_seq pd ns2 (snd (p_empi_seq pd ns1 g)))).
Proof. apply pmapM_app. Qed.

(* to_stream: the three documented cases, and a stream is returned unchanged *)
Theorem to_stream_cases (w : world) :
  to_stream SNone w = (RefGlobal, w) /\
  (forall z, fst (to_stream (SInt z) w) = RefGen (length (gens w)) /\
             sel (fst (to_stream (SInt z) w)) (snd (to_stream (SInt z) w)) = mkgen z /\ glob (snd (to_stream (SInt z) w)) = glob w) /\
  (forall r, to_stream (as_arg r) w = (r, w)).
Proof. split; [reflexivity|]. split; [|intros r; apply to_stream_as_arg].
  intros z. cbn. split; [reflexivity|]. split; [|reflexivity]. rewrite app_nth2, Nat.sub_diag by lia. reflexivity. Qed.

(* QTomography.reset_seed(z) is honoured for EVERY integer z (0 included): the global state becomes gseed z *)
Theorem reset_seed_honoured o z (w : world) :
  glob (snd (tomo_reset_seed gseed o (Some z) w)) = gseed z /\ objs (snd (tomo_reset_seed gseed o (Some z) w)) o = Some z.
Proof. unfold tomo_reset_seed. cbn. unfold upd. now rewrite Nat.eqb_refl. Qed.
(* ... hence a None-seeded generation made right after reset_seed(z) is a function of z and the arguments only, whatever the
   world (global state, generators, objects, earlier calls) was before *)
Theorem reset_seed_then_none o z c (w : world) : single_stream c SNone -> call_pre c = None ->
  fst (run_call c SNone (snd (tomo_reset_seed gseed o (Some z) w))) = fst (call_body c (gseed z)).
Proof. intros Hs Hp. rewrite (none_uses_global_state c _ Hs Hp). cbn [fst]. now rewrite (proj1 (reset_seed_honoured o z w)). Qed.

(* a numpy integer seed IS an integer seed: to_stream treats both alike, so every entry point returns the same value and
   leaves the same world *)
Theorem npint_seed_is_int_seed c z (w : world) : run_call c (SNpInt z) w = run_call c (SInt z) w.
Proof. destruct c; reflexivity. Qed.

End P.

(* ------------------------------------------------------------------ the data path: segments of stream.random *)
Section UnifP.
Context {G X : Type} (next : G -> X * G).
Theorem unif_app n m g :
  unif next (n + m) g = (fst (unif next n g) ++ fst (unif next m (snd (unif next n g))), snd (unif next m (snd (unif next n g)))).
Proof. revert g. induction n as [|n IH]; intros g; cbn [Nat.add unif].
  - cbn [fst snd app]. now destruct (unif next m g).
  - destruct (next g) as [x g1]. rewrite IH. destruct (unif next n g1) as [l g2]. cbn [fst snd].
    destruct (unif next m g2) as [l' g3]. reflexivity. Qed.
End UnifP.

