(* C15 — the built-in physicality check fails exactly when some stored estimate violates, beyond the threshold,
   a constraint its estimator was configured to enforce.  Axiom-free, generic in the ordered field. *)
From Coq Require Import List Arith Bool Lia.
From QV.Core Require Import OF.
From QV.Model Require Import C15_PhysCheck.
Import ListNotations.

Section Proofs.
Context (F : OF).
Notation est := (est F).
Notation thresholds := (thresholds F).

Lemma all_opt_some (l : list (option bool)) (f : list bool) :
  l = map Some f -> all_opt l = Some (forallb (fun b => b) f).
Proof. revert l. induction f as [|b f IH]; intros l ->; cbn; [reflexivity|]. now rewrite (IH _ eq_refl). Qed.

Lemma all_opt_map_some {A} (g : A -> bool) (l : list A) : all_opt (map (fun x => Some (g x)) l) = Some (forallb g l).
Proof. induction l as [|a l IH]; cbn; [reflexivity|]. now rewrite IH. Qed.

Lemma all_opt_ext {A} (f g : A -> option bool) l : (forall x, In x l -> f x = g x) -> all_opt (map f l) = all_opt (map g l).
Proof. intros H. f_equal. now apply map_ext_in. Qed.

Definition cell (p : est -> bool) (i : nat) (row : list est) : bool :=
  match nth_error row i with Some e => p e | None => true end.

Lemma column_spec (ests : list (list est)) n i p : rectangular F ests n -> (i < n)%nat ->
  column F ests i p = Some (forallb (cell p i) ests).
Proof. intros Hr Hi. unfold column. rewrite <- all_opt_map_some. apply all_opt_ext.
  intros row Hrow. unfold cell. unfold rectangular in Hr. rewrite Forall_forall in Hr. specialize (Hr row Hrow).
  destruct (nth_error row i) eqn:E; [reflexivity|]. apply nth_error_None in E. lia. Qed.

Lemma grid_spec (ests : list (list est)) n p : rectangular F ests n ->
  all_opt (map (fun i => column F ests i p) (seq 0 n)) = Some (forallb (fun i => forallb (cell p i) ests) (seq 0 n)).
Proof. intros Hr. rewrite <- all_opt_map_some. apply all_opt_ext. intros i Hi. apply in_seq in Hi.
  apply column_spec with (n := n); [exact Hr|lia]. Qed.

Lemma grid_false_iff (ests : list (list est)) n p : rectangular F ests n ->
  (forallb (fun i => forallb (cell p i) ests) (seq 0 n) = false <->
   exists r i e, get F ests r i = Some e /\ p e = false).
Proof. intros Hr. split.
  - intros H. apply not_true_iff_false in H.
    assert (Hex : exists i, In i (seq 0 n) /\ forallb (cell p i) ests = false).
    { destruct (forallb (fun i => forallb (cell p i) ests) (seq 0 n)) eqn:E; [congruence|].
      clear H. induction (seq 0 n) as [|i l IH]; cbn in E; [discriminate|].
      apply andb_false_iff in E. destruct E as [E|E]; [exists i; split; [now left|exact E]|].
      destruct (IH E) as [j [Hj Ej]]. exists j. split; [now right|exact Ej]. }
    destruct Hex as [i [_ Ei]].
    assert (Hrow : exists r row, nth_error ests r = Some row /\ cell p i row = false).
    { clear Hr H. induction ests as [|row t IH]; cbn in Ei; [discriminate|].
      apply andb_false_iff in Ei. destruct Ei as [E|E].
      - exists 0%nat, row. split; [reflexivity|exact E].
      - destruct (IH E) as [r [row' [H1 H2]]]. exists (S r), row'. split; assumption. }
    destruct Hrow as [r [row [H1 H2]]]. unfold cell in H2. destruct (nth_error row i) as [e|] eqn:E; [|discriminate].
    exists r, i, e. unfold get. rewrite H1. split; assumption.
  - intros [r [i [e [Hg Hp]]]]. unfold get in Hg. destruct (nth_error ests r) as [row|] eqn:Er; [|discriminate].
    assert (Hrow : In row ests) by (eapply nth_error_In; eassumption).
    assert (Hi : (i < n)%nat).
    { unfold rectangular in Hr. rewrite Forall_forall in Hr. rewrite <- (Hr row Hrow). apply nth_error_Some. congruence. }
    apply not_true_iff_false. intros Ht. rewrite forallb_forall in Ht.
    specialize (Ht i (proj2 (in_seq n 0 i) (conj (Nat.le_0_l i) Hi))). rewrite forallb_forall in Ht.
    specialize (Ht row Hrow). unfold cell in Ht. rewrite Hg in Ht. congruence. Qed.

Lemma get_first (ests : list (list est)) n i para : ests <> [] -> rectangular F ests n -> uniform_para F ests para -> (i < n)%nat ->
  exists e0, get F ests 0 i = Some e0 /\ e_para e0 = para.
Proof. intros Hne Hr Hu Hi. destruct ests as [|row t]; [congruence|]. unfold get. cbn.
  inversion Hr as [|? ? Hl _]; subst. inversion Hu as [|? ? Hp _]; subst.
  destruct (nth_error row i) as [e|] eqn:E.
  - exists e. split; [reflexivity|]. rewrite Forall_forall in Hp. apply Hp. eapply nth_error_In; eassumption.
  - apply nth_error_None in E. lia. Qed.

Lemma is_eq_all_spec th (ests : list (list est)) n para : ests <> [] -> (0 < n)%nat -> rectangular F ests n -> uniform_para F ests para ->
  is_eq_all F th ests n = Some (forallb (fun i => forallb (cell (fun e => eq_ok F e (eq_eps F th para)) i) ests) (seq 0 n)).
Proof. intros Hne Hn Hr Hu. unfold is_eq_all. destruct (get_first ests n 0 para Hne Hr Hu Hn) as [e0 [-> ->]].
  now apply grid_spec. Qed.

Lemma is_physical_all_spec th (ests : list (list est)) n para : ests <> [] -> rectangular F ests n -> uniform_para F ests para ->
  is_physical_all F th ests n =
  Some (forallb (fun i => forallb (cell (fun e => physical F e (eq_eps F th para) (t_ineq th)) i) ests) (seq 0 n)).
Proof. intros Hne Hr Hu. unfold is_physical_all. rewrite <- (grid_spec ests n _ Hr). apply all_opt_ext.
  intros i Hi. apply in_seq in Hi. destruct (get_first ests n i para Hne Hr Hu) as [e0 [-> ->]]; [lia|reflexivity]. Qed.

(* ---- main theorem *)
Theorem check_fails_iff th c (ests : list (list est)) n para :
  ests <> [] -> (0 < n)%nat -> rectangular F ests n -> uniform_para F ests para ->
  exists b, check F th c ests n = Some b /\
    (b = false <-> exists r i e, get F ests r i = Some e /\ violates F th c para e = true).
Proof. intros Hne Hn Hr Hu. unfold check, violates, enforced_eq, enforced_ineq.
  destruct (get_first ests n 0 para Hne Hr Hu Hn) as [e0 [Hg0 Hp0]].
  assert (Hnone : forall A (P : A -> Prop), (true = false <-> exists r i e, get F ests r i = Some e /\ false = true) ).
  { intros. split; [discriminate|]. intros [_ [_ [_ [_ H]]]]. discriminate. }
  destruct (k_kind c).
  - (* Linear *) rewrite Hg0, Hp0. destruct para.
    + rewrite (is_eq_all_spec th ests n true Hne Hn Hr Hu). eexists. split; [reflexivity|].
      rewrite (grid_false_iff ests n _ Hr). split; intros [r [i [e [H1 H2]]]]; exists r, i, e; split; try exact H1.
      * unfold eq_ok in H2. rewrite H2. reflexivity.
      * cbn in H2. rewrite orb_false_r in H2. apply negb_true_iff in H2. exact H2.
    + exists true. split; [reflexivity|]. cbn. apply (Hnone nat (fun _ => True)).
  - (* ProjectedLinear *) rewrite (is_physical_all_spec th ests n para Hne Hr Hu). eexists. split; [reflexivity|].
    rewrite (grid_false_iff ests n _ Hr). split; intros [r [i [e [H1 H2]]]]; exists r, i, e; split; try exact H1.
    + unfold physical, eq_ok, ineq_ok in H2. cbn. apply andb_false_iff in H2. destruct H2 as [-> | ->]; cbn; [reflexivity|apply orb_true_r].
    + cbn in H2. unfold physical, eq_ok, ineq_ok. apply orb_true_iff in H2. apply andb_false_iff.
      destruct H2 as [H2|H2]; apply negb_true_iff in H2; auto.
  - (* LossMinimization *) destruct (k_has_option c); cbn [andb].
    2:{ exists true. split; [reflexivity|]. cbn. apply (Hnone nat (fun _ => True)). }
    destruct (k_algo_eq c), (k_algo_ineq c); cbn [app andb].
    + rewrite (is_eq_all_spec th ests n para Hne Hn Hr Hu). unfold is_ineq_all. rewrite (grid_spec ests n _ Hr). cbn [all_opt].
      eexists. split; [reflexivity|]. rewrite andb_true_r, andb_false_iff, !(grid_false_iff ests n _ Hr). split.
      * intros [[r [i [e [H1 H2]]]]|[r [i [e [H1 H2]]]]]; exists r, i, e; split; try exact H1.
        -- unfold eq_ok in H2. now rewrite H2.
        -- unfold ineq_ok in H2. rewrite H2. apply orb_true_r.
      * intros [r [i [e [H1 H2]]]]. apply orb_true_iff in H2. destruct H2 as [H2|H2]; apply negb_true_iff in H2;
          [left|right]; exists r, i, e; split; assumption.
    + rewrite (is_eq_all_spec th ests n para Hne Hn Hr Hu). cbn [all_opt]. eexists. split; [reflexivity|].
      rewrite andb_true_r, (grid_false_iff ests n _ Hr). split; intros [r [i [e [H1 H2]]]]; exists r, i, e; split; try exact H1.
      * unfold eq_ok in H2. now rewrite H2.
      * cbn in H2. rewrite orb_false_r in H2. now apply negb_true_iff in H2.
    + unfold is_ineq_all. rewrite (grid_spec ests n _ Hr). cbn [all_opt]. eexists. split; [reflexivity|].
      rewrite andb_true_r, (grid_false_iff ests n _ Hr). split; intros [r [i [e [H1 H2]]]]; exists r, i, e; split; try exact H1.
      * unfold ineq_ok in H2. now rewrite H2.
      * cbn in H2. now apply negb_true_iff in H2.
    + exists true. split; [reflexivity|]. cbn. apply (Hnone nat (fun _ => True)).
  - (* other estimator types *) exists true. split; [reflexivity|]. cbn. apply (Hnone nat (fun _ => True)).
Qed.

(* ---- the IndexError branches: no stored result at all *)
Theorem check_raises_on_no_results th c n :
  check F th c [] n = None <->
  (k_kind c = EProjLinear /\ (0 < n)%nat) \/ k_kind c = ELinear \/ (k_kind c = ELossMin /\ k_has_option c = true /\ k_algo_eq c = true).
Proof. unfold check, is_physical_all, is_eq_all, is_ineq_all, get. destruct (k_kind c) eqn:K; cbn.
  - split; [intros _; right; left; reflexivity|reflexivity].
  - destruct n as [|n]; cbn.
    + split; [discriminate|]. intros [[_ H]|[H|[H _]]]; [lia|discriminate|discriminate].
    + split; [intros _; left; split; [reflexivity|lia]|reflexivity].
  - destruct (k_has_option c); [|split; [discriminate|intros [[H _]|[H|[_ [H _]]]]; discriminate]].
    destruct (k_algo_eq c); cbn.
    + split; [intros _; right; right; auto|reflexivity].
    + assert (E : all_opt (map (fun _ : nat => Some true) (seq 0 n)) = Some true).
      { generalize (seq 0 n). intros l. induction l as [|a l IH]; cbn; [reflexivity|]. now rewrite IH. }
      destruct (k_algo_ineq c); cbn; [rewrite E; cbn|]; (split; [discriminate|intros [[H _]|[H|[_ [_ H]]]]; discriminate]).
  - split; [discriminate|intros [[H _]|[H|[H _]]]; discriminate]. Qed.
End Proofs.
