(* C08 -- the coefficient-level Born rule of the forward model IS the operator-level Born rule Re tr(E^dagger rho): with an
   orthonormal operator basis B, every entry of the circuit semantics of Model/C08_Forward.v ([qst_born], [povmt_born], [qpt_born],
   [qmpt_born]) is the Hilbert-Schmidt inner product of the effect operator with the (transformed) state operator, the operators being
   rebuilt from the coefficient vectors by QObj.op_of_vec and gates acting by QObj.apply_hs.  Uses C02's library. Axiom-free. *)
From Coq Require Import Arith List Bool Lia.
From QV.Core Require Import OF Sums Mat Cplx.
From QV.Model Require Import QObj C02_Conv C08_Forward.
From QV.Proofs Require Import C02_QObjBase C08_Forward.
Import ListNotations.

Section C08Op.
Context (F : OF).
Notation lvec := (lvec F).
(* Re tr(E^dagger rho) for E, rho given by their coefficient vectors *)
Definition op_born (d : nat) (B : nat -> cmat F) (pv sv : rvec F) : F := re (hs_inner d (op_of_vec d B pv) (op_of_vec d B sv)).
(* Re tr(E^dagger G(rho)) for a gate given by its HS matrix *)
Definition op_born_gate (d : nat) (B : nat -> cmat F) (pv : rvec F) (HS : rmat F) (sv : rvec F) : F :=
  re (hs_inner d (op_of_vec d B pv) (apply_hs d B HS (op_of_vec d B sv))).

Lemma born_op d (B : nat -> cmat F) (p s : rvec F) : basis_orthonormal d B -> born d p s = op_born d B p s.
Proof. intros Ho. unfold op_born. now rewrite (born_hs_inner F d B p s Ho). Qed.
Lemma born_gate_op d (B : nat -> cmat F) (p : rvec F) (HS : rmat F) (s : rvec F) : basis_orthonormal d B ->
  born d p (mv (d * d) HS s) = op_born_gate d B p HS s.
Proof. intros Ho. rewrite (born_op d B _ _ Ho). unfold op_born, op_born_gate, apply_hs. f_equal.
  apply (hs_inner_ext F); [apply meq_refl|]. intros i j _ _. rewrite !(op_of_vec_cvec F). apply (op_of_cvec_ext F).
  intros a Ha. f_equal. unfold mv. apply sumn_ext. intros b Hb. now rewrite (vec_of_op_of_vec F d B s b Ho Hb). Qed.

(* per schedule: the model's circuit semantics, entry by entry, at operator level *)
Theorem qst_born_op d (B : nat -> cmat F) para sd (povm : list lvec) (v : rvec F) : basis_orthonormal d B ->
  qst_born F d para sd povm v = map (fun pv => op_born d B (vl pv) (state_of_var F para sd v)) povm.
Proof. intros Ho. unfold qst_born, born_povm_state. apply map_ext. intros pv. now apply born_op. Qed.
Theorem povmt_born_op d (B : nat -> cmat F) para sd m (s : lvec) (v : rvec F) : basis_orthonormal d B ->
  povmt_born F d para sd m s v = map (fun x => op_born d B (povm_of_var F para sd (d * d) m v x) (vl s)) (seq O m).
Proof. intros Ho. unfold povmt_born. apply map_ext. intros x. now apply born_op. Qed.
Theorem qpt_born_op d (B : nat -> cmat F) para (s : lvec) (povm : list lvec) (v : rvec F) : basis_orthonormal d B ->
  qpt_born F d para s povm v = map (fun pv => op_born_gate d B (vl pv) (hs_of_var F para (d * d) v) (vl s)) povm.
Proof. intros Ho. unfold qpt_born, born_gate, born_povm_state. apply map_ext. intros pv. now apply born_gate_op. Qed.
Theorem qmpt_born_op d (B : nat -> cmat F) para m (s : lvec) (povm : list lvec) (v : rvec F) : basis_orthonormal d B ->
  qmpt_born F d para m s povm v
  = flat_map (fun x => map (fun pv => op_born_gate d B (vl pv) (hss_of_var F para (d * d) m v x) (vl s)) povm) (seq O m).
Proof. intros Ho. unfold qmpt_born, born_gate, born_povm_state. apply flat_map_ext. intros x. apply map_ext. intros pv. now apply born_gate_op. Qed.

(* whole forward model at operator level: A v + b = Re tr(E^dagger rho(v)) schedule by schedule, outcome by outcome *)
Theorem qst_forward_op d (B : nat -> cmat F) para sd (povms : list (list lvec)) (scheds : list nat) (v : rvec F) :
  basis_orthonormal d B -> sd <> c0 F ->
  (forall i, In i scheds -> forall pv, In pv (nth i povms []) -> length pv = (d * d)%nat) ->
  affine (calc_matA (qst_coeffs F para sd povms scheds)) (calc_vecB (qst_coeffs F para sd povms scheds)) v
  = concat (map (fun i => map (fun pv => op_born d B (vl pv) (state_of_var F para sd v)) (nth i povms [])) scheds).
Proof. intros Ho Hsd Hwf. rewrite (qst_forward F d para sd povms scheds v Hsd Hwf). f_equal. apply map_ext. intros i. now apply qst_born_op. Qed.
Theorem povmt_forward_op d (B : nat -> cmat F) para sd m (states : list lvec) (scheds : list nat) (v : rvec F) :
  basis_orthonormal d B -> (0 < d)%nat -> (forall i, In i scheds -> length (nth i states []) = (d * d)%nat) ->
  affine (calc_matA (povmt_coeffs F para sd m states scheds)) (calc_vecB (povmt_coeffs F para sd m states scheds)) v
  = concat (map (fun i => map (fun x => op_born d B (povm_of_var F para sd (d * d) m v x) (vl (nth i states []))) (seq O m)) scheds).
Proof. intros Ho Hd Hwf. rewrite (povmt_forward F d para sd m states scheds v Hd Hwf). f_equal. apply map_ext. intros i. now apply povmt_born_op. Qed.
Theorem qpt_forward_op d (B : nat -> cmat F) para (states : list lvec) (povms : list (list lvec)) (scheds : list (nat * nat)) (v : rvec F) :
  basis_orthonormal d B -> (0 < d)%nat ->
  (forall ik, In ik scheds -> length (nth (fst ik) states []) = (d * d)%nat /\ forall pv, In pv (nth (snd ik) povms []) -> length pv = (d * d)%nat) ->
  affine (calc_matA (qpt_coeffs F para states povms scheds)) (calc_vecB (qpt_coeffs F para states povms scheds)) v
  = concat (map (fun ik => map (fun pv => op_born_gate d B (vl pv) (hs_of_var F para (d * d) v) (vl (nth (fst ik) states []))) (nth (snd ik) povms [])) scheds).
Proof. intros Ho Hd Hwf. rewrite (qpt_forward F d para states povms scheds v Hd Hwf). f_equal. apply map_ext. intros ik. now apply qpt_born_op. Qed.
Theorem qmpt_forward_op d (B : nat -> cmat F) (para : bool) m (states : list lvec) (povms : list (list lvec)) (scheds : list (nat * nat)) :
  basis_orthonormal d B -> (0 < d)%nat -> ((if para then 2 else 1) <= m)%nat ->
  (forall ik, In ik scheds -> length (nth (fst ik) states []) = (d * d)%nat /\ forall pv, In pv (nth (snd ik) povms []) -> length pv = (d * d)%nat) ->
  exists dct, qmpt_coeffs F para (d * d) m states povms scheds = Some dct /\
    forall v : rvec F, affine (calc_matA dct) (calc_vecB dct) v
      = concat (map (fun ik => flat_map (fun x => map (fun pv => op_born_gate d B (vl pv) (hss_of_var F para (d * d) m v x) (vl (nth (fst ik) states [])))
                                                   (nth (snd ik) povms [])) (seq O m)) scheds).
Proof. intros Ho Hd Hm Hwf. destruct (qmpt_forward F d para m states povms scheds Hd Hm Hwf) as [dct [E1 E2]]. exists dct. split; [exact E1|].
  intros v. rewrite E2. f_equal. apply map_ext. intros ik. now apply qmpt_born_op. Qed.
End C08Op.
