(* C02 — lemma library, part 2: the linear map denoted by an HS matrix (capply_hs / apply_hs), HS matrix of a linear map,
   Kraus operators, change of matrix basis (convert_hs, convert_vec), basis independence of the Choi matrix.
   Generic in F, d, B; axiom-free.  Import QV.Proofs.C02_QObjLemmas to get part 1 and part 2 together. *)
From Coq Require Import Field Ring Setoid Arith Lia Bool List.
From QV.Core Require Import OF Sums Mat Cplx.
From QV.Model Require Import QObj C02_Conv.
From QV.Proofs Require Import C02_QObjBase.
Import ListNotations.

Section QObjMaps.
Context (F : OF).
Add Field Fq2 : (k_field F).
Add Ring Cq2 : (c_ring (CF F)).
Notation Cx := (CF F).
Notation cmat := (cmat F). Notation rmat := (rmat F). Notation cvec := (cvec F). Notation rvec := (rvec F).
Notation "0" := (c0 Cx). Notation "1" := (c1 Cx).
Infix "+" := (cadd Cx). Infix "*" := (cmul Cx). Infix "-" := (csub Cx). Notation "- x" := (copp Cx x).
Notation csum := (@sumn (CF F)).
Notation r0 := (c0 F).
(* ------------------------------------------------------------------ the map denoted by an HS matrix *)
Lemma capply_hs_ext d (B : nat -> cmat) (H H' X X' : cmat) i j : meq (d * d) (d * d) H H' -> meq d d X X' ->
  capply_hs d B H X i j = capply_hs d B H' X' i j.
Proof. intros EH EX. unfold capply_hs. apply op_of_cvec_ext. intros a Ha. unfold mv. apply csum_ext; intros b Hb.
  now rewrite (EH a b Ha Hb), (cvec_of_op_ext F d B X X' b EX). Qed.
(* QObj.apply_hs is capply_hs on Hermitian arguments (Hermitian basis) *)
Lemma apply_hs_capply d (B : nat -> cmat) (HS : rmat) (X : cmat) i j : basis_hermitian d B -> hermitian d X ->
  apply_hs d B HS X i j = capply_hs d B (cof HS) X i j.
Proof. intros Hh HX. unfold apply_hs, capply_hs. rewrite op_of_vec_cvec. apply op_of_cvec_ext. intros a Ha.
  unfold mv. rewrite zof_sum. apply csum_ext; intros b Hb. rewrite zof_mul. unfold cof.
  now rewrite <- (cvec_of_op_real F d B X b Hh HX Hb). Qed.
Lemma capply_hs_sum d (B : nat -> cmat) (H : cmat) n (k : nat -> Cx) (M : nat -> cmat) i j :
  capply_hs d B H (fun i j => csum n (fun t => k t * M t i j)) i j = csum n (fun t => k t * capply_hs d B H (M t) i j).
Proof. unfold capply_hs. rewrite <- (op_of_cvec_sum F d B n k (fun t => mv (d * d) H (cvec_of_op d B (M t))) i j).
  apply op_of_cvec_ext. intros a Ha. unfold mv.
  transitivity (csum (d * d) (fun b => csum n (fun t => k t * (H a b * cvec_of_op d B (M t) b)))).
  { apply csum_ext; intros b Hb. rewrite cvec_of_op_sum, <- sumn_scale_l. apply csum_ext; intros; ring. }
  rewrite sumn_swap. apply csum_ext; intros t _. now rewrite sumn_scale_l. Qed.
Lemma capply_hs_linear d (B : nat -> cmat) (H : cmat) : map_linear d (capply_hs d B H).
Proof. split.
  - intros X Y E i j _ _. apply capply_hs_ext; [apply meq_refl|exact E].
  - intros n c M i j _ _. apply capply_hs_sum. Qed.
Lemma capply_hs_add_H d (B : nat -> cmat) (H H' X : cmat) i j : capply_hs d B (madd H H') X i j = madd (capply_hs d B H X) (capply_hs d B H' X) i j.
Proof. unfold capply_hs. rewrite <- op_of_cvec_add. apply op_of_cvec_ext. intros a _. unfold mv, vadd, madd.
  rewrite <- sumn_add. apply csum_ext; intros; ring. Qed.
Lemma capply_hs_scale_H d (B : nat -> cmat) (k : Cx) (H X : cmat) i j : capply_hs d B (mscale k H) X i j = mscale k (capply_hs d B H X) i j.
Proof. unfold capply_hs. rewrite <- op_of_cvec_scale. apply op_of_cvec_ext. intros a _. unfold mv, vscale, mscale.
  rewrite <- sumn_scale_l. apply csum_ext; intros; ring. Qed.

(* THE REPRESENTATION THEOREM: the HS matrix of a linear map G, applied through coefficients, is G (complete basis) *)
Lemma capply_hs_of_map d (B : nat -> cmat) (G : cmat -> cmat) (X : cmat) i j :
  basis_complete d B -> map_linear d G -> (i < d)%nat -> (j < d)%nat ->
  capply_hs d B (hs_of_map d B G) X i j = G X i j.
Proof. intros Hc [Gext Gsum] Hi Hj. rewrite <- (op_of_cvec_of_op F d B (G X) i j Hc Hi Hj).
  unfold capply_hs. apply op_of_cvec_ext. intros a Ha. unfold mv, hs_of_map. symmetry. unfold cvec_of_op at 1.
  rewrite (hs_inner_ext F d (B a) (B a) (G X) (fun i j => csum (d * d) (fun b => cvec_of_op d B X b * G (B b) i j))).
  2:{ apply meq_refl. }
  2:{ eapply meq_trans; [|apply (Gsum (d * d)%nat (cvec_of_op d B X) B)]. apply Gext. apply meq_sym.
      exact (op_of_cvec_of_op_meq F d B X Hc). }
  rewrite hs_inner_sum_r. apply csum_ext; intros b Hb.
  change (fun i0 j0 : nat => G (B b) i0 j0) with (G (B b)). ring. Qed.
(* conversely every matrix H is the HS matrix of the map it denotes (orthonormal basis) *)
Lemma hs_of_map_capply d (B : nat -> cmat) (H : cmat) a b : basis_orthonormal d B -> (a < d * d)%nat -> (b < d * d)%nat ->
  hs_of_map d B (capply_hs d B H) a b = H a b.
Proof. intros Ho Ha Hb. unfold hs_of_map, capply_hs.
  change (hs_inner d (B a) (op_of_cvec d B (mv (d * d) H (cvec_of_op d B (B b))))) with
         (cvec_of_op d B (op_of_cvec d B (mv (d * d) H (cvec_of_op d B (B b)))) a).
  rewrite cvec_of_op_of_cvec by assumption. unfold mv, cvec_of_op.
  rewrite (csum_ext F (d * d) _ (fun c => if Nat.eqb c b then H a c else 0)).
  2:{ intros c Hc. rewrite (Ho c b Hc Hb). destruct (Nat.eqb c b); ring. }
  exact (sumn_delta (d * d) b (fun c => H a c) Hb). Qed.
Lemma hs_of_map_ext d (B : nat -> cmat) (G G' : cmat -> cmat) a b : (forall X, meq d d (G X) (G' X)) -> hs_of_map d B G a b = hs_of_map d B G' a b.
Proof. intros E. unfold hs_of_map. apply hs_inner_ext; [apply meq_refl|apply E]. Qed.
(* composition of maps = product of HS matrices *)
Lemma hs_of_map_compose d (B : nat -> cmat) (G1 G2 : cmat -> cmat) a b : basis_complete d B -> map_linear d G1 ->
  hs_of_map d B (fun X => G1 (G2 X)) a b = mmul (d * d) (hs_of_map d B G1) (hs_of_map d B G2) a b.
Proof. intros Hc [Gext Gsum]. unfold hs_of_map, mmul.
  rewrite (hs_inner_ext F d (B a) (B a) (G1 (G2 (B b))) (fun i j => csum (d * d) (fun c => cvec_of_op d B (G2 (B b)) c * G1 (B c) i j))).
  2:{ apply meq_refl. }
  2:{ eapply meq_trans; [|apply (Gsum (d * d)%nat (cvec_of_op d B (G2 (B b))) B)]. apply Gext. apply meq_sym.
      exact (op_of_cvec_of_op_meq F d B (G2 (B b)) Hc). }
  rewrite hs_inner_sum_r. apply csum_ext; intros c _. unfold cvec_of_op.
  change (fun i0 j0 : nat => G1 (B c) i0 j0) with (G1 (B c)). ring. Qed.
Lemma capply_hs_mmul d (B : nat -> cmat) (H1 H2 X : cmat) i j : basis_orthonormal d B ->
  capply_hs d B (mmul (d * d) H1 H2) X i j = capply_hs d B H1 (capply_hs d B H2 X) i j.
Proof. intros Ho. unfold capply_hs. apply op_of_cvec_ext. intros a Ha. rewrite mv_mmul.
  apply mv_ext with (m := (d * d)%nat); [apply meq_refl| |exact Ha]. intros c Hc. symmetry. now apply cvec_of_op_of_cvec. Qed.

(* ------------------------------------------------------------------ Kraus operators *)
Lemma sandwich_ext d (K X X' L : cmat) : meq d d X X' -> meq d d (sandwich d K X L) (sandwich d K X' L).
Proof. intros E i j _ _. unfold sandwich, mmul. apply csum_ext; intros l Hl. f_equal. apply csum_ext; intros k Hk. now rewrite E. Qed.
Lemma sandwich_sum d (K L : cmat) n (c : nat -> Cx) (M : nat -> cmat) i j :
  sandwich d K (fun i j => csum n (fun a => c a * M a i j)) L i j = csum n (fun a => c a * sandwich d K (M a) L i j).
Proof. unfold sandwich, mmul.
  transitivity (csum d (fun l => csum d (fun k => csum n (fun a => c a * (K i k * M a k l * L l j))))).
  { apply csum_ext; intros l _. rewrite <- sumn_scale_r. apply csum_ext; intros k _.
    rewrite <- sumn_scale_l, <- sumn_scale_r. apply csum_ext; intros; ring. }
  rewrite csum_rot3. apply csum_ext; intros a _. rewrite <- sumn_scale_l. apply csum_ext; intros l _.
  rewrite <- sumn_scale_r, <- sumn_scale_l. apply csum_ext; intros; ring. Qed.
Lemma sandwich_linear d (K L : cmat) : map_linear d (fun X => sandwich d K X L).
Proof. split; [intros X Y E; now apply sandwich_ext|intros n c M i j _ _; apply sandwich_sum]. Qed.
Lemma kraus_apply_cons d (K : cmat) Ks (X : cmat) i j : kraus_apply d (K :: Ks) X i j = sandwich d K X (cadj K) i j + kraus_apply d Ks X i j.
Proof. reflexivity. Qed.
Lemma kraus_apply_linear d (Ks : list cmat) : map_linear d (kraus_apply d Ks).
Proof. split.
  - intros X Y E i j Hi Hj. induction Ks as [|K Ks IH]; [reflexivity|]. rewrite !kraus_apply_cons, IH.
    now rewrite (sandwich_ext d K X Y (cadj K) E i j Hi Hj).
  - intros n c M i j Hi Hj. induction Ks as [|K Ks IH].
    + unfold kraus_apply; cbn [fold_right]. rewrite (csum_ext F n _ (fun _ => 0)) by (intros; ring). now rewrite sumn_zero.
    + rewrite kraus_apply_cons, IH, sandwich_sum, <- sumn_add. apply csum_ext; intros a _. rewrite kraus_apply_cons. ring. Qed.
(* QObj.chs_of_kraus is the HS matrix of the map X |-> sum_K K X K^dag *)
Lemma chs_of_kraus_as_map d (B : nat -> cmat) (Ks : list cmat) a b : chs_of_kraus d B Ks a b = hs_of_map d B (kraus_apply d Ks) a b.
Proof. unfold hs_of_map. induction Ks as [|K Ks IH].
  - unfold chs_of_kraus, kraus_apply; cbn [fold_right]. symmetry. apply hs_inner_zero_r.
  - change (chs_of_kraus d B (K :: Ks) a b) with (hs_inner d (B a) (sandwich d K (B b) (cadj K)) + chs_of_kraus d B Ks a b).
    rewrite IH. symmetry. exact (hs_inner_add_r F d (B a) (sandwich d K (B b) (cadj K)) (kraus_apply d Ks (B b))). Qed.
(* KRAUS THEOREM (complex form): the HS matrix built from ANY list of Kraus operators acts as X |-> sum_K K X K^dag *)
Lemma capply_chs_of_kraus d (B : nat -> cmat) (Ks : list cmat) (X : cmat) i j : basis_complete d B -> (i < d)%nat -> (j < d)%nat ->
  capply_hs d B (chs_of_kraus d B Ks) X i j = kraus_apply d Ks X i j.
Proof. intros Hc Hi Hj. rewrite <- (capply_hs_of_map d B (kraus_apply d Ks) X i j Hc (kraus_apply_linear d Ks) Hi Hj).
  apply capply_hs_ext; [|apply meq_refl]. intros a b _ _. apply chs_of_kraus_as_map. Qed.
Lemma hermitian_sandwich d (K X : cmat) : hermitian d X -> hermitian d (sandwich d K X (cadj K)).
Proof. intros HX i j Hi Hj. unfold sandwich, mmul, cadj. rewrite cj_sum.
  transitivity (csum d (fun l => csum d (fun k => K i k * X k l * zconj (K j l)))).
  { apply csum_ext; intros l _. now rewrite sumn_scale_r. }
  rewrite sumn_swap. apply csum_ext; intros k Hk. rewrite cj_mul, cj_cj, cj_sum, <- sumn_scale_r.
  apply csum_ext; intros l Hl. rewrite cj_mul, (HX k l Hk Hl). ring. Qed.
Lemma kraus_apply_hermitian d (Ks : list cmat) (X : cmat) : hermitian d X -> hermitian d (kraus_apply d Ks X).
Proof. intros HX i j Hi Hj. induction Ks as [|K Ks IH]; [unfold kraus_apply; cbn [fold_right]; now rewrite cj_0|].
  rewrite !kraus_apply_cons, cj_add, <- IH. now rewrite <- (hermitian_sandwich d K X HX i j Hi Hj). Qed.
Lemma chs_of_kraus_real d (B : nat -> cmat) (Ks : list cmat) a b : basis_hermitian d B -> (a < d * d)%nat -> (b < d * d)%nat ->
  chs_of_kraus d B Ks a b = zof (hs_of_kraus d B Ks a b).
Proof. intros Hh Ha Hb. apply cplx_real. rewrite chs_of_kraus_as_map. apply hs_inner_herm_real; [now apply Hh|].
  apply kraus_apply_hermitian. now apply Hh. Qed.
(* KRAUS THEOREM (real form, QObj vocabulary) *)
Lemma apply_hs_of_kraus d (B : nat -> cmat) (Ks : list cmat) (X : cmat) i j :
  basis_complete d B -> basis_hermitian d B -> hermitian d X -> (i < d)%nat -> (j < d)%nat ->
  apply_hs d B (hs_of_kraus d B Ks) X i j = kraus_apply d Ks X i j.
Proof. intros Hc Hh HX Hi Hj. rewrite (apply_hs_capply d B _ X i j Hh HX).
  rewrite <- (capply_chs_of_kraus d B Ks X i j Hc Hi Hj). apply capply_hs_ext; [|apply meq_refl].
  intros a b Ha Hb. unfold cof. symmetry. now apply chs_of_kraus_real. Qed.

(* ------------------------------------------------------------------ change of basis *)
Lemma umat_adj d (B B' : nat -> cmat) a b : cadj (umat d B B') a b = umat d B' B a b.
Proof. unfold cadj, umat. apply hs_inner_conj_sym. Qed.
(* convert_hs is, unconditionally, the HS matrix w.r.t. B' of the map that H denotes w.r.t. B *)
Lemma convert_hs_as_map d (B B' : nat -> cmat) (H : cmat) a b : convert_hs d B B' H a b = hs_of_map d B' (capply_hs d B H) a b.
Proof. unfold convert_hs, hs_of_map, capply_hs, op_of_cvec. rewrite hs_inner_sum_r. unfold mmul at 1.
  rewrite (csum_ext F (d * d) _ (fun c => csum (d * d) (fun e => umat d B B' a e * H e c * umat d B' B c b))).
  2:{ intros c _. rewrite umat_adj. unfold mmul. now rewrite sumn_scale_r. }
  rewrite sumn_swap. apply csum_ext; intros e _. unfold mv. rewrite <- sumn_scale_r. apply csum_ext; intros c _.
  unfold umat, cvec_of_op. ring. Qed.
Lemma convert_hs_ext d (B B' : nat -> cmat) (H H' : cmat) a b : meq (d * d) (d * d) H H' -> convert_hs d B B' H a b = convert_hs d B B' H' a b.
Proof. intros E. rewrite !convert_hs_as_map. apply hs_of_map_ext. intros X i j _ _. apply capply_hs_ext; [exact E|apply meq_refl]. Qed.
(* SAME OPERATOR: the converted matrix denotes, w.r.t. the new basis, the same map *)
Lemma capply_convert_hs d (B B' : nat -> cmat) (H X : cmat) i j : basis_complete d B' -> (i < d)%nat -> (j < d)%nat ->
  capply_hs d B' (convert_hs d B B' H) X i j = capply_hs d B H X i j.
Proof. intros Hc Hi Hj. rewrite <- (capply_hs_of_map d B' (capply_hs d B H) X i j Hc (capply_hs_linear d B H) Hi Hj).
  apply capply_hs_ext; [|apply meq_refl]. intros a b _ _. apply convert_hs_as_map. Qed.
(* ROUND TRIP B -> B' -> B *)
Lemma convert_hs_round_trip d (B B' : nat -> cmat) (H : cmat) a b : basis_orthonormal d B -> basis_complete d B' ->
  (a < d * d)%nat -> (b < d * d)%nat -> convert_hs d B' B (convert_hs d B B' H) a b = H a b.
Proof. intros Ho Hc Ha Hb. rewrite convert_hs_as_map. rewrite <- (hs_of_map_capply d B H a b Ho Ha Hb).
  apply hs_of_map_ext. intros X i j Hi Hj. now apply capply_convert_hs. Qed.
Lemma umat_unitary d (B B' : nat -> cmat) a b : basis_orthonormal d B -> basis_complete d B' -> (a < d * d)%nat -> (b < d * d)%nat ->
  mmul (d * d) (umat d B' B) (umat d B B') a b = mid a b.
Proof. intros Ho Hc Ha Hb. unfold mmul, mid. rewrite <- (Ho a b Ha Hb). rewrite (hs_inner_cvec_of_op F d B' (B a) (B b) Hc).
  apply csum_ext; intros c _. unfold umat, cvec_of_op. now rewrite hs_inner_conj_sym. Qed.
Lemma convert_hs_add d (B B' : nat -> cmat) (H H' : cmat) a b : convert_hs d B B' (madd H H') a b = madd (convert_hs d B B' H) (convert_hs d B B' H') a b.
Proof. change (madd (convert_hs d B B' H) (convert_hs d B B' H') a b) with (convert_hs d B B' H a b + convert_hs d B B' H' a b).
  rewrite !convert_hs_as_map. unfold hs_of_map. rewrite <- hs_inner_add_r. apply hs_inner_ext; [apply meq_refl|].
  intros i j _ _. apply capply_hs_add_H. Qed.
Lemma convert_hs_scale d (B B' : nat -> cmat) (k : Cx) (H : cmat) a b : convert_hs d B B' (mscale k H) a b = mscale k (convert_hs d B B' H) a b.
Proof. change (mscale k (convert_hs d B B' H) a b) with (k * convert_hs d B B' H a b).
  rewrite !convert_hs_as_map. unfold hs_of_map. rewrite <- hs_inner_scale_r. apply hs_inner_ext; [apply meq_refl|].
  intros i j _ _. apply capply_hs_scale_H. Qed.
(* convert_vec: unconditionally the coefficients w.r.t. B' of the operator that v denotes w.r.t. B *)
Lemma convert_vec_as_cvec d (B B' : nat -> cmat) (v : cvec) a : convert_vec d B B' v a = cvec_of_op d B' (op_of_cvec d B v) a.
Proof. unfold convert_vec, mv, cvec_of_op, op_of_cvec. rewrite hs_inner_sum_r. apply csum_ext; intros b _. unfold umat. ring. Qed.
Lemma op_of_convert_vec d (B B' : nat -> cmat) (v : cvec) i j : basis_complete d B' -> (i < d)%nat -> (j < d)%nat ->
  op_of_cvec d B' (convert_vec d B B' v) i j = op_of_cvec d B v i j.
Proof. intros Hc Hi Hj. rewrite <- (op_of_cvec_of_op F d B' (op_of_cvec d B v) i j Hc Hi Hj). apply op_of_cvec_ext.
  intros a _. apply convert_vec_as_cvec. Qed.
Lemma convert_vec_round_trip d (B B' : nat -> cmat) (v : cvec) a : basis_orthonormal d B -> basis_complete d B' -> (a < d * d)%nat ->
  convert_vec d B' B (convert_vec d B B' v) a = v a.
Proof. intros Ho Hc Ha. rewrite convert_vec_as_cvec. rewrite <- (cvec_of_op_of_cvec F d B v a Ho Ha).
  apply cvec_of_op_ext. intros i j Hi Hj. now apply op_of_convert_vec. Qed.
Lemma convert_vec_add d (B B' : nat -> cmat) (v w : cvec) a : convert_vec d B B' (vadd v w) a = vadd (convert_vec d B B' v) (convert_vec d B B' w) a.
Proof. apply mv_vadd. Qed.
Lemma convert_vec_scale d (B B' : nat -> cmat) (k : Cx) (v : cvec) a : convert_vec d B B' (vscale k v) a = vscale k (convert_vec d B B' v) a.
Proof. apply mv_vscale. Qed.
(* the Choi matrix does not depend on the basis in which the HS matrix is written *)
Lemma cchoi_convert_hs d (B B' : nat -> cmat) (H : cmat) i j : basis_complete d B' -> (i < d * d)%nat -> (j < d * d)%nat ->
  cchoi_of_hs d B' (convert_hs d B B' H) i j = cchoi_of_hs d B H i j.
Proof. intros Hc Hi Hj. destruct (divmod_lt d i Hi) as [I1 I2]. destruct (divmod_lt d j Hj) as [J1 J2].
  unfold cchoi_of_hs, bbc, kron, cconj.
  set (i1 := (i / d)%nat) in *. set (i2 := (i mod d)%nat) in *. set (j1 := (j / d)%nat) in *. set (j2 := (j mod d)%nat) in *.
  set (f := fun a b e c : nat => umat d B B' a c * H c e * zconj (umat d B B' b e) * (B' a i1 j1 * zconj (B' b i2 j2))).
  transitivity (csum (d * d) (fun a => csum (d * d) (fun b => csum (d * d) (fun e => csum (d * d) (fun c => f a b e c))))).
  { apply csum_ext2; intros a b _ _. unfold convert_hs, mmul. rewrite <- sumn_scale_r. apply csum_ext; intros e _.
    rewrite <- !sumn_scale_r. apply csum_ext; intros c _. unfold f, cadj. ring. }
  transitivity (csum (d * d) (fun c => csum (d * d) (fun e => csum (d * d) (fun a => csum (d * d) (fun b => f a b e c))))).
  { rewrite (csum_ext2 F (d * d) (d * d) _ (fun a b => csum (d * d) (fun c => csum (d * d) (fun e => f a b e c)))) by (intros; apply sumn_swap).
    rewrite (csum_rot3 F (d * d) (d * d) (d * d) (fun a b c => csum (d * d) (fun e => f a b e c))).
    apply csum_ext; intros c _. apply (csum_rot3 F (d * d) (d * d) (d * d) (fun a b e => f a b e c)). }
  apply csum_ext2; intros c e _ _.
  rewrite <- (op_of_cvec_of_op F d B' (B c) i1 j1 Hc I1 J1). rewrite <- (op_of_cvec_of_op F d B' (B e) i2 j2 Hc I2 J2).
  unfold op_of_cvec. rewrite cj_sum, sumn_mul, <- csum2_scale_l.
  apply csum_ext2; intros a b _ _. unfold f, umat, cvec_of_op. rewrite cj_mul. ring. Qed.
End QObjMaps.
