(* C08 -- lemma library for the translator tie (gen/c08_py2coq.py, coq/gen/C08_Equiv.v): facts about the Python / numpy vocabulary of
   Model/C08_NpSem.v that relate it to the list vocabulary of Model/C08_Forward.v (Python indexing and slices, np.split at cumulative
   sums, A @ var + b, dictionaries filled by nested loops, sorted stacking under the key map nat*nat -> Z*Z, block matrices).
   Compiled once with the static development; the per-run file coq/gen/C08_Equiv.v only instantiates these. Axiom-free. *)
From Coq Require Import ZArith Arith List Bool Lia.
From QV.Core Require Import OF Sums Mat.
From QV.Model Require Import QObj C08_Forward C08_NpSem.
From QV.Proofs Require Import C08_Forward.
Import ListNotations.

(* ------------------------------------------------------------------ Python indexing *)
Lemma znth_of_nat {A} (d : A) (l : list A) (i : nat) : znth d l (Z.of_nat i) = nth i l d.
Proof. unfold znth. assert ((Z.of_nat i <? 0)%Z = false) as -> by (apply Z.ltb_ge; lia). now rewrite Nat2Z.id. Qed.
Lemma znth_last1 {A} (d : A) (l : list A) : l <> [] -> znth d l (-1) = last l d.
Proof. intros H. unfold znth. change (-1 <? 0)%Z with true. cbv iota. change (Z.to_nat (- -1)) with 1%nat.
  destruct l as [|a l]; [congruence|]. clear H.
  replace (length (a :: l) - 1)%nat with (length l) by (cbn; lia).
  revert a. induction l as [|b l IH]; intros a; [reflexivity|]. change (nth (length l) (b :: l) d = last (b :: l) d). apply IH. Qed.
Lemma zlen_map {A B} (f : A -> B) l : zlen (map f l) = zlen l.
Proof. unfold zlen. now rewrite map_length. Qed.
Lemma zrange_of_nat n : zrange (Z.of_nat n) = map Z.of_nat (seq 0 n).
Proof. unfold zrange. now rewrite Nat2Z.id. Qed.
Lemma zenumerate_eq {A} (l : list A) : zenumerate l = map (fun p => (Z.of_nat (fst p), snd p)) (enumerate l).
Proof. unfold zenumerate, enumerate. generalize (seq 0 (length l)). intros s. revert l. induction s as [|i s IH]; intros l; [reflexivity|].
  destruct l as [|a l]; [reflexivity|]. cbn. now rewrite IH. Qed.

(* ------------------------------------------------------------------ slices *)
Lemma slice_bound_of_nat len i : slice_bound len (Z.of_nat i) = Nat.min i len.
Proof. unfold slice_bound. assert ((Z.of_nat i <? 0)%Z = false) as -> by (apply Z.ltb_ge; lia). now rewrite Nat2Z.id. Qed.
Lemma py_slice_to {A} (l : list A) k : py_slice l None (Some (Z.of_nat k)) = firstn k l.
Proof. unfold py_slice. rewrite slice_bound_of_nat, Nat.sub_0_r. cbn [skipn].
  destruct (Nat.le_ge_cases k (length l)) as [H|H].
  - now rewrite Nat.min_l.
  - rewrite Nat.min_r by exact H. now rewrite !firstn_all2 by lia. Qed.
Lemma py_slice_from {A} (l : list A) k : py_slice l (Some (Z.of_nat k)) None = skipn k l.
Proof. unfold py_slice. rewrite slice_bound_of_nat.
  destruct (Nat.le_ge_cases k (length l)) as [H|H].
  - rewrite Nat.min_l by exact H. apply firstn_all2. rewrite skipn_length. lia.
  - rewrite Nat.min_r by exact H. rewrite Nat.sub_diag. cbn. now rewrite skipn_all2 by lia. Qed.
Lemma py_slice_window {A} (l : list A) s c :
  py_slice l (Some (Z.of_nat s)) (Some (Z.of_nat s + Z.of_nat c)%Z) = firstn c (skipn s l).
Proof. unfold py_slice. rewrite <- Nat2Z.inj_add, !slice_bound_of_nat.
  destruct (Nat.le_ge_cases s (length l)) as [H|H].
  - rewrite (Nat.min_l s) by exact H. destruct (Nat.le_ge_cases (s + c) (length l)) as [H2|H2].
    + rewrite Nat.min_l by exact H2. f_equal. lia.
    + rewrite Nat.min_r by exact H2. rewrite !firstn_all2; [reflexivity| |]; rewrite skipn_length; lia.
  - rewrite (Nat.min_r s) by exact H. rewrite (skipn_all2 (n:=length l)) by lia. rewrite (skipn_all2 (n:=s)) by lia. now rewrite !firstn_nil. Qed.
Lemma py_slice_droplast {A} (l : list A) : py_slice l None (Some (-1)%Z) = removelast l.
Proof. unfold py_slice, slice_bound. change (-1 <? 0)%Z with true. cbv iota. change (Z.to_nat (- -1)) with 1%nat.
  rewrite Nat.sub_0_r. cbn [skipn].
  induction l as [|a l IH]; [reflexivity|]. destruct l as [|b l]; [reflexivity|].
  cbn [length] in *. replace (S (S (length l)) - 1)%nat with (S (S (length l) - 1)) by lia.
  cbn [firstn removelast]. f_equal. exact IH. Qed.

(* ------------------------------------------------------------------ cumulative sums, np.split *)
Section Split.
Context (F : OF).
Lemma cumsum_removelast : forall (counts : list nat) acc c,
  removelast (cumsum_from acc (map Z.of_nat (c :: counts))) =
  match counts with [] => [] | _ => (acc + Z.of_nat c)%Z :: removelast (cumsum_from (acc + Z.of_nat c)%Z (map Z.of_nat counts)) end.
Proof. intros counts acc c. destruct counts as [|c' t]; reflexivity. Qed.
Lemma np_split_counts : forall (counts : list nat) (v : list F) pos,
  split_at_from F pos (removelast (cumsum_from pos (map Z.of_nat counts))) v = split_np F counts v.
Proof. induction counts as [|c t IH]; intros v pos; [reflexivity|]. rewrite cumsum_removelast. destruct t as [|c' t'].
  - reflexivity.
  - change (split_np F (c :: c' :: t') v) with (firstn c v :: split_np F (c' :: t') (skipn c v)).
    cbn [split_at_from]. replace (Z.to_nat (pos + Z.of_nat c - pos)) with c by lia. f_equal. apply IH. Qed.
End Split.

(* ------------------------------------------------------------------ schedules as index lists *)
Definition enc_qst (i : nat) : list Z := [0%Z; Z.of_nat i].                   (* [("state", 0), ("povm", i)] *)
Definition enc_povmt (i : nat) : list Z := [Z.of_nat i; 0%Z].                 (* [("state", i), ("povm", 0)] *)
Definition enc3 (ik : nat * nat) : list Z := [Z.of_nat (fst ik); 0%Z; Z.of_nat (snd ik)].   (* [("state", i), (gate|mprocess, 0), ("povm", k)] *)

(* ------------------------------------------------------------------ dict keys: nat pairs (model) <-> Z pairs (generated) *)
Definition zk (k : nat * nat) : zkey := (Z.of_nat (fst k), Z.of_nat (snd k)).
Lemma of_nat_ltb a b : (Z.of_nat a <? Z.of_nat b)%Z = (a <? b)%nat.
Proof. destruct (Nat.ltb_spec a b), (Z.ltb_spec (Z.of_nat a) (Z.of_nat b)); try reflexivity; lia. Qed.
Lemma of_nat_eqb a b : (Z.of_nat a =? Z.of_nat b)%Z = (a =? b)%nat.
Proof. destruct (Nat.eqb_spec a b), (Z.eqb_spec (Z.of_nat a) (Z.of_nat b)); try reflexivity; lia. Qed.
Lemma of_nat_leb a b : (Z.of_nat a <=? Z.of_nat b)%Z = (a <=? b)%nat.
Proof. destruct (Nat.leb_spec a b), (Z.leb_spec (Z.of_nat a) (Z.of_nat b)); try reflexivity; lia. Qed.
Lemma zkey_leb_zk a b : zkey_leb (zk a) (zk b) = key_leb a b.
Proof. unfold zkey_leb, key_leb, zk. cbn [fst snd]. now rewrite of_nat_ltb, of_nat_eqb, of_nat_leb. Qed.
Section Dict.
Context (F : OF).
Context {T : Type} (g : coeff F -> T).
Definition d_of (d : dict F) : list (zkey * T) := map (fun e => (zk (fst e), g (snd e))) d.
Lemma zinsert_d_of e (l : dict F) : zinsert (zk (fst e), g (snd e)) (d_of l) = d_of (insert_entry F e l).
Proof. induction l as [|h t IH]; [reflexivity|]. cbn [d_of map zinsert insert_entry fst]. rewrite zkey_leb_zk.
  cbv delta [key coeff entry lvec dict] in *. destruct (key_leb (fst e) (fst h)); cbn [map]; [reflexivity|]. f_equal. exact IH. Qed.
Lemma sorted_d_of (d : dict F) : dict_sorted_items (d_of d) = d_of (sorted_items d).
Proof. induction d as [|e t IH]; [reflexivity|]. cbn [d_of map dict_sorted_items fold_right sorted_items].
  fold (d_of t). fold (dict_sorted_items (d_of t)). fold (sorted_items t). rewrite IH. apply zinsert_d_of. Qed.
End Dict.

(* ------------------------------------------------------------------ A @ var + b *)
Section Affine.
Context (F : OF).
Add Field FfNp : (k_field F).
Lemma ldot_dotl : forall (r v : list F), (length r <= length v)%nat -> ldot F r v = dotl r (vl v).
Proof. induction r as [|a r IH]; intros v H; [reflexivity|]. destruct v as [|x v]; [cbn in H; lia|].
  rewrite dotl_cons. cbn [ldot vmap2 fold_right]. fold (ldot F r v). rewrite IH by (cbn in H; lia). reflexivity. Qed.
Lemma vec_add_matvec : forall (A : list (lvec F)) (b var : list F), (forall r, In r A -> (length r <= length var)%nat) ->
  vec_add F (matvec F A var) b = affine A b (vl var).
Proof. induction A as [|r A IH]; intros b var H; [reflexivity|]. destruct b as [|c b]; [reflexivity|].
  cbn [matvec map vec_add vmap2 affine map2]. fold (matvec F A var). fold (vec_add F (matvec F A var) b). fold (affine A b (vl var)).
  rewrite IH by (intros; apply H; now right). now rewrite ldot_dotl by (apply H; now left). Qed.
End Affine.

(* ------------------------------------------------------------------ counts as a function j -> num_outcomes(j) *)
Definition counts_fn (counts : list nat) : Z -> Z := fun j => Z.of_nat (nth (Z.to_nat j) counts O).
Lemma map_nth_seq {A} (d : A) : forall (l : list A) s, map (fun i => nth (i - s) l d) (seq s (length l)) = l.
Proof. induction l as [|a l IH]; intros s; [reflexivity|]. cbn [length seq map]. rewrite Nat.sub_diag. cbn [nth]. f_equal.
  rewrite <- (IH (S s)) at 2. apply map_ext_in. intros i Hi. apply in_seq in Hi. replace (i - s)%nat with (S (i - S s)) by lia. reflexivity. Qed.
Lemma sizes_of_counts (counts : list nat) : map (counts_fn counts) (zrange (zlen counts)) = map Z.of_nat counts.
Proof. unfold zlen. rewrite zrange_of_nat, map_map. unfold counts_fn.
  transitivity (map Z.of_nat (map (fun i => nth (i - 0) counts O) (seq 0 (length counts)))).
  - rewrite map_map. apply map_ext. intros i. now rewrite Nat2Z.id, Nat.sub_0_r.
  - now rewrite map_nth_seq. Qed.
Lemma natsum_firstn_S : forall (l : list nat) j, natsum (firstn (S j) l) = (natsum (firstn j l) + nth j l O)%nat.
Proof. induction l as [|a l IH]; intros j; [destruct j; reflexivity|]. destruct j as [|j]; [cbn; lia|].
  change (firstn (S (S j)) (a :: l)) with (a :: firstn (S j) l). change (firstn (S j) (a :: l)) with (a :: firstn j l).
  cbn [natsum fold_right nth]. fold (natsum (firstn (S j) l)). fold (natsum (firstn j l)). rewrite IH. lia. Qed.
Lemma zsum_counts (counts : list nat) : forall j, zsum (map (counts_fn counts) (zrange (Z.of_nat j))) = Z.of_nat (offset counts j).
Proof. induction j as [|j IH]; [reflexivity|]. rewrite zrange_of_nat in *. rewrite seq_S, !map_app. cbn [Nat.add map].
  unfold zsum in *. rewrite fold_right_app. cbn [fold_right].
  assert (G : forall l a, fold_right Z.add a l = (fold_right Z.add 0 l + a)%Z).
  { induction l as [|x l IHl]; intros a; cbn [fold_right]; [lia|]. rewrite IHl. lia. }
  rewrite G, IH. unfold offset. rewrite natsum_firstn_S. unfold counts_fn. rewrite Nat2Z.id. lia. Qed.
Lemma in_firstn {A} (x : A) : forall n l, In x (firstn n l) -> In x l.
Proof. induction n as [|n IH]; intros l H; [destruct H|]. destruct l as [|a l]; [destruct H|]. destruct H as [H|H]; [now left|right; now apply IH]. Qed.
Lemma in_skipn {A} (x : A) : forall n l, In x (skipn n l) -> In x l.
Proof. induction n as [|n IH]; intros l H; [exact H|]. destruct l as [|a l]; [destruct H|]. right. now apply IH. Qed.

(* ------------------------------------------------------------------ loops *)
Lemma fold_left_ext {A B} (f g : A -> B -> A) : (forall a b, f a b = g a b) -> forall l i, fold_left f l i = fold_left g l i.
Proof. intros H l. induction l as [|x l IH]; intros i; cbn; [reflexivity|]. now rewrite H, IH. Qed.
Lemma fold_left_ext_in {A B} (f g : A -> B -> A) : forall l, (forall a b, In b l -> f a b = g a b) -> forall i, fold_left f l i = fold_left g l i.
Proof. induction l as [|x l IH]; intros H i; cbn; [reflexivity|]. rewrite H by (now left). apply IH. intros; apply H; now right. Qed.
(* a loop whose state is a pair updated componentwise *)
Lemma fold_left_pair {A B C} (f : A * B -> C -> A * B) (f0 : A -> C -> A) (f1 : B -> C -> B) :
  (forall a b c, f (a, b) c = (f0 a c, f1 b c)) -> forall l a b, fold_left f l (a, b) = (fold_left f0 l a, fold_left f1 l b).
Proof. intros H l. induction l as [|c l IH]; intros a b; cbn; [reflexivity|]. now rewrite H, IH. Qed.
Lemma fold_left_snoc {A C} (g : C -> A) : forall (l : list C) (acc : list A), fold_left (fun acc c => acc ++ [g c]) l acc = acc ++ map g l.
Proof. induction l as [|c l IH]; intros acc; cbn; [now rewrite app_nil_r|]. rewrite IH, <- app_assoc. reflexivity. Qed.

Section Fill.
Context {T : Type}.
Lemma zkey_eqb_false (a b : zkey) : a <> b -> zkey_eqb a b = false.
Proof. intros H. unfold zkey_eqb. destruct a as [a1 a2], b as [b1 b2]. cbn [fst snd].
  destruct (Z.eqb_spec a1 b1), (Z.eqb_spec a2 b2); try reflexivity. subst. congruence. Qed.
Lemma dict_set_fresh : forall (d : list (zkey * T)) k v, (forall e, In e d -> fst e <> k) -> dict_set d k v = d ++ [(k, v)].
Proof. induction d as [|[k' v'] d IH]; intros k v H; [reflexivity|]. cbn [dict_set app].
  rewrite zkey_eqb_false by (apply (H (k', v')); now left). f_equal. apply IH. intros e He. apply H. now right. Qed.
(* inner loop: d[(i, kx it)] = g it  for it in l, the second key components pairwise distinct and the row i new *)
Lemma inner_fill {C} (i : Z) (kx : C -> Z) (g : C -> T) : forall (l : list C) (d : list (zkey * T)),
  NoDup (map kx l) -> (forall e, In e d -> fst (fst e) <> i) ->
  fold_left (fun d it => dict_set d (i, kx it) (g it)) l d = d ++ map (fun it => ((i, kx it), g it)) l.
Proof. induction l as [|c l IH]; intros d Hnd Hd; cbn [fold_left map]; [now rewrite app_nil_r|].
  inversion Hnd as [|? ? Hnotin Hnd']; subst.
  assert (Hgen : forall l' (d' : list (zkey * T)), NoDup (map kx l') ->
            (forall e, In e d' -> fst (fst e) <> i \/ ~ In (snd (fst e)) (map kx l')) ->
            fold_left (fun d it => dict_set d (i, kx it) (g it)) l' d' = d' ++ map (fun it => ((i, kx it), g it)) l').
  { clear. induction l' as [|c l' IH']; intros d' Hnd Hd; cbn [fold_left map]; [now rewrite app_nil_r|].
    inversion Hnd as [|? ? Hnotin Hnd']; subst. rewrite dict_set_fresh.
    - rewrite IH'; [now rewrite <- app_assoc|exact Hnd'|]. intros e He. apply in_app_or in He. destruct He as [He|[<-|[]]].
      + destruct (Hd e He) as [H|H]; [now left|right]. intros Hin. apply H. now right.
      + right. exact Hnotin.
    - intros e He E. destruct (Hd e He) as [H|H]; [apply H; now rewrite E|apply H; rewrite E; now left]. }
  apply (Hgen (c :: l) d Hnd). intros e He. left. now apply Hd. Qed.
(* outer loop: every iteration appends a block whose keys all have first component ki it *)
Lemma outer_fill {C} (ki : C -> Z) (inner : list (zkey * T) -> C -> list (zkey * T)) (blk : C -> list (zkey * T)) :
  (forall d it, (forall e, In e d -> fst (fst e) <> ki it) -> inner d it = d ++ blk it) ->
  (forall it e, In e (blk it) -> fst (fst e) = ki it) ->
  forall (l : list C) d0, NoDup (map ki l) -> (forall e it, In e d0 -> In it l -> fst (fst e) <> ki it) ->
  fold_left inner l d0 = d0 ++ concat (map blk l).
Proof. intros Hin Hblk. induction l as [|c l IH]; intros d0 Hnd Hd; cbn [fold_left map concat]; [now rewrite app_nil_r|].
  inversion Hnd as [|? ? Hnotin Hnd']; subst. rewrite Hin by (intros e He; apply (Hd e c He); now left).
  rewrite IH; [now rewrite <- app_assoc|exact Hnd'|]. intros e it He Hit. apply in_app_or in He. destruct He as [He|He].
  - apply (Hd e it He). now right.
  - intros E. apply Hnotin. replace (ki c) with (ki it) by (rewrite <- E; apply Hblk; exact He). now apply in_map. Qed.
End Fill.
(* the same for a dict keyed by one int *)
Lemma dictz_set_fresh {T} : forall (d : list (Z * T)) k v, (forall e, In e d -> fst e <> k) -> dictz_set d k v = d ++ [(k, v)].
Proof. induction d as [|[k' v'] d IH]; intros k v H; [reflexivity|]. cbn [dictz_set app].
  assert ((k' =? k)%Z = false) as -> by (apply Z.eqb_neq; apply (H (k', v')); now left). f_equal. apply IH. intros e He. apply H. now right. Qed.
Lemma dictz_fill {T C} (ki : C -> Z) (g : C -> T) : forall (l : list C) (d : list (Z * T)),
  NoDup (map ki l) -> (forall e it, In e d -> In it l -> fst e <> ki it) ->
  fold_left (fun d it => dictz_set d (ki it) (g it)) l d = d ++ map (fun it => (ki it, g it)) l.
Proof. induction l as [|c l IH]; intros d Hnd Hd; cbn [fold_left map]; [now rewrite app_nil_r|].
  inversion Hnd as [|? ? Hnotin Hnd']; subst. rewrite dictz_set_fresh by (intros e He; apply (Hd e c He); now left).
  rewrite IH; [now rewrite <- app_assoc|exact Hnd'|]. intros e it He Hit. apply in_app_or in He. destruct He as [He|[<-|[]]].
  - apply (Hd e it He). now right.
  - cbn [fst]. intros E. apply Hnotin. rewrite E. now apply in_map. Qed.
Lemma dictz_get_map {T C} (dflt : T) (g : C -> T) (f : nat -> C) : forall n s j, (s <= j < s + n)%nat ->
  dictz_get dflt (map (fun i => (Z.of_nat i, g (f i))) (seq s n)) (Z.of_nat j) = g (f j).
Proof. induction n as [|n IH]; intros s j H; [lia|]. cbn [seq map dictz_get]. rewrite of_nat_eqb.
  destruct (Nat.eqb_spec s j) as [->|Hne]; [reflexivity|]. apply IH. lia. Qed.

(* enumerate *)
Lemma nodup_of_nat_seq s n : NoDup (map Z.of_nat (seq s n)).
Proof. revert s. induction n as [|n IH]; intros s; cbn; constructor; [|apply IH].
  intros H. apply in_map_iff in H. destruct H as [x [E Hx]]. apply in_seq in Hx. lia. Qed.
Lemma map_fst_combine {X Y} : forall (a : list X) (b : list Y), length a = length b -> map fst (combine a b) = a.
Proof. induction a as [|x a IH]; intros b H; [reflexivity|]. destruct b as [|y b]; [discriminate|]. cbn. f_equal. apply IH. cbn in H. lia. Qed.
Lemma map_fst_zenumerate {A} (l : list A) : map fst (zenumerate l) = map Z.of_nat (seq 0 (length l)).
Proof. unfold zenumerate. apply map_fst_combine. now rewrite map_length, seq_length. Qed.
Lemma nodup_zenumerate {A} (l : list A) : NoDup (map fst (zenumerate l)).
Proof. rewrite map_fst_zenumerate. apply nodup_of_nat_seq. Qed.
Lemma enumerate_map {A B} (f : A -> B) (l : list A) : enumerate (map f l) = map (fun p => (fst p, f (snd p))) (enumerate l).
Proof. unfold enumerate. rewrite map_length. generalize (seq 0 (length l)) as s. intros s. revert l.
  induction s as [|i s IH]; intros l; [reflexivity|]. destruct l as [|a l]; [reflexivity|]. cbn. now rewrite IH. Qed.
(* for it in l: for x in items(it): d[(ki it, kx x)] = g it x     starting from the empty dict *)
Lemma nested_fill {T C B} (ki : C -> Z) (items : C -> list B) (kx : B -> Z) (g : C -> B -> T) (l : list C) :
  NoDup (map ki l) -> (forall it, NoDup (map kx (items it))) ->
  fold_left (fun d it => fold_left (fun d x => dict_set d (ki it, kx x) (g it x)) (items it) d) l []
  = concat (map (fun it => map (fun x => ((ki it, kx x), g it x)) (items it)) l).
Proof. intros Hnd Hit.
  rewrite (outer_fill ki _ (fun it => map (fun x => ((ki it, kx x), g it x)) (items it))); [reflexivity| | |exact Hnd|intros e it []].
  - intros d it Hd. apply inner_fill; [apply Hit|exact Hd].
  - intros it e He. apply in_map_iff in He. destruct He as [x [<- _]]. reflexivity. Qed.
Lemma concat_map_enumerate_build {T} (F : OF) (g : coeff F -> T) (ps : list (list (coeff F))) :
  d_of F g (build_dict ps)
  = concat (map (fun jr => map (fun xr => ((Z.of_nat (fst jr), Z.of_nat (fst xr)), g (snd xr))) (enumerate (snd jr))) (enumerate ps)).
Proof. unfold d_of, build_dict. rewrite flat_map_concat_map, concat_map, map_map. f_equal. apply map_ext. intros jr.
  rewrite map_map. reflexivity. Qed.
Lemma nth0_hd {A} (d : A) (l : list A) : nth O l d = hd d l. Proof. now destruct l. Qed.
Lemma skipn1_tl {A} (l : list A) : skipn 1 l = tl l. Proof. now destruct l. Qed.
Lemma fold_left_triple {A B C X} (f : A * B * C -> X -> A * B * C) (f0 : A -> X -> A) (f1 : B -> X -> B) (f2 : C -> X -> C) :
  (forall a b c x, f (a, b, c) x = (f0 a x, f1 b x, f2 c x)) ->
  forall l a b c, fold_left f l (a, b, c) = (fold_left f0 l a, fold_left f1 l b, fold_left f2 l c).
Proof. intros H l. induction l as [|x l IH]; intros a b c; cbn; [reflexivity|]. now rewrite H, IH. Qed.
Lemma np_outer_flat (F : OF) (p s : list F) : np_flatten F (np_outer F p s) = outer_flat F p s.
Proof. unfold np_flatten, np_outer, outer_flat. now rewrite flat_map_concat_map. Qed.
Lemma hstack1_snoc (F : OF) (l : list (list F)) (p : list F) : np_hstack1 F (l ++ [p]) = np_hstack1 F l ++ p.
Proof. unfold np_hstack1. rewrite concat_app. cbn. now rewrite app_nil_r. Qed.
Lemma hstack1_cond (F : OF) (l : list (list F)) (p : list F) :
  np_hstack1 F (if negb (zlen p =? 0)%Z then l ++ [p] else l) = np_hstack1 F l ++ p.
Proof. destruct p as [|a p]; [cbn; now rewrite app_nil_r|].
  assert ((zlen (a :: p) =? 0)%Z = false) as -> by (apply Z.eqb_neq; unfold zlen; cbn [length]; lia). cbn [negb]. apply hstack1_snoc. Qed.
Lemma flat_zeros_row (F : OF) (k : nat) : np_flatten F (np_zeros2 F 1 (Z.of_nat k)) = zeros (F:=F) k.
Proof. unfold np_flatten, np_zeros2, zeros. rewrite Nat2Z.id. change (Z.to_nat 1) with 1%nat. cbn. now rewrite app_nil_r. Qed.
Lemma vmap2_map2 (F : OF) (f : F -> F -> F) : forall a b, vmap2 F f a b = map2 f a b.
Proof. induction a as [|x a IH]; intros b; [reflexivity|]. destruct b as [|y b]; [reflexivity|]. cbn. now rewrite IH. Qed.
Lemma combine_diag {A} (l : list A) : combine l l = map (fun x => (x, x)) l.
Proof. induction l as [|a l IH]; [reflexivity|]. cbn. now rewrite IH. Qed.
Lemma enumerate_seq0 m : enumerate (seq 0 m) = map (fun x => (x, x)) (seq 0 m).
Proof. unfold enumerate. rewrite seq_length. apply combine_diag. Qed.

(* ------------------------------------------------------------------ block matrices (cqpt_to_cqmpt) *)
Section Blocks.
Context (F : OF).
Notation zeros := (zeros (F:=F)).
Lemma list_repeat_single {A} (x : A) (z : Z) : list_repeat [x] z = repeat x (Z.to_nat z).
Proof. unfold list_repeat. induction (Z.to_nat z) as [|k IH]; [reflexivity|]. cbn. now rewrite IH. Qed.
Lemma shape1_width (c : list (list F)) : Z.to_nat (shape1 F c) = row_width F c.
Proof. destruct c as [|r c]; [reflexivity|]. unfold shape1, zlen. cbn [row_width]. apply Nat2Z.id. Qed.
Lemma widths_repeat (c : list (list F)) k : widths F (repeat c k) = (k * row_width F c)%nat.
Proof. induction k as [|k IH]; [reflexivity|]. cbn [repeat widths fold_right]. fold (widths F (repeat c k)). rewrite IH, shape1_width. reflexivity. Qed.
Lemma block_diag_from_repeat (c : list (list F)) k : forall j p, (p + j = k)%nat ->
  block_diag_from F (p * row_width F c) (k * row_width F c) (repeat c j)
  = flat_map (fun x => map (fun r => zeros (x * row_width F c) ++ r ++ zeros ((k - 1 - x) * row_width F c)) c) (seq p j).
Proof. set (w := row_width F c). induction j as [|j IH]; intros p H; [reflexivity|]. cbn [repeat block_diag_from seq flat_map].
  rewrite shape1_width. fold w. f_equal.
  - apply map_ext. intros r. unfold C08_Forward.zeros. do 3 f_equal. rewrite !Nat.mul_sub_distr_r, Nat.mul_1_l. lia.
  - replace (p * w + w)%nat with (S p * w)%nat by (cbn; lia). apply IH. lia. Qed.
Lemma sp_block_diag_repeat (c : list (list F)) k : sp_block_diag F (repeat c k) = block_diag F k c.
Proof. destruct k as [|k]; [reflexivity|]. unfold sp_block_diag, block_diag. cbn [repeat]. fold (repeat c (S k)).
  change (c :: repeat c k) with (repeat c (S k)). rewrite widths_repeat. exact (block_diag_from_repeat c (S k) (S k) O eq_refl). Qed.
Lemma rows_app_zeros (a : list (list F)) z : rows_app F a (repeat (repeat (c0 F) z) (length a)) = map (fun r => r ++ zeros z) a.
Proof. induction a as [|r a IH]; [reflexivity|]. cbn [length repeat rows_app map]. now rewrite IH. Qed.
Lemma hstack2_zeros (a : list (list F)) (z : Z) : np_hstack2 F [a; np_zeros2 F (shape0 F a) z] = map (fun r => r ++ zeros (Z.to_nat z)) a.
Proof. unfold np_hstack2, np_zeros2, shape0, zlen. cbn [fold_left]. rewrite Nat2Z.id. apply rows_app_zeros. Qed.
Lemma tile_snoc (l : list F) i : tile l i ++ l = tile l (S i).
Proof. unfold tile. induction i as [|i IH]; [cbn; now rewrite app_nil_r|]. cbn [repeat concat] in *. now rewrite <- app_assoc, IH. Qed.
Lemma rows_app_map2 (X E : list (list F)) : rows_app F X E = map2 (@app F) X E.
Proof. revert E. induction X as [|x X IH]; intros E; [reflexivity|]. destruct E as [|e E]; [reflexivity|]. cbn. now rewrite IH. Qed.
Lemma rows_app_self (g : list F -> list F) (D : list (list F)) : rows_app F (map g D) D = map (fun dd => g dd ++ dd) D.
Proof. induction D as [|dd D IH]; [reflexivity|]. cbn. now rewrite IH. Qed.
Lemma hstack2_tiles (D E : list (list F)) : forall j i,
  fold_left (rows_app F) (repeat D j ++ [E]) (map (fun dd => tile dd i) D) = map2 (fun dd e => tile dd (i + j) ++ e) D E.
Proof. induction j as [|j IH]; intros i.
  - cbn [repeat app fold_left]. rewrite rows_app_map2, Nat.add_0_r. revert E. induction D as [|dd D IHD]; intros E; [reflexivity|].
    destruct E as [|e E]; [reflexivity|]. cbn. now rewrite IHD.
  - cbn [repeat app fold_left]. rewrite rows_app_self.
    rewrite (map_ext (fun dd : list F => tile dd i ++ dd) (fun dd => tile dd (S i)) (fun dd => tile_snoc dd i) D).
    rewrite IH. replace (i + S j)%nat with (S i + j)%nat by lia. reflexivity. Qed.
End Blocks.

(* ------------------------------------------------------------------ QMPT glue *)
Lemma enumerate_seq_nth {A} (d : A) (l : list A) : enumerate l = map (fun i => (i, nth i l d)) (seq 0 (length l)).
Proof. unfold enumerate. rewrite <- (map_nth_seq d l O) at 2. rewrite <- (map_id (seq 0 (length l))) at 1.
  generalize (seq 0 (length l)) as s. intros s. induction s as [|i s IH]; [reflexivity|]. cbn [map combine]. rewrite Nat.sub_0_r. f_equal. exact IH. Qed.
Lemma all_some_map {A B} (f : A -> option (list B)) : forall (l : list A) ps, all_some (map f l) = Some ps -> map f l = map Some ps.
Proof. induction l as [|x l IH]; intros ps H; cbn in H.
  - injection H as <-. reflexivity.
  - destruct (f x) as [r|] eqn:E; [|discriminate]. destruct (all_some (map f l)) as [rs|] eqn:E2; [|discriminate]. injection H as <-.
    cbn [map]. rewrite E. f_equal. now apply IH. Qed.
Lemma enumerate_combine_from {A B} (d : B) : forall (X : list A) (Y : list B) s, (length X <= length Y)%nat ->
  combine (seq s (length (combine X Y))) (combine X Y) = map (fun p => (fst p, (snd p, nth (fst p - s) Y d))) (combine (seq s (length X)) X).
Proof. induction X as [|x X IH]; intros Y s H; [reflexivity|]. destruct Y as [|y Y]; [cbn in H; lia|].
  cbn [combine length seq map fst snd]. rewrite Nat.sub_diag. cbn [nth]. f_equal. rewrite IH by (cbn in H; lia).
  apply map_ext_in. intros [i a] Hi. apply in_combine_l in Hi. apply in_seq in Hi. cbn [fst snd].
  replace (i - s)%nat with (S (i - S s)) by lia. reflexivity. Qed.
Lemma enumerate_combine {A B} (d : B) (X : list A) (Y : list B) : (length X <= length Y)%nat ->
  enumerate (combine X Y) = map (fun p => (fst p, (snd p, nth (fst p) Y d))) (enumerate X).
Proof. intros H. unfold enumerate. rewrite (enumerate_combine_from d X Y O H). apply map_ext. intros [i a]. cbn [fst snd]. now rewrite Nat.sub_0_r. Qed.

(* ------------------------------------------------------------------ Experiment.calc_prob_dist: appendleft reverses; the rank guard *)
Lemma fold_left_cons_rev {A C} (g : C -> A) : forall (l : list C) (acc : list A), fold_left (fun acc c => g c :: acc) l acc = rev (map g l) ++ acc.
Proof. induction l as [|c l IH]; intros acc; cbn [fold_left map rev]; [reflexivity|]. rewrite IH, <- app_assoc. reflexivity. Qed.
Lemma shape1_of_nat (F : OF) (A : list (list F)) : shape1 F A = Z.of_nat (row_width F A).
Proof. destruct A as [|r A]; reflexivity. Qed.
