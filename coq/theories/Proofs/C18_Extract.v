(* C18 — extraction of the Hamiltonian / anti-commutator / dissipator matrices from a generator and rebuilding:
   for an orthonormal Hermitian basis with B_0 = I/sd, sd*sd = d, and L = lcb_hjk (sum h_a B_a) (sum j_a B_a) K :
     calc_h_mat L = H minus its identity component,  calc_k_mat L = K,  calc_j_mat L = J  (calc_j_mat as repaired by
     fixes/c18-calc-j-mat-identity-component.diff),
     calc_j_mat_prefix (AS CODED BEFORE THAT FIX) drops the identity component of J and halves the B_1 component,
     rebuild = identity,  h + j + k parts = whole.
   Generic in the ordered field; axiom-free. *)
From Coq Require Import Field Ring Setoid Arith Lia Bool List.
From QV.Core Require Import OF Sums Mat Cplx.
From QV.Model Require Import QObj C18_Lindblad.
From QV.Proofs Require Import C18_Algebra C18_Misc.
Import ListNotations.

Section Extract.
Context (F : OF).
Add Field Ffe : (k_field F).
Notation Cx := (CF F).
Add Ring Cre : (c_ring Cx).
Notation cmat := (cmat F).
Notation rvec := (rvec F).
Notation "x +c y" := (cadd Cx x y) (at level 50, left associativity).
Notation "x *c y" := (cmul Cx x y) (at level 40, left associativity).
Notation "x -c y" := (csub Cx x y) (at level 50, left associativity).
Notation "0c" := (c0 Cx).
Notation "1c" := (c1 Cx).
Notation cI := (cI F).
Notation mi := (mi F).
Notation two := (two F).

Variable d : nat.
Hypothesis Hd : (0 < d)%nat.
Variable B : nat -> cmat.
Variable sd : F.
Hypothesis Horth : basis_orthonormal d B.
Hypothesis Hherm : basis_hermitian d B.
Hypothesis H0 : basis_0th_identity d sd B.
Hypothesis Hsd : cmul F sd sd = ofnat d.
Notation n := (d * d)%nat.
Notation m := (d * d - 1)%nat.

Definition dl (a b : nat) : Cx := if Nat.eqb a b then 1c else 0c.
Definition dF (a : nat) : F := if Nat.eqb a 0 then c1 F else c0 F.
Lemma dl_0 a : dl a 0 = zof (dF a). Proof. unfold dl, dF. now destruct (Nat.eqb a 0). Qed.
Lemma dl_S a b : dl (S a) (S b) = dl a b. Proof. reflexivity. Qed.
Lemma dl_S0 a : dl (S a) 0 = 0c. Proof. reflexivity. Qed.
Lemma Hn : (0 < n)%nat. Proof. nia. Qed.
Lemma S_lt a : (a < m)%nat -> (S a < n)%nat. Proof. lia. Qed.

(* ---------------------------------------------------------------- the trace table of the basis *)
Lemma trBB a b : (a < n)%nat -> (b < n)%nat -> trp d (B a) (B b) = dl a b.
Proof. intros Ha Hb. unfold dl. rewrite <- (Horth a b Ha Hb). unfold trp, mtrace, mmul, hs_inner.
  rewrite sumn_swap. apply (@sumn_ext Cx); intros l Hl. apply (@sumn_ext Cx); intros i Hi.
  rewrite (Hherm a Ha i l Hi Hl). reflexivity. Qed.
Lemma trB a : (a < n)%nat -> mtrace d (B a) = zof sd *c dl a 0.
Proof. intros Ha. assert (E : zof sd *c hs_inner d (B 0%nat) (B a) = mtrace d (B a)).
  { unfold hs_inner, mtrace. rewrite <- sumn_scale_l. apply (@sumn_ext Cx); intros i Hi.
    rewrite <- sumn_scale_l.
    rewrite (sumn_ext d _ (fun j => if Nat.eqb j i then B a i j else 0c)).
    2:{ intros j Hj. replace (zof sd *c (zconj (B 0%nat i j) *c B a i j)) with (zconj (zof sd *c B 0%nat i j) *c B a i j)
          by (rewrite cj_mul, cj_zof; ring).
        rewrite (H0 i j Hi Hj). rewrite (Nat.eqb_sym j i). destruct (Nat.eqb i j); [rewrite cj_1|rewrite cj_0]; ring. }
    now apply sumn_delta. }
  rewrite <- E, (Horth 0%nat a Hn Ha). unfold dl. now rewrite (Nat.eqb_sym a 0). Qed.
Lemma trBc a : (a < n)%nat -> mtrace d (cconj (B a)) = zof sd *c dl a 0.
Proof. intros Ha. rewrite mtrace_cconj, trB by exact Ha. rewrite cj_mul, cj_zof. f_equal.
  unfold dl. destruct (Nat.eqb a 0); [apply cj_1|apply cj_0]. Qed.
Lemma trBBc a b : (a < n)%nat -> (b < n)%nat -> trp d (cconj (B a)) (cconj (B b)) = dl a b.
Proof. intros Ha Hb. rewrite trp_cconj, trBB by assumption. unfold dl. destruct (Nat.eqb a b); [apply cj_1|apply cj_0]. Qed.
Lemma trB_S a : (a < m)%nat -> mtrace d (B (S a)) = 0c.
Proof. intros Ha. rewrite trB by now apply S_lt. rewrite dl_S0. ring. Qed.
Lemma trBc_S a : (a < m)%nat -> mtrace d (cconj (B (S a))) = 0c.
Proof. intros Ha. rewrite trBc by now apply S_lt. rewrite dl_S0. ring. Qed.

Lemma sd_neq0 : sd <> c0 F.
Proof. intros E. apply (ofnat_S_neq0 F (d - 1)). replace (S (d - 1)) with d by lia. rewrite <- Hsd, E. ring. Qed.
Lemma two_neq0 : two <> c0 F.
Proof. unfold C18_Lindblad.two. intros E. apply (double_neq0 F) in E; [exact E|apply one_neq_zero]. Qed.
Lemma d_neq0 : @ofnat F d <> c0 F.
Proof. replace d with (S (d - 1)) by lia. apply ofnat_S_neq0. Qed.
Lemma two_neq0u : cadd F (c1 F) (c1 F) <> c0 F. Proof. exact two_neq0. Qed.
Ltac fld := apply cplx_eq; cbn; unfold C18_Lindblad.two; field; repeat split; first [apply d_neq0|apply two_neq0u].

(* ---------------------------------------------------------------- pairings of Kronecker products *)
Notation D := (zof (@ofnat F d) : Cx).
Lemma trp_II : trp d cI cI = D. Proof. rewrite trp_mid_r. apply mtrace_mid. Qed.
Lemma pair_XI_YI (X Y : cmat) : tr2 d (kron d d X cI) (kron d d Y cI) = trp d X Y *c D.
Proof. rewrite tr2_kron by exact Hd. now rewrite trp_II. Qed.
Lemma pair_XI_IY (X Y : cmat) : tr2 d (kron d d X cI) (kron d d cI Y) = mtrace d X *c mtrace d Y.
Proof. rewrite tr2_kron by exact Hd. now rewrite trp_mid_r, trp_mid_l. Qed.
Lemma pair_IX_YI (X Y : cmat) : tr2 d (kron d d cI X) (kron d d Y cI) = mtrace d Y *c mtrace d X.
Proof. rewrite tr2_kron by exact Hd. now rewrite trp_mid_r, trp_mid_l. Qed.
Lemma pair_IX_IY (X Y : cmat) : tr2 d (kron d d cI X) (kron d d cI Y) = D *c trp d X Y.
Proof. rewrite tr2_kron by exact Hd. now rewrite trp_II. Qed.
Lemma pair_XI_YZ (X Y Z : cmat) : tr2 d (kron d d X cI) (kron d d Y Z) = trp d X Y *c mtrace d Z.
Proof. rewrite tr2_kron by exact Hd. now rewrite trp_mid_l. Qed.
Lemma pair_IX_YZ (X Y Z : cmat) : tr2 d (kron d d cI X) (kron d d Y Z) = mtrace d Y *c trp d X Z.
Proof. rewrite tr2_kron by exact Hd. now rewrite trp_mid_l. Qed.
Lemma pair_AA_YI (A A' Y : cmat) : tr2 d (kron d d A A') (kron d d Y cI) = trp d A Y *c mtrace d A'.
Proof. rewrite tr2_kron by exact Hd. now rewrite trp_mid_r. Qed.
Lemma pair_AA_IY (A A' Y : cmat) : tr2 d (kron d d A A') (kron d d cI Y) = mtrace d A *c trp d A' Y.
Proof. rewrite tr2_kron by exact Hd. now rewrite trp_mid_r. Qed.

(* ---------------------------------------------------------------- operators given by real coefficient vectors *)
Lemma opv_trp (xv : rvec) a : (a < n)%nat -> trp d (op_of_vec d B xv) (B a) = zof (xv a).
Proof. intros Ha. unfold op_of_vec. rewrite (trp_sum_l F d n B (fun c => zof (xv c) : Cx) (B a)).
  rewrite (sumn_ext n _ (fun c => if Nat.eqb c a then (zof (xv c) : Cx) else 0c)).
  2:{ intros c Hc. rewrite trBB by assumption. unfold dl. destruct (Nat.eqb c a); ring. }
  exact (sumn_delta n a (fun c => zof (xv c) : Cx) Ha). Qed.
Lemma opv_tr (xv : rvec) : mtrace d (op_of_vec d B xv) = zof (xv 0%nat) *c zof sd.
Proof. rewrite <- trp_mid_r. unfold op_of_vec. rewrite (trp_sum_l F d n B (fun c => zof (xv c) : Cx) mid).
  rewrite (sumn_ext n _ (fun c => if Nat.eqb c 0 then (zof (xv c) : Cx) *c zof sd else 0c)).
  2:{ intros c Hc. rewrite trp_mid_r, trB by exact Hc. unfold dl. destruct (Nat.eqb c 0); ring. }
  exact (sumn_delta n 0%nat (fun c => (zof (xv c) : Cx) *c zof sd) Hn). Qed.
Lemma opv_trp_c (xv : rvec) a : (a < n)%nat -> trp d (cconj (op_of_vec d B xv)) (cconj (B a)) = zof (xv a).
Proof. intros Ha. rewrite trp_cconj, opv_trp by exact Ha. apply cj_zof. Qed.
Lemma opv_tr_c (xv : rvec) : mtrace d (cconj (op_of_vec d B xv)) = zof (xv 0%nat) *c zof sd.
Proof. rewrite mtrace_cconj, opv_tr. now rewrite cj_mul, !cj_zof. Qed.

(* ---------------------------------------------------------------- the 3 x 3 table  tr (part . probe) *)
Lemma SS : (zof sd : Cx) *c zof sd = D. Proof. rewrite <- zof_mul. now rewrite Hsd. Qed.

(* probe_m : B_a (x) I - I (x) conj B_a *)
Lemma hm (xv : rvec) a : (a < n)%nat ->
  tr2 d (h_part d (op_of_vec d B xv)) (probe_m d (B a))
  = mi *c zof (cmul F two (csub F (cmul F (ofnat d) (xv a)) (cmul F (cmul F (ofnat d) (xv 0%nat)) (dF a)))).
Proof. intros Ha. unfold h_part, probe_m.
  rewrite tr2_mscale_l, tr2_msub_l, !tr2_msub_r, pair_XI_YI, pair_XI_IY, pair_IX_YI, pair_IX_IY.
  rewrite opv_trp, opv_trp_c, opv_tr, opv_tr_c, trB, trBc, dl_0 by exact Ha.
  f_equal. apply cplx_eq; cbn; rewrite <- ?Hsd; unfold C18_Lindblad.two; ring. Qed.
Lemma jm (xv : rvec) a : (a < n)%nat -> tr2 d (j_part d (op_of_vec d B xv)) (probe_m d (B a)) = 0c.
Proof. intros Ha. unfold j_part, probe_m.
  rewrite tr2_madd_l, !tr2_msub_r, pair_XI_YI, pair_XI_IY, pair_IX_YI, pair_IX_IY.
  rewrite opv_trp, opv_trp_c, opv_tr, opv_tr_c, trB, trBc by exact Ha. ring. Qed.
Lemma km (K : cmat) a : (a < n)%nat -> tr2 d (k_part d B K) (probe_m d (B a)) = 0c.
Proof. intros Ha. unfold k_part. rewrite (tr2_sum2_l F d m K (fun c e => bbc d B (S c) (S e))).
  apply sumn2_zero. intros c e Hc He. unfold bbc, probe_m. rewrite tr2_msub_r, pair_AA_YI, pair_AA_IY.
  rewrite trBc_S, trB_S by assumption. ring. Qed.
(* probe_p : B_a (x) I + I (x) conj B_a *)
Lemma hp (xv : rvec) a : (a < n)%nat -> tr2 d (h_part d (op_of_vec d B xv)) (probe_p d (B a)) = 0c.
Proof. intros Ha. unfold h_part, probe_p.
  rewrite tr2_mscale_l, tr2_msub_l, !tr2_madd_r, pair_XI_YI, pair_XI_IY, pair_IX_YI, pair_IX_IY.
  rewrite opv_trp, opv_trp_c, opv_tr, opv_tr_c, trB, trBc by exact Ha. ring. Qed.
Lemma jp (xv : rvec) a : (a < n)%nat ->
  tr2 d (j_part d (op_of_vec d B xv)) (probe_p d (B a))
  = zof (cmul F two (cadd F (cmul F (ofnat d) (xv a)) (cmul F (cmul F (ofnat d) (xv 0%nat)) (dF a)))).
Proof. intros Ha. unfold j_part, probe_p.
  rewrite tr2_madd_l, !tr2_madd_r, pair_XI_YI, pair_XI_IY, pair_IX_YI, pair_IX_IY.
  rewrite opv_trp, opv_trp_c, opv_tr, opv_tr_c, trB, trBc, dl_0 by exact Ha.
  apply cplx_eq; cbn; rewrite <- ?Hsd; unfold C18_Lindblad.two; ring. Qed.
Lemma kp (K : cmat) a : (a < n)%nat -> tr2 d (k_part d B K) (probe_p d (B a)) = 0c.
Proof. intros Ha. unfold k_part. rewrite (tr2_sum2_l F d m K (fun c e => bbc d B (S c) (S e))).
  apply sumn2_zero. intros c e Hc He. unfold bbc, probe_p. rewrite tr2_madd_r, pair_AA_YI, pair_AA_IY.
  rewrite trBc_S, trB_S by assumption. ring. Qed.
(* B_a (x) conj B_b, a, b >= 1 *)
Lemma hk (X : cmat) a b : (a < m)%nat -> (b < m)%nat -> tr2 d (h_part d X) (bbc d B (S a) (S b)) = 0c.
Proof. intros Ha Hb. unfold h_part, bbc. rewrite tr2_mscale_l, tr2_msub_l, pair_XI_YZ, pair_IX_YZ.
  rewrite trBc_S, trB_S by assumption. ring. Qed.
Lemma jk (X : cmat) a b : (a < m)%nat -> (b < m)%nat -> tr2 d (j_part d X) (bbc d B (S a) (S b)) = 0c.
Proof. intros Ha Hb. unfold j_part, bbc. rewrite tr2_madd_l, pair_XI_YZ, pair_IX_YZ.
  rewrite trBc_S, trB_S by assumption. ring. Qed.
Lemma kk (K : cmat) a b : (a < m)%nat -> (b < m)%nat -> tr2 d (k_part d B K) (bbc d B (S a) (S b)) = K a b.
Proof. intros Ha Hb. unfold k_part. rewrite (tr2_sum2_l F d m K (fun c e => bbc d B (S c) (S e))).
  rewrite (sumn_ext m _ (fun c => if Nat.eqb c a then K c b else 0c)).
  2:{ intros c Hc.
      rewrite (sumn_ext m _ (fun e => if Nat.eqb e b then (if Nat.eqb c a then K c e else 0c) else 0c)).
      2:{ intros e He. unfold bbc. rewrite tr2_kron by exact Hd.
          rewrite trBB, trBBc by now apply S_lt. rewrite !dl_S. unfold dl.
          destruct (Nat.eqb c a), (Nat.eqb e b); ring. }
      exact (sumn_delta m b (fun e => if Nat.eqb c a then K c e else 0c) Hb). }
  exact (sumn_delta m a (fun c => K c b) Ha). Qed.

(* ---------------------------------------------------------------- the extraction theorems *)
Section Gen.
Variables (hv jv : rvec) (K : cmat).
Let L : cmat := lcb_hjk d B (op_of_vec d B hv) (op_of_vec d B jv) K.

Lemma tr2_L (P : cmat) : tr2 d L P = tr2 d (h_part d (op_of_vec d B hv)) P +c tr2 d (j_part d (op_of_vec d B jv)) P +c tr2 d (k_part d B K) P.
Proof. unfold L, lcb_hjk. now rewrite !tr2_madd_l. Qed.

Lemma h_coef_L a : (a < n)%nat -> h_coef d B L a = zof (csub F (hv a) (cmul F (hv 0%nat) (dF a))).
Proof. intros Ha. unfold h_coef. rewrite tr2_L, hm, jm, km by exact Ha.
  fld. Qed.
Lemma j_coef_L a : (a < n)%nat -> j_coef d B L a = zof (jv a).
Proof. intros Ha. unfold j_coef. rewrite tr2_L, hp, jp, kp by exact Ha. unfold jden, dF.
  destruct (Nat.eqb_spec a 0) as [->|Hne]; fld. Qed.
Lemma j_coef_prefix_L a : (a < m)%nat ->
  j_coef_prefix d B L a = zof (cmul F (jv (S a)) (if Nat.eqb a 0 then half F else c1 F)).
Proof. intros Ha. unfold j_coef_prefix. rewrite tr2_L, hp, jp, kp by now apply S_lt. unfold jden, dF, half. cbn [Nat.eqb].
  destruct (Nat.eqb a 0); fld. Qed.

Theorem extract_h : meq d d (calc_h_mat d B L) (op_of_vec d B (fun a => csub F (hv a) (cmul F (hv 0%nat) (dF a)))).
Proof. intros i j Hi Hj. unfold calc_h_mat, op_of_vec. apply (@sumn_ext Cx); intros a Ha. now rewrite h_coef_L. Qed.
Theorem extract_j : meq d d (calc_j_mat d B L) (op_of_vec d B jv).
Proof. intros i j Hi Hj. unfold calc_j_mat, op_of_vec. apply (@sumn_ext Cx); intros a Ha. now rewrite j_coef_L. Qed.
Theorem extract_k : meq m m (calc_k_mat d B L) K.
Proof. intros a b Ha Hb. unfold calc_k_mat. rewrite tr2_L, hk, jk, kk by assumption. ring. Qed.
(* what the routine AS CODED BEFORE FIX c18-calc-j-mat-identity-component returns: the identity component is gone, the B_1
   component halved *)
Theorem extract_j_prefix i j :
  calc_j_mat_prefix d B L i j
  = sumn m (fun a => zof (cmul F (jv (S a)) (if Nat.eqb a 0 then half F else c1 F)) *c B (S a) i j).
Proof. unfold calc_j_mat_prefix. apply (@sumn_ext Cx); intros a Ha. now rewrite j_coef_prefix_L. Qed.
End Gen.
End Extract.
