(* C03 — what calc_gradient leaves out.  Under the equality constraint the map  var |-> stacked vector  of a
   Povm is affine; moving variable i by t moves entry i by t AND the implied (last) element by -t at the
   same coefficient position.  calc_gradient returns only the first (one-hot) part. *)
From Coq Require Import ZArith Bool List Arith Lia.
From QV.Core Require Import OF Sums.
From QV.Model Require Import C03_Index C03_VarObj.
From QV.Proofs Require Import C03_Lists C03_VarObj.
Import ListNotations.

Section Deriv.
Context (F : OF).
Add Field Ff3 : (k_field F).
Notation "0" := (c0 F). Notation "1" := (c1 F).
Local Notation "x -f y" := (csub F x y) (at level 50, left associativity).
Local Notation "x +f y" := (cadd F x y) (at level 50, left associativity).
Implicit Types (d q n i c x pos : nat) (t sd : F) (var : list F).

(* var' = var + t * (i-th unit vector) *)
Definition bumped var var' i t : Prop :=
  length var' = length var /\ forall k, nth k var' 0 = nth k var 0 +f (if Nat.eqb k i then t else 0).

Lemma nth_chunk n k (l : list F) x c : length l = (k * n)%nat -> (c < n)%nat ->
  nth c (nth x (chunk n k l) []) 0 = nth (x * n + c) l 0.
Proof. intros H Hc. rewrite <- (concat_chunk n k l H) at 2. symmetry.
  apply nth_concat_uniform; [now apply chunk_uniform|exact Hc]. Qed.
Lemma colsum_chunk n q var c : length var = (q * n)%nat -> (c < n)%nat ->
  colsum F (chunk n q var) c = sumn q (fun x => nth (x * n + c) var 0).
Proof. intros H Hc. unfold colsum. rewrite chunk_length. apply sumn_ext. intros x _. now apply nth_chunk. Qed.

Lemma divmod_unique_nat n x c i : (c < n)%nat -> ((x * n + c)%nat = i <-> x = (i / n)%nat /\ c = (i mod n)%nat).
Proof. intros Hc. split.
  - intros <-. split.
    + rewrite Nat.div_add_l by lia. rewrite (Nat.div_small c n) by exact Hc. lia.
    + rewrite Nat.add_comm, Nat.mod_add by lia. now rewrite Nat.mod_small.
  - intros [-> ->]. rewrite (Nat.div_mod i n) at 3 by lia. lia. Qed.

Lemma sum_hit q n c i t : (c < n)%nat -> (i < q * n)%nat ->
  sumn q (fun x => if Nat.eqb (x * n + c) i then t else 0) = if Nat.eqb c (i mod n) then t else 0.
Proof. intros Hc Hi. destruct (Nat.eqb_spec c (i mod n)) as [E|E].
  - rewrite (sumn_ext q _ (fun x => if Nat.eqb x (i / n) then t else 0)).
    + apply (sumn_delta q (i / n)%nat (fun _ => t)). apply Nat.div_lt_upper_bound; lia.
    + intros x _. destruct (Nat.eqb_spec (x * n + c) i) as [A|A], (Nat.eqb_spec x (i / n)) as [B|B]; try reflexivity.
      * apply divmod_unique_nat in A as [A _]; [contradiction|exact Hc].
      * exfalso. apply A. apply divmod_unique_nat; [exact Hc|now split].
  - apply sumn_zero'. intros x _. destruct (Nat.eqb_spec (x * n + c) i) as [A|A]; [|reflexivity].
    apply divmod_unique_nat in A as [_ A]; [contradiction|exact Hc]. Qed.

Theorem povm_true_derivative d sd q var var' i t : (1 <= d)%nat -> length var = (q * (d * d))%nat ->
  (i < q * (d * d))%nat -> bumped var var' i t ->
  exists vecs vecs', povm_var_to_vecs F d sd true var = Some vecs /\ povm_var_to_vecs F d sd true var' = Some vecs' /\
    forall pos, (pos < (q + 1) * (d * d))%nat ->
      nth pos (povm_stacked F vecs') 0 =
      nth pos (povm_stacked F vecs) 0 +f (if Nat.eqb pos i then t else 0)
                                      -f (if Nat.eqb pos (q * (d * d) + i mod (d * d)) then t else 0).
Proof. intros Hd H Hi [L' B]. pose proof (sq_pos d Hd) as Hn. set (n := (d * d)%nat) in *.
  unfold povm_var_to_vecs. fold n. rewrite L', H, Nat.div_mul, Nat.eqb_refl by lia.
  do 2 eexists. split; [reflexivity|]. split; [reflexivity|]. intros pos Hpos.
  unfold povm_stacked. rewrite !concat_snoc, !concat_chunk by lia.
  destruct (Nat.lt_ge_cases pos (q * n)) as [Hlt|Hge].
  - rewrite !app_nth1 by lia. rewrite B.
    destruct (Nat.eqb_spec pos (q * n + i mod n)) as [E|_]; [lia|]. ring.
  - rewrite !app_nth2 by lia. rewrite L', H. set (c := (pos - q * n)%nat). assert (Hc : (c < n)%nat) by (unfold c; lia).
    rewrite !nth_povm_last by exact Hc. rewrite !colsum_chunk by (try exact Hc; lia).
    rewrite (sumn_ext q (fun x => nth (x * n + c) var' 0) (fun x => nth (x * n + c) var 0 +f (if Nat.eqb (x * n + c) i then t else 0))) by (intros; apply B).
    rewrite sumn_add, sum_hit by assumption.
    destruct (Nat.eqb_spec pos i) as [E|_]; [lia|].
    destruct (Nat.eqb_spec c (i mod n)) as [E1|E1], (Nat.eqb_spec pos (q * n + i mod n)) as [E2|E2]; try (unfold c in *; lia); ring. Qed.

(* ---- MProcess: the implied first row of the last HS moves by -t when a first-row variable of another HS moves by t *)
Lemma nth_firstn_lt (l : list F) a k : (k < a)%nat -> nth k (firstn a l) 0 = nth k l 0.
Proof. revert l k. induction a as [|a IH]; intros l k H; [lia|]. destruct l; [now destruct k|]. destruct k; cbn; [reflexivity|]. apply IH. lia. Qed.
Lemma nth_skipn_add (l : list F) a k : nth k (skipn a l) 0 = nth (a + k) l 0.
Proof. revert l. induction a as [|a IH]; intros l; [reflexivity|]. destruct l; cbn; [now destruct k|]. apply IH. Qed.
Lemma nth_mp_implied_row n q var c : (c < n)%nat ->
  nth c (mp_implied_row F n q var) 0 = (if Nat.eqb c 0 then 1 else 0) -f sumn q (fun x => nth (n * n * x + c) var 0).
Proof. intros H. unfold mp_implied_row. now rewrite nth_map_seq0. Qed.

Lemma nth_three (A B C : list F) pos :
  nth pos (A ++ B ++ C) 0 =
  if Nat.ltb pos (length A) then nth pos A 0
  else if Nat.ltb pos (length A + length B) then nth (pos - length A) B 0
  else nth (pos - length A - length B) C 0.
Proof. destruct (Nat.ltb_spec pos (length A)); [now apply app_nth1|]. rewrite app_nth2 by lia.
  destruct (Nat.ltb_spec pos (length A + length B)); [apply app_nth1; lia|]. apply app_nth2. lia. Qed.

Theorem mp_true_derivative d m var var' i t : (1 <= d)%nat -> (1 <= m)%nat ->
  length var = ((m - 1) * (d * d * (d * d)) + (d * d - 1) * (d * d))%nat -> (i < length var)%nat ->
  bumped var var' i t ->
  forall pos, (pos < m * (d * d * (d * d)))%nat ->
    nth pos (mp_var_to_stacked F d true var') 0 =
    nth pos (mp_var_to_stacked F d true var) 0
      +f (if Nat.eqb pos (if Nat.ltb i ((m - 1) * (d * d * (d * d))) then i else i + d * d) then t else 0)
      -f (if Nat.ltb i ((m - 1) * (d * d * (d * d))) && Nat.ltb (i mod (d * d * (d * d))) (d * d)
             && Nat.eqb pos ((m - 1) * (d * d * (d * d)) + i mod (d * d * (d * d))) then t else 0).
Proof. intros Hd Hm H Hi [L' B] pos Hpos. pose proof (sq_pos d Hd) as Hn. unfold mp_var_to_stacked. cbv zeta.
  set (n := (d * d)%nat) in *. set (h := (n * n)%nat) in *. assert (Hh : (n <= h)%nat) by (unfold h; clear; induction n as [|k IHk]; [lia|rewrite Nat.mul_succ_l; lia]).
  pose proof (arith_small n Hn) as Hs. fold h in Hs.
  assert (Q : (length var / h = m - 1)%nat) by (rewrite H; apply div_add_small; exact Hs).
  rewrite L', Q. set (L := (h * (m - 1))%nat). replace ((m - 1) * h)%nat with L in * by (unfold L; lia).
  assert (LL : (L <= length var)%nat) by lia.
  assert (F1 : length (firstn L var) = L) by (rewrite firstn_length; lia).
  assert (F2 : length (firstn L var') = L) by (rewrite firstn_length; lia).
  rewrite !nth_three, F1, F2, !mp_implied_row_length.
  destruct (Nat.ltb_spec pos L) as [P1|P1]; [|destruct (Nat.ltb_spec pos (L + n)) as [P2|P2]].
  - (* an entry of one of the first m-1 HS matrices *)
    rewrite !nth_firstn_lt by exact P1. rewrite B.
    destruct (Nat.eqb_spec pos (L + i mod h)) as [E|_]; [lia|]. rewrite andb_false_r.
    destruct (Nat.ltb_spec i L) as [HiL|HiL]; [ring|].
    destruct (Nat.eqb_spec pos i) as [E|_]; [lia|]. destruct (Nat.eqb_spec pos (i + n)) as [E|_]; [lia|]. ring.
  - (* an entry of the implied row *)
    set (c := (pos - L)%nat). assert (Hc : (c < n)%nat) by (unfold c; lia).
    rewrite !nth_mp_implied_row by exact Hc.
    rewrite (sumn_ext (m - 1) (fun x => nth (n * n * x + c) var' 0)
               (fun x => nth (n * n * x + c) var 0 +f (if Nat.eqb (x * h + c) i then t else 0))).
    2:{ intros x _. rewrite B. replace (n * n * x + c)%nat with (x * h + c)%nat by (unfold h; lia). reflexivity. }
    rewrite sumn_add.
    destruct (Nat.ltb_spec i L) as [HiL|HiL]; cbn [andb].
    + rewrite sum_hit by (unfold L in HiL; lia).
      destruct (Nat.eqb_spec pos i) as [E|_]; [lia|].
      destruct (Nat.ltb_spec (i mod h) n) as [M|M]; cbn [andb];
      destruct (Nat.eqb_spec c (i mod h)) as [E1|E1], (Nat.eqb_spec pos (L + i mod h)) as [E2|E2]; try (unfold c in *; lia); ring.
    + rewrite (sumn_zero' (m - 1) (fun x => if Nat.eqb (x * h + c) i then t else 0)).
      2:{ intros x Hx. destruct (Nat.eqb_spec (x * h + c) i) as [E|_]; [|reflexivity]. exfalso. assert (K : ((x + 1) * h <= (m - 1) * h)%nat) by (apply Nat.mul_le_mono_r; lia). unfold L in *. lia. }
      destruct (Nat.eqb_spec pos (i + n)) as [E|_]; [lia|]. ring.
  - (* a later row of the last HS matrix *)
    rewrite !nth_skipn_add, B.
    destruct (Nat.eqb_spec pos (L + i mod h)) as [E|_].
    + destruct (Nat.ltb_spec (i mod h) n); [lia|]. rewrite andb_false_r. cbn [andb].
      destruct (Nat.ltb_spec i L) as [HiL|HiL];
      destruct (Nat.eqb_spec (L + (pos - L - n)) i) as [E1|E1]; try lia;
      [destruct (Nat.eqb_spec pos i) as [E2|E2]|destruct (Nat.eqb_spec pos (i + n)) as [E2|E2]|destruct (Nat.eqb_spec pos (i + n)) as [E2|E2]]; try lia; ring.
    + rewrite andb_false_r.
      destruct (Nat.ltb_spec i L) as [HiL|HiL];
      destruct (Nat.eqb_spec (L + (pos - L - n)) i) as [E1|E1]; try lia;
      [destruct (Nat.eqb_spec pos i) as [E2|E2]|destruct (Nat.eqb_spec pos (i + n)) as [E2|E2]|destruct (Nat.eqb_spec pos (i + n)) as [E2|E2]]; try lia; ring. Qed.
End Deriv.
