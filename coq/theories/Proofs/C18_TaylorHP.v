(* C18 — Hermiticity preservation and trace preservation of EVERY Taylor partial sum of exp(L), at the level of the map the
   computational-basis superoperator denotes: Hermiticity-preserving maps are closed under composition and real polynomials, a
   trace-annihilating generator gives trace-preserving polynomials; the GKSL generator lcb_hk H K (Hermitian H, K) is both.
   (In the Hermitian matrix basis B Hermiticity preservation is the realness of the HS matrix, which holds there by construction;
   trace preservation in that representation is C18_Misc.texp_row0.)  Generic in the ordered field; axiom-free. *)
From Coq Require Import Field Ring Setoid Arith Lia Bool List.
From QV.Core Require Import OF Sums Mat Cplx.
From QV.Model Require Import QObj C18_Lindblad.
From QV.Proofs Require Import C18_Algebra C18_Misc C18_Action C18_Physical.
Section HP.
Context (F : OF).
Add Field Ffh : (k_field F).
Notation Cx := (CF F).
Add Ring Crh : (c_ring Cx).
Notation cmat := (cmat F).
Notation "x +c y" := (cadd Cx x y) (at level 50, left associativity).
Notation "x *c y" := (cmul Cx x y) (at level 40, left associativity).
Notation "0c" := (c0 Cx).
Variable d : nat.
Hypothesis Hd : (0 < d)%nat.
Notation n := (d * d)%nat.

Lemma flat_lt' i j : (i < d)%nat -> (j < d)%nat -> (i * d + j < n)%nat. Proof. intros; nia. Qed.
Lemma apply_entry (L X : cmat) i j : apply_cb d L X i j = mv n L (vecr d X) (i * d + j)%nat. Proof. reflexivity. Qed.
Lemma vecr_apply (L X : cmat) q : vecr d (apply_cb d L X) q = mv n L (vecr d X) q.
Proof. unfold apply_cb. now apply vecr_unvecr. Qed.
Lemma apply_mmul (M N X : cmat) i j : apply_cb d (mmul n M N) X i j = apply_cb d M (apply_cb d N X) i j.
Proof. rewrite !apply_entry, mv_mmul. unfold mv. apply (@sumn_ext Cx); intros q _. now rewrite vecr_apply. Qed.
Lemma apply_ext (L X X' : cmat) i j : meq d d X X' -> apply_cb d L X i j = apply_cb d L X' i j.
Proof. intros E. rewrite !apply_entry. unfold mv. apply (@sumn_ext Cx); intros q Hq. f_equal. unfold vecr.
  apply E; [apply Nat.div_lt_upper_bound; lia|apply Nat.mod_upper_bound; lia]. Qed.
Lemma apply_mid (X : cmat) i j : (i < d)%nat -> (j < d)%nat -> apply_cb d mid X i j = X i j.
Proof. intros Hi Hj. rewrite apply_entry, mv_mid by now apply flat_lt'. unfold vecr. now destruct (divmod_flat i j d Hj) as [-> ->]. Qed.
Lemma apply_cpoly (c : nat -> F) (L X : cmat) N i j :
  apply_cb d (cpoly_sum n c L N) X i j = sumn (S N) (fun k => zof (c k) *c apply_cb d (cmpow n L k) X i j).
Proof. rewrite apply_entry. unfold mv, cpoly_sum.
  rewrite (sumn_ext n _ (fun q => sumn (S N) (fun k => zof (c k) *c (cmpow n L k (i * d + j)%nat q *c vecr d X q)))).
  2:{ intros q _. rewrite <- sumn_scale_r. apply (@sumn_ext Cx); intros k _. ring. }
  rewrite sumn_swap. apply (@sumn_ext Cx); intros k _. rewrite sumn_scale_l. reflexivity. Qed.

(* Hermiticity preservation is closed under composition and real polynomials *)
Lemma hp_mid : @hp_sup F d mid.
Proof. intros X i j Hi Hj. now rewrite !apply_mid. Qed.
Lemma hp_mmul (M N : cmat) : hp_sup d M -> hp_sup d N -> hp_sup d (mmul n M N).
Proof. intros HM HN X i j Hi Hj. rewrite !apply_mmul, (HM _ i j Hi Hj). apply apply_ext.
  intros p q Hp Hq. unfold cadj at 1. now apply HN. Qed.
Lemma hp_cmpow (L : cmat) k : hp_sup d L -> hp_sup d (cmpow n L k).
Proof. intros HL. induction k as [|k IH]; cbn [cmpow]; [apply hp_mid|now apply hp_mmul]. Qed.
Theorem hp_cpoly (c : nat -> F) (L : cmat) N : hp_sup d L -> hp_sup d (cpoly_sum n c L N).
Proof. intros HL X i j Hi Hj. rewrite !apply_cpoly, cj_sum. apply (@sumn_ext Cx); intros k _.
  now rewrite cj_mul, cj_zof, (hp_cmpow L k HL X i j Hi Hj). Qed.

(* trace: a trace-annihilating generator gives trace-preserving polynomials (up to the constant coefficient) *)
Lemma mtrace_sum (N : nat) (c : nat -> Cx) (P : nat -> cmat) :
  mtrace d (fun i j => sumn N (fun k => c k *c P k i j)) = sumn N (fun k => c k *c mtrace d (P k)).
Proof. unfold mtrace. rewrite sumn_swap. apply (@sumn_ext Cx); intros k _. now rewrite sumn_scale_l. Qed.
Lemma ta_cmpow (L X : cmat) k : ta_sup d L -> mtrace d (apply_cb d (cmpow n L (S k)) X) = 0c.
Proof. intros HL. cbn [cmpow]. rewrite <- (HL (apply_cb d (cmpow n L k) X)). apply mtrace_ext. intros i j _ _. apply apply_mmul. Qed.
Theorem tp_cpoly (c : nat -> F) (L X : cmat) N : ta_sup d L ->
  mtrace d (apply_cb d (cpoly_sum n c L N) X) = zof (c 0%nat) *c mtrace d X.
Proof. intros HL.
  rewrite (mtrace_ext d _ (fun i j => sumn (S N) (fun k => zof (c k) *c apply_cb d (cmpow n L k) X i j))) by (intros i j _ _; apply apply_cpoly).
  rewrite (mtrace_sum (S N) (fun k => zof (c k)) (fun k => apply_cb d (cmpow n L k) X)).
  rewrite sumn_S_first. rewrite (sumn_zero' N). 2:{ intros k _. rewrite ta_cmpow by exact HL. ring. }
  cbn [cmpow]. rewrite (mtrace_ext d _ X) by (intros i j Hi Hj; now apply apply_mid). ring. Qed.

(* the GKSL generator is Hermiticity preserving and trace annihilating, hence so are / trace preserving are all its Taylor sums *)
Variable B : nat -> cmat.
Notation m := (d * d - 1)%nat.
Lemma hp_lcb_hk (H K : cmat) : hermitian d H -> hermitian m K -> hp_sup d (lcb_hk d B H K).
Proof. intros HH HK X i j Hi Hj.
  rewrite (apply_lcb_hk_gksl F d Hd B H K X HH HK j i Hj Hi), (apply_lcb_hk_gksl F d Hd B H K (cadj X) HH HK i j Hi Hj).
  now apply gksl_hp. Qed.
Lemma ta_lcb_hk (H K : cmat) : hermitian d H -> hermitian m K -> ta_sup d (lcb_hk d B H K).
Proof. intros HH HK X. now apply lcb_hk_trace_annihilating. Qed.
Theorem taylor_cb_hp_tp (H K : cmat) N : hermitian d H -> hermitian m K ->
  let T := cpoly_sum n (fun k => kdiv F (c1 F) (ffact F k)) (lcb_hk d B H K) N in
  hp_sup d T /\ (forall X : cmat, mtrace d (apply_cb d T X) = mtrace d X).
Proof. intros HH HK T. split.
  - apply hp_cpoly. now apply hp_lcb_hk.
  - intros X. unfold T. rewrite (tp_cpoly _ _ X N (ta_lcb_hk H K HH HK)). cbn [ffact].
    replace (zof (kdiv F (c1 F) (c1 F)) : Cx) with (c1 Cx) by (apply cplx_eq; cbn; [field; apply one_neq_zero|reflexivity]). ring. Qed.
End HP.
