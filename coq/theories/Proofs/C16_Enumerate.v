(* C16 — the order-preserving sub-grid selected by a conditioning assignment:
   the increasing enumeration of the serial indices whose conditioned digits carry the conditioning values IS
   k' |-> rowmajor (fill fixed (digits of k' in the free shape)), k' = 0 .. prod(free shape) - 1.
   (NumPy's a[np.ix_(masks)] keeps the selected entries in row-major order; the model's conditional slice is indexed by the free
   multi-index.  This lemma says the two agree, for every shape and every assignment.) *)
From Coq Require Import List Arith Bool Lia.
From QV.Model Require Import Multinomial.
From QV.Proofs Require Import C16_Marginal C16_Conditional.
Import ListNotations.

Definition matchp (fixed : list (option nat)) (ds : list nat) : bool :=
  list_eqb (select (map is_some fixed) ds) (somes fixed).

Lemma seq_shift_map a n : seq a n = map (fun r => a + r) (seq 0 n).
Proof. revert a. induction n as [|n IH]; intros a; cbn [seq map]; [reflexivity|].
  f_equal; [lia|]. rewrite (IH (S a)), (IH 1). rewrite map_map. apply map_ext. intros r. lia. Qed.

Lemma seq_blocks n P : seq 0 (n * P) = flat_map (fun x => map (fun r => x * P + r) (seq 0 P)) (seq 0 n).
Proof. induction n as [|n IH]; [reflexivity|].
  replace (S n * P) with (n * P + P) by lia. rewrite seq_app, IH, seq_S, flat_map_app. cbn [flat_map plus]. rewrite app_nil_r.
  f_equal. apply seq_shift_map. Qed.

Lemma filter_flat_map {A B} (f : B -> bool) (h : A -> list B) l : filter f (flat_map h l) = flat_map (fun x => filter f (h x)) l.
Proof. induction l as [|x l IH]; cbn [flat_map]; [reflexivity|]. now rewrite filter_app, IH. Qed.

Lemma filter_map_comm {A B} (f : B -> bool) (m : A -> B) l : filter f (map m l) = map m (filter (fun a => f (m a)) l).
Proof. induction l as [|x l IH]; cbn; [reflexivity|]. destruct (f (m x)); cbn; now rewrite IH. Qed.

Lemma map_flat_map {A B C} (g : B -> C) (h : A -> list B) l : map g (flat_map h l) = flat_map (fun x => map g (h x)) l.
Proof. induction l as [|x l IH]; cbn [flat_map]; [reflexivity|]. now rewrite map_app, IH. Qed.

Lemma flat_map_ext_in {A B} (f g : A -> list B) l : (forall x, In x l -> f x = g x) -> flat_map f l = flat_map g l.
Proof. induction l as [|x l IH]; intros H; cbn [flat_map]; [reflexivity|].
  rewrite (H x (or_introl eq_refl)), IH; [reflexivity|]. intros y Hy. apply H. now right. Qed.

Lemma flat_map_single_gen {B} (L : list B) v : forall n a,
  flat_map (fun x => if Nat.eqb x v then L else []) (seq a n) = if (a <=? v) && (v <? a + n) then L else [].
Proof. induction n as [|n IH]; intros a; cbn [seq flat_map].
  - destruct (a <=? v) eqn:E; cbn [andb]; [|reflexivity]. apply Nat.leb_le in E.
    replace (v <? a + 0) with false by (symmetry; apply Nat.ltb_ge; lia). reflexivity.
  - rewrite IH. destruct (Nat.eqb_spec a v) as [->|Hne].
    + replace (S v <=? v) with false by (symmetry; apply Nat.leb_gt; lia). cbn [andb]. rewrite app_nil_r.
      replace (v <=? v) with true by (symmetry; apply Nat.leb_le; lia).
      replace (v <? v + S n) with true by (symmetry; apply Nat.ltb_lt; lia). reflexivity.
    + cbn [app]. replace (a + S n) with (S a + n) by lia.
      destruct (Nat.leb_spec (S a) v), (Nat.leb_spec a v); try lia; reflexivity. Qed.

Lemma flat_map_single {B} (L : list B) v n : v < n ->
  flat_map (fun x => if Nat.eqb x v then L else []) (seq 0 n) = L.
Proof. intros Hv. rewrite flat_map_single_gen. cbn [Nat.leb plus andb].
  replace (v <? n) with true by (symmetry; apply Nat.ltb_lt; lia). reflexivity. Qed.

Lemma filter_false_in {A} (f : A -> bool) l : (forall a, In a l -> f a = false) -> filter f l = [].
Proof. induction l as [|x l IH]; intros H; cbn; [reflexivity|]. rewrite (H x (or_introl eq_refl)). apply IH. intros a Ha. apply H. now right. Qed.

Lemma digitsn_block n t x r : posn t -> x < n -> r < prodn t -> digitsn (n :: t) (x * prodn t + r) = x :: digitsn t r.
Proof. intros Hp Hx Hr. cbn [digitsn]. f_equal.
  - rewrite Nat.div_add_l by lia. rewrite (Nat.div_small r) by exact Hr. rewrite Nat.add_0_r. now apply Nat.mod_small.
  - now apply digitsn_add_mul. Qed.

Lemma posn_select mask : forall sh, posn sh -> posn (select mask sh).
Proof. induction mask as [|b m IH]; intros [|n t] H; cbn; try constructor. inversion H; subst.
  destruct b; [constructor; [assumption|]|]; now apply IH. Qed.

Theorem subgrid_enumeration : forall sh fixed, posn sh -> fixed_ok sh fixed ->
  filter (fun k => matchp fixed (digitsn sh k)) (seq 0 (prodn sh)) =
  map (fun k' => rowmajorn sh (fill fixed (digitsn (select (map is_none fixed) sh) k'))) (seq 0 (prodn (select (map is_none fixed) sh))).
Proof. induction sh as [|n t IH]; intros [|o f] Hp Hf; cbn [fixed_ok] in Hf; try contradiction; [reflexivity|].
  inversion Hp as [|? ? Hn Ht]; subst. rewrite prodn_cons.
    pose proof (prodn_pos t Ht) as HP.
    rewrite seq_blocks, filter_flat_map.
    destruct o as [v|].
    + destruct Hf as [Hv Hf]. cbn [map is_none is_some negb select].
      rewrite (flat_map_ext_in _ (fun x => if Nat.eqb x v then
                 map (fun r => v * prodn t + r) (filter (fun r => matchp f (digitsn t r)) (seq 0 (prodn t))) else [])).
      2:{ intros x Hx. apply in_seq in Hx. rewrite filter_map_comm.
          destruct (Nat.eqb_spec x v) as [->|Hne].
          - f_equal. apply filter_ext_in. intros r Hr. apply in_seq in Hr. rewrite (digitsn_block _ _ _ _ Ht) by lia.
            unfold matchp. cbn [map is_some select somes list_eqb]. now rewrite Nat.eqb_refl.
          - rewrite filter_false_in; [reflexivity|].
            intros r Hr. apply in_seq in Hr. rewrite (digitsn_block _ _ _ _ Ht) by lia.
            unfold matchp. cbn [map is_some select somes list_eqb]. apply Nat.eqb_neq in Hne. now rewrite Hne. }
      rewrite flat_map_single by exact Hv. rewrite (IH f Ht Hf), map_map. apply map_ext. intros k'. reflexivity.
    + cbn [map is_none is_some negb select]. rewrite prodn_cons.
      set (fs := select (map is_none f) t) in *.
      assert (Hfs : posn fs) by (now apply posn_select).
      pose proof (prodn_pos fs Hfs) as HQ.
      rewrite (seq_blocks n (prodn fs)), map_flat_map.
      apply flat_map_ext_in. intros x Hx. apply in_seq in Hx. rewrite filter_map_comm.
      rewrite (filter_ext_in _ (fun r => matchp f (digitsn t r))).
      2:{ intros r Hr. apply in_seq in Hr. rewrite (digitsn_block _ _ _ _ Ht) by lia. reflexivity. }
      rewrite (IH f Ht Hf). fold fs. rewrite !map_map. apply map_ext_in. intros r Hr. apply in_seq in Hr.
      rewrite (digitsn_block _ _ _ _ Hfs) by lia. reflexivity. Qed.
