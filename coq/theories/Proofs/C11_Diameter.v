(* C11 — the diameter bound of the physical set and the UNIVERSAL optimality gap (generic ordered field, axiom-free).

   For a Hermitian positive semidefinite matrix M:   sum_ij |M_ij|^2  <=  (tr M)^2
   (proved from the 2x2 principal minors of the quadratic form: |M_ij|^2 <= M_ii M_jj, no eigenvalues, no square roots).
   With an orthonormal Hermitian basis the coefficient vector v of a density matrix therefore has |v|^2 <= (tr rho)^2 = 1, any two
   states are at squared distance <= 4, and the a-posteriori certificate of Proofs/C11_Pgdb.v becomes universal:
       NO state at all has a loss smaller than  f x + <g,y> - mu r     whenever  r >= 0,  r^2 >= 4 |y|^2                *)
From Coq Require Import Arith List Bool Lia Field Ring Setoid.
From QV.Core Require Import OF Sums Mat Cplx C01_HermPsd.
From QV.Model Require Import QObj C02_Conv C11_Pgdb.
From QV.Proofs Require Import C11_Pgdb C02_QObjBase.
Import ListNotations.

Section C11_Diameter.
Context (F : OF).
Add Field Ffd11 : (k_field F).
Notation "0" := (c0 F). Notation "1" := (c1 F).
Infix "+" := (cadd F). Infix "*" := (cmul F). Infix "<=" := (kle F). Infix "-" := (csub F).
Infix "/" := (kdiv F). Notation "- x" := (copp F x).
Notation vec := (@vec F).
Notation Cx := (CF F).

(* ------------------------------------------------------------------ sums with one / two non-zero terms, monotone sums *)
Lemma C11_sumn_one n (f : nat -> F) i : (i < n)%nat -> (forall k, (k < n)%nat -> k <> i -> f k = 0) -> sumn n f = f i.
Proof. intros Hi H. rewrite (sumn_ext n f (fun k => if Nat.eqb k i then f k else 0)).
  - now apply sumn_delta.
  - intros k Hk. destruct (Nat.eqb_spec k i); [reflexivity|now apply H]. Qed.
Lemma C11_sumn_two n (f : nat -> F) i j : (i < n)%nat -> (j < n)%nat -> i <> j ->
  (forall k, (k < n)%nat -> k <> i -> k <> j -> f k = 0) -> sumn n f = f i + f j.
Proof. intros Hi Hj Hij H.
  rewrite (sumn_ext n f (fun k => (if Nat.eqb k i then f k else 0) + (if Nat.eqb k j then f k else 0))).
  - rewrite sumn_add, (sumn_delta n i f Hi), (sumn_delta n j f Hj). reflexivity.
  - intros k Hk. destruct (Nat.eqb_spec k i) as [Ei|Ni]; destruct (Nat.eqb_spec k j) as [Ej|Nj]; try (exfalso; congruence); try ring.
    rewrite (H k Hk Ni Nj). ring. Qed.
Lemma C11_sumn_le n (f h : nat -> F) : (forall i, (i < n)%nat -> f i <= h i) -> sumn n f <= sumn n h.
Proof. intros H. apply (proj2 (le_sub F _ _)). rewrite <- sumn_sub. apply C11_sumn_nonneg. intros i Hi.
  apply (proj1 (le_sub F _ _)). now apply H. Qed.

(* ------------------------------------------------------------------ the Hermitian form on vectors with one / two non-zero entries *)
Definition C11_one_vec (i : nat) (a : Cx) : cvec F := fun k => if Nat.eqb k i then a else (0, 0).
Definition C11_two_vec (i j : nat) (a b : Cx) : cvec F := fun k => if Nat.eqb k i then a else if Nat.eqb k j then b else (0, 0).

Lemma C11_hqf_one n (H : cmat F) i : (i < n)%nat -> hqf n H (C11_one_vec i (1, 0)) = re (H i i).
Proof. intros Hi. rewrite hqf_expand.
  assert (Ho : forall k, k <> i -> C11_one_vec i (1, 0) k = (0, 0)).
  { intros k Hk. unfold C11_one_vec. destruct (Nat.eqb_spec k i); [congruence|reflexivity]. }
  assert (Hs : C11_one_vec i (1, 0) i = (1, 0)) by (unfold C11_one_vec; now rewrite Nat.eqb_refl).
  rewrite (C11_sumn_one n _ i Hi).
  2:{ intros k Hk Nk. apply sumn_zero'. intros l _. rewrite (Ho k Nk). cbn. ring. }
  rewrite (C11_sumn_one n _ i Hi).
  2:{ intros l Hl Nl. rewrite (Ho l Nl). cbn. ring. }
  rewrite Hs. cbn. ring. Qed.

Lemma C11_hqf_two n (H : cmat F) i j t u v : (i < n)%nat -> (j < n)%nat -> i <> j -> hermitian n H ->
  hqf n H (C11_two_vec i j (t, 0) (u, v))
  = t * t * re (H i i) + (1 + 1) * t * (u * re (H i j) - v * im (H i j)) + (u * u + v * v) * re (H j j).
Proof. intros Hi Hj Hij Hh. rewrite hqf_expand.
  set (x := C11_two_vec i j (t, 0) (u, v)).
  assert (Ho : forall k, k <> i -> k <> j -> x k = (0, 0)).
  { intros k Ni Nj. unfold x, C11_two_vec. destruct (Nat.eqb_spec k i); [congruence|]. destruct (Nat.eqb_spec k j); [congruence|reflexivity]. }
  assert (Xi : x i = (t, 0)) by (unfold x, C11_two_vec; now rewrite Nat.eqb_refl).
  assert (Xj : x j = (u, v)).
  { unfold x, C11_two_vec. destruct (Nat.eqb_spec j i); [congruence|]. now rewrite Nat.eqb_refl. }
  rewrite (C11_sumn_two n _ i j Hi Hj Hij).
  2:{ intros k Hk Ni Nj. apply sumn_zero'. intros l _. rewrite (Ho k Ni Nj). cbn. ring. }
  rewrite (C11_sumn_two n _ i j Hi Hj Hij).
  2:{ intros l Hl Ni Nj. rewrite (Ho l Ni Nj). cbn. ring. }
  rewrite (C11_sumn_two n _ i j Hi Hj Hij).
  2:{ intros l Hl Ni Nj. rewrite (Ho l Ni Nj). cbn. ring. }
  rewrite Xi, Xj. pose proof (Hh j i Hj Hi) as E.
  assert (Er : re (H j i) = re (H i j)) by (rewrite E; reflexivity).
  assert (Ei : im (H j i) = - im (H i j)) by (rewrite E; reflexivity).
  rewrite Er, Ei. cbn [re im fst snd]. ring. Qed.

(* ------------------------------------------------------------------ diagonal and 2x2 minors of a PSD Hermitian matrix *)
Lemma C11_psd_diag n (H : cmat F) i : (i < n)%nat -> HPSD n H -> 0 <= re (H i i).
Proof. intros Hi P. rewrite <- (C11_hqf_one n H i Hi). apply P. Qed.
Lemma C11_herm_diag_real n (H : cmat F) i : (i < n)%nat -> hermitian n H -> im (H i i) = 0.
Proof. intros Hi Hh. pose proof (Hh i i Hi Hi) as E. assert (A : im (H i i) = - im (H i i)) by (rewrite E at 1; reflexivity).
  destruct (keqb F (im (H i i)) 0) eqn:K; [now apply keqb_spec|]. exfalso.
  assert (Hne : im (H i i) <> 0). { intros Z. rewrite Z in K. unfold keqb in K. rewrite (proj2 (k_leb F 0 0) (k_refl F 0)) in K. discriminate. }
  apply (double_neq0 F _ Hne). rewrite A at 1. ring. Qed.

Lemma C11_psd_minor n (H : cmat F) i j : (i < n)%nat -> (j < n)%nat -> i <> j -> hermitian n H -> HPSD n H ->
  znorm2 (H i j) <= re (H i i) * re (H j j).
Proof. intros Hi Hj Hij Hh P.
  set (p := re (H i i)). set (r := re (H j j)). set (a := re (H i j)). set (b := im (H i j)).
  assert (Hs : znorm2 (H i j) = a * a + b * b) by reflexivity. rewrite Hs. set (s := a * a + b * b).
  assert (Hp : 0 <= p) by now apply (C11_psd_diag n H i).
  assert (Hr : 0 <= r) by now apply (C11_psd_diag n H j).
  assert (Hs0 : 0 <= s) by (apply add_nonneg; apply sqr_nonneg).
  (* the form at  x_i = t,  x_j = - k conj(H_ij) *)
  assert (Q : forall t k, 0 <= t * t * p - (1 + 1) * t * k * s + k * k * s * r).
  { intros t k. pose proof (P (C11_two_vec i j (t, 0) (- (k * a), k * b))) as A.
    rewrite (C11_hqf_two n H i j t (- (k * a)) (k * b) Hi Hj Hij Hh) in A. fold p r a b in A.
    replace (t * t * p - (1 + 1) * t * k * s + k * k * s * r)
      with (t * t * p + (1 + 1) * t * (- (k * a) * a - k * b * b) + (- (k * a) * - (k * a) + k * b * (k * b)) * r) by (unfold s; ring).
    exact A. }
  destruct (keqb F r 0) eqn:Kr.
  - (* r = 0: the form at t = s, k = p + 1 is  - s^2 (p + 2) *)
    apply keqb_spec in Kr. rewrite Kr. replace (p * 0) with 0 by ring.
    pose proof (Q s (p + 1)) as A. rewrite Kr in A.
    replace (s * s * p - (1 + 1) * s * (p + 1) * s + (p + 1) * (p + 1) * s * 0) with (- ((s * s) * (p + (1 + 1)))) in A by ring.
    assert (B : 0 <= (s * s) * (p + (1 + 1))).
    { apply k_mul; [apply sqr_nonneg|]. apply add_nonneg; [exact Hp|apply C11_two_pos]. }
    assert (Z : (s * s) * (p + (1 + 1)) = 0).
    { apply (k_antisym F); [|exact B]. apply C11_le_opp in A. replace (- - (s * s * (p + (1 + 1)))) with (s * s * (p + (1 + 1))) in A by ring.
      replace (- 0) with 0 in A by ring. exact A. }
    assert (Hq : p + (1 + 1) <> 0).
    { intros E. apply (not_le_0_m1 F). assert (T : p + 1 = - (1)) by (replace (p + 1) with (p + (1 + 1) - 1) by ring; rewrite E; ring).
      rewrite <- T. apply add_nonneg; [exact Hp|apply one_nonneg]. }
    assert (Zs : s * s = 0). { replace (s * s) with ((s * s * (p + (1 + 1))) / (p + (1 + 1))) by (field; exact Hq). rewrite Z. field. exact Hq. }
    assert (s = 0) by (apply (sum_sqr_zero F s 0); rewrite Zs; ring). subst s. rewrite H0. apply k_refl.
  - assert (Hr0 : r <> 0). { intros Z. rewrite Z in Kr. unfold keqb in Kr. rewrite (proj2 (k_leb F 0 0) (k_refl F 0)) in Kr. discriminate. }
    (* t = r, k = 1:  r (r p - s) >= 0 *)
    pose proof (Q r 1) as A.
    replace (r * r * p - (1 + 1) * r * 1 * s + 1 * 1 * s * r) with (r * (p * r - s)) in A by ring.
    apply (proj2 (le_sub F _ _)). exact (C11_cancel_pos F r _ Hr Hr0 A). Qed.

(* ------------------------------------------------------------------ Frobenius norm <= trace, squared *)
Definition C11_frob2 (n : nat) (H : cmat F) : F := sumn n (fun i => sumn n (fun j => znorm2 (H i j))).
Definition C11_rtrace (n : nat) (H : cmat F) : F := sumn n (fun i => re (H i i)).

Theorem C11_psd_frobenius_le_trace_sq n (H : cmat F) : hermitian n H -> HPSD n H ->
  C11_frob2 n H <= C11_rtrace n H * C11_rtrace n H.
Proof. intros Hh P. unfold C11_frob2, C11_rtrace. rewrite sumn_mul.
  apply C11_sumn_le; intros i Hi. apply C11_sumn_le; intros j Hj.
  destruct (Nat.eq_dec i j) as [->|Hij].
  - unfold znorm2. rewrite (C11_herm_diag_real n H j Hj Hh). apply C11_le_refl_eq. ring.
  - now apply (C11_psd_minor n H i j). Qed.

(* ------------------------------------------------------------------ coefficient vectors of PSD operators *)
Lemma C11_re_hs_inner_self d (X : cmat F) : re (hs_inner d X X) = C11_frob2 d X.
Proof. unfold hs_inner, C11_frob2. rewrite re_sumn. apply sumn_ext; intros i _. rewrite re_sumn. apply sumn_ext; intros j _.
  destruct (X i j) as [a b]. unfold znorm2. cbn. ring. Qed.

Theorem C11_coeff_norm_le_trace_sq d (B : nat -> cmat F) (v : rvec F) :
  basis_orthonormal d B -> basis_hermitian d B -> HPSD d (op_of_vec d B v) ->
  C11_nrm2 F (d * d) v <= C11_rtrace d (op_of_vec d B v) * C11_rtrace d (op_of_vec d B v).
Proof. intros Ho Hb P.
  assert (E : C11_nrm2 F (d * d) v = C11_frob2 d (op_of_vec d B v)).
  { rewrite <- C11_re_hs_inner_self. rewrite (born_hs_inner F d B v v Ho). reflexivity. }
  rewrite E. apply C11_psd_frobenius_le_trace_sq; [now apply op_of_vec_hermitian|exact P]. Qed.

(* ------------------------------------------------------------------ from a norm bound to the universal gap *)
Lemma C11_parallelogram n (a b : vec) : C11_nrm2 F n (vsub a b) <= (1 + 1) * C11_nrm2 F n a + (1 + 1) * C11_nrm2 F n b.
Proof. apply (proj2 (le_sub F _ _)).
  assert (E : (1 + 1) * C11_nrm2 F n a + (1 + 1) * C11_nrm2 F n b - C11_nrm2 F n (vsub a b) = C11_nrm2 F n (vadd a b)).
  { unfold C11_nrm2, dot. rewrite <- !sumn_scale_l, <- sumn_add, <- sumn_sub. apply sumn_ext; intros i _. unfold vsub, vadd. ring. }
  rewrite E. apply C11_nrm2_nonneg. Qed.

Section Universal.
Variables (n : nat) (C : vec -> Prop) (P : vec -> vec) (f : vec -> F) (g : vec -> vec) (mu R2 : F).
Hypothesis Hmu0 : mu <> 0.
Hypothesis Hmu : 0 <= mu.
Hypothesis HP : C11_obtuse F n C P.
Hypothesis Hconv : C11_first_order_convex F n f g.
Hypothesis Hbound : forall z, C z -> C11_nrm2 F n z <= R2.          (* the feasible set lies in the ball of radius^2 R2 *)

(* NO feasible point beats x by more than  - <g,y> + mu r   (r >= 0, r^2 >= 4 R2 |y|^2);  no diameter hypothesis left *)
Theorem C11_universal_gap_ball x r :
  let y := C11_dir F P g mu x in
  0 <= r -> C11_nrm2 F n y * ((1 + 1) * R2 + (1 + 1) * R2) <= r * r ->
  forall z, C z -> f x - f z <= - dot n (g x) y + mu * r.
Proof. intros y Hr Hrr z Cz.
  apply (C11_universal_gap F n C P f g mu Hmu0 Hmu HP Hconv x ((1 + 1) * R2 + (1 + 1) * R2) r); [|exact Hr|exact Hrr|exact Cz].
  intros w Cw. set (p := P (vsub x (C11_vdiv F (g x) mu))).
  assert (Cp : C p) by apply HP.
  assert (E : C11_nrm2 F n (vsub (vsub w x) (C11_dir F P g mu x)) = C11_nrm2 F n (vsub w p)).
  { unfold C11_nrm2. apply dot_ext; intros i _; unfold vsub, C11_dir, p; unfold vsub; ring. }
  rewrite E. apply (k_trans F _ _ _ (C11_parallelogram n w p)).
  pose proof (Hbound w Cw) as A. pose proof (Hbound p Cp) as B.
  pose proof (mul_le_compat_nonneg F _ _ _ (C11_two_pos F) A) as A2.
  pose proof (mul_le_compat_nonneg F _ _ _ (C11_two_pos F) B) as B2.
  unfold C11_two in A2, B2.
  apply (C11_le_by2 F _ _ _ _ _ _ A2 B2). ring. Qed.
End Universal.

(* ------------------------------------------------------------------ T6 for state tomography (full parametrisation):
   the physical set = coefficient vectors (w.r.t. an orthonormal Hermitian basis) of PSD operators of trace one *)
Definition C11_state_set (d : nat) (B : nat -> cmat F) : vec -> Prop :=
  fun v => HPSD d (op_of_vec d B v) /\ C11_rtrace d (op_of_vec d B v) = 1.

Lemma C11_state_set_ball d B : basis_orthonormal d B -> basis_hermitian d B ->
  forall z, C11_state_set d B z -> C11_nrm2 F (d * d) z <= 1.
Proof. intros Ho Hb z [Pz Tz]. pose proof (C11_coeff_norm_le_trace_sq d B z Ho Hb Pz) as A. rewrite Tz in A.
  replace (1 * 1) with 1 in A by ring. exact A. Qed.

Theorem C11_universal_gap_states d (B : nat -> cmat F) (P : vec -> vec) (f : vec -> F) (g : vec -> vec) (mu : F) :
  basis_orthonormal d B -> basis_hermitian d B ->
  mu <> 0 -> 0 <= mu -> C11_obtuse F (d * d) (C11_state_set d B) P -> C11_first_order_convex F (d * d) f g ->
  forall x r, let y := C11_dir F P g mu x in
  0 <= r -> C11_nrm2 F (d * d) y * ((1 + 1) + (1 + 1)) <= r * r ->
  forall z, C11_state_set d B z -> f x - f z <= - dot (d * d) (g x) y + mu * r.
Proof. intros Ho Hb Hmu0 Hmu HP Hconv x r y Hr Hrr z Cz.
  apply (C11_universal_gap_ball (d * d) (C11_state_set d B) P f g mu 1 Hmu0 Hmu HP Hconv (C11_state_set_ball d B Ho Hb) x r Hr); [|exact Cz].
  fold y. replace ((1 + 1) * 1 + (1 + 1) * 1) with ((1 + 1) + (1 + 1)) by ring. exact Hrr. Qed.

(* ------------------------------------------------------------------ POVMs: stacked coefficient vectors (m blocks of length d*d), every element PSD,
   the traces sum to dd (= d for elements summing to the identity) *)
Definition C11_block (D x : nat) (v : vec) : vec := fun a => v (x * D + a)%nat.
Definition C11_povm_set (d m : nat) (B : nat -> cmat F) (dd : F) : vec -> Prop :=
  fun v => (forall x, (x < m)%nat -> HPSD d (op_of_vec d B (C11_block (d * d) x v)))
           /\ sumn m (fun x => C11_rtrace d (op_of_vec d B (C11_block (d * d) x v))) = dd.

Lemma C11_sum_sq_le_sq_sum m (a : nat -> F) : (forall x, (x < m)%nat -> 0 <= a x) ->
  sumn m (fun x => a x * a x) <= sumn m a * sumn m a.
Proof. induction m as [|m IH]; intros H; cbn [sumn]; [apply C11_le_refl_eq; ring|].
  assert (Hs : 0 <= sumn m a) by (apply C11_sumn_nonneg; intros; apply H; lia).
  assert (Ha : 0 <= a m) by (apply H; lia).
  assert (IH' : sumn m (fun x => a x * a x) <= sumn m a * sumn m a) by (apply IH; intros; apply H; lia).
  assert (Hc : 0 <= (1 + 1) * (sumn m a * a m)) by (apply k_mul; [apply C11_two_pos|now apply k_mul]).
  apply (C11_le_by2 F _ _ _ _ _ _ IH' Hc). unfold C11_two. ring. Qed.
Lemma C11_rtrace_nonneg n (H : cmat F) : HPSD n H -> 0 <= C11_rtrace n H.
Proof. intros P. apply C11_sumn_nonneg. intros i Hi. now apply (C11_psd_diag n H i). Qed.

Lemma C11_povm_set_ball d m B dd : basis_orthonormal d B -> basis_hermitian d B ->
  forall z, C11_povm_set d m B dd z -> C11_nrm2 F (m * (d * d)) z <= dd * dd.
Proof. intros Ho Hb z [Pz Tz].
  set (t := fun x => C11_rtrace d (op_of_vec d B (C11_block (d * d) x z))).
  assert (E : C11_nrm2 F (m * (d * d)) z = sumn m (fun x => C11_nrm2 F (d * d) (C11_block (d * d) x z))).
  { unfold C11_nrm2, dot. rewrite sumn_flat. reflexivity. }
  rewrite E. apply (k_trans F _ (sumn m (fun x => t x * t x))).
  - apply C11_sumn_le. intros x Hx. apply (C11_coeff_norm_le_trace_sq d B _ Ho Hb (Pz x Hx)).
  - rewrite <- Tz. apply C11_sum_sq_le_sq_sum. intros x Hx. apply C11_rtrace_nonneg. now apply Pz. Qed.

Theorem C11_universal_gap_povms d m (B : nat -> cmat F) (dd : F) (P : vec -> vec) (f : vec -> F) (g : vec -> vec) (mu : F) :
  basis_orthonormal d B -> basis_hermitian d B ->
  mu <> 0 -> 0 <= mu -> C11_obtuse F (m * (d * d)) (C11_povm_set d m B dd) P -> C11_first_order_convex F (m * (d * d)) f g ->
  forall x r, let y := C11_dir F P g mu x in
  0 <= r -> C11_nrm2 F (m * (d * d)) y * ((1 + 1) * (dd * dd) + (1 + 1) * (dd * dd)) <= r * r ->
  forall z, C11_povm_set d m B dd z -> f x - f z <= - dot (m * (d * d)) (g x) y + mu * r.
Proof. intros Ho Hb Hmu0 Hmu HP Hconv x r y Hr Hrr z Cz.
  exact (C11_universal_gap_ball (m * (d * d)) (C11_povm_set d m B dd) P f g mu (dd * dd) Hmu0 Hmu HP Hconv
           (C11_povm_set_ball d m B dd Ho Hb) x r Hr Hrr z Cz). Qed.

(* ------------------------------------------------------------------ gates: flattened HS matrices whose Choi matrix is PSD with trace dd (= d for trace-preserving maps) *)
Lemma C11_choi_as_op d (B : nat -> cmat F) (HS : rmat F) i j :
  choi_of_hs d B HS i j = op_of_vec (d * d) (bb_basis d B) (vecr (d * d) HS) i j.
Proof. rewrite choi_of_hs_cchoi, cchoi_as_op, op_of_vec_cvec. reflexivity. Qed.
Definition C11_gate_set (d : nat) (B : nat -> cmat F) (dd : F) : vec -> Prop :=
  fun v => HPSD (d * d) (op_of_vec (d * d) (bb_basis d B) v) /\ C11_rtrace (d * d) (op_of_vec (d * d) (bb_basis d B) v) = dd.
Lemma C11_gate_set_ball d B dd : basis_orthonormal d B -> basis_hermitian d B ->
  forall z, C11_gate_set d B dd z -> C11_nrm2 F ((d * d) * (d * d)) z <= dd * dd.
Proof. intros Ho Hb z [Pz Tz].
  pose proof (C11_coeff_norm_le_trace_sq (d * d) (bb_basis d B) z (bb_orthonormal F d B Ho) (bb_hermitian F d B Hb) Pz) as A.
  rewrite Tz in A. exact A. Qed.
Theorem C11_universal_gap_gates d (B : nat -> cmat F) (dd : F) (P : vec -> vec) (f : vec -> F) (g : vec -> vec) (mu : F) :
  basis_orthonormal d B -> basis_hermitian d B ->
  mu <> 0 -> 0 <= mu -> C11_obtuse F ((d * d) * (d * d)) (C11_gate_set d B dd) P -> C11_first_order_convex F ((d * d) * (d * d)) f g ->
  forall x r, let y := C11_dir F P g mu x in
  0 <= r -> C11_nrm2 F ((d * d) * (d * d)) y * ((1 + 1) * (dd * dd) + (1 + 1) * (dd * dd)) <= r * r ->
  forall z, C11_gate_set d B dd z -> f x - f z <= - dot ((d * d) * (d * d)) (g x) y + mu * r.
Proof. intros Ho Hb Hmu0 Hmu HP Hconv x r y Hr Hrr z Cz.
  exact (C11_universal_gap_ball ((d * d) * (d * d)) (C11_gate_set d B dd) P f g mu (dd * dd) Hmu0 Hmu HP Hconv
           (C11_gate_set_ball d B dd Ho Hb) x r Hr Hrr z Cz). Qed.
End C11_Diameter.
