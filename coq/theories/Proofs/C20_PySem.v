(* C20 — lemmas that connect the Python vocabulary of Model/C20_PySem.v with the vocabulary of the hand-written model
   (Model/C20_Schedule.v); used by coq/gen/C20_Equiv.v, which is re-checked on every run against the validators
   REGENERATED from quara's current source. *)
From Coq Require Import ZArith List Bool Arith String Lia.
From QV.Model Require Import C20_Schedule C20_PySem.
From QV.Proofs Require Import C20_Schedule C20_Tomo.
Import ListNotations.

(* how the results of the hand-written model read in the translator's result type *)
Definition fres_of_order (r : option order_reason) : fres :=
  match r with
  | None => FPass
  | Some TooShort => FRaise 0 "ValueError"
  | Some FirstNotState => FRaise 1 "ValueError"
  | Some LastNotMeasurement => FRaise 2 "ValueError"
  | Some TooManyStates => FRaise 3 "ValueError"
  | Some TooManyPovms => FRaise 4 "ValueError"
  end.
(* class guards: which of the two raise statements fired is not part of the model's result; the exception class is *)
Definition guard_sim (f : fres) (g : gres) : Prop :=
  match f, g with
  | FPass, GPass => True
  | FRaise _ e, GValueError => e = "ValueError"%string
  | FIndexError, GIndexError => True
  | _, _ => False
  end.
Definition gres_of (f : fres) : gres :=
  match f with FPass => GPass | FRaise _ _ => GValueError | FIndexError | FStuck => GIndexError end.
Lemma guard_sim_gres_of f g : guard_sim f g -> gres_of f = g.
Proof. destruct f, g; cbn; intros H; try contradiction; reflexivity. Qed.

(* the item validator: which raise statement fired is not part of the model's result; the exception class is *)
Definition exc_name (e : pyexc) : string :=
  match e with TypeError => "TypeError" | ValueError => "ValueError" | IndexError => "IndexError" end.
Definition item_sim (f : fres) (r : ires) : Prop :=
  match f, r with
  | FPass, IOk _ => True
  | FRaise _ e, IErr x => e = exc_name x
  | _, _ => False
  end.
(* the lists the item validator consults: objdict when given (and not empty), the experiment's own otherwise *)
Definition effective_cfg (self_ : cfg) (objdict : option cfg) : cfg := match objdict with Some d => d | None => self_ end.

(* ------------------------------------------------------------------ names *)
Lemma name_eqb_kind k k' : String.eqb (kind_name k) (kind_name k') = kind_eqb k k'.
Proof. destruct k, k'; reflexivity. Qed.
Lemma c_str_eq_kind k k' : c_str_eq (Some (kind_name k)) (Some (kind_name k')) = c_bool (kind_eqb k k').
Proof. cbn. now rewrite name_eqb_kind. Qed.
Lemma c_str_in_meas k : c_str_in (Some (kind_name k)) ["povm"%string; "mprocess"%string] = c_bool (is_meas k).
Proof. destruct k; reflexivity. Qed.

(* ------------------------------------------------------------------ lengths and counts *)
Lemma c_len_lt s n : c_z ZLt (py_len s) (Some (Z.of_nat n)) = c_bool (List.length s <? n)%nat.
Proof.
  unfold c_z, py_len. f_equal. destruct (Nat.ltb_spec (List.length s) n), (Z.ltb_spec (Z.of_nat (List.length s)) (Z.of_nat n)); try reflexivity; lia.
Qed.
Lemma c_len_eq s n : c_z ZEq (py_len s) (Some (Z.of_nat n)) = c_bool (List.length s =? n)%nat.
Proof.
  unfold c_z, py_len. f_equal. destruct (Nat.eqb_spec (List.length s) n), (Z.eqb_spec (Z.of_nat (List.length s)) (Z.of_nat n)); try reflexivity; lia.
Qed.
Lemma py_count_kind s k : py_count s (kind_name k) = Some (Z.of_nat (count_kind k s)).
Proof.
  unfold py_count, count_kind. do 3 f_equal. apply filter_ext. intros it. apply name_eqb_kind.
Qed.
Lemma c_count_ge s k n : c_z ZLe (Some (Z.of_nat n)) (py_count s (kind_name k)) = c_bool (n <=? count_kind k s)%nat.
Proof.
  rewrite py_count_kind. unfold c_z. f_equal.
  destruct (Nat.leb_spec n (count_kind k s)), (Z.leb_spec (Z.of_nat n) (Z.of_nat (count_kind k s))); try reflexivity; lia.
Qed.

(* ------------------------------------------------------------------ indexing *)
Lemma py_item_nat s n : py_item s (Z.of_nat n) = nth_error s n.
Proof. unfold py_item. destruct (Z.leb_spec 0 (Z.of_nat n)); [now rewrite Nat2Z.id|lia]. Qed.
Lemma py_item_first s : s <> [] -> py_item s 0 = Some (hd dflt_item s).
Proof. destruct s; [contradiction|reflexivity]. Qed.
Lemma nth_error_last {A} (s : list A) d : s <> [] -> nth_error s (List.length s - 1) = Some (last s d).
Proof.
  induction s as [|x s IH]; [contradiction|]. intros _. destruct s as [|y s]; [reflexivity|].
  specialize (IH ltac:(discriminate)). cbn [List.length] in *. replace (S (S (List.length s)) - 1)%nat with (S (S (List.length s) - 1)) by lia.
  cbn [nth_error]. rewrite IH. reflexivity.
Qed.
Lemma py_item_last s : s <> [] -> py_item s (-1) = Some (last s dflt_item).
Proof.
  intros H. unfold py_item. change (0 <=? -1)%Z with false. cbv iota.
  assert (L : (1 <= List.length s)%nat) by (destruct s; [contradiction|cbn; lia]).
  destruct (Z.leb_spec 0 (Z.of_nat (List.length s) + -1)); [|lia].
  replace (Z.to_nat (Z.of_nat (List.length s) + -1)) with (List.length s - 1)%nat by lia.
  now apply nth_error_last.
Qed.

(* ------------------------------------------------------------------ guard_from only looks at the guard's values *)
Lemma guard_from_ext g g' c ss : (forall s, g s = g' s) -> forall i, guard_from g c i ss = guard_from g' c i ss.
Proof. intros H. induction ss as [|s ss IH]; intros i; cbn; [reflexivity|]. rewrite H. destruct (g' _); auto. Qed.
Lemma tomo_run_with_ext g g' t ns np ss : (forall s, g s = g' s) -> tomo_run_with g t ns np ss = tomo_run_with g' t ns np ss.
Proof. intros H. unfold tomo_run_with. destruct (validate_schedules _ ss); try reflexivity. now apply guard_from_ext. Qed.

(* ------------------------------------------------------------------ part 2: values *)
Lemma cv_len_eq l n : cv_z ZEq (pv_len (Some (PTuple l))) (Some (Z.of_nat n)) = c_bool (List.length l =? n)%nat.
Proof.
  unfold cv_z, pv_len. f_equal. destruct (Nat.eqb_spec (List.length l) n), (Z.eqb_spec (Z.of_nat (List.length l)) (Z.of_nat n)); try reflexivity; lia.
Qed.
Lemma known_kind_name s :
  existsb (String.eqb s) ["state"; "povm"; "gate"; "mprocess"]%string = match kind_of_name s with Some _ => true | None => false end.
Proof.
  unfold kind_of_name. cbn [existsb].
  destruct (String.eqb s "state"), (String.eqb s "povm"), (String.eqb s "gate"), (String.eqb s "mprocess"); reflexivity.
Qed.

(* ------------------------------------------------------------------ part 3: procedures *)
(* how the model's verdicts read as propagating exceptions *)
Definition xres_of_vres (v : vres) : xres :=
  match v with
  | VOk => XPass
  | VItemError _ _ _ | VNonIter _ => XRaise "QuaraScheduleItemError"
  | VOrderError _ _ => XRaise "QuaraScheduleOrderError"
  end.
Lemma xres_of_vres_pass v : xres_of_vres v = XPass <-> v = VOk.
Proof. destruct v; cbn; split; intros H; try discriminate; reflexivity. Qed.
(* a raw schedule all of whose items validate is the raw form of the typed items *)
Lemma validate_items_parse c items j t : validate_items c j items = inl t -> parse_items items = Some t.
Proof. intros H. apply validate_items_inl_iff in H. destruct H as [-> _]. now apply parse_items_iff. Qed.
Lemma set_objs_with e k v : set_objs e k v = mkexp (with_objs (e_cfg e) k v) (e_scheds e).
Proof. reflexivity. Qed.

(* ------------------------------------------------------------------ calc_prob_dist *)
(* the model's outcome (Model/C20_Schedule.calc_prob_dist_pre) as "what is handed to compose_qoperations": the referenced
   objects in REVERSE schedule order (targets.appendleft), or the exception *)
Definition crun_of (r : C20_Schedule.cres) : crun :=
  match r with
  | CRun t => CRCompose (rev t)
  | CValueError _ => CRRaise "ValueError"
  | C20_Schedule.CIndexError => CRRaise "IndexError"
  | CTypeError => CRRaise "TypeError"
  | COther => CRStuck
  end.
Lemma collect_left_spec c exc t : forall acc p,
  collect_left c (map raw t) acc exc =
  match first_none c p t with Some _ => CRRaise exc | None => CRCompose (rev t ++ acc) end.
Proof.
  induction t as [|[k z] t IH]; intros acc p; [reflexivity|].
  cbn [map collect_left first_none]. replace (parse_item (raw (k, z))) with (Some (k, z)) by (symmetry; now apply parse_item_iff).
  unfold item_present. cbn [fst snd]. destruct (nth (Z.to_nat z) (objs c k) false); [|reflexivity].
  etransitivity; [apply (IH ((k, z) :: acc) (S p))|]. destruct (first_none c (S p) t); [reflexivity|].
  cbn [rev]. now rewrite <- app_assoc.
Qed.
Lemma cfg_eta c : mkcfg (c_states c) (c_povms c) (c_gates c) (c_mprocesses c) = c.
Proof. now destruct c. Qed.

(* ------------------------------------------------------------------ tomography constructors (schedule prologue) *)
Definition xres_of_tres (r : tres) : xres :=
  match r with
  | TOk => XPass
  | TExp v => xres_of_vres v
  | TGuardValueError _ | TStrValueError => XRaise "ValueError"
  | TGuardIndexError _ => XRaise "IndexError"
  end.
Lemma xres_of_tres_pass r : (forall v, r = TExp v -> v <> VOk) -> (xres_of_tres r = XPass <-> r = TOk).
Proof.
  intros H. destruct r as [|v| | |]; cbn; split; intros E; try discriminate; try reflexivity.
  exfalso. apply (H v eq_refl). now apply xres_of_vres_pass.
Qed.
(* the loop `for i, schedule in enumerate(schedules): <guard>` over schedules the Experiment accepted *)
Lemma guard_loop_sim (gen : list titem -> fres) t c ss :
  (forall s, guard_sim (gen s) (guard_one t s)) -> Forall (well_formed c) ss -> forall i,
  x_for ss (fun schedule => x_call_guard gen schedule) = xres_of_tres (guard_from (guard_one t) c i ss).
Proof.
  intros G W. induction W as [|s ss (items & -> & Hr & _) _ IH]; intros i; [reflexivity|].
  cbn [x_for guard_from]. fold (sched_of items). rewrite (typed_of_sched_of c items Hr).
  unfold x_call_guard, x_call_order, sched_of. replace (parse_items (map raw items)) with (Some items) by (symmetry; now apply parse_items_iff).
  specialize (G items). destruct (gen items), (guard_one t items); cbn in G; try contradiction; cbn [x_of_fres x_seq xres_of_tres].
  - apply IH.
  - now subst.
  - reflexivity.
Qed.
Lemma guard_from_not_exp g c ss : forall i v, guard_from g c i ss <> TExp v.
Proof. induction ss as [|s ss IH]; intros i v; cbn; [discriminate|]. destruct (g _); [apply IH|discriminate..]. Qed.
Lemma collect_right_spec c exc t : forall acc p,
  collect_right c (map raw t) acc exc =
  match first_none c p t with Some _ => CRRaise exc | None => CRCompose (acc ++ t) end.
Proof.
  induction t as [|[k z] t IH]; intros acc p; [cbn; now rewrite app_nil_r|].
  cbn [map collect_right first_none]. replace (parse_item (raw (k, z))) with (Some (k, z)) by (symmetry; now apply parse_item_iff).
  unfold item_present. cbn [fst snd]. destruct (nth (Z.to_nat z) (objs c k) false); [|reflexivity].
  etransitivity; [apply (IH (acc ++ [(k, z)]) (S p))|]. destruct (first_none c (S p) t); [reflexivity|].
  now rewrite <- app_assoc.
Qed.
(* both ways of writing the loop hand the objects to compose_qoperations in reverse schedule order *)
Lemma collect_left_crun c exc t :
  collect_left c (map raw t) [] exc = crun_of (match first_none c 0 t with Some p => CValueError p | None => CRun t end) \/ exc <> "ValueError"%string.
Proof.
  destruct (String.eqb_spec exc "ValueError") as [->|N]; [left|now right].
  rewrite (collect_left_spec c "ValueError" t [] 0). destruct (first_none c 0 t); cbn; [reflexivity|now rewrite app_nil_r].
Qed.
Lemma collect_right_crun c exc t :
  cr_rev (collect_right c (map raw t) [] exc) = crun_of (match first_none c 0 t with Some p => CValueError p | None => CRun t end) \/ exc <> "ValueError"%string.
Proof.
  destruct (String.eqb_spec exc "ValueError") as [->|N]; [left|now right].
  rewrite (collect_right_spec c "ValueError" t [] 0). destruct (first_none c 0 t); reflexivity.
Qed.
