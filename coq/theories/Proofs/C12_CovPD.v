(* C12 — the matrix that the inverse-covariance weighting modes invert,
     extracted q ncov n32 = (diag(q) - q q^T)[:-1,:-1] / ncov + I / n32      (q = replaced empirical distribution),
   is positive definite for every outcome count: its quadratic form is strictly positive on every non-zero vector, hence
   its kernel is trivial (np.linalg.inv is never handed a singular matrix).  Any ordered field; no axioms. *)
From Coq Require Import Ring Field Setoid Arith Lia Bool List.
From QV.Core Require Import OF Sums Mat.
From QV.Model Require Import C12_Loss.
Import ListNotations.

Section CovPD.
Context (F : OF).
Add Field Fpd : (k_field F).
Notation "0" := (c0 F). Notation "1" := (c1 F).
Infix "+" := (cadd F). Infix "*" := (cmul F). Infix "-" := (csub F). Infix "/" := (kdiv F).
Infix "<=" := (kle F).
Notation mat := (@mat F). Notation vec := (@vec F).

Lemma dd (x y : F) : x / y = x * kinv F y.
Proof. exact (Fdiv_def (k_field F) x y). Qed.

Lemma sumn_nonneg' n (f : nat -> F) : (forall i, (i < n)%nat -> 0 <= f i) -> 0 <= sumn n f.
Proof. induction n as [|n IH]; intros H; cbn.
  - apply (k_refl F).
  - apply (add_nonneg F); [apply IH; intros i Hi; apply H; lia|apply H; lia]. Qed.

Lemma half_nonneg y : 0 <= y + y -> 0 <= y.
Proof. intros H. assert (T : 1 + 1 <> 0) by (apply (double_neq0 F); apply (one_neq_zero F)).
  replace y with ((y + y) * (1 / (1 + 1))) by (field; exact T).
  apply (k_mul F); [exact H|]. apply (inv_nonneg F); [exact T|].
  apply (add_nonneg F); apply (one_nonneg F). Qed.

(* weighted Cauchy-Schwarz through the double sum  sum_ij q_i q_j (x_i - x_j)^2 = 2 (s b - a^2) *)
Lemma weighted_cs k (q x : vec) : (forall i, (i < k)%nat -> 0 <= q i) ->
  0 <= sumn k q * sumn k (fun i => q i * (x i * x i)) - sumn k (fun i => q i * x i) * sumn k (fun i => q i * x i).
Proof. intros Hq. apply half_nonneg.
  set (s := sumn k q). set (b := sumn k (fun i => q i * (x i * x i))). set (a := sumn k (fun i => q i * x i)).
  assert (E : sumn k (fun i => sumn k (fun j => (q i * q j) * ((x i - x j) * (x i - x j))))
              = (s * b - a * a) + (s * b - a * a)).
  { rewrite (sumn_ext k _ (fun i => sumn k (fun j => (q i * (x i * x i)) * q j)
                                     - (sumn k (fun j => (q i * x i) * (q j * x j)) + sumn k (fun j => (q i * x i) * (q j * x j)))
                                     + sumn k (fun j => q i * (q j * (x j * x j))))).
    2:{ intros i _. rewrite <- sumn_add, <- sumn_sub, <- sumn_add. apply sumn_ext; intros j _. ring. }
    rewrite sumn_add, sumn_sub, sumn_add.
    rewrite <- !sumn_mul. fold s b a. ring. }
  rewrite <- E. apply sumn_nonneg'; intros i Hi. apply sumn_nonneg'; intros j Hj.
  apply (k_mul F); [apply (k_mul F); apply Hq; assumption|apply (sqr_nonneg F)]. Qed.

Lemma variance_nonneg k (q x : vec) : (forall i, (i < k)%nat -> 0 <= q i) -> sumn k q <= 1 ->
  0 <= sumn k (fun i => q i * (x i * x i)) - sumn k (fun i => q i * x i) * sumn k (fun i => q i * x i).
Proof. intros Hq Hs.
  set (s := sumn k q). set (b := sumn k (fun i => q i * (x i * x i))). set (a := sumn k (fun i => q i * x i)).
  replace (b - a * a) with ((1 - s) * b + (s * b - a * a)) by ring.
  apply (add_nonneg F).
  - apply (k_mul F); [exact (proj1 (le_sub F s 1) Hs)|].
    apply sumn_nonneg'; intros i Hi. apply (k_mul F); [now apply Hq|apply (sqr_nonneg F)].
  - now apply weighted_cs. Qed.

(* the quadratic form of the regularised block, split into its two parts *)
Lemma qfm_extracted k (q x : vec) ncov n32 :
  qfm k (extracted F q ncov n32) x
  = (sumn k (fun i => q i * (x i * x i)) - sumn k (fun i => q i * x i) * sumn k (fun i => q i * x i)) * (1 / ncov)
    + sumn k (fun i => x i * x i) * (1 / n32).
Proof. unfold qfm, extracted, cov_mat.
  rewrite (sumn_ext k _ (fun a => (q a * (x a * x a) - (q a * x a) * sumn k (fun c => q c * x c)) * (1 / ncov) + (x a * x a) * (1 / n32))).
  - rewrite sumn_add, !sumn_scale_r, sumn_sub, sumn_scale_r. reflexivity.
  - intros a Ha.
    rewrite (sumn_ext k _ (fun c => (if Nat.eqb c a then (x a * q a * x c) * (1 / ncov) + (x a * x c) * (1 / n32) else 0)
                                    - (x a * q a * (1 / ncov)) * (q c * x c))).
    2:{ intros c _. rewrite (Nat.eqb_sym c a). rewrite !dd. destruct (Nat.eqb a c); ring. }
    rewrite sumn_sub, (sumn_delta k a (fun c => (x a * q a * x c) * (1 / ncov) + (x a * x c) * (1 / n32)) Ha), sumn_scale_l. ring. Qed.

(* positive definite: non-negative, and zero only at the zero vector *)
Theorem extracted_positive_definite k (q x : vec) ncov n32 :
  (forall i, (i < k)%nat -> 0 <= q i) -> sumn k q <= 1 -> 0 <= ncov -> ncov <> 0 -> 0 <= n32 -> n32 <> 0 ->
  0 <= qfm k (extracted F q ncov n32) x /\
  (qfm k (extracted F q ncov n32) x = 0 -> forall i, (i < k)%nat -> x i = 0).
Proof. intros Hq Hs Hc Hc0 Hn Hn0. rewrite qfm_extracted.
  set (V := sumn k (fun i => q i * (x i * x i)) - sumn k (fun i => q i * x i) * sumn k (fun i => q i * x i)).
  set (S := sumn k (fun i => x i * x i)).
  assert (HV : 0 <= V * (1 / ncov)).
  { apply (k_mul F); [now apply variance_nonneg|now apply (inv_nonneg F)]. }
  assert (HS : 0 <= S) by (apply sumn_nonneg'; intros i _; apply (sqr_nonneg F)).
  assert (HS' : 0 <= S * (1 / n32)) by (apply (k_mul F); [exact HS|now apply (inv_nonneg F)]).
  split; [now apply (add_nonneg F)|].
  intros E.
  assert (E2 : S * (1 / n32) = 0).
  { apply (k_antisym F); [|exact HS']. rewrite <- E. apply (le_sub F).
    replace (V * (1 / ncov) + S * (1 / n32) - S * (1 / n32)) with (V * (1 / ncov)) by ring. exact HV. }
  assert (E3 : S = 0).
  { replace S with ((S * (1 / n32)) * n32) by (field; exact Hn0). rewrite E2. ring. }
  clear - E3 HS. unfold S in *. clear S HS. revert E3. induction k as [|k IH]; intros E i Hi; [lia|].
  cbn in E.
  assert (A1 : 0 <= sumn k (fun i => x i * x i)) by (apply sumn_nonneg'; intros j _; apply (sqr_nonneg F)).
  assert (A2 : 0 <= x k * x k) by apply (sqr_nonneg F).
  assert (Z2 : x k * x k = 0).
  { apply (k_antisym F); [|exact A2]. rewrite <- E. apply (le_sub F).
    replace (sumn k (fun i => x i * x i) + x k * x k - x k * x k) with (sumn k (fun i => x i * x i)) by ring. exact A1. }
  assert (Z1 : sumn k (fun i => x i * x i) = 0) by (rewrite Z2 in E; rewrite <- E; ring).
  destruct (Nat.eq_dec i k) as [->|Hne].
  - apply (sum_sqr_zero F (x k) 0). rewrite Z2. ring.
  - apply IH; [exact Z1|lia]. Qed.

(* consequence: the kernel is trivial, so a singular matrix is never inverted *)
Corollary extracted_kernel_trivial k (q x : vec) ncov n32 :
  (forall i, (i < k)%nat -> 0 <= q i) -> sumn k q <= 1 -> 0 <= ncov -> ncov <> 0 -> 0 <= n32 -> n32 <> 0 ->
  (forall a, (a < k)%nat -> mv k (extracted F q ncov n32) x a = 0) -> forall i, (i < k)%nat -> x i = 0.
Proof. intros Hq Hs Hc Hc0 Hn Hn0 Hk.
  apply (proj2 (extracted_positive_definite k q x ncov n32 Hq Hs Hc Hc0 Hn Hn0)).
  unfold qfm. apply sumn_zero'. intros a Ha.
  rewrite (sumn_ext k _ (fun c => x a * (extracted F q ncov n32 a c * x c))) by (intros; ring).
  rewrite sumn_scale_l. fold (mv k (extracted F q ncov n32) x a). rewrite (Hk a Ha). ring. Qed.

Lemma main_regularised_block_positive_definite k (q : vec) ncov n32 :
  (forall i, (i < k)%nat -> 0 <= q i) -> sumn k q <= 1 -> 0 <= ncov -> ncov <> 0 -> 0 <= n32 -> n32 <> 0 ->
  forall x : vec,
    0 <= qfm k (extracted F q ncov n32) x /\
    (qfm k (extracted F q ncov n32) x = 0 -> forall i, (i < k)%nat -> x i = 0) /\
    ((forall a, (a < k)%nat -> mv k (extracted F q ncov n32) x a = 0) -> forall i, (i < k)%nat -> x i = 0).
Proof. intros Hq Hs Hc Hc0 Hn Hn0 x.
  destruct (extracted_positive_definite k q x ncov n32 Hq Hs Hc Hc0 Hn Hn0) as [H1 H2].
  split; [exact H1|]. split; [exact H2|]. now apply extracted_kernel_trivial. Qed.
End CovPD.
