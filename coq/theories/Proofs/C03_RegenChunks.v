(* C03 — the model's regeneration loop (Model/C03_SetQOps.regen: cut firstn n v, continue on skipn n v) is generate_from_var applied,
   operation by operation, to the pieces [chunks_model] of the variable counts.  Together with coq/gen/C03_SetEquiv.v
   (regen_plan_slices_are_model_chunks: the slices var_total[start:end] of the REGENERATED loop are those pieces) this ties the loop
   skeleton of set_qoperations_from_var_total to the model, the call of generate_from_var being the only oracle left in between. *)
From Coq Require Import ZArith Bool List Arith Lia.
From QV.Core Require Import OF.
From QV.Model Require Import C03_VarObj C03_SetQOps C03_PySem.
Import ListNotations.

Section RC.
Context (F : OF).
Fixpoint regen_by_chunks (sdf : nat -> F) (ops : list (qop F)) (pieces : list (list F)) : option (list (qop F)) :=
  match ops, pieces with
  | [], _ => Some []
  | o :: t, p :: ps => match qop_from_var F sdf o p with
                       | None => None
                       | Some o' => option_map (cons o') (regen_by_chunks sdf t ps)
                       end
  | _ :: _, [] => None
  end.
Definition var_counts (ops : list (qop F)) : list Z := map (fun o => Z.of_nat (List.length (qop_to_var F o))) ops.

Theorem regen_is_chunks sdf : forall (ops : list (qop F)) (v : list F),
  option_map fst (regen F sdf ops v) = regen_by_chunks sdf ops (chunks_model (var_counts ops) v).
Proof. induction ops as [|o t IH]; intros v; [reflexivity|].
  cbn [regen var_counts map chunks_model regen_by_chunks]. rewrite Nat2Z.id.
  destruct (qop_from_var F sdf o (firstn (List.length (qop_to_var F o)) v)) as [o'|]; [|reflexivity].
  fold (var_counts t). rewrite <- IH. destruct (regen F sdf t (skipn (List.length (qop_to_var F o)) v)) as [[t' r]|]; reflexivity. Qed.
End RC.
