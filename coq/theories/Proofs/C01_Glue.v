(* C01 — facts about the glue semantics (Model/C01_Glue.v) used by coq/gen/C01_Equiv.v: an element loop with early `return False`
   is the conjunction over the elements. *)
From Coq Require Import String List Bool Arith Lia.
From QV.Core Require Import OF.
From QV.Model Require Import HermEmbed C01_Verdicts C01_Glue.
From QV.Proofs Require Import C01_Verdicts.
Import ListNotations.

Lemma allb_peel_first n (q : nat -> bool) : allb (S n) q = q 0%nat && allb n (fun j => q (S j)).
Proof. induction n as [|n IH]. { cbn. now rewrite andb_true_r. }
  change (allb (S (S n)) q) with (allb (S n) q && q (S n)). rewrite IH. cbn [allb]. now rewrite andb_assoc. Qed.

Lemma scan_ext f f' s n : (forall j, f j = f' j) -> scan f s n = scan f' s n.
Proof. intros E. revert s. induction n as [|n IH]; intros s; cbn [scan]; [reflexivity|]. now rewrite E, IH. Qed.

Lemma scan_allb_from (p : nat -> bool) s n :
  scan (fun j => if p j then OPass else ORet false) s n = if allb n (fun j => p (s + j)%nat) then OPass else ORet false.
Proof. revert s. induction n as [|n IH]; intros s; [reflexivity|]. cbn [scan]. rewrite allb_peel_first, Nat.add_0_r.
  destruct (p s); cbn [andb]; [|reflexivity]. rewrite IH.
  rewrite (allb_ext n (fun j => p (S s + j)%nat) (fun j => p (s + S j)%nat)); [reflexivity|]. intros j _. f_equal. lia. Qed.

(* the loop `for x in xs: if not p(x): return False` followed by `return True` *)
Lemma scan_allb (f : nat -> outcome) (p : nat -> bool) n :
  (forall j, f j = if p j then OPass else ORet false) ->
  scan f 0 n = if allb n p then OPass else ORet false.
Proof. intros E. rewrite (scan_ext f _ 0 n E), scan_allb_from. reflexivity. Qed.

Lemma keqb_refl (F : OF) (x : F) : keqb F x x = true.
Proof. now apply keqb_spec. Qed.
