(* C18 — extraction / rebuild / sums of parts / inequality projection stated for ARBITRARY Hermitian inputs:
   with a complete Hermitian orthonormal basis every Hermitian matrix is  op_of_vec  of its real coefficient vector
   (C02_QObjBase.op_of_vec_of_op), so the theorems of C18_Extract / C18_Rebuild, which are stated for generators
   lcb_hjk (sum h_a B_a) (sum j_a B_a) K, apply to  generate_hs_from_hjk(H, J, K)  and  generate_hs_from_hk(H, K)
   for all Hermitian H, J and every coefficient matrix K.  Generic in the ordered field; axiom-free. *)
From Coq Require Import Field Ring Setoid Arith Lia Bool List.
From QV.Core Require Import OF Sums Mat Cplx.
From QV.Model Require Import QObj C18_Lindblad.
From QV.Proofs Require Import C02_QObjBase C18_Algebra C18_Misc C18_Action C18_Extract C18_Rebuild.
Import ListNotations.

Section Hermitian.
Context (F : OF).
Notation Cx := (CF F).
Notation cmat := (cmat F).
Notation rvec := (rvec F).

Variable d : nat.
Hypothesis Hd : (0 < d)%nat.
Variable B : nat -> cmat.
Variable sd : F.
Hypothesis Horth : basis_orthonormal d B.
Hypothesis Hherm : basis_hermitian d B.
Hypothesis H0 : basis_0th_identity d sd B.
Hypothesis Hsd : cmul F sd sd = ofnat d.
Hypothesis Hcomp : basis_complete d B.
Notation n := (d * d)%nat.
Notation m := (d * d - 1)%nat.

Lemma herm_as_opv (X : cmat) : hermitian d X -> meq d d X (op_of_vec d B (vec_of_op d B X)).
Proof. intros HX i j Hi Hj. symmetry. now apply op_of_vec_of_op. Qed.

Lemma rebuild_cb_ext (L L' : cmat) : meq n n L L' -> meq n n (rebuild_cb d B L) (rebuild_cb d B L').
Proof. intros E. unfold rebuild_cb. apply (lcb_hjk_ext F d Hd B).
  - now apply calc_h_mat_ext.
  - now apply calc_j_mat_ext.
  - now apply calc_k_mat_ext. Qed.

Section HJK.
Variables (H J K : cmat).
Hypothesis HH : hermitian d H.
Hypothesis HJ : hermitian d J.
Let hv : rvec := vec_of_op d B H.
Let jv : rvec := vec_of_op d B J.
Let L : cmat := lcb_hjk d B H J K.
Let L' : cmat := lcb_hjk d B (op_of_vec d B hv) (op_of_vec d B jv) K.

Lemma L_form : meq n n L L'.
Proof. unfold L, L'. apply (lcb_hjk_ext F d Hd B); [now apply herm_as_opv|now apply herm_as_opv|apply meq_refl]. Qed.

(* calc_j_mat returns J, calc_k_mat returns K, calc_h_mat returns H minus its identity component *)
Theorem extract_hjk :
  meq d d (calc_j_mat d B L) J /\ meq m m (calc_k_mat d B L) K /\
  meq d d (calc_h_mat d B L) (fun i j => csub Cx (H i j) (cmul Cx (zof (hv 0%nat)) (B 0%nat i j))).
Proof. split; [|split].
  - intros i j Hi Hj. rewrite (calc_j_mat_ext F d B _ _ L_form i j Hi Hj). unfold L'.
    rewrite (extract_j F d Hd B sd Horth Hherm H0 Hsd hv jv K i j Hi Hj). symmetry. now apply herm_as_opv.
  - intros a b Ha Hb. rewrite (calc_k_mat_ext F d B _ _ L_form a b Ha Hb). unfold L'.
    apply (extract_k F d Hd B sd Horth Hherm H0 hv jv K a b Ha Hb).
  - intros i j Hi Hj. rewrite (calc_h_mat_ext F d B _ _ L_form i j Hi Hj). unfold L'.
    rewrite (extract_h F d Hd B sd Horth Hherm H0 Hsd hv jv K i j Hi Hj).
    rewrite (opv_drop0 F d Hd B hv i j). f_equal. symmetry. now apply herm_as_opv. Qed.

Theorem rebuild_hjk : meq n n (rebuild_cb d B L) L.
Proof. intros s t Hs Ht. rewrite (rebuild_cb_ext L L' L_form s t Hs Ht). unfold L' at 1.
  rewrite (rebuild_id F d Hd B sd Horth Hherm H0 Hsd hv jv K s t Hs Ht). symmetry. now apply L_form. Qed.

Theorem parts_sum_hjk_B a b :
  cadd Cx (cadd Cx (chs_of_cb d B (h_part d (calc_h_mat d B L)) a b) (chs_of_cb d B (j_part d (calc_j_mat d B L)) a b))
          (chs_of_cb d B (k_part d B (calc_k_mat d B L)) a b) = chs_of_cb d B L a b.
Proof. rewrite <- !(chs_of_cb_madd F d Hd B). apply (chs_of_cb_ext F d B). exact rebuild_hjk. Qed.

Theorem proj_ineq_hjk (K' : cmat) :
  meq m m (calc_k_mat d B (proj_ineq_cb d B L K')) K' /\
  meq d d (calc_h_mat d B (proj_ineq_cb d B L K')) (calc_h_mat d B L) /\
  meq d d (calc_j_mat d B (proj_ineq_cb d B L K')) (calc_j_mat d B L) /\
  (meq m m K' K -> meq n n (proj_ineq_cb d B L K') L).
Proof.
  assert (E : meq n n (proj_ineq_cb d B L K') (proj_ineq_cb d B L' K')).
  { unfold proj_ineq_cb. apply (lcb_hjk_ext F d Hd B); [apply calc_h_mat_ext, L_form|apply calc_j_mat_ext, L_form|apply meq_refl]. }
  destruct (proj_ineq_spec F d Hd B sd Horth Hherm H0 Hsd hv jv K K') as [A [C [D G]]]. fold L' in A, C, D, G.
  split; [|split; [|split]].
  - intros a b Ha Hb. rewrite (calc_k_mat_ext F d B _ _ E a b Ha Hb). now apply A.
  - intros i j Hi Hj. rewrite (calc_h_mat_ext F d B _ _ E i j Hi Hj), (C i j Hi Hj). symmetry. exact (calc_h_mat_ext F d B _ _ L_form i j Hi Hj).
  - intros i j Hi Hj. rewrite (calc_j_mat_ext F d B _ _ E i j Hi Hj), (D i j Hi Hj). symmetry. exact (calc_j_mat_ext F d B _ _ L_form i j Hi Hj).
  - intros HK s t Hs Ht. rewrite (E s t Hs Ht), (G HK s t Hs Ht). symmetry. now apply L_form. Qed.
End HJK.

(* generate_hs_from_hk: J = J(K) is Hermitian when K is *)
Section HK.
Variables (H K : cmat).
Hypothesis HH : hermitian d H.
Hypothesis HK : hermitian m K.
Lemma j_of_k_hermitian : hermitian d (j_of_k d B K).
Proof. intros i j _ _. now apply j_of_k_herm. Qed.

Theorem extract_hk :
  meq d d (calc_j_mat d B (lcb_hk d B H K)) (j_of_k d B K) /\ meq m m (calc_k_mat d B (lcb_hk d B H K)) K /\
  meq d d (calc_h_mat d B (lcb_hk d B H K)) (fun i j => csub Cx (H i j) (cmul Cx (zof (vec_of_op d B H 0%nat)) (B 0%nat i j))).
Proof. exact (extract_hjk H (j_of_k d B K) K HH j_of_k_hermitian). Qed.
Theorem rebuild_hk : meq n n (rebuild_cb d B (lcb_hk d B H K)) (lcb_hk d B H K).
Proof. exact (rebuild_hjk H (j_of_k d B K) K HH j_of_k_hermitian). Qed.
End HK.
End Hermitian.
