(* C18 — extraction / rebuild / sums of parts / inequality projection stated for ARBITRARY Hermitian inputs:
   with a complete Hermitian orthonormal basis every Hermitian matrix is  op_of_vec  of its real coefficient vector
   ([op_of_vec_of_op] below, proved here so that this file depends on C18 files only), so the theorems of C18_Extract / C18_Rebuild, which are stated for generators
   lcb_hjk (sum h_a B_a) (sum j_a B_a) K, apply to  generate_hs_from_hjk(H, J, K)  and  generate_hs_from_hk(H, K)
   for all Hermitian H, J and every coefficient matrix K.  Generic in the ordered field; axiom-free. *)
From Coq Require Import Field Ring Setoid Arith Lia Bool List.
From QV.Core Require Import OF Sums Mat Cplx.
From QV.Model Require Import QObj C18_Lindblad.
From QV.Proofs Require Import C18_Algebra C18_Misc C18_Action C18_Extract C18_Rebuild.
Import ListNotations.

(* ---------------------------------------------------------------- a Hermitian matrix is the op_of_vec of its real coefficients *)
Section Expand.
Context (F : OF).
Add Field Ffx : (k_field F).
Notation Cx := (CF F).
Add Ring Crx : (c_ring Cx).
Notation cmat := (cmat F).
Notation rvec := (rvec F).
Notation "x +c y" := (cadd Cx x y) (at level 50, left associativity).
Notation "x *c y" := (cmul Cx x y) (at level 40, left associativity).
Notation "0c" := (c0 Cx).
Variable d : nat.
Variable B : nat -> cmat.
Hypothesis Hherm : basis_hermitian d B.
Hypothesis Hcomp : basis_complete d B.

Lemma hs_inner_herm_self_conj (A X : cmat) : hermitian d A -> hermitian d X -> zconj (hs_inner d A X) = hs_inner d A X.
Proof. intros HA HX. unfold hs_inner. rewrite cj_sum.
  rewrite (sumn_ext d _ (fun i => sumn d (fun j => zconj (A j i) *c X j i))).
  2:{ intros i Hi. rewrite cj_sum. apply (@sumn_ext Cx); intros j Hj.
      rewrite cj_mul, cj_cj. rewrite (HA i j Hi Hj), (HX i j Hi Hj), cj_cj. ring. }
  exact (@sumn_swap Cx d d (fun i j => zconj (A j i) *c X j i)). Qed.
Lemma self_conj_zof (z : Cx) : zconj z = z -> z = zof (re z).
Proof. intros E. apply cplx_eq; [reflexivity|]. cbn. apply (f_equal im) in E. cbn [zconj im snd] in E.
  set (x := im z) in *.
  destruct (keqb F x (c0 F)) eqn:Eq. { now apply keqb_spec. }
  exfalso. assert (Hx : x <> c0 F). { intros E0. apply keqb_spec in E0. congruence. }
  apply (double_neq0 F x Hx). replace (cadd F x x) with (csub F x (copp F x)) by ring. rewrite E. ring. Qed.

Lemma op_of_vec_of_op (X : cmat) : hermitian d X -> meq d d (op_of_vec d B (vec_of_op d B X)) X.
Proof. intros HX i j Hi Hj. unfold op_of_vec, vec_of_op.
  rewrite (sumn_ext (d * d) _ (fun a => sumn d (fun k => sumn d (fun l => X k l *c (zconj (B a k l) *c B a i j))))).
  2:{ intros a Ha. rewrite <- (self_conj_zof _ (hs_inner_herm_self_conj (B a) X (Hherm a Ha) HX)).
      unfold hs_inner. rewrite <- sumn_scale_r. apply (@sumn_ext Cx); intros k _.
      rewrite <- sumn_scale_r. apply (@sumn_ext Cx); intros l _. ring. }
  rewrite sumn_swap.
  rewrite (sumn_ext d _ (fun k => sumn d (fun l => if Nat.eqb k i && Nat.eqb l j then X k l else 0c))).
  2:{ intros k Hk. rewrite sumn_swap. apply (@sumn_ext Cx); intros l Hl.
      rewrite sumn_scale_l, (Hcomp k l i j Hk Hl Hi Hj). destruct (Nat.eqb k i && Nat.eqb l j); ring. }
  rewrite (sumn_ext d _ (fun k => if Nat.eqb k i then X k j else 0c)).
  2:{ intros k Hk. destruct (Nat.eqb k i); cbn [andb].
      - exact (sumn_delta d j (fun l => X k l) Hj).
      - apply sumn_zero'. intros; reflexivity. }
  exact (sumn_delta d i (fun k => X k j) Hi). Qed.
End Expand.

Section Hermitian.
Context (F : OF).
Notation Cx := (CF F).
Notation cmat := (cmat F).
Notation rvec := (rvec F).

Variable d : nat.
Hypothesis Hd : (0 < d)%nat.
Variable B : nat -> cmat.
Variable sd : F.
Hypothesis Horth : basis_orthonormal d B.
Hypothesis Hherm : basis_hermitian d B.
Hypothesis H0 : basis_0th_identity d sd B.
Hypothesis Hsd : cmul F sd sd = ofnat d.
Hypothesis Hcomp : basis_complete d B.
Notation n := (d * d)%nat.
Notation m := (d * d - 1)%nat.

Lemma herm_as_opv (X : cmat) : hermitian d X -> meq d d X (op_of_vec d B (vec_of_op d B X)).
Proof. intros HX i j Hi Hj. symmetry. now apply (op_of_vec_of_op F d B Hherm Hcomp X HX i j Hi Hj). Qed.

Lemma rebuild_cb_ext (L L' : cmat) : meq n n L L' -> meq n n (rebuild_cb d B L) (rebuild_cb d B L').
Proof. intros E. unfold rebuild_cb. apply (lcb_hjk_ext F d Hd B).
  - now apply calc_h_mat_ext.
  - now apply calc_j_mat_ext.
  - now apply calc_k_mat_ext. Qed.

Section HJK.
Variables (H J K : cmat).
Hypothesis HH : hermitian d H.
Hypothesis HJ : hermitian d J.
Let hv : rvec := vec_of_op d B H.
Let jv : rvec := vec_of_op d B J.
Let L : cmat := lcb_hjk d B H J K.
Let L' : cmat := lcb_hjk d B (op_of_vec d B hv) (op_of_vec d B jv) K.

Lemma L_form : meq n n L L'.
Proof. unfold L, L'. apply (lcb_hjk_ext F d Hd B); [now apply herm_as_opv|now apply herm_as_opv|apply meq_refl]. Qed.

(* calc_j_mat returns J, calc_k_mat returns K, calc_h_mat returns H minus its identity component *)
Theorem extract_hjk :
  meq d d (calc_j_mat d B L) J /\ meq m m (calc_k_mat d B L) K /\
  meq d d (calc_h_mat d B L) (fun i j => csub Cx (H i j) (cmul Cx (zof (hv 0%nat)) (B 0%nat i j))).
Proof. split; [|split].
  - intros i j Hi Hj. rewrite (calc_j_mat_ext F d B _ _ L_form i j Hi Hj). unfold L'.
    rewrite (extract_j F d Hd B sd Horth Hherm H0 Hsd hv jv K i j Hi Hj). symmetry. now apply herm_as_opv.
  - intros a b Ha Hb. rewrite (calc_k_mat_ext F d B _ _ L_form a b Ha Hb). unfold L'.
    apply (extract_k F d Hd B sd Horth Hherm H0 hv jv K a b Ha Hb).
  - intros i j Hi Hj. rewrite (calc_h_mat_ext F d B _ _ L_form i j Hi Hj). unfold L'.
    rewrite (extract_h F d Hd B sd Horth Hherm H0 Hsd hv jv K i j Hi Hj).
    rewrite (opv_drop0 F d Hd B hv i j). f_equal. symmetry. now apply herm_as_opv. Qed.

Theorem rebuild_hjk : meq n n (rebuild_cb d B L) L.
Proof. intros s t Hs Ht. rewrite (rebuild_cb_ext L L' L_form s t Hs Ht). unfold L' at 1.
  rewrite (rebuild_id F d Hd B sd Horth Hherm H0 Hsd hv jv K s t Hs Ht). symmetry. now apply L_form. Qed.

Theorem parts_sum_hjk_B a b :
  cadd Cx (cadd Cx (chs_of_cb d B (h_part d (calc_h_mat d B L)) a b) (chs_of_cb d B (j_part d (calc_j_mat d B L)) a b))
          (chs_of_cb d B (k_part d B (calc_k_mat d B L)) a b) = chs_of_cb d B L a b.
Proof. rewrite <- !(chs_of_cb_madd F d Hd B). apply (chs_of_cb_ext F d B). exact rebuild_hjk. Qed.

Theorem proj_ineq_hjk (K' : cmat) :
  meq m m (calc_k_mat d B (proj_ineq_cb d B L K')) K' /\
  meq d d (calc_h_mat d B (proj_ineq_cb d B L K')) (calc_h_mat d B L) /\
  meq d d (calc_j_mat d B (proj_ineq_cb d B L K')) (calc_j_mat d B L) /\
  (meq m m K' K -> meq n n (proj_ineq_cb d B L K') L).
Proof.
  assert (E : meq n n (proj_ineq_cb d B L K') (proj_ineq_cb d B L' K')).
  { unfold proj_ineq_cb. apply (lcb_hjk_ext F d Hd B); [apply calc_h_mat_ext, L_form|apply calc_j_mat_ext, L_form|apply meq_refl]. }
  destruct (proj_ineq_spec F d Hd B sd Horth Hherm H0 Hsd hv jv K K') as [A [C [D G]]]. fold L' in A, C, D, G.
  split; [|split; [|split]].
  - intros a b Ha Hb. rewrite (calc_k_mat_ext F d B _ _ E a b Ha Hb). now apply A.
  - intros i j Hi Hj. rewrite (calc_h_mat_ext F d B _ _ E i j Hi Hj), (C i j Hi Hj). symmetry. exact (calc_h_mat_ext F d B _ _ L_form i j Hi Hj).
  - intros i j Hi Hj. rewrite (calc_j_mat_ext F d B _ _ E i j Hi Hj), (D i j Hi Hj). symmetry. exact (calc_j_mat_ext F d B _ _ L_form i j Hi Hj).
  - intros HK s t Hs Ht. rewrite (E s t Hs Ht), (G HK s t Hs Ht). symmetry. now apply L_form. Qed.
End HJK.

(* generate_hs_from_hk: J = J(K) is Hermitian when K is *)
Section HK.
Variables (H K : cmat).
Hypothesis HH : hermitian d H.
Hypothesis HK : hermitian m K.
Lemma j_of_k_hermitian : hermitian d (j_of_k d B K).
Proof. intros i j _ _. now apply j_of_k_herm. Qed.

Theorem extract_hk :
  meq d d (calc_j_mat d B (lcb_hk d B H K)) (j_of_k d B K) /\ meq m m (calc_k_mat d B (lcb_hk d B H K)) K /\
  meq d d (calc_h_mat d B (lcb_hk d B H K)) (fun i j => csub Cx (H i j) (cmul Cx (zof (vec_of_op d B H 0%nat)) (B 0%nat i j))).
Proof. exact (extract_hjk H (j_of_k d B K) K HH j_of_k_hermitian). Qed.
Theorem rebuild_hk : meq n n (rebuild_cb d B (lcb_hk d B H K)) (lcb_hk d B H K).
Proof. exact (rebuild_hjk H (j_of_k d B K) K HH j_of_k_hermitian). Qed.
End HK.
End Hermitian.
