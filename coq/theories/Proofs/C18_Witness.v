(* C18 — executable checkers for the basis predicates, the standing non-vacuity example (2-qubit normalised Pauli basis,
   exact over Qc, sd = 2) and the concrete witnesses of the refutations. *)
From Coq Require Import ZArith QArith Qcanon Field Ring Setoid Arith Lia Bool List.
From QV.Core Require Import OF QcOF Sums Mat Cplx.
From QV.Model Require Import QObj HermEmbed C18_Lindblad.
From QV.Proofs Require Import C18_Algebra C18_Misc C18_Extract C18_Rebuild.
Import ListNotations.

Section Checkers.
Context (F : OF).
Notation Cx := (CF F).
Notation cmat := (cmat F).
Definition ceqb (x y : Cx) : bool := keqb F (re x) (re y) && keqb F (im x) (im y).
Lemma ceqb_spec x y : ceqb x y = true <-> x = y.
Proof. unfold ceqb. rewrite andb_true_iff, !keqb_spec. split.
  - intros [A C]. now apply cplx_eq.
  - intros ->. now split. Qed.
Definition meqb (r c : nat) (A A' : cmat) : bool := allb r (fun i => allb c (fun j => ceqb (A i j) (A' i j))).
Lemma meqb_spec r c A A' : meqb r c A A' = true <-> meq r c A A'.
Proof. unfold meqb. rewrite allb_spec. split.
  - intros H i j Hi Hj. specialize (H i Hi). rewrite allb_spec in H. now apply ceqb_spec, H.
  - intros H i Hi. rewrite allb_spec. intros j Hj. now apply ceqb_spec, H. Qed.
Definition basis_orthonormal_b (d : nat) (B : nat -> cmat) : bool :=
  allb (d * d) (fun a => allb (d * d) (fun b => ceqb (hs_inner d (B a) (B b)) (if Nat.eqb a b then c1 Cx else c0 Cx))).
Definition basis_hermitian_b (d : nat) (B : nat -> cmat) : bool :=
  allb (d * d) (fun a => allb d (fun i => allb d (fun j => ceqb (B a i j) (zconj (B a j i))))).
Definition basis_0th_b (d : nat) (sd : F) (B : nat -> cmat) : bool :=
  allb d (fun i => allb d (fun j => ceqb (cmul Cx (zof sd) (B 0%nat i j)) (if Nat.eqb i j then c1 Cx else c0 Cx))).
Lemma basis_orthonormal_b_ok d B : basis_orthonormal_b d B = true -> basis_orthonormal d B.
Proof. unfold basis_orthonormal_b. rewrite allb_spec. intros H a b Ha Hb. specialize (H a Ha). rewrite allb_spec in H.
  now apply ceqb_spec, H. Qed.
Lemma basis_hermitian_b_ok d B : basis_hermitian_b d B = true -> basis_hermitian d B.
Proof. unfold basis_hermitian_b. rewrite allb_spec. intros H a Ha i j Hi Hj. specialize (H a Ha). rewrite allb_spec in H.
  specialize (H i Hi). rewrite allb_spec in H. now apply ceqb_spec, H. Qed.
Lemma basis_0th_b_ok d sd B : basis_0th_b d sd B = true -> basis_0th_identity d sd B.
Proof. unfold basis_0th_b. rewrite allb_spec. intros H i j Hi Hj. specialize (H i Hi). rewrite allb_spec in H.
  now apply ceqb_spec, H. Qed.
Definition basis_complete_b (d : nat) (B : nat -> cmat) : bool :=
  allb d (fun i => allb d (fun j => allb d (fun k => allb d (fun l =>
    ceqb (sumn (d * d) (fun a => cmul Cx (zconj (B a i j)) (B a k l))) (if Nat.eqb i k && Nat.eqb j l then c1 Cx else c0 Cx))))).
Lemma basis_complete_b_ok d B : basis_complete_b d B = true -> basis_complete d B.
Proof. unfold basis_complete_b. rewrite allb_spec. intros H i j k l Hi Hj Hk Hl.
  specialize (H i Hi). rewrite allb_spec in H. specialize (H j Hj). rewrite allb_spec in H.
  specialize (H k Hk). rewrite allb_spec in H. now apply ceqb_spec, H. Qed.
Definition hermitian_b (k : nat) (A : cmat) : bool := allb k (fun i => allb k (fun j => ceqb (A i j) (zconj (A j i)))).
Lemma hermitian_b_ok k A : hermitian_b k A = true -> hermitian k A.
Proof. unfold hermitian_b. rewrite allb_spec. intros H i j Hi Hj. specialize (H i Hi). rewrite allb_spec in H.
  now apply ceqb_spec, H. Qed.
End Checkers.

(* ---------------------------------------------------------------- the 2-qubit normalised Pauli basis over Qc *)
Notation Qx := (CF Qc_OF).
Definition qz (z : Z) : Qc := Q2Qc (inject_Z z).
Definition cq (a b : Z) : Qx := (qz a, qz b).
Definition pauli1 (k : nat) : cmat Qc_OF := fun i j =>
  match k, i, j with
  | 0, 0, 0 => cq 1 0 | 0, 1, 1 => cq 1 0
  | 1, 0, 1 => cq 1 0 | 1, 1, 0 => cq 1 0
  | 2, 0, 1 => cq 0 (-1) | 2, 1, 0 => cq 0 1
  | 3, 0, 0 => cq 1 0 | 3, 1, 1 => cq (-1) 0
  | _, _, _ => cq 0 0
  end%nat.
Definition qhalf : Qc := Q2Qc (1 # 2).
(* quara: itertools.product of the one-qubit bases, kron(B_a1, B_a2) at index 4 a1 + a2 *)
Definition pauli2 (a : nat) : cmat Qc_OF :=
  mscale ((qhalf, 0%Qc) : Qx) (kron 2 2 (pauli1 (a / 4)) (pauli1 (a mod 4))).

Lemma pauli2_orthonormal : basis_orthonormal 4 pauli2.
Proof. apply basis_orthonormal_b_ok. vm_compute. reflexivity. Qed.
Lemma pauli2_hermitian : basis_hermitian 4 pauli2.
Proof. apply basis_hermitian_b_ok. vm_compute. reflexivity. Qed.
Lemma pauli2_0th : @basis_0th_identity Qc_OF 4 (qz 2) pauli2.
Proof. apply basis_0th_b_ok. vm_compute. reflexivity. Qed.
Lemma pauli2_sd : cmul Qc_OF (qz 2) (qz 2) = @ofnat Qc_OF 4.
Proof. apply Qc_is_canon. vm_compute. reflexivity. Qed.

Lemma pauli2_complete : basis_complete 4 pauli2.
Proof. apply basis_complete_b_ok. vm_compute. reflexivity. Qed.

(* the witness generator: single jump operator B_1 = (I (x) X)/2 with unit rate, i.e. K = E_00, H = 0, J = J(K) = -I/8 = -1/4 B_0 *)
Definition w_hv : rvec Qc_OF := fun _ => 0%Qc.
Definition w_jv : rvec Qc_OF := fun a => if Nat.eqb a 0 then Q2Qc (-1 # 4) else 0%Qc.
Definition w_K : cmat Qc_OF := fun a b => if Nat.eqb a 0 && Nat.eqb b 0 then cq 1 0 else cq 0 0.
Definition w_L : cmat Qc_OF := lcb_hjk 4 pauli2 (op_of_vec 4 pauli2 w_hv) (op_of_vec 4 pauli2 w_jv) w_K.

Lemma w_jv0 : w_jv 0%nat <> c0 Qc_OF.
Proof. intros E. apply (f_equal this) in E. vm_compute in E. discriminate. Qed.
(* it IS the physical GKSL generator generate_hs_from_k builds from K = E_00 *)
Lemma w_J_is_J_of_K : meq 4 4 (op_of_vec 4 pauli2 w_jv) (j_of_k 4 pauli2 w_K).
Proof. apply meqb_spec. vm_compute. reflexivity. Qed.

Definition w_H : cmat Qc_OF := fun i j =>
  match i, j with 0%nat, 1%nat => cq 1 2 | 1%nat, 0%nat => cq 1 (-2) | 2%nat, 2%nat => cq 3 0 | _, _ => cq 0 0 end.
Lemma w_H_herm : hermitian 4 w_H.
Proof. apply hermitian_b_ok. vm_compute. reflexivity. Qed.
Lemma w_K_herm : hermitian (4 * 4 - 1) w_K.
Proof. apply hermitian_b_ok. vm_compute. reflexivity. Qed.

(* calc_j_mat AS CODED BEFORE FIX c18-calc-j-mat-identity-component on the witness *)
Lemma calc_j_mat_witness :
  ~ meq 4 4 (calc_j_mat_prefix 4 pauli2 w_L) (op_of_vec 4 pauli2 w_jv) /\ ~ meq 16 16 (rebuild_cb_prefix 4 pauli2 w_L) w_L.
Proof. assert (Hd : (0 < 4)%nat) by lia. split.
  - apply (j_prefix_wrong Qc_OF 4 Hd pauli2 (qz 2) pauli2_orthonormal pauli2_hermitian pauli2_0th pauli2_sd w_hv w_jv w_K w_jv0).
  - apply (rebuild_prefix_wrong Qc_OF 4 Hd pauli2 (qz 2) pauli2_orthonormal pauli2_hermitian pauli2_0th pauli2_sd w_hv w_jv w_K w_jv0). Qed.

(* ---------------------------------------------------------------- jump operators AS CODED BEFORE FIX c18-jump-operators-cdagger-c:
   c = |0><1| on one qubit, rho = |1><1| *)
Definition w_c : cmat Qc_OF := fun i j => match i, j with 0%nat, 1%nat => cq 1 0 | _, _ => cq 0 0 end.
Definition w_rho : cmat Qc_OF := fun i j => match i, j with 1%nat, 1%nat => cq 1 0 | _, _ => cq 0 0 end.
Lemma jump_prefix_witness :
  apply_cb 2 (jump_d_prefix 2 [w_c]) w_rho 1%nat 1%nat <> gksl_jump 2 [w_c] w_rho 1%nat 1%nat
  /\ mtrace 2 (apply_cb 2 (jump_d_prefix 2 [w_c]) w_rho) <> c0 Qx.
Proof. split; intros E; apply (f_equal (fun z : Qx => this (fst z))) in E; vm_compute in E; discriminate. Qed.

(* ---------------------------------------------------------------- equality projection on a concrete non-TP matrix *)
Definition w_X : rmat Qc_OF := fun i j => qz (Z.of_nat (i + 2 * j + 1)%nat).
Lemma proj_eq_example : ~ row0_zero Qc_OF 2 w_X /\ row0_zero Qc_OF 2 (proj_eq w_X) /\ proj_eq w_X 1%nat 1%nat = qz 4.
Proof. split; [|split].
  - intros H. specialize (H 0%nat (Nat.lt_0_succ 1)). apply (f_equal this) in H. vm_compute in H. discriminate.
  - intros j _. reflexivity.
  - apply Qc_is_canon. vm_compute. reflexivity. Qed.
