(* C06 — composition preserves the Kraus form (complete positivity in the Kraus sense): the product of the HS matrices of two maps
   given by Kraus operators is the HS matrix of the map with the product Kraus operators  K1 K2.
   Uses the shared QObj lemma library of C02 (Proofs/C02_QObjBase, C02_QObjMaps).  Generic in the ordered field, axiom-free. *)
From Coq Require Import List Arith Bool Lia Ring.
From QV.Core Require Import OF Sums Mat Cplx.
From QV.Model Require Import QObj C02_Conv C06_Compose.
From QV.Proofs Require Import C02_QObjBase C02_QObjMaps.
Import ListNotations.

Section Physical.
Context (F : OF).
Notation Cx := (CF F).
Add Ring Cxp : (c_ring Cx).
Add Ring Frp : (c_ring F).
Notation CM := (cmat F).
Notation "x +c y" := (cadd Cx x y) (at level 50, left associativity).
Notation "x *c y" := (cmul Cx x y) (at level 40, left associativity).
Variable d : nat.

(* the Kraus operators of "Ks1 after Ks2" *)
Definition kraus_products (Ks1 Ks2 : list CM) : list CM := flat_map (fun K1 => map (fun K2 => mmul d K1 K2) Ks2) Ks1.

Lemma kraus_apply_app (l1 l2 : list CM) (X : CM) i j :
  kraus_apply d (l1 ++ l2) X i j = kraus_apply d l1 X i j +c kraus_apply d l2 X i j.
Proof. induction l1 as [|K l1 IH]; cbn [app].
  - unfold kraus_apply at 2. cbn [fold_right]. ring.
  - rewrite !kraus_apply_cons, IH. ring. Qed.

(* (K1 K2) X (K1 K2)^dagger = K1 (K2 X K2^dagger) K1^dagger *)
Lemma sandwich_product (K1 K2 X : CM) i j :
  sandwich d (mmul d K1 K2) X (cadj (mmul d K1 K2)) i j = sandwich d K1 (sandwich d K2 X (cadj K2)) (cadj K1) i j.
Proof. unfold sandwich.
  transitivity (mmul d (mmul d (mmul d (mmul d K1 K2) X) (cadj K2)) (cadj K1) i j).
  { rewrite (mmul_assoc d d (mmul d (mmul d K1 K2) X) (cadj K2) (cadj K1) i j).
    unfold mmul at 1 3. apply sumn_ext; intros l _. f_equal. apply (cadj_mmul F d K1 K2 l j). }
  unfold mmul at 1 5. apply sumn_ext; intros l _. f_equal.
  rewrite (mmul_assoc d d (mmul d K1 K2) X (cadj K2) i l).
  rewrite (mmul_assoc d d K1 K2 (mmul d X (cadj K2)) i l).
  unfold mmul at 1 4. apply sumn_ext; intros k _. f_equal. symmetry. apply mmul_assoc. Qed.

(* K1 ( sum_{K2} K2 X K2^dagger ) K1^dagger = sum_{K2} (K1 K2) X (K1 K2)^dagger *)
Lemma sandwich_kraus (K1 : CM) (Ks2 : list CM) (X : CM) i j :
  sandwich d K1 (kraus_apply d Ks2 X) (cadj K1) i j = kraus_apply d (map (fun K2 => mmul d K1 K2) Ks2) X i j.
Proof. induction Ks2 as [|K2 Ks2 IH]; cbn [map].
  - unfold kraus_apply. cbn [fold_right]. unfold sandwich, mmul. apply sumn_zero'. intros l _.
    rewrite (sumn_zero' d (fun k => K1 i k *c c0 Cx)) by (intros; ring). ring.
  - rewrite kraus_apply_cons, sandwich_product, <- IH. unfold sandwich, mmul.
    rewrite <- sumn_add. apply sumn_ext; intros l _.
    transitivity ((sumn d (fun k => K1 i k *c sandwich d K2 X (cadj K2) k l) +c sumn d (fun k => K1 i k *c kraus_apply d Ks2 X k l)) *c cadj K1 l j); [|unfold sandwich, mmul; ring].
    f_equal. rewrite <- sumn_add. apply sumn_ext; intros k _. rewrite kraus_apply_cons. unfold sandwich, mmul. ring. Qed.

(* sequential application = application of the product Kraus list *)
Lemma kraus_apply_compose (Ks1 Ks2 : list CM) (X : CM) :
  meq d d (kraus_apply d Ks1 (kraus_apply d Ks2 X)) (kraus_apply d (kraus_products Ks1 Ks2) X).
Proof. intros i j _ _. unfold kraus_products. induction Ks1 as [|K1 Ks1 IH]; cbn [flat_map].
  - reflexivity.
  - rewrite kraus_apply_cons, kraus_apply_app, IH, sandwich_kraus. reflexivity. Qed.

(* complex HS matrices: product = HS matrix of the product Kraus list *)
Lemma chs_of_kraus_compose (B : nat -> CM) (Ks1 Ks2 : list CM) a b : basis_complete d B ->
  mmul (d * d) (chs_of_kraus d B Ks1) (chs_of_kraus d B Ks2) a b = chs_of_kraus d B (kraus_products Ks1 Ks2) a b.
Proof. intros Hc. rewrite (chs_of_kraus_as_map F d B (kraus_products Ks1 Ks2) a b).
  rewrite <- (hs_of_map_ext F d B (fun X => kraus_apply d Ks1 (kraus_apply d Ks2 X)) (kraus_apply d (kraus_products Ks1 Ks2)) a b
                (fun X => kraus_apply_compose Ks1 Ks2 X)).
  rewrite (hs_of_map_compose F d B (kraus_apply d Ks1) (kraus_apply d Ks2) a b Hc (kraus_apply_linear F d Ks1)).
  unfold mmul. apply sumn_ext; intros c _. now rewrite !chs_of_kraus_as_map. Qed.

(* KRAUS CONCATENATION for the real HS matrices the code multiplies (Hermitian complete basis): Gate o Gate, every HS product inside
   Gate o MProcess / MProcess o Gate / MProcess o MProcess, is again the HS matrix of a Kraus-form (completely positive) map *)
Theorem hs_of_kraus_compose (B : nat -> CM) (Ks1 Ks2 : list CM) a b : basis_complete d B -> basis_hermitian d B ->
  (a < d * d)%nat -> (b < d * d)%nat ->
  gate_gate F (d * d) (hs_of_kraus d B Ks1) (hs_of_kraus d B Ks2) a b = hs_of_kraus d B (kraus_products Ks1 Ks2) a b.
Proof. intros Hc Hh Ha Hb. unfold gate_gate. unfold hs_of_kraus at 3. rewrite <- (chs_of_kraus_compose B Ks1 Ks2 a b Hc).
  unfold mmul. rewrite (re_sumn F). apply sumn_ext; intros c Hcc.
  rewrite (chs_of_kraus_real F d B Ks1 a c Hh Ha Hcc), (chs_of_kraus_real F d B Ks2 c b Hh Hcc Hb). cbn. ring. Qed.
End Physical.
