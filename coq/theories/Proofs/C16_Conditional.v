(* joint = marginal x conditional, at the level of the raw tensors of the model:
   the normalising constant of the conditional (sum of the selected slice) IS the marginal probability of the
   conditioning event, hence  conditional[x_free] * marginal[x_S] = joint[x]  whenever the marginal is non-zero.
   Every shape of positive sizes, every conditioning assignment. Any OF. *)
From Coq Require Import List Arith Bool Lia Field.
From QV.Core Require Import OF Sums.
From QV.Model Require Import Multinomial.
From QV.Proofs Require Import C16_Multinomial C16_Marginal.
Import ListNotations.

Section FillSelect.
Definition is_some {A} (o : option A) : bool := match o with Some _ => true | None => false end.
Definition is_none {A} (o : option A) : bool := negb (is_some o).
Fixpoint somes (fixed : list (option nat)) : list nat :=
  match fixed with [] => [] | Some v :: t => v :: somes t | None :: t => somes t end.
Fixpoint count_none (fixed : list (option nat)) : nat :=
  match fixed with [] => 0 | Some _ :: t => count_none t | None :: t => S (count_none t) end.

Lemma select_free_fill fixed : forall free, length free = count_none fixed ->
  select (map is_none fixed) (fill fixed free) = free.
Proof. induction fixed as [|[v|] t IH]; intros free H; cbn in *.
  - destruct free; [reflexivity|discriminate].
  - now apply IH.
  - destruct free as [|x xs]; [discriminate|]. cbn. f_equal. apply IH. now inversion H. Qed.

Lemma select_fixed_fill fixed : forall free, select (map is_some fixed) (fill fixed free) = somes fixed.
Proof. induction fixed as [|[v|] t IH]; intros free; cbn; [reflexivity| |].
  - f_equal. apply IH.
  - destruct free; apply IH. Qed.

Lemma fill_select fixed : forall (d : list nat), length d = length fixed ->
  select (map is_some fixed) d = somes fixed -> fill fixed (select (map is_none fixed) d) = d.
Proof. induction fixed as [|[v|] t IH]; intros [|x d] Hl H; cbn in *; try discriminate; try reflexivity.
  - inversion H; subst. f_equal. apply IH; [now inversion Hl|assumption].
  - f_equal. apply IH; [now inversion Hl|assumption]. Qed.

Lemma select_length_none fixed : forall (d : list nat), length d = length fixed ->
  length (select (map is_none fixed) d) = count_none fixed.
Proof. induction fixed as [|[v|] t IH]; intros [|x d] Hl; cbn in *; try discriminate; try reflexivity.
  - apply IH. now inversion Hl.
  - f_equal. apply IH. now inversion Hl. Qed.

(* the fixed values are within the shape *)
Fixpoint fixed_ok (shape : list nat) (fixed : list (option nat)) : Prop :=
  match shape, fixed with
  | [], [] => True
  | n :: t, Some v :: f => v < n /\ fixed_ok t f
  | n :: t, None :: f => fixed_ok t f
  | _, _ => False
  end.

Lemma fixed_ok_length shape : forall fixed, fixed_ok shape fixed -> length fixed = length shape.
Proof. induction shape as [|n t IH]; intros [|[v|] f]; cbn; try tauto; intros H; f_equal; apply IH; tauto. Qed.

Lemma fill_in_range shape : forall fixed free, fixed_ok shape fixed ->
  in_rangen (select (map is_none fixed) shape) free -> in_rangen shape (fill fixed free).
Proof. induction shape as [|n t IH]; intros [|[v|] f] free; cbn; try tauto.
  - intros [Hv Hf] Hr. split; [exact Hv|now apply IH].
  - intros Hf. destruct free as [|x xs]; cbn; [tauto|]. intros [Hx Hr]. split; [exact Hx|now apply IH]. Qed.

Lemma in_rangen_length shape : forall idx, in_rangen shape idx -> length idx = length shape.
Proof. induction shape as [|n t IH]; intros [|x xs]; cbn; try tauto. intros [_ H]. f_equal. now apply IH. Qed.

Lemma somes_in_range shape : forall fixed, fixed_ok shape fixed ->
  in_rangen (select (map is_some fixed) shape) (somes fixed).
Proof. induction shape as [|n t IH]; intros [|[v|] f]; cbn; try tauto.
  - intros [Hv Hf]. split; [exact Hv|now apply IH].
  - apply IH. Qed.

Lemma count_none_select shape : forall fixed, fixed_ok shape fixed ->
  length (select (map is_none fixed) shape) = count_none fixed.
Proof. intros fixed H. apply select_length_none. symmetry. now apply fixed_ok_length. Qed.
End FillSelect.

Section Joint.
Context (F : OF).
Add Field Ffj : (k_field F).
Notation "0" := (c0 F). Notation "1" := (c1 F).
Infix "+" := (cadd F). Infix "*" := (cmul F). Infix "/" := (kdiv F).

(* the slice selected by a conditioning assignment, as the model computes it *)
Definition slice (sh : list nat) (ps : list F) (fixed : list (option nat)) (k' : nat) : F :=
  nth (rowmajorn sh (fill fixed (digitsn (select (map is_none fixed) sh) k'))) ps 0.

Theorem slice_total_is_marginal sh ps fixed : posn sh -> fixed_ok sh fixed ->
  sumn (prodn (select (map is_none fixed) sh)) (slice sh ps fixed) =
  nth (rowmajorn (select (map is_some fixed) sh) (somes fixed)) (marg_raw F sh ps (map is_some fixed)) 0.
Proof. intros Hpos Hfix.
  set (fs := select (map is_none fixed) sh). set (ks := select (map is_some fixed) sh).
  assert (Hpf : posn fs).
  { unfold fs, posn in *. clear -Hpos. revert sh Hpos. induction fixed as [|o f IH]; intros [|n t] H; cbn; try constructor.
    inversion H; subst. destruct (is_none o); [constructor; [assumption|]|]; now apply IH. }
  pose proof (somes_in_range sh fixed Hfix) as Hsr. fold ks in Hsr.
  pose proof (rowmajorn_bound ks _ Hsr) as Hjb.
  (* right-hand side: entry of marg_raw *)
  unfold marg_raw. fold ks.
  rewrite (nth_indep _ 0 (lsum F (map (fun k => if list_eqb (select (map is_some fixed) (digitsn sh k))
              (digitsn ks (rowmajorn ks (somes fixed))) then nth k ps 0 else 0) (seq 0 (prodn sh)))))
    by (now rewrite map_length, seq_length).
  rewrite (map_nth (fun k' => lsum F (map (fun k => if list_eqb (select (map is_some fixed) (digitsn sh k))
              (digitsn ks k') then nth k ps 0 else 0) (seq 0 (prodn sh)))) (seq 0 (prodn ks)) (rowmajorn ks (somes fixed))).
  rewrite seq_nth by exact Hjb. cbn [plus].
  rewrite digitsn_rowmajorn by exact Hsr. rewrite lsum_seq_sumn.
  (* left-hand side: insert a delta over k, swap *)
  rewrite (sumn_ext (prodn fs) (slice sh ps fixed) (fun k' => sumn (prodn sh) (fun k =>
      if Nat.eqb k (rowmajorn sh (fill fixed (digitsn fs k'))) then nth k ps 0 else 0))).
  2:{ intros k' Hk'. unfold slice. fold fs. symmetry.
      apply (sumn_delta (prodn sh) _ (fun k => nth k ps 0)).
      apply rowmajorn_bound. apply fill_in_range; [exact Hfix|]. now apply digitsn_in_range. }
  rewrite sumn_swap. apply sumn_ext. intros k Hk.
  pose proof (digitsn_in_range sh k Hpos) as Hd.
  destruct (list_eqb (select (map is_some fixed) (digitsn sh k)) (somes fixed)) eqn:E.
  - apply list_eqb_spec in E.
    set (j := rowmajorn fs (select (map is_none fixed) (digitsn sh k))).
    pose proof (select_in_range (map is_none fixed) sh _ Hd) as Hsel. fold fs in Hsel.
    assert (Hj : j < prodn fs) by now apply rowmajorn_bound.
    rewrite (sumn_ext (prodn fs) _ (fun k' => if Nat.eqb k' j then nth k ps 0 else 0)).
    2:{ intros k' Hk'. destruct (Nat.eqb_spec k' j) as [->|Hne].
        - unfold j. rewrite digitsn_rowmajorn by exact Hsel.
          rewrite fill_select; [|rewrite (in_rangen_length sh _ Hd); symmetry; now apply fixed_ok_length|exact E].
          rewrite rowmajorn_digitsn by assumption. now rewrite Nat.eqb_refl.
        - destruct (Nat.eqb_spec k (rowmajorn sh (fill fixed (digitsn fs k')))) as [Ek|]; [|reflexivity].
          exfalso. apply Hne. unfold j. rewrite Ek.
          rewrite digitsn_rowmajorn by (apply fill_in_range; [exact Hfix|now apply digitsn_in_range]).
          rewrite select_free_fill.
          + symmetry. now apply rowmajorn_digitsn.
          + rewrite (in_rangen_length fs _ (digitsn_in_range fs k' Hpf)). now apply count_none_select. }
    exact (sumn_delta (prodn fs) j (fun _ => nth k ps 0) Hj).
  - apply sumn_zero'. intros k' Hk'.
    destruct (Nat.eqb_spec k (rowmajorn sh (fill fixed (digitsn fs k')))) as [Ek|]; [|reflexivity].
    exfalso. assert (E' : list_eqb (select (map is_some fixed) (digitsn sh k)) (somes fixed) = true); [|congruence].
    apply list_eqb_spec. rewrite Ek.
    rewrite digitsn_rowmajorn by (apply fill_in_range; [exact Hfix|now apply digitsn_in_range]).
    apply select_fixed_fill. Qed.

(* joint = marginal x conditional *)
Theorem joint_is_marginal_times_conditional sh ps fixed k' : posn sh -> fixed_ok sh fixed ->
  let tot := sumn (prodn (select (map is_none fixed) sh)) (slice sh ps fixed) in
  let marginal := nth (rowmajorn (select (map is_some fixed) sh) (somes fixed)) (marg_raw F sh ps (map is_some fixed)) 0 in
  tot <> 0 ->
  (slice sh ps fixed k' / tot) * marginal = slice sh ps fixed k'.
Proof. intros Hpos Hfix tot marginal Ht. unfold marginal. rewrite <- slice_total_is_marginal by assumption.
  fold tot. field. exact Ht. Qed.
End Joint.
