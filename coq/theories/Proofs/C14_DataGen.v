(* C14 — proofs about the numeric data-generation model (any ordered field, any lengths). *)
From Coq Require Import Field Ring Setoid List Arith Bool ZArith Lia.
From QV.Core Require Import OF.
From QV.Model Require Import Multinomial C14_DataGen.
Import ListNotations.

Section P.
Context (F : OF).
Add Field Ff14 : (k_field F).
Notation "0" := (c0 F). Notation "1" := (c1 F).
Infix "+" := (cadd F). Infix "*" := (cmul F). Infix "<=" := (kle F). Infix "-" := (csub F).
Infix "/" := (kdiv F). Notation "- x" := (copp F x).
Infix "<" := (klt F).
Notation lsum := (lsum F).
Notation cum := (cum F). Notation total := (total F).
Notation rn2data := (rn2data F). Notation rn2d_go := (rn2d_go F).
Notation fnat := (fnat F). Notation fz := (fz F). Notation fpos := (fpos F).

(* ------------------------------------------------------------------ order helpers *)
Lemma flt_true r c : flt F r c = true <-> r < c.
Proof. unfold flt, klt. rewrite negb_true_iff. split.
  - intros E. destruct (leb_false_lt F _ _ E) as [A B]. split; [exact A|congruence].
  - intros [A B]. destruct (kleb F c r) eqn:E; [|reflexivity]. exfalso. apply B.
    apply (k_antisym F); [exact A|]. now apply k_leb. Qed.
Lemma flt_false r c : flt F r c = false <-> c <= r.
Proof. unfold flt. rewrite negb_false_iff. apply k_leb. Qed.
Lemma lt_le_trans x y z : x < y -> y <= z -> x < z.
Proof. intros [A B] C. split; [exact (k_trans F _ _ _ A C)|]. intros ->. apply B. now apply (k_antisym F). Qed.
Lemma le_lt_trans x y z : x <= y -> y < z -> x < z.
Proof. intros A [B C]. split; [exact (k_trans F _ _ _ A B)|]. intros ->. apply C. now apply (k_antisym F). Qed.
Lemma lt_irrefl_le x y : x < y -> y <= x -> False.
Proof. intros [A B] C. apply B. now apply (k_antisym F). Qed.
Lemma le_add_r x p : 0 <= p -> x <= x + p.
Proof. intros H. apply (proj2 (le_sub F x (x + p))). replace (x + p - x) with p by ring. exact H. Qed.
Lemma zero_lt_one : 0 < 1.
Proof. split; [apply one_nonneg|]. intros E. now apply (one_neq_zero F). Qed.

(* ------------------------------------------------------------------ sums *)
Lemma fold_acc l : forall a, fold_left (cadd F) l a = a + lsum l.
Proof. unfold Multinomial.lsum. induction l as [|x l IH]; intros a; cbn [fold_left]. { ring. }
  rewrite (IH (a + x)), (IH (0 + x)). ring. Qed.
Lemma lsum_nil : lsum [] = 0. Proof. reflexivity. Qed.
Lemma lsum_cons x l : lsum (x :: l) = x + lsum l.
Proof. unfold Multinomial.lsum at 1. cbn [fold_left]. rewrite fold_acc. ring. Qed.
Lemma lsum_app a b : lsum (a ++ b) = lsum a + lsum b.
Proof. induction a as [|x a IH]; cbn [app]. { rewrite lsum_nil. ring. } rewrite !lsum_cons, IH. ring. Qed.
Lemma cum_lsum ps k : cum ps k = lsum (firstn k ps). Proof. reflexivity. Qed.
Lemma cum_0 ps : cum ps O = 0. Proof. reflexivity. Qed.
Lemma cum_S ps : forall k, cum ps (S k) = cum ps k + nth k ps 0.
Proof. induction ps as [|a ps IH]; intros k.
  - rewrite !cum_lsum. rewrite ?firstn_cons, ?firstn_O. rewrite !firstn_nil, lsum_nil. destruct k; cbn [nth]; ring.
  - destruct k as [|k].
    + rewrite !cum_lsum. cbn [firstn nth]. rewrite lsum_cons, lsum_nil. ring.
    + rewrite !cum_lsum. rewrite !firstn_cons. cbn [nth]. rewrite !lsum_cons.
      rewrite <- (cum_lsum ps (S k)), IH, cum_lsum. ring. Qed.
Lemma cum_all ps k : (length ps <= k)%nat -> cum ps k = total ps.
Proof. intros H. unfold C14_DataGen.total. rewrite !cum_lsum, firstn_all, firstn_all2 by exact H. reflexivity. Qed.
Lemma nth_nonneg ps k : Forall (kle F 0) ps -> 0 <= nth k ps 0.
Proof. intros H. destruct (Nat.lt_ge_cases k (length ps)) as [L|L].
  - rewrite Forall_forall in H. apply H. now apply nth_In.
  - rewrite nth_overflow by exact L. apply k_refl. Qed.
Lemma cum_mono ps j k : Forall (kle F 0) ps -> (j <= k)%nat -> cum ps j <= cum ps k.
Proof. intros H L. induction L as [|k L IH]; [apply k_refl|].
  rewrite cum_S. apply (k_trans F _ _ _ IH). apply le_add_r. now apply nth_nonneg. Qed.

(* ------------------------------------------------------------------ _random_number_to_data *)
Lemma go_some t : forall c r idx i, rn2d_go t c r idx = Some i ->
  exists j, i = (idx + j)%nat /\ (j < length t)%nat /\ r < c + lsum (firstn (S j) t) /\
            forall j', (j' < j)%nat -> c + lsum (firstn (S j') t) <= r.
Proof. induction t as [|a t IH]; intros c r idx i H; cbn [C14_DataGen.rn2d_go] in H; [discriminate|].
  destruct (flt F r (c + a)) eqn:E.
  - injection H as <-. exists O. split; [|split; [|split]].
    + lia. + cbn; lia.
    + rewrite ?firstn_cons, ?firstn_O. rewrite lsum_cons, lsum_nil. apply flt_true in E. replace (c + (a + 0)) with (c + a) by ring. exact E.
    + intros j' Hj. lia.
  - destruct (IH _ _ _ _ H) as (j & -> & Hl & Hlt & Hall). exists (S j). split; [|split; [|split]].
    + lia. + cbn; lia.
    + rewrite ?firstn_cons, ?firstn_O. rewrite lsum_cons. replace (c + (a + lsum (firstn (S j) t))) with (c + a + lsum (firstn (S j) t)) by ring. exact Hlt.
    + intros j' Hj. destruct j' as [|j'].
      * rewrite ?firstn_cons, ?firstn_O. rewrite lsum_cons, lsum_nil. apply flt_false in E. replace (c + (a + 0)) with (c + a) by ring. exact E.
      * rewrite ?firstn_cons, ?firstn_O. rewrite lsum_cons. replace (c + (a + lsum (firstn (S j') t))) with (c + a + lsum (firstn (S j') t)) by ring.
        apply Hall. lia. Qed.
Lemma go_none t : forall c r idx, rn2d_go t c r idx = None ->
  forall j, (j < length t)%nat -> c + lsum (firstn (S j) t) <= r.
Proof. induction t as [|a t IH]; intros c r idx H j Hj; [cbn in Hj; lia|].
  cbn [C14_DataGen.rn2d_go] in H. destruct (flt F r (c + a)) eqn:E; [discriminate|].
  destruct j as [|j]; rewrite ?firstn_cons, ?firstn_O; rewrite lsum_cons.
  - rewrite lsum_nil. apply flt_false in E. replace (c + (a + 0)) with (c + a) by ring. exact E.
  - replace (c + (a + lsum (firstn (S j) t))) with (c + a + lsum (firstn (S j) t)) by ring.
    apply (IH _ _ _ H). cbn in Hj. lia. Qed.

Lemma top_some ps r i : rn2d_go ps 0 r O = Some i ->
  (i < length ps)%nat /\ r < cum ps (S i) /\ forall j, (j < i)%nat -> cum ps (S j) <= r.
Proof. intros H. destruct (go_some _ _ _ _ _ H) as (j & E & Hl & Hlt & Hall). cbn in E. subst j.
  split; [exact Hl|split].
  - rewrite cum_lsum. replace (lsum (firstn (S i) ps)) with (0 + lsum (firstn (S i) ps)) by ring. exact Hlt.
  - intros j Hj. rewrite cum_lsum. replace (lsum (firstn (S j) ps)) with (0 + lsum (firstn (S j) ps)) by ring. now apply Hall. Qed.
Lemma top_none ps r : rn2d_go ps 0 r O = None -> forall j, (j < length ps)%nat -> cum ps (S j) <= r.
Proof. intros H j Hj. rewrite cum_lsum. replace (lsum (firstn (S j) ps)) with (0 + lsum (firstn (S j) ps)) by ring.
  exact (go_none _ _ _ _ H j Hj). Qed.

(* soundness of inversion sampling: for 0 <= r < sum(p) (NO sign condition on p needed) the returned index i is in
   range, r lies in [cum_i, cum_{i+1}) and hence p_i > 0 *)
Theorem rn2data_sound ps r : 0 <= r -> r < total ps ->
  exists i : nat, rn2data ps r = Z.of_nat i /\ (i < length ps)%nat /\ 0 < nth i ps 0 /\
                  cum ps i <= r /\ r < cum ps (S i) /\ cum ps (S i) = cum ps i + nth i ps 0.
Proof. intros H0 Ht. unfold C14_DataGen.rn2data. destruct (rn2d_go ps 0 r O) as [i|] eqn:E.
  - destruct (top_some _ _ _ E) as (Hl & Hlt & Hall). exists i.
    assert (Hc : cum ps i <= r). { destruct i as [|i]; [rewrite cum_0; exact H0|apply Hall; lia]. }
    split; [reflexivity|]. split; [exact Hl|]. split; [|split; [exact Hc|split; [exact Hlt|apply cum_S]]].
    split.
    + rewrite cum_S in Hlt. destruct Hlt as [A B].
      assert (A' : cum ps i <= cum ps i + nth i ps 0) by exact (k_trans F _ _ _ Hc A).
      apply (proj1 (le_sub F _ _)) in A'. replace (cum ps i + nth i ps 0 - cum ps i) with (nth i ps 0) in A' by ring. exact A'.
    + intros E0. rewrite cum_S, <- E0 in Hlt. replace (cum ps i + 0) with (cum ps i) in Hlt by ring.
      exact (lt_irrefl_le _ _ Hlt Hc).
  - exfalso. destruct ps as [|a ps].
    + unfold C14_DataGen.total in Ht. cbn [length] in Ht. rewrite cum_0 in Ht. exact (lt_irrefl_le _ _ Ht H0).
    + pose proof (top_none _ _ E (length ps)) as A. cbn [length] in A. specialize (A (Nat.lt_succ_diag_r _)).
      unfold C14_DataGen.total in Ht. cbn [length] in Ht. exact (lt_irrefl_le _ _ Ht A). Qed.

(* exactness: for a non-negative vector the pre-image of index i is exactly the interval [cum_i, cum_{i+1}),
   whose length is p_i *)
Theorem rn2data_exact ps r i : Forall (kle F 0) ps -> (i < length ps)%nat ->
  cum ps i <= r -> r < cum ps (S i) -> rn2data ps r = Z.of_nat i.
Proof. intros Hp Hi Hc Hlt. unfold C14_DataGen.rn2data. destruct (rn2d_go ps 0 r O) as [i'|] eqn:E.
  - destruct (top_some _ _ _ E) as (Hl & Hlt' & Hall). f_equal.
    destruct (Nat.lt_trichotomy i' i) as [L|[L|L]]; [|exact L|].
    + exfalso. apply (lt_irrefl_le _ _ Hlt'). apply (k_trans F _ (cum ps i)); [|exact Hc]. apply cum_mono; [exact Hp|lia].
    + exfalso. exact (lt_irrefl_le _ _ Hlt (Hall i L)).
  - exfalso. exact (lt_irrefl_le _ _ Hlt (top_none _ _ E i Hi)). Qed.

(* the fallback: r >= sum(p) returns the LAST index whatever its probability *)
Theorem rn2data_fallback ps r : Forall (kle F 0) ps -> total ps <= r ->
  rn2data ps r = (Z.of_nat (length ps) - 1)%Z.
Proof. intros Hp Ht. unfold C14_DataGen.rn2data. destruct (rn2d_go ps 0 r O) as [i|] eqn:E; [|reflexivity].
  exfalso. destruct (top_some _ _ _ E) as (Hl & Hlt & _). apply (lt_irrefl_le _ _ Hlt).
  apply (k_trans F _ (total ps)); [|exact Ht]. rewrite <- (cum_all ps (length ps)) by lia. apply cum_mono; [exact Hp|lia]. Qed.

End P.
