(* C14 — proofs about the numeric data-generation model (any ordered field, any lengths). *)
From Coq Require Import Field Ring Setoid List Arith Bool ZArith Lia.
From QV.Core Require Import OF.
From QV.Model Require Import Multinomial C14_DataGen.
Import ListNotations.

Section P.
Context (F : OF).
Add Field Ff14 : (k_field F).
Notation "0" := (c0 F). Notation "1" := (c1 F).
Infix "+" := (cadd F). Infix "*" := (cmul F). Infix "<=" := (kle F). Infix "-" := (csub F).
Infix "/" := (kdiv F). Notation "- x" := (copp F x).
Infix "<" := (klt F).
Notation lsum := (lsum F).
Notation cum := (cum F). Notation total := (total F).
Notation rn2data := (rn2data F). Notation rn2d_go := (rn2d_go F).
Notation fnat := (fnat F). Notation fz := (fz F). Notation fpos := (fpos F).

(* ------------------------------------------------------------------ order helpers *)
Lemma flt_true r c : flt F r c = true <-> r < c.
Proof. unfold flt, klt. rewrite negb_true_iff. split.
  - intros E. destruct (leb_false_lt F _ _ E) as [A B]. split; [exact A|congruence].
  - intros [A B]. destruct (kleb F c r) eqn:E; [|reflexivity]. exfalso. apply B.
    apply (k_antisym F); [exact A|]. now apply k_leb. Qed.
Lemma flt_false r c : flt F r c = false <-> c <= r.
Proof. unfold flt. rewrite negb_false_iff. apply k_leb. Qed.
Lemma lt_le_trans x y z : x < y -> y <= z -> x < z.
Proof. intros [A B] C. split; [exact (k_trans F _ _ _ A C)|]. intros ->. apply B. now apply (k_antisym F). Qed.
Lemma le_lt_trans x y z : x <= y -> y < z -> x < z.
Proof. intros A [B C]. split; [exact (k_trans F _ _ _ A B)|]. intros ->. apply C. now apply (k_antisym F). Qed.
Lemma lt_irrefl_le x y : x < y -> y <= x -> False.
Proof. intros [A B] C. apply B. now apply (k_antisym F). Qed.
Lemma le_add_r x p : 0 <= p -> x <= x + p.
Proof. intros H. apply (proj2 (le_sub F x (x + p))). replace (x + p - x) with p by ring. exact H. Qed.
Lemma zero_lt_one : 0 < 1.
Proof. split; [apply one_nonneg|]. intros E. now apply (one_neq_zero F). Qed.

(* ------------------------------------------------------------------ sums *)
Lemma fold_acc l : forall a, fold_left (cadd F) l a = a + lsum l.
Proof. unfold Multinomial.lsum. induction l as [|x l IH]; intros a; cbn [fold_left]. { ring. }
  rewrite (IH (a + x)), (IH (0 + x)). ring. Qed.
Lemma lsum_nil : lsum [] = 0. Proof. reflexivity. Qed.
Lemma lsum_cons x l : lsum (x :: l) = x + lsum l.
Proof. unfold Multinomial.lsum at 1. cbn [fold_left]. rewrite fold_acc. ring. Qed.
Lemma lsum_app a b : lsum (a ++ b) = lsum a + lsum b.
Proof. induction a as [|x a IH]; cbn [app]. { rewrite lsum_nil. ring. } rewrite !lsum_cons, IH. ring. Qed.
Lemma cum_lsum ps k : cum ps k = lsum (firstn k ps). Proof. reflexivity. Qed.
Lemma cum_0 ps : cum ps O = 0. Proof. reflexivity. Qed.
Lemma cum_S ps : forall k, cum ps (S k) = cum ps k + nth k ps 0.
Proof. induction ps as [|a ps IH]; intros k.
  - rewrite !cum_lsum. rewrite ?firstn_cons, ?firstn_O. rewrite !firstn_nil, lsum_nil. destruct k; cbn [nth]; ring.
  - destruct k as [|k].
    + rewrite !cum_lsum. cbn [firstn nth]. rewrite lsum_cons, lsum_nil. ring.
    + rewrite !cum_lsum. rewrite !firstn_cons. cbn [nth]. rewrite !lsum_cons.
      rewrite <- (cum_lsum ps (S k)), IH, cum_lsum. ring. Qed.
Lemma cum_all ps k : (length ps <= k)%nat -> cum ps k = total ps.
Proof. intros H. unfold C14_DataGen.total. rewrite !cum_lsum, firstn_all, firstn_all2 by exact H. reflexivity. Qed.
Lemma nth_nonneg ps k : Forall (kle F 0) ps -> 0 <= nth k ps 0.
Proof. intros H. destruct (Nat.lt_ge_cases k (length ps)) as [L|L].
  - rewrite Forall_forall in H. apply H. now apply nth_In.
  - rewrite nth_overflow by exact L. apply k_refl. Qed.
Lemma cum_mono ps j k : Forall (kle F 0) ps -> (j <= k)%nat -> cum ps j <= cum ps k.
Proof. intros H L. induction L as [|k L IH]; [apply k_refl|].
  rewrite cum_S. apply (k_trans F _ _ _ IH). apply le_add_r. now apply nth_nonneg. Qed.

(* ------------------------------------------------------------------ _random_number_to_data *)
Lemma go_some t : forall c r idx i, rn2d_go t c r idx = Some i ->
  exists j, i = (idx + j)%nat /\ (j < length t)%nat /\ r < c + lsum (firstn (S j) t) /\
            forall j', (j' < j)%nat -> c + lsum (firstn (S j') t) <= r.
Proof. induction t as [|a t IH]; intros c r idx i H; cbn [C14_DataGen.rn2d_go] in H; [discriminate|].
  destruct (flt F r (c + a)) eqn:E.
  - injection H as <-. exists O. split; [|split; [|split]].
    + lia. + cbn; lia.
    + rewrite ?firstn_cons, ?firstn_O. rewrite lsum_cons, lsum_nil. apply flt_true in E. replace (c + (a + 0)) with (c + a) by ring. exact E.
    + intros j' Hj. lia.
  - destruct (IH _ _ _ _ H) as (j & -> & Hl & Hlt & Hall). exists (S j). split; [|split; [|split]].
    + lia. + cbn; lia.
    + rewrite ?firstn_cons, ?firstn_O. rewrite lsum_cons. replace (c + (a + lsum (firstn (S j) t))) with (c + a + lsum (firstn (S j) t)) by ring. exact Hlt.
    + intros j' Hj. destruct j' as [|j'].
      * rewrite ?firstn_cons, ?firstn_O. rewrite lsum_cons, lsum_nil. apply flt_false in E. replace (c + (a + 0)) with (c + a) by ring. exact E.
      * rewrite ?firstn_cons, ?firstn_O. rewrite lsum_cons. replace (c + (a + lsum (firstn (S j') t))) with (c + a + lsum (firstn (S j') t)) by ring.
        apply Hall. lia. Qed.
Lemma go_none t : forall c r idx, rn2d_go t c r idx = None ->
  forall j, (j < length t)%nat -> c + lsum (firstn (S j) t) <= r.
Proof. induction t as [|a t IH]; intros c r idx H j Hj; [cbn in Hj; lia|].
  cbn [C14_DataGen.rn2d_go] in H. destruct (flt F r (c + a)) eqn:E; [discriminate|].
  destruct j as [|j]; rewrite ?firstn_cons, ?firstn_O; rewrite lsum_cons.
  - rewrite lsum_nil. apply flt_false in E. replace (c + (a + 0)) with (c + a) by ring. exact E.
  - replace (c + (a + lsum (firstn (S j) t))) with (c + a + lsum (firstn (S j) t)) by ring.
    apply (IH _ _ _ H). cbn in Hj. lia. Qed.

Lemma top_some ps r i : rn2d_go ps 0 r O = Some i ->
  (i < length ps)%nat /\ r < cum ps (S i) /\ forall j, (j < i)%nat -> cum ps (S j) <= r.
Proof. intros H. destruct (go_some _ _ _ _ _ H) as (j & E & Hl & Hlt & Hall). cbn in E. subst j.
  split; [exact Hl|split].
  - rewrite cum_lsum. replace (lsum (firstn (S i) ps)) with (0 + lsum (firstn (S i) ps)) by ring. exact Hlt.
  - intros j Hj. rewrite cum_lsum. replace (lsum (firstn (S j) ps)) with (0 + lsum (firstn (S j) ps)) by ring. now apply Hall. Qed.
Lemma top_none ps r : rn2d_go ps 0 r O = None -> forall j, (j < length ps)%nat -> cum ps (S j) <= r.
Proof. intros H j Hj. rewrite cum_lsum. replace (lsum (firstn (S j) ps)) with (0 + lsum (firstn (S j) ps)) by ring.
  exact (go_none _ _ _ _ H j Hj). Qed.

(* soundness of inversion sampling: for 0 <= r < sum(p) (NO sign condition on p needed) the returned index i is in
   range, r lies in [cum_i, cum_{i+1}) and hence p_i > 0 *)
Theorem rn2data_sound ps r : 0 <= r -> r < total ps ->
  exists i : nat, rn2data ps r = Z.of_nat i /\ (i < length ps)%nat /\ 0 < nth i ps 0 /\
                  cum ps i <= r /\ r < cum ps (S i) /\ cum ps (S i) = cum ps i + nth i ps 0.
Proof. intros H0 Ht. unfold C14_DataGen.rn2data. destruct (rn2d_go ps 0 r O) as [i|] eqn:E.
  - destruct (top_some _ _ _ E) as (Hl & Hlt & Hall). exists i.
    assert (Hc : cum ps i <= r). { destruct i as [|i]; [rewrite cum_0; exact H0|apply Hall; lia]. }
    split; [reflexivity|]. split; [exact Hl|]. split; [|split; [exact Hc|split; [exact Hlt|apply cum_S]]].
    split.
    + rewrite cum_S in Hlt. destruct Hlt as [A B].
      assert (A' : cum ps i <= cum ps i + nth i ps 0) by exact (k_trans F _ _ _ Hc A).
      apply (proj1 (le_sub F _ _)) in A'. replace (cum ps i + nth i ps 0 - cum ps i) with (nth i ps 0) in A' by ring. exact A'.
    + intros E0. rewrite cum_S, <- E0 in Hlt. replace (cum ps i + 0) with (cum ps i) in Hlt by ring.
      exact (lt_irrefl_le _ _ Hlt Hc).
  - exfalso. destruct ps as [|a ps].
    + unfold C14_DataGen.total in Ht. cbn [length] in Ht. rewrite cum_0 in Ht. exact (lt_irrefl_le _ _ Ht H0).
    + pose proof (top_none _ _ E (length ps)) as A. cbn [length] in A. specialize (A (Nat.lt_succ_diag_r _)).
      unfold C14_DataGen.total in Ht. cbn [length] in Ht. exact (lt_irrefl_le _ _ Ht A). Qed.

(* exactness: for a non-negative vector the pre-image of index i is exactly the interval [cum_i, cum_{i+1}),
   whose length is p_i *)
Theorem rn2data_exact ps r i : Forall (kle F 0) ps -> (i < length ps)%nat ->
  cum ps i <= r -> r < cum ps (S i) -> rn2data ps r = Z.of_nat i.
Proof. intros Hp Hi Hc Hlt. unfold C14_DataGen.rn2data. destruct (rn2d_go ps 0 r O) as [i'|] eqn:E.
  - destruct (top_some _ _ _ E) as (Hl & Hlt' & Hall). f_equal.
    destruct (Nat.lt_trichotomy i' i) as [L|[L|L]]; [|exact L|].
    + exfalso. apply (lt_irrefl_le _ _ Hlt'). apply (k_trans F _ (cum ps i)); [|exact Hc]. apply cum_mono; [exact Hp|lia].
    + exfalso. exact (lt_irrefl_le _ _ Hlt (Hall i L)).
  - exfalso. exact (lt_irrefl_le _ _ Hlt (top_none _ _ E i Hi)). Qed.

(* ---- the fallback value: the last index of positive probability ---- *)
Lemma flt0_true p : flt F 0 p = true <-> 0 < p. Proof. apply flt_true. Qed.
Lemma not_pos_le p : ~ 0 < p -> p <= 0.
Proof. intros H. destruct (kleb F p 0) eqn:E; [now apply k_leb|]. exfalso. apply H. apply flt_true. unfold flt. now rewrite E. Qed.

(* a value that names an in-range index of positive probability of the whole vector l *)
Definition posidx (l : list F) (z : Z) : Prop := exists n : nat, z = Z.of_nat n /\ (n < length l)%nat /\ 0 < nth n l 0.
Definition has_pos (l : list F) : Prop := exists j : nat, (j < length l)%nat /\ 0 < nth j l 0.

Lemma snoc_assoc {A} (pre : list A) p t : (pre ++ [p]) ++ t = pre ++ p :: t.
Proof. now rewrite <- app_assoc. Qed.
Lemma nth_mid pre p (t : list F) : nth (length pre) (pre ++ p :: t) 0 = p.
Proof. rewrite app_nth2 by lia. now rewrite Nat.sub_diag. Qed.
Lemma len_snoc {A} (pre : list A) p : length (pre ++ [p]) = S (length pre).
Proof. rewrite app_length. cbn. lia. Qed.

(* last_pos_go scans the suffix t of pre ++ t: the result is the largest index of positive probability in t, or lp *)
Lemma last_pos_go_spec t : forall pre lp,
  (has_pos t ->
     exists n, last_pos_go F t (length pre) lp = Z.of_nat n /\ (length pre <= n < length (pre ++ t))%nat /\
               0 < nth n (pre ++ t) 0 /\ forall j, (n < j < length (pre ++ t))%nat -> ~ 0 < nth j (pre ++ t) 0) /\
  (~ has_pos t -> last_pos_go F t (length pre) lp = lp).
Proof. induction t as [|p t IH]; intros pre lp.
  - split; [intros (j & Hj & _); cbn in Hj; lia|reflexivity].
  - cbn [C14_DataGen.last_pos_go]. rewrite <- (len_snoc pre p).
    destruct (IH (pre ++ [p]) (if flt F 0 p then Z.of_nat (length pre) else lp)) as [IH1 IH2]. rewrite snoc_assoc in IH1.
    assert (D : has_pos t \/ ~ has_pos t).
    { clear. induction t as [|a t IHt]; [right; intros (j & Hj & _); cbn in Hj; lia|].
      destruct (flt F 0 a) eqn:E.
      - left. exists O. split; [cbn; lia|]. now apply flt0_true.
      - destruct IHt as [(j & Hj & Hp)|N]; [left; exists (S j); split; [cbn; lia|exact Hp]|].
        right. intros (j & Hj & Hp). destruct j as [|j]; [apply flt0_true in Hp; cbn [nth] in Hp; congruence|].
        apply N. exists j. split; [cbn in Hj; lia|exact Hp]. }
    split.
    + intros Hpos. destruct D as [Ht|Nt].
      * destruct (IH1 Ht) as (n & En & Hr & Hp & Hmax). exists n. rewrite len_snoc in Hr. split; [exact En|]. split; [lia|]. split; [exact Hp|exact Hmax].
      * rewrite (IH2 Nt). destruct (flt F 0 p) eqn:E.
        -- exists (length pre). split; [reflexivity|]. split; [rewrite app_length; cbn; lia|]. split; [rewrite nth_mid; now apply flt0_true|].
           intros j Hj Hp. apply Nt. exists (j - S (length pre))%nat. rewrite app_length in Hj. cbn [length] in Hj. split; [lia|].
           rewrite app_nth2 in Hp by lia. replace (j - length pre)%nat with (S (j - S (length pre))) in Hp by lia. exact Hp.
        -- exfalso. destruct Hpos as (j & Hj & Hp). destruct j as [|j]; [apply flt0_true in Hp; cbn [nth] in Hp; congruence|].
           apply Nt. exists j. split; [cbn in Hj; lia|exact Hp].
    + intros N. assert (Nt : ~ has_pos t). { intros (j & Hj & Hp). apply N. exists (S j). split; [cbn; lia|exact Hp]. }
      rewrite (IH2 Nt). destruct (flt F 0 p) eqn:E; [|reflexivity]. exfalso. apply N. exists O. split; [cbn; lia|]. now apply flt0_true. Qed.

(* last_positive: the LARGEST index of positive probability when there is one, else len - 1 *)
Theorem last_positive_spec ps :
  (has_pos ps -> exists n, last_positive F ps = Z.of_nat n /\ (n < length ps)%nat /\ 0 < nth n ps 0 /\
                           forall j, (n < j < length ps)%nat -> ~ 0 < nth j ps 0) /\
  (~ has_pos ps -> last_positive F ps = (Z.of_nat (length ps) - 1)%Z).
Proof. unfold C14_DataGen.last_positive. destruct (last_pos_go_spec ps [] (Z.of_nat (length ps) - 1)%Z) as [A B]. cbn [length app] in A, B.
  split; [|exact B]. intros H. destruct (A H) as (n & E & Hr & Hp & Hm). exists n. split; [exact E|]. split; [lia|]. split; [exact Hp|exact Hm]. Qed.

(* the fallback: r >= sum(p) returns the last index of POSITIVE probability (never an outcome of probability 0 when a
   positive entry exists) *)
Theorem rn2data_fallback ps r : Forall (kle F 0) ps -> total ps <= r -> rn2data ps r = last_positive F ps.
Proof. intros Hp Ht. unfold C14_DataGen.rn2data. destruct (rn2d_go ps 0 r O) as [i|] eqn:E; [|reflexivity].
  exfalso. destruct (top_some _ _ _ E) as (Hl & Hlt & _). apply (lt_irrefl_le _ _ Hlt).
  apply (k_trans F _ (total ps)); [|exact Ht]. rewrite <- (cum_all ps (length ps)) by lia. apply cum_mono; [exact Hp|lia]. Qed.

(* ---- the single-loop transcription, with an arbitrary accumulation operation ---- *)
Lemma rn2d_r_split t : forall c r idx lp,
  rn2d_r F (cadd F) t c r idx lp = match rn2d_go t c r idx with Some i => Z.of_nat i | None => last_pos_go F t idx lp end.
Proof. induction t as [|p t IH]; intros c r idx lp; cbn [C14_DataGen.rn2d_r C14_DataGen.rn2d_go C14_DataGen.last_pos_go]; [reflexivity|].
  destruct (flt F r (c + p)); [reflexivity|apply IH]. Qed.
Theorem rn2data_r_exact_add ps r : rn2data_r F (cadd F) ps r = rn2data ps r.
Proof. unfold C14_DataGen.rn2data_r, C14_DataGen.rn2data, C14_DataGen.last_positive. apply rn2d_r_split. Qed.

(* VALIDITY, for exact AND rounded accumulation: let add be any operation with  p <= 0 -> add c p <= c  (true of exact
   addition and of every monotone rounding of it, e.g. IEEE round-to-nearest on finite values).  Then for EVERY random number
   r >= 0 and every vector with at least one positive entry (no other condition: entries may be negative, the sum
   arbitrary) the returned outcome is in range and has positive probability. *)
Section Rounded.
(* rep: the set of values the accumulator can take (e.g. the numbers representable in the floating-point format); it contains
   0 and is closed under add; the monotonicity fact is needed on rep only *)
Context (add : F -> F -> F) (rep : F -> Prop) (rep0 : rep 0) (rep_add : forall c p, rep c -> rep (add c p))
        (add_nonpos : forall c p, rep c -> p <= 0 -> add c p <= c).
Lemma rn2d_r_valid_rep t : forall pre c r lp, rep c -> c <= r -> posidx (pre ++ t) lp \/ has_pos t ->
  posidx (pre ++ t) (rn2d_r F add t c r (length pre) lp).
Proof. induction t as [|p t IH]; intros pre c r lp Hrep Hc Hq; cbn [C14_DataGen.rn2d_r].
  - destruct Hq as [Hq|(j & Hj & _)]; [exact Hq|cbn in Hj; lia].
  - destruct (flt F r (add c p)) eqn:E.
    + exists (length pre). split; [reflexivity|]. split; [rewrite app_length; cbn; lia|]. rewrite nth_mid.
      destruct (flt F 0 p) eqn:E0; [now apply flt0_true|]. exfalso. apply flt_true in E. apply flt_false in E0.
      apply (lt_irrefl_le _ _ E). exact (k_trans F _ _ _ (add_nonpos c p Hrep E0) Hc).
    + apply flt_false in E. rewrite <- (len_snoc pre p), <- snoc_assoc. apply IH; [now apply rep_add|exact E|]. rewrite snoc_assoc.
      destruct (flt F 0 p) eqn:E0.
      * left. exists (length pre). split; [reflexivity|]. split; [rewrite app_length; cbn; lia|]. rewrite nth_mid. now apply flt0_true.
      * destruct Hq as [Hq|(j & Hj & Hp)]; [left; exact Hq|]. destruct j as [|j]; [apply flt0_true in Hp; cbn [nth] in Hp; congruence|].
        right. exists j. split; [cbn in Hj; lia|exact Hp]. Qed.
Theorem rn2data_r_valid_rep ps r : 0 <= r -> has_pos ps -> posidx ps (rn2data_r F add ps r).
Proof. intros Hr Hp. unfold C14_DataGen.rn2data_r. exact (rn2d_r_valid_rep ps [] 0 r _ rep0 Hr (or_intror Hp)). Qed.
End Rounded.
(* the special case rep = everything *)
Theorem rn2data_r_valid (add : F -> F -> F) (add_nonpos : forall c p, p <= 0 -> add c p <= c) ps r :
  0 <= r -> has_pos ps -> posidx ps (rn2data_r F add ps r).
Proof. exact (rn2data_r_valid_rep add (fun _ => True) I (fun _ _ _ => I) (fun c p _ H => add_nonpos c p H) ps r). Qed.

Lemma add_nonpos_exact c p : p <= 0 -> c + p <= c.
Proof. intros H. apply (proj2 (le_sub F (c + p) c)). replace (c - (c + p)) with (0 - p) by ring. apply (proj1 (le_sub F p 0)). exact H. Qed.
(* ... in particular for the model the harness executes and the translator regenerates *)
Theorem rn2data_valid ps r : 0 <= r -> has_pos ps -> posidx ps (rn2data ps r).
Proof. intros Hr Hp. rewrite <- rn2data_r_exact_add. exact (rn2data_r_valid (cadd F) add_nonpos_exact ps r Hr Hp). Qed.

(* ---- generate_data_from_prob_dist: every datum produced from a VALIDATED vector is an outcome of positive probability ---- *)
Lemma lsum_nonpos l : (forall p, In p l -> p <= 0) -> lsum l <= 0.
Proof. induction l as [|a l IH]; intros H. { rewrite lsum_nil. apply k_refl. }
  rewrite lsum_cons. assert (A : a + lsum l <= 0 + 0) by (apply le_add_compat; [apply H; now left|apply IH; intros p Hp; apply H; now right]).
  replace (0 + 0) with 0 in A by ring. exact A. Qed.
Lemma not_has_pos_all l : ~ has_pos l -> forall p, In p l -> p <= 0.
Proof. intros N p Hp. apply not_pos_le. intros Hpos. apply N. destruct (In_nth _ _ 0 Hp) as (j & Hj & E). exists j. split; [exact Hj|now rewrite E]. Qed.
Lemma validated_has_pos atol ps : atol < 1 -> validate F atol true ps = MOk tt -> has_pos ps.
Proof. intros Ha Hv. unfold validate in Hv. destruct (existsb _ ps); [discriminate|]. cbn [andb] in Hv.
  destruct (kleb F (absF F (lsum ps - 1)) atol) eqn:E; cbn [negb] in Hv; [|discriminate]. apply k_leb in E.
  assert (Hs : 0 < lsum ps).
  { unfold absF in E. destruct (kleb F 0 (lsum ps - 1)) eqn:E1.
    - apply k_leb in E1. apply (lt_le_trans _ 1); [exact zero_lt_one|]. apply (proj2 (le_sub F 1 (lsum ps))). exact E1.
    - assert (A : (1 - lsum ps) < 1). { apply (le_lt_trans _ atol); [|exact Ha]. replace (1 - lsum ps) with (- (lsum ps - 1)) by ring. exact E. }
      destruct A as [A1 A2]. split.
      + apply (proj1 (le_sub F (1 - lsum ps) 1)) in A1. replace (1 - (1 - lsum ps)) with (lsum ps) in A1 by ring. exact A1.
      + intros E0. apply A2. rewrite <- E0. ring. }
  destruct (flt F 0 (lsum ps)) eqn:Ef; [|apply flt_false in Ef; exfalso; exact (lt_irrefl_le _ _ Hs Ef)].
  (* decide has_pos by scanning *)
  assert (D : has_pos ps \/ ~ has_pos ps).
  { clear. induction ps as [|a t IHt]; [right; intros (j & Hj & _); cbn in Hj; lia|].
    destruct (flt F 0 a) eqn:E.
    - left. exists O. split; [cbn; lia|]. now apply flt0_true.
    - destruct IHt as [(j & Hj & Hp)|N]; [left; exists (S j); split; [cbn; lia|exact Hp]|].
      right. intros (j & Hj & Hp). destruct j as [|j]; [apply flt0_true in Hp; cbn [nth] in Hp; congruence|].
      apply N. exists j. split; [cbn in Hj; lia|exact Hp]. }
  destruct D as [D|N]; [exact D|]. exfalso. exact (lt_irrefl_le _ _ Hs (lsum_nonpos _ (not_has_pos_all _ N))). Qed.

Theorem gen_data_valid atol ps rs l : atol < 1 -> Forall (kle F 0) rs -> gen_data F atol ps rs = MOk l ->
  length l = length rs /\ Forall (posidx ps) l.
Proof. intros Ha Hr H. unfold gen_data in H. destruct (validate F atol true ps) as [[]|c] eqn:Ev; [|discriminate]. injection H as <-.
  pose proof (validated_has_pos _ _ Ha Ev) as Hp. split; [apply map_length|].
  apply Forall_forall. intros d Hd. apply in_map_iff in Hd. destruct Hd as (r & <- & Hin). rewrite Forall_forall in Hr.
  apply rn2data_valid; [now apply Hr|exact Hp]. Qed.

(* ------------------------------------------------------------------ numbers -> field *)
Lemma fpos_succ p : fpos (Pos.succ p) = fpos p + 1.
Proof. induction p as [p IH|p IH|]; cbn [Pos.succ C14_DataGen.fpos]; try rewrite IH; ring. Qed.
Lemma fnat_0 : fnat O = 0. Proof. reflexivity. Qed.
Lemma fnat_S n : fnat (S n) = fnat n + 1.
Proof. unfold C14_DataGen.fnat. destruct n as [|n]; cbn [Z.of_nat Pos.of_succ_nat C14_DataGen.fz C14_DataGen.fpos]. { ring. }
  apply fpos_succ. Qed.
Lemma fnat_add a b : fnat (a + b) = fnat a + fnat b.
Proof. induction a as [|a IH]; cbn [Nat.add]. { rewrite fnat_0; ring. } rewrite !fnat_S, IH. ring. Qed.
Lemma fnat_nonneg n : 0 <= fnat n.
Proof. induction n as [|n IH]. { apply k_refl. } rewrite fnat_S. apply add_nonneg; [exact IH|apply one_nonneg]. Qed.
Lemma fnat_pos n : (0 < n)%nat -> fnat n <> 0.
Proof. destruct n as [|n]; [lia|]. intros _ E. rewrite fnat_S in E.
  pose proof (k_add F _ _ 1 (fnat_nonneg n)) as A. rewrite E in A. replace (0 + 1) with 1 in A by ring.
  apply (one_neq_zero F). apply (k_antisym F); [exact A|apply one_nonneg]. Qed.
Lemma fnat_mono a b : (a <= b)%nat -> fnat a <= fnat b.
Proof. intros H. replace b with (a + (b - a))%nat by lia. rewrite fnat_add. apply le_add_r, fnat_nonneg. Qed.
Lemma fz_nat z : (0 <= z)%Z -> fz z = fnat (Z.to_nat z).
Proof. intros H. unfold C14_DataGen.fnat. now rewrite Z2Nat.id. Qed.
Lemma fz_add a b : (0 <= a)%Z -> (0 <= b)%Z -> fz (a + b) = fz a + fz b.
Proof. intros Ha Hb. rewrite !fz_nat by lia. rewrite Z2Nat.inj_add by lia. apply fnat_add. Qed.
Lemma div_nonneg x y : 0 <= x -> 0 <= y -> y <> 0 -> 0 <= x / y.
Proof. intros Hx Hy Hn. replace (x / y) with (x * (1 / y)) by (field; exact Hn). apply k_mul; [exact Hx|]. now apply inv_nonneg. Qed.

(* ------------------------------------------------------------------ counting *)
Lemma countz_app l d x : countz (l ++ [d]) x = (countz l x + (if Z.eq_dec d (Z.of_nat x) then 1 else 0))%nat.
Proof. unfold countz. rewrite count_occ_app. cbn [count_occ]. destruct (Z.eq_dec d (Z.of_nat x)); lia. Qed.
Lemma countz_cons l d x : countz (d :: l) x = ((if Z.eq_dec d (Z.of_nat x) then 1 else 0) + countz l x)%nat.
Proof. unfold countz. cbn [count_occ]. destruct (Z.eq_dec d (Z.of_nat x)); lia. Qed.
Lemma bump_map (f : nat -> nat) : forall m s k,
  bump (map f (seq s m)) k = map (fun x => if Nat.eqb x (s + k) then S (f x) else f x) (seq s m).
Proof. induction m as [|m IH]; intros s k; [destruct k; reflexivity|]. cbn [seq map]. destruct k as [|k]; cbn [bump].
  - rewrite Nat.add_0_r, Nat.eqb_refl. f_equal. apply map_ext_in. intros x Hx. apply in_seq in Hx.
    destruct (Nat.eqb_spec x s); [lia|reflexivity].
  - destruct (Nat.eqb_spec s (s + S k)); [lia|]. f_equal. rewrite IH. apply map_ext. intros x.
    replace (S s + k)%nat with (s + S k)%nat by lia. reflexivity. Qed.
Lemma bump_counts m' pre d : (0 <= d)%Z -> bump (counts m' pre) (Z.to_nat d) = counts m' (pre ++ [d]).
Proof. intros Hd. unfold counts. rewrite bump_map. apply map_ext. intros x. rewrite countz_app. cbn [Nat.add].
  destruct (Nat.eqb_spec x (Z.to_nat d)) as [E|E]; destruct (Z.eq_dec d (Z.of_nat x)) as [E'|E']; lia. Qed.
Lemma counts_nil m' : counts m' [] = repeat O m'.
Proof. unfold counts. assert (H : forall s, map (countz []) (seq s m') = repeat O m').
  { induction m' as [|m' IH]; intros s; [reflexivity|]. cbn [seq map repeat]. now rewrite IH. }
  apply H. Qed.
Lemma counts_length m' l : length (counts m' l) = m'.
Proof. unfold counts. now rewrite map_length, seq_length. Qed.
Lemma nth_counts m' l x : nth x (counts m' l) O = if (x <? m')%nat then countz l x else O.
Proof. unfold counts. destruct (Nat.ltb_spec x m') as [L|L].
  - rewrite (nth_indep _ O (countz l O)) by (now rewrite map_length, seq_length).
    rewrite map_nth, seq_nth by exact L. reflexivity.
  - apply nth_overflow. now rewrite map_length, seq_length. Qed.
Lemma list_sum_cons a l : list_sum (a :: l) = (a + list_sum l)%nat. Proof. reflexivity. Qed.
Lemma list_sum_map_add {A} (f g : A -> nat) l :
  list_sum (map (fun x => (f x + g x)%nat) l) = (list_sum (map f l) + list_sum (map g l))%nat.
Proof. induction l as [|a l IH]; [reflexivity|]. cbn [map]. rewrite !list_sum_cons, IH. lia. Qed.
Lemma sum_indicator d : forall m s,
  list_sum (map (fun x => if Z.eq_dec d (Z.of_nat x) then 1%nat else O) (seq s m)) =
  if ((Z.of_nat s <=? d) && (d <? Z.of_nat (s + m)))%Z then 1%nat else O.
Proof. induction m as [|m IH]; intros s; cbn [seq map]; rewrite ?list_sum_cons.
  - cbn [list_sum fold_right]. destruct (Z.leb_spec (Z.of_nat s) d), (Z.ltb_spec d (Z.of_nat (s + 0))); cbn [andb]; try reflexivity; lia.
  - rewrite IH. destruct (Z.eq_dec d (Z.of_nat s)), (Z.leb_spec (Z.of_nat (S s)) d), (Z.ltb_spec d (Z.of_nat (S s + m))),
      (Z.leb_spec (Z.of_nat s) d), (Z.ltb_spec d (Z.of_nat (s + S m))); cbn [andb]; lia. Qed.
Lemma counts_sum m' l : Forall (fun d => (0 <= d < Z.of_nat m')%Z) l -> list_sum (counts m' l) = length l.
Proof. induction l as [|d l IH]; intros H.
  - rewrite counts_nil. clear. induction m' as [|m' IH]; [reflexivity|]. cbn [repeat]. rewrite list_sum_cons, IH. reflexivity.
  - inversion H as [|? ? Hd Hl]; subst. unfold counts.
    rewrite (map_ext _ (fun x => ((if Z.eq_dec d (Z.of_nat x) then 1 else 0) + countz l x)%nat)) by (intros; apply countz_cons).
    rewrite list_sum_map_add, sum_indicator. fold (counts m' l). rewrite IH by exact Hl. cbn [length Nat.add Z.of_nat].
    destruct (Z.leb_spec 0 d), (Z.ltb_spec d (Z.of_nat m')); cbn [andb]; lia. Qed.
Lemma countz_firstn_mono l a b x : (a <= b)%nat -> (countz (firstn a l) x <= countz (firstn b l) x)%nat.
Proof. intros H. replace (firstn a l) with (firstn a (firstn b l)) by (rewrite firstn_firstn; f_equal; lia).
  rewrite <- (firstn_skipn a (firstn b l)) at 2. unfold countz. rewrite count_occ_app. lia. Qed.

Lemma fnat_list_sum l : fnat (list_sum l) = lsum (map fnat l).
Proof. induction l as [|a l IH]. { reflexivity. } cbn [map]. rewrite list_sum_cons, fnat_add, lsum_cons, IH. reflexivity. Qed.
Lemma lsum_map_div {A} (f : A -> F) y l : y <> 0 -> lsum (map (fun c => f c / y) l) = lsum (map f l) / y.
Proof. intros Hy. induction l as [|a l IH]; cbn [map]. { rewrite lsum_nil. field. exact Hy. }
  rewrite !lsum_cons, IH. field. exact Hy. Qed.

(* an empirical distribution built from a count vector that sums to n > 0 *)
Lemma empi_of_valid cf n : (0 < n)%nat -> list_sum cf = n ->
  length (empi_of F cf n) = length cf /\ Forall (kle F 0) (empi_of F cf n) /\ lsum (empi_of F cf n) = 1.
Proof. intros Hn Hs. pose proof (fnat_pos n Hn) as Hne. unfold empi_of. split; [apply map_length|]. split.
  - apply Forall_forall. intros e He. apply in_map_iff in He. destruct He as (c & <- & _).
    apply div_nonneg; [apply fnat_nonneg|apply fnat_nonneg|exact Hne].
  - rewrite (lsum_map_div fnat) by exact Hne. rewrite <- fnat_list_sum, Hs. field. exact Hne. Qed.

(* ------------------------------------------------------------------ calc_empi_dist_sequence *)
Notation empi_loop := (empi_loop F). Notation empi_seq := (empi_seq F). Notation empi_spec := (empi_spec F).
Notation empi_of := (empi_of F).

Lemma incr_last rest : forall next, incr_from next rest -> (next <= last (next :: rest) 0)%Z.
Proof. induction rest as [|x rest IH]; intros next H; [cbn; lia|].
  destruct H as [A B]. specialize (IH _ B). change (last (next :: x :: rest) 0%Z) with (last (x :: rest) 0%Z). lia. Qed.

Lemma inr_true m d : (0 <= d < m)%Z -> negb ((0 <=? d)%Z && (d <? m)%Z) = false.
Proof. intros H. apply negb_false_iff, andb_true_iff. split; [apply Z.leb_le|apply Z.ltb_lt]; lia. Qed.

(* forward: on a well-formed request the loop emits exactly the specified prefix distributions *)
Lemma loop_ok m len data : len = Z.of_nat (length data) ->
  forall data' pre idx cf next rest acc,
  data = pre ++ data' -> idx = length pre -> cf = counts (Z.to_nat m) pre ->
  (Z.of_nat idx < next)%Z -> incr_from next rest -> Forall (fun n => (n <= len)%Z) (next :: rest) ->
  Forall (fun d => (0 <= d < m)%Z) (firstn (Z.to_nat (last (next :: rest) 0%Z) - idx) data') ->
  empi_loop m len data' idx cf next rest acc = EOk (rev acc ++ map (empi_spec m data) (next :: rest)).
Proof. intros Hlen. induction data' as [|d data' IH]; intros pre idx cf next rest acc Hd Hi Hcf Hlt Hinc Hle Hval.
  - exfalso. rewrite app_nil_r in Hd. subst pre. inversion Hle; subst. lia.
  - cbn [C14_DataGen.empi_loop].
    pose proof (incr_last _ _ Hinc) as HL.
    replace (Z.to_nat (last (next :: rest) 0%Z) - idx)%nat with (S (Z.to_nat (last (next :: rest) 0%Z) - S idx)) in Hval by lia.
    rewrite firstn_cons in Hval. inversion Hval as [|? ? Hdv Hval']; subst.
    rewrite (inr_true _ _ Hdv).
    assert (Hcf' : bump (counts (Z.to_nat m) pre) (Z.to_nat d) = counts (Z.to_nat m) (pre ++ [d])) by (apply bump_counts; lia).
    assert (Hd' : pre ++ d :: data' = (pre ++ [d]) ++ data') by (now rewrite <- app_assoc).
    assert (Hi' : S (length pre) = length (pre ++ [d])) by (rewrite app_length; cbn; lia).
    destruct (Z.eqb_spec (Z.of_nat (S (length pre))) next) as [En|Nn].
    + assert (Hx : (next, empi_of (bump (counts (Z.to_nat m) pre) (Z.to_nat d)) (S (length pre))) = empi_spec m (pre ++ d :: data') next).
      { unfold C14_DataGen.empi_spec. replace (Z.to_nat next) with (S (length pre)) by lia.
        rewrite Hcf'. rewrite firstn_app, firstn_all2 by lia. replace (S (length pre) - length pre)%nat with 1%nat by lia.
        rewrite firstn_cons, firstn_O. reflexivity. }
      destruct rest as [|nx rest'].
      * cbn [rev map]. now rewrite Hx.
      * destruct Hinc as [Hn Hinc']. inversion Hle as [|? ? Hle1 Hle2]; subst. inversion Hle2 as [|? ? Hle3 Hle4]; subst.
        destruct (Z.ltb_spec (Z.of_nat (length (pre ++ d :: data'))) nx) as [B|_]; [lia|].
        destruct (Z.leb_spec nx (Z.of_nat (S (length pre)))) as [B|_]; [lia|].
        rewrite (IH (pre ++ [d]) (S (length pre)) _ nx rest' _ Hd' Hi' Hcf'); try assumption; try lia.
        { rewrite Hx. cbn [rev map]. rewrite <- app_assoc. reflexivity. }
    + rewrite (IH (pre ++ [d]) (S (length pre)) _ next rest acc Hd' Hi' Hcf'); try assumption; try lia. reflexivity. Qed.

(* backward: a successful run implies the request was well-formed *)
Lemma loop_inv m len : forall data' idx cf next rest acc out,
  len = (Z.of_nat idx + Z.of_nat (length data'))%Z -> (Z.of_nat idx < next)%Z -> (next <= len)%Z ->
  empi_loop m len data' idx cf next rest acc = EOk out ->
  incr_from next rest /\ Forall (fun n => (n <= len)%Z) rest /\
  Forall (fun d => (0 <= d < m)%Z) (firstn (Z.to_nat (last (next :: rest) 0%Z) - idx) data').
Proof. induction data' as [|d data' IH]; intros idx cf next rest acc out Hlen Hlt Hle H.
  - cbn [length] in Hlen. lia.
  - cbn [C14_DataGen.empi_loop] in H.
    destruct ((0 <=? d)%Z && (d <? m)%Z) eqn:Eb; cbn [negb] in H; [|discriminate].
    apply andb_true_iff in Eb. destruct Eb as [Eb1 Eb2]. apply Z.leb_le in Eb1. apply Z.ltb_lt in Eb2.
    cbn [length] in Hlen.
    destruct (Z.eqb_spec (Z.of_nat (S idx)) next) as [En|Nn].
    + destruct rest as [|nx rest'].
      * split; [exact I|]. split; [constructor|]. cbn [last]. replace (Z.to_nat next - idx)%nat with 1%nat by lia.
        rewrite firstn_cons, firstn_O. constructor; [lia|constructor].
      * destruct (Z.ltb_spec len nx) as [_|B1]; [discriminate|]. destruct (Z.leb_spec nx next) as [_|B2]; [discriminate|].
        apply IH in H; [|lia|lia|exact B1]. destruct H as (A1 & A2 & A3).
        pose proof (incr_last _ _ A1) as HL.
        split; [split; [lia|exact A1]|]. split; [constructor; assumption|].
        change (last (next :: nx :: rest') 0%Z) with (last (nx :: rest') 0%Z).
        replace (Z.to_nat (last (nx :: rest') 0%Z) - idx)%nat with (S (Z.to_nat (last (nx :: rest') 0%Z) - S idx)) by lia.
        rewrite firstn_cons. constructor; [lia|exact A3].
    + apply IH in H; [|lia|lia|exact Hle]. destruct H as (A1 & A2 & A3).
      pose proof (incr_last _ _ A1) as HL.
      split; [exact A1|]. split; [exact A2|].
      replace (Z.to_nat (last (next :: rest) 0%Z) - idx)%nat with (S (Z.to_nat (last (next :: rest) 0%Z) - S idx)) by lia.
      rewrite firstn_cons. constructor; [lia|exact A3]. Qed.

Theorem empi_seq_spec m data ns : empi_pre m data ns -> empi_seq m data ns = EOk (map (empi_spec m data) ns).
Proof. intros (Hm & Hinc & Hle & Hval). unfold C14_DataGen.empi_seq.
  destruct (Z.ltb_spec m 0) as [B|_]; [lia|]. destruct ns as [|n0 rest]; [reflexivity|].
  destruct Hinc as [Hn Hinc]. inversion Hle as [|? ? Hle1 Hle2]; subst.
  destruct (Z.leb_spec n0 0) as [B|_]; [lia|].
  destruct (Z.ltb_spec (Z.of_nat (length data)) n0) as [B|_]; [lia|].
  rewrite (loop_ok m _ data eq_refl data [] O _ n0 rest []); try reflexivity; try assumption.
  - now rewrite counts_nil.
  - now rewrite Nat.sub_0_r. Qed.

(* a successful run implies the request was well-formed (no side condition any more: a first sample size <= 0 is an error) *)
Theorem empi_seq_ok_inv m data ns out : empi_seq m data ns = EOk out -> empi_pre m data ns.
Proof. intros H. unfold C14_DataGen.empi_seq in H. destruct (Z.ltb_spec m 0) as [_|Hm]; [discriminate|].
  destruct ns as [|n0 rest]. { repeat split; try assumption; constructor. }
  destruct (Z.leb_spec n0 0) as [_|Hh]; [discriminate|].
  destruct (Z.ltb_spec (Z.of_nat (length data)) n0) as [_|B]; [discriminate|].
  apply loop_inv in H; [|cbn [Z.of_nat]; lia|cbn [Z.of_nat]; lia|exact B]. destruct H as (A1 & A2 & A3).
  split; [exact Hm|]. split; [split; [exact Hh|exact A1]|]. split; [constructor; assumption|].
  now rewrite Nat.sub_0_r in A3. Qed.

(* a first sample size <= 0 is rejected ("num_sums must be an increasing sequence" from former_num_sum = 0) *)
Theorem empi_seq_nonpositive_first m data n0 rest : (0 <= m)%Z -> (n0 <= 0)%Z -> empi_seq m data (n0 :: rest) = EErr 4.
Proof. intros Hm Hn. unfold C14_DataGen.empi_seq. destruct (Z.ltb_spec m 0) as [B|_]; [lia|].
  destruct (Z.leb_spec n0 0) as [_|B]; [reflexivity|lia]. Qed.

(* the output has exactly one member per requested sample size, in order *)
Theorem empi_seq_one_member_per_request m data ns out : empi_seq m data ns = EOk out -> map fst out = ns.
Proof. intros H. pose proof (empi_seq_ok_inv _ _ _ _ H) as Hp. rewrite (empi_seq_spec _ _ _ Hp) in H. injection H as <-.
  rewrite map_map. unfold C14_DataGen.empi_spec. cbn [fst]. apply map_id. Qed.

Theorem empi_seq_negative_measurement_num m data ns : (m < 0)%Z -> empi_seq m data ns = EErr 1.
Proof. intros H. unfold C14_DataGen.empi_seq. destruct (Z.ltb_spec m 0); [reflexivity|lia]. Qed.

(* every specified member is a genuine empirical distribution *)
Theorem empi_spec_valid m data n : (0 <= m)%Z -> (0 < n <= Z.of_nat (length data))%Z ->
  Forall (fun d => (0 <= d < m)%Z) (firstn (Z.to_nat n) data) ->
  length (snd (empi_spec m data n)) = Z.to_nat m /\ Forall (kle F 0) (snd (empi_spec m data n)) /\
  lsum (snd (empi_spec m data n)) = 1.
Proof. intros Hm Hn Hv. unfold C14_DataGen.empi_spec. cbn [snd].
  assert (Hs : list_sum (counts (Z.to_nat m) (firstn (Z.to_nat n) data)) = Z.to_nat n).
  { rewrite counts_sum. { rewrite firstn_length. lia. }
    eapply Forall_impl; [|exact Hv]. cbn beta. intros d Hd. lia. }
  destruct (empi_of_valid _ (Z.to_nat n) ltac:(lia) Hs) as (A & B & C). rewrite counts_length in A. auto. Qed.

Lemma nth_map_default {A} (f : A -> F) l x d : f d = 0 -> nth x (map f l) 0 = f (nth x l d).
Proof. intros <-. apply map_nth. Qed.

(* members of one sequence are consistent: counts of a prefix never exceed those of a longer prefix *)
Theorem empi_spec_consistent m data n n' x : (0 < n <= n')%Z ->
  fz n * nth x (snd (empi_spec m data n)) 0 <= fz n' * nth x (snd (empi_spec m data n')) 0.
Proof. intros Hn. unfold C14_DataGen.empi_spec, C14_DataGen.empi_of. cbn [snd].
  assert (E : forall k, (0 < k)%Z -> fz k * nth x (map (fun c => fnat c / fnat (Z.to_nat k)) (counts (Z.to_nat m) (firstn (Z.to_nat k) data))) 0
              = fnat (nth x (counts (Z.to_nat m) (firstn (Z.to_nat k) data)) O)).
  { intros k Hk. pose proof (fnat_pos (Z.to_nat k) ltac:(lia)) as Hne.
    rewrite (nth_map_default (fun c => fnat c / fnat (Z.to_nat k)) _ x O) by (rewrite fnat_0; field; exact Hne).
    rewrite fz_nat by lia. field. exact Hne. }
  rewrite !E by lia. apply fnat_mono. rewrite !nth_counts. destruct (x <? Z.to_nat m)%nat; [|lia].
  apply countz_firstn_mono. lia. Qed.

(* multinomial counts divided by the sample size *)
Lemma zsum_nonneg l : Forall (fun c => (0 <= c)%Z) l -> (0 <= fold_right Z.add 0%Z l)%Z.
Proof. induction 1; cbn [fold_right]; lia. Qed.
Theorem multi_to_empi_valid n cnt : (0 < n)%Z -> Forall (fun c => (0 <= c)%Z) cnt -> fold_right Z.add 0%Z cnt = n ->
  fst (multi_to_empi F n cnt) = n /\ length (snd (multi_to_empi F n cnt)) = length cnt /\
  Forall (kle F 0) (snd (multi_to_empi F n cnt)) /\ lsum (snd (multi_to_empi F n cnt)) = 1 /\
  (forall i, nth i cnt 0%Z = 0%Z -> nth i (snd (multi_to_empi F n cnt)) 0 = 0).
Proof. intros Hn Hc Hs. unfold C14_DataGen.multi_to_empi. cbn [fst snd].
  assert (Hne : fz n <> 0). { rewrite fz_nat by lia. apply fnat_pos. lia. }
  split; [reflexivity|]. split; [apply map_length|]. split; [|split].
  - apply Forall_forall. intros e He. apply in_map_iff in He. destruct He as (c & <- & Hin).
    rewrite Forall_forall in Hc. specialize (Hc _ Hin).
    apply div_nonneg; [rewrite fz_nat by lia; apply fnat_nonneg|rewrite fz_nat by lia; apply fnat_nonneg|exact Hne].
  - rewrite (lsum_map_div fz) by exact Hne. rewrite <- Hs.
    assert (E : lsum (map fz cnt) = fz (fold_right Z.add 0%Z cnt)).
    { clear Hs. induction Hc as [|c l Hc0 Hl IH]; [reflexivity|]. cbn [map fold_right]. rewrite lsum_cons, IH.
      rewrite fz_add; [reflexivity|lia|now apply zsum_nonneg]. }
    rewrite E, Hs. field. exact Hne.
  - intros i Hi. rewrite (nth_map_default (fun c => fz c / fz n) _ i 0%Z) by (cbn [C14_DataGen.fz]; field; exact Hne).
    rewrite Hi. cbn [C14_DataGen.fz]. field. exact Hne. Qed.

End P.

