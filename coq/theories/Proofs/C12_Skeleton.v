(* C12 — the meaning of the call skeletons (Model/C12_Skeleton.v) is the state machine of Model/C12_Loss.v.  Axiom-free. *)
From Coq Require Import String List Bool.
From QV.Core Require Import OF Sums Mat.
From QV.Model Require Import C12_Loss C12_Dispatch C12_Skeleton.
Import ListNotations.
Open Scope string_scope.

Section Sk.
Context {R : CR}.

Lemma sk_calc_ext m (st : @fstate R) : sem_calc_ext m (sb_calc sk_se_bodies) st = calc_ext m st.
Proof. destruct st as [[w|] e]; reflexivity. Qed.
Lemma sk_setter m (w : @wts R) (st : @fstate R) :
  sem_setter (sem_calc_ext m (sb_calc sk_se_bodies)) (sb_setter sk_se_bodies) w st = set_direct_fast m w st.
Proof. destruct st as [w0 e], w as [w|]; reflexivity. Qed.
Lemma sk_config_fast m gr he oid md (c : @wts R) k (os : @ostate R) :
  sem_config_fast m sk_se_bodies sk_config gr he oid (action_of md) c k os = step_fast_o m (OConfig oid md c k) os.
Proof. destruct os as [[[w|] e] o], md, gr, he, k as [k|], c as [c|]; reflexivity. Qed.
Lemma sk_config_generic gr he oid md (c : @wts R) k (cur : @wts R * option nat) :
  sem_config_generic sk_config gr he oid (action_of md) c k cur = step_generic_o (OConfig oid md c k) cur.
Proof. destruct cur as [[w|] o], md, gr, he, k as [k|], c as [c|]; reflexivity. Qed.

Lemma sk_setter_re m hasq (w : option (@vec R)) (st : @rstate R) :
  sem_setter_re (sem_calc_ew m (sb_calc sk_re_bodies)) (sb_setter sk_re_bodies) hasq w st = set_weights_re_fast m hasq w st.
Proof. destruct st as [w0 e], w as [w|], hasq; reflexivity. Qed.
Lemma sk_config_re_fast m gr he oid (cm : bool) (c : option (@vec R)) (os : @rostate R) :
  sem_config_re_fast m sk_re_bodies sk_config gr he oid (re_dispatch (Some (if cm then "custom" else "identity"))) c os
  = step_re_fast_o m (ROConfig oid cm c) os.
Proof. destruct os as [[[w|] e] o], cm, c as [c|], gr, he; reflexivity. Qed.
End Sk.
