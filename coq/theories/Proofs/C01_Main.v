(* C01 — the per-type main statements, assembled from Proofs/C01_Verdicts.v.  Generic in the ordered field, axiom-free.
   All verdicts here are the model with rtol = 0, i.e. the code after the repairs fixes/C01-state-is-trace-one-rtol.diff and
   fixes/C01-povm-is-identity-sum-rtol.diff (before them State.is_trace_one / Povm.is_identity_sum ran with rtol = np_rtol).
     *_is_physical_iff      is_physical(atol_eq, atol_ineq) = true  <->  equality defect <= atol_eq  /\  operator + atol_ineq*I >= 0
     *_physical_exact_iff   the same at tolerance 0: unit trace / identity sum / trace preserving, and positive semidefinite
     *_ctor_accepts_iff     the constructor with is_physicality_required=True does not raise  <->  physical at the Settings tolerance
     gate_tp_trace_exact_iff  the basis-generic branch of gate.is_tp at tolerance 0 <-> Tr G(X) = Tr X for every X (ANY basis) *)
From Coq Require Import Field Ring Setoid Arith Lia Bool List.
From QV.Core Require Import OF Sums Mat Cplx Psd C01_HermPsd.
From QV.Model Require Import QObj HermEmbed C01_Verdicts.
From QV.Proofs Require Import C01_Verdicts.

Section C01Main.
Context (F : OF).
Add Field Ffm : (k_field F).
Notation "0" := (c0 F). Notation "1" := (c1 F).
Infix "+" := (cadd F). Infix "*" := (cmul F). Infix "<=" := (kle F). Infix "-" := (csub F).
Infix "/" := (kdiv F). Notation "- x" := (copp F x).
Notation Cx := (CF F).

(* ------------------------------------------------------------------ small facts *)
Lemma zof_sumn n (f : nat -> F) : zof (sumn n f) = sumn n (fun i => zof (f i) : Cx).
Proof. induction n as [|n IH]; cbn [sumn]; [reflexivity|]. rewrite <- IH. apply cplx_eq; cbn; ring. Qed.

Lemma znorm2_sub_le0 (x y : Cx) : znorm2 (zsub x y) <= 0 * 0 <-> x = y.
Proof. replace (0 * 0) with 0 by ring. split.
  - intros A. assert (Z : znorm2 (zsub x y) = 0) by (apply (k_antisym F); [exact A|apply znorm2_nonneg]).
    apply znorm2_zero_iff in Z. destruct x as [p q], y as [r s].
    pose proof (f_equal fst Z) as Z1. pose proof (f_equal snd Z) as Z2. cbn in Z1, Z2. apply cplx_eq; cbn.
    + replace p with (p - r + r) by ring. rewrite Z1. ring.
    + replace q with (q - s + s) by ring. rewrite Z2. ring.
  - intros ->. apply le_refl'. unfold znorm2. destruct y; cbn. ring. Qed.

Lemma ctor_accepts_iff p : ctor_raises true p = false <-> p = true.
Proof. unfold ctor_raises. destruct p; cbn; intuition congruence. Qed.
Lemma ctor_not_required p : ctor_raises false p = false.
Proof. reflexivity. Qed.

(* ------------------------------------------------------------------ gate.is_tp, trace branch, tolerance 0, ANY basis *)
Lemma image_trace_expand d B (HS : rmat F) a :
  gate_image_trace d B HS a = sumn (d * d) (fun b => cmul Cx (zof (HS b a)) (mtrace d (B b))).
Proof. unfold gate_image_trace. apply mtrace_op_of_vec. Qed.

Lemma trace_apply_expand d B (HS : rmat F) (v : rvec F) :
  mtrace d (op_of_vec d B (mv (d * d) HS v)) =
  sumn (d * d) (fun a => cmul Cx (zof (v a)) (gate_image_trace d B HS a)).
Proof. rewrite mtrace_op_of_vec. unfold mv.
  rewrite (sumn_ext (d * d) _ (fun b => sumn (d * d) (fun a => cmul Cx (zof (v a)) (cmul Cx (zof (HS b a)) (mtrace d (B b)))))).
  2:{ intros b _. rewrite zof_sumn, <- sumn_scale_r. apply sumn_ext; intros a _.
      generalize (mtrace d (B b)). intros [p q]. apply cplx_eq; cbn; ring. }
  rewrite sumn_swap. apply sumn_ext; intros a _. rewrite sumn_scale_l, image_trace_expand. reflexivity. Qed.

Theorem gate_tp_trace_exact_iff d B (HS : rmat F) : (0 < d)%nat ->
  (gate_is_tp_trace d B HS 0 = true <->
   forall v : rvec F, mtrace d (op_of_vec d B (mv (d * d) HS v)) = mtrace d (op_of_vec d B v)).
Proof. intros Hd. rewrite (gate_tp_trace_iff F d B HS 0 Hd). split.
  - intros [_ A] v. rewrite trace_apply_expand, mtrace_op_of_vec. apply sumn_ext; intros a Ha.
    now rewrite (proj1 (znorm2_sub_le0 _ _) (A a Ha)).
  - intros A. split; [apply k_refl|]. intros a Ha. apply znorm2_sub_le0.
    specialize (A (fun b => if Nat.eqb b a then 1 else 0)). rewrite trace_apply_expand, mtrace_op_of_vec in A.
    rewrite (sumn_ext (d * d) _ (fun b => if Nat.eqb b a then gate_image_trace d B HS b else c0 Cx)) in A.
    2:{ intros b _. destruct (Nat.eqb b a); generalize (gate_image_trace d B HS b); intros [p q]; apply cplx_eq; cbn; ring. }
    rewrite (sumn_delta (d * d) a (fun b => gate_image_trace d B HS b) Ha) in A.
    rewrite (sumn_ext (d * d) _ (fun b => if Nat.eqb b a then mtrace d (B b) else c0 Cx)) in A.
    2:{ intros b _. destruct (Nat.eqb b a); generalize (mtrace d (B b)); intros [p q]; apply cplx_eq; cbn; ring. }
    rewrite (sumn_delta (d * d) a (fun b => mtrace d (B b)) Ha) in A. exact A. Qed.

(* ------------------------------------------------------------------ State *)
Theorem state_is_physical_iff st d B (v : rvec F) aeq aineq :
  basis_hermitian d B -> 0 <= resolve_atol st aineq ->
  (state_is_physical st 0 d B v aeq aineq = true <->
   kabs (re (state_trace d B v) - 1) <= resolve_atol st aeq /\
   forall x : cvec F, 0 <= hqf d (op_of_vec d B v) x + resolve_atol st aineq * cnorm2 d x).
Proof. intros HB Ha. unfold state_is_physical.
  rewrite andb_true_iff, (state_trace_verdict_iff F d B v _ HB), (state_is_psd_iff F d B v _ HB Ha). reflexivity. Qed.

Theorem state_physical_exact_iff st d B (v : rvec F) : basis_hermitian d B ->
  (state_is_physical st 0 d B v (Some 0) (Some 0) = true <-> state_trace d B v = c1 Cx /\ HPSD d (op_of_vec d B v)).
Proof. intros HB. unfold state_is_physical, resolve_atol, state_is_psd.
  rewrite andb_true_iff, state_trace_verdict_exact, (mutil_is_psd_0 F d _ (op_of_vec_hermitian F d B v HB)). reflexivity. Qed.

Theorem state_ctor_accepts_iff st d B (v : rvec F) : basis_hermitian d B -> 0 <= st ->
  (state_ctor_raises st 0 d B v true = false <->
   kabs (re (state_trace d B v) - 1) <= st /\ forall x : cvec F, 0 <= hqf d (op_of_vec d B v) x + st * cnorm2 d x).
Proof. intros HB Hs. unfold state_ctor_raises. rewrite ctor_accepts_iff.
  exact (state_is_physical_iff st d B v None None HB Hs). Qed.

(* ------------------------------------------------------------------ Povm *)
Theorem povm_is_physical_iff st d B m (vs : nat -> rvec F) aeq aineq :
  (0 < d)%nat -> basis_hermitian d B -> 0 <= resolve_atol st aineq ->
  (povm_is_physical st 0 d B m vs aeq aineq = true <->
   (0 <= resolve_atol st aeq /\
    forall i j, (i < d)%nat -> (j < d)%nat ->
      znorm2 (zsub (povm_sum d B m vs i j) (cdelta i j)) <= resolve_atol st aeq * resolve_atol st aeq) /\
   forall k, (k < m)%nat -> forall x : cvec F, 0 <= hqf d (op_of_vec d B (vs k)) x + resolve_atol st aineq * cnorm2 d x).
Proof. intros Hd HB Ha. unfold povm_is_physical.
  rewrite andb_true_iff, (povm_identity_sum_iff F d B m vs _ Hd), (povm_is_psd_iff F d B m vs _ HB Ha). reflexivity. Qed.

Theorem povm_physical_exact_iff st d B m (vs : nat -> rvec F) : (0 < d)%nat -> basis_hermitian d B ->
  (povm_is_physical st 0 d B m vs (Some 0) (Some 0) = true <->
   (forall i j, (i < d)%nat -> (j < d)%nat -> povm_sum d B m vs i j = cdelta i j) /\
   forall k, (k < m)%nat -> HPSD d (op_of_vec d B (vs k))).
Proof. intros Hd HB. unfold povm_is_physical, resolve_atol, povm_is_psd.
  rewrite andb_true_iff, (povm_identity_sum_exact F d B m vs Hd), allb_spec. split.
  - intros [A P]. split; [exact A|]. intros k Hk.
    exact (proj1 (mutil_is_psd_0 F d _ (op_of_vec_hermitian F d B (vs k) HB)) (P k Hk)).
  - intros [A P]. split; [exact A|]. intros k Hk.
    exact (proj2 (mutil_is_psd_0 F d _ (op_of_vec_hermitian F d B (vs k) HB)) (P k Hk)). Qed.

Theorem povm_ctor_accepts_iff st d B m (vs : nat -> rvec F) : (0 < d)%nat -> basis_hermitian d B -> 0 <= st ->
  (povm_ctor_raises st 0 d B m vs true = false <->
   (0 <= st /\ forall i j, (i < d)%nat -> (j < d)%nat -> znorm2 (zsub (povm_sum d B m vs i j) (cdelta i j)) <= st * st) /\
   forall k, (k < m)%nat -> forall x : cvec F, 0 <= hqf d (op_of_vec d B (vs k)) x + st * cnorm2 d x).
Proof. intros Hd HB Hs. unfold povm_ctor_raises. rewrite ctor_accepts_iff.
  exact (povm_is_physical_iff st d B m vs None None Hd HB Hs). Qed.

(* ------------------------------------------------------------------ Gate *)
(* branch taken when c_sys.is_orthonormal_hermitian_0thprop_identity : first row of HS *)
Theorem gate_is_physical_row_iff st d B (HS : rmat F) aeq aineq :
  basis_hermitian d B -> 0 <= resolve_atol st aineq ->
  (gate_is_physical st true d B HS aeq aineq = true <->
   (forall a, (a < d * d)%nat -> kabs (HS O a - rdelta O a) <= resolve_atol st aeq) /\
   forall x : cvec F, 0 <= hqf (d * d) (choi_of_hs d B HS) x + resolve_atol st aineq * cnorm2 (d * d) x).
Proof. intros HB Ha. unfold gate_is_physical. cbn [gate_is_tp].
  rewrite andb_true_iff, gate_tp_row_iff, (gate_is_cp_iff F d B HS _ HB Ha). reflexivity. Qed.

(* the basis-generic branch : Tr G(B_a) = Tr B_a for every basis element *)
Theorem gate_is_physical_trace_iff st d B (HS : rmat F) aeq aineq :
  (0 < d)%nat -> basis_hermitian d B -> 0 <= resolve_atol st aineq ->
  (gate_is_physical st false d B HS aeq aineq = true <->
   (0 <= resolve_atol st aeq /\
    forall a, (a < d * d)%nat ->
      znorm2 (zsub (gate_image_trace d B HS a) (mtrace d (B a))) <= resolve_atol st aeq * resolve_atol st aeq) /\
   forall x : cvec F, 0 <= hqf (d * d) (choi_of_hs d B HS) x + resolve_atol st aineq * cnorm2 (d * d) x).
Proof. intros Hd HB Ha. unfold gate_is_physical. cbn [gate_is_tp].
  rewrite andb_true_iff, (gate_tp_trace_iff F d B HS _ Hd), (gate_is_cp_iff F d B HS _ HB Ha). reflexivity. Qed.

(* tolerance 0, standard basis: trace preserving (as a map on all operators) and Choi matrix positive semidefinite *)
Theorem gate_physical_exact_iff st flag d sd B (HS : rmat F) :
  basis_orthonormal d B -> basis_hermitian d B -> basis_0th_identity d sd B -> (0 < d)%nat -> sd <> 0 ->
  (gate_is_physical st flag d B HS (Some 0) (Some 0) = true <->
   (forall v : rvec F, mtrace d (op_of_vec d B (mv (d * d) HS v)) = mtrace d (op_of_vec d B v)) /\
   HPSD (d * d) (choi_of_hs d B HS)).
Proof. intros Ho HB H0 Hd Hn. unfold gate_is_physical, resolve_atol, gate_is_cp.
  rewrite andb_true_iff, (mutil_is_psd_0 F (d * d) _ (choi_hermitian F d B HS HB)).
  destruct flag; cbn [gate_is_tp].
  - rewrite (gate_tp_row_exact_iff F d sd B HS Ho H0 Hd Hn). reflexivity.
  - rewrite (gate_tp_trace_exact_iff d B HS Hd). reflexivity. Qed.

Theorem gate_ctor_accepts_row_iff st d B (HS : rmat F) : basis_hermitian d B -> 0 <= st ->
  (gate_ctor_raises st true d B HS true = false <->
   (forall a, (a < d * d)%nat -> kabs (HS O a - rdelta O a) <= st) /\
   forall x : cvec F, 0 <= hqf (d * d) (choi_of_hs d B HS) x + st * cnorm2 (d * d) x).
Proof. intros HB Hs. unfold gate_ctor_raises. rewrite ctor_accepts_iff.
  exact (gate_is_physical_row_iff st d B HS None None HB Hs). Qed.

(* ------------------------------------------------------------------ MProcess (the constructor only admits flag = true) *)
Theorem mprocess_is_physical_iff st d B m (hss : nat -> rmat F) aeq aineq :
  basis_hermitian d B -> 0 <= resolve_atol st aineq ->
  (mprocess_is_physical st true d B m hss aeq aineq = true <->
   (forall a, (a < d * d)%nat -> kabs (mprocess_sum_hs m hss O a - rdelta O a) <= resolve_atol st aeq) /\
   forall k, (k < m)%nat -> forall x : cvec F,
     0 <= hqf (d * d) (choi_of_hs d B (hss k)) x + resolve_atol st aineq * cnorm2 (d * d) x).
Proof. intros HB Ha. unfold mprocess_is_physical, mprocess_is_sum_tp. cbn [gate_is_tp].
  rewrite andb_true_iff, gate_tp_row_iff, (mprocess_is_cp_iff F d B m hss _ HB Ha). reflexivity. Qed.

(* tolerance 0: every outcome completely positive (Choi >= 0), and the SUM of the outcomes trace preserving *)
Theorem mprocess_physical_exact_iff st d sd B m (hss : nat -> rmat F) :
  basis_orthonormal d B -> basis_hermitian d B -> basis_0th_identity d sd B -> (0 < d)%nat -> sd <> 0 ->
  (mprocess_is_physical st true d B m hss (Some 0) (Some 0) = true <->
   (forall v : rvec F, mtrace d (op_of_vec d B (mv (d * d) (mprocess_sum_hs m hss) v)) = mtrace d (op_of_vec d B v)) /\
   forall k, (k < m)%nat -> HPSD (d * d) (choi_of_hs d B (hss k))).
Proof. intros Ho HB H0 Hd Hn. unfold mprocess_is_physical, mprocess_is_sum_tp, resolve_atol, mprocess_is_cp, gate_is_cp.
  cbn [gate_is_tp]. rewrite andb_true_iff, (gate_tp_row_exact_iff F d sd B _ Ho H0 Hd Hn), allb_spec. split.
  - intros [A P]. split; [exact A|]. intros k Hk.
    exact (proj1 (mutil_is_psd_0 F (d * d) _ (choi_hermitian F d B (hss k) HB)) (P k Hk)).
  - intros [A P]. split; [exact A|]. intros k Hk.
    exact (proj2 (mutil_is_psd_0 F (d * d) _ (choi_hermitian F d B (hss k) HB)) (P k Hk)). Qed.

Theorem mprocess_ctor_accepts_iff st flag d B m (hss : nat -> rmat F) : basis_hermitian d B -> 0 <= st ->
  (mprocess_ctor_raises st flag d B m hss true = false <->
   flag = true /\
   (forall a, (a < d * d)%nat -> kabs (mprocess_sum_hs m hss O a - rdelta O a) <= st) /\
   forall k, (k < m)%nat -> forall x : cvec F, 0 <= hqf (d * d) (choi_of_hs d B (hss k)) x + st * cnorm2 (d * d) x).
Proof. intros HB Hs. unfold mprocess_ctor_raises. rewrite orb_false_iff, negb_false_iff, ctor_accepts_iff. split.
  - intros [-> P]. split; [reflexivity|]. exact (proj1 (mprocess_is_physical_iff st d B m hss None None HB Hs) P).
  - intros [-> P]. split; [reflexivity|]. exact (proj2 (mprocess_is_physical_iff st d B m hss None None HB Hs) P). Qed.
(* a basis whose flag is False is rejected whatever is asked *)
Theorem mprocess_ctor_flag_guard st d B m (hss : nat -> rmat F) required : mprocess_ctor_raises st false d B m hss required = true.
Proof. reflexivity. Qed.
(* ------------------------------------------------------------------ link to C06's notion of complete positivity
   C06 proves (C06_kraus_form_is_cp) for every Kraus-form map:  cpsd (d*d) (choi_of_hs d B (hs_of_kraus d B Ks)),  where
   cpsd n H := hermitian n H /\ PSD F (n+n) (embed F n H).  The CP verdict is true for every such map at every tolerance >= 0, and at
   tolerance 0 the verdict IS that PSD statement. *)
Theorem gate_is_cp_of_embed_psd d B (HS : rmat F) atol : basis_hermitian d B -> 0 <= atol ->
  PSD F (d * d + d * d) (embed F (d * d) (choi_of_hs d B HS)) -> gate_is_cp d B HS atol = true.
Proof. intros HB Ha P. apply (gate_is_cp_iff F d B HS atol HB Ha). intros x.
  apply add_nonneg; [exact (proj1 (embed_PSD_iff F (d * d) _) P x)|]. apply k_mul; [exact Ha|apply cnorm2_nonneg]. Qed.
Theorem gate_is_cp_0_iff_embed_psd d B (HS : rmat F) : basis_hermitian d B ->
  (gate_is_cp d B HS 0 = true <-> PSD F (d * d + d * d) (embed F (d * d) (choi_of_hs d B HS))).
Proof. intros HB. unfold gate_is_cp. rewrite (mutil_is_psd_0 F (d * d) _ (choi_hermitian F d B HS HB)).
  symmetry. apply embed_PSD_iff. Qed.
End C01Main.
