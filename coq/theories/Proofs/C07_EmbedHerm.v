(* C07 — the qutrit -> two-qubit embedding preserves positive semidefiniteness of COMPLEX Hermitian matrices
   (states, POVM elements): PSD is taken through the real symmetric embedding H = A + iB |-> [[A, -B], [B, A]]
   (Model/HermEmbed.v, the definition every physicality verdict of this development uses).  The padding coefficient is real
   and non-negative (0 for states, 1/m for POVM elements). *)
From Coq Require Import Arith List Bool Lia Ring.
From QV.Core Require Import OF Sums Mat Cplx Psd.
From QV.Model Require Import QObj HermEmbed C07_Tensor C07_Embed.
From QV.Proofs Require Import C07_Kron C07_Embed.
Import ListNotations.

Section EmbedHerm.
Context (F : OF).
Add Field Ffh7 : (k_field F).
Notation "0" := (c0 F). Notation "1" := (c1 F).
Infix "+" := (cadd F). Infix "*" := (cmul F). Infix "<=" := (kle F).
Local Notation rmat := (@mat F). Local Notation cmat := (@mat (CF F)).

(* bilinear form  u^T A v *)
Definition bf (n : nat) (A : rmat) (u v : nat -> F) : F := sumn n (fun i => sumn n (fun j => u i * A i j * v j)).
Lemma bf_ext n (A A' : rmat) u u' v v' : meq n n A A' -> (forall i, (i < n)%nat -> u i = u' i) -> (forall i, (i < n)%nat -> v i = v' i) ->
  bf n A u v = bf n A' u' v'.
Proof. intros HA Hu Hv. unfold bf. apply sumn_ext; intros i Hi. apply sumn_ext; intros j Hj.
  now rewrite HA, Hu, Hv. Qed.
Lemma qf_bf n (A : rmat) x : qf F n A x = bf n A x x. Proof. reflexivity. Qed.

Lemma bf_block n3 k c (M : rmat) u v :
  bf (n3 + k) (emb_block n3 c M) u v = bf n3 M u v + c * sumn k (fun m => u (n3 + m)%nat * v (n3 + m)%nat).
Proof. unfold bf. rewrite sumn_app. f_equal.
  - apply sumn_ext; intros i Hi. rewrite sumn_app.
    rewrite (sumn_zero' k). 2:{ intros m _. unfold emb_block. destruct (Nat.ltb_spec i n3); [|lia]. destruct (Nat.ltb_spec (n3 + m) n3); [lia|]. ring. }
    rewrite (sumn_ext n3 _ (fun j => u i * M i j * v j)).
    2:{ intros j Hj. unfold emb_block. destruct (Nat.ltb_spec i n3); [|lia]. destruct (Nat.ltb_spec j n3); [reflexivity|lia]. } ring.
  - rewrite <- sumn_scale_l. apply sumn_ext; intros m Hm. rewrite sumn_app.
    rewrite (sumn_zero' n3). 2:{ intros j Hj. unfold emb_block. destruct (Nat.ltb_spec (n3 + m) n3); [lia|]. destruct (Nat.eqb_spec (n3 + m) j); [lia|ring]. }
    rewrite (sumn_ext k _ (fun m' => if Nat.eqb m' m then u (n3 + m)%nat * c * v (n3 + m)%nat else 0)).
    2:{ intros m' Hm'. unfold emb_block. destruct (Nat.ltb_spec (n3 + m) n3); [lia|].
        destruct (Nat.eqb_spec (n3 + m) (n3 + m')) as [E|NE].
        - assert (m' = m) by lia. subst m'. now rewrite Nat.eqb_refl.
        - destruct (Nat.eqb_spec m' m); [lia|ring]. }
    rewrite (sumn_delta k m (fun _ => u (n3 + m)%nat * c * v (n3 + m)%nat)) by exact Hm. ring. Qed.

(* permutation congruence: substitute u o t, v o t *)
Lemma bf_perm n s t (A : rmat) u v : bij n s t ->
  bf n (fun i j => A (s i) (s j)) u v = bf n A (fun i => u (t i)) (fun i => v (t i)).
Proof. intros Hb. unfold bf. destruct Hb as [Hs Ht].
  rewrite (sumn_ext n _ (fun a => sumn n (fun j => u (t (s a)) * A (s a) j * v (t j)))).
  2:{ intros a Ha. destruct (Hs a Ha) as [_ ->].
      rewrite <- (@sumn_bij F n s t (fun j => u a * A (s a) j * v (t j))) by (now split).
      apply sumn_ext; intros b Hb2. now destruct (Hs b Hb2) as [_ ->]. }
  apply (@sumn_bij F n s t (fun i => sumn n (fun j => u (t i) * A i j * v (t j)))). now split. Qed.

(* the quadratic form of the real embedding in terms of the real and imaginary parts *)
Definition reM (H : cmat) : rmat := fun i j => re (H i j).
Definition imM (H : cmat) : rmat := fun i j => im (H i j).
Definition nimM (H : cmat) : rmat := fun i j => copp F (im (H i j)).
Lemma qf_embed N (H : cmat) y :
  qf F (N + N) (embed F N H) y =
  bf N (reM H) y y + bf N (nimM H) y (fun a => y (N + a)%nat)
  + (bf N (imM H) (fun a => y (N + a)%nat) y + bf N (reM H) (fun a => y (N + a)%nat) (fun a => y (N + a)%nat)).
Proof. unfold qf, bf. rewrite sumn_app. f_equal.
  - rewrite <- sumn_add. apply sumn_ext; intros i Hi. rewrite sumn_app. f_equal.
    + apply sumn_ext; intros j Hj. unfold embed, reM.
      destruct (Nat.ltb_spec i N); [|lia]. destruct (Nat.ltb_spec j N); [reflexivity|lia].
    + apply sumn_ext; intros j Hj. unfold embed, nimM.
      destruct (Nat.ltb_spec i N); [|lia]. destruct (Nat.ltb_spec (N + j) N); [lia|].
      replace (N + j - N)%nat with j by lia. reflexivity.
  - rewrite <- sumn_add. apply sumn_ext; intros i Hi. rewrite sumn_app. f_equal.
    + apply sumn_ext; intros j Hj. unfold embed, imM.
      destruct (Nat.ltb_spec (N + i) N); [lia|]. destruct (Nat.ltb_spec j N); [|lia].
      replace (N + i - N)%nat with i by lia. reflexivity.
    + apply sumn_ext; intros j Hj. unfold embed, reM.
      destruct (Nat.ltb_spec (N + i) N); [lia|]. destruct (Nat.ltb_spec (N + j) N); [lia|].
      replace (N + i - N)%nat with i by lia. replace (N + j - N)%nat with j by lia. reflexivity. Qed.

(* real / imaginary parts of the padded block matrix with a REAL padding coefficient *)
Lemma re_block n3 c (M : cmat) i j : re (@emb_block (CF F) n3 (zof c) M i j) = emb_block n3 c (reM M) i j.
Proof. unfold emb_block, reM. destruct (i <? n3)%nat; [destruct (j <? n3)%nat|destruct (Nat.eqb i j)]; reflexivity. Qed.
Lemma im_block n3 c (M : cmat) i j : im (@emb_block (CF F) n3 (zof c) M i j) = emb_block n3 0 (imM M) i j.
Proof. unfold emb_block, imM. destruct (i <? n3)%nat; [destruct (j <? n3)%nat|destruct (Nat.eqb i j)]; reflexivity. Qed.
Lemma nim_block n3 c (M : cmat) i j : copp F (im (@emb_block (CF F) n3 (zof c) M i j)) = emb_block n3 0 (nimM M) i j.
Proof. unfold emb_block, nimM. destruct (i <? n3)%nat; [destruct (j <? n3)%nat|destruct (Nat.eqb i j)]; cbn [im zof snd c0 CF]; try reflexivity; ring. Qed.

Theorem embed_psd_herm n3 k s t c (M : cmat) : bij (n3 + k) s t ->
  PSD F (n3 + n3) (embed F n3 M) -> 0 <= c ->
  PSD F ((n3 + k) + (n3 + k)) (embed F (n3 + k) (@embed_fast (CF F) n3 s (zof c) M)).
Proof. intros Hb HM Hc y. set (N := (n3 + k)%nat).
  set (y1 := fun a => y (N + a)%nat).
  set (z0 := fun i => y (t i)). set (z1 := fun i => y1 (t i)).
  set (z := fun i => if (i <? n3)%nat then z0 i else z1 (i - n3)%nat).
  rewrite qf_embed. fold y1.
  (* each of the four forms: matrix = block o (s, s) -> substitute -> split the block *)
  assert (Ere : bf N (reM (@embed_fast (CF F) n3 s (zof c) M)) y y
                = bf n3 (reM M) z0 z0 + c * sumn k (fun m => z0 (n3 + m)%nat * z0 (n3 + m)%nat)).
  { rewrite (bf_ext N _ (fun i j => emb_block n3 c (reM M) (s i) (s j)) y y y y);
      [|intros i j _ _; unfold reM at 1, embed_fast; apply re_block|reflexivity|reflexivity].
    rewrite (bf_perm N s t _ y y Hb). apply bf_block. }
  assert (Ere1 : bf N (reM (@embed_fast (CF F) n3 s (zof c) M)) y1 y1
                = bf n3 (reM M) z1 z1 + c * sumn k (fun m => z1 (n3 + m)%nat * z1 (n3 + m)%nat)).
  { rewrite (bf_ext N _ (fun i j => emb_block n3 c (reM M) (s i) (s j)) y1 y1 y1 y1);
      [|intros i j _ _; unfold reM at 1, embed_fast; apply re_block|reflexivity|reflexivity].
    rewrite (bf_perm N s t _ y1 y1 Hb). apply bf_block. }
  assert (Eim : bf N (imM (@embed_fast (CF F) n3 s (zof c) M)) y1 y = bf n3 (imM M) z1 z0).
  { rewrite (bf_ext N _ (fun i j => emb_block n3 0 (imM M) (s i) (s j)) y1 y1 y y);
      [|intros i j _ _; unfold imM at 1, embed_fast; apply im_block|reflexivity|reflexivity].
    rewrite (bf_perm N s t _ y1 y Hb). fold z1 z0. unfold N. rewrite bf_block. ring. }
  assert (Enim : bf N (nimM (@embed_fast (CF F) n3 s (zof c) M)) y y1 = bf n3 (nimM M) z0 z1).
  { rewrite (bf_ext N _ (fun i j => emb_block n3 0 (nimM M) (s i) (s j)) y y y1 y1);
      [|intros i j _ _; unfold nimM at 1, embed_fast; apply nim_block|reflexivity|reflexivity].
    rewrite (bf_perm N s t _ y y1 Hb). fold z1 z0. unfold N. rewrite bf_block. ring. }
  rewrite Ere, Ere1, Eim, Enim.
  (* the four n3-forms are the quadratic form of embed n3 M at z *)
  assert (Ez : qf F (n3 + n3) (embed F n3 M) z =
               bf n3 (reM M) z0 z0 + bf n3 (nimM M) z0 z1 + (bf n3 (imM M) z1 z0 + bf n3 (reM M) z1 z1)).
  { rewrite qf_embed.
    assert (A0 : forall i, (i < n3)%nat -> z i = z0 i) by (intros i Hi; unfold z; destruct (Nat.ltb_spec i n3); [reflexivity|lia]).
    assert (A1 : forall i, (i < n3)%nat -> z (n3 + i)%nat = z1 i).
    { intros i Hi. unfold z. destruct (Nat.ltb_spec (n3 + i) n3); [lia|]. now replace (n3 + i - n3)%nat with i by lia. }
    rewrite (bf_ext n3 (reM M) (reM M) z z0 z z0 (meq_refl _ _ _) A0 A0).
    rewrite (bf_ext n3 (nimM M) (nimM M) z z0 (fun a => z (n3 + a)%nat) z1 (meq_refl _ _ _) A0 A1).
    rewrite (bf_ext n3 (imM M) (imM M) (fun a => z (n3 + a)%nat) z1 z z0 (meq_refl _ _ _) A1 A0).
    rewrite (bf_ext n3 (reM M) (reM M) (fun a => z (n3 + a)%nat) z1 (fun a => z (n3 + a)%nat) z1 (meq_refl _ _ _) A1 A1).
    reflexivity. }
  replace (bf n3 (reM M) z0 z0 + c * sumn k (fun m => z0 (n3 + m)%nat * z0 (n3 + m)%nat) + bf n3 (nimM M) z0 z1 +
           (bf n3 (imM M) z1 z0 + (bf n3 (reM M) z1 z1 + c * sumn k (fun m => z1 (n3 + m)%nat * z1 (n3 + m)%nat))))
    with (qf F (n3 + n3) (embed F n3 M) z
          + (c * sumn k (fun m => z0 (n3 + m)%nat * z0 (n3 + m)%nat) + c * sumn k (fun m => z1 (n3 + m)%nat * z1 (n3 + m)%nat)))
    by (rewrite Ez; ring).
  apply add_nonneg; [apply HM|].
  apply add_nonneg; (apply k_mul; [exact Hc|]; apply sumn_nonneg; intros; apply sqr_nonneg). Qed.
End EmbedHerm.
