(* C18 — the dissipator matrix of ANY set of jump operators, K = sum_c g g^dagger, is positive semidefinite (the quadratic form of the
   real embedding of a rank-one g g^dagger is a sum of two squares), PSD is stable under + t I for t >= 0, and therefore — with
   C18_JumpHK (jump form = (H_eff, K) form) and C18_Physical (physical iff K + atol I PSD) — the stored generator of every set of
   jump operators is judged physical for every atol >= 0.  Generic in the ordered field; axiom-free. *)
From Coq Require Import Field Ring Setoid Arith Lia Bool List.
From QV.Core Require Import OF Sums Mat Cplx Psd.
From QV.Model Require Import QObj HermEmbed C18_Lindblad.
From QV.Proofs Require Import C18_Algebra C18_Misc C18_Action C18_Extract C18_Rebuild C18_Verdict C18_Convert C18_Physical C18_JumpHK.
Import ListNotations.
Section JumpPSD.
Context (F : OF).
Add Field Ffq : (k_field F).
Notation Cx := (CF F).
Add Ring Crq : (c_ring Cx).
Notation "0" := (c0 F). Notation "1" := (c1 F).
Infix "+" := (cadd F). Infix "*" := (cmul F). Infix "<=" := (kle F). Infix "-" := (csub F).
Notation "- x" := (copp F x).
Notation cmat := (cmat F).
Notation rmat := (rmat F).

(* the quadratic form of the real embedding, written out in the two halves u = x[0..m), v = x[m..2m) *)
Lemma qf_embed_split m (K : cmat) (x : nat -> F) :
  qf F (m + m) (embed F m K) x
  = sumn m (fun i => sumn m (fun j =>
      x i * re (K i j) * x j - x i * im (K i j) * x (m + j)%nat + x (m + i)%nat * im (K i j) * x j + x (m + i)%nat * re (K i j) * x (m + j)%nat)).
Proof. unfold qf. rewrite sumn_app.
  rewrite (sumn_ext m (fun i => sumn (m + m) (fun j => x i * embed F m K i j * x j))
                      (fun i => sumn m (fun j => x i * re (K i j) * x j - x i * im (K i j) * x (m + j)%nat))).
  2:{ intros i Hi. rewrite sumn_app, <- sumn_add. apply sumn_ext; intros j Hj. unfold embed.
      destruct (Nat.ltb_spec i m); [|lia]. destruct (Nat.ltb_spec j m); [|lia]. destruct (Nat.ltb_spec (m + j) m); [lia|].
      replace (m + j - m)%nat with j by lia. ring. }
  rewrite (sumn_ext m (fun i => sumn (m + m) (fun j => x (m + i)%nat * embed F m K (m + i)%nat j * x j))
                      (fun i => sumn m (fun j => x (m + i)%nat * im (K i j) * x j + x (m + i)%nat * re (K i j) * x (m + j)%nat))).
  2:{ intros i Hi. rewrite sumn_app, <- sumn_add. apply sumn_ext; intros j Hj. unfold embed.
      destruct (Nat.ltb_spec (m + i) m); [lia|]. destruct (Nat.ltb_spec j m); [|lia]. destruct (Nat.ltb_spec (m + j) m); [lia|].
      replace (m + i - m)%nat with i by lia. replace (m + j - m)%nat with j by lia. ring. }
  rewrite <- sumn_add. apply sumn_ext; intros i _. rewrite <- sumn_add. apply sumn_ext; intros j _. ring. Qed.

(* rank one: K = g g^dagger  gives a sum of two squares *)
Lemma qf_jump_K m (g : nat -> Cx) (x : nat -> F) :
  qf F (m + m) (embed F m (jump_K g)) x
  = sumn m (fun i => re (g i) * x i + im (g i) * x (m + i)%nat) * sumn m (fun i => re (g i) * x i + im (g i) * x (m + i)%nat)
    + sumn m (fun i => im (g i) * x i - re (g i) * x (m + i)%nat) * sumn m (fun i => im (g i) * x i - re (g i) * x (m + i)%nat).
Proof. rewrite qf_embed_split, !sumn_mul, <- sumn_add. apply sumn_ext; intros i _. rewrite <- sumn_add. apply sumn_ext; intros j _.
  unfold jump_K. cbn. ring. Qed.
Lemma psd_jump_K m (g : nat -> Cx) : PSD F (m + m) (embed F m (jump_K g)).
Proof. intros x. rewrite qf_jump_K. apply add_nonneg; apply sqr_nonneg. Qed.

Lemma qf_embed_madd m (K1 K2 : cmat) x :
  qf F (m + m) (embed F m (madd K1 K2)) x = qf F (m + m) (embed F m K1) x + qf F (m + m) (embed F m K2) x.
Proof. rewrite !qf_embed_split, <- sumn_add. apply sumn_ext; intros i _. rewrite <- sumn_add. apply sumn_ext; intros j _.
  unfold madd. cbn. ring. Qed.
Lemma qf_embed_zero m x : qf F (m + m) (embed F m (@mzero Cx)) x = 0.
Proof. rewrite qf_embed_split. apply sumn_zero'. intros i _. apply sumn_zero'. intros j _. unfold mzero. cbn. ring. Qed.
Theorem psd_jumps_K m (l : list (Cx * (nat -> Cx))) : PSD F (m + m) (embed F m (jumps_K l)).
Proof. intros x. unfold jumps_K, msum. induction l as [|[a g] l IH]; cbn [map fold_right snd].
  - rewrite qf_embed_zero. apply k_refl.
  - rewrite qf_embed_madd. apply add_nonneg; [apply psd_jump_K|exact IH]. Qed.

Lemma qf_shiftI n t (M : rmat) x : qf F n (shiftI F t M) x = qf F n M x + t * sumn n (fun i => x i * x i).
Proof. unfold qf. rewrite <- sumn_scale_l, <- sumn_add. apply sumn_ext; intros i Hi.
  rewrite <- (sumn_delta' n i (fun j => t * (x i * x j)) Hi). rewrite <- sumn_add. apply sumn_ext; intros j _.
  unfold shiftI. destruct (Nat.eqb i j); ring. Qed.
Lemma psd_shiftI n t (M : rmat) : 0 <= t -> PSD F n M -> PSD F n (shiftI F t M).
Proof. intros Ht HM x. rewrite qf_shiftI. apply add_nonneg; [apply HM|].
  replace 0 with (t * 0) by ring. apply mul_le_compat_nonneg; [exact Ht|]. apply sumn_nonneg. intros; apply sqr_nonneg. Qed.

(* ---------------------------------------------------------------- end to end: every jump-operator generator is judged physical *)
Notation "x *c y" := (cmul Cx x y) (at level 40, left associativity).
Variable d : nat.
Hypothesis Hd : (0 < d)%nat.
Variable B : nat -> cmat.
Variable sd : F.
Hypothesis Horth : basis_orthonormal d B.
Hypothesis Hherm : basis_hermitian d B.
Hypothesis H0 : basis_0th_identity d sd B.
Hypothesis Hsd : cmul F sd sd = ofnat d.
Hypothesis Hcomp : basis_complete d B.
Notation n := (d * d)%nat.
Notation m := (d * d - 1)%nat.

Lemma cb_of_hs_ext (HS HS' : rmat) : (forall a b, HS a b = HS' a b) -> forall s t, cb_of_hs d B HS s t = cb_of_hs d B HS' s t.
Proof. intros E s t. unfold cb_of_hs, cb_of_chs. apply mmul_row_ext. intros l _. apply mmul_col_ext. intros q _. unfold cof. now rewrite E. Qed.
Lemma is_physical_dec_ext atol (HS HS' : rmat) : (forall a b, HS a b = HS' a b) ->
  is_physical_dec F d B atol HS = is_physical_dec F d B atol HS'.
Proof. intros E. unfold is_physical_dec. f_equal.
  - unfold is_tp_dec. apply (allb_ext d Hd). intros j _. now rewrite E.
  - rewrite !(is_cp_dec_unfold F d B). apply (cp_of_K_ext F d Hd). intros a b _ _. unfold calc_k_mat.
    apply (tr2_ext F d); [|apply meq_refl]. intros s t _ _. now apply cb_of_hs_ext. Qed.

Theorem jump_generator_physical (l : list (Cx * (nat -> Cx))) atol : 0 <= atol ->
  is_physical_dec F d B atol (cre (chs_of_cb d B (jump_d d (jumps_ops d B l)))) = true.
Proof. intros Ha.
  rewrite (is_physical_dec_ext atol _ (cre (chs_of_cb d B (lcb_hk d B (jumps_H d B l) (jumps_K l))))).
  2:{ intros a b. unfold cre. f_equal. apply (chs_of_cb_ext F d B). now apply (jumps_as_hk F d Hd). }
  apply (generated_physical_iff F d Hd B sd Horth Hherm H0 Hsd Hcomp _ _ atol (jumps_H_herm F d B l d) (jumps_K_herm F l m) Ha).
  apply psd_shiftI; [exact Ha|apply psd_jumps_K]. Qed.
End JumpPSD.
