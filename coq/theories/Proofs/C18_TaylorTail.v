(* C18 — the rational Taylor ENCLOSURE of exp(L): for a real n x n matrix L with infinity norm (maximal absolute row sum) <= x and
   every N with x < N + 2, every later Taylor partial sum T_{N+p}(L) stays entrywise within
       R_N = x^(N+1)/(N+1)! * (N+2)/(N+2-x)
   of T_N(L)  (sub-multiplicativity of the row-sum norm, |L^k/k!| <= x^k/k!, geometric tail).  The limit exp(L) therefore lies in
   the same enclosure (the limit itself is not formalised: F is an arbitrary ordered field).  The harness evaluates T_N and R_N
   exactly in rationals and checks scipy's expm against them.  Generic in the ordered field; axiom-free. *)
From Coq Require Import Field Ring Setoid Arith Lia Bool List.
From QV.Core Require Import OF Sums Mat Cplx Psd.
From QV.Model Require Import QObj HermEmbed C18_Lindblad.
From QV.Proofs Require Import C18_Misc.
Section Tail.
Context (F : OF).
Add Field Fft : (k_field F).
Notation "0" := (c0 F). Notation "1" := (c1 F).
Infix "+" := (cadd F). Infix "*" := (cmul F). Infix "<=" := (kle F). Infix "-" := (csub F).
Infix "/" := (kdiv F). Notation "- x" := (copp F x).
Notation rmat := (rmat F).
Notation fabs := (fabs F).

(* ---------------------------------------------------------------- order toolkit *)
Lemma le_refl x : x <= x. Proof. apply k_refl. Qed.
Lemma mul_nonneg a b : 0 <= a -> 0 <= b -> 0 <= a * b.
Proof. intros Ha Hb. replace 0 with (a * 0) by ring. now apply mul_le_compat_nonneg. Qed.
Lemma mul_le_r a b c : 0 <= c -> a <= b -> a * c <= b * c.
Proof. intros Hc H. replace (a * c) with (c * a) by ring. replace (b * c) with (c * b) by ring. now apply mul_le_compat_nonneg. Qed.
Lemma fabs_pos x : 0 <= x -> fabs x = x.
Proof. intros H. unfold C18_Lindblad.fabs. destruct (kleb F 0 x) eqn:E; [reflexivity|].
  apply leb_false_lt in E. destruct E as [E1 E2]. exfalso. apply E2. now apply (k_antisym F). Qed.
Lemma fabs_neg x : x <= 0 -> fabs x = - x.
Proof. intros H. unfold C18_Lindblad.fabs. destruct (kleb F 0 x) eqn:E; [|reflexivity].
  apply k_leb in E. assert (x = 0) by now apply (k_antisym F). subst x. ring. Qed.
Lemma fabs_nonneg x : 0 <= fabs x.
Proof. destruct (k_total F 0 x) as [H|H]; [now rewrite fabs_pos|rewrite fabs_neg by exact H; now apply opp_nonneg]. Qed.
Lemma le_fabs x : x <= fabs x.
Proof. destruct (k_total F 0 x) as [H|H]; [rewrite fabs_pos by exact H; apply le_refl|].
  apply (k_trans F _ 0); [exact H|apply fabs_nonneg]. Qed.
Lemma neg_le_fabs x : - x <= fabs x.
Proof. destruct (k_total F 0 x) as [H|H]; [|rewrite fabs_neg by exact H; apply le_refl].
  apply (k_trans F _ 0); [now apply opp_nonpos|apply fabs_nonneg]. Qed.
Lemma fabs_bound x a : x <= a -> - x <= a -> fabs x <= a.
Proof. intros H1 H2. destruct (k_total F 0 x) as [H|H]; [now rewrite fabs_pos|now rewrite fabs_neg]. Qed.
Lemma fabs_triangle a b : fabs (a + b) <= fabs a + fabs b.
Proof. apply fabs_bound.
  - apply le_add_compat; apply le_fabs.
  - replace (- (a + b)) with (- a + - b) by ring. apply le_add_compat; apply neg_le_fabs. Qed.
Lemma fabs_mul a b : fabs (a * b) = fabs a * fabs b.
Proof. destruct (k_total F 0 a) as [Ha|Ha], (k_total F 0 b) as [Hb|Hb].
  - rewrite (fabs_pos a Ha), (fabs_pos b Hb). apply fabs_pos. now apply mul_nonneg.
  - rewrite (fabs_pos a Ha), (fabs_neg b Hb). rewrite fabs_neg; [ring|].
    apply (proj2 (le_sub F (a * b) 0)). replace (0 - a * b) with (a * - b) by ring. apply mul_nonneg; [exact Ha|now apply opp_nonneg].
  - rewrite (fabs_neg a Ha), (fabs_pos b Hb). rewrite fabs_neg; [ring|].
    apply (proj2 (le_sub F (a * b) 0)). replace (0 - a * b) with (- a * b) by ring. apply mul_nonneg; [now apply opp_nonneg|exact Hb].
  - rewrite (fabs_neg a Ha), (fabs_neg b Hb). rewrite fabs_pos; [ring|].
    replace (a * b) with (- a * - b) by ring. apply mul_nonneg; now apply opp_nonneg. Qed.
Lemma sumn_le n (f g : nat -> F) : (forall i, (i < n)%nat -> f i <= g i) -> sumn n f <= sumn n g.
Proof. induction n as [|n IH]; intros H; cbn [sumn]. { apply le_refl. }
  apply le_add_compat; [apply IH; intros; apply H; lia|apply H; lia]. Qed.
Lemma fabs_sumn n (f : nat -> F) : fabs (sumn n f) <= sumn n (fun i => fabs (f i)).
Proof. induction n as [|n IH]; cbn [sumn]. { rewrite fabs_pos by apply le_refl. apply le_refl. }
  apply (k_trans F _ (fabs (sumn n f) + fabs (f n))); [apply fabs_triangle|].
  apply le_add_compat; [exact IH|apply le_refl]. Qed.
Lemma term_le_sumn n (f : nat -> F) j : (forall k, (k < n)%nat -> 0 <= f k) -> (j < n)%nat -> f j <= sumn n f.
Proof. induction n as [|n IH]; intros Hf Hj; [lia|]. cbn [sumn].
  assert (Hs : 0 <= sumn n f) by (apply sumn_nonneg; intros; apply Hf; lia).
  destruct (Nat.eq_dec j n) as [->|Hne].
  - replace (f n) with (0 + f n) at 1 by ring. apply le_add_compat; [exact Hs|apply le_refl].
  - replace (f j) with (f j + 0) by ring. apply le_add_compat; [apply IH; [intros; apply Hf; lia|lia]|apply Hf; lia]. Qed.

(* ---------------------------------------------------------------- row sums (the infinity norm) *)
Definition rs (n : nat) (A : rmat) (i : nat) : F := sumn n (fun j => fabs (A i j)).
Fixpoint xpow (x : F) (k : nat) : F := match k with O => 1 | S k' => x * xpow x k' end.
Lemma rs_nonneg n A i : 0 <= rs n A i.
Proof. unfold rs. apply sumn_nonneg. intros; apply fabs_nonneg. Qed.
Lemma entry_le_rs n (A : rmat) i j : (j < n)%nat -> fabs (A i j) <= rs n A i.
Proof. intros Hj. unfold rs. apply (term_le_sumn n (fun j => fabs (A i j)) j); [intros; apply fabs_nonneg|exact Hj]. Qed.
Lemma rs_mmul n (L P : rmat) y i : (forall l, (l < n)%nat -> rs n P l <= y) -> rs n (mmul n L P) i <= rs n L i * y.
Proof. intros HP. unfold rs at 1. unfold mmul.
  apply (k_trans F _ (sumn n (fun j => sumn n (fun l => fabs (L i l) * fabs (P l j))))).
  { apply sumn_le. intros j _. apply (k_trans F _ (sumn n (fun l => fabs (L i l * P l j)))); [apply fabs_sumn|].
    apply sumn_le. intros l _. rewrite fabs_mul. apply le_refl. }
  rewrite sumn_swap.
  apply (k_trans F _ (sumn n (fun l => fabs (L i l) * y))).
  { apply sumn_le. intros l Hl. rewrite sumn_scale_l. apply mul_le_compat_nonneg; [apply fabs_nonneg|now apply HP]. }
  rewrite sumn_scale_r. apply le_refl. Qed.
Lemma xpow_nonneg x k : 0 <= x -> 0 <= xpow x k.
Proof. intros Hx. induction k as [|k IH]; cbn [xpow]; [apply one_nonneg|now apply mul_nonneg]. Qed.
Lemma rs_mid n i : (i < n)%nat -> rs n (@mid F) i = 1.
Proof. intros Hi. unfold rs, mid.
  rewrite (sumn_ext n _ (fun j => if Nat.eqb i j then 1 else 0)).
  2:{ intros j _. destruct (Nat.eqb i j); [apply fabs_pos, one_nonneg|apply fabs_pos, le_refl]. }
  exact (sumn_delta' n i (fun _ => 1) Hi). Qed.
Lemma rs_mpow n (L : rmat) x : 0 <= x -> (forall i, (i < n)%nat -> rs n L i <= x) ->
  forall k i, (i < n)%nat -> rs n (mpow n L k) i <= xpow x k.
Proof. intros Hx HL. induction k as [|k IH]; intros i Hi; cbn [mpow xpow].
  - rewrite rs_mid by exact Hi. apply le_refl.
  - apply (k_trans F _ (rs n L i * xpow x k)); [now apply rs_mmul|].
    apply mul_le_r; [now apply xpow_nonneg|now apply HL]. Qed.

(* ---------------------------------------------------------------- k! and the terms x^k / k! *)
Lemma ofnat_nn k : 0 <= @ofnat F k. Proof. apply ofnat_nonneg. Qed.
Lemma ffact_nonneg k : 0 <= ffact F k.
Proof. induction k as [|k IH]; cbn [ffact]; [apply one_nonneg|apply mul_nonneg; [apply ofnat_nn|exact IH]]. Qed.
Definition tk (x : F) (k : nat) : F := xpow x k / ffact F k.
Lemma inv_ffact_nonneg k : 0 <= 1 / ffact F k.
Proof. apply inv_nonneg; [apply ffact_neq0|apply ffact_nonneg]. Qed.
Lemma tk_nonneg x k : 0 <= x -> 0 <= tk x k.
Proof. intros Hx. unfold tk. replace (xpow x k / ffact F k) with (xpow x k * (1 / ffact F k)) by (field; apply ffact_neq0).
  apply mul_nonneg; [now apply xpow_nonneg|apply inv_ffact_nonneg]. Qed.
Lemma tk_S x k : tk x (S k) = tk x k * (x / ofnat (S k)).
Proof. unfold tk. cbn [xpow ffact]. field. repeat split; first [apply ffact_neq0|apply (ofnat_S_neq0 F k)]. Qed.

Lemma ofnat_mono a b : (a <= b)%nat -> @ofnat F a <= ofnat b.
Proof. induction 1 as [|b Hab IH]; [apply le_refl|]. cbn [ofnat]. apply (k_trans F _ (ofnat b)); [exact IH|].
  replace (@ofnat F b) with (ofnat b + 0) at 1 by ring. apply le_add_compat; [apply le_refl|apply one_nonneg]. Qed.
Lemma div_antimono x a b : 0 <= x -> 0 <= a -> a <> 0 -> a <= b -> x / b <= x / a.
Proof. intros Hx Ha Hane Hab.
  assert (Hb : 0 <= b) by now apply (k_trans F _ a).
  assert (Hbne : b <> 0). { intros E. apply Hane. apply (k_antisym F); [now rewrite <- E|exact Ha]. }
  apply (proj2 (le_sub F _ _)).
  replace (x / a - x / b) with (x * (b - a) * ((1 / a) * (1 / b))) by (field; split; assumption).
  apply mul_nonneg; [apply mul_nonneg; [exact Hx|now apply (proj1 (le_sub F a b))]|].
  apply mul_nonneg; now apply inv_nonneg. Qed.

Section Frz.
Variable frz : rmat -> rmat.
Variable n : nat.
Hypothesis frz_spec : forall M i j, (i < n)%nat -> (j < n)%nat -> frz M i j = M i j.
Variable L : rmat.
Variable x : F.
Hypothesis Hx : 0 <= x.
Hypothesis HL : forall i, (i < n)%nat -> rs n L i <= x.

Lemma tterm_bound k i j : (i < n)%nat -> (j < n)%nat -> fabs (tterm frz n L k i j) <= tk x k.
Proof. intros Hi Hj. rewrite (tterm_mpow F frz n frz_spec L k i j Hi Hj). unfold mscale. rewrite fabs_mul.
  rewrite (fabs_pos _ (inv_ffact_nonneg k)). unfold tk.
  replace (xpow x k / ffact F k) with (1 / ffact F k * xpow x k) by (field; apply ffact_neq0).
  apply mul_le_compat_nonneg; [apply inv_ffact_nonneg|].
  apply (k_trans F _ (rs n (mpow n L k) i)); [now apply entry_le_rs|now apply rs_mpow]. Qed.

(* geometric tail: if x/(k+1) <= r for all k >= K and G = 1 + r G, G >= 0, then sum_{j<p} t_{k+j} <= t_k G for k >= K *)
Lemma geom_tail K r G : 0 <= r -> 0 <= G -> G = 1 + r * G ->
  (forall k, (K <= k)%nat -> x / ofnat (S k) <= r) ->
  forall p k, (K <= k)%nat -> sumn p (fun j => tk x (k + j)) <= tk x k * G.
Proof. intros Hr HG HGeq Hk. induction p as [|p IH]; intros k Hkk.
  - cbn [sumn]. apply mul_nonneg; [now apply tk_nonneg|exact HG].
  - rewrite sumn_S_first. rewrite Nat.add_0_r.
    rewrite (sumn_ext p _ (fun j => tk x (S k + j))) by (intros j _; f_equal; lia).
    apply (k_trans F _ (tk x k + tk x (S k) * G)).
    { apply le_add_compat; [apply le_refl|apply IH; lia]. }
    rewrite tk_S.
    apply (k_trans F _ (tk x k + tk x k * r * G)).
    { apply le_add_compat; [apply le_refl|]. apply mul_le_r; [exact HG|]. apply mul_le_compat_nonneg; [now apply tk_nonneg|now apply Hk]. }
    rewrite HGeq at 2. replace (tk x k * (1 + r * G)) with (tk x k + tk x k * r * G) by ring. apply le_refl. Qed.

(* THE ENCLOSURE: every later Taylor partial sum stays, entrywise, within the explicit remainder bound of T_N *)
Theorem taylor_tail N : let c := @ofnat F (S (S N)) in x <= c -> x <> c ->
  forall p i j, (i < n)%nat -> (j < n)%nat ->
  fabs (texp frz n L (N + p) i j - texp frz n L N i j) <= tk x (S N) * (c / (c - x)).
Proof. intros c Hxc Hne p i j Hi Hj.
  assert (Hc0 : c <> 0) by apply ofnat_S_neq0.
  assert (Hcx : 0 <= c - x) by now apply (proj1 (le_sub F x c)).
  assert (Hcxne : c - x <> 0). { intros E. apply Hne. replace x with (c - (c - x)) by ring. rewrite E. ring. }
  assert (Hcn : 0 <= c) by apply ofnat_nn.
  set (r := x / c). set (G := c / (c - x)).
  assert (Hr : 0 <= r). { unfold r. replace (x / c) with (x * (1 / c)) by (field; exact Hc0). apply mul_nonneg; [exact Hx|now apply inv_nonneg]. }
  assert (HG : 0 <= G). { unfold G. replace (c / (c - x)) with (c * (1 / (c - x))) by (field; exact Hcxne). apply mul_nonneg; [exact Hcn|now apply inv_nonneg]. }
  assert (HGeq : G = 1 + r * G). { unfold G, r. field. split; assumption. }
  assert (Hk : forall k, (S N <= k)%nat -> x / ofnat (S k) <= r).
  { intros k Hk. unfold r, c. apply div_antimono; [exact Hx|apply ofnat_nn|apply ofnat_S_neq0|apply ofnat_mono; lia]. }
  unfold texp. replace (S (N + p)) with (S N + p)%nat by lia. rewrite sumn_app.
  replace (sumn (S N) (fun k => tterm frz n L k i j) + sumn p (fun q => tterm frz n L (S N + q) i j) - sumn (S N) (fun k => tterm frz n L k i j))
    with (sumn p (fun q => tterm frz n L (S N + q) i j)) by ring.
  apply (k_trans F _ (sumn p (fun q => fabs (tterm frz n L (S N + q) i j)))); [apply fabs_sumn|].
  apply (k_trans F _ (sumn p (fun q => tk x (S N + q)))); [apply sumn_le; intros q _; now apply tterm_bound|].
  exact (geom_tail (S N) r G Hr HG HGeq Hk p (S N) (le_n _)). Qed.
End Frz.
End Tail.
