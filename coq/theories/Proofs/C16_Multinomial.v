(* Properties of the MultinomialDistribution model: constructor output is non-negative and normalised,
   marginalisation does not depend on the order in which retained axes are listed. Any OF. *)
From Coq Require Import List Arith Bool ZArith Lia Permutation Field.
From QV.Core Require Import OF.
From QV.Model Require Import Multinomial.
Import ListNotations.

Section MultinomialProofs.
Context (F : OF).
Add Field Ffm : (k_field F).
Notation "0" := (c0 F). Notation "1" := (c1 F).
Infix "+" := (cadd F). Infix "*" := (cmul F). Infix "-" := (csub F). Infix "/" := (kdiv F).
Infix "<=" := (kle F).

Lemma lsum_acc (l : list F) : forall a, fold_left (cadd F) l a = a + lsum F l.
Proof. unfold lsum. induction l as [|x l IH]; intros a; cbn. { ring. }
  rewrite IH, (IH (0 + x)). ring. Qed.
Lemma lsum_cons x (l : list F) : lsum F (x :: l) = x + lsum F l.
Proof. unfold lsum. cbn. rewrite lsum_acc. unfold lsum. ring. Qed.
Lemma lsum_nil : lsum F [] = 0. Proof. reflexivity. Qed.

Lemma lsum_map_div (l : list F) s : s <> 0 -> lsum F (map (fun p => p / s) l) = lsum F l / s.
Proof. intros Hs. induction l as [|x l IH]; cbn [map].
  - rewrite lsum_nil. field. exact Hs.
  - rewrite !lsum_cons, IH. field. exact Hs. Qed.

Lemma lsum_nonneg (l : list F) : Forall (fun p => 0 <= p) l -> 0 <= lsum F l.
Proof. induction 1 as [|x l Hx _ IH]. { rewrite lsum_nil. apply k_refl. }
  rewrite lsum_cons. now apply add_nonneg. Qed.

Lemma ltb_false_le x y : ltb F x y = false -> y <= x.
Proof. unfold ltb. intros H. apply negb_false_iff in H. now apply k_leb. Qed.
Lemma ltb_true_lt x y : ltb F x y = true -> x <= y /\ x <> y.
Proof. unfold ltb. intros H. apply negb_true_iff in H. apply leb_false_lt in H. destruct H as [A B]. split; [exact A|congruence]. Qed.

Definition zeroed (eps : F) (ps : list F) : list F := map (fun p => if ltb F p eps then 0 else p) ps.

Lemma zeroed_nonneg eps ps : 0 <= eps -> Forall (fun p => 0 <= p) (zeroed eps ps).
Proof. intros He. unfold zeroed. apply Forall_forall. intros x Hx. apply in_map_iff in Hx.
  destruct Hx as [p [<- _]]. destruct (ltb F p eps) eqn:E; [apply k_refl|].
  apply (k_trans F _ eps); [exact He|now apply ltb_false_le]. Qed.

(* some entry survives (>= eps > 0) => the zeroed sum is positive, in particular non-zero *)
Lemma zeroed_sum_pos eps ps : 0 <= eps -> eps <> 0 -> forallb (fun p => ltb F p eps) ps = false ->
  lsum F (zeroed eps ps) <> 0.
Proof. intros He Hne. induction ps as [|p ps IH]; cbn [forallb]; [discriminate|].
  unfold zeroed in *. cbn [map]. rewrite lsum_cons.
  pose proof (lsum_nonneg _ (zeroed_nonneg eps ps He)) as Hs. unfold zeroed in Hs.
  destruct (ltb F p eps) eqn:E; cbn [andb].
  - intros Hf H. apply (IH Hf). etransitivity; [|exact H]. ring.
  - intros _ H. apply ltb_false_le in E.
    assert (Hp : 0 <= p) by (apply (k_trans F _ eps); assumption).
    (* p + s = 0 with p, s >= 0 forces p = 0, hence eps <= 0 *)
    assert (Hp0 : p <= 0).
    { apply le_sub. replace (0 - p) with (lsum F (map (fun p0 => if ltb F p0 eps then 0 else p0) ps)).
      exact Hs. apply (f_equal (fun z => z - p)) in H. etransitivity; [|exact H]. ring. }
    apply Hne. apply (k_antisym F); [|exact He]. apply (k_trans F _ p); assumption. Qed.

(* Constructor: accepted non-zero distributions are entrywise non-negative and sum to 1 within tol;
   exactly 1 when something was zeroed (renormalisation). *)
Theorem construct_normalised tol eps ps shape d :
  0 <= eps -> eps <> 0 ->
  construct F tol eps ps shape = MOk d -> d_zero F d = false ->
  Forall (fun p => 0 <= p) (d_ps F d) /\ absF F (lsum F (d_ps F d) - 1) <= tol /\
  (existsb (fun p => ltb F p eps) ps = true -> lsum F (d_ps F d) = 1).
Proof. intros He Hne. unfold construct.
  destruct (validate F tol false ps) as [[]|c]; [|discriminate].
  destruct (match shape with Some [] => true | _ => false end); [discriminate|].
  destruct (negb _); [discriminate|].
  destruct (forallb (fun p => ltb F p eps) ps) eqn:Ez; cbn [negb andb].
  { intros H. inversion H; subst. cbn. discriminate. }
  fold (zeroed eps ps).
  pose proof (zeroed_sum_pos eps ps He Hne Ez) as Hs.
  pose proof (zeroed_nonneg eps ps He) as Hnn.
  pose proof (lsum_nonneg _ Hnn) as Hsn.
  destruct (existsb (fun p => ltb F p eps) ps) eqn:Eh.
  - destruct (validate F tol true _) as [[]|c] eqn:Ev; [|discriminate].
    intros H _. inversion H; subst. cbn [d_ps]. split; [|split].
    + apply Forall_forall. intros x Hx. apply in_map_iff in Hx. destruct Hx as [p [<- Hp]].
      rewrite Forall_forall in Hnn. specialize (Hnn p Hp).
      replace (p / lsum F (zeroed eps ps)) with (p * (1 / lsum F (zeroed eps ps))) by (field; exact Hs).
      apply k_mul; [exact Hnn|]. now apply inv_nonneg.
    + rewrite lsum_map_div by exact Hs.
      replace (lsum F (zeroed eps ps) / lsum F (zeroed eps ps) - 1) with 0 by (field; exact Hs).
      unfold absF. rewrite (proj2 (k_leb F 0 0) (k_refl F 0)).
      unfold validate in Ev. destruct (existsb _ _) in Ev; [discriminate|]. cbn [andb] in Ev.
      destruct (kleb F (absF F (lsum F (map (fun p => p / lsum F (zeroed eps ps)) (zeroed eps ps)) - 1)) tol) eqn:Et; [|discriminate].
      apply k_leb in Et. rewrite lsum_map_div in Et by exact Hs.
      replace (lsum F (zeroed eps ps) / lsum F (zeroed eps ps) - 1) with 0 in Et by (field; exact Hs).
      unfold absF in Et. now rewrite (proj2 (k_leb F 0 0) (k_refl F 0)) in Et.
    + intros _. rewrite lsum_map_div by exact Hs. field. exact Hs.
  - destruct (validate F tol true _) as [[]|c] eqn:Ev; [|discriminate].
    intros H _. inversion H; subst. cbn [d_ps]. split; [exact Hnn|split; [|discriminate]].
    unfold validate in Ev. destruct (existsb _ _) in Ev; [discriminate|]. cbn [andb] in Ev.
    destruct (kleb F _ tol) eqn:Et in Ev; [|discriminate]. now apply k_leb in Et. Qed.

(* Marginalisation depends only on the SET of retained axes, not on the order they are listed in *)
Lemma existsb_perm {A} (f : A -> bool) l l' : Permutation l l' -> existsb f l = existsb f l'.
Proof. induction 1 as [|x l l' P IH|x y l|l l' l'' P1 IH1 P2 IH2]; cbn; try congruence.
  destruct (f x), (f y); reflexivity. Qed.
Lemma has_dup_perm l l' : Permutation l l' -> has_dup l = has_dup l'.
Proof. induction 1 as [|x l l' P IH|x y l|l l' l'' P1 IH1 P2 IH2]; cbn; try congruence.
  - rewrite IH. f_equal. now apply existsb_perm.
  - rewrite (Nat.eqb_sym x y). destruct (Nat.eqb y x), (existsb (Nat.eqb x) l), (existsb (Nat.eqb y) l), (has_dup l); reflexivity. Qed.

(* the sequential check accepts exactly the listings that are in range and duplicate-free *)
Lemma remain_check_none_iff nax : forall rem seen,
  remain_check nax seen rem = None <->
  (existsb (fun i => (i <? 0)%Z || (Z.of_nat nax <=? i)%Z) rem = false /\ has_dup (map Z.to_nat rem) = false /\
   forall i, In i rem -> existsb (Nat.eqb (Z.to_nat i)) seen = false).
Proof. induction rem as [|i t IH]; intros seen; cbn [remain_check existsb map has_dup].
  - split; [intros _; repeat split; intros i []|reflexivity].
  - destruct ((i <? 0)%Z || (Z.of_nat nax <=? i)%Z) eqn:Er; cbn [orb].
    { split; [discriminate|intros [H _]; discriminate]. }
    destruct (existsb (Nat.eqb (Z.to_nat i)) seen) eqn:Es.
    { split; [discriminate|]. intros [_ [_ H]]. rewrite (H i (or_introl eq_refl)) in Es. discriminate. }
    rewrite IH. split.
    + intros [H1 [H2 H3]]. split; [exact H1|]. split.
      * apply orb_false_iff. split; [|exact H2].
        apply not_true_is_false. intros Hx. apply existsb_exists in Hx. destruct Hx as [y [Hy Ey]].
        apply in_map_iff in Hy. destruct Hy as [j [<- Hj]]. specialize (H3 j Hj). cbn [existsb] in H3.
        apply orb_false_iff in H3. destruct H3 as [H3 _]. rewrite Nat.eqb_sym in H3. congruence.
      * intros j [<-|Hj]; [exact Es|]. specialize (H3 j Hj). cbn [existsb] in H3. now apply orb_false_iff in H3.
    + intros [H1 [H2 H3]]. apply orb_false_iff in H2. destruct H2 as [H2 H2']. split; [exact H1|]. split; [exact H2'|].
      intros j Hj. cbn [existsb]. apply orb_false_iff. split; [|apply H3; now right].
      apply not_true_is_false. intros Hx. rewrite Nat.eqb_sym in Hx.
      assert (existsb (Nat.eqb (Z.to_nat i)) (map Z.to_nat t) = true); [|congruence].
      apply existsb_exists. exists (Z.to_nat j). split; [apply in_map; exact Hj|exact Hx]. Qed.

Lemma remain_check_perm nax rem rem' : Permutation rem rem' ->
  (remain_check nax [] rem = None <-> remain_check nax [] rem' = None).
Proof. intros P. rewrite !remain_check_none_iff.
  rewrite (existsb_perm _ rem rem' P), (has_dup_perm _ _ (Permutation_map Z.to_nat P)).
  split; intros [A [B _]]; (split; [exact A|split; [exact B|intros i _; reflexivity]]). Qed.

(* a valid listing (in range, no index twice) and any permutation of it give the IDENTICAL marginal; an invalid listing
   stays invalid under permutation (which of the two errors is reported depends on what is listed first) *)
Definition same_outcome (a b : mres (dist F)) : Prop :=
  match a, b with MOk x, MOk y => x = y | MErr _, MErr _ => True | _, _ => False end.

Theorem marginalize_order_irrelevant tol d rem rem' :
  Permutation rem rem' -> same_outcome (marginalize F tol d rem) (marginalize F tol d rem').
Proof. intros P. unfold marginalize.
  pose proof (remain_check_perm (length (d_shape F d)) rem rem' P) as Hc.
  destruct (remain_check (length (d_shape F d)) [] rem) as [c|] eqn:E1;
  destruct (remain_check (length (d_shape F d)) [] rem') as [c'|] eqn:E2; cbn.
  - exact I.
  - destruct Hc as [_ Hc]. specialize (Hc eq_refl). discriminate.
  - destruct Hc as [Hc _]. specialize (Hc eq_refl). discriminate.
  - assert (E : map (fun a => existsb (Nat.eqb a) (map Z.to_nat rem)) (seq 0 (length (d_shape F d))) =
                map (fun a => existsb (Nat.eqb a) (map Z.to_nat rem')) (seq 0 (length (d_shape F d)))).
    { apply map_ext. intros a. apply existsb_perm. now apply Permutation_map. }
    rewrite E. destruct (construct F tol tol _ _); [reflexivity|exact I]. Qed.

(* the error branch of marginalize, exactly: ValueError for the first out-of-range index, KeyError for the first repeated one *)
Theorem marginalize_valid_iff (d : dist F) rem :
  (exists c, (c = 4 \/ c = 5)%nat /\ remain_check (length (d_shape F d)) [] rem = Some c) \/
  (remain_check (length (d_shape F d)) [] rem = None /\
   Forall (fun i => (0 <= i < Z.of_nat (length (d_shape F d)))%Z) rem /\ has_dup (map Z.to_nat rem) = false).
Proof. destruct (remain_check _ [] rem) as [c|] eqn:E.
  - left. exists c. split; [|reflexivity]. clear -E. revert E. generalize (@nil nat).
    induction rem as [|i t IH]; intros seen; cbn [remain_check]; [discriminate|].
    destruct (_ || _); [intros H; inversion H; now left|].
    destruct (existsb _ seen); [intros H; inversion H; now right|apply IH].
  - right. split; [reflexivity|]. apply remain_check_none_iff in E. destruct E as [A [B _]]. split; [|exact B].
    apply Forall_forall. intros i Hi.
    assert (Hx : ((i <? 0)%Z || (Z.of_nat (length (d_shape F d)) <=? i)%Z) = false).
    { apply not_true_is_false. intros Hx. assert (existsb (fun i => (i <? 0)%Z || (Z.of_nat (length (d_shape F d)) <=? i)%Z) rem = true); [|congruence].
      apply existsb_exists. exists i. split; assumption. }
    apply orb_false_iff in Hx. destruct Hx as [H1 H2]. apply Z.ltb_ge in H1. apply Z.leb_gt in H2. lia. Qed.
End MultinomialProofs.
