(* C14 — proofs about Experiment objects used over a history (Model/C14_ExpHist.v): the value of a seeded generate_* call
   is a function of (the object's CURRENT lists and schedules, the arguments, the seed) — whatever was generated,
   replaced, assigned or copied before, on this or any other object. *)
From Coq Require Import List Arith Bool ZArith Lia.
From QV.Model Require Import C14_DataGen C14_Streams C14_ExpHist.
From QV.Proofs Require Import C14_Streams.
Import ListNotations.

Section P.
Context {G V : Type} (draw : G -> req -> V * G) (mkgen gseed : Z -> G).
Notation xworld := (@xworld G).
Notation xstep := (xstep draw mkgen gseed).
Notation xexec := (xexec draw mkgen gseed).

Lemma to_call_single c e s : single_stream (to_call c e) s.
Proof. destruct e; exact I. Qed.

(* the value of a seeded call, written out: contents, circuit table, and int_seed_output (arguments and seed only) *)
Theorem xcall_int_seed_value o e z (w : xworld) :
  fst (xstep (XCall o e (SInt z)) w) =
  if ecall_attr_error (conts w o) e then XErr 18
  else XOut (conts w o) (circuits (conts w o)) (int_seed_output draw mkgen (to_call (conts w o) e) z).
Proof. cbn [C14_ExpHist.xstep]. destruct (ecall_attr_error (conts w o) e); [reflexivity|].
  pose proof (int_seed_function_of_seed draw mkgen gseed (to_call (conts w o) e) z (base w) (to_call_single _ _ _)) as [H _].
  destruct (run_call draw mkgen gseed (to_call (conts w o) e) (SInt z) (base w)) as [r b']. cbn [fst] in *. now rewrite H. Qed.

(* ... hence equal for any two objects with equal CURRENT contents, in any two worlds *)
Theorem xcall_int_seed_function_of_contents o1 o2 e z (w1 w2 : xworld) : conts w1 o1 = conts w2 o2 ->
  fst (xstep (XCall o1 e (SInt z)) w1) = fst (xstep (XCall o2 e (SInt z)) w2).
Proof. intros H. rewrite !xcall_int_seed_value. now rewrite H. Qed.

(* ... after ANY two histories (generation calls, in-place replacements, list / schedule assignments, copies, unrelated
   draws, re-seeding) that leave the two objects with the same lists and schedules *)
Theorem xcall_int_seed_history_independent hs1 hs2 o1 o2 e z (w1 w2 : xworld) :
  conts (snd (xexec hs1 w1)) o1 = conts (snd (xexec hs2 w2)) o2 ->
  fst (xstep (XCall o1 e (SInt z)) (snd (xexec hs1 w1))) = fst (xstep (XCall o2 e (SInt z)) (snd (xexec hs2 w2))).
Proof. apply xcall_int_seed_function_of_contents. Qed.

(* a numpy-integer seed behaves like the int seed here too *)
Theorem xcall_npint_is_int o e z (w : xworld) : xstep (XCall o e (SNpInt z)) w = xstep (XCall o e (SInt z)) w.
Proof. cbn [C14_ExpHist.xstep]. destruct (ecall_attr_error (conts w o) e); [reflexivity|]. now rewrite npint_seed_is_int_seed. Qed.

(* a FRESH Experiment built from given lists and schedules has exactly those contents (whatever seed_data) ... *)
Theorem construct_contents c sd (w : xworld) : scheds_err c (e_sched c) = None ->
  exists o', fst (xstep (XConstruct c sd) w) = XObj o' /\ conts (snd (xstep (XConstruct c sd) w)) o' = c /\
             (forall o, o <> o' -> conts (snd (xstep (XConstruct c sd) w)) o = conts w o).
Proof. intros H. cbn [C14_ExpHist.xstep]. rewrite H.
  destruct (construct_experiment gseed sd (base w)) as [o' b'] eqn:E. exists o'. cbn [fst snd conts new_obj].
  split; [reflexivity|]. unfold upd. split; [now rewrite Nat.eqb_refl|]. intros o Ho. destruct (Nat.eqb_spec o o'); [contradiction|reflexivity]. Qed.
(* ... so the seeded output of an object after any history equals that of a fresh Experiment built from its current lists *)
Theorem xcall_equals_fresh_experiment o e z sd (w w' : xworld) :
  scheds_err (conts w o) (e_sched (conts w o)) = None ->
  exists o', fst (xstep (XConstruct (conts w o) sd) w') = XObj o' /\
             fst (xstep (XCall o' e (SInt z)) (snd (xstep (XConstruct (conts w o) sd) w'))) = fst (xstep (XCall o e (SInt z)) w).
Proof. intros H. destruct (construct_contents (conts w o) sd w' H) as (o' & E1 & E2 & _). exists o'. split; [exact E1|].
  now apply xcall_int_seed_function_of_contents. Qed.

(* copy(): the new object has the same contents, and the original keeps its own *)
Theorem copy_contents o (w : xworld) : scheds_err (conts w o) (e_sched (conts w o)) = None ->
  exists o', fst (xstep (XCopy o) w) = XObj o' /\ o' = nobj (base w) /\ conts (snd (xstep (XCopy o) w)) o' = conts w o /\
             (forall o'', o'' <> o' -> conts (snd (xstep (XCopy o) w)) o'' = conts w o'').
Proof. intros H. cbn [C14_ExpHist.xstep]. rewrite H. exists (nobj (base w)). cbn. unfold upd.
  split; [reflexivity|]. split; [reflexivity|]. split; [now rewrite Nat.eqb_refl|]. intros o'' Ho. destruct (Nat.eqb_spec o'' (nobj (base w))); [contradiction|reflexivity]. Qed.

(* in-place replacement takes effect on THAT object only, and touches no random state *)
Lemma nth_error_set_nth {A} (e : A) : forall l i, (i < length l)%nat -> nth_error (set_nth i e l) i = Some e.
Proof. induction l as [|x l IH]; intros i H; [cbn in H; lia|]. destruct i; cbn; [reflexivity|]. apply IH. cbn in H. lia. Qed.
Lemma nth_error_set_nth_other {A} (e : A) : forall l i j, i <> j -> nth_error (set_nth i e l) j = nth_error l j.
Proof. induction l as [|x l IH]; intros i j H; [destruct i; reflexivity|]. destruct i, j; cbn; try reflexivity; [contradiction|]. apply IH. lia. Qed.
Lemma elist_with_elist k l c : (k < 4)%nat -> elist k (with_elist k l c) = l.
Proof. intros H. destruct k as [|[|[|[|k]]]]; try reflexivity; lia. Qed.
Theorem set_item_contents o k i e (w : xworld) : (k < 4)%nat -> (i < length (elist k (conts w o)))%nat ->
  let w' := snd (xstep (XSetItem o k i e) w) in
  fst (xstep (XSetItem o k i e) w) = XUnit /\ base w' = base w /\
  nth_error (elist k (conts w' o)) i = Some e /\
  (forall j, j <> i -> nth_error (elist k (conts w' o)) j = nth_error (elist k (conts w o)) j) /\
  e_sched (conts w' o) = e_sched (conts w o) /\
  (forall o', o' <> o -> conts w' o' = conts w o').
Proof. intros Hk Hi. cbn [C14_ExpHist.xstep]. destruct (Nat.ltb_spec i (length (elist k (conts w o)))) as [_|B]; [|lia].
  cbn [fst snd set_cont base conts]. unfold upd. rewrite Nat.eqb_refl. split; [reflexivity|]. split; [reflexivity|].
  rewrite elist_with_elist by exact Hk. split; [now apply nth_error_set_nth|]. split; [intros j Hj; apply nth_error_set_nth_other; lia|].
  split; [destruct k as [|[|[|k]]]; reflexivity|]. intros o' Ho. destruct (Nat.eqb_spec o' o); [contradiction|reflexivity]. Qed.

(* ---- inner schedule lists are SHARED between an Experiment and its copy() ---- *)
(* experiment.schedules[s][j] = it, on an object whose schedule s exists and has an entry j: every object that shares that inner
   list (same tag) sees the new item, every other inner list of every object is unchanged, no list of elements and no random
   state is touched *)
Lemma retag_sched_nth t j it : forall tg sch s, length tg = length sch ->
  nth_error (retag_sched t j it tg sch) s =
  match nth_error tg s, nth_error sch s with
  | Some t', Some items => Some (if Nat.eqb t' t then set_nth j it items else items)
  | _, _ => None
  end.
Proof. unfold retag_sched. induction tg as [|a tg IH]; intros sch s H; destruct sch as [|x sch]; try discriminate.
  - destruct s; reflexivity.
  - destruct s as [|s]; cbn [combine map nth_error fst snd]; [reflexivity|]. apply IH. cbn in H. lia. Qed.

Theorem set_sched_item_shared o s j it t items (w : xworld) :
  nth_error (stags w o) s = Some t -> nth_error (e_sched (conts w o)) s = Some items -> (j < length items)%nat ->
  let w' := snd (xstep (XSetSchedItem o s j it) w) in
  fst (xstep (XSetSchedItem o s j it) w) = XUnit /\ base w' = base w /\
  (forall o' s', length (stags w o') = length (e_sched (conts w o')) ->
     nth_error (e_sched (conts w' o')) s' =
     match nth_error (stags w o') s', nth_error (e_sched (conts w o')) s' with
     | Some t', Some items' => Some (if Nat.eqb t' t then set_nth j it items' else items')
     | _, _ => None
     end) /\
  (forall o' k, elist k (conts w' o') = elist k (conts w o')).
Proof. intros Ht Hi Hj. cbn [C14_ExpHist.xstep]. rewrite Ht, Hi. destruct (Nat.ltb_spec j (length items)) as [_|B]; [|lia].
  cbn [fst snd base conts]. split; [reflexivity|]. split; [reflexivity|]. split.
  - intros o' s' Hl. cbn [e_sched with_sched]. now apply retag_sched_nth.
  - intros o' k. destruct k as [|[|[|k]]]; reflexivity. Qed.

(* copy() gives the copy the SAME inner-list identities; assigning `schedules` gives fresh ones *)
Theorem copy_shares_inner_schedule_lists o (w : xworld) : scheds_err (conts w o) (e_sched (conts w o)) = None ->
  stags (snd (xstep (XCopy o) w)) (nobj (base w)) = stags w o /\
  (forall o', o' <> nobj (base w) -> stags (snd (xstep (XCopy o) w)) o' = stags w o').
Proof. intros H. cbn [C14_ExpHist.xstep]. rewrite H. cbn. unfold upd. rewrite Nat.eqb_refl. split; [reflexivity|].
  intros o' Ho. destruct (Nat.eqb_spec o' (nobj (base w))); [contradiction|reflexivity]. Qed.
Theorem set_sched_fresh_tags o sch (w : xworld) : scheds_err (conts w o) sch = None ->
  stags (snd (xstep (XSetSched o sch) w)) o = seq (ntag w) (length sch) /\ ntag (snd (xstep (XSetSched o sch) w)) = (ntag w + length sch)%nat.
Proof. intros H. cbn [C14_ExpHist.xstep]. rewrite H. cbn. unfold upd, fresh_tags. now rewrite Nat.eqb_refl. Qed.

(* the circuit of a schedule is read from the CURRENT lists: position j of the circuit of schedule s is the element the
   j-th item (k, i) refers to now *)
Lemma resolve_nth c : forall items r j k i, resolve c items = Some r -> nth_error items j = Some (k, i) ->
  exists e, nth_error (elist k c) i = Some e /\ nth_error r j = Some (k, e).
Proof. induction items as [|it t IH]; intros r j k i H Hj; [destruct j; discriminate|]. cbn [resolve] in H.
  destruct (nth_error (elist (fst it) c) (snd it)) as [e0|] eqn:E0; [|discriminate].
  destruct (resolve c t) as [r0|] eqn:E1; [|discriminate]. injection H as <-. destruct j as [|j].
  - cbn in Hj. injection Hj as ->. exists e0. split; [exact E0|reflexivity].
  - cbn in Hj. destruct (IH r0 j k i eq_refl Hj) as (e & A & B). exists e. split; [exact A|exact B]. Qed.
Theorem circuit_reads_current_lists c s items r j k i :
  nth_error (e_sched c) s = Some items -> circuit c s = Some r -> nth_error items j = Some (k, i) ->
  exists e, nth_error (elist k c) i = Some e /\ nth_error r j = Some (k, e).
Proof. intros Hs Hc Hj. unfold circuit in Hc. rewrite Hs in Hc. exact (resolve_nth c items r j k i Hc Hj). Qed.
End P.
