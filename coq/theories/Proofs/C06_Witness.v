(* C06 — computed witnesses on the faithful model (Qc, 2 qubits, normalised Pauli basis, sd = 2):
   the basis satisfies every basis hypothesis exactly; MProcess o MProcess as coded disagrees with the sequential
   application (values AND labelling), the repaired formula agrees; the post state after a cut is not normalised as coded;
   generate_mprocess(mode 1) as coded does not induce the POVM.  All by evaluation (vm_compute) of the model. *)
From Coq Require Import List Arith Bool Lia ZArith QArith Qcanon.
From QV.Core Require Import OF QcOF Sums Mat Cplx.
From QV.Model Require Import QObj Multinomial C06_Compose C06_Witness.
From QV.Exec Require Base.
Import ListNotations.

Lemma alln_spec k p : alln k p = true -> forall i, (i < k)%nat -> p i = true.
Proof. induction k as [|k IH]; intros H i Hi; [lia|]. cbn in H. apply andb_true_iff in H as [A B].
  destruct (Nat.eq_dec i k) as [->|]; [exact B|apply IH; [exact A|lia]]. Qed.
Lemma ceqb_spec x y : ceqb x y = true -> x = y.
Proof. unfold ceqb. rewrite andb_true_iff. intros [A B]. apply Qc_eq_bool_correct in A, B. destruct x, y; cbn in *; congruence. Qed.

Lemma pauli2_orthonormal : basis_orthonormal 4 pauli2.
Proof. assert (H : chk_orthonormal 4 pauli2 = true) by (vm_compute; reflexivity).
  intros a b Ha Hb. pose proof (alln_spec _ _ (alln_spec _ _ H a Ha) b Hb) as E. apply ceqb_spec in E. rewrite E.
  destruct (Nat.eqb a b); reflexivity. Qed.
Lemma pauli2_hermitian : basis_hermitian 4 pauli2.
Proof. assert (H : chk_hermitian 4 pauli2 = true) by (vm_compute; reflexivity).
  intros a Ha i j Hi Hj. exact (ceqb_spec _ _ (alln_spec _ _ (alln_spec _ _ (alln_spec _ _ H a Ha) i Hi) j Hj)). Qed.
Lemma pauli2_0th : @basis_0th_identity Qc_OF 4 w_sd pauli2.
Proof. assert (H : chk_0th 4 w_sd pauli2 = true) by (vm_compute; reflexivity).
  intros i j Hi Hj. pose proof (ceqb_spec _ _ (alln_spec _ _ (alln_spec _ _ H i Hi) j Hj)) as E.
  change (cmul (CF Qc_OF) (@zof Qc_OF w_sd) (pauli2 0%nat i j)) with (zmul (cq w_sd (q 0 1)) (pauli2 0%nat i j)).
  rewrite E. destruct (Nat.eqb i j); reflexivity. Qed.
Lemma w_sd_sq : (w_sd * w_sd = q 4 1)%Qc. Proof. apply Qc_is_canon. vm_compute. reflexivity. Qed.

(* the frozen matrices ARE the HS matrices of the Kraus instruments *)
Lemma frz16_spec M i j : (i < 16)%nat -> (j < 16)%nat -> frz16 M i j = M i j.
Proof. intros Hi Hj. unfold frz16.
  rewrite (Base.nth_map_seq (fun i => map (fun j => M i j) (seq 0 16)) [] 16 0 i Hi). cbn [Nat.add].
  now rewrite (Base.nth_map_seq (fun j => M i j) 0%Qc 16 0 j Hj). Qed.

Lemma qcl_eqb_spec a : forall b, qcl_eqb a b = true -> a = b.
Proof. induction a as [|x s IH]; intros [|y t]; cbn; try discriminate; [reflexivity|].
  rewrite andb_true_iff. intros [A B]. apply Qc_eq_bool_correct in A. now rewrite A, (IH t B). Qed.
Lemma list_eqb_spec a : forall b, list_eqb a b = true -> a = b.
Proof. induction a as [|x s IH]; intros [|y t]; cbn; try discriminate; [reflexivity|].
  rewrite andb_true_iff. intros [A B]. apply Nat.eqb_eq in A. now rewrite A, (IH t B). Qed.
Lemma dist_eqb_spec a b : dist_eqb a b = true -> a = b.
Proof. destruct a as [[s l]|], b as [[s' l']|]; cbn; try discriminate; [|reflexivity].
  rewrite andb_true_iff. intros [A B]. now rewrite (list_eqb_spec _ _ A), (qcl_eqb_spec _ _ B). Qed.

(* ---- the numbers *)
Definition seq_expected : option (list nat * list Qc) := Some ([2; 3]%nat, [q 3 10; q 3 20; q 9 20; q 1 30; q 1 60; q 1 20]).
Definition coded_left : option (list nat * list Qc) := Some ([3; 2]%nat, [q 4 15; q 2 15; q 1 10; q 4 15; q 2 15; q 1 10]).
(* A o (B o rho): x-type measurement first, then the 3-outcome z-type one: the quantum-mechanical joint distribution, earlier outcome major *)
Lemma w_seq_value : dist_of (w_seq false) = seq_expected.
Proof. apply dist_eqb_spec. vm_compute. reflexivity. Qed.
(* (A o B) o rho AS CODED: shape transposed and the values of the opposite time order *)
Lemma w_left_coded_value : dist_of (w_left false) = coded_left.
Proof. apply dist_eqb_spec. vm_compute. reflexivity. Qed.
(* with the repaired formula both bracketings agree *)
Lemma w_left_fixed_value : dist_of (w_left true) = seq_expected.
Proof. apply dist_eqb_spec. vm_compute. reflexivity. Qed.
Lemma w_seq_fixed_value : dist_of (w_seq true) = seq_expected.
Proof. apply dist_eqb_spec. vm_compute. reflexivity. Qed.

Lemma dist_of_some r sh ps : dist_of r = Some (sh, ps) ->
  exists E, r = MOk (QEns _ E) /\ d_shape _ (en_dist _ E) = sh /\ d_ps _ (en_dist _ E) = ps.
Proof. destruct r as [[| | | |E|]|]; cbn; try discriminate. intros H. injection H as <- <-. now exists E. Qed.

(* conversion must unfold the named witnesses first, never evaluate the model lazily *)
Strategy expand [w_seq w_left w_cut].

(* REFUTATION of associativity on the faithful model: both bracketings of (MProcess, MProcess, State) are defined and give
   different shapes and different probabilities *)
Theorem compose_mprocess_mprocess_refuted :
  exists (A B : mproc QF) (s : Z) (v : rvec QF) (AB : qobj QF) (E1 E2 : ensemble QF),
    w_fold false false [QMProc _ A; QMProc _ B; QState _ s v] = MOk (QEns _ E1) /\
    w_compose2 false false (QMProc _ A) (QMProc _ B) = MOk AB /\
    w_compose2 false false AB (QState _ s v) = MOk (QEns _ E2) /\
    d_shape _ (en_dist _ E1) <> d_shape _ (en_dist _ E2) /\
    d_ps _ (en_dist _ E1) <> d_ps _ (en_dist _ E2).
Proof. destruct (dist_of_some _ _ _ w_seq_value) as (E1 & H1 & S1 & P1).
  pose proof w_left_coded_value as HL. unfold w_left in HL.
  destruct (w_compose2 false false (QMProc QF mpA) (QMProc QF mpB)) as [AB|c] eqn:EAB; [|discriminate].
  cbn [w_bind] in HL. destruct (dist_of_some _ _ _ HL) as (E2 & H2 & S2 & P2).
  exists mpA, mpB, 1%Z, w_vec, AB, E1, E2.
  unfold w_seq in H1. split; [exact H1|]. split; [exact EAB|]. split; [exact H2|]. split.
  - rewrite S1, S2. discriminate.
  - rewrite P1, P2. intros E. apply (f_equal (fun l => match l with x :: _ => Qnum (this x) | nil => 0%Z end)) in E. vm_compute in E. discriminate. Qed.

(* the same chain with the repaired formula: the two bracketings coincide *)
Theorem compose_mprocess_mprocess_fixed_agrees : dist_of (w_left true) = dist_of (w_seq true).
Proof. now rewrite w_left_fixed_value, w_seq_fixed_value. Qed.

(* ---- post state after a cut *)
Lemma w_cut_coded : traces_of (w_cut false) = Some [q 199 200; q 0 1].
Proof. assert (H : match traces_of (w_cut false) with Some l => qcl_eqb l [q 199 200; q 0 1] | None => false end = true) by (vm_compute; reflexivity).
  destruct (traces_of (w_cut false)); [|discriminate]. now rewrite (qcl_eqb_spec _ _ H). Qed.
Lemma w_cut_fixed : traces_of (w_cut true) = Some [q 1 1; q 0 1].
Proof. assert (H : match traces_of (w_cut true) with Some l => qcl_eqb l [q 1 1; q 0 1] | None => false end = true) by (vm_compute; reflexivity).
  destruct (traces_of (w_cut true)); [|discriminate]. now rewrite (qcl_eqb_spec _ _ H). Qed.
Lemma w_cut_dist : dist_of (w_cut false) = Some ([2]%nat, [q 1 1; q 0 1]).
Proof. apply dist_eqb_spec. vm_compute. reflexivity. Qed.
(* REFUTATION of "normalised post-measurement state" on the faithful model: a retained outcome (probability 1 after the cut)
   whose post state has trace 199/200 *)
Theorem mprocess_poststate_refuted :
  exists (M : mproc QF) (s : Z) (v : rvec QF) (E : ensemble QF) (st : rvec QF),
    w_compose2 false false (QMProc _ M) (QState _ s v) = MOk (QEns _ E) /\
    nth 0 (d_ps _ (en_dist _ E)) 0%Qc <> 0%Qc /\ nth_error (en_states _ E) 0 = Some st /\ (w_sd * st 0%nat)%Qc <> 1%Qc.
Proof. destruct (dist_of_some _ _ _ w_cut_dist) as (E & H & S & P).
  pose proof w_cut_coded as T. unfold traces_of in T. unfold w_cut in H, T. rewrite H in T. injection T as T.
  destruct (en_states QF E) as [|st rest] eqn:Es; [discriminate|]. cbn [map] in T.
  apply (f_equal (fun l => hd 0%Qc l)) in T. cbn [hd] in T. rename T into T0.
  exists mpZ, 1%Z, w_vec2, E, st. split; [exact H|]. split; [|split; [now rewrite Es|]].
  - rewrite P. cbn [nth]. intros C. apply (f_equal (fun x => Qnum (this x))) in C. vm_compute in C. discriminate.
  - rewrite T0. intros C. apply (f_equal (fun x => Qnum (this x))) in C. vm_compute in C. discriminate. Qed.

(* ---- generate_mprocess(mode 1) *)
Lemma V_real_unitary : chk_unitary V_real = true. Proof. vm_compute. reflexivity. Qed.
Lemma V_cplx_unitary : chk_unitary V_cplx = true. Proof. vm_compute. reflexivity. Qed.
(* AS CODED (rows, no conjugate) the instrument does not induce Pi = V diag(w) V^dagger; the docstring formula does *)
Theorem generate_mprocess_mode1_refuted :
  chk_induces (gm_mode1_cb QF 2 w_eig V_real) (eig_matrix V_real) = false /\
  chk_induces (gm_mode1_cb QF 2 w_eig V_cplx) (eig_matrix V_cplx) = false /\
  chk_induces (gm_mode1_cb_fixed QF 2 w_eig V_real) (eig_matrix V_real) = true /\
  chk_induces (gm_mode1_cb_fixed QF 2 w_eig V_cplx) (eig_matrix V_cplx) = true.
Proof. vm_compute. repeat split; reflexivity. Qed.
