(* C06 — computed witnesses on the faithful model (Qc, 2 qubits, normalised Pauli basis, sd = 2):
   the basis satisfies every basis hypothesis exactly; MProcess o MProcess as coded disagrees with the sequential
   application (values AND labelling), the repaired formula agrees; the post state after a cut is not normalised as coded;
   generate_mprocess(mode 1) as coded does not induce the POVM.  All by evaluation (vm_compute) of the model. *)
From Coq Require Import List Arith Bool Lia ZArith QArith Qcanon.
From QV.Core Require Import OF QcOF Sums Mat Cplx.
From QV.Model Require Import QObj Multinomial C06_Compose C06_Witness.
From QV.Exec Require Base.
Import ListNotations.

Lemma alln_spec k p : alln k p = true -> forall i, (i < k)%nat -> p i = true.
Proof. induction k as [|k IH]; intros H i Hi; [lia|]. cbn in H. apply andb_true_iff in H as [A B].
  destruct (Nat.eq_dec i k) as [->|]; [exact B|apply IH; [exact A|lia]]. Qed.
Lemma ceqb_spec x y : ceqb x y = true -> x = y.
Proof. unfold ceqb. rewrite andb_true_iff. intros [A B]. apply Qc_eq_bool_correct in A, B. destruct x, y; cbn in *; congruence. Qed.

(* generic soundness of the boolean sweeps (d, B variables: nothing is evaluated when these are type-checked) *)
Lemma chk_orthonormal_spec d B : chk_orthonormal d B = true -> basis_orthonormal d B.
Proof. intros H a b Ha Hb. unfold chk_orthonormal in H.
  pose proof (alln_spec _ _ (alln_spec _ _ H a Ha) b Hb) as E. apply ceqb_spec in E. rewrite E.
  destruct (Nat.eqb a b); reflexivity. Qed.
Lemma chk_hermitian_spec d B : chk_hermitian d B = true -> basis_hermitian d B.
Proof. intros H a Ha i j Hi Hj. unfold chk_hermitian in H.
  exact (ceqb_spec _ _ (alln_spec _ _ (alln_spec _ _ (alln_spec _ _ H a Ha) i Hi) j Hj)). Qed.
Lemma chk_0th_spec d sd B : chk_0th d sd B = true -> @basis_0th_identity Qc_OF d sd B.
Proof. intros H i j Hi Hj. unfold chk_0th in H.
  pose proof (ceqb_spec _ _ (alln_spec _ _ (alln_spec _ _ H i Hi) j Hj)) as E.
  change (cmul (CF Qc_OF) (@zof Qc_OF sd) (B 0%nat i j)) with (zmul (cq sd (q 0 1)) (B 0%nat i j)).
  rewrite E. destruct (Nat.eqb i j); reflexivity. Qed.
Lemma pauli2_orthonormal_chk : chk_orthonormal 4 pauli2 = true. Proof. vm_compute. reflexivity. Qed.
Lemma pauli2_hermitian_chk : chk_hermitian 4 pauli2 = true. Proof. vm_compute. reflexivity. Qed.
Lemma pauli2_0th_chk : chk_0th 4 w_sd pauli2 = true. Proof. vm_compute. reflexivity. Qed.
Lemma pauli2_orthonormal : basis_orthonormal 4 pauli2. Proof. exact (chk_orthonormal_spec 4 pauli2 pauli2_orthonormal_chk). Qed.
Lemma pauli2_hermitian : basis_hermitian 4 pauli2. Proof. exact (chk_hermitian_spec 4 pauli2 pauli2_hermitian_chk). Qed.
Lemma pauli2_0th : @basis_0th_identity Qc_OF 4 w_sd pauli2. Proof. exact (chk_0th_spec 4 w_sd pauli2 pauli2_0th_chk). Qed.
Lemma w_sd_sq : (w_sd * w_sd = q 4 1)%Qc. Proof. apply Qc_is_canon. vm_compute. reflexivity. Qed.

(* the frozen matrices ARE the HS matrices of the Kraus instruments *)
Lemma frz16_spec M i j : (i < 16)%nat -> (j < 16)%nat -> frz16 M i j = M i j.
Proof. intros Hi Hj. unfold frz16.
  rewrite (Base.nth_map_seq (fun i => map (fun j => M i j) (seq 0 16)) [] 16 0 i Hi). cbn [Nat.add].
  now rewrite (Base.nth_map_seq (fun j => M i j) 0%Qc 16 0 j Hj). Qed.

Lemma qcl_eqb_spec a : forall b, qcl_eqb a b = true -> a = b.
Proof. induction a as [|x s IH]; intros [|y t]; cbn; try discriminate; [reflexivity|].
  rewrite andb_true_iff. intros [A B]. apply Qc_eq_bool_correct in A. now rewrite A, (IH t B). Qed.
Lemma list_eqb_spec a : forall b, list_eqb a b = true -> a = b.
Proof. induction a as [|x s IH]; intros [|y t]; cbn; try discriminate; [reflexivity|].
  rewrite andb_true_iff. intros [A B]. apply Nat.eqb_eq in A. now rewrite A, (IH t B). Qed.
Lemma dist_eqb_spec a b : dist_eqb a b = true -> a = b.
Proof. destruct a as [[s l]|], b as [[s' l']|]; cbn; try discriminate; [|reflexivity].
  rewrite andb_true_iff. intros [A B]. now rewrite (list_eqb_spec _ _ A), (qcl_eqb_spec _ _ B). Qed.

(* ---- the numbers *)
Definition seq_expected : option (list nat * list Qc) := Some ([2; 3]%nat, [q 3 10; q 3 20; q 9 20; q 1 30; q 1 60; q 1 20]).
Definition coded_left : option (list nat * list Qc) := Some ([3; 2]%nat, [q 4 15; q 2 15; q 1 10; q 4 15; q 2 15; q 1 10]).
(* A o (B o rho): x-type measurement first, then the 3-outcome z-type one: the quantum-mechanical joint distribution, earlier outcome major *)
Lemma w_seq_value : dist_of (w_seq false) = seq_expected.
Proof. apply dist_eqb_spec. vm_compute. reflexivity. Qed.
(* (A o B) o rho AS CODED: shape transposed and the values of the opposite time order *)
Lemma w_left_coded_value : dist_of (w_left false) = coded_left.
Proof. apply dist_eqb_spec. vm_compute. reflexivity. Qed.
(* with the repaired formula both bracketings agree *)
Lemma w_left_fixed_value : dist_of (w_left true) = seq_expected.
Proof. apply dist_eqb_spec. vm_compute. reflexivity. Qed.
Lemma w_seq_fixed_value : dist_of (w_seq true) = seq_expected.
Proof. apply dist_eqb_spec. vm_compute. reflexivity. Qed.

Lemma dist_of_some r sh ps : dist_of r = Some (sh, ps) ->
  exists E, r = MOk (QEns _ E) /\ d_shape _ (en_dist _ E) = sh /\ d_ps _ (en_dist _ E) = ps.
Proof. destruct r as [[| | | |E|]|]; cbn; try discriminate. intros H. injection H as <- <-. now exists E. Qed.

(* conversion must unfold the named witnesses first, never evaluate the model lazily *)
Strategy expand [w_seq w_left w_cut].

(* REFUTATION of associativity on the faithful model: both bracketings of (MProcess, MProcess, State) are defined and give
   different shapes and different probabilities *)
Theorem compose_mprocess_mprocess_refuted :
  exists (A B : mproc QF) (s : Z) (v : rvec QF) (AB : qobj QF) (E1 E2 : ensemble QF),
    w_fold false false [QMProc _ A; QMProc _ B; QState _ s v] = MOk (QEns _ E1) /\
    w_compose2 false false (QMProc _ A) (QMProc _ B) = MOk AB /\
    w_compose2 false false AB (QState _ s v) = MOk (QEns _ E2) /\
    d_shape _ (en_dist _ E1) <> d_shape _ (en_dist _ E2) /\
    d_ps _ (en_dist _ E1) <> d_ps _ (en_dist _ E2).
Proof. destruct (dist_of_some _ _ _ w_seq_value) as (E1 & H1 & S1 & P1).
  pose proof w_left_coded_value as HL. unfold w_left in HL.
  destruct (w_compose2 false false (QMProc QF mpA) (QMProc QF mpB)) as [AB|c] eqn:EAB; [|discriminate].
  cbn [w_bind] in HL. destruct (dist_of_some _ _ _ HL) as (E2 & H2 & S2 & P2).
  exists mpA, mpB, 1%Z, w_vec, AB, E1, E2.
  unfold w_seq in H1. split; [exact H1|]. split; [exact EAB|]. split; [exact H2|]. split.
  - rewrite S1, S2. discriminate.
  - rewrite P1, P2. intros E. apply (f_equal (fun l => match l with x :: _ => Qnum (this x) | nil => 0%Z end)) in E. vm_compute in E. discriminate. Qed.

(* the same chain with the repaired formula: the two bracketings coincide *)
Theorem compose_mprocess_mprocess_fixed_agrees : dist_of (w_left true) = dist_of (w_seq true).
Proof. now rewrite w_left_fixed_value, w_seq_fixed_value. Qed.

(* ---- post state after a cut.  [w_cut fix_ps] (Model/C06_Witness.v) IS the call
   compose2 ... fix_mm:=false fix_ps (QMProc mpZ) (QState 1 w_vec2); no outcome pair MProcess/MProcess occurs, so fix_mm is irrelevant *)
(* result is an ensemble whose outcome 0 is retained (probability <> 0) and whose post state 0 has trace t *)
Definition cut_test (t : Qc) (r : mres (qobj QF)) : bool :=
  match r with
  | MOk (QEns _ E) =>
      negb (Qc_eq_bool (nth 0 (d_ps _ (en_dist _ E)) 0%Qc) 0%Qc) &&
      match en_states _ E with st :: _ => Qc_eq_bool (w_sd * st 0%nat)%Qc t | [] => false end
  | _ => false
  end.
Lemma cut_test_spec t r : cut_test t r = true ->
  exists E st, r = MOk (QEns _ E) /\ nth 0 (d_ps _ (en_dist _ E)) 0%Qc <> 0%Qc /\ nth_error (en_states _ E) 0 = Some st /\ (w_sd * st 0%nat)%Qc = t.
Proof. destruct r as [[| | | |E|]|]; cbn [cut_test]; try discriminate. rewrite andb_true_iff. intros [A B].
  destruct (en_states QF E) as [|st rest] eqn:Es; [discriminate|]. exists E, st. split; [reflexivity|]. split; [|split].
  - intros C. rewrite C in A. vm_compute in A. discriminate.
  - now rewrite Es.
  - now apply Qc_eq_bool_correct. Qed.
Lemma w_cut_before_fix_test : cut_test (q 199 200) (w_cut false) = true. Proof. vm_compute. reflexivity. Qed.
Lemma w_cut_code_test : cut_test (q 1 1) (w_cut true) = true. Proof. vm_compute. reflexivity. Qed.
(* REFUTATION of "normalised post-measurement state" on the model of the code AS IT WAS BEFORE fix
   compose-mprocess-state-poststate-normalisation: a retained outcome (probability 1 after the cut) whose post state has trace 199/200 *)
Theorem mprocess_poststate_refuted :
  exists (E : ensemble QF) (st : rvec QF),
    w_cut false = MOk (QEns _ E) /\
    nth 0 (d_ps _ (en_dist _ E)) 0%Qc <> 0%Qc /\ nth_error (en_states _ E) 0 = Some st /\ (w_sd * st 0%nat)%Qc <> 1%Qc.
Proof. destruct (cut_test_spec _ _ w_cut_before_fix_test) as (E & st & H & P & S & T).
  exists E, st. split; [exact H|]. split; [exact P|]. split; [exact S|].
  rewrite T. intros C. apply (f_equal (fun x => Qnum (this x))) in C. vm_compute in C. discriminate. Qed.
(* the same input on the code (after the fix): the post state of the retained outcome has trace one *)
Theorem mprocess_poststate_fixed_witness :
  exists (E : ensemble QF) (st : rvec QF),
    w_cut true = MOk (QEns _ E) /\
    nth 0 (d_ps _ (en_dist _ E)) 0%Qc <> 0%Qc /\ nth_error (en_states _ E) 0 = Some st /\ (w_sd * st 0%nat)%Qc = 1%Qc.
Proof. destruct (cut_test_spec _ _ w_cut_code_test) as (E & st & H & P & S & T).
  exists E, st. split; [exact H|]. split; [exact P|]. split; [exact S|]. rewrite T. apply Qc_is_canon. reflexivity. Qed.

(* ---- generate_mprocess(mode 1) *)
Lemma V_real_unitary : chk_unitary V_real = true. Proof. vm_compute. reflexivity. Qed.
Lemma V_cplx_unitary : chk_unitary V_cplx = true. Proof. vm_compute. reflexivity. Qed.
(* AS CODED BEFORE fix povm-generate-mprocess-mode1-eigenvectors (rows, no conjugate) the instrument does not induce
   Pi = V diag(w) V^dagger; the code after the fix (and the docstring formula) does *)
Theorem generate_mprocess_mode1_refuted :
  chk_induces (gm_mode1_cb_prefix QF 2 w_eig V_real) (eig_matrix V_real) = false /\
  chk_induces (gm_mode1_cb_prefix QF 2 w_eig V_cplx) (eig_matrix V_cplx) = false /\
  chk_induces (gm_mode1_cb QF 2 w_atol w_eig V_real) (eig_matrix V_real) = true /\
  chk_induces (gm_mode1_cb QF 2 w_atol w_eig V_cplx) (eig_matrix V_cplx) = true /\
  chk_induces (gm_mode1_cb_doc QF 2 w_eig V_real) (eig_matrix V_real) = true /\
  chk_induces (gm_mode1_cb_doc QF 2 w_eig V_cplx) (eig_matrix V_cplx) = true.
Proof. vm_compute. repeat split; reflexivity. Qed.

(* ---- instances showing that the hypotheses of the general theorems (Props/C06.v) are satisfiable, by evaluation *)
From QV.Proofs Require Import C06_Main C06_GenMProcess.

(* the rational unitaries have orthonormal columns, and eig_matrix is the spectral sum of Proofs/C06_GenMProcess *)
Lemma chk_unitary_cols V : chk_unitary V = true -> cols_orthonormal QF 2 V.
Proof. intros H k l Hk Hl. pose proof (ceqb_spec _ _ (alln_spec _ _ (alln_spec _ _ H k Hk) l Hl)) as E.
  change (sumn 2 (fun i => cmul (CF QF) (zconj (V i k)) (V i l))) with (sumn 2 (fun i => zmul (zconj (V i k)) (V i l) : CF QF)).
  rewrite E. destruct (Nat.eqb k l); reflexivity. Qed.
Lemma V_real_cols : cols_orthonormal QF 2 V_real. Proof. exact (chk_unitary_cols _ V_real_unitary). Qed.
Lemma V_cplx_cols : cols_orthonormal QF 2 V_cplx. Proof. exact (chk_unitary_cols _ V_cplx_unitary). Qed.
Definition chk_meq2 (A B : cmat QF) : bool := alln 2 (fun i => alln 2 (fun j => ceqb (A i j) (B i j))).
Lemma chk_meq2_spec A B : chk_meq2 A B = true -> meq 2 2 A B.
Proof. intros H i j Hi Hj. exact (ceqb_spec _ _ (alln_spec _ _ (alln_spec _ _ H i Hi) j Hj)). Qed.
Lemma eig_matrix_spectral_cplx : meq 2 2 (eig_matrix V_cplx) (spectral QF 2 V_cplx w_eig).
Proof. apply chk_meq2_spec. vm_compute. reflexivity. Qed.
Lemma eig_matrix_spectral_real : meq 2 2 (eig_matrix V_real) (spectral QF 2 V_real w_eig).
Proof. apply chk_meq2_spec. vm_compute. reflexivity. Qed.
(* a Hermitian square root: S = [[3/5, i/5],[-i/5, 2/5]], Pi := S S *)
Definition S_herm : cmat QF := cmat_of_rows [[cq (q 3 5) (q 0 1); cq (q 0 1) (q 1 5)]; [cq (q 0 1) (q (-1) 5); cq (q 2 5) (q 0 1)]].
Definition chk_herm2 (A : cmat QF) : bool := alln 2 (fun i => alln 2 (fun j => ceqb (A i j) (zconj (A j i)))).
Lemma S_herm_hermitian : hermitian 2 S_herm.
Proof. assert (H : chk_herm2 S_herm = true) by (vm_compute; reflexivity).
  intros i j Hi Hj. exact (ceqb_spec _ _ (alln_spec _ _ (alln_spec _ _ H i Hi) j Hj)). Qed.

(* the instruments A (3 outcomes, latest) and B (2 outcomes): the code composes them in both bracketings with a third copy of B *)
Definition is_ok {A} (r : mres A) : bool := match r with MOk _ => true | MErr _ => false end.
Lemma is_ok_spec {A} (r : mres A) : is_ok r = true -> exists x, r = MOk x.
Proof. destruct r; [eexists; reflexivity|discriminate]. Qed.
Definition w_qeval := qeval QF w_n w_sd w_atol w_eps true vz.
Definition w_t1 : qtree QF := QN QF (QN QF (QL QF (QMProc QF mpA)) (QL QF (QMProc QF mpB))) (QL QF (QMProc QF mpB)).
Definition w_t2 : qtree QF := QN QF (QL QF (QMProc QF mpA)) (QN QF (QL QF (QMProc QF mpB)) (QL QF (QMProc QF mpB))).
Lemma w_t1_ok : is_ok (w_qeval w_t1) = true. Proof. vm_compute. reflexivity. Qed.
Lemma w_t2_ok : is_ok (w_qeval w_t2) = true. Proof. vm_compute. reflexivity. Qed.
Lemma w_t_linear : forallb (is_linear QF) (qflat QF w_t1) = true. Proof. reflexivity. Qed.
Lemma w_t_flat : qflat QF w_t1 = qflat QF w_t2. Proof. reflexivity. Qed.

(* no outcome of B on the witness state is cut; the POVM induced by B gives Born numbers above the truncation threshold that sum to one *)
Lemma w_nocut : forallb (fun H => negb (mps_cut QF (mp_eps QF mpB) 1%Qc (w_sd * mv w_n H w_vec 0%nat)%Qc)) (mp_hss QF mpB) = true.
Proof. vm_compute. reflexivity. Qed.
Definition w_povmB : list (rvec QF) := to_povm QF w_sd hssB.
Lemma forallb_kle (t : Qc) (l : list Qc) : forallb (fun p => kleb QF t p) l = true -> Forall (fun p => kle QF t p) l.
Proof. induction l as [|p l IH]; cbn [forallb]; [constructor|]. rewrite andb_true_iff. intros [A B].
  constructor; [now apply (k_leb QF)|now apply IH]. Qed.
Lemma w_born_ge : Forall (fun p => kle QF w_atol p) (born_list QF w_n w_povmB w_vec).
Proof. apply forallb_kle. vm_compute. reflexivity. Qed.
Lemma w_born_sum : lsum QF (born_list QF w_n w_povmB w_vec) = 1%Qc.
Proof. apply Qc_is_canon. vm_compute. reflexivity. Qed.

(* the 2-qubit normalised Pauli basis is complete (hypothesis of the Kraus-concatenation theorem); soundness of the sweep from C02 *)
From QV.Proofs Require C02_Conv.
Lemma pauli2_complete : basis_complete 4 pauli2.
Proof. apply (C02_Conv.complete_dec_sound QF). vm_compute. reflexivity. Qed.

(* ---- generate_mprocess(mode 1), degenerate spectrum: eigh returned the eigenvalues (1, 1 + 1e-14) of the trivial effect I (bitwise
   different, within atol = 1e-13) with the rotation V_real as eigenvectors.  The code (grouping tolerance atol) forms ONE group with
   projector V V^dagger = I: the identity channel, the state is not disturbed.  As coded BEFORE fix
   povm-generate-mprocess-mode1-eigenspace-tolerance (tol = 0: bitwise equality) two rank-one groups are formed and the instrument
   dephases in the arbitrary basis V - although the POVM element is (up to 1e-14) the identity *)
Definition w_deg : nat -> Qc := fun k => match k with 0%nat => q 1 1 | _ => (q 1 1 + q 1 100000000000000)%Qc end.
Definition chk_identity_channel (H : cmat QF) : bool :=
  alln 4 (fun r => alln 4 (fun c => ceqb (H r c) (if Nat.eqb r c then one else cz))).
Theorem generate_mprocess_mode1_eigenspace_refuted :
  chk_unitary V_real = true /\ Qc_eq_bool (w_deg 0%nat) (w_deg 1%nat) = false /\ kleb QF (absF' QF (w_deg 1%nat - w_deg 0%nat)%Qc) w_atol = true /\
  chk_identity_channel (gm_mode1_cb QF 2 w_atol w_deg V_real) = true /\
  chk_identity_channel (gm_mode1_cb QF 2 0%Qc w_deg V_real) = false.
Proof. vm_compute. repeat split; reflexivity. Qed.
Lemma w_atol_nonneg : kle QF (c0 QF) w_atol. Proof. apply (k_leb QF). vm_compute. reflexivity. Qed.
