(* C04 — object-level and variable-level forms of the equality projections compute the same point, both flags.
     (a)  P_var flag w            = to_var flag (P_obj (from_var flag w))      for every variable vector w
     (b)  to_var flag (P_obj o)   = P_var flag (to_var flag o)                  for every object o when flag = false, and
          for State / Gate also when flag = true (there the projection only touches what the parametrisation drops);
          for Povm / MProcess with flag = true (b) needs o feasible: the parametrisation cannot represent infeasible o.
     (c)  flag = true : P_var is the identity (the constraint is built into the parametrisation).
   Equalities are pointwise on the first [*_var_len flag ..] entries. *)
From Coq Require Import Field Ring Setoid Arith Lia Bool.
From QV.Core Require Import OF Sums Mat C04_ProjCert.
From QV.Model Require Import QObj C04_Proj.
From QV.Proofs Require Import C04_Proj.

Section C04ObjVar.
Context (F : OF).
Add Field Ffq2 : (k_field F).
Notation "0" := (c0 F). Notation "1" := (c1 F).
Infix "+" := (cadd F). Infix "*" := (cmul F). Infix "-" := (csub F). Infix "/" := (kdiv F).
Notation rvec := (@vec F). Notation rmat := (@mat F).

Ltac natcase := repeat match goal with
  | |- context [Nat.eqb ?a ?b] => destruct (Nat.eqb_spec a b); try lia
  | |- context [Nat.ltb ?a ?b] => destruct (Nat.ltb_spec a b); try lia end.

Lemma divmod_k k n : (0 < n)%nat -> (k / n * n + k mod n = k)%nat.
Proof. intros Hn. rewrite Nat.mul_comm. symmetry. apply Nat.div_mod_eq. Qed.

(* ---------------------------------------------------------------- State *)
Lemma state_obj_var_a flag sd w k :
  state_proj_eq_var F flag sd w k = state_vec_to_var F flag (state_proj_eq F sd (state_var_to_vec F flag sd w)) k.
Proof. destruct flag; cbn [state_proj_eq_var state_vec_to_var state_var_to_vec]; [|reflexivity].
  unfold vdelete, state_proj_eq, vinsert. natcase; f_equal; lia. Qed.
Lemma state_obj_var_b flag sd v k :
  state_vec_to_var F flag (state_proj_eq F sd v) k = state_proj_eq_var F flag sd (state_vec_to_var F flag v) k.
Proof. destruct flag; cbn [state_proj_eq_var state_vec_to_var]; [|reflexivity].
  unfold vdelete, state_proj_eq. natcase; reflexivity. Qed.
Lemma state_var_identity sd w k : state_proj_eq_var F true sd w k = w k.
Proof. reflexivity. Qed.

(* ---------------------------------------------------------------- Gate *)
Lemma gate_obj_var_a flag n w k : (0 < n)%nat ->
  gate_proj_eq_var F flag n w k = gate_hs_to_var F flag n (gate_proj_eq F (gate_var_to_hs F flag n w)) k.
Proof. intros Hn. destruct flag; cbn [gate_proj_eq_var gate_hs_to_var gate_var_to_hs]; unfold gate_proj_eq.
  - cbn [Nat.eqb]. rewrite Nat.sub_succ, Nat.sub_0_r. now rewrite divmod_k.
  - destruct (Nat.ltb_spec k n) as [Hk|Hk].
    + rewrite (Nat.div_small k n Hk), (Nat.mod_small k n Hk). cbn [Nat.eqb]. unfold e0. now destruct (Nat.eqb k 0).
    + destruct (Nat.eqb_spec k 0) as [->|_]; [lia|].
      destruct (Nat.eqb_spec (k / n) 0) as [E|_]; [apply Nat.div_small_iff in E; lia|]. now rewrite divmod_k. Qed.
Lemma gate_obj_var_b flag n H k : (0 < n)%nat ->
  gate_hs_to_var F flag n (gate_proj_eq F H) k = gate_proj_eq_var F flag n (gate_hs_to_var F flag n H) k.
Proof. intros Hn. destruct flag; cbn [gate_proj_eq_var gate_hs_to_var]; unfold gate_proj_eq; [reflexivity|].
  destruct (Nat.ltb_spec k n) as [Hk|Hk].
  - rewrite (Nat.div_small k n Hk), (Nat.mod_small k n Hk). cbn [Nat.eqb]. unfold e0. now destruct (Nat.eqb k 0).
  - destruct (Nat.eqb_spec k 0) as [->|_]; [lia|].
    destruct (Nat.eqb_spec (k / n) 0) as [E|_]; [apply Nat.div_small_iff in E; lia|reflexivity]. Qed.
Lemma gate_var_identity n w k : gate_proj_eq_var F true n w k = w k.
Proof. reflexivity. Qed.

(* ---------------------------------------------------------------- Povm *)
(* (a) holds by construction: the code itself goes var -> vecs -> project -> var *)
Lemma povm_obj_var_a flag sd m n w k :
  povm_proj_eq_var F flag sd m n w k = povm_vecs_to_var F n (povm_proj_eq F sd m (povm_var_to_vecs F flag sd m n w)) k.
Proof. reflexivity. Qed.
(* from_var lands in the constraint set when flag = true *)
Lemma povm_from_var_feasible sd m n w : (0 < m)%nat -> povm_eq_ok F sd m n (povm_var_to_vecs F true sd m n w).
Proof. intros Hm a Ha. destruct m as [|m']; [lia|]. cbn [povm_var_to_vecs sumn].
  replace (S m' - 1)%nat with m' by lia. rewrite Nat.ltb_irrefl.
  rewrite (sumn_ext m' _ (fun y => w (y * n + a)%nat)).
  2:{ intros y Hy. now rewrite (proj2 (Nat.ltb_lt y m') Hy). }
  ring. Qed.
(* the projection is the identity on feasible objects (direct, entrywise) *)
Lemma povm_proj_feasible sd m n V x a : (0 < m)%nat -> (a < n)%nat -> povm_eq_ok F sd m n V -> povm_proj_eq F sd m V x a = V x a.
Proof. intros Hm Ha HV. unfold povm_proj_eq, povm_abar, povm_c. rewrite (HV a Ha).
  pose proof (of_nat_pos_neq0 F m Hm) as Hm0. destruct (Nat.eqb a 0); field; exact Hm0. Qed.
(* (c) *)
Lemma povm_var_identity sd m n w k : (0 < m)%nat -> (0 < n)%nat -> (k < (m - 1) * n)%nat ->
  povm_proj_eq_var F true sd m n w k = w k.
Proof. intros Hm Hn Hk. unfold povm_proj_eq_var, povm_vecs_to_var.
  rewrite (povm_proj_feasible sd m n); [|exact Hm|apply Nat.mod_upper_bound; lia|now apply povm_from_var_feasible].
  cbn [povm_var_to_vecs].
  assert (Hx : (k / n < m - 1)%nat) by (apply Nat.div_lt_upper_bound; lia).
  rewrite (proj2 (Nat.ltb_lt _ _) Hx). now rewrite divmod_k. Qed.
(* (b), flag = false *)
Lemma povm_unflatten sd m n V x a : (a < n)%nat -> povm_var_to_vecs F false sd m n (povm_vecs_to_var F n V) x a = V x a.
Proof. intros Ha. cbn [povm_var_to_vecs]. unfold povm_vecs_to_var. now destruct (divmod_flat x a n Ha) as [-> ->]. Qed.
Lemma povm_proj_eq_ext sd m V W x a : (forall y, V y a = W y a) -> povm_proj_eq F sd m V x a = povm_proj_eq F sd m W x a.
Proof. intros H. unfold povm_proj_eq, povm_abar. rewrite (H x). rewrite (sumn_ext m (fun y => V y a) (fun y => W y a)) by (intros; apply H).
  reflexivity. Qed.
Lemma povm_obj_var_b_false sd m n V k : (0 < n)%nat ->
  povm_vecs_to_var F n (povm_proj_eq F sd m V) k = povm_proj_eq_var F false sd m n (povm_vecs_to_var F n V) k.
Proof. intros Hn. unfold povm_proj_eq_var. unfold povm_vecs_to_var at 1 2.
  apply povm_proj_eq_ext. intros y. symmetry. apply povm_unflatten. apply Nat.mod_upper_bound; lia. Qed.
(* (b), flag = true, feasible objects *)
Lemma povm_obj_var_b_true sd m n V k : (0 < m)%nat -> (0 < n)%nat -> (k < (m - 1) * n)%nat -> povm_eq_ok F sd m n V ->
  povm_vecs_to_var F n (povm_proj_eq F sd m V) k = povm_proj_eq_var F true sd m n (povm_vecs_to_var F n V) k.
Proof. intros Hm Hn Hk HV. rewrite povm_var_identity by assumption. unfold povm_vecs_to_var.
  apply (povm_proj_feasible sd m n); [exact Hm|apply Nat.mod_upper_bound; lia|exact HV]. Qed.

(* ---------------------------------------------------------------- MProcess *)
Lemma mp_obj_var_a flag m n w k :
  mp_proj_eq_var F flag m n w k = mp_hss_to_var F flag m n (mp_proj_eq F m (mp_var_to_hss F flag m n w)) k.
Proof. reflexivity. Qed.
(* the projection is the identity on feasible objects (direct, entrywise) *)
Lemma mp_proj_feasible m n H x a b : (0 < m)%nat -> (b < n)%nat -> mp_eq_ok F m n H -> mp_proj_eq F m H x a b = H x a b.
Proof. intros Hm Hb HH. unfold mp_proj_eq, mp_defect. destruct (Nat.eqb_spec a 0) as [->|_]; [|reflexivity].
  rewrite (HH b Hb). field. now apply of_nat_pos_neq0. Qed.
(* (b), flag = false : stacked vector in, stacked vector out *)
Lemma mp_unstack_stack n H x a b : (0 < n)%nat -> (a < n)%nat -> (b < n)%nat -> mp_unstack F n (mp_stack F n H) x a b = H x a b.
Proof. intros Hn Ha Hb. unfold mp_unstack, mp_stack.
  assert (Hab : (a * n + b < n * n)%nat) by nia.
  replace (x * (n * n) + a * n + b)%nat with (x * (n * n) + (a * n + b))%nat by lia.
  destruct (divmod_flat x (a * n + b) (n * n) Hab) as [-> E]. rewrite E.
  destruct (divmod_flat a b n Hb) as [-> _].
  replace ((x * (n * n) + (a * n + b)) mod n)%nat with b; [reflexivity|].
  replace (x * (n * n) + (a * n + b))%nat with (b + (x * n + a) * n)%nat by lia.
  rewrite Nat.mod_add by lia. symmetry. now apply Nat.mod_small. Qed.
Lemma mp_proj_eq_ext m (H W : nat -> rmat) x a b :
  (forall y, H y 0%nat b = W y 0%nat b) -> H x a b = W x a b -> mp_proj_eq F m H x a b = mp_proj_eq F m W x a b.
Proof. intros H0 Hx. unfold mp_proj_eq, mp_defect. rewrite (H0 x), Hx.
  rewrite (sumn_ext m (fun y => H y 0%nat b) (fun y => W y 0%nat b)) by (intros; apply H0). reflexivity. Qed.
Lemma mp_obj_var_b_false m n H k : (0 < n)%nat ->
  mp_hss_to_var F false m n (mp_proj_eq F m H) k = mp_proj_eq_var F false m n (mp_hss_to_var F false m n H) k.
Proof. intros Hn. unfold mp_proj_eq_var. cbn [mp_hss_to_var mp_var_to_hss mp_var_to_stacked]. unfold mp_stack at 1 2.
  assert (Hb : (k mod n < n)%nat) by (apply Nat.mod_upper_bound; lia).
  assert (Ha : (k mod (n * n) / n < n)%nat) by (apply Nat.div_lt_upper_bound; [lia|apply Nat.mod_upper_bound; nia]).
  apply mp_proj_eq_ext.
  - intros y. symmetry. apply mp_unstack_stack; (assumption || lia).
  - symmetry. now apply mp_unstack_stack. Qed.
(* stack after unstack is the identity on flat vectors *)
Lemma mp_stack_unstack n S k : (0 < n)%nat -> mp_stack F n (mp_unstack F n S) k = S k.
Proof. intros Hn. unfold mp_stack, mp_unstack. f_equal.
  pose proof (Nat.div_mod_eq k (n * n)) as E1. pose proof (Nat.div_mod_eq (k mod (n * n)) n) as E2.
  rewrite (mod_mod_sq k n Hn) in E2. lia. Qed.
(* from_var lands in the constraint set when flag = true *)
Lemma mp_from_var_feasible m n w : (0 < m)%nat -> mp_eq_ok F m n (mp_var_to_hss F true m n w).
Proof. intros Hm b Hb. destruct m as [|m']; [lia|]. unfold mp_var_to_hss, mp_unstack. cbn [mp_var_to_stacked sumn].
  replace (S m' - 1)%nat with m' by lia.
  rewrite (sumn_ext m' _ (fun y => w (y * (n * n) + b)%nat)).
  2:{ intros y Hy. unfold vinsert. cbn [Nat.mul Nat.add].
      destruct (Nat.ltb_spec (y * (n * n) + 0 + b) (m' * (n * n))) as [_|Hge]; [f_equal; lia|nia]. }
  unfold vinsert. cbn [Nat.mul Nat.add].
  destruct (Nat.ltb_spec (m' * (n * n) + 0 + b) (m' * (n * n))) as [Hlt|_]; [lia|].
  destruct (Nat.ltb_spec (m' * (n * n) + 0 + b) (m' * (n * n) + n)) as [_|Hge]; [|lia].
  unfold mp_first_row_last. replace (S m' - 1)%nat with m' by lia.
  replace (m' * (n * n) + 0 + b - m' * (n * n))%nat with b by lia. ring. Qed.
(* (c) flag = true : the variable-level projection is the identity *)
Lemma mp_var_identity m n w k : (0 < m)%nat -> (0 < n)%nat -> (k < m * (n * n) - n)%nat ->
  mp_proj_eq_var F true m n w k = w k.
Proof. intros Hm Hn Hk. unfold mp_proj_eq_var. cbn [mp_hss_to_var]. unfold vdelete.
  assert (G : forall k', mp_stack F n (mp_proj_eq F m (mp_var_to_hss F true m n w)) k' = mp_var_to_stacked F true m n w k').
  { intros k'. unfold mp_stack at 1. rewrite (mp_proj_feasible m n); [|exact Hm|apply Nat.mod_upper_bound; lia|now apply mp_from_var_feasible].
    unfold mp_var_to_hss. now apply (mp_stack_unstack n (mp_var_to_stacked F true m n w) k'). }
  rewrite !G. cbn [mp_var_to_stacked]. unfold vinsert.
  destruct (Nat.ltb_spec k ((m - 1) * (n * n))) as [H1|H1].
  - reflexivity.
  - destruct (Nat.ltb_spec (k + n) ((m - 1) * (n * n))) as [H2|_]; [lia|].
    destruct (Nat.ltb_spec (k + n) ((m - 1) * (n * n) + n)) as [H3|_]; [lia|]. f_equal. lia. Qed.
(* (b), flag = true, feasible objects *)
Lemma mp_obj_var_b_true m n H k : (0 < m)%nat -> (0 < n)%nat -> (k < m * (n * n) - n)%nat -> mp_eq_ok F m n H ->
  mp_hss_to_var F true m n (mp_proj_eq F m H) k = mp_proj_eq_var F true m n (mp_hss_to_var F true m n H) k.
Proof. intros Hm Hn Hk HH. rewrite mp_var_identity by assumption. cbn [mp_hss_to_var]. unfold vdelete.
  assert (G : forall k', mp_stack F n (mp_proj_eq F m H) k' = mp_stack F n H k').
  { intros k'. unfold mp_stack. apply (mp_proj_feasible m n); [exact Hm|apply Nat.mod_upper_bound; lia|exact HH]. }
  now rewrite !G. Qed.
End C04ObjVar.
