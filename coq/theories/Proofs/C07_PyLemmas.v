(* C07 — lemmas about the Python-list combinators of Model/C07_PySym.v (static part of the translator tie; the proofs that mention
   the REGENERATED functions are in coq/gen/C07_Equiv2.v). *)
From Coq Require Import Arith List Bool ZArith Lia.
From QV.Core Require Import OF Sums Mat.
From QV.Model Require Import C07_Tensor C07_Embed C07_PySym.
From QV.Proofs Require Import C07_Loop C07_Products C07_EmbedPerm.
Import ListNotations.

(* ---- indices, slices, products on lists of naturals seen as Python ints *)
Notation zl := (map Z.of_nat).
Lemma pyidx_nat {A : Type} (l : list A) i : pyidx l (Z.of_nat i) = i.
Proof. unfold pyidx. destruct (Z.ltb_spec (Z.of_nat i) 0); [lia|apply Nat2Z.id]. Qed.
Lemma pynth_nat l i : pynth (zl l) (Z.of_nat i) = Z.of_nat (nth i l 0%nat).
Proof. unfold pynth. rewrite pyidx_nat. change 0%Z with (Z.of_nat 0). apply map_nth. Qed.
Lemma pynth_idx (l : list Z) i : pynth l (Z.of_nat i) = nth i l 0%Z.
Proof. unfold pynth. now rewrite pyidx_nat. Qed.
Lemma pyslice_to_nat l i : pyslice_to (zl l) (Z.of_nat i) = zl (firstn i l).
Proof. unfold pyslice_to. rewrite pyidx_nat. apply firstn_map. Qed.
Lemma pyslice_from_nat l i : pyslice_from (zl l) (Z.of_nat i) = zl (skipn i l).
Proof. unfold pyslice_from. rewrite pyidx_nat. apply skipn_map. Qed.
Lemma fold_left_mul l : forall a, fold_left Z.mul l a = (a * fold_right Z.mul 1 l)%Z.
Proof. induction l as [|x l IH]; intros a; cbn; [lia|]. rewrite IH. lia. Qed.
Lemma prodn_Z l : Z.of_nat (prodn l) = fold_right Z.mul 1%Z (zl l).
Proof. unfold prodn. induction l as [|x l IH]; cbn; [reflexivity|]. rewrite Nat2Z.inj_mul. now rewrite IH. Qed.
Lemma pyprod_nat l : pyprod (zl l) = Z.of_nat (prodn l).
Proof. unfold pyprod. rewrite fold_left_mul, prodn_Z. lia. Qed.
Lemma pyreduce_mul_nat l : l <> [] -> pyreduce_mul (zl l) = Z.of_nat (prodn l).
Proof. destruct l as [|x l]; [congruence|]. intros _. cbn [map pyreduce_mul]. rewrite fold_left_mul.
  change (prodn (x :: l)) with (x * prodn l)%nat. rewrite Nat2Z.inj_mul, prodn_Z. reflexivity. Qed.

(* ---- item assignment, the swap  l[p-1], l[p] = l[p], l[p-1] *)
Lemma upd_nat_app {A : Type} (pre : list A) : forall r k v, upd_nat (pre ++ r) (length pre + k) v = pre ++ upd_nat r k v.
Proof. induction pre as [|x pre IH]; intros r k v; [reflexivity|]. cbn [app length Nat.add upd_nat]. now rewrite IH. Qed.
Lemma upd_nat_app0 {A : Type} (pre : list A) x r v : upd_nat (pre ++ x :: r) (length pre) v = pre ++ v :: r.
Proof. pose proof (upd_nat_app pre (x :: r) 0 v) as H. now rewrite Nat.add_0_r in H. Qed.
Lemma upd_nat_app1 {A : Type} (pre : list A) x y r v : upd_nat (pre ++ x :: y :: r) (S (length pre)) v = pre ++ x :: v :: r.
Proof. pose proof (upd_nat_app pre (x :: y :: r) 1 v) as H. now rewrite Nat.add_1_r in H. Qed.
Lemma pyswap (pre : list Z) x y post (l : list Z) (p : Z) : l = pre ++ x :: y :: post -> p = Z.of_nat (S (length pre)) ->
  pyupd (pyupd l (p - 1) (pynth l p)) p (pynth l (p - 1)) = swap_at (S (length pre)) l.
Proof. intros El Ep. replace (p - 1)%Z with (Z.of_nat (length pre)) by lia. subst p. rewrite !pynth_idx.
  unfold pyupd. rewrite !pyidx_nat. subst l. rewrite swap_at_app.
  rewrite (app_nth2 pre) by lia. replace (S (length pre) - length pre)%nat with 1%nat by lia.
  rewrite (app_nth2 pre) by lia. rewrite Nat.sub_diag. cbn [nth].
  rewrite upd_nat_app0, upd_nat_app1. reflexivity. Qed.

(* ---- range / enumerate *)
Lemma pyrange_nat n : pyrange (Z.of_nat n) = zl (seq 0 n).
Proof. unfold pyrange. now rewrite Nat2Z.id. Qed.
Lemma combine_seq_nth {A : Type} (d : A) (l : list A) : forall k,
  combine (zl (seq k (length l))) l = map (fun a => (Z.of_nat (k + a), nth a l d)) (seq 0 (length l)).
Proof. induction l as [|x l IH]; intros k; [reflexivity|]. cbn [length seq map combine nth].
  rewrite Nat.add_0_r. f_equal. rewrite IH. rewrite <- seq_shift, map_map. apply map_ext. intros a.
  now replace (k + S a)%nat with (S k + a)%nat by lia. Qed.

(* ---- convert_list_by_permutation_matrix: search of the first 1 in a row with `break`, row by row *)
Section Convert.
Context (old : list Z) (P : Z -> Z -> Z).
Local Notation hit := (C07_PySym.hit P).
Local Notation conv_row := (C07_PySym.conv_row old P).
(* the shape of the inner loop for a fixed row r: a step that does nothing once the flag is set, else stores old[c] at row r and
   sets the flag on a hit *)
Section Row.
Context (r : Z) (istep : list (option Z) * bool -> Z -> list (option Z) * bool).
Context (Hbrk : forall nl c, istep (nl, true) c = (nl, true)).
Context (Hstep : forall nl c, istep (nl, false) c = if hit r c then (pyupd nl r (Some (pynth old c)), true) else (nl, false)).
Lemma inner_done cols : forall nl, fold_left istep cols (nl, true) = (nl, true).
Proof. induction cols as [|c cols IH]; intros nl; cbn; [reflexivity|]. now rewrite Hbrk. Qed.
Lemma inner_spec cols : forall nl,
  fst (fold_left istep cols (nl, false)) = match conv_row cols r with Some v => pyupd nl r (Some v) | None => nl end.
Proof. unfold conv_row. induction cols as [|c cols IH]; intros nl; cbn [fold_left find]; [reflexivity|].
  rewrite Hstep. destruct (hit r c); [now rewrite inner_done|apply IH]. Qed.
End Row.
(* outer loop over range(n) starting from [True] * n (placeholder = None) *)
Lemma outer_spec (ostep : list (option Z) -> Z -> list (option Z)) cols :
  (forall nl r, ostep nl r = match conv_row cols r with Some v => pyupd nl r (Some v) | None => nl end) ->
  forall len k pre, length pre = k ->
  fold_left ostep (zl (seq k len)) (pre ++ repeat None len) = pre ++ map (fun r => conv_row cols (Z.of_nat r)) (seq k len).
Proof. intros Ho. induction len as [|len IH]; intros k pre Hk; [reflexivity|].
  cbn [seq map fold_left repeat]. rewrite Ho.
  assert (E : match conv_row cols (Z.of_nat k) with Some v => pyupd (pre ++ None :: repeat None len) (Z.of_nat k) (Some v) | None => pre ++ None :: repeat None len end
              = (pre ++ [conv_row cols (Z.of_nat k)]) ++ repeat None len).
  { rewrite <- app_assoc. cbn [app]. destruct (conv_row cols (Z.of_nat k)) as [v|]; [|reflexivity].
    unfold pyupd. rewrite pyidx_nat. subst k. now rewrite upd_nat_app0. }
  rewrite E. rewrite (IH (S k) (pre ++ [conv_row cols (Z.of_nat k)])) by (rewrite app_length; cbn; lia).
  now rewrite <- app_assoc. Qed.
End Convert.

(* "P @ list": when row r of the matrix has its single 1 in column s r, entry r of the result is old[s r] *)
Lemma conv_row_perm (old : list Z) (s : nat -> nat) m r : (s r < m)%nat ->
  conv_row old (fun a b => if (b =? Z.of_nat (s (Z.to_nat a)))%Z then 1%Z else 0%Z) (zl (seq 0 m)) (Z.of_nat r) = Some (nth (s r) old 0%Z).
Proof. intros Hs. unfold conv_row, hit. rewrite Nat2Z.id.
  assert (F : forall len k, (k <= s r < k + len)%nat ->
            find (fun c => ((if (c =? Z.of_nat (s r))%Z then 1 else 0) =? 1)%Z) (zl (seq k len)) = Some (Z.of_nat (s r))).
  { induction len as [|len IH]; intros k Hk; [lia|]. cbn [seq map find].
    destruct (Z.eqb_spec (Z.of_nat k) (Z.of_nat (s r))) as [E|NE]; cbn.
    - now rewrite E.
    - apply IH. lia. }
  rewrite (F m 0%nat) by lia. cbn [option_map]. now rewrite pynth_idx. Qed.

(* ---- itertools.product([0,1,2,3], repeat=n): n-tuples of base-4 digits, most significant first *)
Definition names4 : list Z := [0; 1; 2; 3]%Z.
Definition has3t (t : list Z) : bool := existsb (Z.eqb 3) t.
Lemma pyproduct_length n : length (pyproduct names4 n) = (4 ^ n)%nat.
Proof. induction n as [|k IH]; [reflexivity|]. cbn [pyproduct names4 flat_map]. rewrite !app_length, !map_length, IH.
  cbn [length]. rewrite Nat.pow_succ_r'. lia. Qed.
Lemma has3_msb : forall k a, (a < 4 * 4 ^ k)%nat -> has3 (S k) a = Nat.eqb (a / 4 ^ k) 3 || has3 k (a mod 4 ^ k).
Proof. induction k as [|k IH]; intros a Ha.
  - cbn [Nat.pow] in *. cbn [has3]. rewrite ?Nat.div_1_r, ?Nat.mod_1_r. rewrite (Nat.mod_small a 4) by lia. cbn [has3]. reflexivity.
  - assert (Hm : (0 < 4 ^ k)%nat) by (apply Nat.neq_0_lt_0, Nat.pow_nonzero; lia).
    change (has3 (S (S k)) a) with (Nat.eqb (a mod 4) 3 || has3 (S k) (a / 4)).
    rewrite Nat.pow_succ_r' in *. rewrite IH by (apply Nat.div_lt_upper_bound; lia).
    rewrite Nat.div_div by lia. rewrite Nat.mod_mul_r by lia.
    destruct (divmod4 ((a / 4) mod 4 ^ k) (a mod 4) (Nat.mod_upper_bound a 4 ltac:(lia))) as [Ed Em].
    replace (a mod 4 + 4 * ((a / 4) mod 4 ^ k))%nat with (4 * ((a / 4) mod 4 ^ k) + a mod 4)%nat by lia.
    change (has3 (S k) (4 * ((a / 4) mod 4 ^ k) + a mod 4)) with
      (Nat.eqb ((4 * ((a / 4) mod 4 ^ k) + a mod 4) mod 4) 3 || has3 k ((4 * ((a / 4) mod 4 ^ k) + a mod 4) / 4)).
    rewrite Ed, Em. destruct (Nat.eqb (a mod 4) 3), (Nat.eqb (a / (4 * 4 ^ k)) 3); reflexivity. Qed.
Lemma pyproduct_has3 : forall n a, (a < 4 ^ n)%nat -> has3t (nth a (pyproduct names4 n) []) = has3 n a.
Proof. induction n as [|k IH]; intros a Ha.
  - cbn in Ha. assert (a = 0)%nat by lia. subst. reflexivity.
  - rewrite Nat.pow_succ_r' in Ha. rewrite has3_msb by exact Ha.
    assert (Hm : (0 < 4 ^ k)%nat) by (apply Nat.neq_0_lt_0, Nat.pow_nonzero; lia).
    set (m := (4 ^ k)%nat) in *. set (L := pyproduct names4 k) in *.
    assert (HL : length L = m) by apply pyproduct_length.
    cbn [pyproduct names4 flat_map]. fold L. rewrite app_nil_r.
    assert (Hblk : forall (d : Z) q, (q < m)%nat -> has3t (nth q (map (cons d) L) []) = Z.eqb 3 d || has3 k q).
    { intros d q Hq. rewrite (nth_indep _ [] (cons d [])) by (rewrite map_length; lia).
      rewrite (map_nth (cons d)). cbn [has3t existsb]. fold (has3t (nth q L [])). now rewrite IH. }
    assert (Hlen : forall d : Z, length (map (cons d) L) = m) by (intros; now rewrite map_length).
    destruct (Nat.lt_ge_cases a m) as [H0|H0].
    { rewrite app_nth1 by (rewrite Hlen; lia). rewrite Hblk by lia. rewrite Nat.div_small, Nat.mod_small by lia. reflexivity. }
    rewrite app_nth2 by (rewrite Hlen; lia). rewrite Hlen.
    destruct (Nat.lt_ge_cases (a - m) m) as [H1|H1].
    { rewrite app_nth1 by (rewrite Hlen; lia). rewrite Hblk by lia.
      rewrite <- (Nat.div_unique a m 1 (a - m)) by lia. rewrite <- (Nat.mod_unique a m 1 (a - m)) by lia. reflexivity. }
    rewrite app_nth2 by (rewrite Hlen; lia). rewrite Hlen.
    destruct (Nat.lt_ge_cases (a - m - m) m) as [H2|H2].
    { rewrite app_nth1 by (rewrite Hlen; lia). rewrite Hblk by lia.
      rewrite <- (Nat.div_unique a m 2 (a - m - m)) by lia. rewrite <- (Nat.mod_unique a m 2 (a - m - m)) by lia. reflexivity. }
    rewrite app_nth2 by (rewrite Hlen; lia). rewrite Hlen. rewrite Hblk by lia.
    rewrite <- (Nat.div_unique a m 3 (a - m - m - m)) by lia. rewrite <- (Nat.mod_unique a m 3 (a - m - m - m)) by lia. reflexivity. Qed.

(* ---- the index loop of _permutation_matrix_from_qutrits_to_qubits over (index, tuple) items: only the LENGTHS of the two
   lists of tuples enter the result *)
Fixpoint outsZ (n : nat) (its : list (Z * list Z)) (i e : nat) : list (Z * Z) :=
  match its with
  | [] => []
  | (a, t) :: r => if has3t t then (a, (3 ^ Z.of_nat n + Z.of_nat (S i) - 1)%Z) :: outsZ n r (S i) e
                   else (a, (Z.of_nat (S e) - 1)%Z) :: outsZ n r i (S e)
  end.
Definition pairZ (p : nat * nat) : Z * Z := (Z.of_nat (fst p), Z.of_nat (snd p)).
Lemma outsZ_outs n (L : list (list Z)) : length L = (4 ^ n)%nat ->
  (forall a, (a < 4 ^ n)%nat -> has3t (nth a L []) = has3 n a) ->
  forall l i e, (forall a, In a l -> (a < 4 ^ n)%nat) ->
  outsZ n (map (fun a => (Z.of_nat a, nth a L [])) l) i e = map pairZ (outs n l i e).
Proof. intros HL H3 l. induction l as [|a l IH]; intros i e Hin; [reflexivity|]. cbn [map outsZ outs].
  rewrite H3 by (apply Hin; now left). destruct (has3 n a); cbn [map]; rewrite IH by (intros; apply Hin; now right); f_equal.
  - unfold pairZ. cbn [fst snd]. f_equal. rewrite Nat2Z.inj_add, Nat2Z.inj_pow. change (Z.of_nat 3) with 3%Z. lia.
  - unfold pairZ. cbn [fst snd]. f_equal. lia. Qed.
Theorem outsZ_emb_pairs n :
  outsZ n (combine (pyrange (Z.of_nat (length (pyproduct names4 n)))) (pyproduct names4 n)) 0 0 = map pairZ (emb_pairs n).
Proof. rewrite pyrange_nat, (combine_seq_nth []). cbn [Nat.add]. rewrite pyproduct_length, emb_pairs_outs.
  apply outsZ_outs; [apply pyproduct_length|apply pyproduct_has3|]. intros a Ha. apply in_seq in Ha. lia. Qed.

(* ---- list-building loops of the product functions: append in a (nested) for loop = map / flat_map = list_prod *)
Lemma fold_left_ext {A B : Type} (f g : A -> B -> A) : (forall a b, f a b = g a b) -> forall l i, fold_left f l i = fold_left g l i.
Proof. intros H l. induction l as [|x l IH]; intros i; cbn; [reflexivity|]. now rewrite H, IH. Qed.
Lemma fold_append {A B : Type} (f : A -> B) l : forall acc, fold_left (fun acc x => acc ++ [f x]) l acc = acc ++ map f l.
Proof. induction l as [|x l IH]; intros acc; cbn; [now rewrite app_nil_r|]. rewrite IH, <- app_assoc. reflexivity. Qed.
Lemma fold_append_list {A B : Type} (h : A -> list B) l : forall acc, fold_left (fun acc x => acc ++ h x) l acc = acc ++ flat_map h l.
Proof. induction l as [|x l IH]; intros acc; cbn; [now rewrite app_nil_r|]. rewrite IH, <- app_assoc. reflexivity. Qed.
Lemma fold_append2 {A B C : Type} (f : A -> B) (g : A -> C) l : forall a b,
  fold_left (fun (st : list B * list C) x => (fst st ++ [f x], snd st ++ [g x])) l (a, b) = (a ++ map f l, b ++ map g l).
Proof. induction l as [|x l IH]; intros a b; cbn [fold_left map fst snd]; [now rewrite !app_nil_r|]. rewrite IH, <- !app_assoc. reflexivity. Qed.
Lemma fold_append_list2 {A B C : Type} (h : A -> list B) (k : A -> list C) l : forall a b,
  fold_left (fun (st : list B * list C) x => (fst st ++ h x, snd st ++ k x)) l (a, b) = (a ++ flat_map h l, b ++ flat_map k l).
Proof. induction l as [|x l IH]; intros a b; cbn [fold_left flat_map fst snd]; [now rewrite !app_nil_r|]. rewrite IH, <- !app_assoc. reflexivity. Qed.
Lemma list_prod_flat_map {A B : Type} (l1 : list A) (l2 : list B) : list_prod l1 l2 = flat_map (fun x => map (fun y => (x, y)) l2) l1.
Proof. induction l1 as [|x l1 IH]; cbn; [reflexivity|]. now rewrite IH. Qed.
(* row-major: position s of the product list holds the pair (s / n2, s mod n2) — the slot function of the repaired model *)
Lemma list_prod_nth {A B : Type} (d1 : A) (d2 : B) (l2 : list B) : forall (l1 : list A) s, (s < length l1 * length l2)%nat ->
  nth s (list_prod l1 l2) (d1, d2) = (nth (s / length l2) l1 d1, nth (s mod length l2) l2 d2).
Proof. induction l1 as [|x l1 IH]; intros s Hs; [cbn in Hs; lia|]. cbn [list_prod length] in *.
  set (n2 := length l2) in *. assert (Hn2 : (0 < n2)%nat) by (destruct n2; lia).
  destruct (Nat.lt_ge_cases s n2) as [H|H].
  - rewrite app_nth1 by (now rewrite map_length). rewrite Nat.div_small, Nat.mod_small by exact H.
    rewrite (nth_indep _ (d1, d2) (x, d2)) by (now rewrite map_length). now rewrite (map_nth (fun y => (x, y))).
  - rewrite app_nth2 by (rewrite map_length; exact H). rewrite map_length. fold n2. rewrite IH by (fold n2; lia). fold n2.
    pose proof (Nat.div_mod (s - n2) n2 ltac:(lia)) as E. pose proof (Nat.mod_upper_bound (s - n2) n2 ltac:(lia)) as Hr.
    rewrite <- (Nat.div_unique s n2 (S ((s - n2) / n2)) ((s - n2) mod n2)) by lia.
    rewrite <- (Nat.mod_unique s n2 (S ((s - n2) / n2)) ((s - n2) mod n2)) by lia. reflexivity. Qed.
Lemma list_prod_slot {A B : Type} (d1 : A) (d2 : B) (l1 : list A) (l2 : list B) s : (s < length l1 * length l2)%nat ->
  nth s (list_prod l1 l2) (d1, d2) = (nth (fst (mp_slot Fixed (length l1) (length l2) s)) l1 d1, nth (snd (mp_slot Fixed (length l1) (length l2) s)) l2 d2).
Proof. intros Hs. now rewrite list_prod_nth. Qed.

(* enumerate(l) *)
Definition enum (l : list Z) : list (Z * Z) := combine (zl (seq 0 (length l))) l.
Lemma enum_fst l : map fst (enum l) = zl (seq 0 (length l)).
Proof. unfold enum. apply map_fst_combine. now rewrite map_length, seq_length. Qed.
Lemma enum_snd l : map snd (enum l) = l.
Proof. unfold enum. apply map_snd_combine. now rewrite map_length, seq_length. Qed.
Lemma list_prod_map {A B C D : Type} (f : A -> C) (g : B -> D) (l1 : list A) (l2 : list B) :
  flat_map (fun x => map (fun y => (f x, g y)) l2) l1 = list_prod (map f l1) (map g l2).
Proof. induction l1 as [|x l1 IH]; cbn; [reflexivity|]. now rewrite IH, map_map. Qed.
Lemma flat_map_map2 {A B C D E : Type} (f : A -> C) (g : B -> D) (h : C -> D -> E) (l1 : list A) (l2 : list B) :
  flat_map (fun x => map (fun y => h (f x) (g y)) l2) l1 = flat_map (fun u => map (fun v => h u v) (map g l2)) (map f l1).
Proof. induction l1 as [|x l1 IH]; cbn; [reflexivity|]. now rewrite IH, map_map. Qed.

(* accumulate a list and a running integer sum in one loop (MProcess._embed...: Kraus lists per outcome and their total number) *)
Definition sumZ {A : Type} (g : A -> Z) (l : list A) : Z := fold_right (fun x acc => (g x + acc)%Z) 0%Z l.
Lemma fold_append_sum {A B : Type} (f : A -> B) (g : A -> Z) l : forall a c,
  fold_left (fun (st : list B * Z) x => (fst st ++ [f x], (snd st + g x)%Z)) l (a, c) = (a ++ map f l, (c + sumZ g l)%Z).
Proof. induction l as [|x l IH]; intros a c; cbn [fold_left map sumZ fold_right fst snd]; [now rewrite app_nil_r, Z.add_0_r|].
  rewrite IH, <- app_assoc. cbn [app]. f_equal. unfold sumZ. cbn [fold_right]. lia. Qed.
Lemma sumZ_length {A B : Type} (h : A -> list B) l : sumZ (fun x => Z.of_nat (length (h x))) l = Z.of_nat (list_sum (map (@length B) (map h l))).
Proof. induction l as [|x l IH]; [reflexivity|]. unfold sumZ in *. cbn [fold_right map list_sum]. rewrite IH.
  change (fold_right Nat.add 0%nat (map (@length B) (map h l))) with (list_sum (map (@length B) (map h l))). lia. Qed.

(* ---- the dispatch table of operators._tensor_product *)
Lemma tp_dispatch_sound t1 t2 c : tp_dispatch t1 t2 = Some c -> In (t1, t2, c) tp_table.
Proof. unfold tp_dispatch. destruct (find _ tp_table) as [[[a b] c']|] eqn:F; [|discriminate]. cbn [option_map snd]. intros H. inversion H; subst.
  apply find_some in F. destruct F as [Hin Hb]. cbn [fst snd] in Hb. apply andb_prop in Hb. destruct Hb as [H1 H2].
  apply Z.eqb_eq in H1, H2. now subst. Qed.
Lemma tp_dispatch_complete t1 t2 c : In (t1, t2, c) tp_table -> tp_dispatch t1 t2 = Some c.
Proof. cbn [In tp_table]. intros H. repeat (destruct H as [H|H]; [inversion H; subst; reflexivity|]). destruct H. Qed.
