(* C06 — Povm.generate_mprocess: the instrument generated in every back-action mode induces the POVM element it was generated
   from (what MProcess.to_povm / the trace of the un-normalised post state reads off), for every dimension.
     mode 0:  hs_cb = S (x) conj S  with S Hermitian, S S = Pi  (certificate of the sqrtm output)  ->  induced effect = Pi,
              and S (x) conj S is the Lueders map  X |-> S X S^dagger  on row-major vectorised operators;
     mode 1 (the code after fix povm-generate-mprocess-mode1-eigenvectors, WITH its grouping of exactly equal adjacent eigenvalues,
              and the docstring formula without grouping):  V with orthonormal columns  ->  induced effect = V diag(w) V^dagger;
     mode 2:  hs = |rho_x>> <<Pi_x|  with tr rho_x = 1  ->  to_povm gives back Pi_x, and the map is measure-and-prepare.
   Generic in the ordered field, axiom-free. *)
From Coq Require Import List Arith Bool Lia Ring.
From QV.Core Require Import OF Sums Mat Cplx.
From QV.Model Require Import QObj C06_Compose.
Import ListNotations.

Section GenM.
Context (F : OF).
Notation Cx := (CF F).
Add Ring Cxg : (c_ring Cx).
Add Ring Frg : (c_ring F).
Notation CM := (cmat F).
Notation "x +c y" := (cadd Cx x y) (at level 50, left associativity).
Notation "x *c y" := (cmul Cx x y) (at level 40, left associativity).
Notation z0 := (c0 Cx).
Variable d : nat.

Lemma zconj_cmul (a b : Cx) : zconj (a *c b) = zconj a *c zconj b. Proof. apply (zconj_mul F). Qed.
Lemma zconj_cadd (a b : Cx) : zconj (a +c b) = zconj a +c zconj b. Proof. apply (zconj_add F). Qed.

(* (K^dagger K)[b, a] *)
Definition gram (K : CM) : CM := mmul d (cadj K) K.

Lemma divmod_id i j : (j < d)%nat -> ((i * d + j) / d = i /\ (i * d + j) mod d = j)%nat.
Proof. intros Hj. split.
  - symmetry. apply (Nat.div_unique (i * d + j) d i j); [exact Hj|lia].
  - symmetry. apply (Nat.mod_unique (i * d + j) d i j); [exact Hj|lia]. Qed.

(* the diagonal selector of induced_effect_cb picks the rows (i, i) *)
Lemma induced_diag (H : CM) c :
  induced_effect_cb F d H c = sumn d (fun i => H (i * d + i)%nat c).
Proof. unfold induced_effect_cb. rewrite sumn_flat. apply sumn_ext; intros i Hi.
  rewrite (sumn_ext d _ (fun j => if Nat.eqb i j then H (i * d + j)%nat c else z0)).
  2:{ intros j Hj. destruct (divmod_id i j Hj) as [-> ->]. destruct (Nat.eqb i j); ring. }
  now rewrite sumn_delta'. Qed.

(* X |-> K X K^dagger  ( hs_cb = K (x) conj K )  induces the effect K^dagger K; entry (a, b) of the induced row-major vector is
   (K^dagger K)[b, a] *)
Lemma induced_kron (K : CM) c :
  induced_effect_cb F d (kron d d K (cconj K)) c = gram K (c mod d) (c / d).
Proof. rewrite induced_diag. unfold gram, mmul, kron, cconj, cadj. apply sumn_ext; intros i Hi.
  destruct (divmod_id i i Hi) as [-> ->]. ring. Qed.

(* linearity of the induced effect over the group sum of mode 1 *)
Definition gsum (gs : list (F * CM)) : CM :=
  fun b a => fold_right (fun g acc => zof (fst g) *c gram (snd g) b a +c acc) z0 gs.
Lemma induced_groups gs c : induced_effect_cb F d (gm1_cb_of_groups F d gs) c = gsum gs (c mod d) (c / d).
Proof. rewrite induced_diag. unfold gm1_cb_of_groups, gsum. induction gs as [|g gs IH]; cbn [fold_right].
  - apply sumn_zero.
  - rewrite sumn_add, IH, sumn_scale_l. f_equal. f_equal. rewrite <- induced_diag. apply induced_kron. Qed.
Lemma induced_sumn m (c' : nat -> Cx) (K : nat -> CM) c :
  induced_effect_cb F d (fun r s => sumn m (fun k => c' k *c kron d d (K k) (cconj (K k)) r s)) c
  = sumn m (fun k => c' k *c gram (K k) (c mod d) (c / d)).
Proof. rewrite induced_diag, sumn_swap. apply sumn_ext; intros k Hk. rewrite sumn_scale_l. f_equal.
  rewrite <- induced_diag. apply induced_kron. Qed.

(* ------------------------------------------------------------------ mode 0 *)
Theorem gm_mode0_induces (S Pi : CM) : hermitian d S -> meq d d (mmul d S S) Pi ->
  forall c, (c < d * d)%nat -> induced_effect_cb F d (gm_mode0_cb F d S) c = Pi (c mod d)%nat (c / d)%nat.
Proof. intros HS HP c Hc. unfold gm_mode0_cb. rewrite induced_kron.
  assert (Hd : (0 < d)%nat) by (destruct d; [cbn in Hc; lia|lia]).
  assert (Hb : (c mod d < d)%nat) by (apply Nat.mod_upper_bound; lia).
  assert (Ha : (c / d < d)%nat) by (apply Nat.div_lt_upper_bound; lia).
  rewrite <- (HP _ _ Hb Ha). unfold gram, mmul, cadj. apply sumn_ext; intros i Hi.
  now rewrite <- (HS (c mod d)%nat i Hb Hi). Qed.
(* S (x) conj S  IS the Lueders map on row-major vectorised operators:  (S (x) conj S) vec X = vec (S X S^dagger) *)
Theorem gm_mode0_is_luders (S X : CM) t : (0 < d)%nat ->
  mv (d * d) (gm_mode0_cb F d S) (vecr d X) t = vecr d (mmul d (mmul d S X) (cadj S)) t.
Proof. intros Hd. rewrite (vecr_AXB d d d S X (cadj S) t Hd Hd). unfold gm_mode0_cb, mv. apply sumn_ext; intros j _.
  unfold kron, mT, cadj, cconj. reflexivity. Qed.

(* ------------------------------------------------------------------ mode 1 *)
Variable V : CM.
(* the columns of V are orthonormal ( V^dagger V = I : what eigh returns, checked on every run by the harness's certificate ) *)
Definition cols_orthonormal := forall k l, (k < d)%nat -> (l < d)%nat ->
  sumn d (fun i => zconj (V i k) *c V i l) = (if Nat.eqb k l then c1 Cx else z0).
(* V diag(u) V^dagger *)
Definition spectral (u : nat -> F) : CM := fun i j => sumn d (fun k => zof (u k) *c colouter F V k i j).
Notation col := (colouter F V).

Lemma col_adj_col k l b a : cols_orthonormal -> (k < d)%nat -> (l < d)%nat ->
  mmul d (cadj (col k)) (col l) b a = (if Nat.eqb k l then col k b a else z0).
Proof. intros Ho Hk Hl. unfold mmul, cadj, colouter.
  rewrite (sumn_ext d _ (fun i => (V b k *c zconj (V a l)) *c (zconj (V i k) *c V i l))).
  2:{ intros i _. rewrite zconj_cmul, (zconj_conj F). ring. }
  rewrite sumn_scale_l, (Ho k l Hk Hl). destruct (Nat.eqb_spec k l) as [->|]; ring. Qed.
Lemma gram_col k b a : cols_orthonormal -> (k < d)%nat -> gram (col k) b a = col k b a.
Proof. intros Ho Hk. unfold gram. rewrite (col_adj_col k k b a Ho Hk Hk). now rewrite Nat.eqb_refl. Qed.
Lemma cadj_col k b a : cadj (col k) b a = col k b a.
Proof. unfold cadj, colouter. rewrite zconj_cmul, (zconj_conj F). ring. Qed.

(* the docstring formula (no grouping) *)
Theorem gm_mode1_doc_induces (w : nat -> F) : cols_orthonormal ->
  forall c, induced_effect_cb F d (gm_mode1_cb_doc F d w V) c = spectral w (c mod d)%nat (c / d)%nat.
Proof. intros Ho c. unfold gm_mode1_cb_doc. rewrite (induced_sumn d (fun k => zof (w k)) col c).
  unfold spectral. apply sumn_ext; intros k Hk. now rewrite gram_col. Qed.

(* the code: groups of adjacent eigenvalues within tol of the group's first eigenvalue.  Invariant of the fold: every group matrix is an
   orthogonal projector (Hermitian, P^dagger P = P) that is orthogonal to the projectors still to come, and the induced sum so far is the
   partial spectral sum for the eigenvalues u (each eigenvalue replaced by the key of its group, at most tol away) *)
Variable tol : F.
Variable w : nat -> F.
Definition orthf (P : CM) (k : nat) : Prop := forall k', (k <= k')%nat -> (k' < d)%nat -> forall b a,
  mmul d (cadj P) (col k') b a = z0 /\ mmul d (cadj (col k')) P b a = z0.
Definition is_proj (P : CM) : Prop := (forall b a, gram P b a = P b a) /\ (forall b a, cadj P b a = P b a).
Lemma orthf_weaken P k : orthf P k -> orthf P (S k).
Proof. intros H k' Hk' Hd. apply H; lia. Qed.
Lemma orthf_col k : cols_orthonormal -> (k < d)%nat -> orthf (col k) (S k).
Proof. intros Ho Hk k' Hk' Hd b a. rewrite !col_adj_col by assumption.
  assert (E1 : Nat.eqb k k' = false) by (apply Nat.eqb_neq; lia).
  assert (E2 : Nat.eqb k' k = false) by (apply Nat.eqb_neq; lia). now rewrite E1, E2. Qed.
Lemma mmul_cmadd_r (A P Q : CM) b a : mmul d A (cmadd F P Q) b a = mmul d A P b a +c mmul d A Q b a.
Proof. unfold mmul, cmadd. rewrite <- sumn_add. apply sumn_ext; intros; ring. Qed.
Lemma mmul_cadj_cmadd_l (P Q A : CM) b a : mmul d (cadj (cmadd F P Q)) A b a = mmul d (cadj P) A b a +c mmul d (cadj Q) A b a.
Proof. unfold mmul, cmadd, cadj. rewrite <- sumn_add. apply sumn_ext; intros i _. rewrite zconj_cadd. ring. Qed.
Lemma orthf_cmadd P Q k : orthf P k -> orthf Q k -> orthf (cmadd F P Q) k.
Proof. intros HP HQ k' Hk' Hd b a. destruct (HP k' Hk' Hd b a) as [P1 P2]. destruct (HQ k' Hk' Hd b a) as [Q1 Q2].
  rewrite mmul_cadj_cmadd_l, mmul_cmadd_r, P1, P2, Q1, Q2. split; ring. Qed.
Lemma gram_cmadd_col P k b a : cols_orthonormal -> (k < d)%nat -> orthf P k ->
  gram (cmadd F P (col k)) b a = gram P b a +c col k b a.
Proof. intros Ho Hk HP. unfold gram. rewrite mmul_cadj_cmadd_l, !mmul_cmadd_r.
  destruct (HP k (le_n k) Hk b a) as [-> ->]. fold (gram (col k)). rewrite (gram_col k b a Ho Hk).
  fold (gram P). ring. Qed.
Lemma is_proj_col k : cols_orthonormal -> (k < d)%nat -> is_proj (col k).
Proof. intros Ho Hk. split; intros b a; [now apply gram_col|apply cadj_col]. Qed.
Lemma is_proj_cmadd_col P k : cols_orthonormal -> (k < d)%nat -> orthf P k -> is_proj P -> is_proj (cmadd F P (col k)).
Proof. intros Ho Hk HO [G A]. split; intros b a.
  - rewrite (gram_cmadd_col P k b a Ho Hk HO), G. reflexivity.
  - unfold cadj, cmadd. rewrite zconj_cadd. fold (cadj P b a). fold (cadj (col k) b a). now rewrite A, cadj_col. Qed.

Definition groups_upto (k : nat) : list (F * CM) := fold_left (gm1_step F col tol w) (seq 0 k) [].
Lemma groups_upto_S k : groups_upto (S k) = gm1_step F col tol w (groups_upto k) k.
Proof. unfold groups_upto. rewrite seq_S, fold_left_app. reflexivity. Qed.

Definition upd (u : nat -> F) (k : nat) (x : F) : nat -> F := fun j => if Nat.eqb j k then x else u j.
Lemma absF'_zero : absF' F (csub F (c0 F) (c0 F)) = c0 F.
Proof. replace (csub F (c0 F) (c0 F)) with (c0 F) by ring. unfold absF'. now rewrite (proj2 (k_leb F _ _) (k_refl F (c0 F))). Qed.
Lemma absF'_self (x : F) : absF' F (csub F x x) = c0 F.
Proof. replace (csub F x x) with (csub F (c0 F) (c0 F)) by ring. apply absF'_zero. Qed.

Lemma groups_invariant : cols_orthonormal -> kle F (c0 F) tol -> forall k, (k <= d)%nat ->
  exists u : nat -> F,
    (forall j, (j < k)%nat -> kle F (absF' F (csub F (w j) (u j))) tol) /\
    Forall (fun g => orthf (snd g) k /\ is_proj (snd g)) (groups_upto k) /\
    forall b a, gsum (groups_upto k) b a = sumn k (fun j => zof (u j) *c col j b a).
Proof. intros Ho Ht. induction k as [|k IH]; intros Hk.
  - exists w. split; [intros j Hj; lia|]. split; [constructor|]. intros b a. reflexivity.
  - assert (Hkd : (k < d)%nat) by lia. destruct (IH (Nat.lt_le_incl _ _ Hkd)) as (u & HU & IO & IS). clear IH.
    rewrite groups_upto_S. unfold gm1_step. destruct (groups_upto k) as [|[e P] t] eqn:EG.
    + exists (upd u k (w k)). split; [|split].
      * intros j Hj. unfold upd. destruct (Nat.eqb_spec j k) as [->|N]; [rewrite absF'_self; exact Ht|apply HU; lia].
      * constructor; [split; [now apply orthf_col|now apply is_proj_col]|constructor].
      * intros b a. cbn [gsum fold_right fst snd sumn]. unfold upd at 2. rewrite Nat.eqb_refl.
        rewrite (sumn_ext k (fun j => zof (upd u k (w k) j) *c col j b a) (fun j => zof (u j) *c col j b a)).
        2:{ intros j Hj. unfold upd. destruct (Nat.eqb_spec j k); [lia|reflexivity]. }
        rewrite <- IS. cbn [gsum fold_right]. rewrite (gram_col k b a Ho Hkd). ring.
    + inversion IO as [|x l [HP HPr] Ht']; subst. cbn [snd] in HP, HPr.
      destruct (kleb F (absF' F (csub F (w k) e)) tol) eqn:E.
      * exists (upd u k e). split; [|split].
        { intros j Hj. unfold upd. destruct (Nat.eqb_spec j k) as [->|N]; [now apply (k_leb F)|apply HU; lia]. }
        { constructor; [cbn [snd]; split; [apply orthf_cmadd; [now apply orthf_weaken|now apply orthf_col]|now apply is_proj_cmadd_col]|].
          eapply Forall_impl; [|exact Ht']. intros g [A B]. split; [now apply orthf_weaken|exact B]. }
        intros b a. cbn [sumn]. unfold upd at 2. rewrite Nat.eqb_refl.
        rewrite (sumn_ext k (fun j => zof (upd u k e j) *c col j b a) (fun j => zof (u j) *c col j b a)).
        2:{ intros j Hj. unfold upd. destruct (Nat.eqb_spec j k); [lia|reflexivity]. }
        rewrite <- IS. unfold gsum. cbn [fold_right fst snd].
        rewrite (gram_cmadd_col P k b a Ho Hkd HP). ring.
      * exists (upd u k (w k)). split; [|split].
        { intros j Hj. unfold upd. destruct (Nat.eqb_spec j k) as [->|N]; [rewrite absF'_self; exact Ht|apply HU; lia]. }
        { constructor; [split; [now apply orthf_col|now apply is_proj_col]|]. eapply Forall_impl; [|exact IO].
          intros g [A B]. split; [now apply orthf_weaken|exact B]. }
        intros b a. cbn [sumn]. unfold upd at 2. rewrite Nat.eqb_refl.
        rewrite (sumn_ext k (fun j => zof (upd u k (w k) j) *c col j b a) (fun j => zof (u j) *c col j b a)).
        2:{ intros j Hj. unfold upd. destruct (Nat.eqb_spec j k); [lia|reflexivity]. }
        rewrite <- IS. unfold gsum. cbn [fold_right fst snd].
        rewrite (gram_col k b a Ho Hkd). ring. Qed.

(* THE CODE, whatever is grouped: the induced effect is V diag(u) V^dagger for eigenvalues u within tol of the eigenvalues w eigh returned
   (u_k = the first eigenvalue of k's group) *)
Theorem gm_mode1_induces : cols_orthonormal -> kle F (c0 F) tol ->
  exists u : nat -> F, (forall j, (j < d)%nat -> kle F (absF' F (csub F (w j) (u j))) tol) /\
    forall c, induced_effect_cb F d (gm_mode1_cb F d tol w V) c = spectral u (c mod d)%nat (c / d)%nat.
Proof. intros Ho Ht. destruct (groups_invariant Ho Ht d (le_n d)) as (u & HU & _ & HS).
  exists u. split; [exact HU|]. intros c. unfold gm_mode1_cb. rewrite induced_groups.
  change (gm1_groups F d col tol w) with (groups_upto d). now rewrite HS. Qed.
(* ... and every group matrix is an orthogonal projector: Hermitian and idempotent *)
Theorem gm_mode1_groups_are_projectors : cols_orthonormal -> kle F (c0 F) tol ->
  Forall (fun g => (forall b a, mmul d (snd g) (snd g) b a = snd g b a) /\ (forall b a, cadj (snd g) b a = snd g b a))
         (gm1_groups F d col tol w).
Proof. intros Ho Ht. destruct (groups_invariant Ho Ht d (le_n d)) as (u & _ & HF & _).
  change (gm1_groups F d col tol w) with (groups_upto d). eapply Forall_impl; [|exact HF].
  intros g [_ [G A]]. split; [|exact A]. intros b a. transitivity (gram (snd g) b a); [|apply G]. unfold gram, mmul. apply sumn_ext; intros i _.
  f_equal. symmetry. apply A. Qed.
End GenM.

(* the action of the mode-1 instrument on row-major vectorised operators: X |-> sum_groups key_g P_g X P_g^dagger *)
Section GroupsAct.
Context (F : OF).
Notation Cx := (CF F).
Add Ring Cxga : (c_ring Cx).
Notation CM := (cmat F).
Variable d : nat.
Definition groups_apply (gs : list (F * CM)) (X : CM) : CM :=
  fun i j => fold_right (fun g acc => cadd Cx (cmul Cx (zof (fst g)) (mmul d (mmul d (snd g) X) (cadj (snd g)) i j)) acc) (c0 Cx) gs.
Lemma mv_lin n (x : Cx) (A B : CM) (v : nat -> Cx) t :
  mv n (fun r c => cadd Cx (cmul Cx x (A r c)) (B r c)) v t = cadd Cx (cmul Cx x (mv n A v t)) (mv n B v t).
Proof. unfold mv. rewrite <- sumn_scale_l, <- sumn_add. apply sumn_ext; intros; ring. Qed.
Theorem gm1_cb_acts (gs : list (F * CM)) (X : CM) t : (0 < d)%nat ->
  mv (d * d) (gm1_cb_of_groups F d gs) (vecr d X) t = vecr d (groups_apply gs X) t.
Proof. intros Hd. induction gs as [|g gs IH].
  - unfold gm1_cb_of_groups, groups_apply, vecr, mv. cbn [fold_right]. apply sumn_zero'. intros; ring.
  - etransitivity; [apply (mv_lin (d * d) (zof (fst g)) (kron d d (snd g) (cconj (snd g))) (gm1_cb_of_groups F d gs) (vecr d X) t)|].
    unfold vecr at 3. unfold groups_apply. cbn [fold_right]. f_equal; [f_equal; exact (gm_mode0_is_luders F d (snd g) X t Hd)|exact IH]. Qed.
Theorem gm_mode1_acts (V : CM) (tol : F) (w : nat -> F) (X : CM) t : (0 < d)%nat ->
  mv (d * d) (gm_mode1_cb F d tol w V) (vecr d X) t = vecr d (groups_apply (gm1_groups F d (colouter F V) tol w) X) t.
Proof. exact (gm1_cb_acts (gm1_groups F d (colouter F V) tol w) X t). Qed.
End GroupsAct.

(* ------------------------------------------------------------------ mode 2 (coefficient level, any basis with B_0 = I/sd) *)
Section Mode2.
Context (F : OF).
Add Ring Frg2 : (c_ring F).
Notation RV := (rvec F).
Variable n : nat.
Variable sd : F.
(* tr rho = sd * rho_0 = 1 *)
Definition trace_one (s : RV) : Prop := cmul F sd (s 0%nat) = c1 F.

Theorem gm_mode2_single_induces (P : list RV) (post : RV) : trace_one post ->
  Forall2 (veq n) (to_povm F sd (gm_mode2_single F P post)) P.
Proof. intros Ht. unfold to_povm, gm_mode2_single. induction P as [|p P IH]; cbn [map]; constructor; [|exact IH].
  intros b _. unfold trace_one in Ht. transitivity (cmul F (cmul F sd (post 0%nat)) (p b)); [ring|]. rewrite Ht. ring. Qed.
Theorem gm_mode2_list_induces (P post : list RV) : Forall trace_one post -> length post = length P ->
  Forall2 (veq n) (to_povm F sd (gm_mode2_list F P post)) P.
Proof. unfold to_povm, gm_mode2_list. revert post. induction P as [|p P IH]; intros [|s post] Ht Hl; try discriminate; cbn [combine map].
  - constructor.
  - inversion Ht as [|x l Hs Hr]; subst. constructor; [|apply IH; [exact Hr|cbn in Hl; lia]].
    intros b _. cbn [fst snd]. unfold trace_one in Hs. transitivity (cmul F (cmul F sd (s 0%nat)) (p b)); [ring|]. rewrite Hs. ring. Qed.
(* the mode-2 outcome map is measure-and-prepare:  |rho_x>><<Pi_x| v = <Pi_x, v> rho_x *)
Theorem gm_mode2_action (p post v : RV) a : mv n (fun a b => cmul F (post a) (p b)) v a = cmul F (dot n p v) (post a).
Proof. unfold mv, dot. rewrite (sumn_ext n _ (fun j => cmul F (post a) (cmul F (p j) (v j)))) by (intros; ring).
  rewrite sumn_scale_l. ring. Qed.
End Mode2.
