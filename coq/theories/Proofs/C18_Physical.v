(* C18 — "judged physical exactly when the first row vanishes and the dissipator matrix is positive semidefinite", end to end:
   for the stored HS matrix of a generator built from a Hermitian H and a Hermitian coefficient matrix K
   (generate_hs_from_hk), the verdict model  is_physical(atol)  holds  iff  K + atol I  is positive semidefinite
   (the first row is exactly zero, so the TP half holds for every atol >= 0, and calc_k_mat gives back K).
   Generic in the ordered field; axiom-free. *)
From Coq Require Import Field Ring Setoid Arith Lia Bool List.
From QV.Core Require Import OF Sums Mat Cplx Psd.
From QV.Model Require Import QObj HermEmbed C18_Lindblad.
From QV.Proofs Require Import C18_Algebra C18_Misc C18_Action C18_Extract C18_Rebuild C18_Verdict C18_Convert.
Import ListNotations.

Section Physical.
Context (F : OF).
Add Field Ffph : (k_field F).
Notation Cx := (CF F).
Add Ring Crph : (c_ring Cx).
Notation cmat := (cmat F).
Notation rmat := (rmat F).
Notation "x +c y" := (cadd Cx x y) (at level 50, left associativity).
Notation "x *c y" := (cmul Cx x y) (at level 40, left associativity).
Notation "x -c y" := (csub Cx x y) (at level 50, left associativity).
Notation "0c" := (c0 Cx).

Variable d : nat.
Hypothesis Hd : (0 < d)%nat.
Variable B : nat -> cmat.
Variable sd : F.
Hypothesis Horth : basis_orthonormal d B.
Hypothesis Hherm : basis_hermitian d B.
Hypothesis H0 : basis_0th_identity d sd B.
Hypothesis Hsd : cmul F sd sd = ofnat d.
Hypothesis Hcomp : basis_complete d B.
Notation n := (d * d)%nat.
Notation m := (d * d - 1)%nat.

(* calc_k_mat gives back the coefficient matrix, whatever (even non-Hermitian) H and J the generator was built with *)
Lemma calc_k_of_hjk (H J K : cmat) : meq m m (calc_k_mat d B (lcb_hjk d B H J K)) K.
Proof. intros a b Ha Hb. unfold calc_k_mat, lcb_hjk. rewrite !tr2_madd_l.
  rewrite (hk F d Hd B sd Horth H0 H a b Ha Hb), (jk F d Hd B sd Horth H0 J a b Ha Hb), (kk F d Hd B Horth Hherm K a b Ha Hb).
  ring. Qed.

(* the CP verdict as a function of the extracted matrix; it only looks at the entries in range *)
Definition cp_of_K (atol : F) (K : cmat) : bool := herm_tol F m atol K && herm_psd_dec F m (herm_part K) atol.
Lemma is_cp_dec_unfold atol (HS : rmat) : is_cp_dec F d B atol HS = cp_of_K atol (calc_k_mat d B (cb_of_hs d B HS)).
Proof. reflexivity. Qed.
Lemma allb_ext k (p q : nat -> bool) : (forall i, (i < k)%nat -> p i = q i) -> allb k p = allb k q.
Proof. induction k as [|k IH]; intros H; [reflexivity|]. cbn [allb]. rewrite (H k) by lia. f_equal. apply IH. intros; apply H; lia. Qed.
Lemma embed_shift_ext atol (K K' : cmat) : meq m m K K' ->
  meq (m + m) (m + m) (shiftI F atol (embed F m (herm_part K))) (shiftI F atol (embed F m (herm_part K'))).
Proof. intros E i j Hi Hj. unfold shiftI, embed, herm_part.
  destruct (Nat.ltb_spec i m) as [A|A], (Nat.ltb_spec j m) as [C|C];
    rewrite ?(E i j), ?(E j i), ?(E i (j - m)%nat), ?(E (j - m)%nat i), ?(E (i - m)%nat j), ?(E j (i - m)%nat),
            ?(E (i - m)%nat (j - m)%nat), ?(E (j - m)%nat (i - m)%nat) by lia; reflexivity. Qed.
Lemma cp_of_K_ext atol (K K' : cmat) : meq m m K K' -> cp_of_K atol K = cp_of_K atol K'.
Proof. intros E. unfold cp_of_K, herm_tol, herm_psd_dec. f_equal.
  - apply allb_ext; intros i Hi. apply allb_ext; intros j Hj. now rewrite (E i j Hi Hj), (E j i Hj Hi).
  - apply psd_dec_ext. now apply embed_shift_ext. Qed.

Lemma half_half : (zof (half F) : Cx) +c zof (half F) = c1 Cx.
Proof. apply cplx_eq; cbn; [|ring]. unfold half, two. field.
  intros E'. apply (one_neq_zero F). apply (double_neq0 F) in E'; [contradiction|]. apply one_neq_zero. Qed.
Lemma herm_part_of_hermitian (K : cmat) : hermitian m K -> meq m m (herm_part K) K.
Proof. intros HK i j Hi Hj. unfold herm_part. rewrite <- (HK i j Hi Hj).
  replace (zof (half F) *c (K i j +c K i j)) with ((zof (half F) +c zof (half F)) *c K i j) by ring.
  rewrite half_half. ring. Qed.
Lemma embed_shift_ext' atol (K K' : cmat) : meq m m K K' ->
  meq (m + m) (m + m) (shiftI F atol (embed F m K)) (shiftI F atol (embed F m K')).
Proof. intros E i j Hi Hj. unfold shiftI, embed.
  destruct (Nat.ltb_spec i m) as [A|A], (Nat.ltb_spec j m) as [C|C];
    rewrite ?(E i j), ?(E i (j - m)%nat), ?(E (i - m)%nat j), ?(E (i - m)%nat (j - m)%nat) by lia; reflexivity. Qed.

(* ---------------------------------------------------------------- the generated HS matrix is REAL
   (the GKSL map preserves Hermiticity and the basis is Hermitian): the complex conversion in generate_hs_from_hk leaves no
   imaginary part, i.e. its error branch "some imaginary parts of entries of matrix != 0" is unreachable in exact arithmetic *)
Notation mi := (mi F).
Notation half := (half F).
Lemma mi_conj : zconj mi = copp Cx mi. Proof. apply cplx_eq; cbn; ring. Qed.
Lemma cadj_T1 (P X Q : cmat) i j :
  zconj (mmul d (mmul d P X) (cadj Q) j i) = mmul d (mmul d Q (cadj X)) (cadj P) i j.
Proof. change (zconj (mmul d (mmul d P X) (cadj Q) j i)) with (cadj (mmul d (mmul d P X) (cadj Q)) i j).
  rewrite cadj_mmul.
  rewrite (mmul_row_ext F d (cadj (cadj Q)) Q _ i j) by (intros; apply cadj_cadj).
  rewrite (mmul_col_ext F d Q (cadj (mmul d P X)) (mmul d (cadj X) (cadj P)) i j) by (intros; apply cadj_mmul).
  symmetry. exact (@mmul_assoc Cx d d Q (cadj X) (cadj P) i j). Qed.
Lemma cadj_T2 a b (X : cmat) i j : zconj (mmul d (bhb d B a b) X j i) = mmul d (cadj X) (bhb d B b a) i j.
Proof. change (zconj (mmul d (bhb d B a b) X j i)) with (cadj (mmul d (bhb d B a b) X) i j). rewrite cadj_mmul.
  apply mmul_col_ext. intros l _. apply bhb_adj. Qed.
Lemma cadj_T3 a b (X : cmat) i j : zconj (mmul d X (bhb d B a b) j i) = mmul d (bhb d B b a) (cadj X) i j.
Proof. change (zconj (mmul d X (bhb d B a b) j i)) with (cadj (mmul d X (bhb d B a b)) i j). rewrite cadj_mmul.
  apply mmul_row_ext. intros l _. apply bhb_adj. Qed.

Lemma gksl_hp (H K X : cmat) : hermitian d H -> hermitian m K ->
  forall i j, (i < d)%nat -> (j < d)%nat -> zconj (gksl d B H K X j i) = gksl d B H K (cadj X) i j.
Proof. intros HH HK i j Hi Hj. unfold gksl. rewrite cj_add, cj_mul, cj_sub, mi_conj.
  change (zconj (mmul d H X j i)) with (cadj (mmul d H X) i j). change (zconj (mmul d X H j i)) with (cadj (mmul d X H) i j).
  rewrite !cadj_mmul.
  rewrite (mmul_col_ext F d (cadj X) (cadj H) H i j) by (intros l Hl; unfold cadj; symmetry; now apply HH).
  rewrite (mmul_row_ext F d (cadj H) H (cadj X) i j) by (intros l Hl; unfold cadj; symmetry; now apply HH).
  replace (copp Cx mi *c (mmul d (cadj X) H i j -c mmul d H (cadj X) i j))
    with (mi *c (mmul d H (cadj X) i j -c mmul d (cadj X) H i j)) by ring.
  f_equal.
  rewrite cj_sum.
  rewrite (sumn_ext m _ (fun a => sumn m (fun b => K b a *c
     (mmul d (mmul d (B (S b)) (cadj X)) (cadj (B (S a))) i j
      -c zof half *c (mmul d (bhb d B (S b) (S a)) (cadj X) i j +c mmul d (cadj X) (bhb d B (S b) (S a)) i j))))).
  2:{ intros a Ha. rewrite cj_sum. apply (@sumn_ext Cx); intros b Hb.
      rewrite cj_mul, cj_sub, cj_mul, cj_add, cj_zof, cadj_T1, cadj_T2, cadj_T3.
      rewrite (HK b a Hb Ha). ring. }
  exact (@sumn_swap Cx m m (fun a b => K b a *c
     (mmul d (mmul d (B (S b)) (cadj X)) (cadj (B (S a))) i j
      -c zof half *c (mmul d (bhb d B (S b) (S a)) (cadj X) i j +c mmul d (cadj X) (bhb d B (S b) (S a)) i j)))). Qed.
Lemma gksl_ext (H K X X' : cmat) : meq d d X X' -> forall i j, (i < d)%nat -> (j < d)%nat ->
  gksl d B H K X i j = gksl d B H K X' i j.
Proof. intros E i j Hi Hj. unfold gksl.
  rewrite (mmul_col_ext F d H X X' i j) by (intros l Hl; now apply E).
  rewrite (mmul_row_ext F d X X' H i j) by (intros l Hl; now apply E).
  f_equal. apply (sumn_ext2 Cx). intros a b _ _.
  rewrite (mmul_row_ext F d (mmul d (B (S a)) X) (mmul d (B (S a)) X') (cadj (B (S b))) i j)
    by (intros l Hl; apply mmul_col_ext; intros q Hq; now apply E).
  rewrite (mmul_col_ext F d (bhb d B (S a) (S b)) X X' i j) by (intros l Hl; now apply E).
  rewrite (mmul_row_ext F d X X' (bhb d B (S a) (S b)) i j) by (intros l Hl; now apply E).
  reflexivity. Qed.

(* HS entries of the generated generator as Hilbert-Schmidt inner products with the GKSL images of the basis elements *)
Lemma chs_hk_entry (H K : cmat) a b : hermitian d H -> hermitian m K ->
  chs_of_cb d B (lcb_hk d B H K) a b = hs_inner d (B a) (gksl d B H K (B b)).
Proof. intros HH HK. rewrite chs_as_inner. rewrite sumn_flat. unfold hs_inner.
  apply (sumn_ext2 Cx). intros i j Hi Hj.
  rewrite <- (apply_cb_entry F d (lcb_hk d B H K) (B b) i j Hj).
  rewrite (apply_lcb_hk_gksl F d Hd B H K (B b) HH HK i j Hi Hj).
  unfold vecr. now destruct (divmod_flat i j d Hj) as [-> ->]. Qed.

Theorem gen_hk_real (H K : cmat) a b : hermitian d H -> hermitian m K -> (b < n)%nat -> (a < n)%nat ->
  zconj (chs_of_cb d B (lcb_hk d B H K) a b) = chs_of_cb d B (lcb_hk d B H K) a b.
Proof. intros HH HK Hb Ha. rewrite (chs_hk_entry H K a b HH HK). unfold hs_inner.
  rewrite cj_sum.
  rewrite (sumn_ext d _ (fun i => sumn d (fun j => zconj (B a j i) *c gksl d B H K (B b) j i))).
  2:{ intros i Hi. rewrite cj_sum. apply (@sumn_ext Cx); intros j Hj.
      rewrite cj_mul, cj_cj.
      rewrite (gksl_hp H K (B b) HH HK j i Hj Hi) .
      rewrite (gksl_ext H K (cadj (B b)) (B b)) by
        (try assumption; intros p q Hp Hq; unfold cadj; symmetry; now apply (Hherm b Hb)).
      rewrite (Hherm a Ha i j Hi Hj). reflexivity. }
  exact (@sumn_swap Cx d d (fun i j => zconj (B a j i) *c gksl d B H K (B b) j i)). Qed.
Corollary gen_hk_im0 (H K : cmat) a b : hermitian d H -> hermitian m K -> (a < n)%nat -> (b < n)%nat ->
  im (chs_of_cb d B (lcb_hk d B H K) a b) = c0 F.
Proof. intros HH HK Ha Hb. pose proof (gen_hk_real H K a b HH HK Hb Ha) as E. apply (f_equal im) in E. cbn [zconj im snd] in E.
  set (x := im (chs_of_cb d B (lcb_hk d B H K) a b)) in *.
  destruct (keqb F x (c0 F)) eqn:Eq. { now apply keqb_spec. }
  exfalso. assert (Hx : x <> c0 F). { intros E0. apply keqb_spec in E0. congruence. }
  apply (double_neq0 F x Hx). replace (cadd F x x) with (csub F x (copp F x)) by ring. rewrite E. ring. Qed.

Section Gen.
Variables (H K : cmat) (HS : rmat) (atol : F).
Hypothesis HH : hermitian d H.
Hypothesis HK : hermitian m K.
(* HS is the (real) stored matrix of the generator: what generate_hs_from_hk returns when _truncate_hs finds no imaginary part *)
Hypothesis Hre : forall a b, (a < n)%nat -> (b < n)%nat -> zof (HS a b) = chs_of_cb d B (lcb_hk d B H K) a b.

Lemma stored_row0 : row0_zero F n HS.
Proof. intros b Hb. apply (zof_inj F). rewrite (Hre 0%nat b) by (try exact Hb; nia).
  apply (gen_hk_first_row_zero F d Hd B sd H0 Hsd H K HH HK b). Qed.
Lemma stored_k : meq m m (calc_k_mat d B (cb_of_hs d B HS)) K.
Proof. intros a b Ha Hb.
  rewrite (calc_k_mat_ext F d B _ _ (cb_of_hs_real_image F d Hd B Hcomp (lcb_hk d B H K) HS Hre) a b Ha Hb).
  change (lcb_hk d B H K) with (lcb_hjk d B H (j_of_k d B K) K). now apply calc_k_of_hjk. Qed.

Theorem stored_tp : kle F (c0 F) atol -> is_tp_dec F n atol HS = true.
Proof. intros Ha. apply is_tp_dec_spec. intros j Hj. rewrite (stored_row0 j Hj). split; [exact Ha|now apply opp_nonpos]. Qed.

Theorem stored_cp_iff : is_cp_dec F d B atol HS = true <-> PSD F (m + m) (shiftI F atol (embed F m K)).
Proof. rewrite is_cp_dec_unfold, (cp_of_K_ext atol _ K stored_k). unfold cp_of_K. rewrite andb_true_iff.
  assert (Ht : herm_tol F m atol K = true).
  { unfold herm_tol. apply allb_spec; intros i Hi. apply allb_spec; intros j Hj. apply k_leb.
    rewrite <- (HK i j Hi Hj). replace (K i j -c K i j) with 0c by ring.
    replace (znorm2 (0c : Cx)) with (c0 F) by (unfold znorm2; cbn; ring). apply sqr_nonneg. }
  unfold herm_psd_dec.
  rewrite (psd_dec_ext F (m + m) _ _ (embed_shift_ext' atol _ K (herm_part_of_hermitian K HK))).
  rewrite (psd_dec_spec F (m + m) _ (shiftI_symmetric F (m + m) atol _ (embed_symmetric F m K HK))).
  split; [intros [_ A]; exact A|intros A; split; [exact Ht|exact A]]. Qed.

(* physical  <=>  K + atol I positive semidefinite (the first row of a generated generator vanishes identically) *)
Theorem stored_physical_iff : kle F (c0 F) atol ->
  (is_physical_dec F d B atol HS = true <-> PSD F (m + m) (shiftI F atol (embed F m K))).
Proof. intros Ha. rewrite is_physical_dec_spec, stored_cp_iff. split; [intros [_ A]; exact A|intros A; split; [now apply stored_tp|exact A]]. Qed.
End Gen.

(* the same for THE stored matrix of generate_hs_from_hk (real part of the complex conversion; nothing is lost: gen_hk_im0) *)
Theorem generated_physical_iff (H K : cmat) (atol : F) : hermitian d H -> hermitian m K -> kle F (c0 F) atol ->
  (is_physical_dec F d B atol (cre (chs_of_cb d B (lcb_hk d B H K))) = true <-> PSD F (m + m) (shiftI F atol (embed F m K))).
Proof. intros HH HK Ha. apply (stored_physical_iff H K _ atol HH HK); [|exact Ha].
  intros a b Hx Hy. unfold cre. apply cplx_eq; [reflexivity|]. cbn. symmetry. now apply gen_hk_im0. Qed.
End Physical.
