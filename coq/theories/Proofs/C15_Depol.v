(* C15 — depolarising noise: the composed object is the stated mixture (coefficient and operator level), stays
   unit-trace / TP / complete, and positivity is preserved for 0 <= p <= 1.  Axiom-free, generic in the ordered field. *)
From Coq Require Import Field Ring Setoid List Arith Bool Lia.
From QV.Core Require Import OF Sums Mat Cplx Psd.
From QV.Model Require Import QObj HermEmbed C15_Depol.
Import ListNotations.

Section Depol.
Context (F : OF).
Add Field Ffd : (k_field F).
Notation "0" := (c0 F). Notation "1" := (c1 F).
Infix "+" := (cadd F). Infix "*" := (cmul F). Infix "<=" := (kle F). Infix "-" := (csub F).
Infix "/" := (kdiv F). Notation "- x" := (copp F x).
Notation Cx := (CF F).

(* ------------------------------------------------------------------ coefficient level *)
Definition coef (p : F) (a : nat) : F := if Nat.eqb a 0 then 1 else 1 - p.

Lemma depol_hs_row p a b : depol_hs F p a b = if Nat.eqb a b then coef p a else 0.
Proof. reflexivity. Qed.

Lemma coef_mix p (v : nat -> F) a : coef p a * v a = mix_vec F p v a.
Proof. unfold coef, mix_vec. destruct (Nat.eqb_spec a 0) as [->|_]; ring. Qed.

Theorem depol_state_is_mixture n p v a : (a < n)%nat -> depol_state F n p v a = mix_vec F p v a.
Proof. intros Ha. unfold depol_state, mv.
  rewrite (sumn_ext n _ (fun b => if Nat.eqb a b then coef p a * v b else 0)).
  2:{ intros b _. rewrite depol_hs_row. destruct (Nat.eqb a b); ring. }
  rewrite (sumn_delta' n a (fun b => coef p a * v b) Ha). apply coef_mix. Qed.

Theorem depol_povm_elem_is_mixture n p v b : (b < n)%nat -> depol_povm_elem F n p v b = mix_vec F p v b.
Proof. intros Hb. unfold depol_povm_elem.
  rewrite (sumn_ext n _ (fun a => if Nat.eqb a b then coef p a * v a else 0)).
  2:{ intros a _. rewrite depol_hs_row. destruct (Nat.eqb a b); ring. }
  rewrite (sumn_delta n b (fun a => coef p a * v a) Hb). apply coef_mix. Qed.

Theorem depol_gate_is_mixture n p HS a b : (a < n)%nat -> depol_gate F n p HS a b = mix_hs F p HS a b.
Proof. intros Ha. unfold depol_gate, mmul.
  rewrite (sumn_ext n _ (fun l => if Nat.eqb a l then coef p a * HS l b else 0)).
  2:{ intros l _. rewrite depol_hs_row. destruct (Nat.eqb a l); ring. }
  rewrite (sumn_delta' n a (fun l => coef p a * HS l b) Ha).
  unfold coef, mix_hs. destruct (Nat.eqb_spec a 0) as [->|_]; ring. Qed.

(* The SIDE of the composition matters.  [depol_gate] is D_p o G (hs_dp @ hs, noise AFTER the gate) and is the stated mixture
   for EVERY HS matrix - no unitality / trace-preservation / symmetry hypothesis in [depol_gate_is_mixture].
   The other side G o D_p (hs @ hs_dp) is entrywise  HS a b * coef p b : *)
Lemma depol_gate_wrong_side_val n p HS a b : (b < n)%nat -> depol_gate_wrong_side F n p HS a b = HS a b * coef p b.
Proof. intros Hb. unfold depol_gate_wrong_side, mmul.
  rewrite (sumn_ext n _ (fun l => if Nat.eqb l b then HS a l * coef p l else 0)).
  2:{ intros l _. rewrite depol_hs_row. destruct (Nat.eqb l b); ring. }
  apply (sumn_delta n b (fun l => HS a l * coef p l) Hb). Qed.
(* ... it coincides with the mixture when G is unital and trace preserving (every unitary gate): this is why named gates
   cannot reveal a side mistake ... *)
Theorem depol_gate_wrong_side_unital_tp n p HS a b : (a < n)%nat -> (b < n)%nat -> hs_tp F n HS -> hs_unital F n HS ->
  depol_gate_wrong_side F n p HS a b = mix_hs F p HS a b.
Proof. intros Ha Hb Htp Hun. rewrite depol_gate_wrong_side_val by exact Hb. unfold coef, mix_hs.
  destruct (Nat.eqb_spec b 0) as [->|Hb0].
  - assert (H00 : HS 0%nat 0%nat = 1) by (rewrite (Hun 0%nat) by lia; reflexivity).
    rewrite (Hun a Ha). destruct (Nat.eqb a 0); rewrite ?H00; ring.
  - destruct (Nat.eqb_spec a 0) as [->|Ha0]; [|ring]. rewrite (Htp b Hb).
    destruct (Nat.eqb_spec b 0); [contradiction|]. ring. Qed.
(* ... and it is NOT the mixture for a non-unital trace-preserving map: the replacement channel X -> tr(X) sigma on n = 2
   coefficients (HS = [[1,0],[1,0]]), fully depolarised (p = 1): the wrong side returns G itself, the mixture is e_0 e_0^T *)
Theorem depol_gate_wrong_side_refuted :
  exists (n : nat) (p : F) (HS : rmat F) (a b : nat), hs_tp F n HS /\ 0 <= p /\ p <= 1 /\ (a < n)%nat /\ (b < n)%nat /\
    depol_gate_wrong_side F n p HS a b <> mix_hs F p HS a b /\ depol_gate F n p HS a b = mix_hs F p HS a b.
Proof. exists 2%nat, 1, (fun a b => if Nat.eqb b 0 then 1 else 0), 1%nat, 0%nat.
  split; [|split; [|split; [|split; [|split; [|split]]]]].
  - intros b Hb. destruct b as [|[|b]]; [reflexivity|reflexivity|lia].
  - apply one_nonneg.
  - apply k_refl.
  - lia.
  - lia.
  - rewrite depol_gate_wrong_side_val by lia. unfold mix_hs, coef. cbn. intros E.
    apply (F_1_neq_0 (k_field F)). etransitivity; [|etransitivity; [exact E|]]; ring.
  - apply depol_gate_is_mixture. lia. Qed.

(* p = 0 : nothing changes;  p = 1 : only the B_0 (trace) component survives *)
Corollary depol_state_rate0 n v a : (a < n)%nat -> depol_state F n 0 v a = v a.
Proof. intros Ha. rewrite depol_state_is_mixture by exact Ha. unfold mix_vec. ring. Qed.
Corollary depol_state_rate1 n v a : (a < n)%nat -> depol_state F n 1 v a = if Nat.eqb a 0 then v 0%nat else 0.
Proof. intros Ha. rewrite depol_state_is_mixture by exact Ha. unfold mix_vec. destruct (Nat.eqb a 0); ring. Qed.

(* ------------------------------------------------------------------ equality constraints are preserved *)
Theorem depol_state_unit_trace n sd p v : (0 < n)%nat -> vec_unit_trace F sd v -> vec_unit_trace F sd (depol_state F n p v).
Proof. intros Hn H. unfold vec_unit_trace in *. rewrite depol_state_is_mixture by exact Hn. unfold mix_vec. cbn.
  transitivity (sd * v 0%nat); [ring|exact H]. Qed.

Theorem depol_gate_tp n p HS : (0 < n)%nat -> hs_tp F n HS -> hs_tp F n (depol_gate F n p HS).
Proof. intros Hn H b Hb. rewrite depol_gate_is_mixture by exact Hn. unfold mix_hs. cbn. rewrite (H b Hb). ring. Qed.

Lemma hs_sum_depol n p HSs a b : (a < n)%nat ->
  hs_sum F (depol_mprocess F n p HSs) a b = mix_hs F p (hs_sum F HSs) a b.
Proof. intros Ha. unfold hs_sum, depol_mprocess. induction HSs as [|H t IH]; cbn [map fold_right].
  - unfold mix_hs. destruct (Nat.eqb a 0); ring.
  - rewrite IH, depol_gate_is_mixture by exact Ha. unfold mix_hs. destruct (Nat.eqb a 0); ring. Qed.

Theorem depol_mprocess_sum_tp n p HSs : (0 < n)%nat -> hs_tp F n (hs_sum F HSs) -> hs_tp F n (hs_sum F (depol_mprocess F n p HSs)).
Proof. intros Hn H b Hb. rewrite hs_sum_depol by exact Hn. unfold mix_hs. cbn. rewrite (H b Hb). ring. Qed.

Lemma vec_sum_depol n p vs a : (a < n)%nat ->
  vec_sum F (depol_povm F n p vs) a = mix_vec F p (vec_sum F vs) a.
Proof. intros Ha. unfold vec_sum, depol_povm. induction vs as [|v t IH]; cbn [map fold_right].
  - unfold mix_vec. destruct (Nat.eqb a 0); ring.
  - rewrite IH, depol_povm_elem_is_mixture by exact Ha. unfold mix_vec. destruct (Nat.eqb a 0); ring. Qed.

Theorem depol_povm_complete n sd p vs : (0 < n)%nat -> povm_complete F n sd vs -> povm_complete F n sd (depol_povm F n p vs).
Proof. intros Hn H a Ha. rewrite vec_sum_depol by exact Ha. unfold mix_vec. rewrite (H a Ha), (H 0%nat Hn). cbn.
  destruct (Nat.eqb a 0); ring. Qed.

(* ------------------------------------------------------------------ operator level *)
Definition ones (d : nat) : F := sumn d (fun _ => 1).

Lemma ones_ge d : 0 <= ones d.
Proof. unfold ones. induction d as [|d IH]; cbn; [apply k_refl|]. apply add_nonneg; [exact IH|apply one_nonneg]. Qed.
Lemma ones_neq0 d : (0 < d)%nat -> ones d <> 0.
Proof. intros Hd E. destruct d as [|d]; [lia|]. unfold ones in E. cbn in E.
  apply (not_le_0_m1 F). replace (- (1)) with (sumn d (fun _ => 1) - (sumn d (fun _ => 1) + 1)) by ring.
  rewrite E. replace (sumn d (fun _ => 1) - 0) with (sumn d (fun _ : nat => 1)) by ring. apply (ones_ge d). Qed.

Lemma sum_mix n p (v g : nat -> F) : (0 < n)%nat ->
  sumn n (fun a => mix_vec F p v a * g a) = (1 - p) * sumn n (fun a => v a * g a) + p * (v 0%nat * g 0%nat).
Proof. intros Hn. unfold mix_vec.
  rewrite (sumn_ext n _ (fun a => (1 - p) * (v a * g a) + (if Nat.eqb a 0 then p * (v a * g a) else 0))).
  2:{ intros a _. destruct (Nat.eqb_spec a 0) as [->|_]; ring. }
  rewrite sumn_add, sumn_scale_l, (sumn_delta n 0%nat (fun a => p * (v a * g a)) Hn). reflexivity. Qed.

Lemma re_scal (x : F) (z : Cx) : re (cmul Cx (zof x) z) = x * re z.
Proof. cbn. ring. Qed.
Lemma im_scal (x : F) (z : Cx) : im (cmul Cx (zof x) z) = x * im z.
Proof. cbn. ring. Qed.

Lemma re_op_of_vec d B (v : nat -> F) i j : re (op_of_vec d B v i j) = sumn (d * d) (fun a => v a * re (B a i j)).
Proof. unfold op_of_vec. rewrite re_sumn. apply sumn_ext; intros a _. apply re_scal. Qed.
Lemma im_op_of_vec d B (v : nat -> F) i j : im (op_of_vec d B v i j) = sumn (d * d) (fun a => v a * im (B a i j)).
Proof. unfold op_of_vec. rewrite im_sumn. apply sumn_ext; intros a _. apply im_scal. Qed.

Section Basis.
Variables (d : nat) (sd dF : F) (B : nat -> cmat F).
Hypothesis Hd : (0 < d)%nat.
Hypothesis HdF : dF = ones d.
Hypothesis Hsd : sd * sd = dF.
Hypothesis HB0 : basis_0th_identity d sd B.

Lemma dF_neq0 : dF <> 0. Proof. rewrite HdF. now apply ones_neq0. Qed.
Lemma sd_neq0 : sd <> 0. Proof. intros E. apply dF_neq0. rewrite <- Hsd, E. ring. Qed.
Lemma dd_pos : (0 < d * d)%nat. Proof. nia. Qed.

Lemma B0_re i j : (i < d)%nat -> (j < d)%nat -> re (B 0%nat i j) = if Nat.eqb i j then 1 / sd else 0.
Proof. intros Hi Hj. pose proof (HB0 i j Hi Hj) as H. apply (f_equal re) in H. rewrite re_scal in H.
  pose proof sd_neq0 as Hs. destruct (Nat.eqb i j); cbn in H.
  - replace (re (B 0%nat i j)) with (sd * re (B 0%nat i j) / sd) by (field; exact Hs). rewrite H. reflexivity.
  - replace (re (B 0%nat i j)) with (sd * re (B 0%nat i j) / sd) by (field; exact Hs). rewrite H. field. exact Hs. Qed.
Lemma B0_im i j : (i < d)%nat -> (j < d)%nat -> im (B 0%nat i j) = 0.
Proof. intros Hi Hj. pose proof (HB0 i j Hi Hj) as H. apply (f_equal im) in H. rewrite im_scal in H.
  pose proof sd_neq0 as Hs.
  replace (im (B 0%nat i j)) with (sd * im (B 0%nat i j) / sd) by (field; exact Hs). rewrite H.
  destruct (Nat.eqb i j); cbn; field; exact Hs. Qed.

Lemma re_ctrace (X : cmat F) : re (ctrace F d X) = sumn d (fun i => re (X i i)).
Proof. unfold ctrace. apply re_sumn. Qed.
Lemma im_ctrace (X : cmat F) : im (ctrace F d X) = sumn d (fun i => im (X i i)).
Proof. unfold ctrace. apply im_sumn. Qed.

Lemma ctrace_B0_re : re (ctrace F d (B 0%nat)) = sd.
Proof. rewrite re_ctrace. rewrite (sumn_ext d _ (fun _ => (1 / sd) * 1)).
  2:{ intros i Hi. rewrite (B0_re i i Hi Hi), Nat.eqb_refl. ring. }
  rewrite sumn_scale_l. fold (ones d). rewrite <- HdF, <- Hsd. field. exact sd_neq0. Qed.
Lemma ctrace_B0_im : im (ctrace F d (B 0%nat)) = 0.
Proof. rewrite im_ctrace. apply sumn_zero'. intros i Hi. now apply B0_im. Qed.

Hypothesis HBt : basis_rest_traceless F d B.

(* tr(rho) = sd * v_0 *)
Lemma ctrace_op_of_vec v : ctrace F d (op_of_vec d B v) = zof (sd * v 0%nat).
Proof. apply cplx_eq.
  - rewrite re_ctrace. rewrite (sumn_ext d _ (fun i => sumn (d * d) (fun a => v a * re (B a i i)))) by (intros; apply re_op_of_vec).
    rewrite sumn_swap.
    rewrite (sumn_ext (d * d) _ (fun a => if Nat.eqb a 0 then v a * sd else 0)).
    2:{ intros a Ha. rewrite sumn_scale_l. destruct (Nat.eqb_spec a 0) as [->|Hne].
        - rewrite <- re_ctrace, ctrace_B0_re. reflexivity.
        - rewrite <- re_ctrace, (HBt a) by lia. cbn. ring. }
    rewrite (sumn_delta (d * d) 0%nat (fun a => v a * sd) dd_pos). cbn. ring.
  - rewrite im_ctrace. rewrite (sumn_ext d _ (fun i => sumn (d * d) (fun a => v a * im (B a i i)))) by (intros; apply im_op_of_vec).
    rewrite sumn_swap. cbn. apply sumn_zero'. intros a Ha. rewrite sumn_scale_l.
    destruct (Nat.eq_dec a 0) as [->|Hne].
    + rewrite <- im_ctrace, ctrace_B0_im. ring.
    + rewrite <- im_ctrace, (HBt a) by lia. cbn. ring. Qed.

(* the operator of the mixed coefficient vector is  D_p  of the operator:  (1-p) X + p tr(X) I/d  *)
Theorem op_of_mix_vec p v i j : (i < d)%nat -> (j < d)%nat ->
  op_of_vec d B (mix_vec F p v) i j = D_op F d dF p (op_of_vec d B v) i j.
Proof. intros Hi Hj. pose proof sd_neq0 as Hs. pose proof dF_neq0 as Hf.
  unfold D_op. rewrite ctrace_op_of_vec. apply cplx_eq.
  - rewrite re_op_of_vec, (sum_mix _ _ _ _ dd_pos), (B0_re i j Hi Hj).
    cbn [re cadd CF zadd fst]. rewrite !re_scal, re_op_of_vec.
    destruct (Nat.eqb i j); cbn [re fst zof c0 CF]; rewrite <- Hsd; field; exact Hs.
  - rewrite im_op_of_vec, (sum_mix _ _ _ _ dd_pos), (B0_im i j Hi Hj).
    cbn [im cadd CF zadd snd]. rewrite !im_scal, im_op_of_vec.
    destruct (Nat.eqb i j); cbn [im snd zof c0 CF]; ring. Qed.

(* state:  rho' = D_p(rho) ;  POVM element (by duality, D_p is self-dual):  E_x' = D_p(E_x) *)
Theorem depol_state_operator p v i j : (i < d)%nat -> (j < d)%nat ->
  op_of_vec d B (depol_state F (d * d) p v) i j = D_op F d dF p (op_of_vec d B v) i j.
Proof. intros Hi Hj. rewrite <- op_of_mix_vec by assumption. unfold op_of_vec. apply sumn_ext; intros a Ha.
  now rewrite depol_state_is_mixture. Qed.
Theorem depol_povm_elem_operator p v i j : (i < d)%nat -> (j < d)%nat ->
  op_of_vec d B (depol_povm_elem F (d * d) p v) i j = D_op F d dF p (op_of_vec d B v) i j.
Proof. intros Hi Hj. rewrite <- op_of_mix_vec by assumption. unfold op_of_vec. apply sumn_ext; intros a Ha.
  now rewrite depol_povm_elem_is_mixture. Qed.

(* gate / instrument outcome, on EVERY operator X = op_of_vec x:  G'(X) = D_p(G(X)) *)
Theorem depol_gate_operator p HS x i j : (i < d)%nat -> (j < d)%nat ->
  op_of_vec d B (mv (d * d) (depol_gate F (d * d) p HS) x) i j = D_op F d dF p (op_of_vec d B (mv (d * d) HS x)) i j.
Proof. intros Hi Hj. rewrite <- op_of_mix_vec by assumption. unfold op_of_vec. apply sumn_ext; intros a Ha. f_equal. f_equal.
  unfold mv. rewrite (sumn_ext (d * d) _ (fun b => (1 - p) * (HS a b * x b) + p * ((if Nat.eqb a 0 then HS 0%nat b else 0) * x b))).
  2:{ intros b _. rewrite depol_gate_is_mixture by exact Ha. unfold mix_hs. ring. }
  rewrite sumn_add, !sumn_scale_l. unfold mix_vec. f_equal. f_equal.
  destruct (Nat.eqb a 0); [reflexivity|]. apply sumn_zero'. intros; ring. Qed.
End Basis.
End Depol.
