(* C12 — facts about the string-level decision tables (Model/C12_Dispatch.v).  Axiom-free. *)
From Coq Require Import String List Bool ZArith Lia.
From QV.Core Require Import OF Sums Mat.
From QV.Model Require Import C12_Loss C12_Dispatch.
Import ListNotations.
Open Scope string_scope.

(* the state-machine model of _set_weights_by_mode (Model/C12_Loss.v) is the interpretation of the decision table *)
Lemma set_weights_by_mode_is_table {R : CR} md (c : @wts R) k (cur : @wts R) :
  set_weights_by_mode md c k cur = run_action (action_of md) c k cur.
Proof. destruct md; reflexivity. Qed.
Lemma config_re_is_table {R : CR} (cm : bool) (c cur : option (@vec R)) :
  config_re cm c cur = run_action_re (re_dispatch (Some (if cm then "custom" else "identity"))) c cur.
Proof. destruct cm; reflexivity. Qed.

Lemma oeqb_true o c : oeqb o c = true -> o = Some c.
Proof. destruct o as [s|]; cbn; [|discriminate]. intros H. apply String.eqb_eq in H. now subst. Qed.
Lemma omem_spec o l : omem o l = true -> exists c, In c l /\ o = Some c.
Proof. unfold omem. rewrite existsb_exists. intros [c [Hin H]]. exists c. split; [exact Hin|now apply oeqb_true]. Qed.

(* every mode a squared-error option can hold has a branch that INSTALLS weights (never ANoBranch / APass) *)
Lemma se_accepted_mode_has_branch mw hw mw' :
  option_accepts se_modes mw hw = OOk mw' ->
  se_dispatch mw' = AReset \/ se_dispatch mw' = ACustom \/ exists ub, se_dispatch mw' = AInverse ub.
Proof. unfold option_accepts. set (m := if hw then Some "custom" else mw).
  destruct (omem m se_modes) eqn:E; [|discriminate]. intros H; inversion H; subst mw'.
  apply omem_spec in E. destruct E as [c [Hin ->]].
  cbn in Hin. destruct Hin as [<-|[<-|[<-|[<-|[<-|[]]]]]]; cbn; eauto. Qed.
Lemma re_accepted_mode_has_branch mw hw mw' :
  option_accepts re_modes mw hw = OOk mw' -> re_dispatch mw' = AReset \/ re_dispatch mw' = ACustom.
Proof. unfold option_accepts. set (m := if hw then Some "custom" else mw).
  destruct (omem m re_modes) eqn:E; [|discriminate]. intros H; inversion H; subst mw'.
  apply omem_spec in E. destruct E as [c [Hin ->]].
  cbn in Hin. destruct Hin as [<-|[<-|[]]]; cbn; eauto. Qed.
(* an option that is given weights holds mode "custom", whatever mode was asked for *)
Lemma option_with_weights_is_custom modes mw : In "custom" modes -> option_accepts modes mw true = OOk (Some "custom").
Proof. intros Hin. unfold option_accepts. assert (E : omem (Some "custom") modes = true).
  { unfold omem. apply existsb_exists. exists "custom". split; [exact Hin|reflexivity]. }
  now rewrite E. Qed.

(* ---- replace_prob_dist in the form the Python source computes it (integers converted, then subtracted as floats) *)
Section Replace.
Context (F : OF).
Add Field Frp : (k_field F).
Notation "0" := (c0 F). Notation "1" := (c1 F).
Infix "+" := (cadd F). Infix "*" := (cmul F). Infix "-" := (csub F). Infix "/" := (kdiv F).

Lemma of_nat_S n : of_nat F (S n) = of_nat F n + 1.
Proof. reflexivity. Qed.
Lemma of_nat_sub m c : (c <= m)%nat -> of_nat F (m - c) = of_nat F m - of_nat F c.
Proof. revert c. induction m as [|m IH]; intros c H.
  - replace c with O by lia. cbn. ring.
  - destruct c as [|c]; [cbn; ring|]. replace (S m - S c)%nat with (m - c)%nat by lia.
    rewrite IH by lia. rewrite !of_nat_S. ring. Qed.
Lemma filter_length_le {A} (f : A -> bool) l : (length (filter f l) <= length l)%nat.
Proof. induction l as [|a l IH]; cbn; [lia|]. destruct (f a); cbn; lia. Qed.
Lemma count_lt_le m (q : @vec F) eps : (count_lt F m q eps <= m)%nat.
Proof. unfold count_lt. etransitivity; [apply filter_length_le|]. now rewrite seq_length. Qed.
Lemma replace_prob_dist_alt m eps (q : @vec F) x :
  replace_prob_dist F m eps q x
  = if ltb F (q x) eps then eps
    else q x - (eps * of_nat F (count_lt F m q eps)) / (of_nat F m - of_nat F (count_lt F m q eps)).
Proof. unfold replace_prob_dist. cbv zeta. destruct (ltb F (q x) eps); [reflexivity|].
  now rewrite (of_nat_sub m _ (count_lt_le m q eps)). Qed.
End Replace.

(* the placement bounds of the model (Model/C12_Loss.v place_inv: special case row = 2, block (row-1) x (row-1)) in the
   integer form of the decision table *)
Lemma place_table_matches_model (row : nat) : (1 <= row)%nat ->
  place_special (Z.of_nat row) (Z.of_nat row) = Nat.eqb row 2 /\
  Z.to_nat (place_rows (Z.of_nat row) (Z.of_nat row)) = (row - 1)%nat /\
  Z.to_nat (place_cols (Z.of_nat row) (Z.of_nat row)) = (row - 1)%nat.
Proof. intros H. unfold place_special, place_rows, place_cols. repeat split; try lia.
  destruct (Nat.eqb_spec row 2) as [->|Hne]; [reflexivity|].
  destruct (Z.eqb_spec (Z.of_nat row) 2); [lia|reflexivity]. Qed.
